(* Proofs/C10b.v — C10, part 2: the relation "same logical content, other Go
   carrier" and the primitives of the evaluator that respect it. *)
From Mpath.Model Require Import Base Dec Types GoVal Ast Lexer Parser Funcs Eval.
From Mpath.Proofs Require Import DecQ C01 C10a.

(** * Outcomes related up to a relation on the values *)
Definition orel {A B} (P : A -> B -> Prop) (o1 : outcome A) (o2 : outcome B) : Prop :=
  match o1, o2 with
  | Ok a, Ok b => P a b
  | Err EKeyNotFound, Err EKeyNotFound => True
  | Err (EOther _), Err (EOther _) => True
  | Panic _, Panic _ => True
  | OutOfFuel, OutOfFuel => True
  | Declined _, Declined _ => True
  | _, _ => False
  end.

Lemma orel_bind {A B C D} (P : A -> B -> Prop) (Q : C -> D -> Prop) o1 o2 f g :
  orel P o1 o2 -> (forall a b, P a b -> orel Q (f a) (g b)) -> orel Q (bind o1 f) (bind o2 g).
Proof.
  intros Ho Hf. destruct o1 as [a|[|t1]|m1| |w1], o2 as [b|[|t2]|m2| |w2]; cbn in Ho |- *;
    try contradiction; try exact I. apply Hf. exact Ho.
Qed.

Lemma orel_fail {A B} (P : A -> B -> Prop) s t : orel P (fail s) (fail t).
Proof. exact I. Qed.

Lemma orel_weaken {A B} (P Q : A -> B -> Prop) o1 o2 :
  (forall a b, P a b -> Q a b) -> orel P o1 o2 -> orel Q o1 o2.
Proof.
  intros H Ho. destruct o1 as [a|[|t1]|m1| |w1], o2 as [b|[|t2]|m2| |w2]; cbn in Ho |- *;
    try contradiction; try exact I. apply H. exact Ho.
Qed.

Definition opt_rel {A B} (P : A -> B -> Prop) (o1 : option A) (o2 : option B) : Prop :=
  match o1, o2 with Some a, Some b => P a b | None, None => True | _, _ => False end.

(** * Views of a Go value *)
Definition numv (v : gv) : option dec :=
  match v with
  | VInt _ _ z => Some (mkDec z 0)
  | VFloat _ _ (FFin d) => Some d
  | VDec d => Some d
  | _ => None
  end.

Definition is_dec (v : gv) : bool := match v with VDec _ => true | _ => false end.
Definition is_obj (v : gv) : bool := match v with VMap _ _ _ _ | VStruct _ => true | _ => false end.
Definition is_ptr (v : gv) : bool := match v with VPtr _ => true | _ => false end.

(** what [deref1 (value_of v)] holds *)
Definition tgt (v : gv) : gv :=
  match v with VPtr (Some x) => x | VPtr None => VNil | _ => v end.

Lemma tgt_deref v : rv_v (deref1 (value_of v)) = tgt v.
Proof.
  destruct v as [| | k nm z | | | |o| | | | | |]; try reflexivity.
  - unfold deref1, rkind, value_of; cbn. destruct (nk_unsigned k); reflexivity.
  - destruct o; reflexivity.
Qed.

Lemma deref_if v : rv_if (deref1 (value_of v)) = false.
Proof.
  destruct v as [| | k nm z | | | |o| | | | | |]; try reflexivity.
  - unfold deref1, rkind, value_of; cbn. destruct (nk_unsigned k); reflexivity.
  - destruct o; reflexivity.
Qed.

Lemma deref_eta v : deref1 (value_of v) = mkRv false (tgt v).
Proof.
  pose proof (tgt_deref v) as H1. pose proof (deref_if v) as H2.
  destruct (deref1 (value_of v)) as [b x]. cbn in H1, H2. subst. reflexivity.
Qed.

(** map keys that are strings: Go strings and non-empty named strings *)
Definition mkey (k : gv) : option str :=
  match k with
  | VStr false s => Some s
  | VStr true (c :: s) => Some (c :: s)
  | _ => None
  end.

Fixpoint mfields (kvs : list (gv * gv)) : option (list (str * gv)) :=
  match kvs with
  | [] => Some []
  | (k, v) :: r =>
    match mkey k, mfields r with
    | Some s, Some l => Some ((s, v) :: l)
    | _, _ => None
    end
  end.

Fixpoint sfields (fs : list (str * bool * bool * gv)) : list (str * gv) :=
  match fs with
  | [] => []
  | (n, e, _, v) :: r => if e then (n, v) :: sfields r else sfields r
  end.

(** an exported field that is non-zero for reflect.IsZero and for cmp.Equal
    (an interface-typed slot is zero exactly when it holds nil) *)
Definition nzw (f : str * bool * bool * gv) : bool :=
  let '(_, e, i, v) := f in
  e && negb (if (i : bool) then match v with VNil => true | _ => false end else gv_is_zero v) &&
  negb (if (i : bool) then match v with VNil => true | _ => false end else cmp_is_zero v).

Definition seq_nil (v : gv) : bool := match v with VSlice _ n _ => n | _ => false end.
(** a non-empty Go array is not the zero value of its type (cmp.Equal sees
    an all-zero array as empty, an all-zero slice as non-empty) *)
Definition arr_ok (v : gv) : Prop :=
  match v with VArray _ (_ :: _) => cmp_is_zero v = false | _ => True end.
Definition tag_ok (t : ety) (xs : list gv) : Prop := t = EDec -> Forall (fun x => is_dec x = true) xs.

Fixpoint flookup (name : str) (fs : list (str * gv)) : option gv :=
  match fs with
  | [] => None
  | (k, v) :: r => if equal_fold k name then Some v else flookup name r
  end.

Section Mode.
(** [st]: objects may be structs (keys compared up to letter case);
    [pt]: the value handed to the evaluator may be a pointer to an object. *)
Variables st pt : bool.

Definition keq (a b : str) : Prop := if st then str_lower a = str_lower b else a = b.

Definition objv (v : gv) : option (bool * list (str * gv)) :=
  match v with
  | VMap _ _ n kvs => option_map (pair n) (mfields kvs)
  | VStruct fs => if st && existsb nzw fs then Some (false, sfields fs) else None
  | _ => None
  end.

(** a stored field on which number conversion and number-unless-string
    conversion agree: not a string spelling a number (nor a pointer to one) *)
Definition nn (v : gv) : Prop :=
  match v with
  | VStr _ s | VPtr (Some (VStr _ s)) => dec_of_string s = None
  | _ => True
  end.

Lemma nn_spec v : nn v -> convert_number v = convert_unless_string v.
Proof.
  intros H. unfold convert_unless_string. destruct (is_go_string v) eqn:E; [|reflexivity].
  destruct v as [| | | |[|] s| | | | | | | |]; try discriminate E. cbn in H.
  unfold convert_number, convert_number_check, convert_number_check_base.
  destruct (is_empty_value (value_of (VStr false s))); cbn; rewrite H; reflexivity.
Qed.

(** how a stored field is compared: when structs are admitted a field is only
    ever observed through convertToDecimalIfNumber *)
Definition fcv (v : gv) : gv := if st then convert_unless_string v else v.

Inductive R : gv -> gv -> Prop :=
| R_nil : R VNil VNil
| R_bool b : R (VBool false b) (VBool false b)
| R_str s : R (VStr false s) (VStr false s)
| R_num v1 v2 d1 d2 :
    numv v1 = Some d1 -> numv v2 = Some d2 -> deqv d1 d2 -> is_dec v1 = is_dec v2 -> R v1 v2
| R_seq v1 v2 t1 t2 xs1 xs2 :
    elems_of v1 = Some (t1, xs1) -> elems_of v2 = Some (t2, xs2) ->
    seq_nil v1 = seq_nil v2 -> arr_ok v1 -> arr_ok v2 -> tag_ok t1 xs1 -> tag_ok t2 xs2 ->
    Forall2 R xs1 xs2 -> R v1 v2
| R_obj v1 v2 n fs1 fs2 :
    objv v1 = Some (n, fs1) -> objv v2 = Some (n, fs2) ->
    Forall2 (fun a b => keq (fst a) (fst b) /\
                        (R (fcv (snd a)) (fcv (snd b)) /\ (st = true -> nn (snd a) /\ nn (snd b)))) fs1 fs2 ->
    R v1 v2.

Definition Rf (a b : gv) : Prop :=
  R (fcv a) (fcv b) /\ (st = true -> nn a /\ nn b).

Definition Rflds (fs1 fs2 : list (str * gv)) : Prop :=
  Forall2 (fun a b => keq (fst a) (fst b) /\ Rf (snd a) (snd b)) fs1 fs2.

(** a pointer is accepted only where [pt] says so, and only to a non-nil,
    non-empty object *)
Definition pok (v : gv) : Prop :=
  match v with
  | VPtr (Some x) =>
      pt = true /\
      match x with
      | VMap _ _ n kvs => n = false /\ kvs <> []
      | VStruct _ => True
      | _ => False
      end
  | VPtr None => False
  | _ => True
  end.

(** the relation on the values that flow through the evaluator *)
Definition Rv (a b : gv) : Prop := R (tgt a) (tgt b) /\ pok a /\ pok b.

(** ** Elementary facts *)
Lemma R_not_ptr a b : R a b -> is_ptr a = false /\ is_ptr b = false.
Proof.
  intros H. destruct H as [|b0|s|v1 v2 d1 d2 H1 H2 _ _|v1 v2 t1 t2 xs1 xs2 H1 H2 _ _ _ _ _ _|v1 v2 n fs1 fs2 H1 H2 _];
    try (split; reflexivity).
  - destruct v1; try discriminate H1; destruct v2; try discriminate H2; split; reflexivity.
  - destruct v1; try discriminate H1; destruct v2; try discriminate H2; split; reflexivity.
  - destruct v1; try discriminate H1; destruct v2; try discriminate H2; split; reflexivity.
Qed.

Lemma tgt_not_ptr a : is_ptr a = false -> tgt a = a.
Proof. destruct a; try reflexivity; discriminate. Qed.

Lemma pok_not_ptr a : is_ptr a = false -> pok a.
Proof. destruct a; try (intros; exact I); discriminate. Qed.

Lemma R_Rv a b : R a b -> Rv a b.
Proof.
  intros H. destruct (R_not_ptr a b H) as [Ha Hb]. unfold Rv.
  rewrite (tgt_not_ptr a Ha), (tgt_not_ptr b Hb).
  split; [exact H | split; apply pok_not_ptr; assumption].
Qed.

Lemma Rv_no_pt a b : pt = false -> Rv a b -> R a b.
Proof.
  intros Hp [H [Ha Hb]].
  assert (Hna : is_ptr a = false).
  { destruct a as [| | | | | |o| | | | | |]; try reflexivity. destruct o as [x|]; [|destruct Ha].
    destruct Ha as [Ha _]. congruence. }
  assert (Hnb : is_ptr b = false).
  { destruct b as [| | | | | |o| | | | | |]; try reflexivity. destruct o as [x|]; [|destruct Hb].
    destruct Hb as [Hb _]. congruence. }
  rewrite (tgt_not_ptr a Hna), (tgt_not_ptr b Hnb) in H. exact H.
Qed.

Lemma Rv_nil : Rv VNil VNil.
Proof. apply R_Rv. constructor. Qed.

Lemma is_obj_objv v x : objv v = Some x -> is_obj v = true.
Proof. destruct v; try discriminate; reflexivity. Qed.

(** the shape of two related values *)
Inductive shape : gv -> gv -> Prop :=
| Sh_nil : shape VNil VNil
| Sh_bool b : shape (VBool false b) (VBool false b)
| Sh_str s : shape (VStr false s) (VStr false s)
| Sh_num v1 v2 d1 d2 : numv v1 = Some d1 -> numv v2 = Some d2 -> deqv d1 d2 -> is_dec v1 = is_dec v2 -> shape v1 v2
| Sh_seq v1 v2 t1 t2 xs1 xs2 :
    elems_of v1 = Some (t1, xs1) -> elems_of v2 = Some (t2, xs2) ->
    seq_nil v1 = seq_nil v2 -> arr_ok v1 -> arr_ok v2 -> tag_ok t1 xs1 -> tag_ok t2 xs2 -> Forall2 R xs1 xs2 -> shape v1 v2
| Sh_obj v1 v2 n fs1 fs2 :
    objv v1 = Some (n, fs1) -> objv v2 = Some (n, fs2) -> Rflds fs1 fs2 -> shape v1 v2.

Lemma R_shape a b : R a b -> shape a b.
Proof.
  intros H. destruct H; [constructor|constructor|constructor|econstructor; eassumption|econstructor; eassumption|].
  econstructor; eassumption.
Qed.

Lemma shape_R a b : shape a b -> R a b.
Proof.
  intros H. destruct H; [constructor|constructor|constructor|econstructor; eassumption|econstructor; eassumption|].
  econstructor; eassumption.
Qed.

Lemma R_obj_inv x y :
  R x y -> is_obj x = true ->
  exists n fs1 fs2, objv x = Some (n, fs1) /\ objv y = Some (n, fs2) /\ Rflds fs1 fs2.
Proof.
  intros H Ho. destruct (R_shape x y H) as [| | |v1 v2 d1 d2 H1 H2 _ _|v1 v2 t1 t2 xs1 xs2 H1 H2 _ _ _ _ _ _|v1 v2 n fs1 fs2 H1 H2 Hf];
    try discriminate Ho.
  - destruct v1; try discriminate H1; discriminate Ho.
  - destruct v1; try discriminate H1; discriminate Ho.
  - exists n, fs1, fs2. repeat split; assumption.
Qed.

(** ** Unary computation rules *)
Definition scalar (v : gv) : bool :=
  match v with VNil | VBool _ _ | VInt _ _ _ | VFloat _ _ _ | VStr _ _ | VDec _ => true | _ => false end.

Lemma is_empty_value_of v :
  is_ptr v = false ->
  is_empty_value (value_of v) =
  match v with
  | VSlice _ _ xs | VArray _ xs => (length xs =? 0)%nat
  | VMap _ _ _ kvs => (length kvs =? 0)%nat
  | VStr _ s => (length s =? 0)%nat
  | VBool _ b => negb b
  | VInt _ _ z => z =? 0
  | VFloat _ _ f => float_is_zero f
  | _ => false
  end.
Proof.
  destruct v as [| | k nm z | | | |o| | | | | |]; intros H; try reflexivity; try discriminate H.
  unfold is_empty_value, rkind, value_of; cbn. destruct (nk_unsigned k); reflexivity.
Qed.

(** convert_number on a value that is not a pointer *)
Definition cnv (v : gv) : gv :=
  match v with
  | VStr _ s => match dec_of_string s with Some d => VDec d | None => v end
  | VInt _ _ z => VDec (mkDec z 0)
  | VFloat _ _ (FFin d) => VDec d
  | _ => v
  end.

Lemma not_ptr_is v : is_ptr v = false -> not_ptr v.
Proof. destruct v; try (intros; exact I); discriminate. Qed.

Lemma convert_number_cnv v : is_ptr v = false -> convert_number v = cnv v.
Proof.
  intros H. unfold convert_number. rewrite (convert_number_check_not_ptr v (not_ptr_is v H)).
  destruct v as [| | | i nm f | nm s | | | | | | | |]; try reflexivity.
  - destruct f; reflexivity.
  - cbn [cnv]. destruct (dec_of_string s); reflexivity.
Qed.

Lemma convert_number_ptr_obj x : is_obj x = true -> convert_number (VPtr (Some x)) = VPtr (Some x).
Proof. destruct x; try discriminate; reflexivity. Qed.

Lemma cus_cases v : convert_unless_string v = v \/ convert_unless_string v = convert_number v.
Proof. unfold convert_unless_string. destruct (is_go_string v); [left|right]; reflexivity. Qed.

(** ** Conversions respect the relation *)
Lemma numv_cnv v d : numv v = Some d -> cnv v = VDec d.
Proof.
  destruct v as [| | | i nm f | | | | | | | | |]; try discriminate; cbn.
  - intros H; injection H as <-; reflexivity.
  - destruct f; try discriminate. intros H; injection H as <-; reflexivity.
  - intros H; injection H as <-; reflexivity.
Qed.

Lemma elems_cnv v x : elems_of v = Some x -> cnv v = v.
Proof. destruct v; try discriminate; reflexivity. Qed.

Lemma objv_cnv v x : objv v = Some x -> cnv v = v.
Proof. destruct v; try discriminate; reflexivity. Qed.

Lemma R_cnv a b : R a b -> R (cnv a) (cnv b).
Proof.
  intros H. pose proof H as H0. destruct H as [|b0|s|v1 v2 d1 d2 H1 H2 Hd He|v1 v2 t1 t2 xs1 xs2 H1 H2 _ _ _ _ _ _|v1 v2 n fs1 fs2 H1 H2 _].
  - exact H0.
  - exact H0.
  - cbn [cnv]. destruct (dec_of_string s) as [d|]; [|exact H0].
    apply R_num with (d1 := d) (d2 := d); try reflexivity; apply deqv_refl.
  - rewrite (numv_cnv v1 d1 H1), (numv_cnv v2 d2 H2).
    apply R_num with (d1 := d1) (d2 := d2); try reflexivity. exact Hd.
  - rewrite (elems_cnv v1 _ H1), (elems_cnv v2 _ H2). exact H0.
  - rewrite (objv_cnv v1 _ H1), (objv_cnv v2 _ H2). exact H0.
Qed.

Lemma R_convert_number a b : R a b -> R (convert_number a) (convert_number b).
Proof.
  intros H. destruct (R_not_ptr a b H) as [Ha Hb].
  rewrite (convert_number_cnv a Ha), (convert_number_cnv b Hb). apply R_cnv. exact H.
Qed.

Lemma R_go_string a b : R a b -> is_go_string a = is_go_string b.
Proof.
  intros H. destruct H as [|b0|s|v1 v2 d1 d2 H1 H2 _ _|v1 v2 t1 t2 xs1 xs2 H1 H2 _ _ _ _ _ _|v1 v2 n fs1 fs2 H1 H2 _];
    try reflexivity.
  - destruct v1; try discriminate H1; destruct v2; try discriminate H2; reflexivity.
  - destruct v1; try discriminate H1; destruct v2; try discriminate H2; reflexivity.
  - destruct v1; try discriminate H1; destruct v2; try discriminate H2; reflexivity.
Qed.

Lemma R_convert_unless_string a b : R a b -> R (convert_unless_string a) (convert_unless_string b).
Proof.
  intros H. unfold convert_unless_string. rewrite (R_go_string a b H).
  destruct (is_go_string b); [exact H | apply R_convert_number; exact H].
Qed.

Lemma tgt_obj_cases a :
  pok a -> is_obj (tgt a) = true ->
  (a = tgt a) \/ (a = VPtr (Some (tgt a)) /\ pt = true).
Proof.
  intros Hp Ho. destruct a as [| | | | | |o| | | | | |]; try (left; reflexivity).
  destruct o as [x|]; [|discriminate Ho]. right. split; [reflexivity|]. exact (proj1 Hp).
Qed.

Lemma tgt_nonobj a : pok a -> is_obj (tgt a) = false -> is_ptr a = false.
Proof.
  intros Hp Ho. destruct a as [| | | | | |o| | | | | |]; try reflexivity.
  destruct o as [x|]; [|destruct Hp].
  cbn in Ho. destruct Hp as [_ Hp]. destruct x; try contradiction; discriminate Ho.
Qed.

Lemma R_is_obj a b : R a b -> is_obj a = is_obj b.
Proof.
  intros H. destruct H as [|b0|s|v1 v2 d1 d2 H1 H2 _ _|v1 v2 t1 t2 xs1 xs2 H1 H2 _ _ _ _ _ _|v1 v2 n fs1 fs2 H1 H2 _];
    try reflexivity.
  - destruct v1; try discriminate H1; destruct v2; try discriminate H2; reflexivity.
  - destruct v1; try discriminate H1; destruct v2; try discriminate H2; reflexivity.
  - rewrite (is_obj_objv _ _ H1), (is_obj_objv _ _ H2). reflexivity.
Qed.

(** a related pair is either two non-pointers, or two object-likes *)
Lemma Rv_cases a b :
  Rv a b ->
  (R a b) \/
  (is_obj (tgt a) = true /\ is_obj (tgt b) = true /\ R (tgt a) (tgt b) /\ pok a /\ pok b /\
   (a = tgt a \/ a = VPtr (Some (tgt a))) /\ (b = tgt b \/ b = VPtr (Some (tgt b)))).
Proof.
  intros [H [Ha Hb]]. destruct (is_obj (tgt a)) eqn:Eo.
  - right. pose proof (R_is_obj _ _ H) as Eo'. rewrite Eo in Eo'. symmetry in Eo'.
    repeat split; try assumption.
    + destruct (tgt_obj_cases a Ha Eo) as [E|[E _]]; [left|right]; exact E.
    + destruct (tgt_obj_cases b Hb Eo') as [E|[E _]]; [left|right]; exact E.
  - left. pose proof (R_is_obj _ _ H) as Eo'. rewrite Eo in Eo'. symmetry in Eo'.
    pose proof (tgt_nonobj a Ha Eo) as Na. pose proof (tgt_nonobj b Hb Eo') as Nb.
    rewrite (tgt_not_ptr a Na), (tgt_not_ptr b Nb) in H. exact H.
Qed.

(** ** Object-like values: an object, or an accepted pointer to one *)
Lemma is_obj_not_ptr x : is_obj x = true -> is_ptr x = false.
Proof. destruct x; try discriminate; reflexivity. Qed.

Lemma objlike_cases a : pok a -> is_obj (tgt a) = true -> a = tgt a \/ a = VPtr (Some (tgt a)).
Proof. intros Hp Ho. destruct (tgt_obj_cases a Hp Ho) as [E|[E _]]; [left|right]; exact E. Qed.

Lemma objlike_convert_number a : pok a -> is_obj (tgt a) = true -> convert_number a = a.
Proof.
  intros Hp Ho. destruct (objlike_cases a Hp Ho) as [E|E]; rewrite E.
  - rewrite convert_number_cnv by (apply is_obj_not_ptr; exact Ho).
    destruct (tgt a); try discriminate Ho; reflexivity.
  - apply convert_number_ptr_obj. exact Ho.
Qed.

Lemma objlike_cus a : pok a -> is_obj (tgt a) = true -> convert_unless_string a = a.
Proof.
  intros Hp Ho. destruct (cus_cases a) as [E|E]; [exact E|]. rewrite E. apply objlike_convert_number; assumption.
Qed.

Lemma Rv_convert_number a b : Rv a b -> Rv (convert_number a) (convert_number b).
Proof.
  intros H. destruct (Rv_cases a b H) as [H0|[Oa [Ob [H0 [Pa [Pb _]]]]]].
  - apply R_Rv. apply R_convert_number. exact H0.
  - rewrite (objlike_convert_number a Pa Oa), (objlike_convert_number b Pb Ob). exact H.
Qed.

Lemma Rv_convert_unless_string a b : Rv a b -> Rv (convert_unless_string a) (convert_unless_string b).
Proof.
  intros H. destruct (Rv_cases a b H) as [H0|[Oa [Ob [H0 [Pa [Pb _]]]]]].
  - apply R_Rv. apply R_convert_unless_string. exact H0.
  - rewrite (objlike_cus a Pa Oa), (objlike_cus b Pb Ob). exact H.
Qed.

(** ** nil-ness *)
Lemma is_nil_numv v d : numv v = Some d -> is_nil v = false.
Proof.
  destruct v as [| | k nm z | | | | | | | | | |]; try discriminate; try reflexivity.
  intros _. unfold is_nil; cbn. destruct (nk_unsigned k); reflexivity.
Qed.

Lemma is_nil_elems v x : elems_of v = Some x -> is_nil v = seq_nil v.
Proof. destruct v; try discriminate; reflexivity. Qed.

Lemma is_nil_objv v n fs : objv v = Some (n, fs) -> is_nil v = n.
Proof.
  destruct v as [| | | | | | | | |kt vt n0 kvs|fs0| |]; try discriminate; cbn [objv].
  - destruct (mfields kvs); [|discriminate]. cbn. intros H; injection H as <- _. reflexivity.
  - destruct (st && existsb nzw fs0); [|discriminate]. intros H; injection H as <- _. reflexivity.
Qed.

Lemma R_is_nil a b : R a b -> is_nil a = is_nil b.
Proof.
  intros H. destruct H as [|b0|s|v1 v2 d1 d2 H1 H2 _ _|v1 v2 t1 t2 xs1 xs2 H1 H2 Hn _ _ _ _ _|v1 v2 n fs1 fs2 H1 H2 _];
    try reflexivity.
  - rewrite (is_nil_numv _ _ H1), (is_nil_numv _ _ H2). reflexivity.
  - rewrite (is_nil_elems _ _ H1), (is_nil_elems _ _ H2). exact Hn.
  - rewrite (is_nil_objv _ _ _ H1), (is_nil_objv _ _ _ H2). reflexivity.
Qed.

Lemma objlike_is_nil a n fs : pok a -> objv (tgt a) = Some (n, fs) -> is_nil a = n.
Proof.
  intros Hp Ho. destruct (objlike_cases a Hp (is_obj_objv _ _ Ho)) as [E|E].
  - rewrite E. apply (is_nil_objv _ _ _ Ho).
  - rewrite E in Hp |- *. cbn in Hp. destruct Hp as [_ Hp].
    destruct (tgt a) as [| | | | | | | | |kt vt n0 kvs|fs0| |]; try discriminate Ho; cbn [objv] in Ho.
    + destruct Hp as [-> _]. destruct (mfields kvs); [|discriminate]. cbn in Ho. injection Ho as <- _. reflexivity.
    + destruct (st && existsb nzw fs0); [|discriminate]. injection Ho as <- _. reflexivity.
Qed.

Lemma Rv_is_nil a b : Rv a b -> is_nil a = is_nil b.
Proof.
  intros H. destruct (Rv_cases a b H) as [H0|[Oa [Ob [H0 [Pa [Pb _]]]]]].
  - apply R_is_nil. exact H0.
  - destruct (R_obj_inv _ _ H0 Oa) as [n [fs1 [fs2 [H1 [H2 _]]]]].
    rewrite (objlike_is_nil a n fs1 Pa H1), (objlike_is_nil b n fs2 Pb H2). reflexivity.
Qed.

(** ** Field lookup *)
Lemma keq_fold k1 k2 name : keq k1 k2 -> equal_fold k1 name = equal_fold k2 name.
Proof.
  unfold keq. destruct st; intros H.
  - unfold equal_fold. rewrite H. reflexivity.
  - subst. reflexivity.
Qed.

Lemma flookup_rel name fs1 fs2 :
  Rflds fs1 fs2 -> opt_rel Rf (flookup name fs1) (flookup name fs2).
Proof.
  induction 1 as [|[k1 v1] [k2 v2] r1 r2 [Hk Hv] Hr IH]; [exact I|].
  cbn [fst snd] in Hk, Hv. cbn [flookup]. rewrite (keq_fold k1 k2 name Hk).
  destruct (equal_fold k2 name); [exact Hv | exact IH].
Qed.

Lemma mkey_key_string k s : mkey k = Some s -> key_string k = Some s.
Proof.
  destruct k as [| | | | nm s0 | | | | | | | |]; try discriminate. destruct nm; cbn.
  - destruct s0; [discriminate|]. intros H; exact H.
  - intros H; exact H.
Qed.

Lemma map_lookup_flookup name kvs fs : mfields kvs = Some fs -> map_lookup_fold name kvs = flookup name fs.
Proof.
  revert fs. induction kvs as [|[k v] r IH]; intros fs H; cbn [mfields] in H.
  - injection H as <-. reflexivity.
  - destruct (mkey k) as [s|] eqn:Ek; [|discriminate]. destruct (mfields r) as [l|]; [|discriminate].
    injection H as <-. cbn [map_lookup_fold flookup]. rewrite (mkey_key_string k s Ek).
    destruct (equal_fold s name); [reflexivity | apply IH; reflexivity].
Qed.

Lemma struct_lookup_flookup name fs : struct_lookup_fold name fs = flookup name (sfields fs).
Proof.
  induction fs as [|[[[n e] i] v] r IH]; [reflexivity|].
  cbn [struct_lookup_fold sfields]. destruct e; cbn [andb]; [|exact IH].
  cbn [flookup]. destruct (equal_fold n name); [reflexivity | exact IH].
Qed.

(** how an element of an array hands out a field: number conversion for a
    map, number-unless-string conversion for a struct *)
Definition conv_of (x : gv) : gv -> gv :=
  match x with VStruct _ => convert_unless_string | _ => convert_number end.

Lemma Rf_cus a b : Rf a b -> R (convert_unless_string a) (convert_unless_string b).
Proof.
  unfold Rf, fcv. intros [H _]. destruct st; [exact H | apply R_convert_unless_string; exact H].
Qed.

Lemma Rf_cn a b : Rf a b -> R (convert_number a) (convert_number b).
Proof.
  unfold Rf, fcv. intros [H Hn]. destruct st.
  - destruct (Hn eq_refl) as [Na Nb]. rewrite (nn_spec _ Na), (nn_spec _ Nb). exact H.
  - apply R_convert_number. exact H.
Qed.

Lemma Rf_conv x1 x2 n1 n2 fs1 fs2 a b :
  objv x1 = Some (n1, fs1) -> objv x2 = Some (n2, fs2) -> Rf a b -> R (conv_of x1 a) (conv_of x2 b).
Proof.
  intros H1 H2 H.
  destruct x1 as [| | | | | | | | |kt1 vt1 m1 kvs1|fs01| |]; try discriminate H1;
  destruct x2 as [| | | | | | | | |kt2 vt2 m2 kvs2|fs02| |]; try discriminate H2; cbn [conv_of].
  - apply Rf_cn. exact H.
  - cbn [objv] in H2. destruct st eqn:Est; [|discriminate H2].
    destruct H as [H Hn]. unfold fcv in H. rewrite Est in H. destruct (Hn Est) as [Na Nb]. rewrite (nn_spec _ Na). exact H.
  - cbn [objv] in H1. destruct st eqn:Est; [|discriminate H1].
    destruct H as [H Hn]. unfold fcv in H. rewrite Est in H. destruct (Hn Est) as [Na Nb]. rewrite (nn_spec _ Nb). exact H.
  - apply Rf_cus. exact H.
Qed.

Lemma gfn_obj name b x n fs :
  objv x = Some (n, fs) -> get_field_by_name name (mkRv b x) = option_map (conv_of x) (flookup name fs).
Proof.
  destruct x as [| | | | | | | | |kt vt m kvs|fs0| |]; try discriminate; cbn [objv conv_of].
  - destruct (mfields kvs) as [l|] eqn:El; [|discriminate]. cbn. intros H; injection H as _ <-.
    rewrite field_by_name_map, (map_lookup_flookup name kvs l El). reflexivity.
  - destruct (st && existsb nzw fs0); [|discriminate]. intros H; injection H as _ <-.
    rewrite field_by_name_struct, struct_lookup_flookup. reflexivity.
Qed.

Lemma gfn_nonobj name b x : is_ptr x = false -> is_obj x = false -> get_field_by_name name (mkRv b x) = None.
Proof.
  intros Hp Ho. unfold get_field_by_name.
  destruct (is_empty_value (mkRv b x)); [reflexivity|].
  destruct x as [| | k nm z | | | | | | | | | |]; try discriminate Hp; try discriminate Ho; destruct b; try reflexivity.
  unfold deref1, rkind; cbn. destruct (nk_unsigned k); reflexivity.
Qed.

Lemma gfn_rel name b1 b2 x y :
  R x y -> opt_rel R (get_field_by_name name (mkRv b1 x)) (get_field_by_name name (mkRv b2 y)).
Proof.
  intros H. destruct (R_not_ptr x y H) as [Px Py]. pose proof (R_is_obj x y H) as Ho.
  destruct (R_shape x y H) as [| | |v1 v2 d1 d2 H1 H2 _ _|v1 v2 t1 t2 xs1 xs2 H1 H2 _ _ _ _ _ _|v1 v2 n fs1 fs2 H1 H2 Hf].
  - rewrite !gfn_nonobj by reflexivity. exact I.
  - rewrite !gfn_nonobj by reflexivity. exact I.
  - rewrite !gfn_nonobj by reflexivity. exact I.
  - assert (O1 : is_obj v1 = false) by (destruct v1; try discriminate H1; reflexivity).
    rewrite O1 in Ho. rewrite !gfn_nonobj by (try assumption; symmetry; assumption). exact I.
  - assert (O1 : is_obj v1 = false) by (destruct v1; try discriminate H1; reflexivity).
    rewrite O1 in Ho. rewrite !gfn_nonobj by (try assumption; symmetry; assumption). exact I.
  - rewrite (gfn_obj name b1 v1 n fs1 H1), (gfn_obj name b2 v2 n fs2 H2).
    pose proof (flookup_rel name fs1 fs2 Hf) as Hl.
    destruct (flookup name fs1) as [a|], (flookup name fs2) as [c|]; cbn in Hl |- *; try contradiction; [|exact I].
    apply (Rf_conv v1 v2 n n fs1 fs2 a c H1 H2 Hl).
Qed.

Lemma filter_map_rel name t1 t2 xs ys :
  Forall2 R xs ys ->
  Forall2 R (filter_map (fun x => get_field_by_name name (slot t1 x)) xs)
            (filter_map (fun x => get_field_by_name name (slot t2 x)) ys).
Proof.
  induction 1 as [|x y xs ys Hxy Hr IH]; [constructor|].
  cbn [filter_map]. pose proof (gfn_rel name (ety_eqb t1 EAny) (ety_eqb t2 EAny) x y Hxy) as Hf.
  change (slot t1 x) with (mkRv (ety_eqb t1 EAny) x). change (slot t2 y) with (mkRv (ety_eqb t2 EAny) y).
  destruct (get_field_by_name name (mkRv (ety_eqb t1 EAny) x)) as [a|],
           (get_field_by_name name (mkRv (ety_eqb t2 EAny) y)) as [c|]; cbn in Hf; try contradiction.
  - constructor; assumption.
  - exact IH.
Qed.

(** ** One key *)
Lemma do_ident_scalar name a : scalar a = true -> do_ident name a = Err EKeyNotFound.
Proof.
  intros Hs. unfold do_ident. rewrite deref_eta.
  assert (Hp : is_ptr a = false) by (destruct a; try discriminate Hs; reflexivity).
  rewrite (tgt_not_ptr a Hp). cbn [rv_v].
  assert (Hg : get_values_by_name name a = Err EKeyNotFound).
  { unfold get_values_by_name. destruct (is_empty_value (value_of a)); [reflexivity|].
    rewrite deref_eta, (tgt_not_ptr a Hp). cbn [rv_v].
    destruct a; try discriminate Hs; reflexivity. }
  destruct a; try discriminate Hs; exact Hg.
Qed.

Lemma do_ident_seq name v t xs : elems_of v = Some (t, xs) -> do_ident name v = project name t xs.
Proof.
  destruct v as [| | | | | | |t0 n0 ys|t0 ys| | | |]; try discriminate; cbn [elems_of]; intros H; injection H as <- <-; destruct ys; reflexivity.
Qed.

Lemma do_ident_objlike name a n fs :
  pok a -> objv (tgt a) = Some (n, fs) ->
  do_ident name a = match flookup name fs with Some x => Ok (convert_unless_string x) | None => Err EKeyNotFound end.
Proof.
  intros Hp Ho. pose proof (objlike_cases a Hp (is_obj_objv _ _ Ho)) as Hc.
  unfold do_ident. rewrite deref_eta. cbn [rv_v].
  destruct (tgt a) as [| | | | | | | | |kt vt m kvs|fs0| |] eqn:Et; try discriminate Ho; cbn [objv] in Ho.
  - destruct (mfields kvs) as [l|] eqn:El; [|discriminate]. cbn in Ho. injection Ho as _ <-.
    rewrite (map_lookup_flookup name kvs l El). reflexivity.
  - destruct (st && existsb nzw fs0); [|discriminate]. injection Ho as _ <-.
    unfold get_values_by_name.
    assert (He : is_empty_value (value_of a) = false) by (destruct Hc as [-> | ->]; reflexivity).
    rewrite He, deref_eta, Et. cbn [rv_v].
    rewrite field_by_name_struct, struct_lookup_flookup.
    destruct (flookup name (sfields fs0)); reflexivity.
Qed.

Lemma head_test (A : Type) (x : gv) (yes no : A) :
  is_ptr x = false ->
  match x with
  | VDec _ => no
  | _ => match kind_of x with KdStruct | KdMap => yes | _ => no end
  end = if is_obj x then yes else no.
Proof.
  destruct x as [| | k nm z | | | | | | | | | |]; intros H; try reflexivity; try discriminate H.
  cbn. destruct (nk_unsigned k); reflexivity.
Qed.

Lemma project_rel name t1 t2 xs ys :
  Forall2 R xs ys -> orel Rv (project name t1 xs) (project name t2 ys).
Proof.
  intros H. pose proof (filter_map_rel name t1 t2 xs ys H) as Hf.
  destruct H as [|x0 y0 xs ys H0 Hr]; [exact I|].
  unfold project.
  destruct (R_not_ptr x0 y0 H0) as [Px Py].
  rewrite (slot_kind t1 x0 (not_ptr_is _ Px)), (slot_val t1 x0 (not_ptr_is _ Px)).
  rewrite (slot_kind t2 y0 (not_ptr_is _ Py)), (slot_val t2 y0 (not_ptr_is _ Py)).
  rewrite (head_test _ x0 _ _ Px), (head_test _ y0 _ _ Py), (R_is_obj x0 y0 H0).
  destruct (is_obj y0); [|exact I].
  destruct Hf as [|a c l1 l2 Hac Hl]; [exact I|].
  cbn [orel]. apply R_Rv. eapply R_seq; try reflexivity; try exact I.
  - intros E; discriminate E.
  - intros E; discriminate E.
  - constructor; assumption.
Qed.

Theorem do_ident_rel name a b : Rv a b -> orel Rv (do_ident name a) (do_ident name b).
Proof.
  intros H. destruct (Rv_cases a b H) as [H0|[Oa [Ob [H0 [Pa [Pb _]]]]]].
  - destruct (R_shape a b H0) as [| | |v1 v2 d1 d2 H1 H2 _ _|v1 v2 t1 t2 xs1 xs2 H1 H2 _ _ _ _ _ Hxs|v1 v2 n fs1 fs2 H1 H2 Hf].
    + rewrite !do_ident_scalar by reflexivity. exact I.
    + rewrite !do_ident_scalar by reflexivity. exact I.
    + rewrite !do_ident_scalar by reflexivity. exact I.
    + rewrite !do_ident_scalar; [exact I | |].
      * destruct v2; try discriminate H2; reflexivity.
      * destruct v1; try discriminate H1; reflexivity.
    + rewrite (do_ident_seq name v1 t1 xs1 H1), (do_ident_seq name v2 t2 xs2 H2).
      apply project_rel. exact Hxs.
    + destruct (R_not_ptr _ _ H0) as [P1 P2].
      rewrite (do_ident_objlike name v1 n fs1), (do_ident_objlike name v2 n fs2);
        try (apply pok_not_ptr; assumption); try (rewrite tgt_not_ptr by assumption; assumption).
      pose proof (flookup_rel name fs1 fs2 Hf) as Hl.
      destruct (flookup name fs1) as [x|], (flookup name fs2) as [y|]; cbn in Hl |- *; try contradiction; [|exact I].
      apply R_Rv. apply Rf_cus. exact Hl.
  - destruct (R_obj_inv _ _ H0 Oa) as [n [fs1 [fs2 [H1 [H2 Hf]]]]].
    rewrite (do_ident_objlike name a n fs1 Pa H1), (do_ident_objlike name b n fs2 Pb H2).
    pose proof (flookup_rel name fs1 fs2 Hf) as Hl.
    destruct (flookup name fs1) as [x|], (flookup name fs2) as [y|]; cbn in Hl |- *; try contradiction; [|exact I].
    apply R_Rv. apply Rf_cus. exact Hl.
Qed.


(** ** The value a filter works on *)
Lemma gass_unary a :
  get_as_struct_or_slice a =
  match tgt a with
  | VStruct _ | VDec _ | VMap _ _ _ _ => Some (tgt a, true)
  | VSlice _ _ xs | VArray _ xs => Some (VSlice EAny false xs, false)
  | _ => None
  end.
Proof.
  unfold get_as_struct_or_slice. rewrite deref_eta. cbn [rv_v].
  destruct a as [| | | | | |o|t n xs|t xs|kt vt n kvs| | |]; try reflexivity.
  - destruct o as [x|]; [|reflexivity]. cbn [tgt].
    destruct x as [| | | | | | |t n xs|t xs| | | |]; try reflexivity; destruct xs; reflexivity.
  - destruct xs; reflexivity.
  - destruct xs; reflexivity.
  - destruct kt, vt; reflexivity.
Qed.

Definition gass_rel (o1 o2 : option (gv * bool)) : Prop :=
  match o1, o2 with
  | None, None => True
  | Some (v1, b1), Some (v2, b2) =>
      if (b1 : bool) then b2 = true /\ R v1 v2
      else b2 = false /\ exists xs1 xs2, v1 = VSlice EAny false xs1 /\ v2 = VSlice EAny false xs2 /\ Forall2 R xs1 xs2
  | _, _ => False
  end.

Theorem gass_respects a b : Rv a b -> gass_rel (get_as_struct_or_slice a) (get_as_struct_or_slice b).
Proof.
  intros [H _]. rewrite !gass_unary.
  destruct (R_shape _ _ H) as [| | |v1 v2 d1 d2 H1 H2 Hd He|v1 v2 t1 t2 xs1 xs2 H1 H2 _ _ _ _ _ Hxs|v1 v2 n fs1 fs2 H1 H2 Hf].
  - exact I.
  - exact I.
  - exact I.
  - destruct v1 as [| | | i1 n1 f1 | | | | | | | | |]; try discriminate H1;
    destruct v2 as [| | | i2 n2 f2 | | | | | | | | |]; try discriminate H2; try discriminate He;
      try (destruct f1); try (destruct f2); try discriminate H1; try discriminate H2; try exact I.
    cbn [gass_rel]. split; [reflexivity|]. eapply R_num; eassumption.
  - destruct v1; try discriminate H1; destruct v2; try discriminate H2;
      cbn [elems_of] in H1, H2; injection H1 as _ <-; injection H2 as _ <-;
      (split; [reflexivity|]; eexists; eexists; split; [reflexivity|]; split; [reflexivity|]; exact Hxs).
  - assert (HR : R v1 v2) by (eapply R_obj; eassumption).
    destruct v1; try discriminate H1; destruct v2; try discriminate H2; (split; [reflexivity | exact HR]).
Qed.

(** ** Function parameters *)
Inductive Rp : rparam -> rparam -> Prop :=
| Rp_num d1 d2 : deqv d1 d2 -> Rp (RNum d1) (RNum d2)
| Rp_str s : Rp (RStr s) (RStr s)
| Rp_bool b : Rp (RBool b) (RBool b).

Lemma cnc_not_ptr v : is_ptr v = false ->
  convert_number_check v =
  match v with
  | VStr _ s => match dec_of_string s with Some d => (true, d) | None => (false, dzero) end
  | VInt _ _ z => (true, mkDec z 0)
  | VFloat _ _ (FFin d) => (true, d)
  | _ => (false, dzero)
  end.
Proof. intros H. apply convert_number_check_not_ptr. apply not_ptr_is. exact H. Qed.

Lemma spread_elem_numv v d : numv v = Some d -> spread_elem v = Some (RNum d).
Proof.
  destruct v as [| | k nm z | i nm f | | | | | | | | |]; try discriminate; cbn [numv].
  - intros H; injection H as <-. unfold spread_elem. rewrite cnc_not_ptr by reflexivity. reflexivity.
  - destruct f; try discriminate. intros H; injection H as <-.
    unfold spread_elem. rewrite cnc_not_ptr by reflexivity. reflexivity.
  - intros H; injection H as <-. reflexivity.
Qed.

Lemma spread_elem_rel x y : R x y -> opt_rel Rp (spread_elem x) (spread_elem y).
Proof.
  intros H. destruct (R_not_ptr x y H) as [Px Py].
  destruct (R_shape x y H) as [|b0|s|v1 v2 d1 d2 H1 H2 Hd He|v1 v2 t1 t2 xs1 xs2 H1 H2 _ _ _ _ _ _|v1 v2 n fs1 fs2 H1 H2 _].
  - exact I.
  - constructor.
  - constructor.
  - rewrite (spread_elem_numv v1 d1 H1), (spread_elem_numv v2 d2 H2). constructor. exact Hd.
  - destruct v1; try discriminate H1; destruct v2; try discriminate H2;
      unfold spread_elem; rewrite !cnc_not_ptr by reflexivity; exact I.
  - destruct v1; try discriminate H1; destruct v2; try discriminate H2;
      unfold spread_elem; rewrite !cnc_not_ptr by reflexivity; exact I.
Qed.

Lemma all_some_rel {A B} (P : A -> B -> Prop) l1 l2 :
  Forall2 (opt_rel P) l1 l2 -> opt_rel (Forall2 P) (all_some l1) (all_some l2).
Proof.
  induction 1 as [|o1 o2 r1 r2 Ho Hr IH]; [constructor|].
  destruct o1 as [a|], o2 as [b|]; cbn in Ho; try contradiction; cbn [all_some]; [|exact I].
  destruct (all_some r1), (all_some r2); cbn in IH |- *; try contradiction; [|exact I].
  constructor; assumption.
Qed.

Lemma Forall2_map {A B C D} (P : C -> D -> Prop) (Q : A -> B -> Prop) (f : A -> C) (g : B -> D) l1 l2 :
  (forall a b, Q a b -> P (f a) (g b)) -> Forall2 Q l1 l2 -> Forall2 P (map f l1) (map g l2).
Proof. intros Hf. induction 1; constructor; auto. Qed.

Theorem spread_result_rel a b : Rv a b -> orel (Forall2 Rp) (spread_result a) (spread_result b).
Proof.
  intros H. destruct (Rv_cases a b H) as [H0|[Oa [Ob [H0 [Pa [Pb [Ca Cb]]]]]]].
  - destruct (R_shape a b H0) as [|b0|s|v1 v2 d1 d2 H1 H2 Hd He|v1 v2 t1 t2 xs1 xs2 H1 H2 _ _ _ _ _ Hxs|v1 v2 n fs1 fs2 H1 H2 _].
    + exact I.
    + repeat constructor.
    + repeat constructor.
    + destruct v1 as [| | | i1 n1 f1 | | | | | | | | |]; try discriminate H1;
      destruct v2 as [| | | i2 n2 f2 | | | | | | | | |]; try discriminate H2; try discriminate He; try exact I.
      cbn in H1, H2. injection H1 as <-. injection H2 as <-. repeat constructor. exact Hd.
    + pose proof (all_some_rel Rp (map spread_elem xs1) (map spread_elem xs2)
                    (Forall2_map _ _ _ _ xs1 xs2 spread_elem_rel Hxs)) as Ha.
      assert (S1 : spread_result v1 = match all_some (map spread_elem xs1) with Some ps => Ok ps | None => fail "unhandled param path type" end).
      { destruct v1; try discriminate H1; cbn [elems_of] in H1; injection H1 as _ <-; reflexivity. }
      assert (S2 : spread_result v2 = match all_some (map spread_elem xs2) with Some ps => Ok ps | None => fail "unhandled param path type" end).
      { destruct v2; try discriminate H2; cbn [elems_of] in H2; injection H2 as _ <-; reflexivity. }
      rewrite S1, S2.
      destruct (all_some (map spread_elem xs1)), (all_some (map spread_elem xs2)); cbn in Ha |- *; try contradiction; [exact Ha | exact I].
    + destruct v1; try discriminate H1; destruct v2; try discriminate H2; exact I.
  - assert (S1 : exists t, spread_result a = fail t).
    { destruct Ca as [E|E]; rewrite E; [|eexists; reflexivity].
      destruct (tgt a); try discriminate Oa; eexists; reflexivity. }
    assert (S2 : exists t, spread_result b = fail t).
    { destruct Cb as [E|E]; rewrite E; [|eexists; reflexivity].
      destruct (tgt b); try discriminate Ob; eexists; reflexivity. }
    destruct S1 as [t1 ->], S2 as [t2 ->]. exact I.
Qed.

(** views of a related parameter list *)
Lemma Rp_numbers ps1 ps2 : Forall2 Rp ps1 ps2 -> Forall2 deqv (numbers ps1) (numbers ps2).
Proof.
  induction 1 as [|p q r1 r2 Hp Hr IH]; [constructor|].
  unfold numbers in *. cbn [filter_map]. destruct Hp; [constructor; assumption | exact IH | exact IH].
Qed.

Lemma Rp_strings ps1 ps2 : Forall2 Rp ps1 ps2 -> strings ps1 = strings ps2.
Proof.
  induction 1 as [|p q r1 r2 Hp Hr IH]; [reflexivity|].
  unfold strings in *. cbn [filter_map]. destruct Hp; [exact IH | rewrite IH; reflexivity | exact IH].
Qed.

Lemma Rp_bools ps1 ps2 : Forall2 Rp ps1 ps2 -> bools ps1 = bools ps2.
Proof.
  induction 1 as [|p q r1 r2 Hp Hr IH]; [reflexivity|].
  unfold bools in *. cbn [filter_map]. destruct Hp; [exact IH | exact IH | rewrite IH; reflexivity].
Qed.

Lemma Rp_length ps1 ps2 : Forall2 Rp ps1 ps2 -> length ps1 = length ps2.
Proof. induction 1; cbn; congruence. Qed.

Lemma Rp_len_is ps1 ps2 n : Forall2 Rp ps1 ps2 -> len_is ps1 n = len_is ps2 n.
Proof. intros H. unfold len_is. rewrite (Rp_length _ _ H). reflexivity. Qed.

Lemma Rp_app a1 a2 b1 b2 : Forall2 Rp a1 a2 -> Forall2 Rp b1 b2 -> Forall2 Rp (a1 ++ b1) (a2 ++ b2).
Proof. intros Ha Hb. apply Forall2_app; assumption. Qed.

Lemma Rp_first_number ps1 ps2 :
  Forall2 Rp ps1 ps2 -> orel deqv (params_first_number ps1) (params_first_number ps2).
Proof.
  intros H. unfold params_first_number. rewrite (Rp_len_is _ _ 1 H), (Rp_strings _ _ H).
  destruct (negb (len_is ps2 1)); [exact I|].
  pose proof (Rp_numbers _ _ H) as Hn.
  destruct Hn as [|d1 d2 r1 r2 Hd _]; [|exact Hd].
  destruct (filter_map string_number (strings ps2)); [exact I | apply deqv_refl].
Qed.

Lemma Rp_first_string ps1 ps2 :
  Forall2 Rp ps1 ps2 -> params_first_string ps1 = params_first_string ps2.
Proof.
  intros H. unfold params_first_string. rewrite (Rp_len_is _ _ 1 H), (Rp_strings _ _ H). reflexivity.
Qed.

Lemma Rp_first_any ps1 ps2 :
  Forall2 Rp ps1 ps2 -> orel Rp (params_first_any ps1) (params_first_any ps2).
Proof.
  intros H. destruct H as [|p q r1 r2 Hp Hr]; [exact I|].
  destruct Hr; [exact Hp | exact I].
Qed.

End Mode.
