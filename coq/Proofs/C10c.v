(* Proofs/C10c.v — C10, part 3: the runtime functions respect the relation. *)
From Mpath.Model Require Import Base Dec Types GoVal Ast Lexer Parser Funcs Eval.
From Mpath.Proofs Require Import DecQ C01 C10a C10b.

Section Mode.
Variables st pt : bool.
Variable eng : engines.

Notation R := (R st).
Notation Rv := (Rv st pt).
Notation Rflds := (Rflds st).
Notation objv := (objv st).
Notation pok := (pok pt).

(** * The receiver of a function: [convert_number cur] *)
Inductive cls : gv -> gv -> Prop :=
| C_nil : cls VNil VNil
| C_bool b : cls (VBool false b) (VBool false b)
| C_str s : cls (VStr false s) (VStr false s)
| C_dec d1 d2 : deqv d1 d2 -> cls (VDec d1) (VDec d2)
| C_seq v1 v2 t1 t2 xs1 xs2 :
    elems_of v1 = Some (t1, xs1) -> elems_of v2 = Some (t2, xs2) ->
    seq_nil v1 = seq_nil v2 -> arr_ok v1 -> arr_ok v2 -> tag_ok t1 xs1 -> tag_ok t2 xs2 ->
    Forall2 R xs1 xs2 -> cls v1 v2
| C_obj a b n fs1 fs2 :
    pok a -> pok b -> objv (tgt a) = Some (n, fs1) -> objv (tgt b) = Some (n, fs2) ->
    Rflds fs1 fs2 -> cls a b.

Lemma cls_Rv v1 v2 : cls v1 v2 -> Rv v1 v2.
Proof.
  intros H. destruct H as [|b|s|d1 d2 Hd|v1 v2 t1 t2 xs1 xs2 H1 H2 Hn A1 A2 T1 T2 Hxs|a b n fs1 fs2 Pa Pb H1 H2 Hf].
  - apply R_Rv. constructor.
  - apply R_Rv. constructor.
  - apply R_Rv. constructor.
  - apply R_Rv. apply R_num with (d1 := d1) (d2 := d2); try reflexivity. exact Hd.
  - apply R_Rv. eapply R_seq; eassumption.
  - split; [|split; assumption]. eapply R_obj; eassumption.
Qed.

Lemma cls_of_Rv c1 c2 : Rv c1 c2 -> cls (convert_number c1) (convert_number c2).
Proof.
  intros H. destruct (Rv_cases st pt c1 c2 H) as [H0|[Oa [Ob [H0 [Pa [Pb _]]]]]].
  - destruct (R_not_ptr st c1 c2 H0) as [P1 P2].
    rewrite (convert_number_cnv c1 P1), (convert_number_cnv c2 P2).
    destruct (R_shape st c1 c2 H0) as [|b0|s|v1 v2 d1 d2 H1 H2 Hd He|v1 v2 t1 t2 xs1 xs2 H1 H2 Hn A1 A2 T1 T2 Hxs|v1 v2 n fs1 fs2 H1 H2 Hf].
    + constructor.
    + constructor.
    + cbn [cnv]. destruct (dec_of_string s); constructor. apply deqv_refl.
    + rewrite (numv_cnv v1 d1 H1), (numv_cnv v2 d2 H2). constructor. exact Hd.
    + rewrite (elems_cnv v1 _ H1), (elems_cnv v2 _ H2). eapply C_seq; eassumption.
    + rewrite (objv_cnv st v1 _ H1), (objv_cnv st v2 _ H2).
      apply C_obj with (n := n) (fs1 := fs1) (fs2 := fs2); try assumption;
        try (apply pok_not_ptr; assumption); rewrite tgt_not_ptr by assumption; assumption.
  - rewrite (objlike_convert_number pt c1 Pa Oa), (objlike_convert_number pt c2 Pb Ob).
    destruct (R_obj_inv st _ _ H0 Oa) as [n [fs1 [fs2 [H1 [H2 Hf]]]]].
    apply C_obj with (n := n) (fs1 := fs1) (fs2 := fs2); assumption.
Qed.

(** results *)
Lemma Rv_bool b : Rv (vbool b) (vbool b).
Proof. apply R_Rv. constructor. Qed.
Lemma Rv_str s : Rv (vstr s) (vstr s).
Proof. apply R_Rv. constructor. Qed.
Lemma Rv_dec d1 d2 : deqv d1 d2 -> Rv (VDec d1) (VDec d2).
Proof. intros H. apply R_Rv. apply R_num with (d1 := d1) (d2 := d2); try reflexivity. exact H. Qed.

Lemma orel_boolv o1 o2 : orel eq o1 o2 -> orel Rv (boolv o1) (boolv o2).
Proof. intros H. unfold boolv. eapply orel_bind; [exact H|]. intros a b ->. apply Rv_bool. Qed.
Lemma orel_negate o1 o2 : orel eq o1 o2 -> orel Rv (negate o1) (negate o2).
Proof. intros H. unfold negate. eapply orel_bind; [exact H|]. intros a b ->. apply Rv_bool. Qed.

(** ** Object-like receivers: what the reflective helpers see *)
Lemma mfields_length kvs fs : mfields kvs = Some fs -> length kvs = length fs.
Proof.
  revert fs. induction kvs as [|[k v] r IH]; intros fs H; cbn [mfields] in H.
  - injection H as <-. reflexivity.
  - destruct (mkey k); [|discriminate]. destruct (mfields r) as [l|]; [|discriminate].
    injection H as <-. cbn. f_equal. apply IH. reflexivity.
Qed.

Lemma nzw_sfields fs : existsb nzw fs = true -> sfields fs <> [].
Proof.
  induction fs as [|[[[n e] i] v] r IH]; [discriminate|].
  cbn [existsb sfields nzw]. destruct e; cbn [andb orb]; [discriminate|]. exact IH.
Qed.

Lemma nzw_gv_is_zero fs : existsb nzw fs = true -> gv_is_zero (VStruct fs) = false.
Proof.
  cbn [gv_is_zero]. induction fs as [|[[[n e] i] v] r IH]; [discriminate|].
  cbn [existsb forallb nzw]. intros H. apply orb_true_iff in H. destruct H as [H|H].
  - apply andb_true_iff in H. destruct H as [H _]. apply andb_true_iff in H. destruct H as [_ H].
    destruct (gv_is_zero v); [discriminate H | reflexivity].
  - rewrite (IH H). apply andb_false_r.
Qed.

Lemma nzw_cmp_is_zero fs : existsb nzw fs = true -> cmp_is_zero (VStruct fs) = false.
Proof.
  cbn [cmp_is_zero]. induction fs as [|[[[n e] i] v] r IH]; [discriminate|].
  cbn [existsb forallb nzw]. intros H. apply orb_true_iff in H. destruct H as [H|H].
  - apply andb_true_iff in H. destruct H as [_ H].
    destruct (if i then match v with VNil => true | _ => false end else cmp_is_zero v); [discriminate H | reflexivity].
  - rewrite (IH H). apply andb_false_r.
Qed.

Definition fs_empty (fs : list (str * gv)) : bool := match fs with [] => true | _ => false end.

Inductive objlike_view (a : gv) (n : bool) (fs : list (str * gv)) : Prop :=
| OV_map kt vt kvs : a = VMap kt vt n kvs -> mfields kvs = Some fs -> objlike_view a n fs
| OV_struct fs0 : a = VStruct fs0 -> n = false -> fs = sfields fs0 -> st = true -> existsb nzw fs0 = true -> objlike_view a n fs
| OV_ptr x : a = VPtr (Some x) -> n = false -> fs <> [] -> is_obj x = true ->
             (match x with VStruct fs0 => existsb nzw fs0 = true | _ => True end) -> objlike_view a n fs.

Lemma objlike_inv a n fs : pok a -> objv (tgt a) = Some (n, fs) -> objlike_view a n fs.
Proof.
  intros Hp Ho. destruct (objlike_cases pt a Hp (is_obj_objv st _ _ Ho)) as [E|E].
  - rewrite <- E in Ho. destruct a as [| | | | | | | | |kt vt m kvs|fs0| |]; try discriminate Ho; cbn [C10b.objv] in Ho.
    + destruct (mfields kvs) as [l|] eqn:El; [|discriminate]. cbn in Ho. injection Ho as <- <-.
      eapply OV_map; [reflexivity | exact El].
    + destruct st eqn:Est; [|discriminate]. destruct (existsb nzw fs0) eqn:Ew; [|discriminate].
      cbn in Ho. injection Ho as <- <-. eapply OV_struct; [reflexivity|reflexivity|reflexivity|exact Est|exact Ew].
  - rewrite E in Hp. cbn in Hp. destruct Hp as [_ Hp].
    destruct (tgt a) as [| | | | | | | | |kt vt m kvs|fs0| |] eqn:Et; try contradiction; cbn [C10b.objv] in Ho.
    + destruct Hp as [-> Hne]. destruct (mfields kvs) as [l|] eqn:El; [|discriminate]. cbn in Ho. injection Ho as <- <-.
      eapply OV_ptr; [exact E | reflexivity | | reflexivity | exact I].
      intros ->. apply mfields_length in El. destruct kvs; [contradiction Hne; reflexivity | discriminate El].
    + destruct st; [|discriminate]. destruct (existsb nzw fs0) eqn:Ew; [|discriminate].
      cbn in Ho. injection Ho as <- <-.
      eapply OV_ptr; [exact E | reflexivity | apply nzw_sfields; exact Ew | reflexivity | exact Ew].
Qed.

Lemma objlike_is_empty a n fs : objlike_view a n fs -> is_empty_value (value_of a) = fs_empty fs.
Proof.
  intros [kt vt kvs -> Hm|fs0 -> _ -> _ Hw|x -> _ Hne _ _].
  - apply mfields_length in Hm. destruct kvs, fs; try discriminate Hm; reflexivity.
  - pose proof (nzw_sfields fs0 Hw) as Hne. destruct (sfields fs0); [contradiction Hne; reflexivity | reflexivity].
  - destruct fs; [contradiction Hne; reflexivity | reflexivity].
Qed.

Lemma objlike_elems a n fs : objlike_view a n fs -> elems_of (rv_v (deref1 (value_of a))) = None.
Proof.
  intros [kt vt kvs -> _|fs0 -> _ _ _ _|x -> _ _ Ho _]; try reflexivity.
  rewrite tgt_deref. cbn [tgt]. destruct x; try discriminate Ho; reflexivity.
Qed.

Lemma objlike_cmp_zero a n fs : objlike_view a n fs -> cmp_is_zero a = fs_empty fs.
Proof.
  intros [kt vt kvs -> Hm|fs0 -> _ -> _ Hw|x -> _ Hne _ _].
  - apply mfields_length in Hm. destruct kvs, fs; try discriminate Hm; reflexivity.
  - rewrite (nzw_cmp_is_zero fs0 Hw). pose proof (nzw_sfields fs0 Hw) as Hne.
    destruct (sfields fs0); [contradiction Hne; reflexivity | reflexivity].
  - destruct fs; [contradiction Hne; reflexivity | reflexivity].
Qed.

Lemma Rflds_empty fs1 fs2 : Rflds fs1 fs2 -> fs_empty fs1 = fs_empty fs2.
Proof. intros H. destruct H; reflexivity. Qed.

(** a receiver that is neither a decimal, nor a Go string, nor a Go bool *)
Definition opaque (v : gv) : bool :=
  match v with VDec _ | VStr false _ | VBool false _ => false | _ => true end.

Lemma objlike_opaque a n fs : objlike_view a n fs -> opaque a = true.
Proof. intros [kt vt kvs -> _|fs0 -> _ _ _ _|x -> _ _ _ _]; reflexivity. Qed.

Lemma seq_opaque v x : elems_of v = Some x -> opaque v = true.
Proof. destruct v; try discriminate; reflexivity. Qed.

(** * Equal, NotEqual *)
Lemma func_equal_opaque ps v : opaque v = true -> func_equal ps v = bind (params_first_any ps) (fun _ => Ok false).
Proof.
  intros Ho. unfold func_equal. destruct (params_first_any ps) as [p| | | |]; try reflexivity. cbn [bind].
  destruct v as [|nm b| | |nm s| | | | | | | |]; try discriminate Ho; try reflexivity.
  - destruct nm; [reflexivity | discriminate Ho].
  - destruct nm; [reflexivity | discriminate Ho].
Qed.

Lemma func_equal_rel ps1 ps2 v1 v2 :
  cls v1 v2 -> Forall2 Rp ps1 ps2 -> orel eq (func_equal ps1 v1) (func_equal ps2 v2).
Proof.
  intros Hc Hp. pose proof (Rp_first_any ps1 ps2 Hp) as Ha.
  assert (Hop : forall v1 v2, opaque v1 = true -> opaque v2 = true -> orel eq (func_equal ps1 v1) (func_equal ps2 v2)).
  { intros w1 w2 O1 O2. rewrite (func_equal_opaque ps1 w1 O1), (func_equal_opaque ps2 w2 O2).
    eapply orel_bind; [exact Ha|]. intros; reflexivity. }
  destruct Hc as [|b|s|d1 d2 Hd|v1 v2 t1 t2 xs1 xs2 H1 H2 Hn A1 A2 T1 T2 Hxs|a b n fs1 fs2 Pa Pb H1 H2 Hf].
  - apply Hop; reflexivity.
  - unfold func_equal. eapply orel_bind; [exact Ha|]. intros p q Hpq. destruct Hpq; reflexivity.
  - unfold func_equal. eapply orel_bind; [exact Ha|]. intros p q Hpq. destruct Hpq; reflexivity.
  - unfold func_equal. eapply orel_bind; [exact Ha|]. intros p q Hpq. destruct Hpq as [e1 e2 He| |]; try reflexivity.
    cbn [orel]. apply deq_resp; assumption.
  - apply Hop; eapply seq_opaque; eassumption.
  - apply Hop; eapply objlike_opaque; apply objlike_inv; eassumption.
Qed.

(** * Less, LessOrEqual, Greater, GreaterOrEqual *)
Lemma decimal_bool_func_rel (f : dec -> dec -> bool) ps1 ps2 v1 v2 :
  (forall a a' b b', deqv a a' -> deqv b b' -> f a b = f a' b') ->
  cls v1 v2 -> Forall2 Rp ps1 ps2 -> orel Rv (decimal_bool_func f ps1 v1) (decimal_bool_func f ps2 v2).
Proof.
  intros Hf Hc Hp. unfold decimal_bool_func.
  eapply orel_bind; [apply Rp_first_number; exact Hp|]. intros p q Hpq.
  destruct Hc as [|b|s|d1 d2 Hd|v1 v2 t1 t2 xs1 xs2 H1 H2 Hn A1 A2 T1 T2 Hxs|a b n fs1 fs2 Pa Pb H1 H2 Hf'];
    try exact I.
  - cbn [orel]. rewrite (Hf d1 d2 p q Hd Hpq). apply Rv_bool.
  - destruct v1; try discriminate H1; destruct v2; try discriminate H2; exact I.
  - pose proof (objlike_opaque a n fs1 (objlike_inv a n fs1 Pa H1)) as O1.
    pose proof (objlike_opaque b n fs2 (objlike_inv b n fs2 Pb H2)) as O2.
    destruct a; try discriminate O1; destruct b; try discriminate O2; exact I.
Qed.

(** * Not, Invert *)
Lemma func_not_rel v1 v2 : cls v1 v2 -> orel Rv (func_not v1) (func_not v2).
Proof.
  intros Hc.
  destruct Hc as [|b|s|d1 d2 Hd|v1 v2 t1 t2 xs1 xs2 H1 H2 Hn A1 A2 T1 T2 Hxs|a b n fs1 fs2 Pa Pb H1 H2 Hf'];
    try exact I.
  - apply Rv_bool.
  - destruct v1; try discriminate H1; destruct v2; try discriminate H2; exact I.
  - destruct (objlike_inv a n fs1 Pa H1) as [? ? ? -> _|? -> _ _ _ _|x -> _ _ Ox _];
    destruct (objlike_inv b n fs2 Pb H2) as [? ? ? -> _|? -> _ _ _ _|y -> _ _ Oy _]; exact I.
Qed.

Lemma func_invert_rel v1 v2 : cls v1 v2 -> orel Rv (func_invert v1) (func_invert v2).
Proof.
  intros Hc.
  destruct Hc as [|b|s|d1 d2 Hd|v1 v2 t1 t2 xs1 xs2 H1 H2 Hn A1 A2 T1 T2 Hxs|a b n fs1 fs2 Pa Pb H1 H2 Hf'];
    try exact I.
  - apply Rv_bool.
  - destruct v1; try discriminate H1; destruct v2; try discriminate H2; exact I.
  - assert (F1 : exists t, func_invert a = fail t).
    { destruct (objlike_inv a n fs1 Pa H1) as [? ? ? -> _|? -> _ _ _ _|x -> _ _ Ox _]; try (eexists; reflexivity).
      destruct x; try discriminate Ox; eexists; reflexivity. }
    assert (F2 : exists t, func_invert b = fail t).
    { destruct (objlike_inv b n fs2 Pb H2) as [? ? ? -> _|? -> _ _ _ _|x -> _ _ Ox _]; try (eexists; reflexivity).
      destruct x; try discriminate Ox; eexists; reflexivity. }
    destruct F1 as [t1 ->], F2 as [t2 ->]. exact I.
Qed.

(** * Functions of a string receiver: every other receiver is an error *)
Definition notstr (v : gv) : bool := match v with VStr false _ => false | _ => true end.

Lemma opaque_notstr v : opaque v = true -> notstr v = true.
Proof. destruct v as [| | | |[|] ?| | | | | | | |]; try reflexivity; discriminate. Qed.

Lemma cls_str_or_not v1 v2 :
  cls v1 v2 -> (exists s, v1 = VStr false s /\ v2 = VStr false s) \/ (notstr v1 = true /\ notstr v2 = true).
Proof.
  intros Hc.
  destruct Hc as [|b|s|d1 d2 Hd|v1 v2 t1 t2 xs1 xs2 H1 H2 Hn A1 A2 T1 T2 Hxs|a b n fs1 fs2 Pa Pb H1 H2 Hf'];
    try (right; split; reflexivity).
  - left. exists s. split; reflexivity.
  - right. destruct v1; try discriminate H1; destruct v2; try discriminate H2; split; reflexivity.
  - right. split; apply opaque_notstr; eapply objlike_opaque; apply objlike_inv; eassumption.
Qed.

Lemma string_bool_func_rel f inv ps1 ps2 v1 v2 :
  cls v1 v2 -> Forall2 Rp ps1 ps2 -> orel Rv (string_bool_func f inv ps1 v1) (string_bool_func f inv ps2 v2).
Proof.
  intros Hc Hp. unfold string_bool_func. rewrite (Rp_first_string ps1 ps2 Hp).
  destruct (params_first_string ps2) as [p|[|t]|m| |w]; cbn [bind]; try exact I.
  destruct (cls_str_or_not v1 v2 Hc) as [[s [-> ->]]|[N1 N2]].
  - apply Rv_bool.
  - destruct v1 as [| | | |[|] ?| | | | | | | |]; try discriminate N1;
    destruct v2 as [| | | |[|] ?| | | | | | | |]; try discriminate N2; exact I.
Qed.

Lemma string_part_func_rel w ps1 ps2 v1 v2 :
  cls v1 v2 -> Forall2 Rp ps1 ps2 -> orel Rv (string_part_func w ps1 v1) (string_part_func w ps2 v2).
Proof.
  intros Hc Hp. unfold string_part_func.
  eapply orel_bind; [apply Rp_first_number; exact Hp|]. intros p q Hpq.
  rewrite (dis_integer_resp p q Hpq), (dis_neg_resp p q Hpq).
  destruct (negb (dis_integer q)); [exact I|]. destruct (dis_neg q); [exact I|].
  destruct (cls_str_or_not v1 v2 Hc) as [[s [-> ->]]|[N1 N2]].
  - rewrite (dgt_resp p q (mkDec (Z.of_nat (length s)) 0) (mkDec (Z.of_nat (length s)) 0) Hpq (deqv_refl _)).
    assert (Hi : int_part (if dgt q (mkDec (Z.of_nat (length s)) 0) then mkDec (Z.of_nat (length s)) 0 else p)
               = int_part (if dgt q (mkDec (Z.of_nat (length s)) 0) then mkDec (Z.of_nat (length s)) 0 else q)).
    { destruct (dgt q _); [reflexivity | apply int_part_resp; exact Hpq]. }
    rewrite Hi.
    match goal with |- orel _ ?x ?x => destruct x as [r|[|t]|m| |z] end; try exact I.
    apply R_Rv. destruct r; constructor.
  - destruct v1 as [| | | |[|] ?| | | | | | | |]; try discriminate N1;
    destruct v2 as [| | | |[|] ?| | | | | | | |]; try discriminate N2; exact I.
Qed.

Lemma func_replace_all_notstr ps v : notstr v = true -> exists t, func_replace_all ps v = fail t.
Proof.
  intros Hn. unfold func_replace_all. destruct (negb (len_is ps 2)); [eexists; reflexivity|].
  destruct (strings ps) as [|f rest]; [eexists; reflexivity|].
  destruct f; [eexists; reflexivity|]. destruct rest; [eexists; reflexivity|].
  destruct v as [| | | |[|] ?| | | | | | | |]; try discriminate Hn; eexists; reflexivity.
Qed.

Lemma func_replace_all_rel ps1 ps2 v1 v2 :
  cls v1 v2 -> Forall2 Rp ps1 ps2 -> orel Rv (func_replace_all ps1 v1) (func_replace_all ps2 v2).
Proof.
  intros Hc Hp. destruct (cls_str_or_not v1 v2 Hc) as [[s [-> ->]]|[N1 N2]].
  - unfold func_replace_all. rewrite (Rp_len_is ps1 ps2 2 Hp), (Rp_strings ps1 ps2 Hp).
    destruct (negb (len_is ps2 2)); [exact I|].
    destruct (strings ps2) as [|f rest]; [exact I|]. destruct f; [exact I|]. destruct rest; [exact I|].
    apply Rv_str.
  - destruct (func_replace_all_notstr ps1 v1 N1) as [t1 ->], (func_replace_all_notstr ps2 v2 N2) as [t2 ->]. exact I.
Qed.

Lemma orel_same_err {A} (o : outcome A) (P : A -> A -> Prop) :
  (forall a, o <> Ok a) -> orel P o o.
Proof. intros H. destruct o as [a|[|t]|m| |w]; try exact I. exfalso. apply (H a). reflexivity. Qed.

Lemma func_does_match_regex_rel ps1 ps2 v1 v2 :
  cls v1 v2 -> Forall2 Rp ps1 ps2 ->
  orel Rv (func_does_match_regex eng ps1 v1) (func_does_match_regex eng ps2 v2).
Proof.
  intros Hc Hp. unfold func_does_match_regex. rewrite (Rp_first_string ps1 ps2 Hp).
  destruct (params_first_string ps2) as [p|[|t]|m| |w]; cbn [bind]; try exact I.
  destruct (cls_str_or_not v1 v2 Hc) as [[s [-> ->]]|[N1 N2]].
  - destruct (eng_re_match eng p s) as [[b|]|]; try exact I. apply Rv_bool.
  - assert (E1 : forall v, notstr v = true ->
        match v with
        | VStr false s => match eng_re_match eng p s with None => Declined "regexp oracle miss" | Some None => fail "regular expression is invalid" | Some (Some b) => Ok (vbool b) end
        | _ => match eng_re_match eng p [] with None => Declined "regexp oracle miss" | Some None => fail "regular expression is invalid" | Some _ => fail "value wasn't string" end
        end = match eng_re_match eng p [] with None => Declined "regexp oracle miss" | Some None => fail "regular expression is invalid" | Some _ => fail "value wasn't string" end).
    { intros v Hn. destruct v as [| | | |[|] ?| | | | | | | |]; try discriminate Hn; reflexivity. }
    rewrite (E1 v1 N1), (E1 v2 N2). destruct (eng_re_match eng p []) as [[b|]|]; exact I.
Qed.

Lemma func_replace_regex_rel ps1 ps2 v1 v2 :
  cls v1 v2 -> Forall2 Rp ps1 ps2 ->
  orel Rv (func_replace_regex eng ps1 v1) (func_replace_regex eng ps2 v2).
Proof.
  intros Hc Hp. unfold func_replace_regex. rewrite (Rp_len_is ps1 ps2 2 Hp), (Rp_strings ps1 ps2 Hp).
  destruct (negb (len_is ps2 2)); [exact I|].
  destruct (strings ps2) as [|f rest]; [exact I|]. destruct f as [|c f]; [exact I|]. destruct rest as [|repl rest]; [exact I|].
  destruct (cls_str_or_not v1 v2 Hc) as [[s [-> ->]]|[N1 N2]].
  - destruct (eng_re_replace eng (c :: f) s repl) as [[out|]|]; try exact I. apply Rv_str.
  - assert (S1 : match v1 with VStr false s => s | _ => [] end = [])
      by (destruct v1 as [| | | |[|] ?| | | | | | | |]; try discriminate N1; reflexivity).
    assert (S2 : match v2 with VStr false s => s | _ => [] end = [])
      by (destruct v2 as [| | | |[|] ?| | | | | | | |]; try discriminate N2; reflexivity).
    rewrite S1, S2. destruct (eng_re_replace eng (c :: f) [] repl) as [[out|]|]; try exact I.
    destruct v1 as [| | | |[|] ?| | | | | | | |]; try discriminate N1;
    destruct v2 as [| | | |[|] ?| | | | | | | |]; try discriminate N2; exact I.
Qed.

End Mode.
