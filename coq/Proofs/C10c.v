(* Proofs/C10c.v — C10, part 3: the runtime functions respect the relation. *)
From Mpath.Model Require Import Base Dec Types GoVal Ast Lexer Parser Funcs Eval.
From Mpath.Proofs Require Import DecQ C01 C10a C10b.

Section Mode.
Variables st pt : bool.
Variable eng : engines.

Notation R := (R st).
Notation Rv := (Rv st pt).
Notation Rflds := (Rflds st).
Notation objv := (objv st).
Notation pok := (pok pt).

(** * The receiver of a function: [convert_number cur] *)
Inductive cls : gv -> gv -> Prop :=
| C_nil : cls VNil VNil
| C_bool b : cls (VBool false b) (VBool false b)
| C_str s : cls (VStr false s) (VStr false s)
| C_dec d1 d2 : deqv d1 d2 -> cls (VDec d1) (VDec d2)
| C_seq v1 v2 t1 t2 xs1 xs2 :
    elems_of v1 = Some (t1, xs1) -> elems_of v2 = Some (t2, xs2) ->
    seq_nil v1 = seq_nil v2 -> arr_ok v1 -> arr_ok v2 -> tag_ok t1 xs1 -> tag_ok t2 xs2 ->
    Forall2 R xs1 xs2 -> cls v1 v2
| C_obj a b n fs1 fs2 :
    pok a -> pok b -> objv (tgt a) = Some (n, fs1) -> objv (tgt b) = Some (n, fs2) ->
    Rflds fs1 fs2 -> cls a b.

Lemma cls_Rv v1 v2 : cls v1 v2 -> Rv v1 v2.
Proof.
  intros H. destruct H as [|b|s|d1 d2 Hd|v1 v2 t1 t2 xs1 xs2 H1 H2 Hn A1 A2 T1 T2 Hxs|a b n fs1 fs2 Pa Pb H1 H2 Hf].
  - apply R_Rv. constructor.
  - apply R_Rv. constructor.
  - apply R_Rv. constructor.
  - apply R_Rv. apply R_num with (d1 := d1) (d2 := d2); try reflexivity. exact Hd.
  - apply R_Rv. eapply R_seq; eassumption.
  - split; [|split; assumption]. eapply R_obj; eassumption.
Qed.

Lemma cls_of_Rv c1 c2 : Rv c1 c2 -> cls (convert_number c1) (convert_number c2).
Proof.
  intros H. destruct (Rv_cases st pt c1 c2 H) as [H0|[Oa [Ob [H0 [Pa [Pb _]]]]]].
  - destruct (R_not_ptr st c1 c2 H0) as [P1 P2].
    rewrite (convert_number_cnv c1 P1), (convert_number_cnv c2 P2).
    destruct (R_shape st c1 c2 H0) as [|b0|s|v1 v2 d1 d2 H1 H2 Hd He|v1 v2 t1 t2 xs1 xs2 H1 H2 Hn A1 A2 T1 T2 Hxs|v1 v2 n fs1 fs2 H1 H2 Hf].
    + constructor.
    + constructor.
    + cbn [cnv]. destruct (dec_of_string s); constructor. apply deqv_refl.
    + rewrite (numv_cnv v1 d1 H1), (numv_cnv v2 d2 H2). constructor. exact Hd.
    + rewrite (elems_cnv v1 _ H1), (elems_cnv v2 _ H2). eapply C_seq; eassumption.
    + rewrite (objv_cnv st v1 _ H1), (objv_cnv st v2 _ H2).
      apply C_obj with (n := n) (fs1 := fs1) (fs2 := fs2); try assumption;
        try (apply pok_not_ptr; assumption); rewrite tgt_not_ptr by assumption; assumption.
  - rewrite (objlike_convert_number pt c1 Pa Oa), (objlike_convert_number pt c2 Pb Ob).
    destruct (R_obj_inv st _ _ H0 Oa) as [n [fs1 [fs2 [H1 [H2 Hf]]]]].
    apply C_obj with (n := n) (fs1 := fs1) (fs2 := fs2); assumption.
Qed.

(** results *)
Lemma Rv_bool b : Rv (vbool b) (vbool b).
Proof. apply R_Rv. constructor. Qed.
Lemma Rv_str s : Rv (vstr s) (vstr s).
Proof. apply R_Rv. constructor. Qed.
Lemma Rv_dec d1 d2 : deqv d1 d2 -> Rv (VDec d1) (VDec d2).
Proof. intros H. apply R_Rv. apply R_num with (d1 := d1) (d2 := d2); try reflexivity. exact H. Qed.

Lemma orel_boolv o1 o2 : orel eq o1 o2 -> orel Rv (boolv o1) (boolv o2).
Proof. intros H. unfold boolv. eapply orel_bind; [exact H|]. intros a b ->. apply Rv_bool. Qed.
Lemma orel_negate o1 o2 : orel eq o1 o2 -> orel Rv (negate o1) (negate o2).
Proof. intros H. unfold negate. eapply orel_bind; [exact H|]. intros a b ->. apply Rv_bool. Qed.

(** ** Object-like receivers: what the reflective helpers see *)
Lemma mfields_length kvs fs : mfields kvs = Some fs -> length kvs = length fs.
Proof.
  revert fs. induction kvs as [|[k v] r IH]; intros fs H; cbn [mfields] in H.
  - injection H as <-. reflexivity.
  - destruct (mkey k); [|discriminate]. destruct (mfields r) as [l|]; [|discriminate].
    injection H as <-. cbn. f_equal. apply IH. reflexivity.
Qed.

Lemma nzw_sfields fs : existsb nzw fs = true -> sfields fs <> [].
Proof.
  induction fs as [|[[[n e] i] v] r IH]; [discriminate|].
  cbn [existsb sfields nzw]. destruct e; cbn [andb orb]; [discriminate|]. exact IH.
Qed.

Lemma nzw_gv_is_zero fs : existsb nzw fs = true -> gv_is_zero (VStruct fs) = false.
Proof.
  cbn [gv_is_zero]. induction fs as [|[[[n e] i] v] r IH]; [discriminate|].
  cbn [existsb forallb nzw]. intros H. apply orb_true_iff in H. destruct H as [H|H].
  - apply andb_true_iff in H. destruct H as [H _]. apply andb_true_iff in H. destruct H as [_ H].
    destruct (if i then match v with VNil => true | _ => false end else gv_is_zero v); [discriminate H | reflexivity].
  - rewrite (IH H). apply andb_false_r.
Qed.

Lemma nzw_cmp_is_zero fs : existsb nzw fs = true -> cmp_is_zero (VStruct fs) = false.
Proof.
  cbn [cmp_is_zero]. induction fs as [|[[[n e] i] v] r IH]; [discriminate|].
  cbn [existsb forallb nzw]. intros H. apply orb_true_iff in H. destruct H as [H|H].
  - apply andb_true_iff in H. destruct H as [_ H].
    destruct (if i then match v with VNil => true | _ => false end else cmp_is_zero v); [discriminate H | reflexivity].
  - rewrite (IH H). apply andb_false_r.
Qed.

Definition fs_empty (fs : list (str * gv)) : bool := match fs with [] => true | _ => false end.

Inductive objlike_view (a : gv) (n : bool) (fs : list (str * gv)) : Prop :=
| OV_map kt vt kvs : a = VMap kt vt n kvs -> mfields kvs = Some fs -> objlike_view a n fs
| OV_struct fs0 : a = VStruct fs0 -> n = false -> fs = sfields fs0 -> st = true -> existsb nzw fs0 = true -> objlike_view a n fs
| OV_ptr x : a = VPtr (Some x) -> n = false -> fs <> [] -> is_obj x = true ->
             (match x with VStruct fs0 => existsb nzw fs0 = true | _ => True end) -> objlike_view a n fs.

Lemma objlike_inv a n fs : pok a -> objv (tgt a) = Some (n, fs) -> objlike_view a n fs.
Proof.
  intros Hp Ho. destruct (objlike_cases pt a Hp (is_obj_objv st _ _ Ho)) as [E|E].
  - rewrite <- E in Ho. destruct a as [| | | | | | | | |kt vt m kvs|fs0| |]; try discriminate Ho; cbn [C10b.objv] in Ho.
    + destruct (mfields kvs) as [l|] eqn:El; [|discriminate]. cbn in Ho. injection Ho as <- <-.
      eapply OV_map; [reflexivity | exact El].
    + destruct st eqn:Est; [|discriminate]. destruct (existsb nzw fs0) eqn:Ew; [|discriminate].
      cbn in Ho. injection Ho as <- <-. eapply OV_struct; [reflexivity|reflexivity|reflexivity|exact Est|exact Ew].
  - rewrite E in Hp. cbn in Hp. destruct Hp as [_ Hp].
    destruct (tgt a) as [| | | | | | | | |kt vt m kvs|fs0| |] eqn:Et; try contradiction; cbn [C10b.objv] in Ho.
    + destruct Hp as [-> Hne]. destruct (mfields kvs) as [l|] eqn:El; [|discriminate]. cbn in Ho. injection Ho as <- <-.
      eapply OV_ptr; [exact E | reflexivity | | reflexivity | exact I].
      intros ->. apply mfields_length in El. destruct kvs; [contradiction Hne; reflexivity | discriminate El].
    + destruct st; [|discriminate]. destruct (existsb nzw fs0) eqn:Ew; [|discriminate].
      cbn in Ho. injection Ho as <- <-.
      eapply OV_ptr; [exact E | reflexivity | apply nzw_sfields; exact Ew | reflexivity | exact Ew].
Qed.

Lemma objlike_is_empty a n fs : objlike_view a n fs -> is_empty_value (value_of a) = fs_empty fs.
Proof.
  intros [kt vt kvs -> Hm|fs0 -> _ -> _ Hw|x -> _ Hne _ _].
  - apply mfields_length in Hm. destruct kvs, fs; try discriminate Hm; reflexivity.
  - pose proof (nzw_sfields fs0 Hw) as Hne. destruct (sfields fs0); [contradiction Hne; reflexivity | reflexivity].
  - destruct fs; [contradiction Hne; reflexivity | reflexivity].
Qed.

Lemma objlike_elems a n fs : objlike_view a n fs -> elems_of (rv_v (deref1 (value_of a))) = None.
Proof.
  intros [kt vt kvs -> _|fs0 -> _ _ _ _|x -> _ _ Ho _]; try reflexivity.
  rewrite tgt_deref. cbn [tgt]. destruct x; try discriminate Ho; reflexivity.
Qed.

Lemma objlike_cmp_zero a n fs : objlike_view a n fs -> cmp_is_zero a = fs_empty fs.
Proof.
  intros [kt vt kvs -> Hm|fs0 -> _ -> _ Hw|x -> _ Hne _ _].
  - apply mfields_length in Hm. destruct kvs, fs; try discriminate Hm; reflexivity.
  - rewrite (nzw_cmp_is_zero fs0 Hw). pose proof (nzw_sfields fs0 Hw) as Hne.
    destruct (sfields fs0); [contradiction Hne; reflexivity | reflexivity].
  - destruct fs; [contradiction Hne; reflexivity | reflexivity].
Qed.

Lemma Rflds_empty fs1 fs2 : Rflds fs1 fs2 -> fs_empty fs1 = fs_empty fs2.
Proof. intros H. destruct H; reflexivity. Qed.

(** a receiver that is neither a decimal, nor a Go string, nor a Go bool *)
Definition opaque (v : gv) : bool :=
  match v with VDec _ | VStr false _ | VBool false _ => false | _ => true end.

Lemma objlike_opaque a n fs : objlike_view a n fs -> opaque a = true.
Proof. intros [kt vt kvs -> _|fs0 -> _ _ _ _|x -> _ _ _ _]; reflexivity. Qed.

Lemma seq_opaque v x : elems_of v = Some x -> opaque v = true.
Proof. destruct v; try discriminate; reflexivity. Qed.

(** * Equal, NotEqual *)
Lemma func_equal_opaque ps v : opaque v = true -> func_equal ps v = bind (params_first_any ps) (fun _ => Ok false).
Proof.
  intros Ho. unfold func_equal. destruct (params_first_any ps) as [p| | | |]; try reflexivity. cbn [bind].
  destruct v as [|nm b| | |nm s| | | | | | | |]; try discriminate Ho; try reflexivity.
  - destruct nm; [reflexivity | discriminate Ho].
  - destruct nm; [reflexivity | discriminate Ho].
Qed.

Lemma func_equal_rel ps1 ps2 v1 v2 :
  cls v1 v2 -> Forall2 Rp ps1 ps2 -> orel eq (func_equal ps1 v1) (func_equal ps2 v2).
Proof.
  intros Hc Hp. pose proof (Rp_first_any ps1 ps2 Hp) as Ha.
  assert (Hop : forall v1 v2, opaque v1 = true -> opaque v2 = true -> orel eq (func_equal ps1 v1) (func_equal ps2 v2)).
  { intros w1 w2 O1 O2. rewrite (func_equal_opaque ps1 w1 O1), (func_equal_opaque ps2 w2 O2).
    eapply orel_bind; [exact Ha|]. intros; reflexivity. }
  destruct Hc as [|b|s|d1 d2 Hd|v1 v2 t1 t2 xs1 xs2 H1 H2 Hn A1 A2 T1 T2 Hxs|a b n fs1 fs2 Pa Pb H1 H2 Hf].
  - apply Hop; reflexivity.
  - unfold func_equal. eapply orel_bind; [exact Ha|]. intros p q Hpq. destruct Hpq; reflexivity.
  - unfold func_equal. eapply orel_bind; [exact Ha|]. intros p q Hpq. destruct Hpq; reflexivity.
  - unfold func_equal. eapply orel_bind; [exact Ha|]. intros p q Hpq. destruct Hpq as [e1 e2 He| |]; try reflexivity.
    cbn [orel]. apply deq_resp; assumption.
  - apply Hop; eapply seq_opaque; eassumption.
  - apply Hop; eapply objlike_opaque; apply objlike_inv; eassumption.
Qed.

(** * Less, LessOrEqual, Greater, GreaterOrEqual *)
Lemma decimal_bool_func_rel (f : dec -> dec -> bool) ps1 ps2 v1 v2 :
  (forall a a' b b', deqv a a' -> deqv b b' -> f a b = f a' b') ->
  cls v1 v2 -> Forall2 Rp ps1 ps2 -> orel Rv (decimal_bool_func f ps1 v1) (decimal_bool_func f ps2 v2).
Proof.
  intros Hf Hc Hp. unfold decimal_bool_func.
  eapply orel_bind; [apply Rp_first_number; exact Hp|]. intros p q Hpq.
  destruct Hc as [|b|s|d1 d2 Hd|v1 v2 t1 t2 xs1 xs2 H1 H2 Hn A1 A2 T1 T2 Hxs|a b n fs1 fs2 Pa Pb H1 H2 Hf'];
    try exact I.
  - cbn [orel]. rewrite (Hf d1 d2 p q Hd Hpq). apply Rv_bool.
  - destruct v1; try discriminate H1; destruct v2; try discriminate H2; exact I.
  - pose proof (objlike_opaque a n fs1 (objlike_inv a n fs1 Pa H1)) as O1.
    pose proof (objlike_opaque b n fs2 (objlike_inv b n fs2 Pb H2)) as O2.
    destruct a; try discriminate O1; destruct b; try discriminate O2; exact I.
Qed.

(** * Not, Invert *)
Lemma func_not_rel v1 v2 : cls v1 v2 -> orel Rv (func_not v1) (func_not v2).
Proof.
  intros Hc.
  destruct Hc as [|b|s|d1 d2 Hd|v1 v2 t1 t2 xs1 xs2 H1 H2 Hn A1 A2 T1 T2 Hxs|a b n fs1 fs2 Pa Pb H1 H2 Hf'];
    try exact I.
  - apply Rv_bool.
  - destruct v1; try discriminate H1; destruct v2; try discriminate H2; exact I.
  - destruct (objlike_inv a n fs1 Pa H1) as [? ? ? -> _|? -> _ _ _ _|x -> _ _ Ox _];
    destruct (objlike_inv b n fs2 Pb H2) as [? ? ? -> _|? -> _ _ _ _|y -> _ _ Oy _]; exact I.
Qed.

Lemma func_invert_rel v1 v2 : cls v1 v2 -> orel Rv (func_invert v1) (func_invert v2).
Proof.
  intros Hc.
  destruct Hc as [|b|s|d1 d2 Hd|v1 v2 t1 t2 xs1 xs2 H1 H2 Hn A1 A2 T1 T2 Hxs|a b n fs1 fs2 Pa Pb H1 H2 Hf'];
    try exact I.
  - apply Rv_bool.
  - destruct v1; try discriminate H1; destruct v2; try discriminate H2; exact I.
  - assert (F1 : exists t, func_invert a = fail t).
    { destruct (objlike_inv a n fs1 Pa H1) as [? ? ? -> _|? -> _ _ _ _|x -> _ _ Ox _]; try (eexists; reflexivity).
      destruct x; try discriminate Ox; eexists; reflexivity. }
    assert (F2 : exists t, func_invert b = fail t).
    { destruct (objlike_inv b n fs2 Pb H2) as [? ? ? -> _|? -> _ _ _ _|x -> _ _ Ox _]; try (eexists; reflexivity).
      destruct x; try discriminate Ox; eexists; reflexivity. }
    destruct F1 as [t1 ->], F2 as [t2 ->]. exact I.
Qed.

(** * Functions of a string receiver: every other receiver is an error *)
Definition notstr (v : gv) : bool := match v with VStr false _ => false | _ => true end.

Lemma opaque_notstr v : opaque v = true -> notstr v = true.
Proof. destruct v as [| | | |[|] ?| | | | | | | |]; try reflexivity; discriminate. Qed.

Lemma cls_str_or_not v1 v2 :
  cls v1 v2 -> (exists s, v1 = VStr false s /\ v2 = VStr false s) \/ (notstr v1 = true /\ notstr v2 = true).
Proof.
  intros Hc.
  destruct Hc as [|b|s|d1 d2 Hd|v1 v2 t1 t2 xs1 xs2 H1 H2 Hn A1 A2 T1 T2 Hxs|a b n fs1 fs2 Pa Pb H1 H2 Hf'];
    try (right; split; reflexivity).
  - left. exists s. split; reflexivity.
  - right. destruct v1; try discriminate H1; destruct v2; try discriminate H2; split; reflexivity.
  - right. split; apply opaque_notstr; eapply objlike_opaque; apply objlike_inv; eassumption.
Qed.

Lemma string_bool_func_rel f inv ps1 ps2 v1 v2 :
  cls v1 v2 -> Forall2 Rp ps1 ps2 -> orel Rv (string_bool_func f inv ps1 v1) (string_bool_func f inv ps2 v2).
Proof.
  intros Hc Hp. unfold string_bool_func. rewrite (Rp_first_string ps1 ps2 Hp).
  destruct (params_first_string ps2) as [p|[|t]|m| |w]; cbn [bind]; try exact I.
  destruct (cls_str_or_not v1 v2 Hc) as [[s [-> ->]]|[N1 N2]].
  - apply Rv_bool.
  - destruct v1 as [| | | |[|] ?| | | | | | | |]; try discriminate N1;
    destruct v2 as [| | | |[|] ?| | | | | | | |]; try discriminate N2; exact I.
Qed.

Lemma orel_eq_refl {A} (o : outcome A) : orel eq o o.
Proof. destruct o as [a|[|t]|m| |w]; try exact I. reflexivity. Qed.

Lemma string_part_func_rel w ps1 ps2 v1 v2 :
  cls v1 v2 -> Forall2 Rp ps1 ps2 -> orel Rv (string_part_func w ps1 v1) (string_part_func w ps2 v2).
Proof.
  intros Hc Hp. unfold string_part_func.
  eapply orel_bind; [apply Rp_first_number; exact Hp|]. intros p q Hpq.
  rewrite (dis_integer_resp p q Hpq), (dis_neg_resp p q Hpq).
  destruct (negb (dis_integer q)); [exact I|]. destruct (dis_neg q); [exact I|].
  destruct (cls_str_or_not v1 v2 Hc) as [[s [-> ->]]|[N1 N2]].
  - rewrite (dgt_resp p q (mkDec (Z.of_nat (length s)) 0) (mkDec (Z.of_nat (length s)) 0) Hpq (deqv_refl _)).
    assert (Hi : int_part (if dgt q (mkDec (Z.of_nat (length s)) 0) then mkDec (Z.of_nat (length s)) 0 else p)
               = int_part (if dgt q (mkDec (Z.of_nat (length s)) 0) then mkDec (Z.of_nat (length s)) 0 else q)).
    { destruct (dgt q _); [reflexivity | apply int_part_resp; exact Hpq]. }
    rewrite Hi.
    eapply orel_bind with (P := eq); [apply orel_eq_refl|]. intros r r' <-. apply Rv_str.
  - destruct v1 as [| | | |[|] ?| | | | | | | |]; try discriminate N1;
    destruct v2 as [| | | |[|] ?| | | | | | | |]; try discriminate N2; exact I.
Qed.

Lemma func_replace_all_notstr ps v : notstr v = true -> exists t, func_replace_all ps v = fail t.
Proof.
  intros Hn. unfold func_replace_all. destruct (negb (len_is ps 2)); [eexists; reflexivity|].
  destruct (strings ps) as [|f rest]; [eexists; reflexivity|].
  destruct f; [eexists; reflexivity|]. destruct rest; [eexists; reflexivity|].
  destruct v as [| | | |[|] ?| | | | | | | |]; try discriminate Hn; eexists; reflexivity.
Qed.

Lemma func_replace_all_rel ps1 ps2 v1 v2 :
  cls v1 v2 -> Forall2 Rp ps1 ps2 -> orel Rv (func_replace_all ps1 v1) (func_replace_all ps2 v2).
Proof.
  intros Hc Hp. destruct (cls_str_or_not v1 v2 Hc) as [[s [-> ->]]|[N1 N2]].
  - unfold func_replace_all. rewrite (Rp_len_is ps1 ps2 2 Hp), (Rp_strings ps1 ps2 Hp).
    destruct (negb (len_is ps2 2)); [exact I|].
    destruct (strings ps2) as [|f rest]; [exact I|]. destruct f; [exact I|]. destruct rest; [exact I|].
    apply Rv_str.
  - destruct (func_replace_all_notstr ps1 v1 N1) as [t1 ->], (func_replace_all_notstr ps2 v2 N2) as [t2 ->]. exact I.
Qed.

Lemma orel_same_err {A} (o : outcome A) (P : A -> A -> Prop) :
  (forall a, o <> Ok a) -> orel P o o.
Proof. intros H. destruct o as [a|[|t]|m| |w]; try exact I. exfalso. apply (H a). reflexivity. Qed.

Lemma func_does_match_regex_rel ps1 ps2 v1 v2 :
  cls v1 v2 -> Forall2 Rp ps1 ps2 ->
  orel Rv (func_does_match_regex eng ps1 v1) (func_does_match_regex eng ps2 v2).
Proof.
  intros Hc Hp. unfold func_does_match_regex. rewrite (Rp_first_string ps1 ps2 Hp).
  destruct (params_first_string ps2) as [p|[|t]|m| |w]; cbn [bind]; try exact I.
  destruct (cls_str_or_not v1 v2 Hc) as [[s [-> ->]]|[N1 N2]].
  - destruct (eng_re_match eng p s) as [[b|]|]; try exact I. apply Rv_bool.
  - assert (E1 : forall v, notstr v = true ->
        match v with
        | VStr false s => match eng_re_match eng p s with None => Declined "regexp oracle miss" | Some None => fail "regular expression is invalid" | Some (Some b) => Ok (vbool b) end
        | _ => match eng_re_match eng p [] with None => Declined "regexp oracle miss" | Some None => fail "regular expression is invalid" | Some _ => fail "value wasn't string" end
        end = match eng_re_match eng p [] with None => Declined "regexp oracle miss" | Some None => fail "regular expression is invalid" | Some _ => fail "value wasn't string" end).
    { intros v Hn. destruct v as [| | | |[|] ?| | | | | | | |]; try discriminate Hn; reflexivity. }
    rewrite (E1 v1 N1), (E1 v2 N2). destruct (eng_re_match eng p []) as [[b|]|]; exact I.
Qed.

Lemma func_replace_regex_rel ps1 ps2 v1 v2 :
  cls v1 v2 -> Forall2 Rp ps1 ps2 ->
  orel Rv (func_replace_regex eng ps1 v1) (func_replace_regex eng ps2 v2).
Proof.
  intros Hc Hp. unfold func_replace_regex. rewrite (Rp_len_is ps1 ps2 2 Hp), (Rp_strings ps1 ps2 Hp).
  destruct (negb (len_is ps2 2)); [exact I|].
  destruct (strings ps2) as [|f rest]; [exact I|]. destruct f as [|c f]; [exact I|]. destruct rest as [|repl rest]; [exact I|].
  destruct (cls_str_or_not v1 v2 Hc) as [[s [-> ->]]|[N1 N2]].
  - destruct (eng_re_replace eng (c :: f) s repl) as [[out|]|]; try exact I. apply Rv_str.
  - assert (S1 : match v1 with VStr false s => s | _ => [] end = [])
      by (destruct v1 as [| | | |[|] ?| | | | | | | |]; try discriminate N1; reflexivity).
    assert (S2 : match v2 with VStr false s => s | _ => [] end = [])
      by (destruct v2 as [| | | |[|] ?| | | | | | | |]; try discriminate N2; reflexivity).
    rewrite S1, S2. destruct (eng_re_replace eng (c :: f) [] repl) as [[out|]|]; try exact I.
    destruct v1 as [| | | |[|] ?| | | | | | | |]; try discriminate N1;
    destruct v2 as [| | | |[|] ?| | | | | | | |]; try discriminate N2; exact I.
Qed.


(** * Count, Any, First, Last, Index *)
Lemma seq_not_ptr v x : elems_of v = Some x -> is_ptr v = false.
Proof. destruct v; try discriminate; reflexivity. Qed.

Lemma seq_is_empty v t xs : elems_of v = Some (t, xs) -> is_empty_value (value_of v) = (length xs =? 0)%nat.
Proof.
  destruct v as [| | | | | | |t0 n0 ys|t0 ys| | | |]; try discriminate; cbn [elems_of]; intros H; injection H as <- <-; reflexivity.
Qed.

Lemma seq_elems_deref v t xs : elems_of v = Some (t, xs) -> elems_of (rv_v (deref1 (value_of v))) = Some (t, xs).
Proof. intros H. rewrite tgt_deref, tgt_not_ptr by (eapply seq_not_ptr; exact H). exact H. Qed.

Lemma seq_empty_guard v x : elems_of v = Some x -> empty_guard (value_of v) = false.
Proof. destruct v; try discriminate; intros _; unfold empty_guard; cbn; apply andb_false_r. Qed.

Lemma objlike_empty_guard a n fs : objlike_view a n fs -> empty_guard (value_of a) = fs_empty fs.
Proof.
  intros Hv. unfold empty_guard. rewrite (objlike_is_empty a n fs Hv).
  destruct Hv as [kt vt kvs -> _|fs0 -> _ _ _ _|x -> _ _ _ _]; cbn; apply andb_true_r.
Qed.

Lemma Forall2_len {A B} (P : A -> B -> Prop) l1 l2 : Forall2 P l1 l2 -> length l1 = length l2.
Proof. induction 1; cbn; congruence. Qed.

Lemma Forall2_nth {A B} (P : A -> B -> Prop) l1 l2 :
  Forall2 P l1 l2 -> forall i, opt_rel P (nth_error l1 i) (nth_error l2 i).
Proof.
  induction 1 as [|x y r1 r2 Hxy Hr IH]; intros [|i]; cbn; try exact I; [exact Hxy | apply IH].
Qed.

Lemma Rv_elem x y : R x y -> Rv (convert_number x) (convert_number y).
Proof. intros H. apply R_Rv. apply R_convert_number. exact H. Qed.

Lemma func_count_rel ps1 ps2 v1 v2 :
  cls v1 v2 -> Forall2 Rp ps1 ps2 -> orel Rv (func_count ps1 v1) (func_count ps2 v2).
Proof.
  intros Hc Hp. unfold func_count. rewrite (Rp_len_is ps1 ps2 0 Hp).
  destruct (negb (len_is ps2 0)); [exact I|].
  destruct Hc as [|b|s|d1 d2 Hd|v1 v2 t1 t2 xs1 xs2 H1 H2 Hn A1 A2 T1 T2 Hxs|a b n fs1 fs2 Pa Pb H1 H2 Hf].
  - cbn. apply Rv_dec, deqv_refl.
  - destruct b; cbn; apply Rv_dec, deqv_refl.
  - destruct s; cbn; apply Rv_dec, deqv_refl.
  - cbn. apply Rv_dec, deqv_refl.
  - rewrite (seq_is_empty v1 t1 xs1 H1), (seq_is_empty v2 t2 xs2 H2), (seq_elems_deref v1 t1 xs1 H1), (seq_elems_deref v2 t2 xs2 H2).
    rewrite (Forall2_len _ _ _ Hxs). destruct (length xs2 =? 0)%nat; apply Rv_dec, deqv_refl.
  - pose proof (objlike_inv a n fs1 Pa H1) as V1. pose proof (objlike_inv b n fs2 Pb H2) as V2.
    rewrite (objlike_elems a n fs1 V1), (objlike_elems b n fs2 V2).
    destruct (is_empty_value (value_of a)), (is_empty_value (value_of b)); apply Rv_dec, deqv_refl.
Qed.

Lemma objlike_any a n fs :
  objlike_view a n fs ->
  (if is_empty_value (value_of a) then Ok (vbool false) else
   match rv_v (deref1 (value_of a)) with
   | VSlice _ _ xs | VArray _ xs => Ok (vbool (negb (length xs =? 0)%nat))
   | VStruct _ => Ok (vbool (gv_is_zero (rv_v (deref1 (value_of a)))))
   | VDec d => Declined "Any() on a decimal: IsZero of big.Int internals"
   | _ => Ok (vbool false)
   end) = Ok (vbool false).
Proof.
  intros Hv. destruct (is_empty_value (value_of a)); [reflexivity|].
  rewrite tgt_deref.
  destruct Hv as [kt vt kvs -> _|fs0 -> _ _ _ Hw|x -> _ _ Ho Hw]; cbn [tgt].
  - reflexivity.
  - rewrite (nzw_gv_is_zero fs0 Hw). reflexivity.
  - destruct x; try discriminate Ho; [reflexivity|]. rewrite (nzw_gv_is_zero _ Hw). reflexivity.
Qed.

Lemma func_any_rel ps1 ps2 v1 v2 :
  cls v1 v2 -> Forall2 Rp ps1 ps2 -> orel Rv (func_any ps1 v1) (func_any ps2 v2).
Proof.
  intros Hc Hp. unfold func_any. rewrite (Rp_len_is ps1 ps2 0 Hp).
  destruct (negb (len_is ps2 0)); [exact I|].
  destruct Hc as [|b|s|d1 d2 Hd|v1 v2 t1 t2 xs1 xs2 H1 H2 Hn A1 A2 T1 T2 Hxs|a b n fs1 fs2 Pa Pb H1 H2 Hf].
  - cbn. apply Rv_bool.
  - destruct b; cbn; apply Rv_bool.
  - destruct s; cbn; apply Rv_bool.
  - cbn. exact I.
  - rewrite (seq_is_empty v1 t1 xs1 H1), (seq_is_empty v2 t2 xs2 H2).
    rewrite !tgt_deref, !tgt_not_ptr by (eapply seq_not_ptr; eassumption).
    pose proof (Forall2_len _ _ _ Hxs) as Hl.
    assert (E1 : forall v t xs, elems_of v = Some (t, xs) ->
       match v with
       | VSlice _ _ xs | VArray _ xs => Ok (vbool (negb (length xs =? 0)%nat))
       | VStruct _ => Ok (vbool (gv_is_zero v))
       | VDec d => Declined "Any() on a decimal: IsZero of big.Int internals"
       | _ => Ok (vbool false)
       end = Ok (vbool (negb (length xs =? 0)%nat))).
    { intros v t xs Hv. destruct v; try discriminate Hv; cbn [elems_of] in Hv; injection Hv as _ <-; reflexivity. }
    rewrite (E1 v1 t1 xs1 H1), (E1 v2 t2 xs2 H2), Hl.
    destruct (length xs2 =? 0)%nat; apply Rv_bool.
  - rewrite (objlike_any a n fs1 (objlike_inv a n fs1 Pa H1)), (objlike_any b n fs2 (objlike_inv b n fs2 Pb H2)).
    apply Rv_bool.
Qed.

Lemma func_first_rel ps1 ps2 v1 v2 :
  cls v1 v2 -> Forall2 Rp ps1 ps2 -> orel Rv (func_first ps1 v1) (func_first ps2 v2).
Proof.
  intros Hc Hp. unfold func_first. rewrite (Rp_len_is ps1 ps2 0 Hp).
  destruct (negb (len_is ps2 0)); [exact I|].
  destruct Hc as [|b|s|d1 d2 Hd|v1 v2 t1 t2 xs1 xs2 H1 H2 Hn A1 A2 T1 T2 Hxs|a b n fs1 fs2 Pa Pb H1 H2 Hf].
  - cbn. exact I.
  - destruct b; cbn; [exact I | apply Rv_dec, deqv_refl].
  - destruct s; cbn; [apply Rv_dec, deqv_refl | exact I].
  - cbn. exact I.
  - rewrite (seq_empty_guard v1 _ H1), (seq_empty_guard v2 _ H2), (seq_elems_deref v1 t1 xs1 H1), (seq_elems_deref v2 t2 xs2 H2).
    destruct Hxs as [|x y r1 r2 Hxy _]; [exact I|]. apply Rv_elem. exact Hxy.
  - pose proof (objlike_inv a n fs1 Pa H1) as V1. pose proof (objlike_inv b n fs2 Pb H2) as V2.
    rewrite (objlike_empty_guard a n fs1 V1), (objlike_empty_guard b n fs2 V2), (Rflds_empty fs1 fs2 Hf).
    rewrite (objlike_elems a n fs1 V1), (objlike_elems b n fs2 V2).
    destruct (fs_empty fs2); [apply Rv_dec, deqv_refl | exact I].
Qed.

Lemma func_last_rel ps1 ps2 v1 v2 :
  cls v1 v2 -> Forall2 Rp ps1 ps2 -> orel Rv (func_last ps1 v1) (func_last ps2 v2).
Proof.
  intros Hc Hp. unfold func_last. rewrite (Rp_len_is ps1 ps2 0 Hp).
  destruct (negb (len_is ps2 0)); [exact I|].
  destruct Hc as [|b|s|d1 d2 Hd|v1 v2 t1 t2 xs1 xs2 H1 H2 Hn A1 A2 T1 T2 Hxs|a b n fs1 fs2 Pa Pb H1 H2 Hf].
  - cbn. exact I.
  - destruct b; cbn; [exact I | apply Rv_dec, deqv_refl].
  - destruct s; cbn; [apply Rv_dec, deqv_refl | exact I].
  - cbn. exact I.
  - rewrite (seq_empty_guard v1 _ H1), (seq_empty_guard v2 _ H2), (seq_elems_deref v1 t1 xs1 H1), (seq_elems_deref v2 t2 xs2 H2).
    pose proof (Forall2_nth _ _ _ Hxs (length xs2 - 1)) as Hn'. pose proof (Forall2_len _ _ _ Hxs) as Hl.
    destruct Hxs as [|x y r1 r2 Hxy Hr]; [exact I|]. rewrite Hl.
    destruct (nth_error (x :: r1) (length (y :: r2) - 1)), (nth_error (y :: r2) (length (y :: r2) - 1)); cbn in Hn'; try contradiction; [|exact I].
    apply Rv_elem. exact Hn'.
  - pose proof (objlike_inv a n fs1 Pa H1) as V1. pose proof (objlike_inv b n fs2 Pb H2) as V2.
    rewrite (objlike_empty_guard a n fs1 V1), (objlike_empty_guard b n fs2 V2), (Rflds_empty fs1 fs2 Hf).
    rewrite (objlike_elems a n fs1 V1), (objlike_elems b n fs2 V2).
    destruct (fs_empty fs2); [apply Rv_dec, deqv_refl | exact I].
Qed.

Lemma func_index_rel ps1 ps2 v1 v2 :
  cls v1 v2 -> Forall2 Rp ps1 ps2 -> orel Rv (func_index ps1 v1) (func_index ps2 v2).
Proof.
  intros Hc Hp. unfold func_index.
  eapply orel_bind; [apply Rp_first_number; exact Hp|]. intros p q Hpq.
  destruct Hc as [|b|s|d1 d2 Hd|v1 v2 t1 t2 xs1 xs2 H1 H2 Hn A1 A2 T1 T2 Hxs|a b n fs1 fs2 Pa Pb H1 H2 Hf].
  - cbn. exact I.
  - destruct b; cbn; [exact I | apply Rv_dec, deqv_refl].
  - destruct s; cbn; [apply Rv_dec, deqv_refl | exact I].
  - cbn. exact I.
  - rewrite (seq_empty_guard v1 _ H1), (seq_empty_guard v2 _ H2), (seq_elems_deref v1 t1 xs1 H1), (seq_elems_deref v2 t2 xs2 H2).
    rewrite (Forall2_len _ _ _ Hxs), (dis_neg_resp p q Hpq), (int_part_resp p q Hpq).
    rewrite (dlt_resp p q _ _ Hpq (deqv_refl (mkDec (Z.of_nat (length xs2)) 0))).
    destruct (negb (dis_neg q) && dlt q (mkDec (Z.of_nat (length xs2)) 0)); [|exact I].
    cbv zeta. destruct (int_part q <? 0); [exact I|].
    pose proof (Forall2_nth _ _ _ Hxs (Z.to_nat (int_part q))) as Hn'.
    destruct (nth_error xs1 (Z.to_nat (int_part q))), (nth_error xs2 (Z.to_nat (int_part q))); cbn in Hn'; try contradiction; [|exact I].
    apply Rv_elem. exact Hn'.
  - pose proof (objlike_inv a n fs1 Pa H1) as V1. pose proof (objlike_inv b n fs2 Pb H2) as V2.
    rewrite (objlike_empty_guard a n fs1 V1), (objlike_empty_guard b n fs2 V2), (Rflds_empty fs1 fs2 Hf).
    rewrite (objlike_elems a n fs1 V1), (objlike_elems b n fs2 V2).
    destruct (fs_empty fs2); [apply Rv_dec, deqv_refl | exact I].
Qed.

(** * Add, Subtract, Multiply *)
Lemma cls_dec_or_not v1 v2 :
  cls v1 v2 -> (exists d1 d2, v1 = VDec d1 /\ v2 = VDec d2 /\ deqv d1 d2) \/ (is_dec v1 = false /\ is_dec v2 = false).
Proof.
  intros Hc.
  destruct Hc as [|b|s|d1 d2 Hd|v1 v2 t1 t2 xs1 xs2 H1 H2 Hn A1 A2 T1 T2 Hxs|a b n fs1 fs2 Pa Pb H1 H2 Hf'];
    try (right; split; reflexivity).
  - left. exists d1, d2. repeat split; assumption.
  - right. destruct v1; try discriminate H1; destruct v2; try discriminate H2; split; reflexivity.
  - right. pose proof (objlike_opaque a n fs1 (objlike_inv a n fs1 Pa H1)) as O1.
    pose proof (objlike_opaque b n fs2 (objlike_inv b n fs2 Pb H2)) as O2.
    destruct a; try discriminate O1; destruct b; try discriminate O2; split; reflexivity.
Qed.

Lemma func_decimal_rel op ps1 ps2 v1 v2 :
  cls v1 v2 -> Forall2 Rp ps1 ps2 -> orel Rv (func_decimal op ps1 v1) (func_decimal op ps2 v2).
Proof.
  intros Hc Hp. unfold func_decimal.
  eapply orel_bind; [apply Rp_first_number; exact Hp|]. intros p q Hpq.
  assert (Hz : dis_zero p = false -> coef p <> 0%Z).
  { unfold dis_zero. intros E. apply Z.eqb_neq. exact E. }
  rewrite (dis_zero_resp p q Hpq) in Hz |- *.
  destruct (cls_dec_or_not v1 v2 Hc) as [[d1 [d2 [-> [-> Hd]]]]|[N1 N2]].
  - destruct op; try (destruct (dis_zero q); [exact I|]); cbn [orel]; apply Rv_dec;
      [apply dadd_resp | apply dsub_resp | apply dmul_resp | apply ddiv_resp | apply dmod_resp];
      try assumption; apply Hz; reflexivity.
  - destruct op; try (destruct (dis_zero q); [exact I|]);
      destruct v1; try discriminate N1; destruct v2; try discriminate N2; exact I.
Qed.

(** * AnyOf *)
Lemma any_of_opaque v l : opaque v = true -> any_of_loop v l = false.
Proof.
  intros Ho. induction l as [|p r IH]; [reflexivity|]. cbn [any_of_loop].
  destruct v as [|[|] ?| | |[|] ?| | | | | | | |]; try discriminate Ho; try exact IH;
    destruct p as [|[|] ?| | |[|] ?| | | | | | | |]; exact IH.
Qed.

Lemma any_of_skip_decs v ns rest : is_dec v = false -> any_of_loop v (map VDec ns ++ rest) = any_of_loop v rest.
Proof.
  intros Hd. induction ns as [|d r IH]; [reflexivity|]. cbn [map app any_of_loop].
  destruct v as [|[|] ?| | |[|] ?| | | | | | | |]; try discriminate Hd; exact IH.
Qed.

Lemma any_of_dec_rest d ss bs :
  any_of_loop (VDec d) (map (VStr false) ss ++ map (VBool false) bs) = false.
Proof. destruct ss; [destruct bs|]; reflexivity. Qed.

Lemma any_of_dec_rel d1 d2 ns1 ns2 rest1 rest2 :
  deqv d1 d2 -> Forall2 deqv ns1 ns2 ->
  any_of_loop (VDec d1) rest1 = any_of_loop (VDec d2) rest2 ->
  any_of_loop (VDec d1) (map VDec ns1 ++ rest1) = any_of_loop (VDec d2) (map VDec ns2 ++ rest2).
Proof.
  intros Hd Hn Hr. induction Hn as [|x y r1 r2 Hxy _ IH]; [exact Hr|].
  cbn [map app any_of_loop]. rewrite (deq_resp d1 d2 x y Hd Hxy). destruct (deq d2 y); [reflexivity | exact IH].
Qed.

Lemma func_any_of_rel ps1 ps2 v1 v2 :
  cls v1 v2 -> Forall2 Rp ps1 ps2 -> orel Rv (func_any_of ps1 v1) (func_any_of ps2 v2).
Proof.
  intros Hc Hp. unfold func_any_of, params_get_all. cbn [orel].
  rewrite (Rp_strings ps1 ps2 Hp), (Rp_bools ps1 ps2 Hp).
  pose proof (Rp_numbers ps1 ps2 Hp) as Hn.
  assert (E : any_of_loop v1 (map VDec (numbers ps1) ++ map (VStr false) (strings ps2) ++ map (VBool false) (bools ps2))
            = any_of_loop v2 (map VDec (numbers ps2) ++ map (VStr false) (strings ps2) ++ map (VBool false) (bools ps2))).
  { destruct Hc as [|b|s|d1 d2 Hd|v1 v2 t1 t2 xs1 xs2 H1 H2 Hn' A1 A2 T1 T2 Hxs|a b n fs1 fs2 Pa Pb H1 H2 Hf].
    - rewrite !any_of_opaque by reflexivity. reflexivity.
    - rewrite !any_of_skip_decs by reflexivity. reflexivity.
    - rewrite !any_of_skip_decs by reflexivity. reflexivity.
    - apply any_of_dec_rel; [exact Hd | exact Hn|]. rewrite !any_of_dec_rest. reflexivity.
    - rewrite !any_of_opaque by (eapply seq_opaque; eassumption). reflexivity.
    - rewrite !any_of_opaque by (eapply objlike_opaque; apply objlike_inv; eassumption). reflexivity. }
  rewrite E. apply Rv_bool.
Qed.

(** * IsNull, IsEmpty and their negations *)
Lemma seq_cmp_zero v t xs : elems_of v = Some (t, xs) -> arr_ok v -> cmp_is_zero v = match xs with [] => true | _ => false end.
Proof.
  destruct v as [| | | | | | |t0 n0 ys|t0 ys| | | |]; try discriminate; cbn [elems_of]; intros H; injection H as <- <-.
  - intros _. reflexivity.
  - destruct ys; [reflexivity|]. intros H. exact H.
Qed.

Lemma cls_cmp_zero v1 v2 : cls v1 v2 -> cmp_is_zero v1 = cmp_is_zero v2.
Proof.
  intros Hc.
  destruct Hc as [|b|s|d1 d2 Hd|v1 v2 t1 t2 xs1 xs2 H1 H2 Hn A1 A2 T1 T2 Hxs|a b n fs1 fs2 Pa Pb H1 H2 Hf]; try reflexivity.
  - apply (dis_zero_resp d1 d2 Hd).
  - rewrite (seq_cmp_zero v1 t1 xs1 H1 A1), (seq_cmp_zero v2 t2 xs2 H2 A2). destruct Hxs; reflexivity.
  - rewrite (objlike_cmp_zero a n fs1 (objlike_inv a n fs1 Pa H1)), (objlike_cmp_zero b n fs2 (objlike_inv b n fs2 Pb H2)).
    apply Rflds_empty. exact Hf.
Qed.

Lemma cls_is_nil v1 v2 : cls v1 v2 -> is_nil v1 = is_nil v2.
Proof. intros Hc. apply (Rv_is_nil st pt). apply cls_Rv. exact Hc. Qed.

Lemma func_is_null_rel ps1 ps2 v1 v2 :
  cls v1 v2 -> Forall2 Rp ps1 ps2 -> orel eq (func_is_null ps1 v1) (func_is_null ps2 v2).
Proof.
  intros Hc Hp. unfold func_is_null. rewrite (Rp_len_is ps1 ps2 0 Hp), (cls_is_nil v1 v2 Hc).
  destruct (negb (len_is ps2 0)); [exact I | reflexivity].
Qed.

Lemma func_is_empty_rel ps1 ps2 v1 v2 :
  cls v1 v2 -> Forall2 Rp ps1 ps2 -> orel eq (func_is_empty ps1 v1) (func_is_empty ps2 v2).
Proof.
  intros Hc Hp. unfold func_is_empty. rewrite (Rp_len_is ps1 ps2 0 Hp), (cls_cmp_zero v1 v2 Hc).
  destruct (negb (len_is ps2 0)); [exact I | reflexivity].
Qed.

Lemma func_is_null_or_empty_rel ps1 ps2 v1 v2 :
  cls v1 v2 -> Forall2 Rp ps1 ps2 -> orel eq (func_is_null_or_empty ps1 v1) (func_is_null_or_empty ps2 v2).
Proof.
  intros Hc Hp. unfold func_is_null_or_empty.
  rewrite (Rp_len_is ps1 ps2 0 Hp), (cls_cmp_zero v1 v2 Hc), (cls_is_nil v1 v2 Hc).
  destruct (negb (len_is ps2 0)); [exact I | reflexivity].
Qed.


(** * Sum, Minimum, Maximum (objects are maps, no pointers) *)
Definition pnums (ps : list rparam) : list dec := numbers ps ++ filter_map string_number (strings ps).

Definition agg_out (a : agg) (o : option (list dec)) : outcome gv :=
  match o with
  | None => fail "not an array of numbers"
  | Some [] => Ok (VDec dzero)
  | Some [d] => Ok (VDec d)
  | Some (d :: rest) => Ok (VDec (run_agg a d rest))
  end.

Lemma pnums_rel ps1 ps2 : Forall2 Rp ps1 ps2 -> Forall2 deqv (pnums ps1) (pnums ps2).
Proof.
  intros Hp. unfold pnums. rewrite (Rp_strings ps1 ps2 Hp).
  apply Forall2_app; [apply Rp_numbers; exact Hp | apply Forall2_deqv_refl].
Qed.

Lemma elem_number_numv v d : numv v = Some d -> elem_number v = Some d.
Proof.
  destruct v as [| | k nm z | i nm f | | | | | | | | |]; try discriminate; cbn [numv].
  - intros H; injection H as <-. unfold elem_number. rewrite cnc_not_ptr by reflexivity. reflexivity.
  - destruct f; try discriminate. intros H; injection H as <-.
    unfold elem_number. rewrite cnc_not_ptr by reflexivity. reflexivity.
  - intros H; injection H as <-. reflexivity.
Qed.

Lemma elem_number_rel x y : R x y -> opt_rel deqv (elem_number x) (elem_number y).
Proof.
  intros H.
  destruct (R_shape st x y H) as [|b0|s|v1 v2 d1 d2 H1 H2 Hd He|v1 v2 t1 t2 xs1 xs2 H1 H2 _ _ _ _ _ _|v1 v2 n fs1 fs2 H1 H2 _].
  - unfold elem_number. rewrite cnc_not_ptr by reflexivity. exact I.
  - unfold elem_number. rewrite cnc_not_ptr by reflexivity. exact I.
  - unfold elem_number. rewrite cnc_not_ptr by reflexivity. destruct (dec_of_string s); [apply deqv_refl | exact I].
  - rewrite (elem_number_numv v1 d1 H1), (elem_number_numv v2 d2 H2). exact Hd.
  - destruct v1; try discriminate H1; destruct v2; try discriminate H2;
      unfold elem_number; rewrite !cnc_not_ptr by reflexivity; exact I.
  - destruct v1; try discriminate H1; destruct v2; try discriminate H2;
      unfold elem_number; rewrite !cnc_not_ptr by reflexivity; exact I.
Qed.

Lemma elems_numbers_rel xs ys :
  Forall2 R xs ys -> opt_rel (Forall2 deqv) (all_some (map elem_number xs)) (all_some (map elem_number ys)).
Proof.
  intros H. apply all_some_rel. apply (Forall2_map _ _ _ _ xs ys elem_number_rel H).
Qed.

Lemma decsel_elem_number xs :
  Forall (fun x => is_dec x = true) xs ->
  all_some (map (fun x => match x with VDec d => Some d | _ => None end) xs) = all_some (map elem_number xs).
Proof.
  induction 1 as [|x r Hx Hr IH]; [reflexivity|].
  destruct x; try discriminate Hx. cbn [map all_some elem_number]. rewrite IH. reflexivity.
Qed.

Lemma fds_seq a ps v t xs :
  elems_of v = Some (t, xs) -> tag_ok t xs ->
  exists b : bool,
    func_decimal_slice a ps v =
    agg_out a (option_map (fun ds => if b then ds ++ pnums ps else pnums ps ++ ds) (all_some (map elem_number xs))).
Proof.
  intros He Ht.
  destruct v as [| | | | | | |t0 n0 ys|t0 ys| | | |]; try discriminate He; cbn [elems_of] in He; injection He as <- <-.
  - destruct t0; try (exists false; unfold func_decimal_slice, agg_out, pnums; destruct (all_some (map elem_number ys)) as [[|d [|e r]]|]; reflexivity).
    exists true. unfold func_decimal_slice. cbv zeta. rewrite (decsel_elem_number ys (Ht eq_refl)).
    unfold agg_out, pnums. destruct (all_some (map elem_number ys)) as [l|]; reflexivity.
  - exists false. unfold func_decimal_slice, agg_out, pnums. destruct (all_some (map elem_number ys)) as [l|]; reflexivity.
Qed.

Lemma mfields_snd kvs fs : mfields kvs = Some fs -> map snd kvs = map snd fs.
Proof.
  revert fs. induction kvs as [|[k v] r IH]; intros fs H; cbn [mfields] in H.
  - injection H as <-. reflexivity.
  - destruct (mkey k); [|discriminate]. destruct (mfields r) as [l|]; [|discriminate].
    injection H as <-. cbn. f_equal. apply IH. reflexivity.
Qed.

Lemma fds_map a ps kt vt n kvs fs :
  mfields kvs = Some fs ->
  func_decimal_slice a ps (VMap kt vt n kvs) =
  agg_out a (option_map (fun ds => pnums ps ++ ds) (all_some (map elem_number (map snd fs)))).
Proof.
  intros Hm. rewrite <- (mfields_snd kvs fs Hm).
  unfold func_decimal_slice, agg_out, pnums. destruct (all_some (map elem_number (map snd kvs))) as [l|]; reflexivity.
Qed.

Definition agg_val (a : agg) (l : list dec) : dec :=
  match a with AggSum => sum_of l | AggMin => min_of l | AggMax => max_of l | AggAvg => avg_of l end.

Lemma agg_out_val a l : agg_out a (Some l) = Ok (VDec (agg_val a l)).
Proof. destruct a; destruct l as [|d [|e r]]; reflexivity. Qed.

Lemma agg_out_rel a l1 l2 : lrel l1 l2 -> orel Rv (agg_out a (Some l1)) (agg_out a (Some l2)).
Proof.
  intros Hl. rewrite !agg_out_val. cbn [orel]. apply Rv_dec.
  destruct a; cbn [agg_val]; [apply lrel_sum | apply lrel_avg | apply lrel_min | apply lrel_max]; exact Hl.
Qed.

Lemma agg_out_opt_rel a (b1 b2 : bool) o1 o2 p1 p2 :
  opt_rel (Forall2 deqv) o1 o2 -> Forall2 deqv p1 p2 ->
  orel Rv (agg_out a (option_map (fun ds => if b1 then ds ++ p1 else p1 ++ ds) o1))
          (agg_out a (option_map (fun ds => if b2 then ds ++ p2 else p2 ++ ds) o2)).
Proof.
  intros Ho Hp. destruct o1 as [l1|], o2 as [l2|]; cbn in Ho; try contradiction; [|exact I].
  cbn [option_map]. apply agg_out_rel.
  destruct b1, b2; [apply lrel_app | apply lrel_app_comm | apply lrel_app_comm | apply lrel_app]; assumption.
Qed.

Lemma fcv_false v : st = false -> fcv st v = v.
Proof. intros H. unfold fcv. rewrite H. reflexivity. Qed.

Lemma Rflds_values fs1 fs2 : st = false -> Rflds fs1 fs2 -> Forall2 R (map snd fs1) (map snd fs2).
Proof.
  intros Hst H. induction H as [|[k1 v1] [k2 v2] r1 r2 [_ [Hv _]] _ IH]; [constructor|].
  cbn [map snd] in *. constructor; [|exact IH]. rewrite !(fcv_false _ Hst) in Hv. exact Hv.
Qed.

Lemma objlike_map_only a n fs :
  st = false -> pt = false -> pok a -> objv (tgt a) = Some (n, fs) ->
  exists kt vt kvs, a = VMap kt vt n kvs /\ mfields kvs = Some fs.
Proof.
  intros Hst Hpt Pa Ho. destruct (objlike_inv a n fs Pa Ho) as [kt vt kvs E Hm|fs0 _ _ _ Est _|x E _ _ _ _].
  - exists kt, vt, kvs. split; assumption.
  - congruence.
  - subst a. cbn in Pa. destruct Pa as [Pa _]. congruence.
Qed.

Lemma func_decimal_slice_rel a ps1 ps2 v1 v2 :
  st = false -> pt = false ->
  cls v1 v2 -> Forall2 Rp ps1 ps2 -> orel Rv (func_decimal_slice a ps1 v1) (func_decimal_slice a ps2 v2).
Proof.
  intros Hst Hpt Hc Hp. pose proof (pnums_rel ps1 ps2 Hp) as Hpn.
  destruct Hc as [|b|s|d1 d2 Hd|v1 v2 t1 t2 xs1 xs2 H1 H2 Hn A1 A2 T1 T2 Hxs|x y n fs1 fs2 Pa Pb H1 H2 Hf].
  - cbn. apply Rv_dec, deqv_refl.
  - cbn. apply Rv_dec, deqv_refl.
  - cbn. apply Rv_dec, deqv_refl.
  - change (func_decimal_slice a ps1 (VDec d1)) with (agg_out a (Some ([d1] ++ pnums ps1))).
    change (func_decimal_slice a ps2 (VDec d2)) with (agg_out a (Some ([d2] ++ pnums ps2))).
    apply agg_out_rel. apply lrel_app; [constructor; [exact Hd | constructor] | exact Hpn].
  - destruct (fds_seq a ps1 v1 t1 xs1 H1 T1) as [b1 ->], (fds_seq a ps2 v2 t2 xs2 H2 T2) as [b2 ->].
    apply agg_out_opt_rel; [apply elems_numbers_rel; exact Hxs | exact Hpn].
  - destruct (objlike_map_only x n fs1 Hst Hpt Pa H1) as [kt1 [vt1 [kvs1 [-> M1]]]].
    destruct (objlike_map_only y n fs2 Hst Hpt Pb H2) as [kt2 [vt2 [kvs2 [-> M2]]]].
    rewrite (fds_map a ps1 kt1 vt1 n kvs1 fs1 M1), (fds_map a ps2 kt2 vt2 n kvs2 fs2 M2).
    apply (agg_out_opt_rel a false false); [| exact Hpn].
    apply elems_numbers_rel. apply Rflds_values; assumption.
Qed.

(** * AsArray (no pointers) *)
Lemma as_array_rel v1 v2 : pt = false -> cls v1 v2 -> Rv (VSlice EAny false [v1]) (VSlice EAny false [v2]).
Proof.
  intros Hpt Hc. apply R_Rv. eapply R_seq; try reflexivity; try exact I; try (intros E; discriminate E).
  constructor; [|constructor]. apply (Rv_no_pt st pt); [exact Hpt | apply cls_Rv; exact Hc].
Qed.

(** * RemoveKeysBy... (objects are maps) *)
Lemma F2_cons_inv {A B} (P : A -> B -> Prop) x y l1 l2 : Forall2 P (x :: l1) (y :: l2) -> P x y /\ Forall2 P l1 l2.
Proof. intros H. inversion H. split; assumption. Qed.

Fixpoint rkf (keep : str -> option bool) (kvs : list (gv * gv)) : option (list (gv * gv)) :=
  match kvs with
  | [] => Some []
  | kv :: r =>
    match key_string (fst kv) with
    | None => option_map (cons kv) (rkf keep r)
    | Some ks =>
      match keep ks with
      | None => None
      | Some true => option_map (cons kv) (rkf keep r)
      | Some false => rkf keep r
      end
    end
  end.

Definition rk_step (keep : str -> option bool) (acc : option (list (gv * gv))) (kv : gv * gv) :=
  match acc with
  | None => None
  | Some l =>
    match key_string (fst kv) with
    | None => Some (l ++ [kv])
    | Some ks => match keep ks with
                 | None => None
                 | Some true => Some (l ++ [kv])
                 | Some false => Some l
                 end
    end
  end.

Lemma rk_fold_none keep kvs : fold_left (rk_step keep) kvs None = None.
Proof. induction kvs as [|kv r IH]; [reflexivity | exact IH]. Qed.

Lemma rk_fold keep kvs acc :
  fold_left (rk_step keep) kvs (Some acc) = option_map (app acc) (rkf keep kvs).
Proof.
  revert acc. induction kvs as [|kv r IH]; intros acc; cbn [fold_left rkf].
  - cbn. rewrite app_nil_r. reflexivity.
  - unfold rk_step at 2. destruct (key_string (fst kv)) as [ks|].
    + destruct (keep ks) as [[|]|].
      * rewrite IH. destruct (rkf keep r); cbn; [rewrite <- app_assoc; reflexivity | reflexivity].
      * apply IH.
      * apply rk_fold_none.
    + rewrite IH. destruct (rkf keep r); cbn; [rewrite <- app_assoc; reflexivity | reflexivity].
Qed.

Lemma remove_keys_map keep a kt vt n kvs :
  tgt a = VMap kt vt n kvs ->
  remove_keys keep a = match rkf keep kvs with Some l => Ok (VMap kt vt false l) | None => Declined "regexp oracle miss" end.
Proof.
  intros Ht. unfold remove_keys. rewrite tgt_deref, Ht.
  change (fold_left _ kvs (Some [])) with (fold_left (rk_step keep) kvs (Some [])).
  rewrite rk_fold. destruct (rkf keep kvs); reflexivity.
Qed.

Lemma rkf_rel keep : st = false -> forall kvs1 kvs2 fs1 fs2,
  mfields kvs1 = Some fs1 -> mfields kvs2 = Some fs2 -> Rflds fs1 fs2 ->
  match rkf keep kvs1, rkf keep kvs2 with
  | Some l1, Some l2 => exists g1 g2, mfields l1 = Some g1 /\ mfields l2 = Some g2 /\ Rflds g1 g2
  | None, None => True
  | _, _ => False
  end.
Proof.
  intros Hst. induction kvs1 as [|[k1 v1] r1 IH]; intros kvs2 fs1 fs2 M1 M2 Hf.
  - cbn in M1. injection M1 as <-. destruct fs2 as [|b2 rb2]; [|inversion Hf].
    destruct kvs2 as [|[k2 v2] r2]; [|cbn in M2; destruct (mkey k2); [destruct (mfields r2)|]; discriminate M2].
    cbn. exists [], []. repeat split; constructor.
  - cbn [mfields] in M1. destruct (mkey k1) as [s1|] eqn:K1; [|discriminate]. destruct (mfields r1) as [l1|] eqn:E1; [|discriminate].
    injection M1 as <-. destruct fs2 as [|b rb]; [inversion Hf|].
    apply F2_cons_inv in Hf. destruct Hf as [[Hk Hv] Hr].
    destruct kvs2 as [|[k2 v2] r2]; [discriminate M2|]. cbn [mfields] in M2.
    destruct (mkey k2) as [s2|] eqn:K2; [|discriminate]. destruct (mfields r2) as [l2|] eqn:E2; [|discriminate].
    injection M2 as <- <-. cbn [fst snd] in Hk, Hv.
    unfold keq in Hk. rewrite Hst in Hk. subst s2.
    specialize (IH r2 l1 l2 eq_refl E2 Hr).
    cbn [rkf fst]. rewrite (mkey_key_string k1 s1 K1), (mkey_key_string k2 s1 K2).
    destruct (keep s1) as [[|]|]; [|exact IH|exact I].
    destruct (rkf keep r1) as [m1|], (rkf keep r2) as [m2|]; try contradiction; [|exact I].
    destruct IH as [g1 [g2 [G1 [G2 Hg]]]]. cbn [option_map].
    exists ((s1, v1) :: g1), ((s1, v2) :: g2). cbn [mfields]. rewrite K1, K2, G1, G2.
    repeat split. constructor; [|exact Hg]. split; [unfold keq; rewrite Hst; reflexivity | exact Hv].
Qed.

Lemma objlike_tgt_map a n fs :
  st = false -> pok a -> objv (tgt a) = Some (n, fs) ->
  exists kt vt kvs, tgt a = VMap kt vt n kvs /\ mfields kvs = Some fs.
Proof.
  intros Hst Pa Ho. destruct (tgt a) as [| | | | | | | | |kt vt m kvs|fs0| |]; try discriminate Ho; cbn [C10b.objv] in Ho.
  - destruct (mfields kvs) as [l|] eqn:El; [|discriminate]. cbn in Ho. injection Ho as <- <-.
    exists kt, vt, kvs. split; [reflexivity | exact El].
  - rewrite Hst in Ho. discriminate Ho.
Qed.

Lemma remove_keys_nonobj keep v : is_ptr v = false -> is_obj v = false -> exists t, remove_keys keep v = fail t.
Proof.
  intros Hp Ho. unfold remove_keys. rewrite tgt_deref, tgt_not_ptr by exact Hp.
  destruct v; try discriminate Ho; eexists; reflexivity.
Qed.

Lemma remove_keys_rel keep v1 v2 :
  st = false -> cls v1 v2 -> orel Rv (remove_keys keep v1) (remove_keys keep v2).
Proof.
  intros Hst Hc.
  assert (Hno : forall w1 w2, is_ptr w1 = false -> is_obj w1 = false -> is_ptr w2 = false -> is_obj w2 = false ->
                orel Rv (remove_keys keep w1) (remove_keys keep w2)).
  { intros w1 w2 P1 O1 P2 O2.
    destruct (remove_keys_nonobj keep w1 P1 O1) as [t1 ->], (remove_keys_nonobj keep w2 P2 O2) as [t2 ->]. exact I. }
  destruct Hc as [|b|s|d1 d2 Hd|v1 v2 t1 t2 xs1 xs2 H1 H2 Hn A1 A2 T1 T2 Hxs|x y n fs1 fs2 Pa Pb H1 H2 Hf];
    try (apply Hno; reflexivity).
  - destruct v1; try discriminate H1; destruct v2; try discriminate H2; apply Hno; reflexivity.
  - destruct (objlike_tgt_map x n fs1 Hst Pa H1) as [kt1 [vt1 [kvs1 [T1 M1]]]].
    destruct (objlike_tgt_map y n fs2 Hst Pb H2) as [kt2 [vt2 [kvs2 [T2 M2]]]].
    rewrite (remove_keys_map keep x kt1 vt1 n kvs1 T1), (remove_keys_map keep y kt2 vt2 n kvs2 T2).
    pose proof (rkf_rel keep Hst kvs1 kvs2 fs1 fs2 M1 M2 Hf) as Hr.
    destruct (rkf keep kvs1) as [l1|], (rkf keep kvs2) as [l2|]; try contradiction; [|exact I].
    destruct Hr as [g1 [g2 [G1 [G2 Hg]]]]. cbn [orel]. apply R_Rv.
    apply R_obj with (n := false) (fs1 := g1) (fs2 := g2); [cbn; rewrite G1; reflexivity | cbn; rewrite G2; reflexivity | exact Hg].
Qed.

Lemma func_remove_keys_by_rel how ps1 ps2 v1 v2 :
  st = false -> cls v1 v2 -> Forall2 Rp ps1 ps2 ->
  orel Rv (func_remove_keys_by eng how ps1 v1) (func_remove_keys_by eng how ps2 v2).
Proof.
  intros Hst Hc Hp. unfold func_remove_keys_by. rewrite (Rp_len_is ps1 ps2 1 Hp), (Rp_first_string ps1 ps2 Hp).
  destruct (negb (len_is ps2 1)); [exact I|].
  destruct (params_first_string ps2) as [p|[|t]|m| |w]; cbn [bind]; try exact I.
  destruct (String.eqb how "Regex").
  - destruct (eng_re_match eng p []) as [[b|]|]; try exact I. apply remove_keys_rel; assumption.
  - destruct (String.eqb how "Prefix"); apply remove_keys_rel; assumption.
Qed.


(** * The dispatcher *)
Definition common_funcs : list string :=
  ["Equal"; "NotEqual"; "Less"; "LessOrEqual"; "Greater"; "GreaterOrEqual"; "Invert"; "Not";
   "Contains"; "NotContains"; "Prefix"; "NotPrefix"; "Suffix"; "NotSuffix";
   "Count"; "Any"; "First"; "Last"; "Index"; "Add"; "Subtract"; "Multiply"; "Divide"; "Modulo"; "AnyOf";
   "TrimRight"; "TrimLeft"; "Right"; "Left"; "DoesMatchRegex"; "ReplaceRegex"; "ReplaceAll";
   "IsNull"; "IsNotNull"; "IsEmpty"; "IsNotEmpty"; "IsNullOrEmpty"; "IsNotNullOrEmpty"]%string.
Definition noptr_funcs : list string := ["AsArray"]%string.
Definition mapobj_funcs : list string := ["RemoveKeysByRegex"; "RemoveKeysByPrefix"; "RemoveKeysBySuffix"]%string.
Definition mapobj_noptr_funcs : list string := ["Sum"; "Average"; "Minimum"; "Maximum"]%string.

Definition mem (k : string) (l : list string) : bool := existsb (String.eqb k) l.

(** the functions (by funcMap key) admitted in mode [st], [pt]; Select is
    admitted separately by the evaluator's fragment *)
Definition allowed (k : string) : bool :=
  mem k common_funcs || (negb pt && mem k noptr_funcs) || (negb st && mem k mapobj_funcs)
  || (negb st && negb pt && mem k mapobj_noptr_funcs).

Lemma mem_In k l : mem k l = true -> In k l.
Proof.
  unfold mem. induction l as [|x l IH]; cbn [existsb]; [discriminate|].
  intros H. apply orb_true_iff in H. destruct H as [H|H]; [left; symmetry; apply String.eqb_eq; exact H | right; apply IH; exact H].
Qed.

Ltac rf := lazy beta iota zeta delta [run_func String.eqb Ascii.eqb Bool.eqb].

Theorem run_func_rel k ps1 ps2 v1 v2 :
  allowed k = true -> cls v1 v2 -> Forall2 Rp ps1 ps2 ->
  orel Rv (run_func eng k ps1 v1) (run_func eng k ps2 v2).
Proof.
  intros Ha Hc Hp. unfold allowed in Ha.
  apply orb_true_iff in Ha. destruct Ha as [Ha|Ha]; [apply orb_true_iff in Ha; destruct Ha as [Ha|Ha]; [apply orb_true_iff in Ha; destruct Ha as [Ha|Ha]|]|].
  - apply mem_In in Ha. unfold common_funcs in Ha. cbn [In] in Ha.
    repeat (destruct Ha as [<-|Ha]); [..|destruct Ha]; rf.
    + apply orel_boolv, func_equal_rel; assumption.
    + apply orel_negate, func_equal_rel; assumption.
    + apply decimal_bool_func_rel; [apply dlt_resp | assumption | assumption].
    + apply decimal_bool_func_rel; [apply dle_resp | assumption | assumption].
    + apply decimal_bool_func_rel; [apply dgt_resp | assumption | assumption].
    + apply decimal_bool_func_rel; [apply dge_resp | assumption | assumption].
    + apply func_invert_rel; assumption.
    + apply func_not_rel; assumption.
    + apply string_bool_func_rel; assumption.
    + apply string_bool_func_rel; assumption.
    + apply string_bool_func_rel; assumption.
    + apply string_bool_func_rel; assumption.
    + apply string_bool_func_rel; assumption.
    + apply string_bool_func_rel; assumption.
    + apply func_count_rel; assumption.
    + apply func_any_rel; assumption.
    + apply func_first_rel; assumption.
    + apply func_last_rel; assumption.
    + apply func_index_rel; assumption.
    + apply func_decimal_rel; assumption.
    + apply func_decimal_rel; assumption.
    + apply func_decimal_rel; assumption.
    + apply func_decimal_rel; assumption.
    + apply func_decimal_rel; assumption.
    + apply func_any_of_rel; assumption.
    + apply string_part_func_rel; assumption.
    + apply string_part_func_rel; assumption.
    + apply string_part_func_rel; assumption.
    + apply string_part_func_rel; assumption.
    + apply func_does_match_regex_rel; assumption.
    + apply func_replace_regex_rel; assumption.
    + apply func_replace_all_rel; assumption.
    + apply orel_boolv, func_is_null_rel; assumption.
    + apply orel_negate, func_is_null_rel; assumption.
    + apply orel_boolv, func_is_empty_rel; assumption.
    + apply orel_negate, func_is_empty_rel; assumption.
    + apply orel_boolv, func_is_null_or_empty_rel; assumption.
    + apply orel_negate, func_is_null_or_empty_rel; assumption.
  - apply andb_true_iff in Ha. destruct Ha as [Hpt Ha]. apply negb_true_iff in Hpt.
    apply mem_In in Ha. cbn [In noptr_funcs] in Ha. destruct Ha as [<-|[]]. rf.
    cbn [orel]. apply as_array_rel; assumption.
  - apply andb_true_iff in Ha. destruct Ha as [Hst Ha]. apply negb_true_iff in Hst.
    apply mem_In in Ha. cbn [In mapobj_funcs] in Ha. destruct Ha as [<-|[<-|[<-|[]]]]; rf;
      apply func_remove_keys_by_rel; assumption.
  - apply andb_true_iff in Ha. destruct Ha as [Hm Ha]. apply andb_true_iff in Hm. destruct Hm as [Hst Hpt].
    apply negb_true_iff in Hst. apply negb_true_iff in Hpt.
    apply mem_In in Ha. cbn [In mapobj_noptr_funcs] in Ha. destruct Ha as [<-|[<-|[<-|[<-|[]]]]]; rf;
      apply func_decimal_slice_rel; assumption.
Qed.

End Mode.
