(* Proofs/C08.v — parsing is total and depends only on the bytes of the query.

   A. the parser model never runs out of its explicit fuel, never panics, and
      (up to numerals outside the modelled fragment) returns an operation or an
      error; an operation is returned only after every token was consumed;
      the fuels of the lexer are sufficient.
   B. the rune stream text/scanner builds from a chunked reader (Model/Reader.v)
      is the one it builds from the whole string, for every chunking; a reader
      that fails yields an error; the starting offset is irrelevant.
   C. the pooled scanner object (Model/Sys.v): every object put back is clean,
      so a parse does not depend on the history of earlier parses. *)
From Mpath.Model Require Import Base Dec Types Ast Lexer Parser Reader Sys.
From Mpath.Proofs Require Import NoPanic.

(** * A. Totality of the parser *)

(** ** The potential of a parser state
    Fuel is spent per call depth: a loop iteration and a call both go one
    level down, and a callee and the continuation of its caller get the same
    fuel.  So the fuel needed is bounded by a potential that every level
    decreases: two units per token not yet scanned, two for a token under the
    cursor, one for the rune 0 a callee returned at EOF (func_loop rescans on
    it without consuming anything). *)
Definition cw (c : cursor) : nat := match c with CTok _ => 2 | CZero => 1 | CEOF => 0 end.
Definition phi (c : cursor) (rest : list token) : nat := 2 * length rest + cw c.

(** the outcome is not OutOfFuel, and a returned state has potential <= b *)
Definition good {A} (o : pres A) (b : nat) : Prop :=
  match o with
  | OutOfFuel => False
  | Ok (c, r, _) => (phi c r <= b)%nat
  | _ => True
  end.

Lemma good_weaken {A} (o : pres A) (b b' : nat) : good o b -> (b <= b')%nat -> good o b'.
Proof.
  intros H Hle. destruct o as [[[c r] a]|e|m| |w]; cbn [good] in *; try exact H. lia.
Qed.

Lemma good_bind {A B} (o : pres A) (f : cursor * list token * A -> pres B) (b1 b2 : nat) :
  good o b1 ->
  (forall c r a, (phi c r <= b1)%nat -> good (f (c, r, a)) b2) ->
  good (bind o f) b2.
Proof.
  intros Ho Hf. destruct o as [[[c r] a]|e|m| |w]; cbn [bind good] in *; try exact I.
  - apply Hf. exact Ho.
  - exact Ho.
Qed.

Lemma scan_phi rest c r : scan rest = (c, r) -> (phi c r <= 2 * length rest)%nat.
Proof.
  unfold scan, phi. destruct rest as [|t rest']; intros E; inversion E; subst; cbn [length cw]; lia.
Qed.

Lemma deal_with_numbers_len t rest txt rest' :
  deal_with_numbers t rest = (txt, rest') -> (length rest' <= length rest)%nat.
Proof.
  unfold deal_with_numbers. intros E.
  destruct (tnext t =? 46); [|inversion E; subst; lia].
  destruct rest as [|dot r1]; [inversion E; subst; lia|].
  destruct (is_digit_rune (tnext dot)); [|inversion E; subst; cbn [length]; lia].
  destruct r1 as [|t2 r2]; inversion E; subst; cbn [length]; lia.
Qed.

(** fuel phi+1 suffices for the three Parse entry points (which consume the
    token under the cursor: the state they return has a smaller potential),
    phi+2 for the three loops (which may return the rune 0 at EOF: +1) *)
Definition total_at (k : nat) : Prop :=
  (forall isf me cur rest, (phi cur rest + 1 <= k)%nat ->
     good (parse_path k isf me cur rest) (phi cur rest - 1)) /\
  (forall root isf me ops us cur rest, (phi cur rest + 2 <= k)%nat ->
     good (path_loop k root isf me ops us cur rest) (phi cur rest + 1)) /\
  (forall cur rest, (phi cur rest + 1 <= k)%nat ->
     good (parse_func k cur rest) (phi cur rest - 1)) /\
  (forall inv ft ps us cur rest, (phi cur rest + 2 <= k)%nat ->
     good (func_loop k inv ft ps us cur rest) (phi cur rest + 1)) /\
  (forall isf cur rest, (phi cur rest + 1 <= k)%nat ->
     good (parse_log k isf cur rest) (phi cur rest - 1)) /\
  (forall inv isf ty xs us cur rest, (phi cur rest + 2 <= k)%nat ->
     good (log_loop k inv isf ty xs us cur rest) (phi cur rest + 1)).

Ltac arith :=
  repeat match goal with
  | H : scan _ = (_, _) |- _ => apply scan_phi in H
  | H : deal_with_numbers _ _ = (_, _) |- _ => apply deal_with_numbers_len in H
  end;
  unfold phi in *; cbn [cw length] in *; lia.

Ltac t_step IH1 IH2 IH3 IH4 IH5 IH6 :=
  let rec_call := first [ apply IH1 | apply IH2 | apply IH3 | apply IH4 | apply IH5 | apply IH6 ] in
  first
  [ exact I
  | match goal with |- good (Ok _) _ => cbn [good]; arith end
  | match goal with |- good perr _ => exact I end
  | eapply good_weaken; [ rec_call; arith | arith ]
  | match goal with |- good (bind _ _) _ =>
      eapply good_bind; [ rec_call; arith | intros ? ? ? ?; cbv beta iota ]
    end
  | match goal with |- good (match ?x with _ => _ end) _ => destruct x eqn:? end ].

Lemma parse_total_at : forall k, total_at k.
Proof.
  induction k as [|k IH].
  - repeat split; intros; unfold phi in *; lia.
  - destruct IH as (IH1 & IH2 & IH3 & IH4 & IH5 & IH6).
    repeat split; intros.
    + cbn [parse_path]. repeat t_step IH1 IH2 IH3 IH4 IH5 IH6.
    + cbn [path_loop]. repeat t_step IH1 IH2 IH3 IH4 IH5 IH6.
    + cbn [parse_func]. repeat t_step IH1 IH2 IH3 IH4 IH5 IH6.
    + cbn [func_loop]. repeat t_step IH1 IH2 IH3 IH4 IH5 IH6.
    + cbn [parse_log]. repeat t_step IH1 IH2 IH3 IH4 IH5 IH6.
    + cbn [log_loop]. repeat t_step IH1 IH2 IH3 IH4 IH5 IH6.
Qed.

(** ** The top loop: one Parse call, then one more iteration that returns *)
Lemma top_loop_some_total k t0 cur rest : (1 <= k)%nat -> top_loop k (Some t0) cur rest <> OutOfFuel.
Proof.
  intros Hk. destruct k as [|k]; [lia|]. cbn [top_loop].
  destruct cur as [t| |]; try discriminate.
  destruct (is_ch t 123); [discriminate|].
  destruct (is_ch t 64 || is_ch t 36); discriminate.
Qed.

Lemma top_loop_total k topop cur rest :
  (phi cur rest + 2 <= k)%nat -> top_loop k topop cur rest <> OutOfFuel.
Proof.
  intros Hk. destruct topop as [t0|]; [apply top_loop_some_total; lia|].
  destruct k as [|k]; [lia|]. cbn [top_loop].
  destruct (parse_total_at k) as (P1 & _ & _ & _ & P5 & _).
  destruct cur as [t| |]; try discriminate.
  assert (Hk1 : (1 <= k)%nat) by (unfold phi in Hk; cbn [cw] in Hk; lia).
  destruct (is_ch t 123).
  - pose proof (P5 false (CTok t) rest ltac:(lia)) as G.
    destruct (parse_log k false (CTok t) rest) as [[[c r] l]|e|m| |w]; cbn [bind good] in *;
      try discriminate; [|contradiction].
    apply top_loop_some_total. exact Hk1.
  - destruct (is_ch t 64 || is_ch t 36); [|discriminate].
    pose proof (P1 false false (CTok t) rest ltac:(lia)) as G.
    destruct (parse_path k false false (CTok t) rest) as [[[c r] p]|e|m| |w]; cbn [bind good] in *;
      try discriminate; [|contradiction].
    apply top_loop_some_total. exact Hk1.
Qed.

(** the fuel actually needed is 2 * length toks + 2; [parse_fuel] is more *)
Theorem C08_parse_total_with : forall toks fuel,
  (2 * length toks + 2 <= fuel)%nat ->
  (let (c, r) := scan toks in top_loop fuel None c r) <> OutOfFuel.
Proof.
  intros toks fuel Hf. destruct (scan toks) as [c r] eqn:E.
  apply top_loop_total. apply scan_phi in E. lia.
Qed.

Theorem C08_parse_total : forall toks, parse_tokens toks <> OutOfFuel.
Proof.
  intros toks. unfold parse_tokens. apply C08_parse_total_with. unfold parse_fuel. lia.
Qed.

(** ** [Declined] arises only from a numeral outside the modelled fragment *)
Definition unknown_numeral : Prop := exists n, numeral n = NumUnknown.

Definition dcl {A} (o : outcome A) : Prop :=
  match o with Declined _ => unknown_numeral | _ => True end.

Lemma dcl_bind {A B} (o : outcome A) (f : A -> outcome B) :
  dcl o -> (forall a, dcl (f a)) -> dcl (bind o f).
Proof.
  intros Ho Hf. destruct o as [a|e|m| |w]; cbn [bind dcl] in *; try exact I; [apply Hf|exact Ho].
Qed.

Definition dcl_at (k : nat) : Prop :=
  (forall isf me cur rest, dcl (parse_path k isf me cur rest)) /\
  (forall root isf me ops us cur rest, dcl (path_loop k root isf me ops us cur rest)) /\
  (forall cur rest, dcl (parse_func k cur rest)) /\
  (forall inv ft ps us cur rest, dcl (func_loop k inv ft ps us cur rest)) /\
  (forall isf cur rest, dcl (parse_log k isf cur rest)) /\
  (forall inv isf ty xs us cur rest, dcl (log_loop k inv isf ty xs us cur rest)).

Ltac d_step IH1 IH2 IH3 IH4 IH5 IH6 :=
  let rec_call := first [ apply IH1 | apply IH2 | apply IH3 | apply IH4 | apply IH5 | apply IH6 ] in
  first
  [ exact I
  | rec_call
  | match goal with |- dcl (bind _ _) => apply dcl_bind; [ rec_call | intros [[? ?] ?] ] end
  | match goal with H : numeral ?n = NumUnknown |- dcl (Declined _) => exists n; exact H end
  | match goal with |- dcl (match ?x with _ => _ end) => destruct x eqn:? end ].

Lemma parse_dcl : forall k, dcl_at k.
Proof.
  induction k as [|k IH].
  - repeat split; intros; exact I.
  - destruct IH as (IH1 & IH2 & IH3 & IH4 & IH5 & IH6).
    repeat split; intros.
    + cbn [parse_path]. repeat d_step IH1 IH2 IH3 IH4 IH5 IH6.
    + cbn [path_loop]. repeat d_step IH1 IH2 IH3 IH4 IH5 IH6.
    + cbn [parse_func]. repeat d_step IH1 IH2 IH3 IH4 IH5 IH6.
    + cbn [func_loop]. repeat d_step IH1 IH2 IH3 IH4 IH5 IH6.
    + cbn [parse_log]. repeat d_step IH1 IH2 IH3 IH4 IH5 IH6.
    + cbn [log_loop]. repeat d_step IH1 IH2 IH3 IH4 IH5 IH6.
Qed.

Lemma top_loop_dcl : forall k topop cur rest, dcl (top_loop k topop cur rest).
Proof.
  induction k as [|k IH]; intros topop cur rest; [exact I|].
  destruct (parse_dcl k) as (P1 & _ & _ & _ & P5 & _).
  cbn [top_loop].
  destruct cur as [t| |].
  - destruct (is_ch t 123).
    + destruct topop as [t0|]; [exact I|].
      apply dcl_bind; [apply P5|]. intros [[c r] l]. apply IH.
    + destruct (is_ch t 64 || is_ch t 36); [|exact I].
      destruct topop as [t0|]; [exact I|].
      apply dcl_bind; [apply P1|]. intros [[c r] p]. apply IH.
  - destruct topop; exact I.
  - destruct topop; exact I.
Qed.

Theorem C08_declined_only_numeral : forall toks w,
  parse_tokens toks = Declined w -> exists n, numeral n = NumUnknown.
Proof.
  intros toks w H. unfold parse_tokens in H. destruct (scan toks) as [c r].
  pose proof (top_loop_dcl (parse_fuel toks) None c r) as D. rewrite H in D. exact D.
Qed.

(** the model can decline: the numeral has too many digits for the float
    fragment that is modelled exactly *)
Example C08_declined_witness :
  parse_string uni_ascii (bs "$.F(12345678901234567890)") = Declined "numeral outside the modelled fragment".
Proof. vm_compute. reflexivity. Qed.

(** ** ParseString: an operation or an error (or, in the model, a declined numeral) *)
Theorem C08_parse_tokens_total : forall toks,
  (exists t, parse_tokens toks = Ok t) \/
  (exists e, parse_tokens toks = Err e) \/
  (exists w, parse_tokens toks = Declined w /\ exists n, numeral n = NumUnknown).
Proof.
  intros toks.
  pose proof (C08_parse_total toks) as HF.
  pose proof (parse_tokens_np toks) as HP.
  pose proof (C08_declined_only_numeral toks) as HD.
  destruct (parse_tokens toks) as [t|e|m| |w].
  - left. exists t. reflexivity.
  - right. left. exists e. reflexivity.
  - contradiction.
  - congruence.
  - right. right. exists w. split; [reflexivity|]. apply (HD w). reflexivity.
Qed.

Theorem C08_parse_string_total : forall uni s,
  (exists t, parse_string uni s = Ok t) \/
  (exists e, parse_string uni s = Err e) \/
  (exists w, parse_string uni s = Declined w /\ exists n, numeral n = NumUnknown).
Proof.
  intros uni s. unfold parse_string. destruct (lex uni s) as [toks|].
  - apply C08_parse_tokens_total.
  - right. left. eexists. reflexivity.
Qed.

Corollary C08_parse_string_no_fuel_no_panic : forall uni s,
  parse_string uni s <> OutOfFuel /\ forall m, parse_string uni s <> Panic m.
Proof.
  intros uni s. split; [|intros m; apply parse_never_panics].
  destruct (C08_parse_string_total uni s) as [[t E]|[[e E]|[w [E _]]]]; rewrite E; discriminate.
Qed.

(** ** Exactly one of an operation and an error; an operation only at EOF
    [outcome] cannot hold both an operation and an error, or neither.  What is
    left to say is that an operation is returned only once every token has
    been consumed: the cursor is EOF (or the rune 0 a callee returned at EOF)
    and no token is left.  [top_loop_st] is [top_loop] returning, next to the
    operation, the state in which it returned. *)
Definition eofok (c : cursor) (rest : list token) : Prop :=
  match c with CTok _ => True | _ => rest = [] end.

Definition fine {A} (o : pres A) : Prop :=
  match o with Ok (c, r, _) => eofok c r | _ => True end.

Lemma fine_bind {A B} (o : pres A) (f : cursor * list token * A -> pres B) :
  fine o -> (forall c r a, eofok c r -> fine (f (c, r, a))) -> fine (bind o f).
Proof.
  intros Ho Hf. destruct o as [[[c r] a]|e|m| |w]; cbn [bind fine] in *; try exact I.
  apply Hf. exact Ho.
Qed.

Lemma scan_eofok rest c r : scan rest = (c, r) -> eofok c r.
Proof.
  unfold scan. destruct rest as [|t rest']; intros E; inversion E; subst; cbn [eofok]; auto.
Qed.

Definition fine_at (k : nat) : Prop :=
  (forall isf me cur rest, eofok cur rest -> fine (parse_path k isf me cur rest)) /\
  (forall root isf me ops us cur rest, eofok cur rest -> fine (path_loop k root isf me ops us cur rest)) /\
  (forall cur rest, eofok cur rest -> fine (parse_func k cur rest)) /\
  (forall inv ft ps us cur rest, eofok cur rest -> fine (func_loop k inv ft ps us cur rest)) /\
  (forall isf cur rest, eofok cur rest -> fine (parse_log k isf cur rest)) /\
  (forall inv isf ty xs us cur rest, eofok cur rest -> fine (log_loop k inv isf ty xs us cur rest)).

Ltac eo := first [ exact I | assumption | (eapply scan_eofok; eassumption) ].

Ltac f_step IH1 IH2 IH3 IH4 IH5 IH6 :=
  let rec_call := first [ apply IH1 | apply IH2 | apply IH3 | apply IH4 | apply IH5 | apply IH6 ] in
  first
  [ exact I
  | match goal with |- fine (Ok _) => cbn [fine]; eo end
  | rec_call; eo
  | match goal with |- fine (bind _ _) =>
      apply fine_bind; [ rec_call; eo | intros ? ? ? ?; cbv beta iota ]
    end
  | match goal with |- fine (match ?x with _ => _ end) => destruct x eqn:? end ].

Lemma parse_fine : forall k, fine_at k.
Proof.
  induction k as [|k IH].
  - repeat split; intros; exact I.
  - destruct IH as (IH1 & IH2 & IH3 & IH4 & IH5 & IH6).
    repeat split; intros.
    + cbn [parse_path]. repeat f_step IH1 IH2 IH3 IH4 IH5 IH6.
    + cbn [path_loop]. repeat f_step IH1 IH2 IH3 IH4 IH5 IH6.
    + cbn [parse_func]. repeat f_step IH1 IH2 IH3 IH4 IH5 IH6.
    + cbn [func_loop]. repeat f_step IH1 IH2 IH3 IH4 IH5 IH6.
    + cbn [parse_log]. repeat f_step IH1 IH2 IH3 IH4 IH5 IH6.
    + cbn [log_loop]. repeat f_step IH1 IH2 IH3 IH4 IH5 IH6.
Qed.

Fixpoint top_loop_st (fuel : nat) (topop : option top) (cur : cursor) (rest : list token)
  : outcome (top * (cursor * list token)) :=
  match fuel with
  | O => OutOfFuel
  | S k =>
    match cur with
    | CEOF | CZero =>
      match topop with
      | Some t => Ok (t, (cur, rest))
      | None => Err (EOther "invalid query: no operation found")
      end
    | CTok t =>
      if is_ch t 123 then
        match topop with
        | Some _ => Err (EOther "operation not terminated properly")
        | None => do (c, r, l) <- parse_log k false cur rest; top_loop_st k (Some (TopL l)) c r
        end
      else if is_ch t 64 || is_ch t 36 then
        match topop with
        | Some _ => Err (EOther "operation not terminated properly")
        | None => do (c, r, p) <- parse_path k false false cur rest; top_loop_st k (Some (TopP p)) c r
        end
      else Err (EOther "invalid query")
    end
  end.

(** the instrumented loop is the loop *)
Lemma top_loop_st_erase : forall k topop cur rest,
  top_loop k topop cur rest = do x <- top_loop_st k topop cur rest; Ok (fst x).
Proof.
  induction k as [|k IH]; intros topop cur rest; [reflexivity|].
  cbn [top_loop top_loop_st].
  destruct cur as [t| |].
  - destruct (is_ch t 123).
    + destruct topop as [t0|]; [reflexivity|].
      destruct (parse_log k false (CTok t) rest) as [[[c r] l]|e|m| |w]; cbn [bind]; try reflexivity.
      apply IH.
    + destruct (is_ch t 64 || is_ch t 36); [|reflexivity].
      destruct topop as [t0|]; [reflexivity|].
      destruct (parse_path k false false (CTok t) rest) as [[[c r] p]|e|m| |w]; cbn [bind]; try reflexivity.
      apply IH.
  - destruct topop; reflexivity.
  - destruct topop; reflexivity.
Qed.

Lemma top_loop_st_eof : forall k topop cur rest t c r,
  eofok cur rest -> top_loop_st k topop cur rest = Ok (t, (c, r)) ->
  r = [] /\ (c = CEOF \/ c = CZero).
Proof.
  induction k as [|k IH]; intros topop cur rest t c r He H; [discriminate H|].
  destruct (parse_fine k) as (P1 & _ & _ & _ & P5 & _).
  cbn [top_loop_st] in H.
  destruct cur as [t1| |].
  - destruct (is_ch t1 123).
    + destruct topop as [t0|]; [discriminate H|].
      pose proof (P5 false (CTok t1) rest I) as F.
      destruct (parse_log k false (CTok t1) rest) as [[[c1 r1] l]|e|m| |w]; cbn [bind fine] in *;
        try discriminate H.
      eapply IH; [exact F|exact H].
    + destruct (is_ch t1 64 || is_ch t1 36); [|discriminate H].
      destruct topop as [t0|]; [discriminate H|].
      pose proof (P1 false false (CTok t1) rest I) as F.
      destruct (parse_path k false false (CTok t1) rest) as [[[c1 r1] p]|e|m| |w]; cbn [bind fine] in *;
        try discriminate H.
      eapply IH; [exact F|exact H].
  - destruct topop as [t0|]; [|discriminate H]. inversion H; subst. split; [exact He|left; reflexivity].
  - destruct topop as [t0|]; [|discriminate H]. inversion H; subst. split; [exact He|right; reflexivity].
Qed.

Definition parse_tokens_st (toks : list token) : outcome (top * (cursor * list token)) :=
  let (c, r) := scan toks in top_loop_st (parse_fuel toks) None c r.

(** an operation is returned exactly when the instrumented parse returns it,
    and then every token has been consumed and the scanner is at EOF *)
Theorem C08_exactly_one : forall toks t,
  parse_tokens toks = Ok t <->
  exists c r, parse_tokens_st toks = Ok (t, (c, r)) /\ r = [] /\ (c = CEOF \/ c = CZero).
Proof.
  intros toks t. unfold parse_tokens, parse_tokens_st.
  destruct (scan toks) as [c0 r0] eqn:E.
  rewrite top_loop_st_erase.
  split.
  - intros H.
    destruct (top_loop_st (parse_fuel toks) None c0 r0) as [[t' [c r]]|e|m| |w] eqn:Est;
      cbn [bind fst] in H; try discriminate H.
    inversion H; subst t'. exists c, r. split; [reflexivity|].
    eapply top_loop_st_eof; [eapply scan_eofok; exact E|exact Est].
  - intros (c & r & H & _). rewrite H. reflexivity.
Qed.

(** ** The fuels of the lexer are sufficient
    Every fuelled function of the lexer gives the same answer for every fuel
    above the length of its input, in particular the fuel the model uses: the
    fuel-exhausted branch never decides an answer. *)
Lemma decode_rune_width : forall s : str, s <> [] ->
  (1 <= snd (decode_rune s) <= length s)%nat.
Proof.
  intros s Hs. destruct s as [|b0 [|b1 [|b2 [|b3 r]]]]; [congruence| | | |];
    unfold decode_rune;
    repeat match goal with |- context [if ?c then _ else _] => destruct c end;
    cbn [snd length]; lia.
Qed.

Lemma chars_fuel_enough : forall k1 k2 (s : str),
  (length s < k1)%nat -> (length s < k2)%nat -> chars_fuel k1 s = chars_fuel k2 s.
Proof.
  induction k1 as [|k1 IH]; intros k2 s H1 H2; [lia|].
  destruct k2 as [|k2]; [lia|].
  destruct s as [|b s']; [reflexivity|].
  cbn [chars_fuel].
  pose proof (decode_rune_width (b :: s') ltac:(discriminate)) as Hw.
  destruct (decode_rune (b :: s')) as [r w]. cbn [snd] in Hw.
  destruct ((r =? rune_error) && (w =? 1)%nat); [reflexivity|].
  destruct (r =? 0); [reflexivity|].
  assert (Hl : (length (skipn w (b :: s')) < length (b :: s'))%nat) by (rewrite skipn_length; lia).
  cbn [length] in *.
  rewrite (IH k2 (skipn w (b :: s'))) by lia. reflexivity.
Qed.

Theorem C08_chars_fuel_sufficient : forall (s : str) k,
  (S (length s) <= k)%nat -> chars_fuel k s = chars_fuel (S (length s)) s.
Proof. intros s k Hk. apply chars_fuel_enough; lia. Qed.

Lemma span_ident_len uni : forall cs t r, span_ident uni cs = (t, r) -> (length r <= length cs)%nat.
Proof.
  induction cs as [|[c b] cs' IH]; intros t r E; cbn [span_ident] in E.
  - inversion E; subst. lia.
  - destruct (is_ident_rune uni c).
    + destruct (span_ident uni cs') as [t' r'] eqn:E'. inversion E; subst.
      specialize (IH t' r eq_refl). cbn [length]. lia.
    + inversion E; subst. lia.
Qed.

Lemma scan_digits_len : forall n base cs acc a r,
  scan_digits n base cs acc = (a, r) -> (length r <= length cs)%nat.
Proof.
  induction n as [|n IH]; intros base cs acc a r E; cbn [scan_digits] in E.
  - inversion E; subst. lia.
  - destruct cs as [|[c b] cs']; [inversion E; subst; lia|].
    destruct (digit_val c <? base).
    + apply IH in E. cbn [length]. lia.
    + inversion E; subst. lia.
Qed.

Lemma scan_string_len : forall k q cs acc n t m r,
  scan_string k q cs acc n = Some (t, m, r) -> (length r < length cs)%nat.
Proof.
  induction k as [|k IH]; intros q cs acc n t m r E; [discriminate E|].
  cbn [scan_string] in E.
  destruct cs as [|[c b] cs']; [discriminate E|]. cbn [length].
  destruct (c =? q); [inversion E; subst; lia|].
  destruct (c =? 10); [discriminate E|].
  destruct (c =? 92); [|apply IH in E; lia].
  destruct cs' as [|[e eb] cs'']; [discriminate E|]. cbn [length] in *.
  destruct (zmem e [97; 98; 102; 110; 114; 116; 118; 92] || (e =? q)); [apply IH in E; lia|].
  destruct ((48 <=? e) && (e <=? 55)).
  { destruct (scan_digits 3 8 ((e, eb) :: cs'') (acc ++ b)) as [a' r'] eqn:Ed.
    apply scan_digits_len in Ed. apply IH in E. cbn [length] in Ed. lia. }
  destruct (e =? 120).
  { destruct (scan_digits 2 16 cs'' (acc ++ b ++ eb)) as [a' r'] eqn:Ed.
    apply scan_digits_len in Ed. apply IH in E. lia. }
  destruct (e =? 117).
  { destruct (scan_digits 4 16 cs'' (acc ++ b ++ eb)) as [a' r'] eqn:Ed.
    apply scan_digits_len in Ed. apply IH in E. lia. }
  destruct (e =? 85).
  { destruct (scan_digits 8 16 cs'' (acc ++ b ++ eb)) as [a' r'] eqn:Ed.
    apply scan_digits_len in Ed. apply IH in E. lia. }
  apply IH in E. cbn [length] in E. lia.
Qed.

Lemma scan_string_enough : forall k1 k2 q cs acc n,
  (length cs < k1)%nat -> (length cs < k2)%nat ->
  scan_string k1 q cs acc n = scan_string k2 q cs acc n.
Proof.
  induction k1 as [|k1 IH]; intros k2 q cs acc n H1 H2; [lia|].
  destruct k2 as [|k2]; [lia|].
  cbn [scan_string].
  destruct cs as [|[c b] cs']; [reflexivity|]. cbn [length] in *.
  destruct (c =? q); [reflexivity|].
  destruct (c =? 10); [reflexivity|].
  destruct (c =? 92); [|apply IH; lia].
  destruct cs' as [|[e eb] cs'']; [reflexivity|]. cbn [length] in *.
  destruct (zmem e [97; 98; 102; 110; 114; 116; 118; 92] || (e =? q)); [apply IH; lia|].
  destruct ((48 <=? e) && (e <=? 55)).
  { destruct (scan_digits 3 8 ((e, eb) :: cs'') (acc ++ b)) as [a' r'] eqn:Ed.
    apply scan_digits_len in Ed. cbn [length] in Ed. apply IH; lia. }
  destruct (e =? 120).
  { destruct (scan_digits 2 16 cs'' (acc ++ b ++ eb)) as [a' r'] eqn:Ed.
    apply scan_digits_len in Ed. apply IH; lia. }
  destruct (e =? 117).
  { destruct (scan_digits 4 16 cs'' (acc ++ b ++ eb)) as [a' r'] eqn:Ed.
    apply scan_digits_len in Ed. apply IH; lia. }
  destruct (e =? 85).
  { destruct (scan_digits 8 16 cs'' (acc ++ b ++ eb)) as [a' r'] eqn:Ed.
    apply scan_digits_len in Ed. apply IH; lia. }
  apply IH; cbn [length]; lia.
Qed.

Theorem C08_scan_string_fuel_sufficient : forall q cs acc n k,
  (S (length cs) <= k)%nat -> scan_string k q cs acc n = scan_string (S (length cs)) q cs acc n.
Proof. intros q cs acc n k Hk. apply scan_string_enough; lia. Qed.

Lemma skip_line_len : forall cs, (length (skip_line cs) <= length cs)%nat.
Proof.
  induction cs as [|[c b] cs' IH]; cbn [skip_line length]; [lia|].
  destruct (c =? 10); cbn [length]; lia.
Qed.

Lemma skip_block_len : forall cs r, skip_block cs = Some r -> (length r <= length cs)%nat.
Proof.
  induction cs as [|[c b] cs' IH]; intros r E; [discriminate E|].
  cbn [skip_block] in E.
  destruct cs' as [|[d db] cs'']; [discriminate E|].
  destruct ((c =? 42) && (d =? 47)).
  - inversion E; subst. cbn [length]. lia.
  - apply IH in E. cbn [length] in *. lia.
Qed.

Lemma tl_len {A} (l : list A) : (length (tl l) <= length l)%nat.
Proof. destruct l; cbn [tl length]; lia. Qed.

Lemma tokens_fuel_enough uni : forall k1 k2 cs,
  (length cs < k1)%nat -> (length cs < k2)%nat -> tokens_fuel uni k1 cs = tokens_fuel uni k2 cs.
Proof.
  induction k1 as [|k1 IH]; intros k2 cs H1 H2; [lia|].
  destruct k2 as [|k2]; [lia|].
  destruct cs as [|[c b] cs']; [reflexivity|].
  cbn [tokens_fuel]. cbn [length] in *.
  destruct (is_ws c); [apply IH; lia|].
  destruct (is_ident_rune uni c) eqn:Ei.
  { cbn [span_ident]. rewrite Ei.
    destruct (span_ident uni cs') as [t r] eqn:Es. apply span_ident_len in Es.
    rewrite (IH k2 r) by lia. reflexivity. }
  destruct (c =? 34).
  { destruct (scan_string (S (length cs')) 34 cs' b 0) as [[[t n] r]|] eqn:Ess; [|reflexivity].
    apply scan_string_len in Ess. rewrite (IH k2 r) by lia. reflexivity. }
  destruct (c =? 39).
  { destruct (scan_string (S (length cs')) 39 cs' b 0) as [[[t n] r]|] eqn:Ess; [|reflexivity].
    apply scan_string_len in Ess. destruct (n =? 1)%nat; [|reflexivity].
    rewrite (IH k2 r) by lia. reflexivity. }
  destruct ((c =? 47) && (peek cs' =? 47)).
  { pose proof (skip_line_len (tl cs')) as Hl. pose proof (tl_len cs') as Ht. apply IH; lia. }
  destruct ((c =? 47) && (peek cs' =? 42)).
  { destruct (skip_block (tl cs')) as [r|] eqn:Eb; [|reflexivity].
    apply skip_block_len in Eb. pose proof (tl_len cs') as Ht. apply IH; lia. }
  rewrite (IH k2 cs') by lia. reflexivity.
Qed.

Theorem C08_lex_fuel_sufficient : forall uni cs k,
  (S (length cs) <= k)%nat -> tokens_fuel uni k cs = tokens_fuel uni (S (length cs)) cs.
Proof. intros uni cs k Hk. apply tokens_fuel_enough; lia. Qed.

(** * B. The outcome does not depend on how the reader delivers the bytes *)

(** ** utf8.FullRune and utf8.DecodeRune
    Once the unread bytes hold a full rune (or four bytes), what DecodeRune
    returns does not depend on the bytes that follow. *)
Ltac atoms := repeat (match goal with
  | |- context [Z.eqb ?a ?b] => destruct (Z.eqb a b)
  | |- context [Z.ltb ?a ?b] => destruct (Z.ltb a b)
  | |- context [in_rng ?a ?b ?c] => destruct (in_rng a b c)
  | |- context [is_cont ?c] => destruct (is_cont c)
  end; cbv beta iota; cbn [negb andb orb]).

Lemma decode_prefix : forall buf more : str,
  can_decode buf = true -> decode_rune (buf ++ more) = decode_rune buf.
Proof.
  intros buf more. unfold can_decode, utf_max.
  destruct buf as [|b0 [|b1 [|b2 [|b3 r]]]]; cbn [length Nat.leb orb app].
  - intros H. discriminate H.
  - unfold full_rune, decode_rune. cbv zeta.
    destruct more as [|m0 [|m1 [|m2 mr]]]; atoms; intros H; first [reflexivity | discriminate H].
  - unfold full_rune, decode_rune. cbv zeta.
    destruct more as [|m0 [|m1 mr]]; atoms; intros H; first [reflexivity | discriminate H].
  - unfold full_rune, decode_rune. cbv zeta.
    destruct more as [|m0 mr]; atoms; intros H; first [reflexivity | discriminate H].
  - intros _. reflexivity.
Qed.

Lemma can_decode_nonempty (buf : str) : can_decode buf = true -> buf <> [].
Proof. intros H E. subst buf. discriminate H. Qed.

Lemma firstn_app_le {A} (n : nat) (l more : list A) :
  (n <= length l)%nat -> firstn n (l ++ more) = firstn n l.
Proof.
  intros H. rewrite firstn_app. replace (n - length l)%nat with O by lia.
  cbn [firstn]. apply app_nil_r.
Qed.

Lemma skipn_app_le {A} (n : nat) (l more : list A) :
  (n <= length l)%nat -> skipn n (l ++ more) = skipn n l ++ more.
Proof.
  intros H. rewrite skipn_app. replace (n - length l)%nat with O by lia. reflexivity.
Qed.

Lemma decode_char_prefix (buf more : str) :
  can_decode buf = true ->
  decode_char (buf ++ more) =
  match decode_char buf with Some (c, buf') => Some (c, buf' ++ more) | None => None end.
Proof.
  intros H. unfold decode_char. rewrite (decode_prefix buf more H).
  pose proof (decode_rune_width buf (can_decode_nonempty buf H)) as Hw.
  destruct (decode_rune buf) as [r w]. cbn [snd] in Hw.
  destruct ((r =? rune_error) && (w =? 1)%nat); [reflexivity|].
  destruct (r =? 0); [reflexivity|].
  rewrite firstn_app_le by lia. rewrite skipn_app_le by lia. reflexivity.
Qed.

Lemma decode_char_len (buf : str) c buf' :
  buf <> [] -> decode_char buf = Some (c, buf') -> (length buf' < length buf)%nat.
Proof.
  intros Hn E. unfold decode_char in E.
  pose proof (decode_rune_width buf Hn) as Hw.
  destruct (decode_rune buf) as [r w]. cbn [snd] in Hw.
  destruct ((r =? rune_error) && (w =? 1)%nat); [discriminate E|].
  destruct (r =? 0); [discriminate E|].
  inversion E; subst. rewrite skipn_length. lia.
Qed.

(** [chars_fuel], one character at a time *)
Lemma chars_fuel_step k (s : str) : s <> [] ->
  chars_fuel (S k) s =
  match decode_char s with
  | Some (c, s') => option_map (cons c) (chars_fuel k s')
  | None => None
  end.
Proof.
  intros Hn. destruct s as [|b s']; [congruence|].
  cbn [chars_fuel]. unfold decode_char.
  destruct (decode_rune (b :: s')) as [r w].
  destruct ((r =? rune_error) && (w =? 1)%nat); [reflexivity|].
  destruct (r =? 0); [reflexivity|].
  destruct (chars_fuel k (skipn w (b :: s'))); reflexivity.
Qed.

(** ** The character stream of a reader that does not fail *)
Lemma rd_chars_chunks : forall fuel (buf : str) (bl : list str),
  (length buf + length bl + length (concat bl) < fuel)%nat ->
  rd_chars_fuel fuel buf (map RChunk bl) =
  chars_fuel (S (length (buf ++ concat bl))) (buf ++ concat bl).
Proof.
  induction fuel as [|k IH]; intros buf bl Hf; [lia|].
  cbn [rd_chars_fuel]. unfold reader_step.
  destruct (can_decode buf) eqn:Ec.
  - pose proof (can_decode_nonempty buf Ec) as Hn.
    assert (Hn' : buf ++ concat bl <> []) by (destruct buf; [congruence|discriminate]).
    rewrite (chars_fuel_step _ _ Hn'). rewrite (decode_char_prefix buf (concat bl) Ec).
    destruct (decode_char buf) as [[c buf']|] eqn:Ed; [|reflexivity].
    apply (decode_char_len buf c buf' Hn) in Ed.
    rewrite IH by lia.
    rewrite (chars_fuel_enough (S (length (buf' ++ concat bl))) (length (buf ++ concat bl)));
      [reflexivity|lia|].
    rewrite !app_length. lia.
  - destruct bl as [|b bl']; cbn [map concat].
    + rewrite app_nil_r. destruct buf as [|b0 buf0]; [reflexivity|].
      rewrite chars_fuel_step by discriminate.
      destruct (decode_char (b0 :: buf0)) as [[c buf']|] eqn:Ed; [|reflexivity].
      apply decode_char_len in Ed; [|discriminate].
      change (@nil rd) with (map RChunk []).
      rewrite IH by (cbn [length concat] in *; lia).
      cbn [concat]. rewrite app_nil_r.
      rewrite (chars_fuel_enough (S (length buf')) (length (b0 :: buf0))); [reflexivity|lia|lia].
    + rewrite IH.
      * rewrite <- app_assoc. reflexivity.
      * cbn [length concat] in Hf. rewrite !app_length in *. lia.
Qed.

Lemma reader_bytes_chunks : forall bl : list str, reader_bytes (map RChunk bl) = concat bl.
Proof.
  induction bl as [|b bl IH]; [reflexivity|]. cbn [map reader_bytes concat]. rewrite IH. reflexivity.
Qed.

Lemma chars_drop_bom : forall s : str, chars s = drop_bom (chars_fuel (S (length s)) s).
Proof.
  intros s. unfold chars, drop_bom.
  destruct (chars_fuel (S (length s)) s) as [[|[r b] cs]|]; reflexivity.
Qed.

Theorem C08_chars_chunk_independent : forall bl : list str,
  chars_of_reader (map RChunk bl) = chars (concat bl).
Proof.
  intros bl. unfold chars_of_reader. rewrite chars_drop_bom. f_equal.
  rewrite rd_chars_chunks.
  - reflexivity.
  - unfold reader_fuel. rewrite reader_bytes_chunks, map_length. cbn [length]. lia.
Qed.

Lemma parse_string_pipeline : forall uni s,
  parse_string uni s = parse_lexed (lex_chars uni (chars s)).
Proof.
  intros uni s. unfold parse_string, lex, parse_lexed, lex_chars.
  destruct (chars s) as [cs|]; reflexivity.
Qed.

(** every chunking: empty chunks, one byte at a time, cuts inside a rune *)
Theorem C08_chunk_independent : forall uni (bs_list : list str),
  parse_reader uni (map RChunk bs_list) = parse_string uni (concat bs_list).
Proof.
  intros uni bl. unfold parse_reader. rewrite C08_chars_chunk_independent.
  symmetry. apply parse_string_pipeline.
Qed.

(** ** A reader that fails *)
Lemma rd_chars_fault : forall fuel (buf : str) (pre : list str) (post : reader),
  rd_chars_fuel fuel buf (map RChunk pre ++ RErr :: post) = None.
Proof.
  induction fuel as [|k IH]; intros buf pre post; [reflexivity|].
  cbn [rd_chars_fuel]. unfold reader_step.
  destruct (can_decode buf).
  - destruct (decode_char buf) as [[c buf']|]; [|reflexivity].
    rewrite IH. reflexivity.
  - destruct pre as [|b pre']; cbn [map app]; [reflexivity|]. apply IH.
Qed.

Theorem C08_fault_is_error : forall uni (pre : list str) (post : reader),
  parse_reader uni (map RChunk pre ++ RErr :: post) = Err (EOther "scanner error").
Proof.
  intros uni pre post. unfold parse_reader, chars_of_reader.
  rewrite rd_chars_fault. reflexivity.
Qed.

(** the fuel of the reader model is sufficient, fault or no fault *)
Lemma rd_chars_fuel_enough : forall k1 k2 (buf : str) (rdr : reader),
  (length buf + length rdr + length (reader_bytes rdr) < k1)%nat ->
  (length buf + length rdr + length (reader_bytes rdr) < k2)%nat ->
  rd_chars_fuel k1 buf rdr = rd_chars_fuel k2 buf rdr.
Proof.
  induction k1 as [|k1 IH]; intros k2 buf rdr H1 H2; [lia|].
  destruct k2 as [|k2]; [lia|].
  cbn [rd_chars_fuel]. unfold reader_step.
  destruct (can_decode buf) eqn:Ec.
  - destruct (decode_char buf) as [[c buf']|] eqn:Ed; [|reflexivity].
    apply decode_char_len in Ed; [|apply can_decode_nonempty; exact Ec].
    rewrite (IH k2) by lia. reflexivity.
  - destruct rdr as [|[b|] rdr']; cbn [length reader_bytes] in *.
    + destruct buf as [|b0 buf0]; [reflexivity|].
      destruct (decode_char (b0 :: buf0)) as [[c buf']|] eqn:Ed; [|reflexivity].
      apply decode_char_len in Ed; [|discriminate].
      rewrite (IH k2) by (cbn [length reader_bytes] in *; lia). reflexivity.
    + apply IH; rewrite !app_length in *; lia.
    + reflexivity.
Qed.

Theorem C08_reader_fuel_sufficient : forall (rdr : reader) k,
  (reader_fuel [] rdr <= k)%nat -> rd_chars_fuel k [] rdr = rd_chars_fuel (reader_fuel [] rdr) [] rdr.
Proof. intros rdr k Hk. unfold reader_fuel in *. apply rd_chars_fuel_enough; cbn [length] in *; lia. Qed.

(** at EOF an incomplete rune is an error event: the cut is never patched up *)
Lemma incomplete_decode : forall buf : str,
  buf <> [] -> can_decode buf = false -> decode_rune buf = (rune_error, 1%nat).
Proof.
  intros buf Hn. unfold can_decode, utf_max.
  destruct buf as [|b0 [|b1 [|b2 [|b3 r]]]]; [congruence| | | |]; cbn [length Nat.leb orb];
    try (intros H; discriminate H);
    unfold full_rune, decode_rune; cbv zeta; atoms; intros H;
    first [discriminate H | reflexivity].
Qed.

Lemma incomplete_at_eof : forall buf : str,
  buf <> [] -> can_decode buf = false -> decode_char buf = None.
Proof.
  intros buf Hn Hc. unfold decode_char. rewrite (incomplete_decode buf Hn Hc). reflexivity.
Qed.

(** ** The starting offset: Reset seeks to 0 before anything is read *)
Lemma concat_deliver : forall plan (data : str), concat (deliver plan data) = data.
Proof.
  induction plan as [|n plan IH]; intros data; cbn [deliver].
  - destruct data; [reflexivity|]. cbn [concat]. apply app_nil_r.
  - cbn [concat]. rewrite IH. apply firstn_skipn.
Qed.

Theorem C08_offset_independent : forall uni data off off' ok plan fault,
  parse_read_seeker uni (mkRS data off ok plan fault) =
  parse_read_seeker uni (mkRS data off' ok plan fault).
Proof. reflexivity. Qed.

(** a seeker that works: the parse of its whole content, from any offset, in any chunks *)
Theorem C08_read_seeker : forall uni data off plan,
  parse_read_seeker uni (mkRS data off true plan None) = parse_string uni data.
Proof.
  intros uni data off plan. unfold parse_read_seeker, reads_of, seek_start.
  cbn [rs_seek_ok rs_plan rs_off rs_data rs_fault skipn].
  rewrite C08_chunk_independent, concat_deliver. reflexivity.
Qed.

(** a seeker that fails, at the Seek or at any Read: an error, never an operation *)
Theorem C08_read_seeker_fault : forall uni data off ok plan n,
  exists e, parse_read_seeker uni (mkRS data off ok plan (Some n)) = Err e.
Proof.
  intros uni data off ok plan n. unfold parse_read_seeker, reads_of, seek_start.
  cbn [rs_seek_ok rs_plan rs_off rs_data rs_fault skipn].
  destruct ok; [|eexists; reflexivity].
  rewrite firstn_map, C08_fault_is_error. eexists. reflexivity.
Qed.

Theorem C08_read_seeker_bad_seek : forall uni data off plan fault,
  parse_read_seeker uni (mkRS data off false plan fault) = Err (EOther "seek error").
Proof. reflexivity. Qed.

(** a cut in the middle of a three-byte rune, byte by byte, with empty reads *)
Example C08_chunk_example :
  parse_reader uni_ascii [RChunk (bs "$.a"); RChunk []; RChunk [chr 226]; RChunk [chr 130]; RChunk []; RChunk [chr 172]]
  = parse_string uni_ascii (bs "$.a" ++ [chr 226; chr 130; chr 172]).
Proof. vm_compute. reflexivity. Qed.

(** * C. The outcome does not depend on what was parsed before *)

(** what a later parse needs of the object it is handed *)
Definition clean (o : sobj) : Prop := s_err o = None /\ s_ident_std o = true.

Lemma clean_new_obj : clean new_obj.
Proof. split; reflexivity. Qed.

(** the body never touches the identifier predicate, whatever the exit *)
Lemma body_ident : forall o uni bytes x o',
  body o uni bytes = (x, o') -> s_ident_std o' = s_ident_std o.
Proof.
  intros o uni bytes x o' E. unfold body in E.
  destruct (negb (s_ident_std o && s_mode_std o)); [inversion E; reflexivity|].
  destruct (lex uni bytes) as [toks|].
  - destruct (parse_tokens toks) as [t|e|m| |w]; try (inversion E; reflexivity).
    destruct (s_err o); inversion E; reflexivity.
  - inversion E; subst. unfold on_error. destruct (s_err o); reflexivity.
Qed.

(** the deferred function runs on every exit, so every object put back is
    clean: normal return, error return, panic, and the exits of the model *)
Theorem C08_put_back_clean : forall o uni bytes,
  s_ident_std o = true -> clean (snd (parse_with o uni bytes)).
Proof.
  intros o uni bytes Hi. unfold parse_with.
  destruct (body (reset o) uni bytes) as [x o'] eqn:E. cbn [snd].
  apply body_ident in E. split; [reflexivity|].
  cbn [deferred s_ident_std]. rewrite E. exact Hi.
Qed.

Theorem C08_put_back_clean_on_exit : forall o uni bytes x o',
  s_ident_std o = true -> body (reset o) uni bytes = (x, o') -> clean (deferred o').
Proof.
  intros o uni bytes x o' Hi E. apply body_ident in E. split; [reflexivity|].
  cbn [deferred s_ident_std]. rewrite E. exact Hi.
Qed.

Lemma put_back_clean_bad_seek : forall o, s_ident_std o = true -> clean (snd (parse_bad_seek o)).
Proof. intros o Hi. split; [reflexivity|exact Hi]. Qed.

(** on a clean object ParseReadSeeker is ParseString of the model *)
Theorem C08_parse_with_clean : forall o uni bytes,
  clean o -> fst (parse_with o uni bytes) = parse_string uni bytes.
Proof.
  intros [e i md h] uni bytes [He Hi]. cbn [s_err s_ident_std] in He, Hi. subst e i.
  unfold parse_with, body, reset, parse_string. cbn [s_err s_ident_std s_mode_std andb negb].
  destruct (lex uni bytes) as [toks|]; [|reflexivity].
  destruct (parse_tokens toks) as [t|e|m| |w]; reflexivity.
Qed.

(** ** Histories *)
Lemma remove_nth_clean : forall (p : pool) i, Forall clean p -> Forall clean (remove_nth i p).
Proof.
  induction p as [|o p IH]; intros i H; [exact H|].
  inversion H as [|o0 p0 Ho Hp]; subst.
  destruct i as [|i]; cbn [remove_nth]; [exact Hp|].
  constructor; [exact Ho|apply IH; exact Hp].
Qed.

Lemma get_clean : forall pick p o p',
  Forall clean p -> get pick p = (o, p') -> clean o /\ Forall clean p'.
Proof.
  intros pick p o p' H E. unfold get in E.
  destruct pick as [i|].
  - destruct (nth_error p i) as [o1|] eqn:En.
    + inversion E; subst. split.
      * rewrite Forall_forall in H. apply H. eapply nth_error_In. exact En.
      * apply remove_nth_clean. exact H.
    + inversion E; subst. split; [apply clean_new_obj|exact H].
  - inversion E; subst. split; [apply clean_new_obj|exact H].
Qed.

Lemma step_clean : forall p c, Forall clean p -> Forall clean (fst (step p c)).
Proof.
  intros p c H. destruct c as [pick uni bytes|pick]; cbn [step].
  - destruct (get pick p) as [o p'] eqn:Eg.
    destruct (get_clean pick p o p' H Eg) as [[_ Hi] Hp].
    pose proof (C08_put_back_clean o uni bytes Hi) as Hc.
    destruct (parse_with o uni bytes) as [r o']. cbn [fst snd] in *.
    constructor; assumption.
  - destruct (get pick p) as [o p'] eqn:Eg.
    destruct (get_clean pick p o p' H Eg) as [[_ Hi] Hp].
    pose proof (put_back_clean_bad_seek o Hi) as Hc.
    destruct (parse_bad_seek o) as [r o']. cbn [fst snd] in *.
    constructor; assumption.
Qed.

Theorem C08_pool_invariant : forall history p, Forall clean p -> Forall clean (run history p).
Proof.
  induction history as [|c history IH]; intros p H; [exact H|].
  unfold run. cbn [fold_left]. apply IH. apply step_clean. exact H.
Qed.

(** After any history of earlier calls (successful, failing, on readers whose
    Seek fails), and whichever free object Get hands out or none, a parse
    yields what ParseString yields on the bytes alone. *)
Theorem C08_history_independent : forall history pick uni bytes,
  snd (step (run history []) (Parse pick uni bytes)) = parse_string uni bytes.
Proof.
  intros history pick uni bytes.
  pose proof (C08_pool_invariant history [] (Forall_nil _)) as H.
  cbn [step]. destruct (get pick (run history [])) as [o p'] eqn:Eg.
  destruct (get_clean _ _ _ _ H Eg) as [Hc _].
  pose proof (C08_parse_with_clean o uni bytes Hc) as E.
  destruct (parse_with o uni bytes) as [r o']. exact E.
Qed.

(** ** The invariant is exactly what is needed
    An object that kept an error from an earlier parse turns a valid query
    into an error: without [s.err = nil] in the deferred function a failed
    parse would poison the next one that draws the same object. *)
Theorem C08_stale_error_would_leak : forall o m uni bytes t,
  s_err o = Some m -> s_ident_std o = true -> parse_string uni bytes = Ok t ->
  fst (parse_with o uni bytes) = Err (EOther m).
Proof.
  intros [e i md h] m uni bytes t He Hi Hp. cbn [s_err s_ident_std] in He, Hi. subst e i.
  unfold parse_string in Hp.
  unfold parse_with, body, reset. cbn [s_err s_ident_std s_mode_std andb negb].
  destruct (lex uni bytes) as [toks|]; [|discriminate Hp].
  rewrite Hp. reflexivity.
Qed.

Example C08_stale_error_example :
  fst (parse_with (mkS (Some "literal not terminated"%string) true true true) uni_ascii (bs "$.a"))
  = Err (EOther "literal not terminated")
  /\ exists t, parse_string uni_ascii (bs "$.a") = Ok t.
Proof. split; [vm_compute; reflexivity|eexists; vm_compute; reflexivity]. Qed.

Theorem C08_clean_is_necessary : forall o,
  (forall uni bytes, fst (parse_with o uni bytes) = parse_string uni bytes) -> clean o.
Proof.
  intros [e i md h] H. specialize (H uni_ascii (bs "$")).
  destruct e as [m|]; destruct i; vm_compute in H; try discriminate H.
  split; reflexivity.
Qed.

(** ** Nothing is written to the standard streams
    text/scanner prints to os.Stderr only when no handler is installed; Reset
    installs one before the first character is read.  (mpath itself has no
    print statement on the parse path: a fact about the source text, checked
    outside Coq.) *)
Theorem C08_no_stderr : forall o uni bytes, writes_stderr (reset o) uni bytes = false.
Proof. reflexivity. Qed.

Print Assumptions C08_parse_total.
Print Assumptions C08_parse_total_with.
Print Assumptions C08_declined_only_numeral.
Print Assumptions C08_parse_tokens_total.
Print Assumptions C08_parse_string_total.
Print Assumptions C08_parse_string_no_fuel_no_panic.
Print Assumptions C08_exactly_one.
Print Assumptions C08_chars_fuel_sufficient.
Print Assumptions C08_scan_string_fuel_sufficient.
Print Assumptions C08_lex_fuel_sufficient.
Print Assumptions C08_chars_chunk_independent.
Print Assumptions C08_chunk_independent.
Print Assumptions C08_fault_is_error.
Print Assumptions C08_reader_fuel_sufficient.
Print Assumptions C08_offset_independent.
Print Assumptions C08_read_seeker.
Print Assumptions C08_read_seeker_fault.
Print Assumptions C08_read_seeker_bad_seek.
Print Assumptions C08_put_back_clean.
Print Assumptions C08_put_back_clean_on_exit.
Print Assumptions C08_parse_with_clean.
Print Assumptions C08_pool_invariant.
Print Assumptions C08_history_independent.
Print Assumptions C08_stale_error_would_leak.
Print Assumptions C08_clean_is_necessary.
Print Assumptions C08_no_stderr.
