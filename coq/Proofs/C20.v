(* Proofs/C20.v — GetRootFieldsAccessed is a sound summary of what a query
   reads; AddressedPaths covers the key chains the query navigates. *)
From Coq Require Import Sorted.
From Mpath.Model Require Import Base Dec Types GoVal Ast Lexer Parser Funcs Eval Analysis.
From Mpath.Proofs Require Import EvalMono.

(** * (a) the byte-wise order, sorting and de-duplication *)

Lemma c20_byte_inj (x y : ascii) : byte x = byte y -> x = y.
Proof.
  unfold byte. intros H. apply N2Z.inj in H.
  rewrite <- (ascii_N_embedding x), <- (ascii_N_embedding y), H. reflexivity.
Qed.

Lemma c20_str_eqb_eq (a b : str) : str_eqb a b = true <-> a = b.
Proof.
  revert b; induction a as [|x a IH]; intros [|y b]; simpl; split; intros H; try congruence; try discriminate.
  - apply andb_true_iff in H. destruct H as [Hxy Hab].
    apply Ascii.eqb_eq in Hxy. apply IH in Hab. congruence.
  - inversion H; subst. rewrite Ascii.eqb_refl. simpl. apply IH. reflexivity.
Qed.

Lemma c20_str_ltb_irrefl (a : str) : str_ltb a a = false.
Proof. induction a as [|x a IH]; simpl; [reflexivity|]. rewrite Z.ltb_irrefl. exact IH. Qed.

Lemma c20_str_ltb_trans (a b c : str) :
  str_ltb a b = true -> str_ltb b c = true -> str_ltb a c = true.
Proof.
  revert b c; induction a as [|x a IH]; intros [|y b] [|z c] Hab Hbc; simpl in *; try congruence.
  destruct (byte x <? byte y) eqn:Exy.
  - apply Z.ltb_lt in Exy.
    destruct (byte y <? byte z) eqn:Eyz.
    + apply Z.ltb_lt in Eyz. assert (Hxz : byte x < byte z) by lia.
      apply Z.ltb_lt in Hxz. rewrite Hxz. reflexivity.
    + destruct (byte z <? byte y) eqn:Ezy; [discriminate|].
      apply Z.ltb_ge in Eyz. apply Z.ltb_ge in Ezy.
      assert (Hxz : byte x < byte z) by lia. apply Z.ltb_lt in Hxz. rewrite Hxz. reflexivity.
  - destruct (byte y <? byte x) eqn:Eyx; [discriminate|].
    apply Z.ltb_ge in Exy. apply Z.ltb_ge in Eyx.
    assert (Hxy : byte x = byte y) by lia. rewrite Hxy.
    destruct (byte y <? byte z); [reflexivity|].
    destruct (byte z <? byte y); [discriminate|]. eapply IH; eauto.
Qed.

(** trichotomy: neither below the other means equal *)
Lemma c20_str_ltb_total (a b : str) :
  str_ltb a b = false -> str_ltb b a = false -> a = b.
Proof.
  revert b; induction a as [|x a IH]; intros [|y b] Hab Hba; simpl in *; try congruence.
  destruct (byte x <? byte y) eqn:Exy; [discriminate|].
  destruct (byte y <? byte x) eqn:Eyx; [discriminate|].
  apply Z.ltb_ge in Exy. apply Z.ltb_ge in Eyx.
  assert (Hxy : byte x = byte y) by lia. apply c20_byte_inj in Hxy. subst y.
  f_equal. apply IH; assumption.
Qed.

Lemma c20_str_ltb_asym (a b : str) : str_ltb a b = true -> str_ltb b a = false.
Proof.
  intros H. destruct (str_ltb b a) eqn:E; [|reflexivity].
  pose proof (c20_str_ltb_trans _ _ _ H E) as Haa. rewrite c20_str_ltb_irrefl in Haa. discriminate.
Qed.

Definition str_lt (a b : str) : Prop := str_ltb a b = true.
Definition str_le (a b : str) : Prop := str_ltb b a = false.

(** strictly increasing in the byte-wise order: sorted and free of duplicates *)
Definition sorted (l : list str) : Prop := LocallySorted str_lt l.

Lemma insert_str_in (s : str) (l : list str) (k : str) :
  In k (insert_str s l) <-> k = s \/ In k l.
Proof.
  induction l as [|x l IH]; simpl.
  - intuition.
  - destruct (str_ltb s x); simpl; [intuition|]. rewrite IH. intuition.
Qed.

Lemma sort_strs_in (l : list str) (k : str) : In k (sort_strs l) <-> In k l.
Proof.
  induction l as [|x l IH]; simpl; [tauto|].
  rewrite insert_str_in, IH. intuition.
Qed.

Lemma insert_str_sorted (s : str) (l : list str) :
  LocallySorted str_le l -> LocallySorted str_le (insert_str s l).
Proof.
  induction l as [|x l IH]; intros Hs; simpl.
  - constructor.
  - destruct (str_ltb s x) eqn:E.
    + constructor; [exact Hs|]. unfold str_le. apply c20_str_ltb_asym. exact E.
    + assert (Hl : LocallySorted str_le l) by (inversion Hs; subst; [constructor|assumption]).
      specialize (IH Hl).
      destruct l as [|y l']; simpl in *.
      * constructor; [constructor|exact E].
      * destruct (str_ltb s y) eqn:E2.
        -- constructor; [exact IH|exact E].
        -- constructor; [exact IH|]. inversion Hs; subst; assumption.
Qed.

Lemma sort_strs_sorted (l : list str) : LocallySorted str_le (sort_strs l).
Proof.
  induction l as [|x l IH]; simpl; [constructor|]. apply insert_str_sorted. exact IH.
Qed.

Lemma dedup_from_in (prev : str) (l : list str) (k : str) :
  In k (prev :: dedup_from prev l) <-> In k (prev :: l).
Proof.
  revert prev; induction l as [|y r IH]; intros prev; simpl; [tauto|].
  destruct (str_eqb prev y) eqn:E.
  - apply c20_str_eqb_eq in E. subst y. specialize (IH prev). simpl in IH. intuition.
  - specialize (IH y). simpl in *. intuition.
Qed.

Lemma dedup_in (l : list str) (k : str) : In k (dedup l) <-> In k l.
Proof. destruct l as [|x r]; simpl; [tauto|]. apply (dedup_from_in x r k). Qed.

Lemma dedup_from_sorted (prev : str) (l : list str) :
  LocallySorted str_le (prev :: l) -> sorted (prev :: dedup_from prev l).
Proof.
  revert prev; induction l as [|y r IH]; intros prev Hs; simpl.
  - constructor.
  - inversion Hs as [| |a b l' Hrest Hab]; subst.
    destruct (str_eqb prev y) eqn:E.
    + apply c20_str_eqb_eq in E. subst y. apply IH. exact Hrest.
    + constructor; [apply IH; exact Hrest|].
      unfold str_lt. unfold str_le in Hab.
      destruct (str_ltb prev y) eqn:E2; [reflexivity|].
      pose proof (c20_str_ltb_total _ _ E2 Hab) as Heq. subst y.
      assert (Ht : str_eqb prev prev = true) by (apply c20_str_eqb_eq; reflexivity). congruence.
Qed.

Lemma dedup_sorted (l : list str) : LocallySorted str_le l -> sorted (dedup l).
Proof.
  destruct l as [|x r]; simpl; intros Hs; [constructor|]. apply dedup_from_sorted. exact Hs.
Qed.

Lemma sort_dedup_in (l : list str) (k : str) : In k (sort_dedup l) <-> In k l.
Proof. unfold sort_dedup. rewrite dedup_in, sort_strs_in. tauto. Qed.

Lemma sort_dedup_sorted (l : list str) : sorted (sort_dedup l).
Proof. unfold sort_dedup. apply dedup_sorted. apply sort_strs_sorted. Qed.

Lemma sorted_nodup (l : list str) : sorted l -> NoDup l.
Proof.
  intros Hs. unfold sorted in Hs.
  apply Sorted_LocallySorted_iff in Hs.
  apply Sorted_StronglySorted in Hs.
  - induction Hs as [|a l Hs IH Hall]; constructor; [|exact IH].
    intros Hin. rewrite Forall_forall in Hall. specialize (Hall _ Hin).
    unfold str_lt in Hall. rewrite c20_str_ltb_irrefl in Hall. discriminate.
  - intros a b c Hab Hbc. eapply c20_str_ltb_trans; eauto.
Qed.

Theorem C20_root_fields_sorted_nodup : forall t, sorted (root_fields t).
Proof. intros t. apply sort_dedup_sorted. Qed.

Corollary C20_root_fields_nodup : forall t, NoDup (root_fields t).
Proof. intros t. apply sorted_nodup. apply C20_root_fields_sorted_nodup. Qed.

(** membership is reduced once to the raw list *)
Lemma root_fields_in (t : top) (k : str) : In k (root_fields t) <-> In k (rf_top t).
Proof. unfold root_fields, root_fields_node. rewrite sort_dedup_in. simpl. tauto. Qed.

(** * (b) non-interference *)

(** the two root documents answer alike for every listed key *)
Definition agree (L : list str) (d d' : gv) : Prop :=
  forall k, In k L -> do_ident k d = do_ident k d'.

Definition key_first (ops : list pathop) : bool :=
  match ops with PIdent _ _ _ :: _ => true | _ => false end.

(** [top] = the node is evaluated with the root document as its current value
    (the whole query, and the operands of groups at the top of the query).
    A path that starts from the root document — a `$` path anywhere, an `@`
    path where [top] holds — must begin with a key and carry IsFilter = false
    (a `$` path with IsFilter = true is rejected by the evaluator before it
    reads anything).  `@` paths evaluated on an element are unconstrained. *)
Fixpoint bwk_path (top : bool) (p : path) : bool :=
  match p with
  | Path _ root isf _ ops _ =>
    (if root || top then (root && isf) || (negb isf && key_first ops) else true)
    && forallb bwk_pathop ops
  end
with bwk_pathop (o : pathop) : bool :=
  match o with
  | PIdent _ _ _ => true
  | PFilter l _ => bwk_logop false l
  | PFunc f => bwk_func f
  end
with bwk_func (f : func) : bool :=
  match f with Func _ _ ps _ => forallb bwk_param ps end
with bwk_param (a : param) : bool :=
  match a with
  | FPPath q => bwk_path false q
  | FPLog l => bwk_logop false l
  | FPNum _ | FPStr _ | FPBool _ => true
  end
with bwk_logop (top : bool) (l : logop) : bool :=
  match l with LogOp _ _ _ xs _ => forallb (fun x => bwk_operand top x) xs end
with bwk_operand (top : bool) (x : operand) : bool :=
  match x with OpP p => bwk_path top p | OpL l => bwk_logop top l end.

Definition begins_with_key_b (t : top) : bool :=
  match t with TopP p => bwk_path true p | TopL l => bwk_logop true l end.

Definition begins_with_key (t : top) : Prop := begins_with_key_b t = true.

(** ** the list-walking helpers depend on the evaluator pointwise *)

Lemma path_ops_ext (ev ev' : pathop -> gv -> outcome gv) :
  forall ops, (forall o, In o ops -> forall d, ev o d = ev' o d) ->
  forall prev pn data le, path_ops ev prev pn ops data le = path_ops ev' prev pn ops data le.
Proof.
  induction ops as [|op rest IH]; intros Hext prev pn data le; simpl; [reflexivity|].
  rewrite <- (Hext op (or_introl eq_refl) data).
  assert (Hrest : forall o, In o rest -> forall d, ev o d = ev' o d) by (intros o Ho; apply Hext; right; exact Ho).
  specialize (IH Hrest).
  destruct (match prev with Some p => pn && negb (pathop_qmark p) && negb (pathop_is_func op) | None => false end); [reflexivity|].
  destruct (ev op data) as [v|e|m| |w]; try reflexivity.
  - apply IH.
  - destruct e; [|reflexivity]. destruct (pathop_qmark op); [apply IH|reflexivity].
Qed.

Lemma path_ops_first (ev ev' : pathop -> gv -> outcome gv) op rest d d' :
  ev op d = ev' op d' ->
  (forall o, In o rest -> forall x, ev o x = ev' o x) ->
  path_ops ev None false (op :: rest) d None = path_ops ev' None false (op :: rest) d' None.
Proof.
  intros Hop Hrest. simpl. rewrite <- Hop.
  destruct (ev op d) as [v|e|m| |w]; try reflexivity.
  - apply path_ops_ext. exact Hrest.
  - destruct e; [|reflexivity]. destruct (pathop_qmark op); [apply path_ops_ext; exact Hrest|reflexivity].
Qed.

Lemma log_ops_ext (ev ev' : operand -> outcome gv) t :
  forall xs, (forall x, In x xs -> ev x = ev' x) -> log_ops ev t xs = log_ops ev' t xs.
Proof.
  induction xs as [|x rest IH]; intros Hext; simpl; [reflexivity|].
  rewrite <- (Hext x (or_introl eq_refl)).
  assert (Hrest : forall y, In y rest -> ev y = ev' y) by (intros y Hy; apply Hext; right; exact Hy).
  rewrite (IH Hrest). reflexivity.
Qed.

Lemma filter_elems_ext (ev ev' : gv -> outcome gv) :
  (forall x, ev x = ev' x) -> forall xs, filter_elems ev xs = filter_elems ev' xs.
Proof.
  intros Hext xs; induction xs as [|x rest IH]; simpl; [reflexivity|].
  rewrite <- Hext, IH. reflexivity.
Qed.

Lemma eval_params_ext (ev ev' : node -> outcome gv) :
  forall ps, (forall p, In p ps -> param_here ev p = param_here ev' p) ->
  eval_params ev ps = eval_params ev' ps.
Proof.
  induction ps as [|p rest IH]; intros Hext; [reflexivity|].
  rewrite !eval_params_unfold.
  rewrite <- (Hext p (or_introl eq_refl)).
  assert (Hrest : forall q, In q rest -> param_here ev q = param_here ev' q) by (intros q Hq; apply Hext; right; exact Hq).
  rewrite (IH Hrest). reflexivity.
Qed.

(** ** what each node of the evaluator contributes, and its premise *)

Definition rfn (n : node) : list str :=
  match n with
  | NPath p => rf_path p
  | NOp o => rf_pathop o
  | NFunc f => rf_func f
  | NLog l => rf_logop l
  | NTop t => rf_top t
  end.

Definition bwk_node (top : bool) (n : node) : bool :=
  match n with
  | NPath p => bwk_path top p
  | NOp o => bwk_pathop o
  | NFunc f => bwk_func f
  | NLog l => bwk_logop top l
  | NTop (TopP p) => bwk_path top p
  | NTop (TopL l) => bwk_logop top l
  end.

(** the nodes that can be evaluated with the root document as current value *)
Definition top_node (n : node) : bool :=
  match n with NPath _ | NLog _ | NTop _ => true | NOp _ | NFunc _ => false end.

Lemma incl_flat_map_elem {A} (f : A -> list str) (xs : list A) (L : list str) (x : A) :
  incl (flat_map f xs) L -> In x xs -> incl (f x) L.
Proof. intros Hi Hx k Hk. apply Hi. apply in_flat_map. exists x. split; assumption. Qed.

Section Sound.
Variable uni : uclass.
Variable eng : engines.
Variable L : list str.

(** the invariant at one fuel: with the same current value, two root documents
    that agree on L are not told apart by a node whose root fields are in L *)
Definition inv_eq (k : nat) : Prop :=
  forall n cur orig orig',
    agree L orig orig' -> incl (rfn n) L -> bwk_node false n = true ->
    eval uni eng k n cur orig = eval uni eng k n cur orig'.

(** ... and where `@` denotes the root document itself *)
Definition inv_top (k : nat) : Prop :=
  forall n orig orig',
    agree L orig orig' -> incl (rfn n) L -> bwk_node true n = true -> top_node n = true ->
    eval uni eng k n orig orig = eval uni eng k n orig' orig'.

Lemma path_step k (top : bool) inv root isf me ops us cur cur' orig orig' :
  inv_eq k ->
  agree L orig orig' ->
  incl (rf_path (Path inv root isf me ops us)) L ->
  bwk_path top (Path inv root isf me ops us) = true ->
  (top = true -> cur = orig /\ cur' = orig') ->
  (top = false -> cur = cur') ->
  eval uni eng (S k) (NPath (Path inv root isf me ops us)) cur orig
  = eval uni eng (S k) (NPath (Path inv root isf me ops us)) cur' orig'.
Proof.
  intros IHk Hag Hincl Hb Htop Heq.
  cbn [eval]. destruct (root && isf) eqn:Eri; [reflexivity|].
  cbn [bwk_path] in Hb. rewrite Eri in Hb. cbn [orb] in Hb.
  apply andb_true_iff in Hb. destruct Hb as [Hhead Hall].
  rewrite forallb_forall in Hall.
  cbn [rf_path] in Hincl.
  assert (Hext : forall o, In o ops -> forall x, eval uni eng k (NOp o) x orig = eval uni eng k (NOp o) x orig').
  { intros o Ho x. apply IHk; [exact Hag| |cbn [bwk_node]; apply Hall; exact Ho].
    cbn [rfn]. apply incl_flat_map_elem with (xs := ops); [|exact Ho].
    intros s Hs. apply Hincl. apply in_or_app. left. exact Hs. }
  destruct (root || top) eqn:Ert.
  - apply andb_true_iff in Hhead. destruct Hhead as [Hisf Hkf].
    apply negb_true_iff in Hisf. subst isf.
    destruct ops as [|[name q u|l u|f] rest]; try discriminate.
    assert (Hname : In name L).
    { apply Hincl. apply in_or_app. right. cbn [first_ident]. simpl. left. reflexivity. }
    assert (Hd : (if root then orig else cur) = orig /\ (if root then orig' else cur') = orig').
    { destruct root; [split; reflexivity|]. cbn [orb] in Ert. destruct (Htop Ert) as [-> ->]. split; reflexivity. }
    destruct Hd as [-> ->].
    apply path_ops_first.
    + destruct k as [|k']; [reflexivity|]. cbn [eval]. apply Hag. exact Hname.
    + intros o Ho x. apply Hext. right. exact Ho.
  - apply orb_false_iff in Ert. destruct Ert as [-> ->].
    rewrite <- (Heq eq_refl).
    apply path_ops_ext. exact Hext.
Qed.

Lemma log_step k (top : bool) inv isf t xs us cur cur' orig orig' :
  (forall x, In x xs ->
     match x with
     | OpP p => eval uni eng k (NPath p) cur orig = eval uni eng k (NPath p) cur' orig'
     | OpL l => eval uni eng k (NLog l) cur orig = eval uni eng k (NLog l) cur' orig'
     end) ->
  eval uni eng (S k) (NLog (LogOp inv isf t xs us)) cur orig
  = eval uni eng (S k) (NLog (LogOp inv isf t xs us)) cur' orig'.
Proof.
  intros H. cbn [eval]. apply log_ops_ext. intros x Hx. specialize (H x Hx). destruct x; exact H.
Qed.

Lemma inv_both : forall k, inv_eq k /\ inv_top k.
Proof.
  induction k as [|k [IHe IHt]]; [split; intros n; reflexivity|].
  split.
  - (* same current value *)
    intros n cur orig orig' Hag Hincl Hb.
    destruct n as [p|o|f|l|t].
    + destruct p as [inv root isf me ops us].
      apply (path_step k false); auto. discriminate.
    + destruct o as [name q us|l us|f].
      * reflexivity.
      * cbn [eval].
        assert (Hl : forall x, eval uni eng k (NLog l) x orig = eval uni eng k (NLog l) x orig').
        { intros x. apply IHe; [exact Hag| |exact Hb].
          destruct l as [inv isf t xs u]. exact Hincl. }
        destruct (get_as_struct_or_slice cur) as [[val [|]]|]; [| |reflexivity].
        -- rewrite Hl. reflexivity.
        -- destruct val; try reflexivity.
           rewrite (filter_elems_ext _ _ Hl). reflexivity.
      * cbn [eval]. apply IHe; assumption.
    + destruct f as [inv ft ps us]. cbn [eval].
      cbn [rfn rf_func] in Hincl. cbn [bwk_node bwk_func] in Hb. rewrite forallb_forall in Hb.
      assert (Hps : eval_params (fun m => eval uni eng k m cur orig) ps
                    = eval_params (fun m => eval uni eng k m cur orig') ps).
      { apply eval_params_ext. intros p Hp.
        pose proof (incl_flat_map_elem _ _ _ _ Hincl Hp) as Hip.
        specialize (Hb p Hp).
        destruct p as [d|s|b|q|l]; try reflexivity; unfold param_here.
        - rewrite (IHe (NPath q) cur orig orig' Hag Hip Hb). reflexivity.
        - rewrite (IHe (NLog l) cur orig orig' Hag Hip Hb). reflexivity. }
      rewrite Hps. reflexivity.
    + destruct l as [inv isf t xs us].
      apply (log_step k false).
      cbn [rfn rf_logop] in Hincl. cbn [bwk_node bwk_logop] in Hb. rewrite forallb_forall in Hb.
      intros x Hx.
      pose proof (incl_flat_map_elem _ _ _ _ Hincl Hx) as Hix. specialize (Hb x Hx).
      destruct x as [p|l]; apply IHe; assumption.
    + destruct t as [p|l]; cbn [eval]; apply IHe; assumption.
  - (* the current value is the root document *)
    intros n orig orig' Hag Hincl Hb Htn.
    destruct n as [p|o|f|l|t]; try discriminate.
    + destruct p as [inv root isf me ops us].
      apply (path_step k true); auto. discriminate.
    + destruct l as [inv isf t xs us].
      apply (log_step k true).
      cbn [rfn rf_logop] in Hincl. cbn [bwk_node bwk_logop] in Hb. rewrite forallb_forall in Hb.
      intros x Hx.
      pose proof (incl_flat_map_elem _ _ _ _ Hincl Hx) as Hix. specialize (Hb x Hx).
      destruct x as [p|l]; apply IHt; auto.
    + destruct t as [p|l]; cbn [eval]; apply IHt; auto.
Qed.

End Sound.

Theorem C20_root_fields_sound : forall uni eng fuel t d d',
  begins_with_key t -> agree (root_fields t) d d' ->
  eval uni eng fuel (NTop t) d d = eval uni eng fuel (NTop t) d' d'.
Proof.
  intros uni eng fuel t d d' Hb Hag.
  destruct (inv_both uni eng (rf_top t) fuel) as [_ Ht].
  apply Ht.
  - intros k Hk. apply Hag. apply root_fields_in. exact Hk.
  - cbn [rfn]. apply incl_refl.
  - destruct t; exact Hb.
  - reflexivity.
Qed.

(** ** an induction principle for the mutually inductive, list-nested AST
    (a structurally recursive proof term, checked by the kernel's guard) *)
Section AstInd.
Variable Pp : path -> Prop.
Variable Po : pathop -> Prop.
Variable Pf : func -> Prop.
Variable Pa : param -> Prop.
Variable Pl : logop -> Prop.
Variable Px : operand -> Prop.
Hypothesis Hpath : forall inv r isf me ops us, Forall Po ops -> Pp (Path inv r isf me ops us).
Hypothesis Hident : forall n q us, Po (PIdent n q us).
Hypothesis Hfilter : forall l us, Pl l -> Po (PFilter l us).
Hypothesis Hpfunc : forall f, Pf f -> Po (PFunc f).
Hypothesis Hfunc : forall inv ft ps us, Forall Pa ps -> Pf (Func inv ft ps us).
Hypothesis Hnum : forall d, Pa (FPNum d).
Hypothesis Hstr : forall s, Pa (FPStr s).
Hypothesis Hbool : forall b, Pa (FPBool b).
Hypothesis Hfppath : forall p, Pp p -> Pa (FPPath p).
Hypothesis Hfplog : forall l, Pl l -> Pa (FPLog l).
Hypothesis Hlog : forall inv isf t xs us, Forall Px xs -> Pl (LogOp inv isf t xs us).
Hypothesis Hopp : forall p, Pp p -> Px (OpP p).
Hypothesis Hopl : forall l, Pl l -> Px (OpL l).

Fixpoint ast_path (p : path) : Pp p :=
  match p with
  | Path inv r isf me ops us =>
    Hpath inv r isf me ops us
      ((fix go (ops : list pathop) : Forall Po ops :=
          match ops with
          | [] => Forall_nil Po
          | o :: rest => Forall_cons o (ast_pathop o) (go rest)
          end) ops)
  end
with ast_pathop (o : pathop) : Po o :=
  match o with
  | PIdent n q us => Hident n q us
  | PFilter l us => Hfilter l us (ast_logop l)
  | PFunc f => Hpfunc f (ast_func f)
  end
with ast_func (f : func) : Pf f :=
  match f with
  | Func inv ft ps us =>
    Hfunc inv ft ps us
      ((fix go (ps : list param) : Forall Pa ps :=
          match ps with
          | [] => Forall_nil Pa
          | a :: rest => Forall_cons a (ast_param a) (go rest)
          end) ps)
  end
with ast_param (a : param) : Pa a :=
  match a with
  | FPNum d => Hnum d
  | FPStr s => Hstr s
  | FPBool b => Hbool b
  | FPPath p => Hfppath p (ast_path p)
  | FPLog l => Hfplog l (ast_logop l)
  end
with ast_logop (l : logop) : Pl l :=
  match l with
  | LogOp inv isf t xs us =>
    Hlog inv isf t xs us
      ((fix go (xs : list operand) : Forall Px xs :=
          match xs with
          | [] => Forall_nil Px
          | x :: rest => Forall_cons x (ast_operand x) (go rest)
          end) xs)
  end
with ast_operand (x : operand) : Px x :=
  match x with
  | OpP p => Hopp p (ast_path p)
  | OpL l => Hopl l (ast_logop l)
  end.

Lemma ast_ind :
  (forall p, Pp p) /\ (forall o, Po o) /\ (forall f, Pf f) /\ (forall a, Pa a)
  /\ (forall l, Pl l) /\ (forall x, Px x).
Proof.
  repeat split; [apply ast_path|apply ast_pathop|apply ast_func|apply ast_param|apply ast_logop|apply ast_operand].
Qed.
End AstInd.

(** ** the premise read off the flags alone, plus the parser's shape *)

Definition path_is_filter (p : path) : bool := match p with Path _ _ isf _ _ _ => isf end.

(** every path whose IsFilter flag is false — what GetRootFieldsAccessed looks
    at — begins with a key, recursively *)
Fixpoint bwf_path (p : path) : bool :=
  match p with
  | Path _ _ isf _ ops _ => (isf || key_first ops) && forallb bwf_pathop ops
  end
with bwf_pathop (o : pathop) : bool :=
  match o with
  | PIdent _ _ _ => true
  | PFilter l _ => bwf_logop l
  | PFunc f => bwf_func f
  end
with bwf_func (f : func) : bool :=
  match f with Func _ _ ps _ => forallb bwf_param ps end
with bwf_param (a : param) : bool :=
  match a with
  | FPPath q => bwf_path q
  | FPLog l => bwf_logop l
  | FPNum _ | FPStr _ | FPBool _ => true
  end
with bwf_logop (l : logop) : bool :=
  match l with LogOp _ _ _ xs _ => forallb bwf_operand xs end
with bwf_operand (x : operand) : bool :=
  match x with OpP p => bwf_path p | OpL l => bwf_logop l end.

Definition begins_with_key_flags (t : top) : bool :=
  match t with TopP p => bwf_path p | TopL l => bwf_logop l end.

(** the paths evaluated on the root document — the query itself, the operands
    of a top-level group and of the groups nested directly in it — carry
    IsFilter = false, as the parser produces them (only the direct operands of
    a filter `[...]` are parsed with IsFilter = true) *)
Fixpoint ps_logop (l : logop) : bool :=
  match l with LogOp _ _ _ xs _ => forallb ps_operand xs end
with ps_operand (x : operand) : bool :=
  match x with OpP p => negb (path_is_filter p) | OpL l => ps_logop l end.

Definition parser_shaped (t : top) : bool :=
  match t with TopP p => negb (path_is_filter p) | TopL l => ps_logop l end.

Lemma forallb_Forall_imp {A} (f g : A -> bool) (xs : list A) :
  Forall (fun x => f x = true -> g x = true) xs -> forallb f xs = true -> forallb g xs = true.
Proof.
  induction 1 as [|x xs Hx Hxs IH]; simpl; [reflexivity|].
  intros H. apply andb_true_iff in H. destruct H as [H1 H2].
  rewrite (Hx H1), (IH H2). reflexivity.
Qed.

Lemma flags_imply :
  (forall p, bwf_path p = true ->
     bwk_path false p = true /\ (path_is_filter p = false -> bwk_path true p = true))
  /\ (forall o, bwf_pathop o = true -> bwk_pathop o = true)
  /\ (forall f, bwf_func f = true -> bwk_func f = true)
  /\ (forall a, bwf_param a = true -> bwk_param a = true)
  /\ (forall l, bwf_logop l = true ->
        bwk_logop false l = true /\ (ps_logop l = true -> bwk_logop true l = true))
  /\ (forall x, bwf_operand x = true ->
        bwk_operand false x = true /\ (ps_operand x = true -> bwk_operand true x = true)).
Proof.
  apply ast_ind.
  - intros inv r isf me ops us Hops Hb. cbn [bwf_path] in Hb.
    apply andb_true_iff in Hb. destruct Hb as [Hh Hall].
    pose proof (forallb_Forall_imp _ _ _ Hops Hall) as Hall'.
    cbn [bwk_path path_is_filter]. rewrite Hall'.
    split.
    + destruct r; cbn [orb]; [|reflexivity].
      destruct isf; cbn [andb orb negb] in *; [reflexivity|]. rewrite Hh. reflexivity.
    + intros ->. cbn [orb negb andb] in *. rewrite Hh.
      rewrite orb_true_r. cbn [orb andb]. rewrite andb_false_r. reflexivity.
  - reflexivity.
  - intros l us IH Hb. cbn [bwf_pathop] in Hb. cbn [bwk_pathop]. apply IH. exact Hb.
  - intros f IH Hb. apply IH. exact Hb.
  - intros inv ft ps us Hps Hb. cbn [bwf_func] in Hb. cbn [bwk_func].
    exact (forallb_Forall_imp _ _ _ Hps Hb).
  - reflexivity.
  - reflexivity.
  - reflexivity.
  - intros p IH Hb. cbn [bwk_param]. apply IH. exact Hb.
  - intros l IH Hb. cbn [bwk_param]. apply IH. exact Hb.
  - intros inv isf t xs us Hxs Hb. cbn [bwf_logop] in Hb. cbn [bwk_logop ps_logop].
    split.
    + apply (forallb_Forall_imp bwf_operand); [|exact Hb].
      eapply Forall_impl; [|exact Hxs]. intros x Hx Hbx. apply Hx. exact Hbx.
    + intros Hps.
      rewrite forallb_forall in Hb, Hps. rewrite Forall_forall in Hxs.
      apply forallb_forall. intros x Hx.
      apply (Hxs x Hx (Hb x Hx)). apply Hps. exact Hx.
  - intros p IH Hb. cbn [bwf_operand] in Hb. cbn [bwk_operand ps_operand].
    destruct (IH Hb) as [H1 H2]. split; [exact H1|].
    intros Hn. apply H2. apply negb_true_iff. exact Hn.
  - intros l IH Hb. cbn [bwf_operand] in Hb. cbn [bwk_operand ps_operand]. apply IH. exact Hb.
Qed.

Lemma flags_begin_with_key (t : top) :
  begins_with_key_flags t = true -> parser_shaped t = true -> begins_with_key t.
Proof.
  destruct flags_imply as [Hp [_ [_ [_ [Hl _]]]]].
  destruct t as [p|l]; simpl; intros Hb Hs.
  - apply (Hp p Hb). apply negb_true_iff. exact Hs.
  - apply (Hl l Hb). exact Hs.
Qed.

(** the statement with the premise on the flags and the parser's shape *)
Corollary C20_root_fields_sound_flags : forall uni eng fuel t d d',
  begins_with_key_flags t = true -> parser_shaped t = true ->
  agree (root_fields t) d d' ->
  eval uni eng fuel (NTop t) d d = eval uni eng fuel (NTop t) d' d'.
Proof.
  intros uni eng fuel t d d' Hb Hs Hag.
  apply C20_root_fields_sound; [apply flags_begin_with_key; assumption|exact Hag].
Qed.

(** [do_top] is the entry point with its fixed fuel *)
Corollary C20_root_fields_sound_do_top : forall uni eng t d d',
  begins_with_key t -> agree (root_fields t) d d' -> do_top uni eng t d = do_top uni eng t d'.
Proof. intros uni eng t d d' Hb Hag. unfold do_top. apply C20_root_fields_sound; assumption. Qed.

(** ** the connection to documents: entries of a root map under other keys *)

(** the map key [key] is not the one any listed name looks up (key lookup is
    case-insensitive: strings.EqualFold) *)
Definition key_irrelevant (L : list str) (key : gv) : Prop :=
  forall s k, key_string key = Some s -> In k L -> equal_fold s k = false.

Lemma map_lookup_fold_skip (name : str) (kvs1 : list (gv * gv)) key v kvs2 :
  (forall s, key_string key = Some s -> equal_fold s name = false) ->
  map_lookup_fold name (kvs1 ++ (key, v) :: kvs2) = map_lookup_fold name (kvs1 ++ kvs2).
Proof.
  intros Hk. induction kvs1 as [|[k0 v0] rest IH]; simpl.
  - destruct (key_string key) as [s|] eqn:E; [|reflexivity].
    rewrite (Hk s eq_refl). reflexivity.
  - rewrite IH. reflexivity.
Qed.

Lemma agree_map (L : list str) kt vt n kvs kt' vt' n' kvs' :
  (forall k, In k L -> map_lookup_fold k kvs = map_lookup_fold k kvs') ->
  agree L (VMap kt vt n kvs) (VMap kt' vt' n' kvs').
Proof.
  intros H k Hk. unfold do_ident. cbn. rewrite (H k Hk). reflexivity.
Qed.

(** adding an entry (anywhere in the iteration order; a nil map becomes non-nil) *)
Lemma agree_map_add (L : list str) kt vt n n' kvs1 kvs2 key v :
  key_irrelevant L key ->
  agree L (VMap kt vt n (kvs1 ++ kvs2)) (VMap kt vt n' (kvs1 ++ (key, v) :: kvs2)).
Proof.
  intros Hk. apply agree_map. intros k Hin. symmetry. apply map_lookup_fold_skip.
  intros s Hs. apply (Hk s k Hs Hin).
Qed.

(** removing an entry *)
Lemma agree_map_remove (L : list str) kt vt n n' kvs1 kvs2 key v :
  key_irrelevant L key ->
  agree L (VMap kt vt n (kvs1 ++ (key, v) :: kvs2)) (VMap kt vt n' (kvs1 ++ kvs2)).
Proof.
  intros Hk. apply agree_map. intros k Hin. apply map_lookup_fold_skip.
  intros s Hs. apply (Hk s k Hs Hin).
Qed.

(** replacing an entry: its value, or the entry altogether *)
Lemma agree_map_replace (L : list str) kt vt n n' kvs1 kvs2 key v key' v' :
  key_irrelevant L key -> key_irrelevant L key' ->
  agree L (VMap kt vt n (kvs1 ++ (key, v) :: kvs2)) (VMap kt vt n' (kvs1 ++ (key', v') :: kvs2)).
Proof.
  intros Hk Hk'. apply agree_map. intros k Hin.
  rewrite !map_lookup_fold_skip; [reflexivity| |].
  - intros s Hs. apply (Hk' s k Hs Hin).
  - intros s Hs. apply (Hk s k Hs Hin).
Qed.

(** the three together, on the evaluation of a query over a root map *)
Corollary C20_root_fields_map_entry : forall uni eng fuel t kt vt n kvs1 kvs2 key v key' v',
  begins_with_key t ->
  key_irrelevant (root_fields t) key -> key_irrelevant (root_fields t) key' ->
  let without := VMap kt vt n (kvs1 ++ kvs2) in
  let with_e := VMap kt vt n (kvs1 ++ (key, v) :: kvs2) in
  let with_e' := VMap kt vt n (kvs1 ++ (key', v') :: kvs2) in
  eval uni eng fuel (NTop t) without without = eval uni eng fuel (NTop t) with_e with_e
  /\ eval uni eng fuel (NTop t) with_e with_e = eval uni eng fuel (NTop t) with_e' with_e'.
Proof.
  intros uni eng fuel t kt vt n kvs1 kvs2 key v key' v' Hb Hk Hk'. cbn zeta. split.
  - apply C20_root_fields_sound; [exact Hb|]. apply agree_map_add. exact Hk.
  - apply C20_root_fields_sound; [exact Hb|]. apply agree_map_replace; assumption.
Qed.

(** * (c) AddressedPaths *)

Definition is_prefix (c p : list str) : Prop := exists r, p = c ++ r.

Lemma is_prefix_refl (c : list str) : is_prefix c c.
Proof. exists []. rewrite app_nil_r. reflexivity. Qed.

Lemma is_prefix_trans (a b c : list str) : is_prefix a b -> is_prefix b c -> is_prefix a c.
Proof. intros [r ->] [r' ->]. exists (r ++ r'). rewrite app_assoc. reflexivity. Qed.

Lemma is_prefix_app (pre c p : list str) : is_prefix c p -> is_prefix (pre ++ c) (pre ++ p).
Proof. intros [r ->]. exists r. rewrite app_assoc. reflexivity. Qed.

(** ** the key chains a query navigates, written down independently *)

(** the keys of a path, in order, whatever stands between them *)
Fixpoint idents_of (ops : list pathop) : list str :=
  match ops with
  | [] => []
  | PIdent name _ _ :: rest => name :: idents_of rest
  | _ :: rest => idents_of rest
  end.

Section ChainsInner.
Variable in_filter : logop -> list (list str).   (* the chains of a filter's predicates *)
Variable in_func : func -> list (list str).      (* the chains of a function's arguments *)
(** what the filters and functions of a path add: a filter's chains are
    prefixed by [pre], the keys seen before the filter (the collection it
    filters); the chains of function arguments stand for themselves *)
Fixpoint chains_inner (pre : list str) (ops : list pathop) : list (list str) :=
  match ops with
  | [] => []
  | PIdent name _ _ :: rest => chains_inner (pre ++ [name]) rest
  | PFilter l _ :: rest => map (fun c => pre ++ c) (in_filter l) ++ chains_inner pre rest
  | PFunc f :: rest => in_func f ++ chains_inner pre rest
  end.
End ChainsInner.

Fixpoint chains_path (p : path) : list (list str) :=
  match p with
  | Path _ _ _ _ ops _ => idents_of ops :: chains_inner chains_logop chains_func [] ops
  end
with chains_func (f : func) : list (list str) :=
  match f with Func _ _ ps _ => flat_map chains_param ps end
with chains_param (a : param) : list (list str) :=
  match a with
  | FPPath q => chains_path q
  | FPLog l => chains_logop l
  | FPNum _ | FPStr _ | FPBool _ => []
  end
with chains_logop (l : logop) : list (list str) :=
  match l with LogOp _ _ _ xs _ => flat_map chains_operand xs end
with chains_operand (x : operand) : list (list str) :=
  match x with OpP p => chains_path p | OpL l => chains_logop l end.

Definition chains (t : top) : list (list str) :=
  match t with TopP p => chains_path p | TopL l => chains_logop l end.

(** ** the de-duplication pass *)

Lemma strs_eqb_eq (a b : list str) : strs_eqb a b = true <-> a = b.
Proof.
  revert b; induction a as [|x a IH]; intros [|y b]; simpl; split; intros H; try congruence; try discriminate.
  - apply andb_true_iff in H. destruct H as [H1 H2].
    apply c20_str_eqb_eq in H1. apply IH in H2. congruence.
  - inversion H; subst. apply andb_true_iff. split; [apply c20_str_eqb_eq|apply IH]; reflexivity.
Qed.

Lemma slice_contains_in (sl : list (list str)) (val : list str) :
  slice_contains sl val = true <-> In val sl.
Proof.
  unfold slice_contains. rewrite existsb_exists. split.
  - intros [v [Hv He]]. apply strs_eqb_eq in He. subst. exact Hv.
  - intros H. exists val. split; [exact H|]. apply strs_eqb_eq. reflexivity.
Qed.

Lemma spread_slice_prefix (sl ss : list str) : In ss (spread_slice sl) -> is_prefix ss sl.
Proof.
  revert ss; induction sl as [|x r IH]; intros ss H; simpl in H; [contradiction|].
  destruct H as [<-|H].
  - exists r. reflexivity.
  - apply in_map_iff in H. destruct H as [ss' [<- Hin]].
    destruct (IH _ Hin) as [r' ->]. exists r'. reflexivity.
Qed.

Lemma subset_slice_prefix (slices : list (list str)) (val : list str) :
  slices_contains_subset_slice slices val = true -> exists s, In s slices /\ is_prefix val s.
Proof.
  unfold slices_contains_subset_slice. intros H.
  apply existsb_exists in H. destruct H as [s [Hs H]].
  apply existsb_exists in H. destruct H as [ss [Hss He]].
  apply strs_eqb_eq in He. subst ss.
  exists s. split; [exact Hs|]. apply spread_slice_prefix. exact Hss.
Qed.

Definition ap_step (ret : list (list str)) (val : list str) : list (list str) :=
  if ap_keep ret val then ret ++ [val] else ret.

Lemma ap_dedup_fold (paths : list (list str)) : ap_dedup paths = fold_left ap_step paths [].
Proof. reflexivity. Qed.

Lemma ap_fold_mono (paths ret : list (list str)) (p : list str) :
  In p ret -> In p (fold_left ap_step paths ret).
Proof.
  revert ret; induction paths as [|val rest IH]; intros ret H; simpl; [exact H|].
  apply IH. unfold ap_step. destruct (ap_keep ret val); [apply in_or_app; left|]; exact H.
Qed.

Lemma ap_fold_sub (paths ret : list (list str)) (p : list str) :
  In p (fold_left ap_step paths ret) -> In p ret \/ (In p paths /\ p <> []).
Proof.
  revert ret; induction paths as [|val rest IH]; intros ret H; simpl in *; [left; exact H|].
  destruct (IH _ H) as [Hr|[Hr Hne]].
  - unfold ap_step in Hr. destruct (ap_keep ret val) eqn:E; [|left; exact Hr].
    apply in_app_or in Hr. destruct Hr as [Hr|[<-|[]]]; [left; exact Hr|].
    right. split; [left; reflexivity|].
    unfold ap_keep in E. apply andb_true_iff in E. destruct E as [_ E].
    apply Nat.ltb_lt in E. intros ->. simpl in E. lia.
  - right. split; [right; exact Hr|exact Hne].
Qed.

Lemma ap_fold_nodup (paths ret : list (list str)) :
  NoDup ret -> NoDup (fold_left ap_step paths ret).
Proof.
  revert ret; induction paths as [|val rest IH]; intros ret H; simpl; [exact H|].
  apply IH. unfold ap_step. destruct (ap_keep ret val) eqn:E; [|exact H].
  unfold ap_keep in E. apply andb_true_iff in E. destruct E as [E _].
  apply andb_true_iff in E. destruct E as [E _]. apply negb_true_iff in E.
  assert (Hn : ~ In val ret).
  { intros Hin. apply slice_contains_in in Hin. congruence. }
  clear -H Hn. induction ret as [|x ret IHr]; simpl.
  - constructor; [intros []|constructor].
  - inversion H; subst. constructor.
    + intros Hin. apply in_app_or in Hin. destruct Hin as [Hin|[<-|[]]]; [contradiction|].
      apply Hn. left. reflexivity.
    + apply IHr; [assumption|]. intros Hin. apply Hn. right. exact Hin.
Qed.

(** every value that arrives, unless empty, is equal to or a prefix of a kept one *)
Lemma ap_fold_cover (paths ret : list (list str)) (q : list str) :
  In q paths -> q <> [] -> exists p, In p (fold_left ap_step paths ret) /\ is_prefix q p.
Proof.
  revert ret; induction paths as [|val rest IH]; intros ret Hq Hne; simpl in *; [contradiction|].
  destruct Hq as [->|Hq]; [|apply IH; assumption].
  unfold ap_step at 2. destruct (ap_keep ret q) eqn:E.
  - exists q. split; [|apply is_prefix_refl].
    apply ap_fold_mono. apply in_or_app. right. left. reflexivity.
  - unfold ap_keep in E.
    destruct (slice_contains ret q) eqn:E1.
    + apply slice_contains_in in E1. exists q. split; [apply ap_fold_mono; exact E1|apply is_prefix_refl].
    + destruct (slices_contains_subset_slice ret q) eqn:E2.
      * destruct (subset_slice_prefix _ _ E2) as [s [Hs Hp]].
        exists s. split; [apply ap_fold_mono; exact Hs|exact Hp].
      * cbn [negb andb] in E. apply Nat.ltb_ge in E.
        destruct q; [congruence|simpl in E; lia].
Qed.

Lemma ap_dedup_sub (paths : list (list str)) (p : list str) :
  In p (ap_dedup paths) -> In p paths /\ p <> [].
Proof.
  rewrite ap_dedup_fold. intros H. destruct (ap_fold_sub _ _ _ H) as [[]|H']. exact H'.
Qed.

Lemma ap_dedup_nodup (paths : list (list str)) : NoDup (ap_dedup paths).
Proof. rewrite ap_dedup_fold. apply ap_fold_nodup. constructor. Qed.

(** [A] covers [B]: every non-empty member of B is equal to or a prefix of a member of A *)
Definition covers (A B : list (list str)) : Prop :=
  forall c, In c B -> c <> [] -> exists p, In p A /\ is_prefix c p.

Lemma ap_dedup_covers (paths : list (list str)) : covers (ap_dedup paths) paths.
Proof. intros c Hc Hne. rewrite ap_dedup_fold. apply ap_fold_cover; assumption. Qed.

Lemma covers_trans (A B C : list (list str)) : covers A B -> covers B C -> covers A C.
Proof.
  intros HAB HBC c Hc Hne.
  destruct (HBC c Hc Hne) as [b [Hb Hcb]].
  assert (Hbne : b <> []).
  { destruct Hcb as [r ->]. destruct c; [congruence|discriminate]. }
  destruct (HAB b Hb Hbne) as [a [Ha Hba]].
  exists a. split; [exact Ha|]. eapply is_prefix_trans; eauto.
Qed.

Lemma covers_flat_map {X} (f g : X -> list (list str)) (xs : list X) :
  Forall (fun x => covers (f x) (g x)) xs -> covers (flat_map f xs) (flat_map g xs).
Proof.
  intros H c Hc Hne. apply in_flat_map in Hc. destruct Hc as [x [Hx Hc]].
  rewrite Forall_forall in H. destruct (H x Hx c Hc Hne) as [p [Hp Hcp]].
  exists p. split; [|exact Hcp]. apply in_flat_map. exists x. split; assumption.
Qed.

Lemma incl_flat_map {X Y} (f g : X -> list Y) (xs : list X) :
  Forall (fun x => incl (f x) (g x)) xs -> incl (flat_map f xs) (flat_map g xs).
Proof.
  intros H c Hc. apply in_flat_map in Hc. destruct Hc as [x [Hx Hc]].
  rewrite Forall_forall in H. apply in_flat_map. exists x. split; [exact Hx|]. apply (H x Hx). exact Hc.
Qed.

(** ** the loop over the operations of a path *)

Lemma ap_ops_in F G (ops : list pathop) : forall pre q,
  In q (ap_ops F G pre ops) <-> q = pre ++ idents_of ops \/ In q (chains_inner F G pre ops).
Proof.
  induction ops as [|[name qm u|l u|f] rest IH]; intros pre q; simpl.
  - rewrite app_nil_r. intuition.
  - rewrite IH. rewrite <- app_assoc. simpl. tauto.
  - rewrite !in_app_iff, IH. tauto.
  - rewrite !in_app_iff, IH. tauto.
Qed.

(** what a pathop stands for in the two collections *)
Definition op_rel (R : list (list str) -> list (list str) -> Prop)
                  (F F' : logop -> list (list str)) (G G' : func -> list (list str)) (o : pathop) : Prop :=
  match o with
  | PIdent _ _ _ => True
  | PFilter l _ => R (F l) (F' l)
  | PFunc f => R (G f) (G' f)
  end.

Lemma chains_inner_incl F F' G G' (ops : list pathop) :
  Forall (op_rel (@incl (list str)) F F' G G') ops ->
  forall pre, incl (chains_inner F G pre ops) (chains_inner F' G' pre ops).
Proof.
  induction 1 as [|o rest Ho Hrest IH]; intros pre c Hc; simpl in *; [exact Hc|].
  destruct o as [name qm u|l u|f]; simpl in Ho.
  - apply IH. exact Hc.
  - apply in_app_or in Hc. apply in_or_app. destruct Hc as [Hc|Hc]; [left|right; apply IH; exact Hc].
    apply in_map_iff in Hc. destruct Hc as [c' [<- Hc']].
    apply in_map_iff. exists c'. split; [reflexivity|apply Ho; exact Hc'].
  - apply in_app_or in Hc. apply in_or_app. destruct Hc as [Hc|Hc]; [left; apply Ho; exact Hc|right; apply IH; exact Hc].
Qed.

Lemma ap_ops_covers F F' G G' (ops : list pathop) :
  Forall (op_rel covers F F' G G') ops ->
  forall pre, covers (ap_ops F G pre ops) ((pre ++ idents_of ops) :: chains_inner F' G' pre ops).
Proof.
  induction 1 as [|o rest Ho Hrest IH]; intros pre c Hc Hne.
  - simpl in *. destruct Hc as [<-|[]]. rewrite app_nil_r.
    exists pre. split; [left; reflexivity|apply is_prefix_refl].
  - destruct o as [name qm u|l u|f]; simpl in Ho.
    + cbn [ap_ops idents_of chains_inner] in *.
      apply (IH (pre ++ [name]) c); [|exact Hne].
      rewrite <- app_assoc. exact Hc.
    + cbn [ap_ops idents_of chains_inner] in *.
      assert (Hfin : exists p, In p (map (app pre) (F l) ++ ap_ops F G pre rest) /\ is_prefix pre p).
      { exists (pre ++ idents_of rest). split.
        - apply in_or_app. right. apply ap_ops_in. left. reflexivity.
        - exists (idents_of rest). reflexivity. }
      destruct Hc as [<-|Hc].
      * destruct (IH pre (pre ++ idents_of rest) (or_introl eq_refl) Hne) as [p [Hp Hpp]].
        exists p. split; [apply in_or_app; right; exact Hp|exact Hpp].
      * apply in_app_or in Hc. destruct Hc as [Hc|Hc].
        -- apply in_map_iff in Hc. destruct Hc as [c' [<- Hc']].
           destruct c' as [|s c'].
           ++ rewrite app_nil_r. exact Hfin.
           ++ destruct (Ho (s :: c') Hc') as [p' [Hp' Hpp']]; [discriminate|].
              exists (pre ++ p'). split; [|apply is_prefix_app; exact Hpp'].
              apply in_or_app. left. apply in_map_iff. exists p'. split; [reflexivity|exact Hp'].
        -- destruct (IH pre c (or_intror Hc) Hne) as [p [Hp Hpp]].
           exists p. split; [apply in_or_app; right; exact Hp|exact Hpp].
    + cbn [ap_ops idents_of chains_inner] in *.
      destruct Hc as [<-|Hc].
      * destruct (IH pre (pre ++ idents_of rest) (or_introl eq_refl) Hne) as [p [Hp Hpp]].
        exists p. split; [apply in_or_app; right; exact Hp|exact Hpp].
      * apply in_app_or in Hc. destruct Hc as [Hc|Hc].
        -- destruct (Ho c Hc Hne) as [p [Hp Hpp]].
           exists p. split; [apply in_or_app; left; exact Hp|exact Hpp].
        -- destruct (IH pre c (or_intror Hc) Hne) as [p [Hp Hpp]].
           exists p. split; [apply in_or_app; right; exact Hp|exact Hpp].
Qed.

(** ** every returned path is a chain *)

Lemma addressed_incl_chains :
  (forall p, incl (ap_path p) (chains_path p))
  /\ (forall o, op_rel (@incl (list str)) ap_filter chains_logop ap_func chains_func o)
  /\ (forall f, incl (ap_func f) (chains_func f))
  /\ (forall a, incl (ap_param a) (chains_param a))
  /\ (forall l, incl (ap_filter l) (chains_logop l) /\ incl (ap_logop l) (chains_logop l))
  /\ (forall x, incl (ap_operand x) (chains_operand x)).
Proof.
  apply ast_ind.
  - intros inv r isf me ops us Hops p Hp. cbn [ap_path] in Hp. cbn [chains_path].
    destruct ops as [|o rest]; [contradiction|].
    apply ap_dedup_sub in Hp. destruct Hp as [Hp _].
    apply ap_ops_in in Hp. destruct Hp as [->|Hp]; [left; reflexivity|right].
    apply (chains_inner_incl _ _ _ _ _ Hops). exact Hp.
  - intros n q us. exact I.
  - intros l us [H _]. exact H.
  - intros f H. exact H.
  - intros inv ft ps us Hps. cbn [ap_func chains_func]. apply incl_flat_map. exact Hps.
  - intros d c [].
  - intros s c [].
  - intros b c [].
  - intros p H. exact H.
  - intros l [_ H]. exact H.
  - intros inv isf t xs us Hxs. cbn [ap_filter ap_logop chains_logop].
    pose proof (incl_flat_map _ _ _ Hxs) as Hi. split; [exact Hi|].
    intros c Hc. apply ap_dedup_sub in Hc. apply Hi. apply Hc.
  - intros p H. exact H.
  - intros l [_ H]. exact H.
Qed.

(** ** every chain is equal to or a prefix of a returned path *)

Lemma addressed_covers_chains :
  (forall p, covers (ap_path p) (chains_path p))
  /\ (forall o, op_rel covers ap_filter chains_logop ap_func chains_func o)
  /\ (forall f, covers (ap_func f) (chains_func f))
  /\ (forall a, covers (ap_param a) (chains_param a))
  /\ (forall l, covers (ap_filter l) (chains_logop l) /\ covers (ap_logop l) (chains_logop l))
  /\ (forall x, covers (ap_operand x) (chains_operand x)).
Proof.
  apply ast_ind.
  - intros inv r isf me ops us Hops. cbn [ap_path chains_path].
    destruct ops as [|o rest].
    + intros c [<-|[]] Hne. exfalso. apply Hne. reflexivity.
    + eapply covers_trans; [apply ap_dedup_covers|].
      apply (ap_ops_covers _ _ _ _ _ Hops []).
  - intros n q us. exact I.
  - intros l us [H _]. exact H.
  - intros f H. exact H.
  - intros inv ft ps us Hps. cbn [ap_func chains_func]. apply covers_flat_map. exact Hps.
  - intros d c [].
  - intros s c [].
  - intros b c [].
  - intros p H. exact H.
  - intros l [_ H]. exact H.
  - intros inv isf t xs us Hxs. cbn [ap_filter ap_logop chains_logop].
    pose proof (covers_flat_map _ _ _ Hxs) as Hc. split; [exact Hc|].
    eapply covers_trans; [apply ap_dedup_covers|exact Hc].
  - intros p H. exact H.
  - intros l [_ H]. exact H.
Qed.

Theorem C20_addressed_cover : forall t c,
  In c (chains t) -> c <> [] -> exists p, In p (addressed_paths t) /\ is_prefix c p.
Proof.
  destruct addressed_covers_chains as [Hp [_ [_ [_ [Hl _]]]]].
  intros [p|l] c Hc Hne; simpl in *; [apply (Hp p c Hc Hne)|apply (proj2 (Hl l) c Hc Hne)].
Qed.

Theorem C20_addressed_exact : forall t p, In p (addressed_paths t) -> In p (chains t).
Proof.
  destruct addressed_incl_chains as [Hp [_ [_ [_ [Hl _]]]]].
  intros [q|l] p H; simpl in *; [apply (Hp q p H)|apply (proj2 (Hl l) p H)].
Qed.

Theorem C20_addressed_nodup : forall t, NoDup (addressed_paths t).
Proof.
  intros [p|l]; simpl.
  - destruct p as [inv r isf me ops us]. cbn [ap_path].
    destruct ops; [constructor|apply ap_dedup_nodup].
  - destruct l as [inv isf t xs us]. cbn [ap_logop]. apply ap_dedup_nodup.
Qed.

(** no returned path is empty *)
Theorem C20_addressed_nonempty : forall t p, In p (addressed_paths t) -> p <> [].
Proof.
  intros [q|l] p H; simpl in H.
  - destruct q as [inv r isf me ops us]. cbn [ap_path] in H.
    destruct ops; [contradiction|]. apply ap_dedup_sub in H. apply H.
  - destruct l as [inv isf t xs us]. cbn [ap_logop] in H. apply ap_dedup_sub in H. apply H.
Qed.

(** the own chain of a top-level path is one of the chains, and so is covered *)
Lemma chains_own inv r isf me ops us :
  In (idents_of ops) (chains (TopP (Path inv r isf me ops us))).
Proof. left. reflexivity. Qed.

(** ** the parser produces [parser_shaped] trees *)
Lemma path_loop_is_filter : forall k root isf me ops us cur rest c r p,
  path_loop k root isf me ops us cur rest = Ok (c, r, p) -> path_is_filter p = isf.
Proof.
  induction k as [|k IH]; intros root isf me ops us cur rest c r p H; [discriminate|].
  cbn [path_loop] in H.
  destruct cur as [t| |]; [|inversion H; reflexivity|discriminate].
  destruct (is_ch t 46).
  { destruct (scan rest) as [c0 r0]. eapply IH; exact H. }
  destruct (is_ch t 44 || is_ch t 41 || is_ch t 93 || is_ch t 125).
  { inversion H; reflexivity. }
  destruct (is_ident_tok t).
  { destruct (tnext t =? 40).
    - destruct (parse_func k (CTok t) rest) as [[[c1 r1] f]|e|m| |w]; cbn [bind] in H; try discriminate.
      eapply IH; exact H.
    - destruct (strip_qmark (ttext t)) as [name q]. destruct (scan rest) as [c0 r0]. eapply IH; exact H. }
  destruct (is_ch t 91); [|discriminate].
  destruct (parse_log k true (CTok t) rest) as [[[c1 r1] l]|e|m| |w]; cbn [bind] in H; try discriminate.
  eapply IH; exact H.
Qed.

Lemma parse_path_is_filter : forall k isf me cur rest c r p,
  parse_path k isf me cur rest = Ok (c, r, p) -> path_is_filter p = isf.
Proof.
  intros [|k] isf me cur rest c r p H; [discriminate|].
  cbn [parse_path] in H.
  destruct cur as [t| |]; try discriminate.
  destruct (is_ch t 36).
  { destruct isf; [discriminate|]. destruct (scan rest) as [c0 r0].
    eapply path_loop_is_filter; exact H. }
  destruct (is_ch t 64); [|discriminate].
  destruct (scan rest) as [c0 r0]. eapply path_loop_is_filter; exact H.
Qed.

Lemma log_shaped : forall k,
  (forall cur rest c r l, parse_log k false cur rest = Ok (c, r, l) -> ps_logop l = true)
  /\ (forall inv ty xs us cur rest c r l,
        log_loop k inv false ty xs us cur rest = Ok (c, r, l) ->
        forallb ps_operand xs = true -> ps_logop l = true).
Proof.
  induction k as [|k [IHp IHl]]; [split; intros; discriminate|].
  split.
  - intros cur rest c r l H. cbn [parse_log] in H.
    destruct cur as [t| |]; try discriminate.
    destruct (negb (is_ch t 123 || is_ch t 91)); [discriminate|].
    destruct (scan rest) as [c0 r0].
    destruct c0 as [t1| |]; try (eapply IHl; [exact H|reflexivity]).
    destruct (is_ident_tok t1); [|eapply IHl; [exact H|reflexivity]].
    destruct (scan r0) as [c' r']. eapply IHl; [exact H|reflexivity].
  - intros inv ty xs us cur rest c r l H Hxs. cbn [log_loop] in H.
    destruct cur as [t| |]; [|inversion H; subst; exact Hxs|discriminate].
    destruct (is_ch t 44).
    { destruct (scan rest) as [c0 r0]. eapply IHl; [exact H|exact Hxs]. }
    destruct (is_ch t 36 || is_ch t 64).
    { destruct (parse_path k false true (CTok t) rest) as [[[c1 r1] p]|e|m| |w] eqn:E; cbn [bind] in H; try discriminate.
      eapply IHl; [exact H|]. rewrite forallb_app, Hxs. simpl.
      rewrite (parse_path_is_filter _ _ _ _ _ _ _ _ E). reflexivity. }
    destruct (is_ch t 123).
    { destruct (parse_log k false (CTok t) rest) as [[[c1 r1] l1]|e|m| |w] eqn:E; cbn [bind] in H; try discriminate.
      eapply IHl; [exact H|]. rewrite forallb_app, Hxs. simpl.
      rewrite (IHp _ _ _ _ _ E). reflexivity. }
    destruct (is_ch t 125 || is_ch t 93); [|discriminate].
    destruct (scan rest) as [c0 r0]. inversion H; subst. exact Hxs.
Qed.

Lemma top_loop_shaped : forall k topop cur rest t,
  top_loop k topop cur rest = Ok t ->
  (forall t0, topop = Some t0 -> parser_shaped t0 = true) -> parser_shaped t = true.
Proof.
  induction k as [|k IH]; intros topop cur rest t H Ht; [discriminate|].
  cbn [top_loop] in H.
  destruct cur as [tk| |].
  - destruct (is_ch tk 123).
    { destruct topop; [discriminate|].
      destruct (parse_log k false (CTok tk) rest) as [[[c1 r1] l]|e|m| |w] eqn:E; cbn [bind] in H; try discriminate.
      eapply IH; [exact H|]. intros t0 Ht0. inversion Ht0; subst. simpl.
      destruct (log_shaped k) as [Hp _]. eapply Hp; exact E. }
    destruct (is_ch tk 64 || is_ch tk 36); [|discriminate].
    destruct topop; [discriminate|].
    destruct (parse_path k false false (CTok tk) rest) as [[[c1 r1] p]|e|m| |w] eqn:E; cbn [bind] in H; try discriminate.
    eapply IH; [exact H|]. intros t0 Ht0. inversion Ht0; subst. simpl.
    rewrite (parse_path_is_filter _ _ _ _ _ _ _ _ E). reflexivity.
  - destruct topop; [|discriminate]. inversion H; subst. apply Ht. reflexivity.
  - destruct topop; [|discriminate]. inversion H; subst. apply Ht. reflexivity.
Qed.

Theorem parse_string_shaped : forall uni s t, parse_string uni s = Ok t -> parser_shaped t = true.
Proof.
  intros uni s t H. unfold parse_string in H.
  destruct (lex uni s) as [toks|]; [|discriminate].
  unfold parse_tokens in H. destruct (scan toks) as [c r].
  eapply top_loop_shaped; [exact H|]. intros t0 Ht0. discriminate.
Qed.

(** for a parsed query the premise on the flags is enough *)
Corollary C20_root_fields_sound_parsed : forall uni0 s uni eng fuel t d d',
  parse_string uni0 s = Ok t ->
  begins_with_key_flags t = true ->
  agree (root_fields t) d d' ->
  eval uni eng fuel (NTop t) d d = eval uni eng fuel (NTop t) d' d'.
Proof.
  intros uni0 s uni eng fuel t d d' Hp Hb Hag.
  apply C20_root_fields_sound_flags; [exact Hb|eapply parse_string_shaped; exact Hp|exact Hag].
Qed.

(** ** the output depends only on the set of inserted names
    (the Go code sorts the set of every recursive call before inserting it into
    the caller's set; the model concatenates and sorts once) *)

Lemma sorted_strong (l : list str) : sorted l -> StronglySorted str_lt l.
Proof.
  intros Hs. apply Sorted_StronglySorted.
  - intros a b c Hab Hbc. eapply c20_str_ltb_trans; eauto.
  - apply Sorted_LocallySorted_iff. exact Hs.
Qed.

Lemma strong_sorted_unique (l l' : list str) :
  StronglySorted str_lt l -> StronglySorted str_lt l' ->
  (forall k, In k l <-> In k l') -> l = l'.
Proof.
  intros Hs; revert l'; induction Hs as [|a l1 Hs1 IH Ha]; intros l' Hs' Hiff.
  - destruct l' as [|b l2]; [reflexivity|]. exfalso. apply (Hiff b). left. reflexivity.
  - destruct Hs' as [|b l2 Hs2 Hb].
    + exfalso. apply (Hiff a). left. reflexivity.
    + rewrite Forall_forall in Ha, Hb.
      assert (Hab : a = b).
      { destruct (proj1 (Hiff a) (or_introl eq_refl)) as [Heq|Hin]; [congruence|].
        destruct (proj2 (Hiff b) (or_introl eq_refl)) as [Heq|Hin']; [congruence|].
        pose proof (Hb a Hin) as H1. pose proof (Ha b Hin') as H2.
        unfold str_lt in *. rewrite (c20_str_ltb_asym _ _ H1) in H2. discriminate. }
      subst b. f_equal. apply IH; [exact Hs2|].
      intros k. split; intros Hk.
      * destruct (proj1 (Hiff k) (or_intror Hk)) as [Heq|Hin]; [|exact Hin].
        subst k. pose proof (Ha a Hk) as H. unfold str_lt in H. rewrite c20_str_ltb_irrefl in H. discriminate.
      * destruct (proj2 (Hiff k) (or_intror Hk)) as [Heq|Hin]; [|exact Hin].
        subst k. pose proof (Hb a Hk) as H. unfold str_lt in H. rewrite c20_str_ltb_irrefl in H. discriminate.
Qed.

Lemma sort_dedup_ext (l l' : list str) :
  (forall k, In k l <-> In k l') -> sort_dedup l = sort_dedup l'.
Proof.
  intros H. apply strong_sorted_unique; try (apply sorted_strong; apply sort_dedup_sorted).
  intros k. rewrite !sort_dedup_in. apply H.
Qed.

(** sorting a child's contribution first, as the recursive call does, changes nothing *)
Lemma sort_dedup_inner (a b c : list str) :
  sort_dedup (a ++ sort_dedup b ++ c) = sort_dedup (a ++ b ++ c).
Proof.
  apply sort_dedup_ext. intros k. rewrite !in_app_iff, sort_dedup_in. tauto.
Qed.

(** * (d) examples *)

Definition on_parsed {A} (f : top -> A) (s : string) : option A :=
  match parse_string uni_ascii (bs s) with Ok t => Some (f t) | _ => None end.

Definition q1 : string := "$.a.b[@.x.Equal(1),@.y.Equal(2)].c.Sum($.d.e)".
Definition q2 : string := "{OR,$.a.Equal({$.b.Equal(1)}),$.A.IsNull()}".

Example ex_q1_root_fields : on_parsed root_fields q1 = Some [bs "a"; bs "d"].
Proof. vm_compute. reflexivity. Qed.

Example ex_q1_addressed :
  on_parsed addressed_paths q1
  = Some [[bs "a"; bs "b"; bs "x"]; [bs "a"; bs "b"; bs "y"]; [bs "d"; bs "e"]; [bs "a"; bs "b"; bs "c"]].
Proof. vm_compute. reflexivity. Qed.

Example ex_q1_premise :
  on_parsed (fun t => (begins_with_key_b t, begins_with_key_flags t, parser_shaped t)) q1
  = Some (true, true, true).
Proof. vm_compute. reflexivity. Qed.

(** the list is not case-folded although key lookup is: both spellings appear *)
Example ex_q2_root_fields : on_parsed root_fields q2 = Some [bs "A"; bs "a"; bs "b"].
Proof. vm_compute. reflexivity. Qed.

Example ex_q2_addressed : on_parsed addressed_paths q2 = Some [[bs "b"]; [bs "a"]; [bs "A"]].
Proof. vm_compute. reflexivity. Qed.

Example ex_q2_premise :
  on_parsed (fun t => (begins_with_key_b t, begins_with_key_flags t, parser_shaped t)) q2
  = Some (true, true, true).
Proof. vm_compute. reflexivity. Qed.

(** an `@` path in a function argument inside a filter carries IsFilter = false:
    its first key is listed although it is a key of the elements, not of the root *)
Example ex_over_approximation :
  on_parsed root_fields "$.a[@.x.Equal(@.y)]" = Some [bs "a"; bs "y"].
Proof. vm_compute. reflexivity. Qed.

(** a path that does not begin with a key: the first key after the filter is
    listed, the key the filter reads is not *)
Example ex_filter_first :
  on_parsed (fun t => (root_fields t, begins_with_key_b t)) "$[@.x.Equal(1)].b" = Some ([bs "b"], false).
Proof. vm_compute. reflexivity. Qed.

(** ... and without the premise the list is not a sound summary: the query
    reads the root field x, the list is empty *)
Definition ex_num (z : Z) : gv := VFloat false false (FFin (mkDec z 0)).
Definition ex_obj (kvs : list (string * gv)) : gv :=
  VMap KtStr EAny false (map (fun '(k, v) => (VStr false (bs k), v)) kvs).

Example ex_premise_needed :
  on_parsed (fun t => (root_fields t,
                       eval uni_ascii no_engines 64 (NTop t) (ex_obj [("x", ex_num 1)]) (ex_obj [("x", ex_num 1)]),
                       eval uni_ascii no_engines 64 (NTop t) (ex_obj [("x", ex_num 2)]) (ex_obj [("x", ex_num 2)])))
            "$[@.x.Equal(1)]"
  = Some ([], Ok (ex_obj [("x", ex_num 1)]), Ok VNil).
Proof. vm_compute. reflexivity. Qed.

(** a `$` chain inside a filter predicate is prefixed by the collection too *)
Example ex_dollar_in_filter :
  on_parsed addressed_paths "$.a[@.x.Equal($.d)]" = Some [[bs "a"; bs "d"]; [bs "a"; bs "x"]].
Proof. vm_compute. reflexivity. Qed.

(** the order of arrival matters: a prefix that comes first stays *)
Example ex_prefix_first :
  on_parsed addressed_paths "{AND,$.a.IsNull(),$.a.b.IsNull()}" = Some [[bs "a"]; [bs "a"; bs "b"]].
Proof. vm_compute. reflexivity. Qed.

Example ex_prefix_second :
  on_parsed addressed_paths "{AND,$.a.b.IsNull(),$.a.IsNull()}" = Some [[bs "a"; bs "b"]].
Proof. vm_compute. reflexivity. Qed.

(** the theorem at work: q1 does not see the root field z *)
Example ex_q1_ignores_z : forall uni eng fuel t rest v v',
  parse_string uni_ascii (bs q1) = Ok t ->
  let d := VMap KtStr EAny false (rest ++ [(VStr false (bs "z"), v)]) in
  let d' := VMap KtStr EAny false (rest ++ [(VStr false (bs "z"), v')]) in
  eval uni eng fuel (NTop t) d d = eval uni eng fuel (NTop t) d' d'.
Proof.
  intros uni eng fuel t rest v v' Hp. cbn zeta.
  assert (Hrf : root_fields t = [bs "a"; bs "d"]).
  { pose proof ex_q1_root_fields as H. unfold on_parsed in H. rewrite Hp in H. congruence. }
  assert (Hb : begins_with_key_flags t = true).
  { pose proof ex_q1_premise as H. unfold on_parsed in H. rewrite Hp in H. congruence. }
  eapply C20_root_fields_sound_parsed; [exact Hp|exact Hb|].
  rewrite Hrf. apply agree_map_replace;
    intros s k Hs Hin; simpl in Hs; inversion Hs; subst;
    destruct Hin as [<-|[<-|[]]]; reflexivity.
Qed.

Print Assumptions C20_root_fields_sorted_nodup.
Print Assumptions C20_root_fields_nodup.
Print Assumptions C20_root_fields_sound.
Print Assumptions C20_root_fields_sound_flags.
Print Assumptions C20_root_fields_sound_parsed.
Print Assumptions C20_root_fields_sound_do_top.
Print Assumptions C20_root_fields_map_entry.
Print Assumptions C20_addressed_cover.
Print Assumptions C20_addressed_exact.
Print Assumptions C20_addressed_nodup.
Print Assumptions C20_addressed_nonempty.
