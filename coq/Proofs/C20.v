(* Proofs/C20.v — GetRootFieldsAccessed is a sound summary of what a query
   reads; AddressedPaths covers the key chains the query navigates. *)
From Coq Require Import Sorted.
From Mpath.Model Require Import Base Dec Types GoVal Ast Lexer Parser Funcs Eval Analysis.
From Mpath.Proofs Require Import EvalMono.

(** * (a) the byte-wise order, sorting and de-duplication *)

Lemma c20_byte_inj (x y : ascii) : byte x = byte y -> x = y.
Proof.
  unfold byte. intros H. apply N2Z.inj in H.
  rewrite <- (ascii_N_embedding x), <- (ascii_N_embedding y), H. reflexivity.
Qed.

Lemma c20_str_eqb_eq (a b : str) : str_eqb a b = true <-> a = b.
Proof.
  revert b; induction a as [|x a IH]; intros [|y b]; simpl; split; intros H; try congruence; try discriminate.
  - apply andb_true_iff in H. destruct H as [Hxy Hab].
    apply Ascii.eqb_eq in Hxy. apply IH in Hab. congruence.
  - inversion H; subst. rewrite Ascii.eqb_refl. simpl. apply IH. reflexivity.
Qed.

Lemma c20_str_ltb_irrefl (a : str) : str_ltb a a = false.
Proof. induction a as [|x a IH]; simpl; [reflexivity|]. rewrite Z.ltb_irrefl. exact IH. Qed.

Lemma c20_str_ltb_trans (a b c : str) :
  str_ltb a b = true -> str_ltb b c = true -> str_ltb a c = true.
Proof.
  revert b c; induction a as [|x a IH]; intros [|y b] [|z c] Hab Hbc; simpl in *; try congruence.
  destruct (byte x <? byte y) eqn:Exy.
  - apply Z.ltb_lt in Exy.
    destruct (byte y <? byte z) eqn:Eyz.
    + apply Z.ltb_lt in Eyz. assert (Hxz : byte x < byte z) by lia.
      apply Z.ltb_lt in Hxz. rewrite Hxz. reflexivity.
    + destruct (byte z <? byte y) eqn:Ezy; [discriminate|].
      apply Z.ltb_ge in Eyz. apply Z.ltb_ge in Ezy.
      assert (Hxz : byte x < byte z) by lia. apply Z.ltb_lt in Hxz. rewrite Hxz. reflexivity.
  - destruct (byte y <? byte x) eqn:Eyx; [discriminate|].
    apply Z.ltb_ge in Exy. apply Z.ltb_ge in Eyx.
    assert (Hxy : byte x = byte y) by lia. rewrite Hxy.
    destruct (byte y <? byte z); [reflexivity|].
    destruct (byte z <? byte y); [discriminate|]. eapply IH; eauto.
Qed.

(** trichotomy: neither below the other means equal *)
Lemma c20_str_ltb_total (a b : str) :
  str_ltb a b = false -> str_ltb b a = false -> a = b.
Proof.
  revert b; induction a as [|x a IH]; intros [|y b] Hab Hba; simpl in *; try congruence.
  destruct (byte x <? byte y) eqn:Exy; [discriminate|].
  destruct (byte y <? byte x) eqn:Eyx; [discriminate|].
  apply Z.ltb_ge in Exy. apply Z.ltb_ge in Eyx.
  assert (Hxy : byte x = byte y) by lia. apply c20_byte_inj in Hxy. subst y.
  f_equal. apply IH; assumption.
Qed.

Lemma c20_str_ltb_asym (a b : str) : str_ltb a b = true -> str_ltb b a = false.
Proof.
  intros H. destruct (str_ltb b a) eqn:E; [|reflexivity].
  pose proof (c20_str_ltb_trans _ _ _ H E) as Haa. rewrite c20_str_ltb_irrefl in Haa. discriminate.
Qed.

Definition str_lt (a b : str) : Prop := str_ltb a b = true.
Definition str_le (a b : str) : Prop := str_ltb b a = false.

(** strictly increasing in the byte-wise order: sorted and free of duplicates *)
Definition sorted (l : list str) : Prop := LocallySorted str_lt l.

Lemma insert_str_in (s : str) (l : list str) (k : str) :
  In k (insert_str s l) <-> k = s \/ In k l.
Proof.
  induction l as [|x l IH]; simpl.
  - intuition.
  - destruct (str_ltb s x); simpl; [intuition|]. rewrite IH. intuition.
Qed.

Lemma sort_strs_in (l : list str) (k : str) : In k (sort_strs l) <-> In k l.
Proof.
  induction l as [|x l IH]; simpl; [tauto|].
  rewrite insert_str_in, IH. intuition.
Qed.

Lemma insert_str_sorted (s : str) (l : list str) :
  LocallySorted str_le l -> LocallySorted str_le (insert_str s l).
Proof.
  induction l as [|x l IH]; intros Hs; simpl.
  - constructor.
  - destruct (str_ltb s x) eqn:E.
    + constructor; [exact Hs|]. unfold str_le. apply c20_str_ltb_asym. exact E.
    + assert (Hl : LocallySorted str_le l) by (inversion Hs; subst; [constructor|assumption]).
      specialize (IH Hl).
      destruct l as [|y l']; simpl in *.
      * constructor; [constructor|exact E].
      * destruct (str_ltb s y) eqn:E2.
        -- constructor; [exact IH|exact E].
        -- constructor; [exact IH|]. inversion Hs; subst; assumption.
Qed.

Lemma sort_strs_sorted (l : list str) : LocallySorted str_le (sort_strs l).
Proof.
  induction l as [|x l IH]; simpl; [constructor|]. apply insert_str_sorted. exact IH.
Qed.

Lemma dedup_from_in (prev : str) (l : list str) (k : str) :
  In k (prev :: dedup_from prev l) <-> In k (prev :: l).
Proof.
  revert prev; induction l as [|y r IH]; intros prev; simpl; [tauto|].
  destruct (str_eqb prev y) eqn:E.
  - apply c20_str_eqb_eq in E. subst y. specialize (IH prev). simpl in IH. intuition.
  - specialize (IH y). simpl in *. intuition.
Qed.

Lemma dedup_in (l : list str) (k : str) : In k (dedup l) <-> In k l.
Proof. destruct l as [|x r]; simpl; [tauto|]. apply (dedup_from_in x r k). Qed.

Lemma dedup_from_sorted (prev : str) (l : list str) :
  LocallySorted str_le (prev :: l) -> sorted (prev :: dedup_from prev l).
Proof.
  revert prev; induction l as [|y r IH]; intros prev Hs; simpl.
  - constructor.
  - inversion Hs as [| |a b l' Hrest Hab]; subst.
    destruct (str_eqb prev y) eqn:E.
    + apply c20_str_eqb_eq in E. subst y. apply IH. exact Hrest.
    + constructor; [apply IH; exact Hrest|].
      unfold str_lt. unfold str_le in Hab.
      destruct (str_ltb prev y) eqn:E2; [reflexivity|].
      pose proof (c20_str_ltb_total _ _ E2 Hab) as Heq. subst y.
      assert (Ht : str_eqb prev prev = true) by (apply c20_str_eqb_eq; reflexivity). congruence.
Qed.

Lemma dedup_sorted (l : list str) : LocallySorted str_le l -> sorted (dedup l).
Proof.
  destruct l as [|x r]; simpl; intros Hs; [constructor|]. apply dedup_from_sorted. exact Hs.
Qed.

Lemma sort_dedup_in (l : list str) (k : str) : In k (sort_dedup l) <-> In k l.
Proof. unfold sort_dedup. rewrite dedup_in, sort_strs_in. tauto. Qed.

Lemma sort_dedup_sorted (l : list str) : sorted (sort_dedup l).
Proof. unfold sort_dedup. apply dedup_sorted. apply sort_strs_sorted. Qed.

Lemma sorted_nodup (l : list str) : sorted l -> NoDup l.
Proof.
  intros Hs. unfold sorted in Hs.
  apply Sorted_LocallySorted_iff in Hs.
  apply Sorted_StronglySorted in Hs.
  - induction Hs as [|a l Hs IH Hall]; constructor; [|exact IH].
    intros Hin. rewrite Forall_forall in Hall. specialize (Hall _ Hin).
    unfold str_lt in Hall. rewrite c20_str_ltb_irrefl in Hall. discriminate.
  - intros a b c Hab Hbc. eapply c20_str_ltb_trans; eauto.
Qed.

Theorem C20_root_fields_sorted_nodup : forall t, sorted (root_fields t).
Proof. intros t. apply sort_dedup_sorted. Qed.

Corollary C20_root_fields_nodup : forall t, NoDup (root_fields t).
Proof. intros t. apply sorted_nodup. apply C20_root_fields_sorted_nodup. Qed.

(** membership is reduced once to the raw list *)
Lemma root_fields_in (t : top) (k : str) : In k (root_fields t) <-> In k (rf_top t).
Proof. unfold root_fields, root_fields_node. rewrite sort_dedup_in. simpl. tauto. Qed.

(** * (b) non-interference *)

(** the two root documents answer alike for every listed key *)
Definition agree (L : list str) (d d' : gv) : Prop :=
  forall k, In k L -> do_ident k d = do_ident k d'.

Definition key_first (ops : list pathop) : bool :=
  match ops with PIdent _ _ _ :: _ => true | _ => false end.

(** [top] = the node is evaluated with the root document as its current value
    (the whole query, and the operands of groups at the top of the query).
    A path that starts from the root document — a `$` path anywhere, an `@`
    path where [top] holds — must begin with a key and carry IsFilter = false
    (a `$` path with IsFilter = true is rejected by the evaluator before it
    reads anything).  `@` paths evaluated on an element are unconstrained. *)
Fixpoint bwk_path (top : bool) (p : path) : bool :=
  match p with
  | Path _ root isf _ ops _ =>
    (if root || top then (root && isf) || (negb isf && key_first ops) else true)
    && forallb bwk_pathop ops
  end
with bwk_pathop (o : pathop) : bool :=
  match o with
  | PIdent _ _ _ => true
  | PFilter l _ => bwk_logop false l
  | PFunc f => bwk_func f
  end
with bwk_func (f : func) : bool :=
  match f with Func _ _ ps _ => forallb bwk_param ps end
with bwk_param (a : param) : bool :=
  match a with
  | FPPath q => bwk_path false q
  | FPLog l => bwk_logop false l
  | FPNum _ | FPStr _ | FPBool _ => true
  end
with bwk_logop (top : bool) (l : logop) : bool :=
  match l with LogOp _ _ _ xs _ => forallb (fun x => bwk_operand top x) xs end
with bwk_operand (top : bool) (x : operand) : bool :=
  match x with OpP p => bwk_path top p | OpL l => bwk_logop top l end.

Definition begins_with_key (t : top) : Prop :=
  match t with TopP p => bwk_path true p = true | TopL l => bwk_logop true l = true end.

(** ** the list-walking helpers depend on the evaluator pointwise *)

Lemma path_ops_ext (ev ev' : pathop -> gv -> outcome gv) :
  forall ops, (forall o, In o ops -> forall d, ev o d = ev' o d) ->
  forall prev pn data le, path_ops ev prev pn ops data le = path_ops ev' prev pn ops data le.
Proof.
  induction ops as [|op rest IH]; intros Hext prev pn data le; simpl; [reflexivity|].
  rewrite <- (Hext op (or_introl eq_refl) data).
  assert (Hrest : forall o, In o rest -> forall d, ev o d = ev' o d) by (intros o Ho; apply Hext; right; exact Ho).
  specialize (IH Hrest).
  destruct (match prev with Some p => pn && negb (pathop_qmark p) && negb (pathop_is_func op) | None => false end); [reflexivity|].
  destruct (ev op data) as [v|e|m| |w]; try reflexivity.
  - apply IH.
  - destruct e; [|reflexivity]. destruct (pathop_qmark op); [apply IH|reflexivity].
Qed.

Lemma path_ops_first (ev ev' : pathop -> gv -> outcome gv) op rest d d' :
  ev op d = ev' op d' ->
  (forall o, In o rest -> forall x, ev o x = ev' o x) ->
  path_ops ev None false (op :: rest) d None = path_ops ev' None false (op :: rest) d' None.
Proof.
  intros Hop Hrest. simpl. rewrite <- Hop.
  destruct (ev op d) as [v|e|m| |w]; try reflexivity.
  - apply path_ops_ext. exact Hrest.
  - destruct e; [|reflexivity]. destruct (pathop_qmark op); [apply path_ops_ext; exact Hrest|reflexivity].
Qed.

Lemma log_ops_ext (ev ev' : operand -> outcome gv) t :
  forall xs, (forall x, In x xs -> ev x = ev' x) -> log_ops ev t xs = log_ops ev' t xs.
Proof.
  induction xs as [|x rest IH]; intros Hext; simpl; [reflexivity|].
  rewrite <- (Hext x (or_introl eq_refl)).
  assert (Hrest : forall y, In y rest -> ev y = ev' y) by (intros y Hy; apply Hext; right; exact Hy).
  rewrite (IH Hrest). reflexivity.
Qed.

Lemma filter_elems_ext (ev ev' : gv -> outcome gv) :
  (forall x, ev x = ev' x) -> forall xs, filter_elems ev xs = filter_elems ev' xs.
Proof.
  intros Hext xs; induction xs as [|x rest IH]; simpl; [reflexivity|].
  rewrite <- Hext, IH. reflexivity.
Qed.

Lemma eval_params_ext (ev ev' : node -> outcome gv) :
  forall ps, (forall p, In p ps -> param_here ev p = param_here ev' p) ->
  eval_params ev ps = eval_params ev' ps.
Proof.
  induction ps as [|p rest IH]; intros Hext; [reflexivity|].
  rewrite !eval_params_unfold.
  rewrite <- (Hext p (or_introl eq_refl)).
  assert (Hrest : forall q, In q rest -> param_here ev q = param_here ev' q) by (intros q Hq; apply Hext; right; exact Hq).
  rewrite (IH Hrest). reflexivity.
Qed.

(** ** what each node of the evaluator contributes, and its premise *)

Definition rfn (n : node) : list str :=
  match n with
  | NPath p => rf_path p
  | NOp o => rf_pathop o
  | NFunc f => rf_func f
  | NLog l => rf_logop l
  | NTop t => rf_top t
  end.

Definition bwk_node (top : bool) (n : node) : bool :=
  match n with
  | NPath p => bwk_path top p
  | NOp o => bwk_pathop o
  | NFunc f => bwk_func f
  | NLog l => bwk_logop top l
  | NTop (TopP p) => bwk_path top p
  | NTop (TopL l) => bwk_logop top l
  end.

(** the nodes that can be evaluated with the root document as current value *)
Definition top_node (n : node) : bool :=
  match n with NPath _ | NLog _ | NTop _ => true | NOp _ | NFunc _ => false end.

Lemma incl_flat_map_elem {A} (f : A -> list str) (xs : list A) (L : list str) (x : A) :
  incl (flat_map f xs) L -> In x xs -> incl (f x) L.
Proof. intros Hi Hx k Hk. apply Hi. apply in_flat_map. exists x. split; assumption. Qed.

Section Sound.
Variable uni : uclass.
Variable eng : engines.
Variable L : list str.

(** the invariant at one fuel: with the same current value, two root documents
    that agree on L are not told apart by a node whose root fields are in L *)
Definition inv_eq (k : nat) : Prop :=
  forall n cur orig orig',
    agree L orig orig' -> incl (rfn n) L -> bwk_node false n = true ->
    eval uni eng k n cur orig = eval uni eng k n cur orig'.

(** ... and where `@` denotes the root document itself *)
Definition inv_top (k : nat) : Prop :=
  forall n orig orig',
    agree L orig orig' -> incl (rfn n) L -> bwk_node true n = true -> top_node n = true ->
    eval uni eng k n orig orig = eval uni eng k n orig' orig'.

Lemma path_step k (top : bool) inv root isf me ops us cur cur' orig orig' :
  inv_eq k ->
  agree L orig orig' ->
  incl (rf_path (Path inv root isf me ops us)) L ->
  bwk_path top (Path inv root isf me ops us) = true ->
  (top = true -> cur = orig /\ cur' = orig') ->
  (top = false -> cur = cur') ->
  eval uni eng (S k) (NPath (Path inv root isf me ops us)) cur orig
  = eval uni eng (S k) (NPath (Path inv root isf me ops us)) cur' orig'.
Proof.
  intros IHk Hag Hincl Hb Htop Heq.
  cbn [eval]. destruct (root && isf) eqn:Eri; [reflexivity|].
  cbn [bwk_path] in Hb. rewrite Eri in Hb. cbn [orb] in Hb.
  apply andb_true_iff in Hb. destruct Hb as [Hhead Hall].
  rewrite forallb_forall in Hall.
  cbn [rf_path] in Hincl.
  assert (Hext : forall o, In o ops -> forall x, eval uni eng k (NOp o) x orig = eval uni eng k (NOp o) x orig').
  { intros o Ho x. apply IHk; [exact Hag| |cbn [bwk_node]; apply Hall; exact Ho].
    cbn [rfn]. apply incl_flat_map_elem with (xs := ops); [|exact Ho].
    intros s Hs. apply Hincl. apply in_or_app. left. exact Hs. }
  destruct (root || top) eqn:Ert.
  - apply andb_true_iff in Hhead. destruct Hhead as [Hisf Hkf].
    apply negb_true_iff in Hisf. subst isf.
    destruct ops as [|[name q u|l u|f] rest]; try discriminate.
    assert (Hname : In name L).
    { apply Hincl. apply in_or_app. right. cbn [first_ident]. simpl. left. reflexivity. }
    assert (Hd : (if root then orig else cur) = orig /\ (if root then orig' else cur') = orig').
    { destruct root; [split; reflexivity|]. cbn [orb] in Ert. destruct (Htop Ert) as [-> ->]. split; reflexivity. }
    destruct Hd as [-> ->].
    apply path_ops_first.
    + destruct k as [|k']; [reflexivity|]. cbn [eval]. apply Hag. exact Hname.
    + intros o Ho x. apply Hext. right. exact Ho.
  - apply orb_false_iff in Ert. destruct Ert as [-> ->].
    rewrite <- (Heq eq_refl).
    apply path_ops_ext. exact Hext.
Qed.

Lemma log_step k (top : bool) inv isf t xs us cur cur' orig orig' :
  (forall x, In x xs ->
     match x with
     | OpP p => eval uni eng k (NPath p) cur orig = eval uni eng k (NPath p) cur' orig'
     | OpL l => eval uni eng k (NLog l) cur orig = eval uni eng k (NLog l) cur' orig'
     end) ->
  eval uni eng (S k) (NLog (LogOp inv isf t xs us)) cur orig
  = eval uni eng (S k) (NLog (LogOp inv isf t xs us)) cur' orig'.
Proof.
  intros H. cbn [eval]. apply log_ops_ext. intros x Hx. specialize (H x Hx). destruct x; exact H.
Qed.

Lemma inv_both : forall k, inv_eq k /\ inv_top k.
Proof.
  induction k as [|k [IHe IHt]]; [split; intros n; reflexivity|].
  split.
  - (* same current value *)
    intros n cur orig orig' Hag Hincl Hb.
    destruct n as [p|o|f|l|t].
    + destruct p as [inv root isf me ops us].
      apply (path_step k false); auto. discriminate.
    + destruct o as [name q us|l us|f].
      * reflexivity.
      * cbn [eval].
        assert (Hl : forall x, eval uni eng k (NLog l) x orig = eval uni eng k (NLog l) x orig').
        { intros x. apply IHe; [exact Hag| |exact Hb].
          destruct l as [inv isf t xs u]. exact Hincl. }
        destruct (get_as_struct_or_slice cur) as [[val [|]]|]; [| |reflexivity].
        -- rewrite Hl. reflexivity.
        -- destruct val; try reflexivity.
           rewrite (filter_elems_ext _ _ Hl). reflexivity.
      * cbn [eval]. apply IHe; assumption.
    + destruct f as [inv ft ps us]. cbn [eval].
      cbn [rfn rf_func] in Hincl. cbn [bwk_node bwk_func] in Hb. rewrite forallb_forall in Hb.
      assert (Hps : eval_params (fun m => eval uni eng k m cur orig) ps
                    = eval_params (fun m => eval uni eng k m cur orig') ps).
      { apply eval_params_ext. intros p Hp.
        pose proof (incl_flat_map_elem _ _ _ _ Hincl Hp) as Hip.
        specialize (Hb p Hp).
        destruct p as [d|s|b|q|l]; try reflexivity; unfold param_here.
        - rewrite (IHe (NPath q) cur orig orig' Hag Hip Hb). reflexivity.
        - rewrite (IHe (NLog l) cur orig orig' Hag Hip Hb). reflexivity. }
      rewrite Hps. reflexivity.
    + destruct l as [inv isf t xs us].
      apply (log_step k false).
      cbn [rfn rf_logop] in Hincl. cbn [bwk_node bwk_logop] in Hb. rewrite forallb_forall in Hb.
      intros x Hx.
      pose proof (incl_flat_map_elem _ _ _ _ Hincl Hx) as Hix. specialize (Hb x Hx).
      destruct x as [p|l]; apply IHe; assumption.
    + destruct t as [p|l]; cbn [eval]; apply IHe; assumption.
  - (* the current value is the root document *)
    intros n orig orig' Hag Hincl Hb Htn.
    destruct n as [p|o|f|l|t]; try discriminate.
    + destruct p as [inv root isf me ops us].
      apply (path_step k true); auto. discriminate.
    + destruct l as [inv isf t xs us].
      apply (log_step k true).
      cbn [rfn rf_logop] in Hincl. cbn [bwk_node bwk_logop] in Hb. rewrite forallb_forall in Hb.
      intros x Hx.
      pose proof (incl_flat_map_elem _ _ _ _ Hincl Hx) as Hix. specialize (Hb x Hx).
      destruct x as [p|l]; apply IHt; auto.
    + destruct t as [p|l]; cbn [eval]; apply IHt; auto.
Qed.

End Sound.

Theorem C20_root_fields_sound : forall uni eng fuel t d d',
  begins_with_key t -> agree (root_fields t) d d' ->
  eval uni eng fuel (NTop t) d d = eval uni eng fuel (NTop t) d' d'.
Proof.
  intros uni eng fuel t d d' Hb Hag.
  destruct (inv_both uni eng (rf_top t) fuel) as [_ Ht].
  apply Ht.
  - intros k Hk. apply Hag. apply root_fields_in. exact Hk.
  - cbn [rfn]. apply incl_refl.
  - destruct t; exact Hb.
  - reflexivity.
Qed.
