(* C14b.v — function typing along CHAINS of calls: `$.k1.….km.F1(a1).F2(a2)…Fn(an)`.

   Proofs/C14.v treats one call.  Here the per-call theorems are composed:

   Part 1  opPath.Validate on a chain of calls: each call is validated at the
           SAME cue path (that of the last key) with the previous call's
           reported type as its receiver type
   Part 2  C14b_chain_reported_type: what CueValidate reports for the whole
           path ([chain_types]) and when it accepts it ([chain_accepts]), by
           C14_reported_type / C14_accepts_iff at every step
   Part 3  the invariant of evaluation: the value handed to call i+1 has the
           type reported for call i ([chain_run_sound])
   Part 4  evaluation of the path is the chain of run_func calls
   Part 5  C14b_chain_sound (end to end) and its CueValidate-level corollary
   Part 6  examples through the real parser; the repaired finding F31; the refutations

   The class covered by the soundness theorem: a key path followed by n >= 1
   calls of table functions other than Select, with literal arguments that match
   the descriptors in number and kind (First / Last / Index in any position,
   see [reported_agrees]).  See [chain_side] for the side conditions on the
   intermediate values. *)
From Coq Require Import String List ZArith Lia Bool.
From Mpath.Model Require Import Base Dec Types GoVal Ast Lexer Parser Funcs Cue Validate Eval.
From Mpath.Generated Require Import FuncTable.
From Mpath.Proofs Require Import NoPanic.
From Mpath.Spec Require Import Walk.
From Mpath.Proofs Require Import C13 C14.
Import ListNotations.

(* ------------------------------------------------------------------ *)
(** * Part 1: opPath.Validate on a chain of calls                       *)
(* ------------------------------------------------------------------ *)

(** `$.k1.….km.F1(…).….Fn(…)` as ParseString builds it ([C14b_parser_shapes]) *)
Definition chain_path (ks : list str) (fs : list func) (us : str) : top :=
  TopP (Path false true false false (idents ks ++ map PFunc fs) us).

Section Loop.
Variable tbl : list fdesc.
Variable root : cty.
Variable bl : list str.

(** the calls of a chain are validated one after the other at the same cue path;
    the receiver type of a call is the ReturnType() of the part before it *)
Fixpoint funcs_has (cue : list str) (prev : vty) (fs : list func) : bool :=
  match fs with
  | [] => false
  | f :: rest =>
    let c := validate_func tbl root bl f cue prev in
    part_has (call_part c) || funcs_has cue (call_type c) rest
  end.

Fixpoint funcs_type (cue : list str) (prev : vty) (fs : list func) : vty :=
  match fs with
  | [] => prev
  | f :: rest => funcs_type cue (call_type (validate_func tbl root bl f cue prev)) rest
  end.

(** opFunction.Validate never returns a non-nil `err`: listing the fields of a
    struct-kinded value cannot fail (C14.fields_never_fail), so
    shouldErrorRemaining stays false along a chain *)
Lemma validate_func_goerr f cue prev : snd (validate_func tbl root bl f cue prev) = false.
Proof.
  destruct f as [invalid ft ps us]. rewrite validate_func_unfold.
  destruct (find_value_at_path root cue) as [v|]; [|reflexivity].
  destruct (find_fdesc_key ft tbl) as [fd|]; [|reflexivity].
  unfold func_result. cbv zeta. cbn [snd].
  destruct (ckind_eqb (underlying_kind v) KStruct) eqn:Ek.
  - rewrite (fields_never_fail bl v Ek). apply andb_false_r.
  - rewrite andb_false_r. reflexivity.
Qed.

Lemma path_loop_funcs fs : forall s p,
  st_should_err s = false -> st_part s = Some p ->
  (exists ps q, st_parts s = ps ++ [q] /\ pt_type q = pt_type p) ->
  let r := path_loop tbl root bl (map PFunc fs) s in
  pr_error r = st_error s /\
  existsb part_has (pr_parts r) = existsb part_has (st_parts s) || funcs_has (st_cue s) (pt_type p) fs /\
  pr_type r = funcs_type (st_cue s) (pt_type p) fs.
Proof.
  induction fs as [|f fs IH]; intros s p Hs Hp Hlast.
  - cbn [map path_loop funcs_has funcs_type]. unfold finish. cbn [pr_error pr_parts pr_type].
    split; [reflexivity|]. split; [rewrite orb_false_r; reflexivity|].
    destruct Hlast as [ps [q [E Hq]]]. rewrite E, last_app. exact Hq.
  - cbn [map path_loop step_op]. rewrite Hs, Hp.
    pose proof (validate_func_goerr f (st_cue s) (pt_type p)) as Hgo.
    pose proof (call_part_type tbl root bl f (st_cue s) (pt_type p)) as Hct.
    cbn [funcs_has funcs_type]. unfold call_part, call_type in *.
    destruct (validate_func tbl root bl f (st_cue s) (pt_type p)) as [[[fp ty] known] goerr].
    cbn [fst snd] in *. subst goerr.
    match goal with |- context [path_loop tbl root bl (map PFunc fs) ?s1] => set (s' := s1) end.
    destruct (IH s' fp eq_refl eq_refl) as [I1 [I2 I3]].
    { exists (st_parts s), fp. split; reflexivity. }
    cbv zeta. rewrite I1, I2, I3. subst s'. cbn [st_error st_parts st_cue]. unfold add_part.
    rewrite existsb_app. cbn [existsb]. rewrite orb_false_r, Hct, orb_assoc. auto.
Qed.

End Loop.

(** what CueValidate answers for a chain on an accepted key path *)
Lemma chain_through_cue tbl schema bl k ks fs us prev :
  wf_schema schema = true -> str_mem k bl = false ->
  walk schema (k :: ks) = Accept prev ->
  exists v, find_value_at_path schema (k :: ks) = Some v /\ kind_of v = prev /\ wf v = true /\
    let r := validate_top_gen tbl schema bl (chain_path (k :: ks) fs us) in
    v_err r = false /\
    v_has_errors r = funcs_has tbl schema bl (k :: ks) (Some prev) fs /\
    v_type r = funcs_type tbl schema bl (k :: ks) (Some prev) fs.
Proof.
  intros Hwf Hb Hw.
  destruct schema as [ | | | | | | | | | o fields]; try discriminate. cbn [wf_schema] in Hwf.
  destruct (keys_loop_init_accept (CStruct o fields) bl true o fields k ks prev eq_refl Hwf Hb Hw)
    as [s' [cur [E1 [E2 [E3 E4]]]]].
  exists cur. destruct E2 as [av_error0 av_clean0 av_last0 av_part0 av_should0 av_unknown0 av_found0 av_cue0 av_ret0 av_wf0].
  rewrite E4 in av_cue0.
  split; [exact av_cue0|]. split; [exact E3|]. split; [exact av_wf0|].
  cbv zeta. unfold validate_top_gen, validate_top_with, chain_path. rewrite validate_path_unfold.
  cbn [available_fields incomplete_kind].
  rewrite (path_loop_keys_then tbl (CStruct o fields) bl (idents (k :: ks)) (map PFunc fs) (k :: ks) _ (op_keys_idents (k :: ks))).
  rewrite E1. cbn [fst snd].
  destruct av_part0 as [p [Hp Hpt]].
  assert (Hlast : exists ps q, st_parts s' = ps ++ [q] /\ pt_type q = pt_type p).
  { destruct av_last0 as [ps [q [Hq Hqt]]]. exists ps, q. split; [exact Hq|]. congruence. }
  destruct (path_loop_funcs tbl (CStruct o fields) bl fs s' p av_should0 Hp Hlast) as [R1 [R2 R3]].
  cbn [v_err v_has_errors v_type]. unfold path_has.
  rewrite R1, R2, R3, av_error0, (clean_parts_has _ av_clean0), Hpt, av_ret0, E3, E4. cbn. auto.
Qed.

(* ------------------------------------------------------------------ *)
(** * Part 2: the reported type and the verdict of a chain              *)
(* ------------------------------------------------------------------ *)

(** the type reported after the calls [fs], starting from a value typed [prev]:
    call i reports [reported d_i v prev_i], where [v] is the schema value at the
    key path (NOT advanced by the calls), prev_1 the type of that value and
    prev_(i+1) the type reported by call i; an unknown function reports no type *)
Fixpoint chain_types (tbl : list fdesc) (v : cty) (prev : vty) (fs : list func) : vty :=
  match fs with
  | [] => prev
  | Func _ ft _ _ :: rest =>
    chain_types tbl v (match find_fdesc_key ft tbl with
                       | Some d => Some (reported d v prev)
                       | None => None
                       end) rest
  end.

(** every call is known, is given no more arguments than its descriptor declares,
    and the descriptor's ValidOn admits the type reported before it *)
Fixpoint chain_accepts (tbl : list fdesc) (v : cty) (prev : ioty) (fs : list func) : bool :=
  match fs with
  | [] => true
  | Func _ ft ps _ :: rest =>
    match find_fdesc_key ft tbl with
    | Some d => arity_ok (fd_params d) (length ps) && admits (fd_on d) prev
                && chain_accepts tbl v (reported d v (Some prev)) rest
    | None => false
    end
  end.

(** the hypotheses of C14_accepts_iff at every call of the accepted prefix: a
    function name the parser flagged is unknown; the arguments validate without
    error and fit the descriptor as far as opFunction.Validate looks ([conform]);
    the receiver is not in the gap the property leaves unspecified *)
Fixpoint chain_wellposed (tbl : list fdesc) (root : cty) (bl : list str) (cue : list str)
                         (v : cty) (prev : ioty) (fs : list func) : Prop :=
  match fs with
  | [] => True
  | Func invalid ft ps _ :: rest =>
    (invalid = true -> find_fdesc_key ft tbl = None) /\
    (exists ats, arg_types tbl root bl cue ps = Some ats /\
       forall d, find_fdesc_key ft tbl = Some d ->
         conform (fd_params d) ats = true /\
         any_single_array_gap (fd_on d) prev = false /\ typed_variadic (fd_on d) = false) /\
    (forall d, find_fdesc_key ft tbl = Some d -> admits (fd_on d) prev = true ->
       chain_wellposed tbl root bl cue v (reported d v (Some prev)) rest)
  end.

Lemma arg_types_length tbl root bl cue ps : forall ats,
  arg_types tbl root bl cue ps = Some ats -> length ats = length ps.
Proof.
  induction ps as [|p ps IH]; intros ats H.
  - injection H as <-. reflexivity.
  - cbn [arg_types] in H. destruct (arg_ok tbl root bl cue p); [|discriminate].
    destruct (arg_types tbl root bl cue ps) as [ts|]; [|discriminate].
    injection H as <-. cbn [length]. rewrite (IH ts eq_refl). reflexivity.
Qed.

(** literal arguments always validate; their types *)
Definition lit_vty (p : param) : option vty :=
  match p with
  | FPNum _ => Some (Some (PT_Number, IO_Single))
  | FPStr _ => Some (Some (PT_String, IO_Single))
  | FPBool _ => Some (Some (PT_Boolean, IO_Single))
  | _ => None
  end.

Lemma arg_types_literals tbl root bl cue ps : forall ats,
  all_some (map lit_vty ps) = Some ats -> arg_types tbl root bl cue ps = Some ats.
Proof.
  induction ps as [|p ps IH]; intros ats H.
  - cbn in H. injection H as <-. reflexivity.
  - cbn [map all_some] in H. destruct (lit_vty p) as [t|] eqn:Ep; [|discriminate].
    destruct (all_some (map lit_vty ps)) as [ts|]; [|discriminate]. cbn in H. injection H as <-.
    cbn [arg_types]. rewrite (IH ts eq_refl).
    destruct p; try discriminate; cbn in Ep; injection Ep as <-; reflexivity.
Qed.

Section Spec.
Variable tbl : list fdesc.
Variable root : cty.
Variable bl : list str.
Variable cue : list str.
Variable v : cty.
Hypothesis Hv : find_value_at_path root cue = Some v.

Lemma funcs_type_spec fs : forall prev,
  funcs_type tbl root bl cue prev fs = chain_types tbl v prev fs.
Proof.
  induction fs as [|f fs IH]; intros prev; [reflexivity|].
  destruct f as [invalid ft ps us]. cbn [funcs_type chain_types]. rewrite IH. f_equal.
  destruct (find_fdesc_key ft tbl) as [d|] eqn:Ed.
  - apply (C14_reported_type tbl root bl invalid ft ps us cue prev v d Hv Ed).
  - rewrite validate_func_unfold, Hv, Ed. reflexivity.
Qed.

Lemma funcs_has_spec fs : forall prev,
  chain_wellposed tbl root bl cue v prev fs ->
  (funcs_has tbl root bl cue (Some prev) fs = false <-> chain_accepts tbl v prev fs = true).
Proof.
  induction fs as [|f fs IH]; intros prev Hwp; [cbn; tauto|].
  destruct f as [invalid ft ps us]. cbn [chain_wellposed] in Hwp.
  destruct Hwp as [Hinv [[ats [Hargs Hd]] Hrest]].
  cbn [funcs_has chain_accepts]. cbv zeta.
  pose proof (C14_accepts_iff tbl root bl invalid ft ps us cue prev v ats Hv Hinv Hargs Hd) as Hiff.
  rewrite (arg_types_length _ _ _ _ _ _ Hargs) in Hiff.
  rewrite orb_false_iff. split.
  - intros [H1 H2]. apply Hiff in H1. destruct H1 as [d [Ed [Har Had]]].
    rewrite Ed, Har, Had. cbn [andb].
    rewrite (C14_reported_type tbl root bl invalid ft ps us cue (Some prev) v d Hv Ed) in H2.
    apply (IH _ (Hrest d Ed Had)). exact H2.
  - destruct (find_fdesc_key ft tbl) as [d|] eqn:Ed; [|discriminate].
    intros H. apply andb_true_iff in H. destruct H as [H H3].
    apply andb_true_iff in H. destruct H as [H1 H2].
    split.
    + apply Hiff. exists d. auto.
    + rewrite (C14_reported_type tbl root bl invalid ft ps us cue (Some prev) v d Hv Ed).
      apply (IH _ (Hrest d eq_refl H2)). exact H3.
Qed.
End Spec.

(** C14 (a) and (b) for a chain, at the level of CueValidate *)
Theorem C14b_chain_reported_type : forall tbl schema k ks fs us prev,
  wf_schema schema = true ->
  walk schema (k :: ks) = Accept prev ->
  exists v, find_value_at_path schema (k :: ks) = Some v /\ kind_of v = prev /\ wf v = true /\
    let r := validate_top_gen tbl schema [] (chain_path (k :: ks) fs us) in
    v_err r = false /\
    v_type r = chain_types tbl v (Some prev) fs /\
    (chain_wellposed tbl schema [] (k :: ks) v prev fs ->
     (v_has_errors r = false <-> chain_accepts tbl v prev fs = true)).
Proof.
  intros tbl schema k ks fs us prev Hwf Hw.
  destruct (chain_through_cue tbl schema [] k ks fs us prev Hwf eq_refl Hw) as [v [Hv [Hk [Hwfv [R1 [R2 R3]]]]]].
  exists v. split; [exact Hv|]. split; [exact Hk|]. split; [exact Hwfv|].
  cbv zeta. split; [exact R1|]. split.
  - rewrite R3. apply funcs_type_spec. exact Hv.
  - intros Hwp. rewrite R2. apply funcs_has_spec; assumption.
Qed.

(* ------------------------------------------------------------------ *)
(** * Part 3: the typing invariant of a chain of run_func calls          *)
(* ------------------------------------------------------------------ *)

(** a resolved call: the descriptor and the literal arguments as the functions
    receive them *)
Definition rcall := (fdesc * list rparam)%type.

(** opPath.Do on the calls: each result is the receiver of the next call (after
    convertToDecimalIfNumber); the first failure ends the evaluation *)
Fixpoint chain_run (eng : engines) (cs : list rcall) (g : gv) : outcome gv :=
  match cs with
  | [] => Ok g
  | c :: rest => do r <- run_func eng (fd_key (fst c)) (snd c) (convert_number g); chain_run eng rest r
  end.

(** the types reported along a chain of known functions *)
Fixpoint chain_rtype (v : cty) (prev : ioty) (ds : list fdesc) : ioty :=
  match ds with
  | [] => prev
  | d :: rest => chain_rtype v (reported d v (Some prev)) rest
  end.

Fixpoint chain_admits (v : cty) (prev : ioty) (ds : list fdesc) : bool :=
  match ds with
  | [] => true
  | d :: rest => admits (fd_on d) prev && chain_admits v (reported d v (Some prev)) rest
  end.

(** ** element-returning functions anywhere in the chain

    First, Last and Index (Returns Any Single) report the element type of the
    schema value at the cue path — which opPath.Validate does not advance over a
    call — only when that type is the type of the receiver as the previous part
    reported it (repair of finding F31; before it the element type was reported
    after another call as well, e.g. (String, Single) for `$.ls.AsArray().First()`,
    which returns the list).  So the type reported for such a call is the element
    type of its receiver or the weaker (Any, Single), in every position
    ([reported_agrees]), and the soundness theorem needs no restriction on where
    these functions occur ([C14b_asarray_first_repaired]). *)

(** ** side conditions on the values met along the run

    [recv_ok] is the no-panic condition of NoPanic.v (Index on a sequence, Left /
    Right / TrimLeft / TrimRight on a string, of fewer than 2^63 elements): it is
    asked of every receiver, since an engine oracle (AsJSON, Sprintf,
    ReplaceRegex) may return a string of any length in the model.

    [plain_strings] (no string reads as a number, finding F23) is needed for
    every receiver as well, because each receiver is number-converted before
    the function runs.  It follows from the typing invariant when the call that
    produced the value returns a Number, a Boolean or an Object ([auto_plain]).
    It does NOT follow for the result of a function that returns a String
    (AsJSON, Left, Right, TrimLeft, TrimRight, ReplaceAll, ReplaceRegex, Sprintf),
    Any (First, Last, Index, AsArray) or Object-Variadic (Parse…): `"12ab".Left(2)`
    is `"12"`, which the next call receives as the number 12
    ([C14b_numeral_intermediate_refuted]).  For those it is a hypothesis, asked
    only when a further call follows. *)
Definition auto_plain (ty : ioty) : bool :=
  match ty with
  | (PT_Number, IO_Single) | (PT_Boolean, IO_Single) | (PT_Object, IO_Single) => true
  | _ => false
  end.

Fixpoint chain_side (eng : engines) (cs : list rcall) (g : gv) : Prop :=
  match cs with
  | [] => True
  | c :: rest =>
    recv_ok (fd_key (fst c)) (convert_number g) = true /\
    match run_func eng (fd_key (fst c)) (snd c) (convert_number g) with
    | Ok r => (rest <> [] -> auto_plain (fd_ret (fst c)) = false -> plain_strings r) /\ chain_side eng rest r
    | _ => True
    end
  end.

(** a call of a table function other than Select whose arguments match the
    descriptor in number and kind *)
Definition call_ok (c : rcall) : Prop :=
  In (fst c) func_table /\ fd_key (fst c) <> "Select"%string /\ rconform (fd_params (fst c)) (snd c) = true.

Lemma sound_reported_plain ret prev : ioty_eqb ret AnyS = false -> sound_reported ret prev = ret.
Proof. destruct ret as [t i]. destruct t, i; cbn; intros H; try reflexivity; discriminate. Qed.

Lemma auto_plain_not_elem ty : auto_plain ty = true -> ioty_eqb ty AnyS = false.
Proof. destruct ty as [t i]. destruct t, i; cbn; intros H; try reflexivity; discriminate. Qed.

Lemma typed_plain r ty : auto_plain ty = true -> has_type r ty -> plain_strings r.
Proof.
  destruct ty as [t i]. destruct t, i; try discriminate; intros _ H; cbn in H.
  - destruct H as [b ->]. split; exact I.
  - destruct H as [[d ->]|[d ->]]; split; exact I.
  - destruct H as [n [kvs ->]]. split; exact I.
Qed.

(** the reported type [rty] against the type [sty] the value is known to have:
    the same, or the weaker (Any, Single) (a list of bytes, see
    C14_reported_type_bytes_refuted) *)
Definition agrees (rty sty : ioty) : Prop := rty = sty \/ (rty = AnyS /\ snd sty = IO_Single).

Lemma admits_agrees on rty sty : agrees rty sty -> admits on rty = true -> admits on sty = true.
Proof.
  intros [->|[-> Hs]]; [auto|].
  destruct sty as [t i]. cbn [snd] in Hs. subst i. destruct on as [ot oi].
  unfold admits, AnyS. cbn [fst snd].
  destruct ot, oi; cbn; intros H; try discriminate; reflexivity.
Qed.

Lemma has_type_agrees r rty sty : agrees rty sty -> has_type r sty -> has_type r rty.
Proof. intros [->|[-> _]]; [auto|]. intros _. exact I. Qed.

Lemma table_known d : In d func_table -> implb (fd_known d) (ptype_eqb (fst (fd_ret d)) PT_Any) = true.
Proof. intros Hin. pose proof func_table_known_any as Hk. rewrite forallb_forall in Hk. exact (Hk d Hin). Qed.

(** one call, on a value whose type agrees with the type reported before it *)
Lemma chain_step eng d args rty sty g :
  call_ok (d, args) -> agrees rty sty -> admits (fd_on d) rty = true ->
  has_type g sty -> plain_strings g -> recv_ok (fd_key d) (convert_number g) = true ->
  let o := run_func eng (fd_key d) args (convert_number g) in
  np o /\ typed_outcome o (sound_reported (fd_ret d) sty).
Proof.
  intros [Hin [Hsel Hrc]] Hag Hadm Hty Hpl Hrecv. cbn [fst snd] in *.
  apply (C14_type_sound d Hin Hsel eng sty args g (admits_agrees _ _ _ Hag Hadm) Hrc Hty Hpl Hrecv).
Qed.

Lemma next_plain d sty r :
  has_type r (sound_reported (fd_ret d) sty) ->
  (auto_plain (fd_ret d) = false -> plain_strings r) -> plain_strings r.
Proof.
  intros Hty Hside. destruct (auto_plain (fd_ret d)) eqn:Ea; [|auto].
  apply (typed_plain r (fd_ret d) Ea).
  rewrite (sound_reported_plain _ _ (auto_plain_not_elem _ Ea)) in Hty. exact Hty.
Qed.

(** the type a call reports, given a receiver type [rty] that agrees with the type
    [sty] its receiver has, agrees with the type evaluation was checked against *)
Lemma reported_agrees d v rty sty :
  implb (fd_known d) (ptype_eqb (fst (fd_ret d)) PT_Any) = true ->
  agrees rty sty -> agrees (reported d v (Some rty)) (sound_reported (fd_ret d) sty).
Proof.
  intros Hk Hag. destruct (ioty_eqb (fd_ret d) AnyS) eqn:Er.
  - apply ioty_eqb_eq in Er. unfold reported. rewrite Er. unfold agrees, AnyS.
    destruct Hag as [->|[-> Hs]].
    + destruct sty as [pt io].
      destruct (underlying_kind v), pt, io, (fd_known d); cbn;
        first [left; reflexivity | right; split; reflexivity].
    + destruct (underlying_kind v), (fd_known d); cbn; right; split; reflexivity.
  - left. rewrite (sound_reported_plain _ _ Er). apply C14_reported_type_plain; assumption.
Qed.

(** the invariant along the calls: the value has a type [sty] with which the
    reported type [rty] agrees *)
Lemma chain_tail_sound eng v : forall cs rty sty g,
  Forall call_ok cs ->
  agrees rty sty -> chain_admits v rty (map fst cs) = true ->
  has_type g sty -> (cs <> [] -> plain_strings g) -> chain_side eng cs g ->
  np (chain_run eng cs g) /\ typed_outcome (chain_run eng cs g) (chain_rtype v rty (map fst cs)).
Proof.
  induction cs as [|c rest IH]; intros rty sty g Hall Hag Hadm Hty Hpl Hside.
  - cbn. split; [exact I|]. apply (has_type_agrees g rty sty Hag Hty).
  - destruct c as [d args]. inversion Hall as [|c0 l0 Hok Hrest]; subst. cbn [fst snd] in *.
    cbn [map chain_admits fst] in Hadm. apply andb_true_iff in Hadm. destruct Hadm as [Hadm1 Hadm2].
    cbn [chain_side fst snd] in Hside. destruct Hside as [Hrecv Hside].
    assert (Hplg : plain_strings g) by (apply Hpl; discriminate).
    destruct (chain_step eng d args rty sty g Hok Hag Hadm1 Hty Hplg Hrecv) as [Hnp Hto].
    assert (Hag' : agrees (reported d v (Some rty)) (sound_reported (fd_ret d) sty)).
    { apply reported_agrees; [|exact Hag]. apply table_known. apply Hok. }
    cbn [map chain_rtype chain_run fst snd].
    destruct (run_func eng (fd_key d) args (convert_number g)) as [r|e|m| |w]; cbn [bind].
    + destruct Hside as [Hp Hside]. cbn [typed_outcome] in Hto.
      apply (IH (reported d v (Some rty)) (sound_reported (fd_ret d) sty) r Hrest Hag' Hadm2 Hto).
      * intros Hne. apply (next_plain d sty r Hto). apply Hp. exact Hne.
      * exact Hside.
    + split; [exact I|]. exact Hto.
    + destruct Hnp.
    + split; exact I.
    + split; exact I.
Qed.

(** the invariant, for the whole chain: the receiver of the first call conforms
    to the schema value [v] *)
Theorem chain_run_sound : forall eng v cs g,
  wf v = true -> cs <> [] ->
  Forall call_ok cs ->
  chain_admits v (kind_of v) (map fst cs) = true ->
  has_type g (kind_of v) -> plain_strings g -> chain_side eng cs g ->
  np (chain_run eng cs g) /\ typed_outcome (chain_run eng cs g) (chain_rtype v (kind_of v) (map fst cs)).
Proof.
  intros eng v cs g _ _ Hall Hadm Hty Hpl Hside.
  exact (chain_tail_sound eng v cs (kind_of v) (kind_of v) g Hall (or_introl eq_refl) Hadm Hty (fun _ => Hpl) Hside).
Qed.

(* ------------------------------------------------------------------ *)
(** * Part 4: evaluation of the path is the chain of run_func calls      *)
(* ------------------------------------------------------------------ *)

Definition lit_of (p : param) : option rparam :=
  match p with
  | FPNum d => Some (RNum d)
  | FPStr s => Some (RStr s)
  | FPBool b => Some (RBool b)
  | _ => None
  end.

(** a call of a table function other than Select with literal arguments *)
Definition call_of (f : func) : option rcall :=
  match f with
  | Func _ ft ps _ =>
    match find_fdesc_key ft func_table, all_some (map lit_of ps) with
    | Some d, Some args => if String.eqb (fd_key d) "Select" then None else Some (d, args)
    | _, _ => None
    end
  end.

Lemma call_of_spec inv ft ps us d args :
  call_of (Func inv ft ps us) = Some (d, args) ->
  find_fdesc_key ft func_table = Some d /\ all_some (map lit_of ps) = Some args /\
  String.eqb (fd_key d) "Select" = false.
Proof.
  unfold call_of. destruct (find_fdesc_key ft func_table) as [d'|]; [|discriminate].
  destruct (all_some (map lit_of ps)) as [args'|]; [|discriminate].
  destruct (String.eqb (fd_key d') "Select") eqn:E; [discriminate|].
  intros H. injection H as <- <-. auto.
Qed.

Lemma all_some_cons {A B} (f : A -> option B) x xs cs :
  all_some (map f (x :: xs)) = Some cs ->
  exists c cs', f x = Some c /\ all_some (map f xs) = Some cs' /\ cs = c :: cs'.
Proof.
  cbn [map all_some]. destruct (f x) as [c|]; [|discriminate].
  destruct (all_some (map f xs)) as [cs'|]; [|discriminate].
  cbn. intros H. injection H as <-. eauto.
Qed.

(** the value reached by stepping the keys from the document: opPathIdent.Do at
    every key (each value is number-converted unless it is a Go string), no
    intermediate value nil *)
Inductive key_walk : list str -> gv -> gv -> Prop :=
| kw_one k doc g : do_ident k doc = Ok g -> key_walk [k] doc g
| kw_cons k ks doc x g :
    do_ident k doc = Ok x -> is_nil x = false -> key_walk ks x g -> key_walk (k :: ks) doc g.

(** from the raw document: a key of a map document; and a JSON-like value of the
    schema's kind is still one, with no numeral string, after the conversion
    opPathIdent.Do applies (a float64 becomes a decimal) *)
Lemma key_walk_map k kt vt isnil kvs x :
  map_lookup_fold k kvs = Some x -> key_walk [k] (VMap kt vt isnil kvs) (convert_unless_string x).
Proof. intros H. apply kw_one. unfold do_ident. cbn. rewrite H. reflexivity. Qed.

Definition json_kind (ty : ioty) : bool :=
  match ty with
  | (PT_String, IO_Single) | (PT_Boolean, IO_Single) | (PT_Number, IO_Single) | (PT_Object, IO_Single)
  | (PT_String, IO_Array) | (PT_Boolean, IO_Array) | (PT_Number, IO_Array) | (PT_Object, IO_Array) => true
  | _ => false
  end.

Lemma conform_after_key x ty :
  json_kind ty = true -> has_type x ty -> plain_strings x ->
  has_type (convert_unless_string x) ty /\ plain_strings (convert_unless_string x).
Proof.
  destruct ty as [t i]. destruct t, i; try discriminate; intros _ H Hp; cbn in H;
    try (destruct H as [n [xs [-> Hall]]]; unfold convert_unless_string; cbn [is_go_string];
         rewrite convert_slice; split; [eexists _, _; split; [reflexivity|exact Hall]|exact Hp]).
  - destruct H as [s ->]. split; [eexists; reflexivity|exact Hp].
  - destruct H as [b ->]. unfold convert_unless_string. cbn [is_go_string]. rewrite convert_bool.
    split; [eexists; reflexivity|exact Hp].
  - destruct H as [[d ->]|[d ->]]; unfold convert_unless_string; cbn [is_go_string];
      [rewrite convert_dec|rewrite convert_float]; (split; [left; eexists; reflexivity|split; exact I]).
  - destruct H as [n [kvs ->]]. unfold convert_unless_string. cbn [is_go_string]. rewrite convert_map.
    split; [eexists _, _; reflexivity|exact Hp].
Qed.

Section Eval.
Variable uni : uclass.
Variable eng : engines.

Lemma eval_params_lits ev ps : forall args,
  all_some (map lit_of ps) = Some args -> eval_params ev ps = Ok args.
Proof.
  induction ps as [|p ps IH]; intros args H.
  - cbn in H. injection H as <-. reflexivity.
  - destruct (all_some_cons lit_of p ps args H) as [a [rest [Ha [Hr ->]]]].
    cbn [eval_params]. rewrite (IH rest Hr).
    destruct p; try discriminate; cbn in Ha; injection Ha as <-; reflexivity.
Qed.

Lemma eval_func_op k f cur doc d args :
  call_of f = Some (d, args) ->
  eval uni eng (S (S (S k))) (NOp (PFunc f)) cur doc = run_func eng (fd_key d) args (convert_number cur).
Proof.
  destruct f as [inv ft ps us]. intros H.
  destruct (call_of_spec inv ft ps us d args H) as [Hf [Ha Hs]].
  cbn [eval]. rewrite (eval_params_lits _ ps args Ha). cbn [bind]. rewrite Hf, Hs. reflexivity.
Qed.

Lemma path_ops_funcs k doc : forall fs cs prev pn g,
  all_some (map call_of fs) = Some cs ->
  path_ops (fun o d => eval uni eng (S (S (S k))) (NOp o) d doc) prev pn (map PFunc fs) g None
  = chain_run eng cs g.
Proof.
  induction fs as [|f fs IH]; intros cs prev pn g H.
  - cbn in H. injection H as <-. reflexivity.
  - destruct (all_some_cons call_of f fs cs H) as [[d args] [rest [Hc [Hr ->]]]].
    cbn [map path_ops pathop_is_func pathop_qmark negb].
    assert (Hb : match prev with
                 | Some p => pn && negb (pathop_qmark p) && false
                 | None => false
                 end = false) by (destruct prev; [apply andb_false_r|reflexivity]).
    rewrite Hb. rewrite (eval_func_op k f g doc d args Hc).
    cbn [chain_run fst snd].
    destruct (run_func eng (fd_key d) args (convert_number g)) as [r|[|t]|m| |w]; cbn [bind]; try reflexivity.
    apply IH. exact Hr.
Qed.

Lemma path_ops_keys ev ks : forall doc g,
  key_walk ks doc g ->
  (forall k d, ev (PIdent k false k) d = do_ident k d) ->
  forall prev rest, exists prev' pn',
    path_ops ev prev false (idents ks ++ rest) doc None = path_ops ev prev' pn' rest g None.
Proof.
  intros doc g Hw Hev. induction Hw as [k doc g Hd|k ks doc x g Hd Hn Hw IH]; intros prev rest.
  - cbn [idents map app path_ops pathop_qmark].
    assert (Hb : match prev with
                 | Some p => false && negb (pathop_qmark p) && negb (pathop_is_func (PIdent k false k))
                 | None => false
                 end = false) by (destruct prev; reflexivity).
    rewrite Hb, Hev, Hd. eauto.
  - change (idents (k :: ks) ++ rest) with (PIdent k false k :: (idents ks ++ rest)).
    cbn [path_ops pathop_qmark].
    assert (Hb : match prev with
                 | Some p => false && negb (pathop_qmark p) && negb (pathop_is_func (PIdent k false k))
                 | None => false
                 end = false) by (destruct prev; reflexivity).
    rewrite Hb, Hev, Hd, Hn. cbn [orb]. apply IH.
Qed.

Lemma key_walk_nonempty ks doc g : key_walk ks doc g -> ks <> [].
Proof. intros H. destruct H; discriminate. Qed.

(** the evaluation of `$.keys.F1(…)…Fn(…)` *)
Theorem eval_chain : forall k inv me ks fs us cs cur doc g,
  key_walk ks doc g -> all_some (map call_of fs) = Some cs ->
  eval uni eng (S (S (S (S k)))) (NPath (Path inv true false me (idents ks ++ map PFunc fs) us)) cur doc
  = chain_run eng cs g.
Proof.
  intros k inv me ks fs us cs cur doc g Hw Hcs.
  assert (Hne : idents ks ++ map PFunc fs <> []).
  { pose proof (key_walk_nonempty ks doc g Hw). destruct ks; [congruence|discriminate]. }
  assert (Hun : eval uni eng (S (S (S (S k)))) (NPath (Path inv true false me (idents ks ++ map PFunc fs) us)) cur doc
                = path_ops (fun o d => eval uni eng (S (S (S k))) (NOp o) d doc) None false
                           (idents ks ++ map PFunc fs) doc None).
  { destruct (idents ks ++ map PFunc fs); [congruence|reflexivity]. }
  rewrite Hun.
  destruct (path_ops_keys (fun o d => eval uni eng (S (S (S k))) (NOp o) d doc) ks doc g Hw
              (fun k' d => eq_refl) None (map PFunc fs)) as [prev' [pn' E]].
  rewrite E. apply path_ops_funcs. exact Hcs.
Qed.

Lemma eval_top_path k p cur orig :
  eval uni eng (S k) (NTop (TopP p)) cur orig = eval uni eng k (NPath p) cur orig.
Proof. reflexivity. Qed.

Corollary do_top_chain : forall ks fs us cs doc g,
  key_walk ks doc g -> all_some (map call_of fs) = Some cs ->
  do_top uni eng (chain_path ks fs us) doc = chain_run eng cs g.
Proof.
  intros ks fs us cs doc g Hw Hcs. unfold do_top, chain_path.
  change default_fuel with (S (S (S (S (S 4091%nat))))). generalize 4091%nat. intros n.
  rewrite eval_top_path. apply eval_chain; assumption.
Qed.

End Eval.

(* ------------------------------------------------------------------ *)
(** * Part 5: C14 (c) for a chain, end to end                            *)
(* ------------------------------------------------------------------ *)

(** the syntactic calls [fs] against their resolved form [cs] *)
Lemma resolved_chain v : forall fs cs prev,
  all_some (map call_of fs) = Some cs ->
  Forall (fun c : rcall => In (fst c) func_table /\ fd_key (fst c) <> "Select"%string) cs /\
  chain_types func_table v (Some prev) fs = Some (chain_rtype v prev (map fst cs)) /\
  (chain_accepts func_table v prev fs = true -> chain_admits v prev (map fst cs) = true).
Proof.
  induction fs as [|f fs IH]; intros cs prev H.
  - cbn in H. injection H as <-. cbn. auto.
  - destruct (all_some_cons call_of f fs cs H) as [[d args] [rest [Hc [Hr ->]]]].
    destruct f as [inv ft ps us]. destruct (call_of_spec inv ft ps us d args Hc) as [Hf [_ Hs]].
    destruct (IH rest (reported d v (Some prev)) Hr) as [I1 [I2 I3]].
    cbn [map fst chain_types chain_rtype chain_accepts chain_admits]. rewrite Hf.
    split; [|split].
    + constructor; [|exact I1]. cbn [fst]. split; [exact (find_fdesc_key_In _ _ _ Hf)|].
      intros E. rewrite E in Hs. discriminate.
    + exact I2.
    + intros Ha. apply andb_true_iff in Ha. destruct Ha as [Ha Ha3].
      apply andb_true_iff in Ha. destruct Ha as [_ Ha2]. rewrite Ha2, (I3 Ha3). reflexivity.
Qed.

Lemma calls_ok cs :
  Forall (fun c : rcall => In (fst c) func_table /\ fd_key (fst c) <> "Select"%string) cs ->
  forallb (fun c : rcall => rconform (fd_params (fst c)) (snd c)) cs = true ->
  Forall call_ok cs.
Proof.
  intros H1 H2. rewrite forallb_forall in H2. rewrite Forall_forall in *.
  intros c Hc. destruct (H1 c Hc) as [Hin Hsel]. split; [exact Hin|]. split; [exact Hsel|]. apply H2. exact Hc.
Qed.

(** C14 (c) for `$.k.….F1(a1)…Fn(an)`: n >= 1 calls of table functions other
    than Select, with literal arguments that match the descriptors in number and
    kind; every call is known,
    within its arity and admitted by ValidOn ([chain_accepts]); the value under
    the key path conforms to the schema value there.  Then CueValidate reports
    the type [chain_rtype] and the evaluation does not panic and returns a value
    of that type or an error that is not a wrong-type error. *)
Theorem C14b_chain_sound : forall uni eng schema k ks fs us cs prev v doc g,
  wf_schema schema = true ->
  walk schema (k :: ks) = Accept prev ->
  find_value_at_path schema (k :: ks) = Some v ->
  fs <> [] -> all_some (map call_of fs) = Some cs ->
  forallb (fun c : rcall => rconform (fd_params (fst c)) (snd c)) cs = true ->
  chain_accepts func_table v prev fs = true ->
  key_walk (k :: ks) doc g -> has_type g prev -> plain_strings g -> chain_side eng cs g ->
  let q := chain_path (k :: ks) fs us in
  let o := do_top uni eng q doc in
  let ty := chain_rtype v prev (map fst cs) in
  v_type (validate_top schema [] q) = Some ty /\ np o /\ typed_outcome o ty.
Proof.
  intros uni eng schema k ks fs us cs prev v doc g Hwf Hw Hv Hne Hcs Hrc Hacc Hkw Hty Hpl Hside q o ty.
  destruct (C14b_chain_reported_type func_table schema k ks fs us prev Hwf Hw)
    as [v' [Hv' [Hk [Hwfv [_ [Rt _]]]]]].
  rewrite Hv in Hv'. injection Hv' as <-.
  destruct (resolved_chain v fs cs prev Hcs) as [Hres [Htys Hadm]].
  split.
  - unfold validate_top. subst q ty. rewrite <- Htys. exact Rt.
  - subst o q ty. rewrite (do_top_chain uni eng (k :: ks) fs us cs doc g Hkw Hcs).
    rewrite <- Hk in *.
    apply chain_run_sound; try assumption.
    + intros E. subst cs. destruct fs; [congruence|]. cbn [map all_some] in Hcs.
      destruct (call_of f); [|discriminate]. destruct (all_some (map call_of fs)); discriminate.
    + apply calls_ok; assumption.
    + apply Hadm. exact Hacc.
Qed.

(** ** from the verdict of CueValidate *)

(** [chain_wellposed] for literal arguments over the generated table, as a
    boolean: the parser did not flag the name; the arguments fit the descriptor
    as far as opFunction.Validate looks; the receiver is not in the gap *)
Fixpoint lit_wellposed (v : cty) (prev : ioty) (fs : list func) : bool :=
  match fs with
  | [] => true
  | Func invalid ft ps _ :: rest =>
    negb invalid &&
    match find_fdesc_key ft func_table, all_some (map lit_vty ps) with
    | Some d, Some ats =>
      conform (fd_params d) ats && negb (any_single_array_gap (fd_on d) prev)
      && lit_wellposed v (reported d v (Some prev)) rest
    | _, _ => false
    end
  end.

Lemma lit_wellposed_sound root bl cue v : forall fs prev,
  lit_wellposed v prev fs = true -> chain_wellposed func_table root bl cue v prev fs.
Proof.
  induction fs as [|f fs IH]; intros prev H; [exact I|].
  destruct f as [invalid ft ps us]. cbn [lit_wellposed] in H.
  apply andb_true_iff in H. destruct H as [Hi H]. apply negb_true_iff in Hi. subst invalid.
  destruct (find_fdesc_key ft func_table) as [d|] eqn:Ed; [|discriminate].
  destruct (all_some (map lit_vty ps)) as [ats|] eqn:Ea; [|discriminate].
  apply andb_true_iff in H. destruct H as [H H3]. apply andb_true_iff in H. destruct H as [H1 H2].
  apply negb_true_iff in H2.
  cbn [chain_wellposed]. rewrite Ed. split; [discriminate|]. split.
  - exists ats. split; [apply arg_types_literals; exact Ea|].
    intros d' E. injection E as <-. split; [exact H1|]. split; [exact H2|].
    pose proof func_table_no_typed_variadic as Hn. rewrite forallb_forall in Hn.
    apply negb_true_iff. apply Hn. exact (find_fdesc_key_In _ _ _ Ed).
  - intros d' E _. injection E as <-. apply IH. exact H3.
Qed.

(** "whenever CueValidate accepts a chain whose arguments match the descriptors
    in number and kind …" *)
Theorem C14b_chain_sound_cue : forall uni eng schema k ks fs us cs prev v doc g,
  wf_schema schema = true ->
  walk schema (k :: ks) = Accept prev ->
  find_value_at_path schema (k :: ks) = Some v ->
  fs <> [] -> all_some (map call_of fs) = Some cs ->
  forallb (fun c : rcall => rconform (fd_params (fst c)) (snd c)) cs = true ->
  lit_wellposed v prev fs = true ->
  let q := chain_path (k :: ks) fs us in
  v_has_errors (validate_top schema [] q) = false ->
  key_walk (k :: ks) doc g -> has_type g prev -> plain_strings g -> chain_side eng cs g ->
  let o := do_top uni eng q doc in
  let ty := chain_rtype v prev (map fst cs) in
  v_type (validate_top schema [] q) = Some ty /\ np o /\ typed_outcome o ty.
Proof.
  intros uni eng schema k ks fs us cs prev v doc g Hwf Hw Hv Hne Hcs Hrc Hwp q Hacc Hkw Hty Hpl Hside o ty.
  assert (Ha : chain_accepts func_table v prev fs = true).
  { destruct (C14b_chain_reported_type func_table schema k ks fs us prev Hwf Hw)
      as [v' [Hv' [_ [_ [_ [_ Riff]]]]]].
    rewrite Hv in Hv'. injection Hv' as <-.
    apply Riff; [|exact Hacc]. apply lit_wellposed_sound. exact Hwp. }
  exact (C14b_chain_sound uni eng schema k ks fs us cs prev v doc g Hwf Hw Hv Hne Hcs Hrc Ha Hkw Hty Hpl Hside).
Qed.

(** ** chains that need no side condition on the intermediate values: no call
    is Index / Left / Right / TrimLeft / TrimRight and every call but the last
    returns a Number, a Boolean or an Object *)
Fixpoint side_free (cs : list rcall) : bool :=
  match cs with
  | [] => true
  | c :: rest =>
    negb (indexing_func (fd_key (fst c))) &&
    (match rest with [] => true | _ :: _ => auto_plain (fd_ret (fst c)) end) && side_free rest
  end.

Lemma side_free_side eng : forall cs g, side_free cs = true -> chain_side eng cs g.
Proof.
  induction cs as [|c rest IH]; intros g H; [exact I|].
  cbn [side_free] in H. apply andb_true_iff in H. destruct H as [H H3].
  apply andb_true_iff in H. destruct H as [H1 H2]. apply negb_true_iff in H1.
  cbn [chain_side]. split; [apply recv_ok_other; exact H1|].
  destruct (run_func eng (fd_key (fst c)) (snd c) (convert_number g)); try exact I.
  split; [|apply IH; exact H3].
  intros Hne Ha. destruct rest; [congruence|]. rewrite H2 in Ha. discriminate.
Qed.

Corollary C14b_chain_sound_side_free : forall uni eng schema k ks fs us cs prev v doc g,
  wf_schema schema = true ->
  walk schema (k :: ks) = Accept prev ->
  find_value_at_path schema (k :: ks) = Some v ->
  fs <> [] -> all_some (map call_of fs) = Some cs ->
  forallb (fun c : rcall => rconform (fd_params (fst c)) (snd c)) cs = true ->
  side_free cs = true ->
  chain_accepts func_table v prev fs = true ->
  key_walk (k :: ks) doc g -> has_type g prev -> plain_strings g ->
  let q := chain_path (k :: ks) fs us in
  let o := do_top uni eng q doc in
  let ty := chain_rtype v prev (map fst cs) in
  v_type (validate_top schema [] q) = Some ty /\ np o /\ typed_outcome o ty.
Proof.
  intros uni eng schema k ks fs us cs prev v doc g Hwf Hw Hv Hne Hcs Hrc Hsf Hacc Hkw Hty Hpl q o ty.
  exact (C14b_chain_sound uni eng schema k ks fs us cs prev v doc g Hwf Hw Hv Hne Hcs Hrc Hacc Hkw Hty Hpl
           (side_free_side eng cs g Hsf)).
Qed.

(** chains of two and of three calls, spelled out *)
Corollary C14b_chain2_sound : forall eng v d1 a1 d2 a2 g,
  wf v = true -> Forall call_ok [(d1, a1); (d2, a2)] ->
  let t0 := kind_of v in
  let t1 := reported d1 v (Some t0) in
  let t2 := reported d2 v (Some t1) in
  admits (fd_on d1) t0 = true -> admits (fd_on d2) t1 = true ->
  has_type g t0 -> plain_strings g -> chain_side eng [(d1, a1); (d2, a2)] g ->
  let o := do r1 <- run_func eng (fd_key d1) a1 (convert_number g);
           run_func eng (fd_key d2) a2 (convert_number r1) in
  np o /\ typed_outcome o t2.
Proof.
  intros eng v d1 a1 d2 a2 g Hwf Hall t0 t1 t2 H1 H2 Hty Hpl Hside o.
  assert (E : o = chain_run eng [(d1, a1); (d2, a2)] g).
  { subst o. cbn [chain_run fst snd].
    destruct (run_func eng (fd_key d1) a1 (convert_number g)); cbn [bind]; try reflexivity.
    destruct (run_func eng (fd_key d2) a2 (convert_number a)); reflexivity. }
  rewrite E. apply (chain_run_sound eng v [(d1, a1); (d2, a2)] g Hwf); try assumption.
  - discriminate.
  - subst t0 t1 t2. cbn [map fst chain_admits].
    apply andb_true_iff; split; [exact H1|]. apply andb_true_iff; split; [exact H2|reflexivity].
Qed.

Corollary C14b_chain3_sound : forall eng v d1 a1 d2 a2 d3 a3 g,
  wf v = true -> Forall call_ok [(d1, a1); (d2, a2); (d3, a3)] ->
  let t0 := kind_of v in
  let t1 := reported d1 v (Some t0) in
  let t2 := reported d2 v (Some t1) in
  let t3 := reported d3 v (Some t2) in
  admits (fd_on d1) t0 = true -> admits (fd_on d2) t1 = true -> admits (fd_on d3) t2 = true ->
  has_type g t0 -> plain_strings g -> chain_side eng [(d1, a1); (d2, a2); (d3, a3)] g ->
  let o := do r1 <- run_func eng (fd_key d1) a1 (convert_number g);
           do r2 <- run_func eng (fd_key d2) a2 (convert_number r1);
           run_func eng (fd_key d3) a3 (convert_number r2) in
  np o /\ typed_outcome o t3.
Proof.
  intros eng v d1 a1 d2 a2 d3 a3 g Hwf Hall t0 t1 t2 t3 H1 H2 H3 Hty Hpl Hside o.
  assert (E : o = chain_run eng [(d1, a1); (d2, a2); (d3, a3)] g).
  { subst o. cbn [chain_run fst snd].
    destruct (run_func eng (fd_key d1) a1 (convert_number g)); cbn [bind]; try reflexivity.
    destruct (run_func eng (fd_key d2) a2 (convert_number a)); cbn [bind]; try reflexivity.
    destruct (run_func eng (fd_key d3) a3 (convert_number a0)); reflexivity. }
  rewrite E. apply (chain_run_sound eng v [(d1, a1); (d2, a2); (d3, a3)] g Hwf); try assumption.
  - discriminate.
  - subst t0 t1 t2 t3. cbn [map fst chain_admits].
    apply andb_true_iff; split; [exact H1|]. apply andb_true_iff; split; [exact H2|].
    apply andb_true_iff; split; [exact H3|reflexivity].
Qed.

(* ------------------------------------------------------------------ *)
(** * Part 6: through the real parser; the refutations                   *)
(* ------------------------------------------------------------------ *)

(** {s: string, n: number, ls: [...string], ln: [...number]} *)
Definition ex_schema : cty :=
  CStruct false [(mkLabel (bs "s") FRegular, CStr); (mkLabel (bs "n") FRegular, CNumber);
                 (mkLabel (bs "ls") FRegular, CList true CStr); (mkLabel (bs "ln") FRegular, CList true CNumber)].

Definition jobj (kvs : list (string * gv)) : gv :=
  VMap KtStr EAny false (map (fun kv => (VStr false (bs (fst kv)), snd kv)) kvs).
Definition jnum (z : Z) : gv := VFloat false false (FFin (mkDec z 0)).   (* a JSON number *)
Definition jstr (s : string) : gv := VStr false (bs s).
Definition jarr (xs : list gv) : gv := VSlice EAny false xs.

(** {"s": "banana", "n": 3, "ls": ["x", "y"], "ln": [5, 7]} *)
Definition ex_doc : gv :=
  jobj [("s", jstr "banana"); ("n", jnum 3); ("ls", jarr [jstr "x"; jstr "y"]); ("ln", jarr [jnum 5; jnum 7])].

(** CueValidate(query, schema, "") and Do on the parsed query *)
Definition val (q : string) : option (outcome vres) :=
  match parse_string uni_ascii (bs q) with
  | Ok t => Some (cue_validate ex_schema [] t)
  | _ => None
  end.
Definition run (q : string) (doc : gv) : option (outcome gv) :=
  match parse_string uni_ascii (bs q) with
  | Ok t => Some (do_top uni_ascii no_engines t doc)
  | _ => None
  end.

Definition accepted (ty : ioty) : option (outcome vres) := Some (Ok (mkVres false false (Some ty) [])).

(** the parser produces exactly the shape the theorems are stated for *)
Example C14b_parser_shapes :
  parse_string uni_ascii (bs "$.s.Left(2).Contains(""a"")") =
    Ok (chain_path [bs "s"]
          [Func false (bs "Left") [FPNum (mkDec 2 0)] (bs "Left(2)");
           Func false (bs "Contains") [FPStr (bs "a")] (bs "Contains(""a"")")]
          (bs "$.s.Left(2).Contains(""a"")")) /\
  parse_string uni_ascii (bs "$.ln.First().Add(1).Greater(2)") =
    Ok (chain_path [bs "ln"]
          [Func false (bs "First") [] (bs "First()");
           Func false (bs "Add") [FPNum (mkDec 1 0)] (bs "Add(1)");
           Func false (bs "Greater") [FPNum (mkDec 2 0)] (bs "Greater(2)")]
          (bs "$.ln.First().Add(1).Greater(2)")).
Proof. split; vm_compute; reflexivity. Qed.

Example C14b_examples :
  (* accepted, with the reported type; evaluated on a conforming document *)
  val "$.s.Left(2).Contains(""a"")" = accepted BS /\
  run "$.s.Left(2).Contains(""a"")" ex_doc = Some (Ok (vbool true)) /\
  val "$.ln.First().Add(1).Greater(2)" = accepted BS /\
  run "$.ln.First().Add(1).Greater(2)" ex_doc = Some (Ok (vbool true)) /\
  val "$.ls.Count().Equal(0).Not()" = accepted BS /\
  run "$.ls.Count().Equal(0).Not()" ex_doc = Some (Ok (vbool true)) /\
  val "$.s.Contains(""a"").Not().Equal(true)" = accepted BS /\
  run "$.s.Contains(""a"").Not().Equal(true)" ex_doc = Some (Ok (vbool false)) /\
  (* intermediate types *)
  val "$.s.Left(2)" = accepted SS /\ run "$.s.Left(2)" ex_doc = Some (Ok (jstr "ba")) /\
  val "$.ln.First()" = accepted NS /\ run "$.ln.First()" ex_doc = Some (Ok (VDec (mkDec 5 0))) /\
  val "$.ln.First().Add(1)" = accepted NS /\ run "$.ln.First().Add(1)" ex_doc = Some (Ok (VDec (mkDec 6 0))) /\
  val "$.ls.Count()" = accepted NS /\ run "$.ls.Count()" ex_doc = Some (Ok (VDec (mkDec 2 0))) /\
  (* rejected at the second call: Sum is ValidOn (Number, Array), Left returns (String, Single);
     both receiver tests fail; the type reported is still Sum's Returns *)
  val "$.s.Left(2).Sum()" =
    Some (Ok (mkVres false true (Some NS) [EWrongReceiverType; EWrongReceiverType])).
Proof. repeat split; vm_compute; reflexivity. Qed.

(** the same through the theorems: [chain_accepts] computes the verdict *)
Example C14b_examples_by_theorem :
  let left2 := Func false (bs "Left") [FPNum (mkDec 2 0)] (bs "Left(2)") in
  let contains := Func false (bs "Contains") [FPStr (bs "a")] (bs "Contains(""a"")") in
  let sum := Func false (bs "Sum") [] (bs "Sum()") in
  chain_accepts func_table CStr SS [left2; contains] = true /\
  chain_types func_table CStr (Some SS) [left2; contains] = Some BS /\
  lit_wellposed CStr SS [left2; contains] = true /\
  chain_accepts func_table CStr SS [left2; sum] = false /\
  lit_wellposed CStr SS [left2; sum] = true.
Proof. vm_compute. repeat split. Qed.

(** C14b_chain_sound_cue instantiated: every hypothesis is discharged by
    computation on the query, the schema and the document *)
Example C14b_example_sound :
  forall t, parse_string uni_ascii (bs "$.ln.First().Add(1).Greater(2)") = Ok t ->
  v_type (validate_top ex_schema [] t) = Some BS /\
  np (do_top uni_ascii no_engines t ex_doc) /\
  typed_outcome (do_top uni_ascii no_engines t ex_doc) BS.
Proof.
  intros t Ht.
  assert (Hp : parse_string uni_ascii (bs "$.ln.First().Add(1).Greater(2)") =
    Ok (chain_path [bs "ln"]
          [Func false (bs "First") [] (bs "First()");
           Func false (bs "Add") [FPNum (mkDec 1 0)] (bs "Add(1)");
           Func false (bs "Greater") [FPNum (mkDec 2 0)] (bs "Greater(2)")]
          (bs "$.ln.First().Add(1).Greater(2)"))) by (vm_compute; reflexivity).
  rewrite Hp in Ht. injection Ht as <-.
  set (fs := [Func false (bs "First") [] (bs "First()");
              Func false (bs "Add") [FPNum (mkDec 1 0)] (bs "Add(1)");
              Func false (bs "Greater") [FPNum (mkDec 2 0)] (bs "Greater(2)")]).
  assert (Hne : fs <> []) by discriminate.
  destruct (all_some (map call_of fs)) as [cs|] eqn:Ecs; [|vm_compute in Ecs; discriminate].
  pose proof (C14b_chain_sound_cue uni_ascii no_engines ex_schema (bs "ln") [] fs (bs "$.ln.First().Add(1).Greater(2)")
                cs (PT_Number, IO_Array) (CList true CNumber) ex_doc (jarr [jnum 5; jnum 7])
                eq_refl eq_refl eq_refl Hne Ecs) as H.
  vm_compute in Ecs. injection Ecs as <-.
  apply H; clear H.
  - vm_compute. reflexivity.
  - vm_compute. reflexivity.
  - vm_compute. reflexivity.
  - apply kw_one. vm_compute. reflexivity.
  - eexists _, _. split; [reflexivity|].
    constructor; [right; eexists; reflexivity|]. constructor; [right; eexists; reflexivity|]. constructor.
  - split; [exact I|]. repeat constructor.
  - vm_compute. repeat split; intros; discriminate.
Qed.

(** ** The repaired finding F31, and the refutations that remain *)

(** REPAIRED (finding F31).  opPath.Validate does not advance the cue path over a
    call, so First (Last, Index) after AsArray used to refine its (Any, Single)
    by the element kind of the list under `$.ls`: it reported (String, Single)
    where evaluation returns the list itself (AsArray wraps its receiver in a
    one-element array); a string function was then accepted on it and failed at
    run time with a wrong-type error.  Since the repair the element type is
    reported only when it is the type of the receiver as the previous part
    reported it: after AsArray (Any, Array) the call reports (Any, Single), which
    is what it returns, and the string / number function after it is REJECTED
    (wrong receiver type) — rightly, since its evaluation fails. *)
Theorem C14b_asarray_first_repaired :
  (* the document conforms to the schema at `$.ls` *)
  has_type (jarr [jstr "x"; jstr "y"]) (PT_String, IO_Array) /\ plain_strings (jarr [jstr "x"; jstr "y"]) /\
  (* accepted, reported as (Any, Single) *)
  val "$.ls.AsArray().First()" = accepted AnyS /\
  val "$.ln.AsArray().Last()" = accepted AnyS /\
  (* a string / number function on that result is rejected; the type reported is still its Returns *)
  val "$.ls.AsArray().First().Left(1)" = Some (Ok (mkVres false true (Some SS) [EWrongReceiverType])) /\
  val "$.ln.AsArray().Last().Add(1)" = Some (Ok (mkVres false true (Some NS) [EWrongReceiverType])) /\
  (let fs2 := [Func false (bs "AsArray") [] (bs "AsArray()"); Func false (bs "First") [] (bs "First()")] in
   let fs3 := fs2 ++ [Func false (bs "Left") [FPNum (mkDec 1 0)] (bs "Left(1)")] in
   parse_string uni_ascii (bs "$.ls.AsArray().First().Left(1)")
   = Ok (chain_path [bs "ls"] fs3 (bs "$.ls.AsArray().First().Left(1)")) /\
   chain_accepts func_table (CList true CStr) (PT_String, IO_Array) fs2 = true /\
   chain_types func_table (CList true CStr) (Some (PT_String, IO_Array)) fs2 = Some AnyS /\
   chain_accepts func_table (CList true CStr) (PT_String, IO_Array) fs3 = false /\
   lit_wellposed (CList true CStr) (PT_String, IO_Array) fs3 = true) /\
  (* evaluated: First returns the list, which the reported (Any, Single) allows *)
  run "$.ls.AsArray().First()" ex_doc = Some (Ok (jarr [jstr "x"; jstr "y"])) /\
  typed_outcome (Ok (jarr [jstr "x"; jstr "y"])) AnyS /\
  (* the rejected queries do fail with a wrong-type error *)
  (exists e, run "$.ls.AsArray().First().Left(1)" ex_doc = Some (Err e) /\ wrong_type_err e = true) /\
  (exists e, run "$.ln.AsArray().Last().Add(1)" ex_doc = Some (Err e) /\ wrong_type_err e = true).
Proof.
  split; [eexists _, _; split; [reflexivity|]; repeat constructor; eexists; reflexivity|].
  split; [split; [exact I|]; repeat constructor; vm_compute; reflexivity|].
  split; [vm_compute; reflexivity|]. split; [vm_compute; reflexivity|].
  split; [vm_compute; reflexivity|]. split; [vm_compute; reflexivity|].
  split; [cbv zeta; split; [vm_compute; reflexivity|]; repeat split; vm_compute; reflexivity|].
  split; [vm_compute; reflexivity|].
  split; [exact I|].
  split; eexists; split; vm_compute; reflexivity.
Qed.

(** C14b_chain_sound_cue now covers an element-returning function after another
    call: `$.ls.AsArray().First()` *)
Example C14b_asarray_first_sound :
  forall t, parse_string uni_ascii (bs "$.ls.AsArray().First()") = Ok t ->
  v_type (validate_top ex_schema [] t) = Some AnyS /\
  np (do_top uni_ascii no_engines t ex_doc) /\
  typed_outcome (do_top uni_ascii no_engines t ex_doc) AnyS.
Proof.
  intros t Ht.
  set (fs := [Func false (bs "AsArray") [] (bs "AsArray()"); Func false (bs "First") [] (bs "First()")]).
  assert (Hp : parse_string uni_ascii (bs "$.ls.AsArray().First()") =
    Ok (chain_path [bs "ls"] fs (bs "$.ls.AsArray().First()"))) by (vm_compute; reflexivity).
  rewrite Hp in Ht. injection Ht as <-.
  assert (Hne : fs <> []) by discriminate.
  destruct (all_some (map call_of fs)) as [cs|] eqn:Ecs; [|vm_compute in Ecs; discriminate].
  pose proof (C14b_chain_sound_cue uni_ascii no_engines ex_schema (bs "ls") [] fs (bs "$.ls.AsArray().First()")
                cs (PT_String, IO_Array) (CList true CStr) ex_doc (jarr [jstr "x"; jstr "y"])
                eq_refl eq_refl eq_refl Hne Ecs) as H.
  vm_compute in Ecs. injection Ecs as <-.
  apply H; clear H.
  - vm_compute. reflexivity.
  - vm_compute. reflexivity.
  - vm_compute. reflexivity.
  - apply kw_one. vm_compute. reflexivity.
  - eexists _, _. split; [reflexivity|]. repeat constructor; eexists; reflexivity.
  - split; [exact I|]. repeat constructor; vm_compute; reflexivity.
  - (* not by vm_compute on the whole goal: [plain_strings] of the intermediate list holds a
       [Forall plain_string], whose predicate would be normalised under its binder *)
    assert (E1 : run_func no_engines "AsArray" [] (convert_number (jarr [jstr "x"; jstr "y"]))
                 = Ok (jarr [jarr [jstr "x"; jstr "y"]])) by (vm_compute; reflexivity).
    assert (E2 : run_func no_engines "First" [] (convert_number (jarr [jarr [jstr "x"; jstr "y"]]))
                 = Ok (jarr [jstr "x"; jstr "y"])) by (vm_compute; reflexivity).
    cbn [chain_side fst snd fd_key]. rewrite E1.
    split; [reflexivity|]. split; [intros _ _; split; [exact I|]; repeat constructor|].
    rewrite E2. split; [reflexivity|]. split; [intros Hn; exfalso; apply Hn; reflexivity|exact I].
Qed.

(** the numeral-string deviation (F23) arises INSIDE a chain from a document
    that has no numeral string: "12ab".Left(2) = "12", which Contains receives
    as the number 12.  This is why [chain_side] asks for [plain_strings] of the
    result of a String-returning call that is followed by another call. *)
Theorem C14b_numeral_intermediate_refuted :
  let doc := jobj [("s", jstr "12ab")] in
  has_type (jstr "12ab") SS /\ plain_strings (jstr "12ab") /\
  val "$.s.Left(2).Contains(""1"")" = accepted BS /\
  run "$.s.Left(2)" doc = Some (Ok (jstr "12")) /\
  (exists e, run "$.s.Left(2).Contains(""1"")" doc = Some (Err e) /\ wrong_type_err e = true).
Proof.
  cbv zeta. split; [eexists; reflexivity|]. split; [split; [vm_compute; reflexivity|exact I]|].
  split; [vm_compute; reflexivity|]. split; [vm_compute; reflexivity|].
  eexists; split; vm_compute; reflexivity.
Qed.

(** the gap of C14_any_single_array_gap_accepted inside a chain: First (ValidOn
    Any Array) is accepted on the Number that Count returns (not [admits]-ed, so
    outside [chain_accepts]); since the repair of F31 it reports (Any, Single) instead
    of the element type of `$.ls` (the receiver type is Number, not String); it fails *)
Theorem C14b_gap_chain_accepted :
  val "$.ls.Count().First()" = accepted AnyS /\
  (let fs := [Func false (bs "Count") [] (bs "Count()"); Func false (bs "First") [] (bs "First()")] in
   parse_string uni_ascii (bs "$.ls.Count().First()")
   = Ok (chain_path [bs "ls"] fs (bs "$.ls.Count().First()")) /\
   chain_accepts func_table (CList true CStr) (PT_String, IO_Array) fs = false /\
   lit_wellposed (CList true CStr) (PT_String, IO_Array) fs = false) /\
  (exists e, run "$.ls.Count().First()" ex_doc = Some (Err e) /\ wrong_type_err e = true).
Proof.
  split; [vm_compute; reflexivity|].
  split; [cbv zeta; split; [vm_compute; reflexivity|]; split; vm_compute; reflexivity|].
  eexists; split; vm_compute; reflexivity.
Qed.

Check C14b_chain_reported_type.
Check chain_run_sound.
Check eval_chain.
Check C14b_chain_sound.
Check C14b_chain_sound_cue.
Check C14b_chain_sound_side_free.
Check C14b_chain2_sound.
Check C14b_chain3_sound.
Check C14b_examples.
Check C14b_asarray_first_repaired.
Check C14b_numeral_intermediate_refuted.
Check C14b_gap_chain_accepted.

Print Assumptions C14b_chain_reported_type.
Print Assumptions chain_run_sound.
Print Assumptions eval_chain.
Print Assumptions C14b_chain_sound.
Print Assumptions C14b_chain_sound_cue.
Print Assumptions C14b_chain_sound_side_free.
Print Assumptions C14b_chain2_sound.
Print Assumptions C14b_chain3_sound.
Print Assumptions C14b_parser_shapes.
Print Assumptions C14b_examples.
Print Assumptions C14b_examples_by_theorem.
Print Assumptions C14b_example_sound.
Print Assumptions C14b_asarray_first_repaired.
Print Assumptions C14b_asarray_first_sound.
Print Assumptions C14b_numeral_intermediate_refuted.
Print Assumptions C14b_gap_chain_accepted.
