(* Proofs/C09b3.v — C09b, part 3: the parser on the token stream of a canonical
   operation, in either layout, yields that very operation.

   DP / DF / DL: parse_path / parse_func / parse_log started on the tokens of
   a canonical path / call / group (followed by any tokens T) return the node
   itself and leave the cursor at T.  Mutual induction over the tree
   (ast_ind3); the loops of the parser (path_loop, func_loop, log_loop) are
   handled by inner list inductions with their accumulators generalised. *)
From Mpath.Model Require Import Base Dec Types GoVal Ast Lexer Parser Printer Funcs Eval.
From Mpath.Generated Require Import FuncTable Escapes Runes.
From Mpath.Proofs Require Import C09 C09b1 C09b2.

Local Open Scope Z_scope.

(* ------------------------------------------------------------------ *)
(** * One step of each loop                                             *)
(* ------------------------------------------------------------------ *)

Definition is_term (t : token) : bool := is_ch t 44 || is_ch t 41 || is_ch t 93 || is_ch t 125.

Lemma is_term_cases : forall t, is_term t = true ->
  exists c tx nx, t = mkTok (TCh c) tx nx /\ (c = 44 \/ c = 41 \/ c = 93 \/ c = 125).
Proof.
  intros [kd tx nx] H. unfold is_term, is_ch in H. cbn [tk] in H.
  destruct kd as [| | |c]; try discriminate H.
  exists c, tx, nx. split; [reflexivity|].
  repeat (apply orb_true_iff in H; destruct H as [H|H]); apply Z.eqb_eq in H; auto.
Qed.

Lemma path_loop_term : forall k root isf me ops us t rest, is_term t = true ->
  path_loop (S k) root isf me ops us (CTok t) rest
  = Ok (CTok t, rest, Path (me && negb (last_ok_for_group ops)) root isf me ops us).
Proof.
  intros k root isf me ops us t rest H.
  destruct (is_term_cases t H) as (c & tx & nx & -> & [->|[->|[->| ->]]]); reflexivity.
Qed.

Lemma path_loop_filter : forall k root isf me ops us b n rest,
  path_loop (S k) root isf me ops us (CTok (mkTok (TCh 91) b n)) rest
  = do (c, r, l) <- parse_log k true (CTok (mkTok (TCh 91) b n)) rest;
    path_loop k root isf me (ops ++ [PFilter l (logop_us l)]) (us ++ logop_us l) c r.
Proof. reflexivity. Qed.

Lemma parse_path_root : forall k root isf me b n rest, root && isf = false ->
  parse_path (S k) isf me (CTok (mkTok (TCh (rp_root_rune root)) b n)) rest
  = let (c, r) := scan rest in path_loop k root isf me [] (ch_str (rp_root_rune root)) c r.
Proof. intros k [|] [|] me b n rest H; try discriminate H; reflexivity. Qed.

Lemma func_loop_path : forall k inv ft ps us root b n rest,
  func_loop (S k) inv ft ps us (CTok (mkTok (TCh (rp_root_rune root)) b n)) rest
  = do (c, r, p) <- parse_path k false false (CTok (mkTok (TCh (rp_root_rune root)) b n)) rest;
    func_loop k inv ft (ps ++ [FPPath p]) (us ++ path_us p) c r.
Proof. intros k inv ft ps us [|] b n rest; reflexivity. Qed.

Lemma func_loop_group : forall k inv ft ps us b n rest,
  func_loop (S k) inv ft ps us (CTok (mkTok (TCh 123) b n)) rest
  = do (c, r, l) <- parse_log k false (CTok (mkTok (TCh 123) b n)) rest;
    func_loop k inv ft (ps ++ [FPLog l]) (us ++ logop_us l) c r.
Proof. reflexivity. Qed.

Lemma parse_log_kw : forall k isf0 isf b n t n1 r, t = LAnd \/ t = LOr ->
  parse_log (S k) isf0 (CTok (mkTok (TCh (open_c isf)) b n)) (mkTok TIdent (kw_text t) n1 :: r)
  = let (c', r') := scan r in log_loop k false isf0 t [] (b ++ kw_text t) c' r'.
Proof. intros k isf0 [|] b n t n1 r [->| ->]; reflexivity. Qed.

Lemma parse_log_nokw : forall k isf0 isf b n toks,
  match toks with t1 :: _ => is_ident_tok t1 = false | [] => True end ->
  parse_log (S k) isf0 (CTok (mkTok (TCh (open_c isf)) b n)) toks
  = let (c, r) := scan toks in log_loop k false isf0 LAnd [] b c r.
Proof.
  intros k isf0 [|] b n [|[kd tx nx] toks] H; try reflexivity;
    destruct kd; try discriminate H; reflexivity.
Qed.

Lemma log_loop_comma : forall k inv isf ty xs us b n rest,
  log_loop (S k) inv isf ty xs us (CTok (mkTok (TCh 44) b n)) rest
  = let (c, r) := scan rest in log_loop k inv isf ty xs (us ++ ch_str 44) c r.
Proof. reflexivity. Qed.

Lemma log_loop_path : forall k inv isf ty xs us root b n rest,
  log_loop (S k) inv isf ty xs us (CTok (mkTok (TCh (rp_root_rune root)) b n)) rest
  = do (c, r, p) <- parse_path k isf true (CTok (mkTok (TCh (rp_root_rune root)) b n)) rest;
    log_loop k inv isf ty (xs ++ [OpP p]) (us ++ path_us p) c r.
Proof. intros k inv isf ty xs us [|] b n rest; reflexivity. Qed.

Lemma log_loop_group : forall k inv isf ty xs us b n rest,
  log_loop (S k) inv isf ty xs us (CTok (mkTok (TCh 123) b n)) rest
  = do (c, r, l) <- parse_log k false (CTok (mkTok (TCh 123) b n)) rest;
    log_loop k inv isf ty (xs ++ [OpL l]) (us ++ logop_us l) c r.
Proof. reflexivity. Qed.

Lemma log_loop_close : forall k inv isf ty xs us cl b n rest,
  log_loop (S k) inv isf ty xs us (CTok (mkTok (TCh (close_c cl)) b n)) rest
  = let (c, r) := scan rest in Ok (c, r, LogOp inv isf ty xs (us ++ b)).
Proof. intros k inv isf ty xs us [|] b n rest; reflexivity. Qed.

Lemma bind_scan : forall {A B} (T : list token) (v : A) (K : cursor * list token * A -> pres B),
  bind (let (c, r) := scan T in (Ok (c, r, v) : pres A)) K = (let (c, r) := scan T in K (c, r, v)).
Proof. intros A B [|t T] v K; reflexivity. Qed.

(* ------------------------------------------------------------------ *)
(** * Statements                                                        *)
(* ------------------------------------------------------------------ *)

(** what may follow a path: the end of the input or `,` `)` `]` `}` *)
Definition term_toks (T : list token) : Prop :=
  match T with [] => True | t :: _ => is_term t = true end.
Definition path_end (p : path) (T : list token) : pres path :=
  match T with [] => Ok (CZero, [], p) | t :: T' => Ok (CTok t, T', p) end.

Definition func_ft (f : func) : str := match f with Func _ ft _ _ => ft end.
Definition func_ps (f : func) : list param := match f with Func _ _ ps _ => ps end.
Definition logop_ty (l : logop) : lot := match l with LogOp _ _ t _ _ => t end.
Definition logop_xs (l : logop) : list operand := match l with LogOp _ _ _ xs _ => xs end.

Definition ops_toks (ws : bool) (d : nat) (ops : list pathop) (R : list (Z * str)) : list token :=
  items_toks (flat_map (its_pathop ws d) ops) R.

Definition DP (uni : uclass) (p : path) : Prop :=
  canon_path uni p ->
  forall ws d R T fuel nx,
    pfollow uni (peek R) -> term_toks T -> (T = [] -> path_me p = false) ->
    (2 * length (ops_toks ws d (path_ops p) R) + 2 <= fuel)%nat ->
    parse_path fuel (path_isf p) (path_me p)
      (CTok (mkTok (TCh (rp_root_rune (path_root p))) (ch_str (rp_root_rune (path_root p))) nx))
      (ops_toks ws d (path_ops p) R ++ T)
    = path_end p T.

Definition DF (uni : uclass) (f : func) : Prop :=
  canon_func uni f ->
  forall R T fuel,
    (2 * length (items_toks (its_fargs (func_ps f)) R) + 2 <= fuel)%nat ->
    parse_func fuel (CTok (mkTok TIdent (func_ft f) 40)) (items_toks (its_fargs (func_ps f)) R ++ T)
    = (let (c, r) := scan T in Ok (c, r, f)).

Definition DL (uni : uclass) (l : logop) : Prop :=
  canon_logop uni l ->
  forall ws d R T fuel nx,
    (2 * length (items_toks (its_lbody ws d (logop_isf l) (logop_ty l) (logop_om l) (logop_xs l)) R) + 2 <= fuel)%nat ->
    parse_log fuel (logop_isf l)
      (CTok (mkTok (TCh (open_c (logop_isf l))) (ch_str (open_c (logop_isf l))) nx))
      (items_toks (its_lbody ws d (logop_isf l) (logop_ty l) (logop_om l) (logop_xs l)) R ++ T)
    = (let (c, r) := scan T in Ok (c, r, l)).

(* ------------------------------------------------------------------ *)
(** * path_loop over the elements of a path                             *)
(* ------------------------------------------------------------------ *)

Lemma ops_loop : forall uni ws d ops,
  Forall (Po_of (DF uni) (DL uni)) ops -> all_P (canon_pathop uni) ops ->
  forall R T fuel root isf me ops0 us0,
    pfollow uni (peek R) -> term_toks T -> (T = [] -> me = false) ->
    (2 * length (ops_toks ws d ops R) + 1 <= fuel)%nat ->
    (let (c, r) := scan (ops_toks ws d ops R ++ T) in path_loop fuel root isf me ops0 us0 c r)
    = path_end (Path (me && negb (last_ok_for_group (ops0 ++ ops))) root isf me (ops0 ++ ops)
                     (us0 ++ concat (map render_pathop ops))) T.
Proof.
  intros uni ws d ops HF. induction HF as [|o ops Ho _ IH];
    intros Hc R T fuel root isf me ops0 us0 HR HT Hme Hf.
  - (* no more elements: the terminator *)
    unfold ops_toks in *. cbn [flat_map items_toks app map concat].
    destruct fuel as [|k]; [lia|]. rewrite !app_nil_r.
    destruct T as [|t T'].
    + cbn [scan]. rewrite rp_path_loop_eof, (Hme eq_refl). reflexivity.
    + cbn [scan]. cbn [term_toks] in HT. rewrite (path_loop_term _ _ _ _ _ _ _ _ HT). reflexivity.
  - cbn [all_P] in Hc. destruct Hc as [Hco Hcops]. specialize (IH Hcops).
    pose proof (peek_ops uni ws d ops R Hcops HR) as Hpk.
    unfold ops_toks in *. cbn [flat_map] in *. rewrite items_toks_app in *. rewrite app_length in Hf.
    set (R1 := items_cs (flat_map (its_pathop ws d) ops) ++ R) in *.
    replace (ops0 ++ o :: ops) with ((ops0 ++ [o]) ++ ops) by (rewrite <- app_assoc; reflexivity).
    destruct o as [k q us1|l us1|f]; cbn [Po_of] in Ho; cbn [canon_pathop] in Hco.
    + (* a key *)
      destruct Hco as (Hk & ->).
      cbn [its_pathop items_toks item_toks app length] in Hf |- *.
      destruct fuel as [|[|fuel]]; [lia|lia|].
      cbn [scan]. rewrite rp_path_loop_dot. cbn [scan].
      cbn [items_cs map concat app].
      rewrite rp_path_loop_key by exact (proj2 Hpk).
      destruct Hk as (_ & _ & Hq). rewrite (rp_strip_qmark_piece (k, q) Hq). cbn [fst snd].
      rewrite IH by (assumption || lia).
      cbn [map concat render_pathop]. rewrite <- !app_assoc. reflexivity.
    + (* a filter *)
      destruct Hco as (Hcl & Hisf & ->).
      destruct l as [inv isf0 t xs usl]. cbn [logop_isf] in Hisf. subst isf0.
      cbn [its_pathop] in Hf |- *. rewrite its_logop_eq in Hf |- *.
      cbn [app items_toks item_toks length open_c] in Hf |- *.
      destruct fuel as [|fuel]; [lia|].
      cbn [scan]. rewrite path_loop_filter.
      rewrite <- app_assoc.
      rewrite (Ho Hcl ws d R1 _ fuel _) by (cbn [logop_isf logop_ty logop_xs]; lia).
      rewrite (@bind_scan logop path). cbn [logop_us].
      pose proof (canon_logop_us uni _ Hcl) as Hus. cbn [logop_us] in Hus.
      rewrite IH by (assumption || lia).
      cbn [map concat render_pathop]. rewrite <- Hus, <- !app_assoc. reflexivity.
    + (* a call *)
      destruct f as [inv ft ps usf].
      cbn [its_pathop] in Hf |- *. rewrite its_func_eq in Hf |- *.
      cbn [items_toks item_toks app length] in Hf |- *.
      destruct fuel as [|[|fuel]]; [lia|lia|].
      cbn [scan]. rewrite rp_path_loop_dot. cbn [scan].
      replace (peek (items_cs (its_fargs ps) ++ R1)) with 40 by reflexivity.
      rewrite fc_path_loop_func.
      rewrite <- app_assoc.
      rewrite (Ho Hco R1 _ fuel) by (cbn [func_ps]; lia).
      rewrite (@bind_scan func path).
      pose proof (canon_func_us uni _ Hco) as Hus. cbn [func_us] in Hus.
      rewrite IH by (assumption || lia).
      cbn [map concat render_pathop func_us]. rewrite Hus, <- !app_assoc. reflexivity.
Qed.

(* ------------------------------------------------------------------ *)
(** * func_loop over the arguments                                      *)
(* ------------------------------------------------------------------ *)

Definition args_tail (ps : list param) : list item := jn_tail [ICh 44] (map its_param ps) ++ [ICh 41].

Lemma args_tail_first : forall ps R,
  (exists t T', items_toks (args_tail ps) R = t :: T' /\ is_term t = true) /\
  (peek (items_cs (args_tail ps) ++ R) = 41 \/ peek (items_cs (args_tail ps) ++ R) = 44).
Proof.
  intros [|p ps] R; unfold args_tail, jn_tail; cbn [map concat app].
  - split; [eexists; eexists; split; reflexivity|left; reflexivity].
  - split; [eexists; eexists; split; reflexivity|right; reflexivity].
Qed.

Lemma one_param : forall uni p, Pa_of (DP uni) (DL uni) p -> canon_param uni p ->
  forall R1 t T1 k inv ft ps0 us0,
    (peek R1 = 41 \/ peek R1 = 44) -> is_term t = true ->
    (2 * length (items_toks (its_param p) R1) + 1 <= S k)%nat ->
    (let (c, r) := scan (items_toks (its_param p) R1 ++ t :: T1) in func_loop (S k) inv ft ps0 us0 c r)
    = func_loop k inv ft (ps0 ++ [p]) (us0 ++ render_param p) (CTok t) T1.
Proof.
  intros uni p Ha Hc R1 t T1 k inv ft ps0 us0 HR Ht Hf.
  assert (Hlit : lit_param_ok p -> its_param p = [ILit p] -> render_param p = param_string p ->
                 (let (c, r) := scan (items_toks (its_param p) R1 ++ t :: T1) in func_loop (S k) inv ft ps0 us0 c r)
                 = func_loop k inv ft (ps0 ++ [p]) (us0 ++ render_param p) (CTok t) T1).
  { intros Hl E1 E2. rewrite E1, E2. cbn [items_toks item_toks items_cs map concat app].
    rewrite app_nil_r. rewrite (fc_func_loop_param p R1 (t :: T1) k inv ft ps0 us0 Hl HR). reflexivity. }
  destruct p as [dd|s|b|q|l]; cbn [Pa_of] in Ha; cbn [canon_param] in Hc;
    try (apply Hlit; [exact Hc|reflexivity|reflexivity]).
  - (* a path argument *)
    destruct Hc as (Hcq & Hisf & Hme).
    pose proof (canon_path_us uni q Hcq) as Hus.
    destruct q as [inv1 root isf1 me1 ops us1]. cbn [path_isf path_me path_us] in *. subst isf1 me1.
    cbn [its_param] in Hf |- *. rewrite its_path_eq in Hf |- *.
    cbn [W app items_toks item_toks length] in Hf |- *.
    cbn [scan]. rewrite func_loop_path.
    assert (HR' : pfollow uni (peek R1)).
    { destruct HR as [E|E]; rewrite E; [apply pfollow_41|apply pfollow_44]. }
    pose proof (Ha Hcq false O R1 (t :: T1) k (peek (items_cs (flat_map (its_pathop false 0) ops) ++ R1))
                   HR' Ht ltac:(discriminate)) as HD.
    cbn [path_isf path_me path_root path_ops] in HD. unfold ops_toks in HD.
    rewrite HD by lia. cbn [path_end bind path_us render_param]. rewrite Hus. reflexivity.
  - (* a group argument *)
    destruct Hc as (Hcl & Hisf).
    pose proof (canon_logop_us uni l Hcl) as Hus.
    destruct l as [inv1 isf1 ty xs us1]. cbn [logop_isf logop_us] in *. subst isf1.
    cbn [its_param] in Hf |- *. rewrite its_logop_eq in Hf |- *.
    cbn [W app items_toks item_toks length open_c] in Hf |- *.
    cbn [scan]. rewrite func_loop_group.
    pose proof (fun nx => Ha Hcl false O R1 (t :: T1) k nx) as HD.
    cbn [logop_isf logop_ty logop_xs open_c] in HD.
    rewrite HD by lia. rewrite (@bind_scan logop func). cbn [scan logop_us render_param]. rewrite <- Hus. reflexivity.
Qed.

Lemma args_tail_loop : forall uni ps,
  Forall (Pa_of (DP uni) (DL uni)) ps -> all_P (canon_param uni) ps ->
  forall R T fuel inv ft ps0 us0,
    (2 * length (items_toks (args_tail ps) R) + 1 <= fuel)%nat ->
    (let (c, r) := scan (items_toks (args_tail ps) R ++ T) in func_loop fuel inv ft ps0 us0 c r)
    = (let (c, r) := scan T in
       Ok (c, r, Func inv ft (ps0 ++ ps)
                   (us0 ++ concat (map (fun p => bs "," ++ render_param p) ps) ++ bs ")"))).
Proof.
  intros uni ps HF. induction HF as [|p ps Hp _ IH]; intros Hc R T fuel inv ft ps0 us0 Hf.
  - unfold args_tail, jn_tail in *. cbn [map concat app items_toks item_toks length] in Hf |- *.
    destruct fuel as [|k]; [lia|].
    cbn [scan]. rewrite fc_func_loop_rparen, app_nil_r. reflexivity.
  - cbn [all_P] in Hc. destruct Hc as [Hcp Hcps]. specialize (IH Hcps).
    assert (E : args_tail (p :: ps) = ICh 44 :: its_param p ++ args_tail ps).
    { unfold args_tail, jn_tail. cbn [map concat app]. rewrite <- !app_assoc. reflexivity. }
    rewrite E in Hf |- *. clear E.
    cbn [items_toks item_toks app] in Hf |- *. rewrite items_toks_app in Hf |- *.
    cbn [length] in Hf. rewrite app_length in Hf.
    destruct (args_tail_first ps R) as ((t & T' & Et & Ht) & Hpk).
    destruct fuel as [|[|k]]; [lia|lia|].
    cbn [scan]. rewrite fc_func_loop_comma. rewrite <- app_assoc.
    specialize (IH R T k inv ft (ps0 ++ [p]) ((us0 ++ ch_str 44) ++ render_param p)).
    rewrite Et in Hf, IH |- *. cbn [app length] in Hf, IH |- *.
    rewrite (one_param uni p Hp Hcp _ t (T' ++ T) k inv ft ps0 (us0 ++ ch_str 44) Hpk Ht) by lia.
    cbn [scan] in IH. rewrite IH by lia.
    cbn [map concat]. rewrite <- !app_assoc. reflexivity.
Qed.

(* ------------------------------------------------------------------ *)
(** * log_loop over the operands                                        *)
(* ------------------------------------------------------------------ *)

Definition opnd_items (ws : bool) (d : nat) (x : operand) : list item := W ws nl ++ its_operand ws (S d) x.
Definition opnds_tail (ws : bool) (d : nat) (isf : bool) (xs : list operand) : list item :=
  jn_tail [ICh 44] (map (opnd_items ws d) xs) ++ W ws (nl ++ tabs d) ++ [ICh (close_c isf)].

Lemma opnds_tail_first : forall uni ws d isf xs R,
  (exists t T', items_toks (opnds_tail ws d isf xs) R = t :: T' /\ is_term t = true) /\
  pfollow uni (peek (items_cs (opnds_tail ws d isf xs) ++ R)).
Proof.
  intros uni ws d isf [|x xs] R; unfold opnds_tail, jn_tail; cbn [map concat app].
  - rewrite items_toks_W. split.
    + destruct isf; eexists; eexists; split; reflexivity.
    + destruct ws, isf; cbn; first [apply pfollow_10|apply pfollow_93|apply pfollow_125].
  - split; [eexists; eexists; split; reflexivity|apply pfollow_44].
Qed.

Lemma operand_first : forall uni isf x, canon_operand uni isf x ->
  forall ws d R, exists t1 T1, items_toks (its_operand ws d x) R = t1 :: T1 /\ is_ident_tok t1 = false.
Proof.
  intros uni isf [[inv root isf1 me ops us]|[inv isf1 t xs us]] Hc ws d R; cbn [its_operand].
  - rewrite its_path_eq, items_toks_W. cbn [items_toks item_toks app]. eexists. eexists. split; reflexivity.
  - rewrite its_logop_eq. destruct isf1; rewrite ?items_toks_W; cbn [items_toks item_toks app];
      eexists; eexists; split; reflexivity.
Qed.

Lemma one_operand : forall uni isf x, Px_of (DP uni) (DL uni) x -> canon_operand uni isf x ->
  forall ws d R1 t T1 k inv ty xs0 us0,
    pfollow uni (peek R1) -> is_term t = true ->
    (2 * length (items_toks (its_operand ws d x) R1) + 1 <= S k)%nat ->
    (let (c, r) := scan (items_toks (its_operand ws d x) R1 ++ t :: T1) in log_loop (S k) inv isf ty xs0 us0 c r)
    = log_loop k inv isf ty (xs0 ++ [x]) (us0 ++ render_operand x) (CTok t) T1.
Proof.
  intros uni isf x Hx Hc ws d R1 t T1 k inv ty xs0 us0 HR Ht Hf.
  destruct x as [p|l]; cbn [Px_of] in Hx; cbn [canon_operand] in Hc.
  - destruct Hc as (Hcp & Hisf & Hme).
    pose proof (canon_path_us uni p Hcp) as Hus.
    destruct p as [inv1 root isf1 me1 ops us1]. cbn [path_isf path_me path_us] in *. subst isf1 me1.
    cbn [its_operand] in Hf |- *. rewrite its_path_eq in Hf |- *.
    rewrite items_toks_W in Hf |- *.
    cbn [items_toks item_toks app length] in Hf |- *.
    cbn [scan]. rewrite log_loop_path.
    pose proof (Hx Hcp ws d R1 (t :: T1) k (peek (items_cs (flat_map (its_pathop ws d) ops) ++ R1))
                   HR Ht ltac:(discriminate)) as HD.
    cbn [path_isf path_me path_root path_ops] in HD. unfold ops_toks in HD.
    rewrite HD by lia. cbn [path_end bind path_us render_operand]. rewrite Hus. reflexivity.
  - destruct Hc as (Hcl & Hisf).
    pose proof (canon_logop_us uni l Hcl) as Hus.
    destruct l as [inv1 isf1 ty1 xs us1]. cbn [logop_isf logop_us] in *. subst isf1.
    cbn [its_operand] in Hf |- *. rewrite its_logop_eq in Hf |- *.
    rewrite items_toks_W in Hf |- *.
    cbn [items_toks item_toks app length open_c] in Hf |- *.
    cbn [scan]. rewrite log_loop_group.
    pose proof (fun nx => Hx Hcl ws d R1 (t :: T1) k nx) as HD.
    cbn [logop_isf logop_ty logop_xs open_c] in HD.
    rewrite HD by lia. rewrite (@bind_scan logop logop). cbn [scan logop_us render_operand]. rewrite <- Hus. reflexivity.
Qed.

Lemma opnds_tail_loop : forall uni ws d isf xs,
  Forall (Px_of (DP uni) (DL uni)) xs -> all_P (canon_operand uni isf) xs ->
  forall R T fuel inv ty xs0 us0,
    (2 * length (items_toks (opnds_tail ws d isf xs) R) + 1 <= fuel)%nat ->
    (let (c, r) := scan (items_toks (opnds_tail ws d isf xs) R ++ T) in log_loop fuel inv isf ty xs0 us0 c r)
    = (let (c, r) := scan T in
       Ok (c, r, LogOp inv isf ty (xs0 ++ xs)
                   (us0 ++ concat (map (fun x => bs "," ++ render_operand x) xs) ++ ch_str (close_c isf)))).
Proof.
  intros uni ws d isf xs HF. induction HF as [|x xs Hx _ IH]; intros Hc R T fuel inv ty xs0 us0 Hf.
  - unfold opnds_tail, jn_tail in *. cbn [map concat app] in Hf |- *.
    rewrite items_toks_W in Hf |- *. cbn [items_toks item_toks app length] in Hf |- *.
    destruct fuel as [|k]; [lia|].
    cbn [scan]. rewrite log_loop_close, app_nil_r. reflexivity.
  - cbn [all_P] in Hc. destruct Hc as [Hcx Hcxs]. specialize (IH Hcxs).
    assert (E : opnds_tail ws d isf (x :: xs)
                = ICh 44 :: W ws nl ++ its_operand ws (S d) x ++ opnds_tail ws d isf xs).
    { unfold opnds_tail, jn_tail, opnd_items. cbn [map concat app]. rewrite <- !app_assoc. reflexivity. }
    rewrite E in Hf |- *. clear E.
    cbn [items_toks item_toks app] in Hf |- *. rewrite items_toks_W, items_toks_app in Hf |- *.
    cbn [length] in Hf. rewrite app_length in Hf.
    destruct (opnds_tail_first uni ws d isf xs R) as ((t & T' & Et & Ht) & Hpk).
    destruct fuel as [|[|k]]; [lia|lia|].
    cbn [scan]. rewrite log_loop_comma. rewrite <- app_assoc.
    specialize (IH R T k inv ty (xs0 ++ [x]) ((us0 ++ ch_str 44) ++ render_operand x)).
    rewrite Et in Hf, IH |- *. cbn [app length] in Hf, IH |- *.
    rewrite (one_operand uni isf x Hx Hcx ws (S d) _ t (T' ++ T) k inv ty xs0 (us0 ++ ch_str 44) Hpk Ht) by lia.
    cbn [scan] in IH. rewrite IH by lia.
    cbn [map concat]. rewrite <- !app_assoc. reflexivity.
Qed.

(* ------------------------------------------------------------------ *)
(** * The three parse functions                                         *)
(* ------------------------------------------------------------------ *)

Theorem parse_D : forall uni, (forall p, DP uni p) /\ (forall f, DF uni f) /\ (forall l, DL uni l).
Proof.
  intros uni. apply ast_ind3.
  - (* a path *)
    intros inv root isf me ops us HF Hc ws d R T fuel nx HR HT Hme Hf.
    destruct Hc as (Hinv & Hri & Hus & Hops).
    cbn [path_isf path_me path_root path_ops] in *.
    destruct fuel as [|k]; [lia|].
    rewrite parse_path_root by exact Hri.
    rewrite (ops_loop uni ws d ops HF Hops R T k root isf me [] (ch_str (rp_root_rune root)) HR HT Hme) by lia.
    cbn [app]. rewrite <- root_str_ch, <- Hus, <- Hinv. reflexivity.
  - (* a call *)
    intros inv ft ps us HF Hc R T fuel Hf.
    destruct Hc as (Hinv & Hk & Hus & Hps). subst inv.
    destruct (fc_known_func ft Hk) as (_ & _ & Hget).
    cbn [func_ft func_ps] in *. unfold its_fargs in *.
    cbn [items_toks item_toks app length] in Hf |- *.
    destruct fuel as [|[|k]]; [lia|lia|].
    rewrite (fc_parse_func _ ft ft _ _ _ Hget). rewrite fc_func_loop_lparen.
    destruct ps as [|p ps].
    + cbn [map jn app items_toks item_toks length] in Hf |- *.
      cbn [scan]. destruct k as [|k]; [lia|]. rewrite fc_func_loop_rparen.
      rewrite Hus. cbn [map concat_str]. rewrite <- !app_assoc. reflexivity.
    + pose proof (Forall_inv HF) as Hp. pose proof (Forall_inv_tail HF) as HFps. cbn [all_P] in Hps. destruct Hps as [Hcp Hcps].
      cbn [map] in Hf |- *. rewrite jn_cons, <- app_assoc in Hf |- *.
      fold (args_tail ps) in Hf |- *.
      rewrite items_toks_app in Hf |- *. rewrite app_length in Hf.
      destruct (args_tail_first ps R) as ((t & T' & Et & Ht) & Hpk).
      rewrite <- app_assoc.
      pose proof (args_tail_loop uni ps HFps Hcps R T) as HL.
      rewrite Et in Hf, HL |- *. cbn [app length] in Hf, HL |- *.
      destruct k as [|k]; [lia|].
      rewrite (one_param uni p Hp Hcp _ t (T' ++ T) k false ft [] (ft ++ ch_str 40) Hpk Ht) by lia.
      specialize (HL k false ft ([] ++ [p]) ((ft ++ ch_str 40) ++ render_param p)).
      cbn [scan] in HL. rewrite HL by lia.
      rewrite Hus. cbn [map]. rewrite concat_str_cons, map_map, <- !app_assoc. reflexivity.
  - (* a group *)
    intros inv isf ty xs us HF Hc ws d R T fuel nx Hf.
    destruct Hc as (Hinv & Hty & Hus & Hxs). subst inv.
    cbn [logop_isf logop_ty logop_xs logop_om] in *. unfold log_body in *.
    cbn [render_logop] in Hus.
    destruct (kw_omitted isf ty (concat_str (bs ",") (map render_operand xs)) us) eqn:Hom.
    + (* the keyword is not written: an AND group *)
      assert (Eand : ty = LAnd).
      { unfold kw_omitted in Hom. apply andb_true_iff in Hom. destruct Hom as [Ha _].
        destruct ty; try discriminate Ha; reflexivity. }
      subst ty. clear Hom.
      unfold its_lbody in *. rewrite items_toks_W in Hf |- *. cbn [app] in Hf |- *.
      destruct fuel as [|k]; [lia|].
      destruct xs as [|x xs].
      * cbn [map jn app] in Hf |- *. rewrite items_toks_W in Hf |- *.
        cbn [items_toks item_toks app length] in Hf |- *.
        rewrite parse_log_nokw by (destruct isf; reflexivity).
        cbn [scan]. destruct k as [|k]; [lia|]. rewrite log_loop_close.
        rewrite Hus, open_s_ch, close_s_ch. cbn [map concat_str app]. reflexivity.
      * pose proof (Forall_inv HF) as Hx. pose proof (Forall_inv_tail HF) as HFxs. cbn [all_P] in Hxs.
        destruct Hxs as [Hcx Hcxs].
        cbn [map] in Hf |- *. rewrite jn_cons, <- app_assoc in Hf |- *.
        change (map (fun x0 : operand => W ws nl ++ its_operand ws (S d) x0) xs)
          with (map (opnd_items ws d) xs) in Hf |- *.
        fold (opnds_tail ws d isf xs) in Hf |- *.
        rewrite <- app_assoc in Hf |- *. rewrite items_toks_W in Hf |- *.
        rewrite items_toks_app in Hf |- *. rewrite app_length in Hf.
        destruct (opnds_tail_first uni ws d isf xs R) as ((t & T' & Et & Ht) & Hpk).
        rewrite <- app_assoc.
        pose proof (opnds_tail_loop uni ws d isf xs HFxs Hcxs R T) as HL.
        rewrite Et in Hf, HL |- *. cbn [app length] in Hf, HL |- *.
        destruct (operand_first uni isf x Hcx ws (S d) (items_cs (opnds_tail ws d isf xs) ++ R))
          as (t1 & Tx & E1 & Hi).
        assert (HX : (1 <= length (items_toks (its_operand ws (S d) x)
                                     (items_cs (opnds_tail ws d isf xs) ++ R)))%nat)
          by (rewrite E1; cbn [length]; lia).
        rewrite parse_log_nokw by (rewrite E1; exact Hi).
        destruct k as [|k]; [lia|].
        rewrite (one_operand uni isf x Hx Hcx ws (S d) _ t (T' ++ T) k false LAnd []
                   (ch_str (open_c isf)) Hpk Ht) by lia.
        specialize (HL k false LAnd ([] ++ [x]) (ch_str (open_c isf) ++ render_operand x)).
        cbn [scan] in HL. rewrite HL by lia.
        rewrite Hus, open_s_ch, close_s_ch. cbn [map]. rewrite concat_str_cons, map_map, <- !app_assoc. reflexivity.
    + (* the keyword is written *)
      clear Hom.
      unfold its_lbody in *. rewrite items_toks_W in Hf |- *.
      cbn [items_toks item_toks app length] in Hf |- *.
      destruct fuel as [|[|k]]; [lia|lia|].
      rewrite (parse_log_kw _ isf isf _ _ ty _ _ Hty). cbn [scan]. rewrite log_loop_comma.
      destruct xs as [|x xs].
      * cbn [map jn app] in Hf |- *. rewrite items_toks_W in Hf |- *.
        cbn [items_toks item_toks app length] in Hf |- *.
        cbn [scan]. destruct k as [|k]; [lia|]. rewrite log_loop_close.
        rewrite Hus, open_s_ch, close_s_ch. cbn [map concat_str]. rewrite <- !app_assoc. reflexivity.
      * pose proof (Forall_inv HF) as Hx. pose proof (Forall_inv_tail HF) as HFxs. cbn [all_P] in Hxs.
        destruct Hxs as [Hcx Hcxs].
        cbn [map] in Hf |- *. rewrite jn_cons, <- app_assoc in Hf |- *.
        change (map (fun x0 : operand => W ws nl ++ its_operand ws (S d) x0) xs)
          with (map (opnd_items ws d) xs) in Hf |- *.
        fold (opnds_tail ws d isf xs) in Hf |- *.
        rewrite <- app_assoc in Hf |- *. rewrite items_toks_W in Hf |- *.
        rewrite items_toks_app in Hf |- *. rewrite app_length in Hf.
        destruct (opnds_tail_first uni ws d isf xs R) as ((t & T' & Et & Ht) & Hpk).
        rewrite <- app_assoc.
        pose proof (opnds_tail_loop uni ws d isf xs HFxs Hcxs R T) as HL.
        rewrite Et in Hf, HL |- *. cbn [app length] in Hf, HL |- *.
        destruct k as [|k]; [lia|].
        rewrite (one_operand uni isf x Hx Hcx ws (S d) _ t (T' ++ T) k false ty []
                   ((ch_str (open_c isf) ++ kw_text ty) ++ ch_str 44) Hpk Ht) by lia.
        specialize (HL k false ty ([] ++ [x]) (((ch_str (open_c isf) ++ kw_text ty) ++ ch_str 44) ++ render_operand x)).
        cbn [scan] in HL. rewrite HL by lia.
        rewrite Hus, open_s_ch, close_s_ch. cbn [map]. rewrite concat_str_cons, map_map, <- !app_assoc. reflexivity.
Qed.

(* ------------------------------------------------------------------ *)
(** * The top loop                                                      *)
(* ------------------------------------------------------------------ *)

Lemma top_loop_path : forall k root b n rest,
  top_loop (S k) None (CTok (mkTok (TCh (rp_root_rune root)) b n)) rest
  = do (c, r, p) <- parse_path k false false (CTok (mkTok (TCh (rp_root_rune root)) b n)) rest;
    top_loop k (Some (TopP p)) c r.
Proof. intros k [|] b n rest; reflexivity. Qed.

Lemma top_loop_group : forall k b n rest,
  top_loop (S k) None (CTok (mkTok (TCh 123) b n)) rest
  = do (c, r, l) <- parse_log k false (CTok (mkTok (TCh 123) b n)) rest;
    top_loop k (Some (TopL l)) c r.
Proof. reflexivity. Qed.

Theorem parse_tokens_canon : forall uni ws t, canon uni t ->
  parse_tokens (items_toks (its_top ws t) []) = Ok t.
Proof.
  intros uni ws [p|l] H; cbn [canon] in H; cbn [its_top]; unfold parse_tokens, parse_fuel.
  - destruct H as (Hc & Hisf & Hme).
    pose proof (proj1 (parse_D uni) p Hc ws O [] []) as HD.
    destruct p as [inv root isf me ops us]. cbn [path_isf path_me path_root path_ops] in *. subst isf me.
    rewrite its_path_eq, items_toks_W. cbn [items_toks item_toks app length].
    fold (ops_toks ws 0 ops []).
    cbn [scan].
    replace (3 * S (length (ops_toks ws 0 ops [])) + 8)%nat
      with (S (S (3 * length (ops_toks ws 0 ops []) + 9))) by lia.
    rewrite top_loop_path.
    rewrite <- (app_nil_r (ops_toks ws 0 ops [])) at 2.
    rewrite HD; [reflexivity|apply pfollow_eof|exact I|reflexivity|lia].
  - destruct H as (Hc & Hisf).
    pose proof (proj2 (proj2 (parse_D uni)) l Hc ws O [] []) as HD.
    destruct l as [inv isf ty xs us]. cbn [logop_isf logop_ty logop_xs] in *. subst isf.
    rewrite its_logop_eq, items_toks_W. cbn [items_toks item_toks app length open_c] in HD |- *.
    cbn [scan].
    replace (3 * S (length (items_toks (its_lbody ws 0 false ty (logop_om (LogOp inv false ty xs us)) xs) [])) + 8)%nat
      with (S (S (3 * length (items_toks (its_lbody ws 0 false ty (logop_om (LogOp inv false ty xs us)) xs) []) + 9))) by lia.
    rewrite top_loop_group.
    rewrite <- (app_nil_r (items_toks (its_lbody ws 0 false ty (logop_om (LogOp inv false ty xs us)) xs) [])) at 2.
    rewrite HD by lia. reflexivity.
Qed.
