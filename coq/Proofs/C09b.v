(* Proofs/C09b.v — C09 for the recursive part of the grammar: filters, logical
   groups (top-level and nested) and path / group arguments of functions.

   Parts: C09b1.v (lexeme lists and the lexer), C09b2.v ([render], [canon], the
   two layouts, their texts and well-formedness), C09b3.v (the parser on the
   tokens of a canonical operation), C09b4.v (the weak class [wcanon], the
   normaliser [fixup], boolean deciders).  This file states the results.
   Compile in that order, this file last.

   render a   the white-space-free concrete syntax of the operation a: a path
              `$` or `@` followed by its elements: `.key` / `.key?`, a call
              `.Name(a1,...,an)`, a filter `[KW,x1,...,xn]`; a group
              `{KW,x1,...,xn}`; KW = AND | OR followed by a comma; one comma
              between operands / arguments, none after the last.  The parser
              also accepts an AND group without keyword and keeps the spelling
              in the userString; accordingly an AND group whose stored
              userString is `{x1,...,xn}` / `[x1,...,xn]` is rendered so.
                $.a.b?[@.x.Equal(1),{OR,@.y,$.z}].Sum($.n,2)
                $.a.b?[AND,@.x.Equal(1),{OR,@.y,$.z}].Sum($.n,2)
   canon uni a  keys the lexer reads back ([good_key]); known function names;
              literal arguments as in C09's [frag_op]; path arguments (is_filter
              = must_end = false) and group arguments (is_filter = false),
              recursively canonical; filters = groups with is_filter = true
              whose path operands have is_filter = must_end = true and start
              with `@`; nested groups have is_filter = false; group type AND or
              OR; [invalid] flags as the parser computes them; and every stored
              userString equal to [render] of its own node.
   kws a      the groups / filters that Sprint prints structurally (those not
              inside function arguments) have the keyword in their userString.
   wcanon uni a  like canon, but userStrings, invalid and must_end flags of the
              nodes that Sprint prints structurally are arbitrary; only path /
              group ARGUMENTS (which Sprint prints by userString) are canonical.
   fixup a    a with those userStrings and flags recomputed (keyword spelled).

   Results, for every classifier [uni]:
     C09b_render_parses_exact   canon a -> parse (render a) = Ok a
     C09b_sprint_parses_exact   canon a -> kws a -> parse (Sprint a) = Ok a
     C09b_sprint_reparses_weak  wcanon a -> parse (Sprint a) = Ok (fixup a), which
                                is structurally equal to a, prints like a, is
                                canonical and a fixed point of parse o Sprint
     C09b_render_parses, C09b_sprint_reparses   the requested existential forms
     C09b_parse_is_canon, C09b_end_to_end       the strict grammar (image of render
                                on canonical operations): full C09 statement
     C09b_end_to_end_weak       the same for every weakly canonical operation
   (equalities are Leibniz equalities of operation trees: userStrings and flags
   included).  No axioms: Print Assumptions at the end. *)
From Mpath.Model Require Import Base Dec Types GoVal Ast Lexer Parser Printer Funcs Eval.
From Mpath.Generated Require Import FuncTable Escapes Runes.
From Mpath.Proofs Require Import C09 C09b1 C09b2 C09b3 C09b4.

Local Open Scope Z_scope.

(* ================================================================== *)
(** * The two layouts parse to the operation itself                     *)
(* ================================================================== *)

Lemma c9b_peek_top : forall uni ws t, canon uni t -> peek (items_cs (its_top ws t)) <> bom.
Proof.
  intros uni ws [[inv root isf me ops us]|[inv isf t xs us]] H; cbn [canon] in H; cbn [its_top].
  - rewrite its_path_eq. destruct ws, root; cbn; discriminate.
  - destruct H as (_ & Hisf). cbn [logop_isf] in Hisf. subst isf.
    rewrite its_logop_eq. destruct ws; cbn; discriminate.
Qed.

Theorem C09b_layout_parses : forall uni ws t, canon uni t ->
  parse_string uni (items_text (its_top ws t)) = Ok t.
Proof.
  intros uni ws t H. unfold parse_string.
  rewrite (lex_items uni _ (wf_top uni ws t H) (c9b_peek_top uni ws t H)).
  exact (parse_tokens_canon uni ws t H).
Qed.

(** 2. The compact rendering of a canonical operation parses to that operation. *)
Theorem C09b_render_parses_exact : forall uni a, canon uni a -> parse_string uni (render a) = Ok a.
Proof. intros uni a H. rewrite <- render_items. exact (C09b_layout_parses uni false a H). Qed.

Theorem C09b_render_parses : forall uni a, canon uni a ->
  exists a', parse_string uni (render a) = Ok a' /\ struct_eq a a' /\ top_us a' = render a.
Proof.
  intros uni a H. exists a. split; [exact (C09b_render_parses_exact uni a H)|].
  split; [apply C09_struct_eq_refl|exact (canon_top_us uni a H)].
Qed.

(** 3. What Sprint prints.
    (a) exact: for a canonical operation whose structurally printed groups
        carry the keyword in their userString ([kws]), Sprint's text parses to
        the operation itself;
    (b) weak class: for a weakly canonical operation (arbitrary userStrings and
        flags on the nodes Sprint prints structurally; canonical path / group
        arguments), Sprint's text parses to [fixup a]: structurally equal,
        prints identically, canonical, and a fixed point of parse o Sprint;
    (c) the requested statement for canonical operations. *)
Theorem C09b_sprint_parses_exact : forall uni a, canon uni a -> kws a ->
  parse_string uni (sprint_top a) = Ok a.
Proof. intros uni a H Hk. rewrite (sprint_items uni a H Hk). exact (C09b_layout_parses uni true a H). Qed.

Theorem C09b_sprint_reparses_weak : forall uni a, wcanon uni a ->
  (dp_top a <= S (length (top_us a)))%nat ->
  parse_string uni (sprint_top a) = Ok (fixup a) /\
  struct_eq a (fixup a) /\
  sprint_top (fixup a) = sprint_top a /\
  canon uni (fixup a) /\ kws (fixup a) /\
  parse_string uni (sprint_top (fixup a)) = Ok (fixup a).
Proof.
  intros uni a Hw Hd.
  destruct (fixup_canon uni a Hw) as (Hc & Hk).
  destruct (sprint_top_fixup uni a Hw Hd) as (E1 & E2).
  split; [rewrite E1; exact (C09b_layout_parses uni true (fixup a) Hc)|].
  split; [apply fixup_struct_eq|]. split; [exact E2|]. split; [exact Hc|]. split; [exact Hk|].
  exact (C09b_sprint_parses_exact uni (fixup a) Hc Hk).
Qed.

Lemma c9b_canon_depth : forall uni a, canon uni a -> (dp_top a <= S (length (top_us a)))%nat.
Proof.
  intros uni a H. rewrite (canon_top_us uni a H).
  destruct a as [p|l]; cbn [dp_top render].
  - pose proof (proj1 depth_E p). lia.
  - pose proof (proj2 (proj2 depth_E) l). lia.
Qed.

Theorem C09b_sprint_reparses : forall uni a, canon uni a ->
  exists a', parse_string uni (sprint_top a) = Ok a' /\ struct_eq a a' /\ sprint_top a' = sprint_top a.
Proof.
  intros uni a H.
  destruct (C09b_sprint_reparses_weak uni a (canon_wcanon uni a H) (c9b_canon_depth uni a H))
    as (H1 & H2 & H3 & _).
  exists (fixup a). split; [exact H1|]. split; [exact H2|exact H3].
Qed.

(** 4. The strict concrete grammar = the image of [render] on canonical
    operations.  Whatever such a text parses to is canonical. *)
Definition strict_query (uni : uclass) (s : str) : Prop := exists a0, canon uni a0 /\ s = render a0.

Theorem C09b_parse_is_canon : forall uni s a,
  strict_query uni s -> parse_string uni s = Ok a -> canon uni a /\ render a = s.
Proof.
  intros uni s a (a0 & H0 & ->) Hp.
  rewrite (C09b_render_parses_exact uni a0 H0) in Hp. injection Hp as <-. split; [exact H0|reflexivity].
Qed.

(** a decidable sufficient criterion (by C09b_parse_is_canon the operation to
    try is the one the text parses to) *)
Theorem C09b_strict_decide : forall uni s t,
  canon_b uni t && str_eqb (render t) s = true -> strict_query uni s.
Proof.
  intros uni s t H. apply andb_true_iff in H. destruct H as [H1 H2].
  exists t. split; [apply canon_b_sound; exact H1|]. symmetry. apply str_eqb_eq. exact H2.
Qed.

Theorem C09b_strict_parses : forall uni s, strict_query uni s -> exists t, parse_string uni s = Ok t.
Proof. intros uni s (a0 & H0 & ->). exists a0. exact (C09b_render_parses_exact uni a0 H0). Qed.

(** The full C09 statement for strict queries: the operation t parsed from s
    has UserString s; Sprint t parses to an operation that is structurally
    equal, prints identically (and is itself a fixed point of parse o Sprint)
    and evaluates to the same result on every data value. *)
Theorem C09b_end_to_end : forall uni eng s t data,
  strict_query uni s -> parse_string uni s = Ok t ->
  top_us t = s /\
  exists t', parse_string uni (sprint_top t) = Ok t' /\
             struct_eq t t' /\
             sprint_top t' = sprint_top t /\
             parse_string uni (sprint_top t') = Ok t' /\
             do_top uni eng t' data = do_top uni eng t data.
Proof.
  intros uni eng s t data Hs Hp.
  destruct (C09b_parse_is_canon uni s t Hs Hp) as (Hc & Hr).
  split; [rewrite <- Hr; exact (canon_top_us uni t Hc)|].
  destruct (C09b_sprint_reparses_weak uni t (canon_wcanon uni t Hc) (c9b_canon_depth uni t Hc))
    as (H1 & H2 & H3 & _ & _ & H6).
  exists (fixup t). split; [exact H1|]. split; [exact H2|]. split; [exact H3|]. split; [exact H6|].
  symmetry. apply C09_same_result_top. exact H2.
Qed.

(** The same conclusion (without the UserString clause) for every operation
    of the weak class, however its text was written. *)
Theorem C09b_end_to_end_weak : forall uni eng t data,
  wcanon uni t -> (dp_top t <= S (length (top_us t)))%nat ->
  exists t', parse_string uni (sprint_top t) = Ok t' /\
             struct_eq t t' /\
             sprint_top t' = sprint_top t /\
             parse_string uni (sprint_top t') = Ok t' /\
             do_top uni eng t' data = do_top uni eng t data.
Proof.
  intros uni eng t data Hw Hd.
  destruct (C09b_sprint_reparses_weak uni t Hw Hd) as (H1 & H2 & H3 & _ & _ & H6).
  exists (fixup t). split; [exact H1|]. split; [exact H2|]. split; [exact H3|]. split; [exact H6|].
  symmetry. apply C09_same_result_top. exact H2.
Qed.

(* ================================================================== *)
(** * 5. Examples                                                       *)
(* ================================================================== *)

Definition c9b_parse (q : string) : top :=
  match parse_string uni_ascii (bs q) with Ok t => t | _ => TopP (Path false true false false [] []) end.

(** the example of the task statement: a filter without keyword, a nested OR
    group, a `?` mark, a call with a path argument *)
Definition c9b_q1 : string := "$.a.b?[@.x.Equal(1),{OR,@.y,$.z}].Sum($.n,2)".
(** nested filter inside a path argument, group argument, Select with a string
    argument, `?` marks, a negative fraction *)
Definition c9b_q2 : string :=
  "$.items[AND,@.price?.Greater(10.5),@.tags.Select(""name"").AnyOf(""a"",""b"")].Sum($.base[@.k?.Equal($.ref.First())].n,{OR,$.p.Less(-0.25),$.q.IsNull()},true)".
(** a top-level group with a nested group and filters inside operands *)
Definition c9b_q3 : string :=
  "{OR,$.a.Equal(""x y""),{AND,$.b[@.c.Greater(1)].Count().Greater(0),$.d?.IsNotNull()}}".

Example C09b_ex_strict :
  forallb (fun q => match parse_string uni_ascii (bs q) with
                    | Ok t => canon_b uni_ascii t && str_eqb (render t) (bs q)
                    | _ => false
                    end) [c9b_q1; c9b_q2; c9b_q3] = true.
Proof. vm_compute. reflexivity. Qed.

Lemma c9b_strict_of_b : forall q t,
  parse_string uni_ascii (bs q) = Ok t -> canon_b uni_ascii t && str_eqb (render t) (bs q) = true ->
  strict_query uni_ascii (bs q).
Proof. intros q t _ H. exact (C09b_strict_decide uni_ascii (bs q) t H). Qed.

(** the theorem applied to q1: everything C09 asks for *)
Example C09b_ex1 : forall eng data,
  let t := c9b_parse c9b_q1 in
  parse_string uni_ascii (bs c9b_q1) = Ok t /\
  top_us t = bs c9b_q1 /\
  exists t', parse_string uni_ascii (sprint_top t) = Ok t' /\ struct_eq t t' /\
             sprint_top t' = sprint_top t /\ parse_string uni_ascii (sprint_top t') = Ok t' /\
             do_top uni_ascii eng t' data = do_top uni_ascii eng t data.
Proof.
  intros eng data t.
  assert (Hp : parse_string uni_ascii (bs c9b_q1) = Ok t) by (vm_compute; reflexivity).
  split; [exact Hp|].
  apply (C09b_end_to_end uni_ascii eng (bs c9b_q1) t data); [|exact Hp].
  apply (c9b_strict_of_b c9b_q1 t Hp). vm_compute. reflexivity.
Qed.

(** what Sprint prints for q1, and the operation it parses to: the keyword AND
    now appears in the userStrings *)
Example C09b_ex1_text :
  sprint_top (c9b_parse c9b_q1)
  = bs "$.a.b?[" ++ nl ++ bs "	AND," ++ nl ++ bs "	@.x.Equal(1)," ++ nl ++ bs "	{" ++ nl ++ bs "		OR," ++ nl ++
    bs "		@.y," ++ nl ++ bs "		$.z" ++ nl ++ bs "	}" ++ nl ++ bs "].Sum($.n,2)" /\
  (exists t', parse_string uni_ascii (sprint_top (c9b_parse c9b_q1)) = Ok t' /\
              top_us t' = bs "$.a.b?[AND,@.x.Equal(1),{OR,@.y,$.z}].Sum($.n,2)" /\
              t' = fixup (c9b_parse c9b_q1)).
Proof. split; [vm_compute; reflexivity|]. eexists. split; [vm_compute; reflexivity|]. split; vm_compute; reflexivity. Qed.

Example C09b_ex2 : forall eng data,
  let t := c9b_parse c9b_q2 in
  parse_string uni_ascii (bs c9b_q2) = Ok t /\
  top_us t = bs c9b_q2 /\
  exists t', parse_string uni_ascii (sprint_top t) = Ok t' /\ struct_eq t t' /\
             sprint_top t' = sprint_top t /\ parse_string uni_ascii (sprint_top t') = Ok t' /\
             do_top uni_ascii eng t' data = do_top uni_ascii eng t data.
Proof.
  intros eng data t.
  assert (Hp : parse_string uni_ascii (bs c9b_q2) = Ok t) by (vm_compute; reflexivity).
  split; [exact Hp|].
  apply (C09b_end_to_end uni_ascii eng (bs c9b_q2) t data); [|exact Hp].
  apply (c9b_strict_of_b c9b_q2 t Hp). vm_compute. reflexivity.
Qed.

(** q2 spells every keyword: parse o Sprint is the identity on its operation *)
Example C09b_ex2_exact :
  let t := c9b_parse c9b_q2 in
  canon_b uni_ascii t = true /\ kws_b t = true /\ parse_string uni_ascii (sprint_top t) = Ok t.
Proof.
  cbv zeta.
  assert (H1 : canon_b uni_ascii (c9b_parse c9b_q2) = true) by (vm_compute; reflexivity).
  assert (H2 : kws_b (c9b_parse c9b_q2) = true) by (vm_compute; reflexivity).
  split; [exact H1|]. split; [exact H2|].
  apply C09b_sprint_parses_exact; [apply canon_b_sound; exact H1|apply kws_b_sound; exact H2].
Qed.

Example C09b_ex3 : forall eng data,
  let t := c9b_parse c9b_q3 in
  parse_string uni_ascii (bs c9b_q3) = Ok t /\
  top_us t = bs c9b_q3 /\
  exists t', parse_string uni_ascii (sprint_top t) = Ok t' /\ struct_eq t t' /\
             sprint_top t' = sprint_top t /\ parse_string uni_ascii (sprint_top t') = Ok t' /\
             do_top uni_ascii eng t' data = do_top uni_ascii eng t data.
Proof.
  intros eng data t.
  assert (Hp : parse_string uni_ascii (bs c9b_q3) = Ok t) by (vm_compute; reflexivity).
  split; [exact Hp|].
  apply (C09b_end_to_end uni_ascii eng (bs c9b_q3) t data); [|exact Hp].
  apply (c9b_strict_of_b c9b_q3 t Hp). vm_compute. reflexivity.
Qed.

(** A query written loosely — white space, comments, no keyword, a blank
    between the literal arguments: not a strict query, its operation is not
    canonical, but it is weakly canonical, and the weak theorem applies. *)
Definition c9b_q4 : string :=
  "$.items[ @.price.Greater(10), @.tags.Select(""name"").AnyOf(""a"" ""b"") ] /* all */ .Count()".

Example C09b_ex4 : forall eng data,
  let t := c9b_parse c9b_q4 in
  parse_string uni_ascii (bs c9b_q4) = Ok t /\
  canon_b uni_ascii t = false /\
  top_us t = bs "$.items[@.price.Greater(10),@.tags.Select(""name"").AnyOf(""a""""b"")].Count()" /\
  exists t', parse_string uni_ascii (sprint_top t) = Ok t' /\ struct_eq t t' /\
             sprint_top t' = sprint_top t /\ parse_string uni_ascii (sprint_top t') = Ok t' /\
             do_top uni_ascii eng t' data = do_top uni_ascii eng t data.
Proof.
  intros eng data t.
  split; [vm_compute; reflexivity|]. split; [vm_compute; reflexivity|]. split; [vm_compute; reflexivity|].
  apply C09b_end_to_end_weak.
  - apply wcanon_b_sound. vm_compute. reflexivity.
  - vm_compute. lia.
Qed.

(* ================================================================== *)
(** * Where the classes end                                             *)
(* ================================================================== *)

(** (i) [kws] is needed for the exact statement: a canonical operation whose
    filter was written without keyword comes back with another userString
    (Sprint prints `AND,`), structurally equal. *)
Example C09b_exact_needs_kws_refuted :
  let t := c9b_parse "$.a[@.x]" in
  canon_b uni_ascii t = true /\ kws_b t = false /\
  parse_string uni_ascii (sprint_top t) = Ok (fixup t) /\
  top_us t = bs "$.a[@.x]" /\ top_us (fixup t) = bs "$.a[AND,@.x]" /\
  parse_string uni_ascii (sprint_top t) <> Ok t.
Proof.
  cbv zeta. repeat split; try (vm_compute; reflexivity).
  intros H. assert (H' : parse_string uni_ascii (sprint_top (c9b_parse "$.a[@.x]")) = Ok (fixup (c9b_parse "$.a[@.x]")))
    by (vm_compute; reflexivity).
  rewrite H' in H. vm_compute in H. discriminate H.
Qed.

(** (ii) The weak class excludes exactly the situations of C09's findings: a
    path argument written with white space between two keys has a userString
    that is not the rendering of the argument. *)
Example C09b_weak_class_excludes_glued_argument :
  let t := c9b_parse "$.x.Equal($.a b)" in
  wcanon_b uni_ascii t = false /\
  (exists t', parse_string uni_ascii (sprint_top t) = Ok t' /\ ~ struct_eq t t').
Proof.
  cbv zeta. split; [vm_compute; reflexivity|].
  destruct C09_nested_path_argument_refuted as (t0 & t0' & H1 & _ & H3 & _ & _ & _ & H7).
  assert (E : c9b_parse "$.x.Equal($.a b)" = t0).
  { unfold c9b_parse. change (bs "$.x.Equal($.a b)") with (bs "$.x.Equal($.a b)"). rewrite H1. reflexivity. }
  rewrite E. exists t0'. split; assumption.
Qed.

(** (iii) Spellings of arguments that are not canonical but harmless: the
    keyword-less group / filter inside an argument IS covered (render keeps the
    spelling); a character literal, a non-normal number or a trailing comma in
    a nested argument are outside [wcanon] although they survive (checked by
    computation: the classes are sufficient, not necessary). *)
Example C09b_argument_spellings :
  map (fun q => (wcanon_b uni_ascii (c9b_parse q),
                 match parse_string uni_ascii (sprint_top (c9b_parse q)) with
                 | Ok t' => str_eqb (sprint_top t') (sprint_top (c9b_parse q))
                 | _ => false
                 end))
      ["$.x.Equal($.l[@.k.Equal(1)].First())"; "$.x.AnyOf({$.a,$.b})";
       "$.x.Equal($.y.Equal('a'))"; "$.x.Equal($.y.Add(1.0))"; "$.a.Equal({AND,$.b,})"]%string
  = [(true, true); (true, true); (false, true); (false, true); (false, true)].
Proof. vm_compute. reflexivity. Qed.

(** (iv) Outside the premise of C09 (AND / OR keywords only): a misspelt
    keyword parses (flagged invalid), Sprint prints no keyword, and the text
    parses to an AND group. *)
Example C09b_bad_keyword_refuted :
  exists t t', parse_string uni_ascii (bs "{XOR,$.a}") = Ok t /\
               sprint_top t = bs "{" ++ nl ++ bs "	" ++ nl ++ bs "	$.a" ++ nl ++ bs "}" /\
               parse_string uni_ascii (sprint_top t) = Ok t' /\
               wcanon_b uni_ascii t = false /\ ~ struct_eq t t'.
Proof.
  eexists. eexists. split; [vm_compute; reflexivity|]. split; [vm_compute; reflexivity|].
  split; [vm_compute; reflexivity|]. split; [vm_compute; reflexivity|].
  intros H. inversion H as [|l l' Hl]; subst. inversion Hl.
Qed.

(** (v) Hand-built operations the parser never produces: a filter whose group
    is not marked is_filter prints with braces, and `$.a{...}` does not parse. *)
Example C09b_filter_flag_needed_refuted :
  let t := TopP (Path false true false false
                   [PIdent (bs "a") false (bs "a"); PFilter (LogOp false false LAnd [] (bs "{AND,}")) (bs "{AND,}")]
                   (bs "$.a{AND,}")) in
  wcanon_b uni_ascii t = false /\
  sprint_top t = bs "$.a{" ++ nl ++ bs "	AND," ++ nl ++ bs "}" /\
  parse_string uni_ascii (sprint_top t) = Err (EOther "parse error").
Proof. cbv zeta. repeat split; vm_compute; reflexivity. Qed.

(** (vi) Observation (lenient parser, same class as the known finding on
    argument lists): a group or filter may be closed by either bracket.  The
    operation is weakly canonical — Sprint prints the right bracket and the
    round trip holds — but its userString keeps the bracket as written, so it
    is not canonical, and inside an argument the wrong bracket is printed
    again (and parses again). *)
Example C09b_mismatched_bracket_accepted :
  let t := c9b_parse "$.a[AND,@.x}" in
  parse_string uni_ascii (bs "$.a[AND,@.x}") = Ok t /\
  top_us t = bs "$.a[AND,@.x}" /\
  canon_b uni_ascii t = false /\ wcanon_b uni_ascii t = true /\
  parse_string uni_ascii (sprint_top t) = Ok (fixup t) /\
  top_us (fixup t) = bs "$.a[AND,@.x]" /\
  sprint_top (c9b_parse "$.q.Equal({AND,$.a],1)") = bs "$.q.Equal({AND,$.a],1)".
Proof. cbv zeta. repeat split; vm_compute; reflexivity. Qed.

Print Assumptions C09b_layout_parses.
Print Assumptions C09b_render_parses_exact.
Print Assumptions C09b_render_parses.
Print Assumptions C09b_sprint_parses_exact.
Print Assumptions C09b_sprint_reparses_weak.
Print Assumptions C09b_sprint_reparses.
Print Assumptions C09b_parse_is_canon.
Print Assumptions C09b_strict_parses.
Print Assumptions C09b_strict_decide.
Print Assumptions C09b_end_to_end.
Print Assumptions C09b_end_to_end_weak.
Print Assumptions C09b_ex_strict.
Print Assumptions C09b_ex1.
Print Assumptions C09b_ex1_text.
Print Assumptions C09b_ex2.
Print Assumptions C09b_ex2_exact.
Print Assumptions C09b_ex3.
Print Assumptions C09b_ex4.
Print Assumptions C09b_exact_needs_kws_refuted.
Print Assumptions C09b_weak_class_excludes_glued_argument.
Print Assumptions C09b_argument_spellings.
Print Assumptions C09b_bad_keyword_refuted.
Print Assumptions C09b_filter_flag_needed_refuted.
Print Assumptions C09b_mismatched_bracket_accepted.
