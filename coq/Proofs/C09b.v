(* Proofs/C09b.v — C09 for the recursive part of the grammar: filters, logical
   groups (top-level and nested) and path / group arguments.

   Parts: C09b1.v (lexeme lists and the lexer), C09b2.v ([render], [canon], the
   two layouts, their texts and well-formedness), C09b3.v (the parser on the
   tokens of a canonical operation).  This file states the results.

   render a   the white-space-free concrete syntax of the operation a: keys
              separated by `.`, a filter `[KW,x1,...,xn]`, a group
              `{KW,x1,...,xn}` with KW = AND | OR always written and followed
              by a comma, a call `Name(a1,...,an)`; no comma after the last
              operand / argument.  Example:
                $.a.b?[AND,@.x.Equal(1),{OR,@.y,$.z}].Sum($.n,2)
   canon uni a  the canonical class: keys the lexer reads back ([good_key]);
              known function names; literal arguments as in C09's [frag_op];
              path arguments (is_filter = must_end = false) and group arguments
              (is_filter = false), recursively canonical; filters = groups with
              is_filter = true whose path operands carry is_filter = must_end =
              true and start with `@`; nested groups have is_filter = false;
              group type AND or OR; the [invalid] flags as the parser computes
              them; and every stored userString equal to [render] of its node.

   Results (all for every [uni]):
     C09b_render_parses_exact   canon a -> parse (render a) = Ok a
     C09b_sprint_parses_exact   canon a -> parse (Sprint a) = Ok a
   i.e. on canonical operations parse o render and parse o Sprint are the
   identity (Leibniz equality: userStrings and flags included); from these
     C09b_render_parses, C09b_sprint_reparses, C09b_parse_is_canon,
     C09b_end_to_end (the full C09 statement for every query text in the image
     of render on canonical operations).

   No axioms: Print Assumptions at the end. *)
From Mpath.Model Require Import Base Dec Types GoVal Ast Lexer Parser Printer Funcs Eval.
From Mpath.Generated Require Import FuncTable Escapes Runes.
From Mpath.Proofs Require Import C09 C09b1 C09b2 C09b3.

Local Open Scope Z_scope.

(* ================================================================== *)
(** * The two layouts parse to the operation itself                     *)
(* ================================================================== *)

Lemma c9b_peek_top : forall uni ws t, canon uni t -> peek (items_cs (its_top ws t)) <> bom.
Proof.
  intros uni ws [[inv root isf me ops us]|[inv isf t xs us]] H; cbn [canon] in H; cbn [its_top].
  - rewrite its_path_eq. destruct ws, root; cbn; discriminate.
  - destruct H as (_ & Hisf). cbn [logop_isf] in Hisf. subst isf.
    rewrite its_logop_eq. destruct ws; cbn; discriminate.
Qed.

Theorem C09b_layout_parses : forall uni ws t, canon uni t ->
  parse_string uni (items_text (its_top ws t)) = Ok t.
Proof.
  intros uni ws t H. unfold parse_string.
  rewrite (lex_items uni _ (wf_top uni ws t H) (c9b_peek_top uni ws t H)).
  exact (parse_tokens_canon uni ws t H).
Qed.

(** 2. The compact rendering of a canonical operation parses to that operation. *)
Theorem C09b_render_parses_exact : forall uni a, canon uni a -> parse_string uni (render a) = Ok a.
Proof. intros uni a H. rewrite <- render_items. exact (C09b_layout_parses uni false a H). Qed.

Theorem C09b_render_parses : forall uni a, canon uni a ->
  exists a', parse_string uni (render a) = Ok a' /\ struct_eq a a' /\ top_us a' = render a.
Proof.
  intros uni a H. exists a. split; [exact (C09b_render_parses_exact uni a H)|].
  split; [apply C09_struct_eq_refl|exact (canon_top_us uni a H)].
Qed.

(** 3. What Sprint prints for a canonical operation parses to that operation. *)
Theorem C09b_sprint_parses_exact : forall uni a, canon uni a -> parse_string uni (sprint_top a) = Ok a.
Proof. intros uni a H. rewrite (sprint_items uni a H). exact (C09b_layout_parses uni true a H). Qed.

Theorem C09b_sprint_reparses : forall uni a, canon uni a ->
  exists a', parse_string uni (sprint_top a) = Ok a' /\ struct_eq a a' /\ sprint_top a' = sprint_top a.
Proof.
  intros uni a H. exists a. split; [exact (C09b_sprint_parses_exact uni a H)|].
  split; [apply C09_struct_eq_refl|reflexivity].
Qed.

(** 4. The strict concrete grammar = the image of [render] on canonical
    operations.  Whatever such a text parses to is canonical. *)
Definition strict_query (uni : uclass) (s : str) : Prop := exists a0, canon uni a0 /\ s = render a0.

Theorem C09b_parse_is_canon : forall uni s a,
  strict_query uni s -> parse_string uni s = Ok a -> canon uni a /\ render a = s.
Proof.
  intros uni s a (a0 & H0 & ->) Hp.
  rewrite (C09b_render_parses_exact uni a0 H0) in Hp. injection Hp as <-. split; [exact H0|reflexivity].
Qed.

(** The full C09 statement for strict queries. *)
Theorem C09b_end_to_end : forall uni eng s t data,
  strict_query uni s -> parse_string uni s = Ok t ->
  top_us t = s /\
  exists t', parse_string uni (sprint_top t) = Ok t' /\
             struct_eq t t' /\
             sprint_top t' = sprint_top t /\
             do_top uni eng t' data = do_top uni eng t data.
Proof.
  intros uni eng s t data Hs Hp.
  destruct (C09b_parse_is_canon uni s t Hs Hp) as (Hc & Hr).
  split; [rewrite <- Hr; exact (canon_top_us uni t Hc)|].
  destruct (C09b_sprint_reparses uni t Hc) as (t' & H1 & H2 & H3).
  exists t'. split; [exact H1|]. split; [exact H2|]. split; [exact H3|].
  symmetry. apply C09_same_result_top. exact H2.
Qed.

(** Strict queries do parse. *)
Theorem C09b_strict_parses : forall uni s, strict_query uni s -> exists t, parse_string uni s = Ok t.
Proof. intros uni s (a0 & H0 & ->). exists a0. exact (C09b_render_parses_exact uni a0 H0). Qed.

Print Assumptions C09b_layout_parses.
Print Assumptions C09b_render_parses_exact.
Print Assumptions C09b_render_parses.
Print Assumptions C09b_sprint_parses_exact.
Print Assumptions C09b_sprint_reparses.
Print Assumptions C09b_parse_is_canon.
Print Assumptions C09b_end_to_end.
Print Assumptions C09b_strict_parses.
