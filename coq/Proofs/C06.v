(* Proofs/C06.v — numbers come out as decimals with their value intact. *)
From Coq Require Import QArith.
From Mpath.Model Require Import Base Dec Types GoVal Ast Lexer Parser Funcs Eval.
From Mpath.Proofs Require Import DecQ.

(** every Go carrier of a number: any integer kind (signed or unsigned, any
    width, full uint64 range), float (finite), decimal.Decimal, a named type
    over these, or one of them behind one pointer *)
Inductive num_carrier : gv -> dec -> Prop :=
| nc_int k nm z : num_carrier (VInt k nm z) (mkDec z 0)
| nc_float w nm d : num_carrier (VFloat w nm (FFin d)) d
| nc_dec d : num_carrier (VDec d) d
| nc_ptr_int k nm z : num_carrier (VPtr (Some (VInt k nm z))) (mkDec z 0)
| nc_ptr_float w nm d : num_carrier (VPtr (Some (VFloat w nm (FFin d)))) d.

(** the exact rational value of the source number *)
Definition source_value (g : gv) : option Q :=
  match g with
  | VInt _ _ z | VPtr (Some (VInt _ _ z)) => Some (inject_Z z)
  | VFloat _ _ (FFin d) | VPtr (Some (VFloat _ _ (FFin d))) => Some (dval d)
  | VDec d => Some (dval d)
  | _ => None
  end.

Lemma carrier_value g d : num_carrier g d -> exists q, source_value g = Some q /\ (dval d == q)%Q.
Proof.
  intros H; destruct H; cbn; eexists; (split; [reflexivity|]); try reflexivity;
    unfold dval; cbn [coef dexp]; rewrite pow10Q_0; ring.
Qed.

Definition norm_rv (g : gv) : rv :=
  if is_empty_value (value_of g) then value_of g else deref1 (value_of g).

Lemma norm_rv_nonptr g : match g with VPtr _ => False | _ => True end -> norm_rv g = value_of g.
Proof.
  intros H. destruct g; try contradiction; unfold norm_rv, deref1, rkind; cbn;
    repeat match goal with |- context [if ?b then _ else _] => destruct b end; reflexivity.
Qed.

Lemma norm_rv_ptr x : norm_rv (VPtr (Some x)) = mkRv false x.
Proof. reflexivity. Qed.

Lemma convert_number_carrier g d : num_carrier g d -> convert_number g = VDec d.
Proof.
  intros H; destruct H; unfold convert_number, convert_number_check, convert_number_check_base;
    fold (norm_rv (VInt k nm z)) || fold (norm_rv (VFloat w nm (FFin d))) || fold (norm_rv (VDec d))
    || fold (norm_rv (VPtr (Some (VInt k nm z)))) || fold (norm_rv (VPtr (Some (VFloat w nm (FFin d)))));
    rewrite ?norm_rv_ptr, ?norm_rv_nonptr by exact I; reflexivity.
Qed.

Lemma convert_unless_string_carrier g d : num_carrier g d -> convert_unless_string g = VDec d.
Proof.
  intros H. unfold convert_unless_string. rewrite (convert_number_carrier g d H). destruct H; reflexivity.
Qed.

(** booleans, and strings that are not numerals, are returned unchanged *)
Lemma convert_bool nm b : convert_number (VBool nm b) = VBool nm b /\ convert_unless_string (VBool nm b) = VBool nm b.
Proof. split; unfold convert_unless_string, convert_number, convert_number_check, convert_number_check_base; cbn; destruct b; reflexivity. Qed.

Lemma convert_string nm s : dec_of_string s = None ->
  convert_number (VStr nm s) = VStr nm s /\ convert_unless_string (VStr nm s) = VStr nm s.
Proof.
  intros H.
  assert (Hc : convert_number (VStr nm s) = VStr nm s).
  { unfold convert_number, convert_number_check, convert_number_check_base.
    assert (Hv : (if is_empty_value (value_of (VStr nm s)) then value_of (VStr nm s) else deref1 (value_of (VStr nm s))) = value_of (VStr nm s))
      by (destruct (is_empty_value _); reflexivity).
    rewrite Hv. cbn. rewrite H. reflexivity. }
  split; [exact Hc|]. unfold convert_unless_string. rewrite Hc. destruct (is_go_string _); reflexivity.
Qed.

Lemma go_string_unchanged s : convert_unless_string (VStr false s) = VStr false s.
Proof. reflexivity. Qed.

Section Positions.
Variable uni : uclass.
Variable eng : engines.

(** at the root: `$` alone *)
Lemma at_root fuel inv me us g d :
  num_carrier g d ->
  eval uni eng (S fuel) (NPath (Path inv true false me [] us)) g g = Ok (VDec d).
Proof. intros H. cbn [eval andb]. cbn [path_ops]. rewrite (convert_unless_string_carrier g d H). reflexivity. Qed.

(** as a map value *)
Lemma as_map_value name kt vt isnil kvs g d :
  map_lookup_fold name kvs = Some g -> num_carrier g d ->
  do_ident name (VMap kt vt isnil kvs) = Ok (VDec d).
Proof. intros Hl H. unfold do_ident. cbn. rewrite Hl. rewrite (convert_unless_string_carrier g d H). reflexivity. Qed.

(** as a struct field *)
Lemma as_struct_field name fs g d :
  fs <> [] -> struct_lookup_fold name fs = Some g -> num_carrier g d ->
  do_ident name (VStruct fs) = Ok (VDec d).
Proof.
  intros Hne Hl H. unfold do_ident. cbn. unfold get_values_by_name. cbn.
  unfold get_field_by_name. cbn. rewrite Hl. cbn. rewrite (convert_unless_string_carrier g d H). reflexivity.
Qed.

(** as a slice element read by First / Last / Index *)
Lemma first_elem t n g xs d : num_carrier g d ->
  run_func eng "First" [] (VSlice t n (g :: xs)) = Ok (VDec d).
Proof.
  intros H. change (run_func eng "First" [] (VSlice t n (g :: xs))) with (func_first [] (VSlice t n (g :: xs))).
  unfold func_first. cbn. rewrite (convert_number_carrier g d H). reflexivity.
Qed.

Lemma empty_guard_slice t n xs : empty_guard (value_of (VSlice t n xs)) = false.
Proof. unfold empty_guard, is_seq_kind. cbn. apply andb_false_r. Qed.

Lemma last_elem t n g xs d : num_carrier g d ->
  run_func eng "Last" [] (VSlice t n (xs ++ [g])) = Ok (VDec d).
Proof.
  intros H. change (run_func eng "Last" [] (VSlice t n (xs ++ [g]))) with (func_last [] (VSlice t n (xs ++ [g]))).
  unfold func_last. cbv zeta. change (negb (len_is [] 0)) with false. cbv iota.
  rewrite empty_guard_slice.
  change (elems_of (rv_v (deref1 (value_of (VSlice t n (xs ++ [g])))))) with (Some (t, xs ++ [g])).
  cbv iota beta.
  assert (Hn : nth_error (xs ++ [g]) (length (xs ++ [g]) - 1) = Some g).
  { rewrite app_length. cbn [length]. replace (length xs + 1 - 1)%nat with (length xs) by lia.
    rewrite nth_error_app2 by lia. rewrite Nat.sub_diag. reflexivity. }
  rewrite Hn. rewrite (convert_number_carrier g d H).
  destruct (xs ++ [g]) eqn:E; [destruct xs; discriminate|reflexivity].
Qed.

End Positions.
