(* Proofs/C18.v — the dispatch of the string functions by name, and the
   delegation of the regular-expression functions to the engine. *)
From Mpath.Model Require Import Base Dec Types GoVal Funcs.
From Mpath.Proofs Require Import Strings.

Section C18.
Variable eng : engines.

Lemma dispatch_contains ps v : run_func eng "Contains" ps v = string_bool_func contains false ps v. Proof. reflexivity. Qed.
Lemma dispatch_not_contains ps v : run_func eng "NotContains" ps v = string_bool_func contains true ps v. Proof. reflexivity. Qed.
Lemma dispatch_prefix ps v : run_func eng "Prefix" ps v = string_bool_func has_prefix false ps v. Proof. reflexivity. Qed.
Lemma dispatch_not_prefix ps v : run_func eng "NotPrefix" ps v = string_bool_func has_prefix true ps v. Proof. reflexivity. Qed.
Lemma dispatch_suffix ps v : run_func eng "Suffix" ps v = string_bool_func has_suffix false ps v. Proof. reflexivity. Qed.
Lemma dispatch_not_suffix ps v : run_func eng "NotSuffix" ps v = string_bool_func has_suffix true ps v. Proof. reflexivity. Qed.
Lemma dispatch_left ps v : run_func eng "Left" ps v = string_part_func SLeft ps v. Proof. reflexivity. Qed.
Lemma dispatch_right ps v : run_func eng "Right" ps v = string_part_func SRight ps v. Proof. reflexivity. Qed.
Lemma dispatch_trim_left ps v : run_func eng "TrimLeft" ps v = string_part_func STrimLeft ps v. Proof. reflexivity. Qed.
Lemma dispatch_trim_right ps v : run_func eng "TrimRight" ps v = string_part_func STrimRight ps v. Proof. reflexivity. Qed.
Lemma dispatch_replace_all ps v : run_func eng "ReplaceAll" ps v = func_replace_all ps v. Proof. reflexivity. Qed.
Lemma dispatch_match ps v : run_func eng "DoesMatchRegex" ps v = func_does_match_regex eng ps v. Proof. reflexivity. Qed.
Lemma dispatch_replace_regex ps v : run_func eng "ReplaceRegex" ps v = func_replace_regex eng ps v. Proof. reflexivity. Qed.

(** the substring family by name *)
Lemma substring_family (s p : str) :
  run_func eng "Contains" [RStr p] (VStr false s) = Ok (vbool (contains s p)) /\
  run_func eng "NotContains" [RStr p] (VStr false s) = Ok (vbool (negb (contains s p))) /\
  run_func eng "Prefix" [RStr p] (VStr false s) = Ok (vbool (has_prefix s p)) /\
  run_func eng "NotPrefix" [RStr p] (VStr false s) = Ok (vbool (negb (has_prefix s p))) /\
  run_func eng "Suffix" [RStr p] (VStr false s) = Ok (vbool (has_suffix s p)) /\
  run_func eng "NotSuffix" [RStr p] (VStr false s) = Ok (vbool (negb (has_suffix s p))).
Proof.
  rewrite dispatch_contains, dispatch_not_contains, dispatch_prefix, dispatch_not_prefix, dispatch_suffix, dispatch_not_suffix.
  repeat split; rewrite (string_bool_func_spec _ _ _ s p (params_first_string_single p));
    unfold vbool; f_equal; f_equal; auto using xorb_false_l, xorb_true_l.
Qed.

Definition part_name (w : spart) : string :=
  match w with SLeft => "Left" | SRight => "Right" | STrimLeft => "TrimLeft" | STrimRight => "TrimRight" end.

Lemma part_by_name w p (n : nat) (s : str) :
  denotes_nat p n -> Z.of_nat (length s) < 2 ^ 63 ->
  run_func eng (part_name w) [RNum p] (VStr false s) = Ok (VStr false (part w (Nat.min n (length s)) s)).
Proof.
  intros Hd Hl. rewrite <- (string_part_func_spec_gen w p n s Hd Hl). destruct w; reflexivity.
Qed.

Lemma replace_all_by_name (f r s : str) :
  f <> [] -> run_func eng "ReplaceAll" [RStr f; RStr r] (VStr false s) = Ok (VStr false (replace_all s f r)).
Proof. intros Hf. rewrite dispatch_replace_all. apply func_replace_all_spec; exact Hf. Qed.

(** DoesMatchRegex / ReplaceRegex hand pattern, subject and template to the
    engine in that order and return its answer untouched; a pattern the
    engine rejects is an error *)
Lemma match_regex_delegates (p s : str) :
  run_func eng "DoesMatchRegex" [RStr p] (VStr false s) =
  match eng_re_match eng p s with
  | Some (Some b) => Ok (vbool b)
  | Some None => fail "regular expression is invalid"
  | None => Declined "regexp oracle miss"
  end.
Proof. rewrite dispatch_match. unfold func_does_match_regex. rewrite params_first_string_single. cbn [bind]. reflexivity. Qed.

Lemma replace_regex_delegates (p tpl s : str) :
  p <> [] ->
  run_func eng "ReplaceRegex" [RStr p; RStr tpl] (VStr false s) =
  match eng_re_replace eng p s tpl with
  | Some (Some out) => Ok (vstr out)
  | Some None => fail "regular expression is invalid"
  | None => Declined "regexp oracle miss"
  end.
Proof.
  intros Hp. rewrite dispatch_replace_regex. unfold func_replace_regex. cbn.
  destruct p as [|c p']; [congruence|]. destruct (eng_re_replace eng (c :: p') s tpl) as [[out|]|]; reflexivity.
Qed.

End C18.
