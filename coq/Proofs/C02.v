(* Proofs/C02.v — a filter keeps exactly the matching elements, in order. *)
From Mpath.Model Require Import Base Dec Types GoVal Ast Lexer Parser Funcs Eval.
From Mpath.Spec Require Import Logic.
From Mpath.Proofs Require Import EvalMono C03.

(** the elements of [xs] whose flag in [bs] is true, in order *)
Fixpoint keep {A} (xs : list A) (bs : list bool) : list A :=
  match xs, bs with
  | x :: xs', b :: bs' => if b then x :: keep xs' bs' else keep xs' bs'
  | _, _ => []
  end.

Lemma keep_filter {A} (p : A -> bool) (xs : list A) : keep xs (map p xs) = filter p xs.
Proof. induction xs as [|x xs IH]; simpl; [reflexivity|]. destruct (p x); rewrite IH; reflexivity. Qed.

(** [keep] returns a subsequence: elements of the input, in their original
    order, unchanged *)
Inductive subseq {A} : list A -> list A -> Prop :=
| sub_nil : subseq [] []
| sub_skip x ys xs : subseq ys xs -> subseq ys (x :: xs)
| sub_take x ys xs : subseq ys xs -> subseq (x :: ys) (x :: xs).

Lemma subseq_nil_l {A} (xs : list A) : subseq [] xs.
Proof. induction xs; constructor; auto. Qed.

Lemma keep_subseq {A} (xs : list A) : forall bs, subseq (keep xs bs) xs.
Proof.
  induction xs as [|x xs IH]; intros [|b bs]; simpl.
  - constructor.
  - constructor.
  - apply subseq_nil_l.
  - destruct b; [apply sub_take | apply sub_skip]; apply IH.
Qed.

Lemma keep_in {A} (xs : list A) : forall bs y, In y (keep xs bs) -> In y xs.
Proof.
  induction xs as [|x xs IH]; intros [|b bs] y H; simpl in *; try contradiction.
  destruct b; simpl in H; [destruct H as [->|H]; [left; reflexivity|right; eauto]|right; eauto].
Qed.

Lemma filter_elems_spec (ev : gv -> outcome gv) :
  forall xs bs,
    Forall2 (fun x b => ev x = Ok (vbool b)) xs bs ->
    filter_elems ev xs = Ok (keep xs bs).
Proof.
  induction 1 as [|x b xs bs Hx Hrest IH]; simpl; [reflexivity|].
  rewrite Hx; simpl. rewrite IH; simpl. destruct b; reflexivity.
Qed.

Section C02.
Variable uni : uclass.
Variable eng : engines.

(** the collection a filter iterates over: any slice or array (typed or not,
    behind a pointer or not) that is not the map[string]any special case *)
Definition as_elems (cur : gv) : option (list gv) :=
  match get_as_struct_or_slice cur with
  | Some (VSlice _ _ xs, false) => Some xs
  | _ => None
  end.

Lemma filter_array fuel l us cur orig xs bs :
  as_elems cur = Some xs ->
  Forall2 (fun x b => eval uni eng fuel (NLog l) x orig = Ok (vbool b)) xs bs ->
  eval uni eng (S fuel) (NOp (PFilter l us)) cur orig = Ok (VSlice EAny false (keep xs bs)).
Proof.
  intros Ha H. cbn [eval]. unfold as_elems in Ha.
  destruct (get_as_struct_or_slice cur) as [[val flag]|]; [|discriminate].
  destruct val; try discriminate. destruct flag; try discriminate. inversion Ha; subst.
  rewrite (filter_elems_spec _ _ _ H). reflexivity.
Qed.

(** slices and arrays of every element type are collections *)
Lemma as_elems_slice t n xs : as_elems (VSlice t n xs) = Some xs.
Proof. unfold as_elems, get_as_struct_or_slice; simpl. destruct xs; reflexivity. Qed.
Lemma as_elems_array t xs : as_elems (VArray t xs) = Some xs.
Proof. unfold as_elems, get_as_struct_or_slice; simpl. destruct xs; reflexivity. Qed.
Lemma as_elems_ptr_slice t n xs : as_elems (VPtr (Some (VSlice t n xs))) = Some xs.
Proof. unfold as_elems, get_as_struct_or_slice; simpl. destruct xs; reflexivity. Qed.

Lemma filter_empty fuel l us cur orig :
  as_elems cur = Some [] ->
  eval uni eng (S fuel) (NOp (PFilter l us)) cur orig = Ok (VSlice EAny false []).
Proof. intros Ha. apply (filter_array fuel l us cur orig [] [] Ha). constructor. Qed.

(** one filter with a predicate list [ps] under AND/OR: the element is kept
    iff the conjunction / disjunction of its predicate values is true *)
Lemma filter_group_gen fuel inv is_and ps us us' cur orig xs (bsf : gv -> list bool) :
  as_elems cur = Some xs ->
  (forall x, In x xs -> Forall2 (fun p b => eval uni eng fuel (operand_node p) x orig = Ok (vbool b)) ps (bsf x)) ->
  eval uni eng (S (S fuel)) (NOp (PFilter (LogOp inv true (lot_of is_and) ps us) us')) cur orig
  = Ok (VSlice EAny false (filter (fun x => group_value is_and (bsf x)) xs)).
Proof.
  intros Ha H. rewrite <- keep_filter.
  apply filter_array; [exact Ha|].
  clear Ha. induction xs as [|x xs IH]; cbn [map]; constructor.
  - apply group_one_level. apply H; simpl; auto.
  - apply IH. intros y Hy. apply H; simpl; auto.
Qed.

Lemma filter_group fuel inv is_and ps us us' cur orig xs (val : gv -> operand -> bool) :
  as_elems cur = Some xs ->
  (forall x p, In x xs -> In p ps -> eval uni eng fuel (operand_node p) x orig = Ok (vbool (val x p))) ->
  eval uni eng (S (S fuel)) (NOp (PFilter (LogOp inv true (lot_of is_and) ps us) us')) cur orig
  = Ok (VSlice EAny false (filter (fun x => group_value is_and (map (val x) ps)) xs)).
Proof.
  intros Ha H. apply (filter_group_gen fuel inv is_and ps us us' cur orig xs (fun x => map (val x) ps) Ha).
  intros x Hx.
  assert (Hp : forall p, In p ps -> eval uni eng fuel (operand_node p) x orig = Ok (vbool (val x p))) by (intros; apply H; auto).
  clear -Hp. induction ps as [|p ps IHp]; simpl; constructor.
  - apply Hp; simpl; auto.
  - apply IHp. intros q Hq. apply Hp; simpl; auto.
Qed.

(** [coll[p][q]] equals [coll[AND,p,q]] *)
Lemma filter_chain fuel p q us1 us2 us3 u1 u2 u3 cur orig xs (vp vq : gv -> bool) :
  as_elems cur = Some xs ->
  (forall x, In x xs -> eval uni eng fuel (operand_node p) x orig = Ok (vbool (vp x))) ->
  (forall x, In x xs -> eval uni eng fuel (operand_node q) x orig = Ok (vbool (vq x))) ->
  exists mid,
    eval uni eng (S (S fuel)) (NOp (PFilter (LogOp false true LAnd [p] us1) u1)) cur orig = Ok mid /\
    eval uni eng (S (S fuel)) (NOp (PFilter (LogOp false true LAnd [q] us2) u2)) mid orig
    = eval uni eng (S (S fuel)) (NOp (PFilter (LogOp false true LAnd [p; q] us3) u3)) cur orig.
Proof.
  intros Ha Hp Hq. change LAnd with (lot_of true).
  eexists. split.
  - apply (filter_group_gen fuel false true [p] us1 u1 cur orig xs (fun x => [vp x]) Ha).
    intros x Hx. repeat constructor. apply Hp; exact Hx.
  - rewrite (filter_group_gen fuel false true [q] us2 u2 _ orig (filter (fun x => group_value true [vp x]) xs) (fun x => [vq x])).
    + rewrite (filter_group_gen fuel false true [p; q] us3 u3 cur orig xs (fun x => [vp x; vq x]) Ha).
      * f_equal. f_equal.
        clear. induction xs as [|x xs IH]; simpl in *; [reflexivity|].
        destruct (vp x); simpl; [destruct (vq x); simpl; rewrite IH; reflexivity | exact IH].
      * intros x Hx. repeat constructor; [apply Hp|apply Hq]; exact Hx.
    + apply as_elems_slice.
    + intros x Hx. repeat constructor. apply Hq. apply filter_In in Hx. tauto.
Qed.

(** applied to a single object the filter yields the object when the
    predicate is true and null otherwise *)
Lemma filter_object fuel l us cur orig val b :
  get_as_struct_or_slice cur = Some (val, true) ->
  eval uni eng fuel (NLog l) val orig = Ok (vbool b) ->
  eval uni eng (S fuel) (NOp (PFilter l us)) cur orig = Ok (if b then val else VNil).
Proof.
  intros Hg He. cbn [eval]. rewrite Hg, He. cbn [bind]. destruct b; reflexivity.
Qed.

Lemma json_object_is_object isnil kvs :
  get_as_struct_or_slice (VMap KtStr EAny isnil kvs) = Some (VMap KtStr EAny isnil kvs, true).
Proof. reflexivity. Qed.

Lemma struct_is_object fs : get_as_struct_or_slice (VStruct fs) = Some (VStruct fs, true).
Proof. reflexivity. Qed.

(** `$` is bound to the data the whole query was given, whatever the current
    element is; `@` to the current element, whatever the original data is *)
Lemma root_path_ignores_current fuel inv isf me ops us cur cur' orig :
  eval uni eng fuel (NPath (Path inv true isf me ops us)) cur orig
  = eval uni eng fuel (NPath (Path inv true isf me ops us)) cur' orig.
Proof. destruct fuel as [|k]; [reflexivity|]. cbn [eval]. reflexivity. Qed.

(** the element under test is what `@` denotes: the predicate of a filter is
    evaluated once per element with that element as current value *)
Lemma filter_binds_element fuel l us cur orig xs :
  as_elems cur = Some xs ->
  eval uni eng (S fuel) (NOp (PFilter l us)) cur orig
  = bind (filter_elems (fun x => eval uni eng fuel (NLog l) x orig) xs) (fun ys => Ok (VSlice EAny false ys)).
Proof.
  intros Ha. cbn [eval]. unfold as_elems in Ha.
  destruct (get_as_struct_or_slice cur) as [[val flag]|]; [|discriminate].
  destruct val; try discriminate. destruct flag; try discriminate. inversion Ha; subst. reflexivity.
Qed.

End C02.
