(* C15.v — getBlockedRootFields: termination on every graph, exact
   characterisation of the blocked set, errors on dangling dependencies,
   independence of the order of `_dependencies` lists.

   All general results are proved for [get_blocked_gen base input] with [base]
   and [input] arbitrary, and then instantiated at the generated
   [base_valid_fields] / [BP_Input]; nothing depends on their contents. *)
From Coq Require Import List Permutation Lia Arith.
From Mpath.Model Require Import Base Blocked.
From Mpath.Generated Require Import BasePaths.
From Mpath.Spec Require Import Reach.
Local Open Scope nat_scope.

(** * Strings and list-sets *)

Lemma str_eqb_refl a : str_eqb a a = true.
Proof.
  induction a as [|c a IH]; simpl; [reflexivity|].
  rewrite Ascii.eqb_refl, IH. reflexivity.
Qed.

Lemma str_eqb_eq a b : str_eqb a b = true <-> a = b.
Proof.
  split.
  - revert b. induction a as [|c a IH]; intros [|d b] Hab; simpl in Hab;
      try discriminate; [reflexivity|].
    apply andb_true_iff in Hab. destruct Hab as [Hc Hr].
    apply Ascii.eqb_eq in Hc. apply IH in Hr. subst. reflexivity.
  - intros Hab. subst. apply str_eqb_refl.
Qed.

Lemma str_dec (a b : str) : a = b \/ a <> b.
Proof.
  destruct (str_eqb a b) eqn:E.
  - left. apply str_eqb_eq. exact E.
  - right. intros Hab. subst. rewrite str_eqb_refl in E. discriminate.
Qed.

Lemma str_mem_In s l : str_mem s l = true <-> In s l.
Proof.
  induction l as [|x l IH]; simpl.
  - split; [discriminate | intros []].
  - rewrite orb_true_iff, IH, str_eqb_eq.
    split; intros [H1|H1]; subst; auto.
Qed.

Lemma str_mem_false s l : str_mem s l = false <-> ~ In s l.
Proof.
  destruct (str_mem s l) eqn:E.
  - split; [discriminate|]. intros Hn. exfalso. apply Hn. apply str_mem_In. exact E.
  - split; [|reflexivity]. intros _ Hin. apply str_mem_In in Hin. congruence.
Qed.

Lemma set_add_In x s v : In x (set_add s v) <-> x = s \/ In x v.
Proof.
  unfold set_add. destruct (str_mem s v) eqn:E.
  - split; [auto|]. intros [Hx|Hx]; [|exact Hx]. subst. apply str_mem_In. exact E.
  - simpl. split; intros [Hx|Hx]; subst; auto.
Qed.

Lemma set_add_all_In x l v : In x (set_add_all l v) <-> In x l \/ In x v.
Proof.
  unfold set_add_all. revert v. induction l as [|a l IH]; intros v; simpl.
  - split; [auto|]. intros [[]|Hx]. exact Hx.
  - rewrite IH, set_add_In. split.
    + intros [Hx|[Hx|Hx]]; subst; auto.
    + intros [[Hx|Hx]|Hx]; subst; auto.
Qed.

(** * The lookup *)

Lemma dep_list_cases deps d :
  (exists l, deps d = Ok l /\ dep_list deps d = Ok l) \/
  ((forall l, deps d <> Ok l) /\ exists e, dep_list deps d = Err e).
Proof.
  unfold dep_list, fail. destruct (deps d) as [l|e|m| |w].
  - left. exists l. split; reflexivity.
  - right. split; [intros l; discriminate|]. eexists; reflexivity.
  - right. split; [intros l; discriminate|]. eexists; reflexivity.
  - right. split; [intros l; discriminate|]. eexists; reflexivity.
  - right. split; [intros l; discriminate|]. eexists; reflexivity.
Qed.

(** * The inner loop *)

Lemma level_cons_cases deps d ds vis val nx :
  (In d vis /\ level deps (d :: ds) vis val nx = level deps ds vis val nx) \/
  (~ In d vis /\ exists l, deps d = Ok l /\
     level deps (d :: ds) vis val nx
     = level deps ds (d :: vis) (set_add_all l val) (nx ++ l)) \/
  (~ In d vis /\ (forall l, deps d <> Ok l) /\
     exists e, level deps (d :: ds) vis val nx = Err e).
Proof.
  simpl. destruct (str_mem d vis) eqn:E.
  - left. split; [apply str_mem_In; exact E | reflexivity].
  - apply str_mem_false in E. right.
    destruct (dep_list_cases deps d) as [[l [Hd Hl]]|[Hno [e Hl]]]; rewrite Hl.
    + left. split; [exact E|]. exists l. split; [exact Hd | reflexivity].
    + right. split; [exact E|]. split; [exact Hno|]. exists e. reflexivity.
Qed.

Lemma level_invariant deps (P : list str -> list str -> list str -> list str -> Prop) :
  (forall d ds vis val nx, In d vis -> P (d :: ds) vis val nx -> P ds vis val nx) ->
  (forall d ds vis val nx l, ~ In d vis -> deps d = Ok l ->
     P (d :: ds) vis val nx -> P ds (d :: vis) (set_add_all l val) (nx ++ l)) ->
  forall ds vis val nx vis' val' nx',
    level deps ds vis val nx = Ok (vis', val', nx') ->
    P ds vis val nx -> P [] vis' val' nx'.
Proof.
  intros Hskip Hvisit. induction ds as [|d ds IH]; intros vis val nx vis' val' nx' Hl HP.
  - simpl in Hl. inversion Hl; subst. exact HP.
  - destruct (level_cons_cases deps d ds vis val nx)
      as [[Hin Heq]|[[Hn [l [Hd Heq]]]|[Hn [Hno [e Heq]]]]]; rewrite Heq in Hl.
    + eapply IH; [exact Hl|]. eapply Hskip; eauto.
    + eapply IH; [exact Hl|]. eapply Hvisit; eauto.
    + discriminate.
Qed.

Lemma level_shape deps ds : forall vis val nx,
  (exists r, level deps ds vis val nx = Ok r) \/
  (exists e, level deps ds vis val nx = Err e).
Proof.
  induction ds as [|d ds IH]; intros vis val nx.
  - left. eexists. reflexivity.
  - destruct (level_cons_cases deps d ds vis val nx)
      as [[Hin Heq]|[[Hn [l [Hd Heq]]]|[Hn [Hno [e Heq]]]]]; rewrite Heq.
    + apply IH.
    + apply IH.
    + right. exists e. reflexivity.
Qed.

Lemma level_err deps ds : forall vis val nx e,
  level deps ds vis val nx = Err e ->
  exists d, In d ds /\ forall l, deps d <> Ok l.
Proof.
  induction ds as [|d ds IH]; intros vis val nx e Hl.
  - simpl in Hl. discriminate.
  - destruct (level_cons_cases deps d ds vis val nx)
      as [[Hin Heq]|[[Hn [l [Hd Heq]]]|[Hn [Hno [e' Heq]]]]]; rewrite Heq in Hl.
    + destruct (IH _ _ _ _ Hl) as [d' [Hin' Hno']]. exists d'. split; [right; exact Hin' | exact Hno'].
    + destruct (IH _ _ _ _ Hl) as [d' [Hin' Hno']]. exists d'. split; [right; exact Hin' | exact Hno'].
    + exists d. split; [left; reflexivity | exact Hno].
Qed.

(** * The outer loop *)

Lemma walk_nil fuel deps vis val : walk fuel deps [] vis val = Ok val.
Proof. destruct fuel; reflexivity. Qed.

Lemma walk_O deps d ds vis val : walk 0 deps (d :: ds) vis val = OutOfFuel.
Proof. reflexivity. Qed.

Lemma walk_S k deps d ds vis val :
  walk (S k) deps (d :: ds) vis val =
  match level deps (d :: ds) vis val [] with
  | Ok (vis', val', nx) => walk k deps nx vis' val'
  | Err e => Err e
  | Panic m => Panic m
  | OutOfFuel => OutOfFuel
  | Declined w => Declined w
  end.
Proof. reflexivity. Qed.

Lemma walk_S_cases k deps d ds vis val :
  (exists vis' val' nx,
     level deps (d :: ds) vis val [] = Ok (vis', val', nx) /\
     walk (S k) deps (d :: ds) vis val = walk k deps nx vis' val') \/
  (exists e, level deps (d :: ds) vis val [] = Err e /\
     walk (S k) deps (d :: ds) vis val = Err e).
Proof.
  rewrite walk_S.
  destruct (level_shape deps (d :: ds) vis val []) as [[[[vis' val'] nx] Hr]|[e Hr]];
    rewrite Hr.
  - left. exists vis', val', nx. split; reflexivity.
  - right. exists e. split; reflexivity.
Qed.

Lemma walk_ok_invariant deps (Q : list str -> list str -> list str -> Prop) :
  (forall ds vis val vis' val' nx,
     level deps ds vis val [] = Ok (vis', val', nx) -> Q ds vis val -> Q nx vis' val') ->
  forall fuel ds vis val val',
    walk fuel deps ds vis val = Ok val' -> Q ds vis val -> exists vis', Q [] vis' val'.
Proof.
  intros Hstep. induction fuel as [|k IH]; intros ds vis val val' Hw HQ.
  - destruct ds as [|d ds].
    + rewrite walk_nil in Hw. inversion Hw; subst. exists vis. exact HQ.
    + rewrite walk_O in Hw. discriminate.
  - destruct ds as [|d ds].
    + rewrite walk_nil in Hw. inversion Hw; subst. exists vis. exact HQ.
    + destruct (walk_S_cases k deps d ds vis val)
        as [[vis' [val1 [nx [Hl Heq]]]]|[e [Hl Heq]]]; rewrite Heq in Hw.
      * eapply IH; [exact Hw|]. eapply Hstep; eauto.
      * discriminate.
Qed.

Lemma walk_err_invariant deps (Q : list str -> list str -> list str -> Prop) :
  (forall ds vis val vis' val' nx,
     level deps ds vis val [] = Ok (vis', val', nx) -> Q ds vis val -> Q nx vis' val') ->
  forall fuel ds vis val e,
    walk fuel deps ds vis val = Err e -> Q ds vis val ->
    exists ds' vis' val', Q ds' vis' val' /\ level deps ds' vis' val' [] = Err e.
Proof.
  intros Hstep. induction fuel as [|k IH]; intros ds vis val e Hw HQ.
  - destruct ds as [|d ds].
    + rewrite walk_nil in Hw. discriminate.
    + rewrite walk_O in Hw. discriminate.
  - destruct ds as [|d ds].
    + rewrite walk_nil in Hw. discriminate.
    + destruct (walk_S_cases k deps d ds vis val)
        as [[vis' [val1 [nx [Hl Heq]]]]|[e' [Hl Heq]]]; rewrite Heq in Hw.
      * eapply IH; [exact Hw|]. eapply Hstep; eauto.
      * inversion Hw; subst. exists (d :: ds), vis, val. split; [exact HQ | exact Hl].
Qed.

Lemma walk_shape deps : forall fuel ds vis val,
  (exists v, walk fuel deps ds vis val = Ok v) \/
  (exists e, walk fuel deps ds vis val = Err e) \/
  walk fuel deps ds vis val = OutOfFuel.
Proof.
  induction fuel as [|k IH]; intros ds vis val.
  - destruct ds as [|d ds].
    + left. exists val. apply walk_nil.
    + right. right. reflexivity.
  - destruct ds as [|d ds].
    + left. exists val. apply walk_nil.
    + destruct (walk_S_cases k deps d ds vis val)
        as [[vis' [val1 [nx [Hl Heq]]]]|[e [Hl Heq]]]; rewrite Heq.
      * apply IH.
      * right. left. exists e. reflexivity.
Qed.

(** More fuel never changes an answer other than OutOfFuel. *)
Lemma walk_mono deps : forall fuel fuel' ds vis val,
  fuel <= fuel' ->
  walk fuel deps ds vis val <> OutOfFuel ->
  walk fuel' deps ds vis val = walk fuel deps ds vis val.
Proof.
  induction fuel as [|k IH]; intros fuel' ds vis val Hle Hne.
  - destruct ds as [|d ds].
    + rewrite !walk_nil. reflexivity.
    + exfalso. apply Hne. reflexivity.
  - destruct fuel' as [|k']; [lia|].
    destruct ds as [|d ds].
    + rewrite !walk_nil. reflexivity.
    + rewrite walk_S in Hne. rewrite !walk_S.
      destruct (level deps (d :: ds) vis val []) as [[[vis' val'] nx]|e|m| |w];
        try reflexivity.
      apply IH; [lia | exact Hne].
Qed.

(** * Termination: every non-empty level but the last visits a new root field *)

Section Termination.
  Variable deps : deps_fn.
  Variable fields : list str.
  Hypothesis Hroot : forall d l, deps d = Ok l -> In d fields.

  Definition TP (n0 : nat) (ds vis val nx : list str) : Prop :=
    NoDup vis /\ (forall v, In v vis -> In v fields) /\
    n0 <= length vis /\ (n0 < length vis \/ nx = []).

  Lemma level_progress ds vis val vis' val' nx :
    level deps ds vis val [] = Ok (vis', val', nx) ->
    NoDup vis -> (forall v, In v vis -> In v fields) ->
    NoDup vis' /\ (forall v, In v vis' -> In v fields) /\
    (length vis < length vis' \/ nx = []).
  Proof.
    intros Hl Hnd Hin.
    assert (HP : TP (length vis) [] vis' val' nx).
    { apply (level_invariant deps (TP (length vis))) with (ds := ds) (vis := vis) (val := val) (nx := []).
      - intros d ds0 vis0 val0 nx0 _ HT. exact HT.
      - intros d ds0 vis0 val0 nx0 l Hn Hd (Hnd0 & Hin0 & Hle0 & _).
        split; [constructor; assumption|].
        split; [intros v [Hv|Hv]; [subst; eapply Hroot; eauto | auto]|].
        simpl. split; [lia | left; lia].
      - exact Hl.
      - split; [exact Hnd|]. split; [exact Hin|]. split; [lia | right; reflexivity]. }
    destruct HP as (H1 & H2 & _ & H4). auto.
  Qed.

  Lemma walk_terminates : forall fuel ds vis val,
    NoDup vis -> (forall v, In v vis -> In v fields) ->
    length fields + 1 <= fuel + length vis ->
    walk fuel deps ds vis val <> OutOfFuel.
  Proof.
    induction fuel as [|k IH]; intros ds vis val Hnd Hin Hf.
    - destruct ds as [|d ds]; [rewrite walk_nil; discriminate|].
      exfalso. assert (Hlen : length vis <= length fields).
      { apply NoDup_incl_length; [exact Hnd | exact Hin]. }
      lia.
    - destruct ds as [|d ds]; [rewrite walk_nil; discriminate|].
      destruct (walk_S_cases k deps d ds vis val)
        as [[vis' [val1 [nx [Hl Heq]]]]|[e [Hl Heq]]]; rewrite Heq; [|discriminate].
      destruct (level_progress _ _ _ _ _ _ Hl Hnd Hin) as (Hnd' & Hin' & [Hlt|Hnx]).
      + apply IH; [exact Hnd' | exact Hin' | lia].
      + subst nx. rewrite walk_nil. discriminate.
  Qed.
End Termination.

(** * Correctness of the breadth-first closure *)

Lemma reach_right deps a b c : reach deps a b -> dep deps b c -> reach deps a c.
Proof.
  intros Hab. revert c. induction Hab as [a b Hd|a b c' Hd Hbc IH]; intros c Hc.
  - eapply reach_trans; [exact Hd|]. apply reach_step. exact Hc.
  - eapply reach_trans; [exact Hd|]. apply IH. exact Hc.
Qed.

Section Closure.
  Variable deps : deps_fn.
  Variable base : list str.
  Variable cur : str.
  Variable l0 : list str.
  Hypothesis Hcur : deps cur = Ok l0.

  Definition good (x : str) : Prop := x = cur \/ In x base \/ reach deps cur x.

  (** State of the inner loop: [ds] still to process, [nx] already queued. *)
  Definition LInv (ds vis val nx : list str) : Prop :=
    (forall x, In x val -> good x) /\
    (forall x, In x ds \/ In x nx -> reach deps cur x) /\
    (forall v, In v vis -> exists l, deps v = Ok l) /\
    (forall x, x = cur \/ In x base -> In x val) /\
    (forall x, In x l0 \/ (exists v, In v vis /\ dep deps v x) ->
               In x val /\ (In x vis \/ In x ds \/ In x nx)).

  Lemma LInv_skip d ds vis val nx :
    In d vis -> LInv (d :: ds) vis val nx -> LInv ds vis val nx.
  Proof.
    intros Hd (Hs & Hr & Hv & Hb & Hc).
    split; [exact Hs|].
    split; [intros x [Hx|Hx]; apply Hr; [left; right; exact Hx | right; exact Hx]|].
    split; [exact Hv|]. split; [exact Hb|].
    intros x Hx. destruct (Hc x Hx) as [H1 [H2|[[H2|H2]|H2]]]; subst; auto.
  Qed.

  Lemma LInv_visit d ds vis val nx l :
    ~ In d vis -> deps d = Ok l -> LInv (d :: ds) vis val nx ->
    LInv ds (d :: vis) (set_add_all l val) (nx ++ l).
  Proof.
    intros Hn Hd (Hs & Hr & Hv & Hb & Hc).
    assert (Hrd : reach deps cur d) by (apply Hr; left; left; reflexivity).
    assert (Hrl : forall x, In x l -> reach deps cur x).
    { intros x Hx. eapply reach_right; [exact Hrd|]. exists l. split; assumption. }
    assert (Hlift : forall x,
      In x val /\ (In x vis \/ In x (d :: ds) \/ In x nx) ->
      In x (set_add_all l val) /\ (In x (d :: vis) \/ In x ds \/ In x (nx ++ l))).
    { intros x [H1 H2]. split; [apply set_add_all_In; right; exact H1|].
      destruct H2 as [H2|[[H2|H2]|H2]].
      - left. right. exact H2.
      - left. left. exact H2.
      - right. left. exact H2.
      - right. right. apply in_or_app. left. exact H2. }
    split.
    { intros x Hx. apply set_add_all_In in Hx. destruct Hx as [Hx|Hx].
      - right. right. apply Hrl. exact Hx.
      - apply Hs. exact Hx. }
    split.
    { intros x [Hx|Hx].
      - apply Hr. left. right. exact Hx.
      - apply in_app_or in Hx. destruct Hx as [Hx|Hx].
        + apply Hr. right. exact Hx.
        + apply Hrl. exact Hx. }
    split.
    { intros v [Hx|Hx].
      - subst. exists l. exact Hd.
      - apply Hv. exact Hx. }
    split.
    { intros x Hx. apply set_add_all_In. right. apply Hb. exact Hx. }
    intros x [Hx|[v [[Hv1|Hv1] Hv2]]].
    - apply Hlift. apply Hc. left. exact Hx.
    - subst v. destruct Hv2 as [l' [Hl' Hxl]].
      assert (l' = l) by congruence. subst l'.
      split; [apply set_add_all_In; left; exact Hxl|].
      right. right. apply in_or_app. right. exact Hxl.
    - apply Hlift. apply Hc. right. exists v. split; assumption.
  Qed.

  Definition Inv (ds vis val : list str) : Prop := LInv ds vis val [].

  Lemma Inv_init : Inv l0 [] (set_add_all l0 (cur :: base)).
  Proof.
    assert (Hl0 : forall x, In x l0 -> reach deps cur x).
    { intros x Hx. apply reach_step. exists l0. split; assumption. }
    split.
    { intros x Hx. apply set_add_all_In in Hx. destruct Hx as [Hx|[Hx|Hx]].
      - right. right. apply Hl0. exact Hx.
      - left. symmetry. exact Hx.
      - right. left. exact Hx. }
    split.
    { intros x [Hx|[]]. apply Hl0. exact Hx. }
    split.
    { intros v []. }
    split.
    { intros x Hx. apply set_add_all_In. right. destruct Hx as [Hx|Hx].
      - left. symmetry. exact Hx.
      - right. exact Hx. }
    intros x [Hx|[v [[] _]]].
    split; [apply set_add_all_In; left; exact Hx|]. right. left. exact Hx.
  Qed.

  Lemma Inv_step ds vis val vis' val' nx :
    level deps ds vis val [] = Ok (vis', val', nx) -> Inv ds vis val -> Inv nx vis' val'.
  Proof.
    intros Hl HI.
    assert (HL : LInv [] vis' val' nx).
    { apply (level_invariant deps LInv) with (ds := ds) (vis := vis) (val := val) (nx := []).
      - intros. eapply LInv_skip; eauto.
      - intros. eapply LInv_visit; eauto.
      - exact Hl.
      - exact HI. }
    destruct HL as (Hs & Hr & Hv & Hb & Hc).
    split; [exact Hs|].
    split; [intros x [Hx|[]]; apply Hr; right; exact Hx|].
    split; [exact Hv|]. split; [exact Hb|].
    intros x Hx. destruct (Hc x Hx) as [H1 [H2|[[]|H2]]]; auto.
  Qed.

  (** When the loop ends, visited is closed under [dep] and contains [l0]. *)
  Lemma Inv_final_closed vis val :
    Inv [] vis val ->
    forall a b, reach deps a b -> a = cur \/ In a vis -> In b val /\ In b vis.
  Proof.
    intros (Hs & Hr & Hv & Hb & Hc).
    assert (Hone : forall a b, dep deps a b -> a = cur \/ In a vis -> In b val /\ In b vis).
    { intros a b Hd [Ha|Ha].
      - subst a. destruct Hd as [l [Hl Hbl]]. assert (l = l0) by congruence. subst l.
        destruct (Hc b (or_introl Hbl)) as [H1 [H2|[[]|[]]]]. split; assumption.
      - destruct (Hc b (or_intror (ex_intro _ a (conj Ha Hd)))) as [H1 [H2|[[]|[]]]].
        split; assumption. }
    intros a b Hab. induction Hab as [a b Hd|a b c Hd Hbc IH]; intros Ha.
    - apply Hone with (a := a); assumption.
    - apply IH. right. apply (Hone a b Hd Ha).
  Qed.

  Lemma walk_correct fuel val :
    walk fuel deps l0 [] (set_add_all l0 (cur :: base)) = Ok val ->
    (forall x, In x val <-> good x) /\
    exists vis, (forall x, reach deps cur x -> In x vis) /\
                (forall v, In v vis -> exists l, deps v = Ok l).
  Proof.
    intros Hw.
    destruct (walk_ok_invariant deps Inv Inv_step _ _ _ _ _ Hw Inv_init) as [vis HI].
    pose proof (Inv_final_closed vis val HI) as Hclosed.
    destruct HI as (Hs & Hr & Hv & Hb & Hc).
    split.
    - intros x. split; [apply Hs|].
      intros [Hx|[Hx|Hx]].
      + apply Hb. left. exact Hx.
      + apply Hb. right. exact Hx.
      + apply (Hclosed cur x Hx). left. reflexivity.
    - exists vis. split; [|exact Hv].
      intros x Hx. apply (Hclosed cur x Hx). left. reflexivity.
  Qed.

  Lemma walk_err_dangling fuel e :
    walk fuel deps l0 [] (set_add_all l0 (cur :: base)) = Err e ->
    exists d, reach deps cur d /\ forall l, deps d <> Ok l.
  Proof.
    intros Hw.
    destruct (walk_err_invariant deps Inv Inv_step _ _ _ _ _ Hw Inv_init)
      as [ds [vis [val [HI Hl]]]].
    destruct (level_err _ _ _ _ _ _ Hl) as [d [Hd Hno]].
    destruct HI as (_ & Hr & _). exists d. split; [|exact Hno].
    apply Hr. left. exact Hd.
  Qed.
End Closure.

(** * get_blocked_gen *)

Lemma get_blocked_gen_Ok base input fuel deps fields cur bl :
  get_blocked_gen base input fuel deps fields cur = Ok bl ->
  exists l0 val,
    deps cur = Ok l0 /\
    walk fuel deps l0 [] (set_add_all l0 (cur :: base)) = Ok val /\
    bl = (if str_eqb cur input then [] else [cur])
           ++ filter (fun f => negb (str_mem f val)) fields.
Proof.
  unfold get_blocked_gen. intros Hg.
  destruct (dep_list_cases deps cur) as [[l0 [Hd Hl]]|[_ [e Hl]]];
    rewrite Hl in Hg; cbn [bind] in Hg; [|discriminate].
  destruct (walk fuel deps l0 [] (set_add_all l0 (cur :: base))) as [val|e|m| |w] eqn:Hw;
    cbn [bind] in Hg; try discriminate.
  inversion Hg as [Hbl]. exists l0, val. split; [exact Hd|]. split; [exact Hw | reflexivity].
Qed.

Lemma get_blocked_gen_shape base input fuel deps fields cur :
  (exists bl, get_blocked_gen base input fuel deps fields cur = Ok bl) \/
  (exists e, get_blocked_gen base input fuel deps fields cur = Err e) \/
  get_blocked_gen base input fuel deps fields cur = OutOfFuel.
Proof.
  unfold get_blocked_gen.
  destruct (dep_list_cases deps cur) as [[l0 [Hd Hl]]|[_ [e Hl]]]; rewrite Hl; cbn [bind].
  - destruct (walk_shape deps fuel l0 [] (set_add_all l0 (cur :: base)))
      as [[v Hw]|[[e Hw]|Hw]]; rewrite Hw; cbn [bind].
    + left. eexists. reflexivity.
    + right. left. eexists. reflexivity.
    + right. right. reflexivity.
  - right. left. exists e. reflexivity.
Qed.

Lemma get_blocked_gen_mono base input fuel fuel' deps fields cur :
  fuel <= fuel' ->
  get_blocked_gen base input fuel deps fields cur <> OutOfFuel ->
  get_blocked_gen base input fuel' deps fields cur
  = get_blocked_gen base input fuel deps fields cur.
Proof.
  unfold get_blocked_gen. intros Hle Hne.
  destruct (dep_list deps cur) as [l0|e|m| |w]; cbn [bind] in *; try reflexivity.
  rewrite (walk_mono deps fuel fuel'); [reflexivity | exact Hle |].
  intros Hw. apply Hne. rewrite Hw. reflexivity.
Qed.

Lemma get_blocked_gen_terminates base input deps fields cur :
  (forall d l, deps d = Ok l -> In d fields) ->
  get_blocked_gen base input (blocked_fuel fields) deps fields cur <> OutOfFuel.
Proof.
  intros Hroot. unfold get_blocked_gen.
  destruct (dep_list_cases deps cur) as [[l0 [Hd Hl]]|[_ [e Hl]]]; rewrite Hl; cbn [bind];
    [|discriminate].
  assert (Hw : walk (blocked_fuel fields) deps l0 [] (set_add_all l0 (cur :: base)) <> OutOfFuel).
  { apply walk_terminates with (fields := fields).
    - exact Hroot.
    - constructor.
    - intros v [].
    - unfold blocked_fuel. simpl. lia. }
  destruct (walk (blocked_fuel fields) deps l0 [] (set_add_all l0 (cur :: base)));
    cbn [bind]; try discriminate. congruence.
Qed.

(** The blocked list as a set, with no side condition at all. *)
Lemma get_blocked_gen_char base input fuel deps fields cur bl :
  get_blocked_gen base input fuel deps fields cur = Ok bl ->
  forall f, In f bl <->
    (f = cur /\ cur <> input) \/
    (In f fields /\ f <> cur /\ ~ In f base /\ ~ reach deps cur f).
Proof.
  intros Hg f.
  destruct (get_blocked_gen_Ok _ _ _ _ _ _ _ Hg) as [l0 [val [Hd [Hw Hbl]]]].
  destruct (walk_correct deps base cur l0 Hd fuel val Hw) as [Hval _].
  assert (Hpre : In f (if str_eqb cur input then [] else [cur]) <-> f = cur /\ cur <> input).
  { destruct (str_eqb cur input) eqn:E.
    - apply str_eqb_eq in E. split; [intros []|]. intros [_ Hne]. contradiction.
    - split.
      + intros [Hf|[]]. split; [symmetry; exact Hf|].
        intros Heq. subst. rewrite str_eqb_refl in E. discriminate.
      + intros [Hf _]. left. symmetry. exact Hf. }
  subst bl. rewrite in_app_iff, Hpre, filter_In, negb_true_iff, str_mem_false, Hval.
  unfold good. split.
  - intros [H1|[H1 H2]]; [left; exact H1|]. right. split; [exact H1|].
    split; [intros Hx; apply H2; left; exact Hx|].
    split; [intros Hx; apply H2; right; left; exact Hx|].
    intros Hx; apply H2; right; right; exact Hx.
  - intros [H1|(H1 & H2 & H3 & H4)]; [left; exact H1|]. right. split; [exact H1|].
    intros [Hx|[Hx|Hx]]; contradiction.
Qed.

Lemma get_blocked_gen_dangling base input fuel deps fields cur d e :
  d = cur \/ reach deps cur d ->
  deps d = Err e ->
  (exists e', get_blocked_gen base input fuel deps fields cur = Err e') \/
  get_blocked_gen base input fuel deps fields cur = OutOfFuel.
Proof.
  intros Hd He.
  destruct (get_blocked_gen_shape base input fuel deps fields cur) as [[bl Hg]|[Hg|Hg]];
    [exfalso | left; exact Hg | right; exact Hg].
  destruct (get_blocked_gen_Ok _ _ _ _ _ _ _ Hg) as [l0 [val [Hc [Hw _]]]].
  destruct Hd as [Hd|Hd].
  - subst d. congruence.
  - destruct (walk_correct deps base cur l0 Hc fuel val Hw) as [_ [vis [Hvis Hok]]].
    destruct (Hok d (Hvis d Hd)) as [l Hl]. congruence.
Qed.

(** Conversely, an error always comes from a dangling dependency. *)
Lemma get_blocked_gen_err_only_dangling base input fuel deps fields cur e :
  get_blocked_gen base input fuel deps fields cur = Err e ->
  exists d, (d = cur \/ reach deps cur d) /\ forall l, deps d <> Ok l.
Proof.
  unfold get_blocked_gen. intros Hg.
  destruct (dep_list_cases deps cur) as [[l0 [Hd Hl]]|[Hno [e' Hl]]];
    rewrite Hl in Hg; cbn [bind] in Hg.
  - destruct (walk fuel deps l0 [] (set_add_all l0 (cur :: base))) as [val|e1|m| |w] eqn:Hw;
      cbn [bind] in Hg; try discriminate.
    destruct (walk_err_dangling deps base cur l0 Hd fuel e1 Hw) as [d [Hr Hnod]].
    exists d. split; [right; exact Hr | exact Hnod].
  - exists cur. split; [left; reflexivity | exact Hno].
Qed.

(** * Permuted dependency lists *)

Definition deps_perm (deps deps' : deps_fn) : Prop :=
  forall d, match deps d, deps' d with
            | Ok l, Ok l' => Permutation l l'
            | Err _, Err _ => True
            | _, _ => False
            end.

Lemma deps_perm_dep deps deps' a b : deps_perm deps deps' -> dep deps a b -> dep deps' a b.
Proof.
  intros Hp [l [Hl Hb]]. specialize (Hp a). rewrite Hl in Hp.
  destruct (deps' a) as [l'|e|m| |w] eqn:Hl'; try contradiction.
  exists l'. split; [exact Hl'|]. eapply Permutation_in; eauto.
Qed.

Lemma deps_perm_sym deps deps' : deps_perm deps deps' -> deps_perm deps' deps.
Proof.
  intros Hp d. specialize (Hp d).
  destruct (deps d) as [l|e|m| |w]; destruct (deps' d) as [l'|e'|m'| |w'];
    try contradiction; try exact I.
  apply Permutation_sym. exact Hp.
Qed.

Lemma deps_perm_reach deps deps' a b :
  deps_perm deps deps' -> reach deps a b -> reach deps' a b.
Proof.
  intros Hp Hab. induction Hab as [a b Hd|a b c Hd Hbc IH].
  - apply reach_step. eapply deps_perm_dep; eauto.
  - eapply reach_trans; [eapply deps_perm_dep; eauto | exact IH].
Qed.

(** * The C15 theorems *)

(** Fuel monotonicity. *)
Theorem C15_fuel_mono : forall fuel fuel' deps fields cur,
  fuel <= fuel' ->
  get_blocked fuel deps fields cur <> OutOfFuel ->
  get_blocked fuel' deps fields cur = get_blocked fuel deps fields cur.
Proof. intros. apply get_blocked_gen_mono; assumption. Qed.

(** Termination on every graph: cycles, self-loops, diamonds, fan-in. *)
Theorem C15_terminates : forall deps fields cur,
  (forall d l, deps d = Ok l -> In d fields) ->
  get_blocked (blocked_fuel fields) deps fields cur <> OutOfFuel.
Proof. intros deps fields cur H. apply get_blocked_gen_terminates. exact H. Qed.

Theorem C15_terminates_ge : forall fuel deps fields cur,
  (forall d l, deps d = Ok l -> In d fields) ->
  blocked_fuel fields <= fuel ->
  get_blocked fuel deps fields cur <> OutOfFuel.
Proof.
  intros fuel deps fields cur H Hle.
  rewrite (C15_fuel_mono (blocked_fuel fields) fuel); [| exact Hle |];
    apply C15_terminates; exact H.
Qed.

(** The blocked list as a set, unconditionally. *)
Theorem C15_blocked_char : forall fuel deps fields cur bl,
  get_blocked fuel deps fields cur = Ok bl ->
  forall f, In f bl <->
    (f = cur /\ cur <> BP_Input) \/
    (In f fields /\ f <> cur /\ ~ In f base_valid_fields /\ ~ reach deps cur f).
Proof. intros fuel deps fields cur bl H. apply get_blocked_gen_char with (fuel := fuel). exact H. Qed.

(** Blocked = not allowed, for root fields.  The side condition [Hcur] excludes
    a current step that is named like a base path other than "input": such a
    step is blocked by the Go code although [allowed] lets it through
    (see [C15_deviation_base_step] below). *)
Theorem C15_blocked_exact : forall fuel deps fields cur bl,
  (In cur base_valid_fields -> cur = BP_Input) ->
  get_blocked fuel deps fields cur = Ok bl ->
  forall f, In f fields ->
    (In f bl <-> ~ allowed deps base_valid_fields BP_Input cur f).
Proof.
  intros fuel deps fields cur bl Hcur Hg f Hf.
  rewrite (C15_blocked_char _ _ _ _ _ Hg f). unfold allowed.
  destruct (str_dec f cur) as [Heq|Hne].
  - subst f. split.
    + intros [[_ Hni]|(_ & Hne & _)]; [|congruence].
      intros [Hb|[[_ Hi]|[Hne _]]]; [apply Hni, Hcur, Hb | contradiction | congruence].
    + intros Hna. left. split; [reflexivity|]. intros Hi. apply Hna. right. left. split; [reflexivity | exact Hi].
  - split.
    + intros [[Heq _]|(_ & _ & Hnb & Hnr)]; [contradiction|].
      intros [Hb|[[Heq _]|[_ Hr]]]; contradiction.
    + intros Hna. right. split; [exact Hf|]. split; [exact Hne|].
      split; [intros Hb; apply Hna; left; exact Hb|].
      intros Hr. apply Hna. right. right. split; assumption.
Qed.

(** Without [Hcur], the equivalence still holds for every field but [cur]. *)
Theorem C15_blocked_exact_other : forall fuel deps fields cur bl,
  get_blocked fuel deps fields cur = Ok bl ->
  forall f, In f fields -> f <> cur ->
    (In f bl <-> ~ allowed deps base_valid_fields BP_Input cur f).
Proof.
  intros fuel deps fields cur bl Hg f Hf Hne.
  rewrite (C15_blocked_char _ _ _ _ _ Hg f). unfold allowed. split.
  - intros [[Heq _]|(_ & _ & Hnb & Hnr)]; [contradiction|].
    intros [Hb|[[Heq _]|[_ Hr]]]; contradiction.
  - intros Hna. right. split; [exact Hf|]. split; [exact Hne|].
    split; [intros Hb; apply Hna; left; exact Hb|].
    intros Hr. apply Hna. right. right. split; assumption.
Qed.

Theorem C15_current_step_blocked : forall fuel deps fields cur bl,
  get_blocked fuel deps fields cur = Ok bl -> cur <> BP_Input -> In cur bl.
Proof.
  intros fuel deps fields cur bl Hg Hne.
  apply (C15_blocked_char _ _ _ _ _ Hg cur). left. split; [reflexivity | exact Hne].
Qed.

(** A dangling dependency anywhere in the closure makes the call fail,
    whatever the fuel. *)
Theorem C15_error_on_dangling : forall fuel deps fields cur d e,
  d = cur \/ reach deps cur d ->
  deps d = Err e ->
  (exists e', get_blocked fuel deps fields cur = Err e') \/
  get_blocked fuel deps fields cur = OutOfFuel.
Proof. intros. eapply get_blocked_gen_dangling; eauto. Qed.

Corollary C15_error_on_dangling_not_ok : forall fuel deps fields cur d e bl,
  d = cur \/ reach deps cur d ->
  deps d = Err e ->
  get_blocked fuel deps fields cur <> Ok bl.
Proof.
  intros fuel deps fields cur d e bl Hd He Hg.
  destruct (C15_error_on_dangling fuel deps fields cur d e Hd He) as [[e' H1]|H1];
    rewrite H1 in Hg; discriminate.
Qed.

(** ... and that is the only source of errors. *)
Theorem C15_error_only_on_dangling : forall fuel deps fields cur e,
  get_blocked fuel deps fields cur = Err e ->
  exists d, (d = cur \/ reach deps cur d) /\ forall l, deps d <> Ok l.
Proof. intros. eapply get_blocked_gen_err_only_dangling; eauto. Qed.

(** Permuting any `_dependencies` list does not change the set of blocked fields. *)
Theorem C15_order_irrelevant : forall fuel fuel' deps deps' fields cur bl,
  (forall d l, deps d = Ok l -> In d fields) ->
  (forall d, match deps d, deps' d with
             | Ok l, Ok l' => Permutation l l'
             | Err _, Err _ => True
             | _, _ => False
             end) ->
  blocked_fuel fields <= fuel' ->
  get_blocked fuel deps fields cur = Ok bl ->
  exists bl', get_blocked fuel' deps' fields cur = Ok bl' /\
              (forall f, In f bl <-> In f bl').
Proof.
  intros fuel fuel' deps deps' fields cur bl Hroot Hp Hfuel Hg.
  assert (Hp' : deps_perm deps deps') by exact Hp.
  assert (Hps : deps_perm deps' deps) by (apply deps_perm_sym; exact Hp').
  assert (Hroot' : forall d l, deps' d = Ok l -> In d fields).
  { intros d l' Hd. specialize (Hp d). rewrite Hd in Hp.
    destruct (deps d) as [l|e|m| |w] eqn:Hdd; try contradiction. eapply Hroot; eauto. }
  pose proof (C15_terminates_ge fuel' deps' fields cur Hroot' Hfuel) as Hterm.
  destruct (get_blocked_gen_shape base_valid_fields BP_Input fuel' deps' fields cur)
    as [[bl' Hg']|[[e Hg']|Hg']].
  - exists bl'. split; [exact Hg'|]. intros f.
    rewrite (C15_blocked_char _ _ _ _ _ Hg f).
    rewrite (C15_blocked_char fuel' deps' fields cur bl' Hg' f).
    assert (Hr : reach deps cur f <-> reach deps' cur f).
    { split; apply deps_perm_reach; assumption. }
    rewrite Hr. reflexivity.
  - exfalso.
    destruct (C15_error_only_on_dangling _ _ _ _ _ Hg') as [d [Hd Hno]].
    assert (Hd' : d = cur \/ reach deps cur d).
    { destruct Hd as [Hd|Hd]; [left; exact Hd | right].
      eapply deps_perm_reach; [exact Hps | exact Hd]. }
    specialize (Hp d).
    destruct (deps d) as [l|e0|m| |w] eqn:Hdd; destruct (deps' d) as [l'|e'|m'| |w'] eqn:Hdd';
      try contradiction.
    + apply (Hno l'). reflexivity.
    + apply (C15_error_on_dangling_not_ok fuel deps fields cur d e0 bl Hd' Hdd Hg).
  - exfalso. apply Hterm. exact Hg'.
Qed.

(** * A concrete graph: five steps, "input" and "variables".
      s5 -> s4;  s4 -> s2, s3 (diamond onto s1);  s2 -> s1;  s3 -> s1, s3 (self-loop);
      s1 -> s2 (cycle s1 <-> s2). *)

Definition ex_name (s : string) : str := bs s.

Definition ex_deps : deps_fn := fun d =>
  if str_eqb d (ex_name "input") then Ok []
  else if str_eqb d (ex_name "s1") then Ok [ex_name "s2"]
  else if str_eqb d (ex_name "s2") then Ok [ex_name "s1"]
  else if str_eqb d (ex_name "s3") then Ok [ex_name "s1"; ex_name "s3"]
  else if str_eqb d (ex_name "s4") then Ok [ex_name "s2"; ex_name "s3"]
  else if str_eqb d (ex_name "s5") then Ok [ex_name "s4"]
  else fail "no _dependencies".

Definition ex_fields : list str :=
  map ex_name ["input"; "variables"; "s1"; "s2"; "s3"; "s4"; "s5"]%string.

Example C15_example :
  get_blocked (blocked_fuel ex_fields) ex_deps ex_fields (ex_name "s4")
  = Ok (map ex_name ["s4"; "s5"]%string).
Proof. vm_compute. reflexivity. Qed.

Example C15_example_cycle :
  get_blocked (blocked_fuel ex_fields) ex_deps ex_fields (ex_name "s2")
  = Ok (map ex_name ["s2"; "s3"; "s4"; "s5"]%string).
Proof. vm_compute. reflexivity. Qed.

Example C15_example_self_loop :
  get_blocked (blocked_fuel ex_fields) ex_deps ex_fields (ex_name "s3")
  = Ok (map ex_name ["s3"; "s4"; "s5"]%string).
Proof. vm_compute. reflexivity. Qed.

Example C15_example_top :
  get_blocked (blocked_fuel ex_fields) ex_deps ex_fields (ex_name "s5")
  = Ok (map ex_name ["s5"]%string).
Proof. vm_compute. reflexivity. Qed.

Example C15_example_input :
  get_blocked (blocked_fuel ex_fields) ex_deps ex_fields (ex_name "input")
  = Ok (map ex_name ["s1"; "s2"; "s3"; "s4"; "s5"]%string).
Proof. vm_compute. reflexivity. Qed.

(** The fuel bound is tight up to the slack of one: this graph needs 3 levels. *)
Example C15_example_fuel :
  get_blocked 2 ex_deps ex_fields (ex_name "s5") = OutOfFuel /\
  get_blocked 4 ex_deps ex_fields (ex_name "s5") = Ok (map ex_name ["s5"]%string).
Proof. split; vm_compute; reflexivity. Qed.

Example C15_example_dangling :
  get_blocked (blocked_fuel ex_fields)
    (fun d => if str_eqb d (ex_name "s1") then Ok [ex_name "nosuch"] else ex_deps d)
    ex_fields (ex_name "s4")
  = Err (EOther "no _dependencies").
Proof. vm_compute. reflexivity. Qed.

(** Where the Go code and [allowed] disagree: a current step that carries the
    name of a base path other than "input" (here "variables", with an empty
    `_dependencies` list) is reported as blocked, while [allowed] lets every
    base path through.  Hence the side condition of [C15_blocked_exact]. *)
Example C15_deviation_base_step :
  let deps : deps_fn :=
    fun d => if str_eqb d (ex_name "variables") then Ok [] else ex_deps d in
  let cur := ex_name "variables" in
  get_blocked (blocked_fuel ex_fields) deps ex_fields cur
    = Ok (map ex_name ["variables"; "s1"; "s2"; "s3"; "s4"; "s5"]%string) /\
  In cur ex_fields /\
  allowed deps base_valid_fields BP_Input cur cur.
Proof.
  split; [vm_compute; reflexivity|].
  split; [vm_compute; intuition reflexivity|].
  left. vm_compute. intuition reflexivity. (* wherever the name stands in the list *)
Qed.

Print Assumptions C15_fuel_mono.
Print Assumptions C15_terminates.
Print Assumptions C15_terminates_ge.
Print Assumptions C15_blocked_char.
Print Assumptions C15_blocked_exact.
Print Assumptions C15_blocked_exact_other.
Print Assumptions C15_current_step_blocked.
Print Assumptions C15_error_on_dangling.
Print Assumptions C15_error_on_dangling_not_ok.
Print Assumptions C15_error_only_on_dangling.
Print Assumptions C15_order_irrelevant.
Print Assumptions C15_example.
Print Assumptions C15_deviation_base_step.
