(* EvalMono.v — more fuel never changes an answer: if an evaluation ends with
   anything but OutOfFuel, every larger fuel gives the same outcome. *)
From Mpath.Model Require Import Base Dec Types GoVal Ast Lexer Parser Funcs Eval.
From Mpath.Generated Require Import FuncTable.

Definition stable {A B} (ev ev' : A -> outcome B) : Prop :=
  forall x r, ev x = r -> r <> OutOfFuel -> ev' x = r.

Lemma bind_not_oof {A B} (o : outcome A) (f : A -> outcome B) :
  bind o f <> OutOfFuel -> o <> OutOfFuel.
Proof. destruct o; simpl; congruence. Qed.

Ltac oof := try (subst; cbn [bind] in *; congruence).

Lemma path_ops_mono (ev ev' : pathop -> gv -> outcome gv) :
  (forall o d r, ev o d = r -> r <> OutOfFuel -> ev' o d = r) ->
  forall ops prev pn data le r,
    path_ops ev prev pn ops data le = r -> r <> OutOfFuel ->
    path_ops ev' prev pn ops data le = r.
Proof.
  intros H ops; induction ops as [|op rest IH]; intros prev pn data le r Hr Hn; simpl in *; auto.
  destruct (match prev with Some p => pn && negb (pathop_qmark p) && negb (pathop_is_func op) | None => false end); auto.
  destruct (ev op data) eqn:E; oof; rewrite (H _ _ _ E) by congruence; eauto.
  destruct e; auto. destruct (pathop_qmark op); eauto.
Qed.

Lemma log_ops_mono (ev ev' : operand -> outcome gv) :
  stable ev ev' ->
  forall t xs r, log_ops ev t xs = r -> r <> OutOfFuel -> log_ops ev' t xs = r.
Proof.
  intros H t xs; induction xs as [|x rest IH]; intros r Hr Hn; simpl in *; auto.
  destruct (ev x) eqn:E; oof; rewrite (H _ _ E) by congruence; simpl in *; auto.
  destruct a; auto. destruct named; auto. destruct t; destruct b; auto.
Qed.

Lemma filter_elems_mono (ev ev' : gv -> outcome gv) :
  stable ev ev' ->
  forall xs r, filter_elems ev xs = r -> r <> OutOfFuel -> filter_elems ev' xs = r.
Proof.
  intros H xs; induction xs as [|x rest IH]; intros r Hr Hn; simpl in *; auto.
  destruct (ev x) eqn:E; oof; rewrite (H _ _ E) by congruence; simpl in *; auto.
  destruct a; auto. destruct named; auto.
  destruct (filter_elems ev rest) eqn:E2; oof; rewrite (IH _ eq_refl) by congruence; simpl; auto.
Qed.

Lemma select_elems_mono (ev ev' : gv -> outcome gv) :
  stable ev ev' ->
  forall xs r, select_elems ev xs = r -> r <> OutOfFuel -> select_elems ev' xs = r.
Proof.
  intros H xs; induction xs as [|x rest IH]; intros r Hr Hn; simpl in *; auto.
  destruct (ev x) eqn:E; oof; rewrite (H _ _ E) by congruence; simpl in *; auto.
  destruct (select_elems ev rest) eqn:E2; oof; rewrite (IH _ eq_refl) by congruence; simpl; auto.
Qed.

Definition param_here (ev0 : node -> outcome gv) (p : param) : outcome (list rparam) :=
  match p with
  | FPNum d => Ok [RNum d]
  | FPStr s => Ok [RStr s]
  | FPBool b => Ok [RBool b]
  | FPPath q => do res <- ev0 (NPath q); spread_result res
  | FPLog l => do res <- ev0 (NLog l); spread_result res
  end.

Lemma eval_params_unfold ev p rest :
  eval_params ev (p :: rest) =
  bind (param_here ev p) (fun h => do more <- eval_params ev rest; Ok (h ++ more)).
Proof. destruct p; reflexivity. Qed.

Lemma eval_params_mono (ev ev' : node -> outcome gv) :
  stable ev ev' ->
  forall ps r, eval_params ev ps = r -> r <> OutOfFuel -> eval_params ev' ps = r.
Proof.
  intros H ps; induction ps as [|p rest IH]; intros r Hr Hn; auto.
  rewrite eval_params_unfold in *.
  assert (Heq : param_here ev p <> OutOfFuel -> param_here ev' p = param_here ev p).
  { unfold param_here. destruct p; auto; intros Hn';
      (destruct (ev _) eqn:E; oof; rewrite (H _ _ E) by congruence; reflexivity). }
  destruct (param_here ev p) eqn:E; oof; rewrite Heq by congruence; simpl in *; auto.
  destruct (eval_params ev rest) eqn:E2; oof; rewrite (IH _ eq_refl) by congruence; simpl; auto.
Qed.

Section Mono.
Variable uni : uclass.
Variable eng : engines.

Lemma eval_mono : forall fuel n cur orig r,
  eval uni eng fuel n cur orig = r -> r <> OutOfFuel -> eval uni eng (S fuel) n cur orig = r.
Proof.
  induction fuel as [|k IH]; intros n cur orig r Hr Hn.
  - simpl in Hr. subst. congruence.
  - assert (St : forall n0 o0, stable (fun x => eval uni eng k n0 x o0) (fun x => eval uni eng (S k) n0 x o0)).
    { intros n0 o0 x r0 Hx Hnx. apply IH; auto. }
    assert (Stt : forall t0, stable (fun x => eval uni eng k (NTop t0) x x) (fun x => eval uni eng (S k) (NTop t0) x x)).
    { intros t0 x r0 Hx Hnx. apply IH; auto. }
    assert (Stn : forall c0 o0, stable (fun m => eval uni eng k m c0 o0) (fun m => eval uni eng (S k) m c0 o0)).
    { intros c0 o0 x r0 Hx Hnx. apply IH; auto. }
    remember (S k) as fuel' eqn:Hf in |- *.
    cbn [eval] in Hr. cbn [eval]. rewrite Hf.
    destruct n as [p|o|f|l|t].
    + destruct p as [inv root isf me ops us].
      destruct (root && isf); auto.
      eapply path_ops_mono; [ | exact Hr | exact Hn ].
      intros o d r0 Ho Hno. apply IH; auto.
    + destruct o as [name q us|l us|f].
      * auto.
      * destruct (get_as_struct_or_slice cur) as [[val [|]]|]; auto.
        -- destruct (eval uni eng k (NLog l) val orig) eqn:E; oof;
             rewrite (IH _ _ _ _ E) by congruence; cbn [bind] in *; auto.
        -- destruct val; auto.
           destruct (filter_elems (fun x => eval uni eng k (NLog l) x orig) xs) eqn:E; oof;
             pose proof (filter_elems_mono _ _ (St (NLog l) orig) _ _ E) as E';
             rewrite E' by congruence; cbn [bind] in *; auto.
      * apply IH; auto.
    + destruct f as [inv ft ps us].
      destruct (eval_params (fun m => eval uni eng k m cur orig) ps) eqn:E; oof;
        pose proof (eval_params_mono _ _ (Stn cur orig) _ _ E) as E';
        rewrite E' by congruence; cbn [bind] in *; auto.
      destruct (find_fdesc_key ft func_table); auto.
      destruct (String.eqb (fd_key f) "Select"); auto.
      destruct (params_first_string a); cbn [bind] in *; auto.
      destruct (parse_string uni a0); auto.
      destruct (rv_v (deref1 (value_of (convert_number cur)))); auto.
      * destruct (select_elems (fun x => eval uni eng k (NTop a1) x x) xs) eqn:E2; oof;
          pose proof (select_elems_mono _ _ (Stt a1) _ _ E2) as E2';
          rewrite E2' by congruence; cbn [bind] in *; auto.
      * destruct (select_elems (fun x => eval uni eng k (NTop a1) x x) xs) eqn:E2; oof;
          pose proof (select_elems_mono _ _ (Stt a1) _ _ E2) as E2';
          rewrite E2' by congruence; cbn [bind] in *; auto.
      * destruct (sorted_values kvs); auto.
        destruct (select_elems (fun x => eval uni eng k (NTop a1) x x) l) eqn:E2; oof;
          pose proof (select_elems_mono _ _ (Stt a1) _ _ E2) as E2';
          rewrite E2' by congruence; cbn [bind] in *; auto.
    + destruct l as [inv isf t xs us].
      eapply log_ops_mono; [ | exact Hr | exact Hn ].
      intros x r0 Hx Hnx. destruct x; apply IH; auto.
    + destruct t; apply IH; auto.
Qed.

Lemma eval_mono_le : forall fuel fuel' n cur orig r,
  (fuel <= fuel')%nat ->
  eval uni eng fuel n cur orig = r -> r <> OutOfFuel -> eval uni eng fuel' n cur orig = r.
Proof.
  intros fuel fuel' n cur orig r Hle; induction Hle; intros Hr Hn; auto.
  apply eval_mono; auto.
Qed.

End Mono.
