(* DecMod.v — Decimal.Mod on operands with at most 15 significant digits.

   shopspring's Mod computes  a - b * trunc(q')  where q' is the quotient a / b
   ROUNDED to 16 decimal places (DivRound), not the exact quotient
   (Proofs/DecQ.v, [dmod_spec_trunc]).  This file proves that for operands whose
   coefficients have at most 15 decimal digits the rounding cannot move the
   quotient across an integer, so that

       dmod a b  =  a - b * trunc (a / b)                    ([dmod_exact_15])

   exactly, in Q; that the result is then smaller than the divisor in magnitude
   and has the sign of the dividend ([dmod_sign_and_bound]); and that the digit
   bound is needed ([dmod_rounding_counterexample]).

   Plan: integers first (section 1: the truncation of a half-away-rounded
   quotient), then the integer structure of quo_rem / div_round (section 2),
   then Q (section 3). *)

From Mpath.Model Require Import Base Dec.
From Mpath.Proofs Require Import DecQ.
From Coq Require Import ZArith QArith Qpower Qabs Qfield Lia Lqa List Morphisms.
Local Open Scope Q_scope.

(* nra is used in a few sign arguments of section 4; do not leave a cache file *)
Local Unset Nra Cache.
Local Arguments Z.pow : simpl never.
Local Arguments Z.quot : simpl never.
Local Arguments Z.rem : simpl never.

(* ------------------------------------------------------------------------- *)
(** * 1. Integers: truncating a rounded quotient                              *)
(* ------------------------------------------------------------------------- *)

(** [N] is [A / B] rounded to the nearest integer (any tie rule), everything
    non-negative.  [P = T * U] is the scale (10^16), [A = a0 * T].  If either
    the divisor is small ([B < 2T]) or the unscaled dividend is small
    ([a0 < 2P - 1]), then truncating [N / P] gives the same integer as
    truncating the exact [A / (B * P)]. *)
Lemma quot_round_nonneg :
  forall A B N P T U a0 : Z,
  (0 <= a0)%Z -> (0 < B)%Z -> (0 <= N)%Z -> (1 <= T)%Z -> (1 <= U)%Z ->
  P = (T * U)%Z -> A = (a0 * T)%Z ->
  (2 * Z.abs (N * B - A) <= B)%Z ->
  (B < 2 * T \/ a0 < 2 * P - 1)%Z ->
  Z.quot N P = Z.quot A (B * P).
Proof.
  intros A B N P T U a0 Ha0 HB HN HT HU HP HA Hround Hsmall.
  assert (HPpos : (0 < P)%Z) by nia.
  assert (HBP : (0 < B * P)%Z) by nia.
  assert (HApos : (0 <= A)%Z) by nia.
  pose proof (Z.quot_rem' A (B * P)) as Hqr.
  pose proof (Z.rem_bound_pos A (B * P) HApos HBP) as Hr.
  pose proof (Z.quot_pos A (B * P) HApos HBP) as Ht.
  remember (Z.quot A (B * P)) as t eqn:Het.
  remember (Z.rem A (B * P)) as r eqn:Her.
  clear Het Her.
  (* t*P <= N *)
  assert (Hlow : (t * P <= N)%Z).
  { destruct (Z_le_gt_dec (t * P) N) as [Hle | Hgt]; [exact Hle|]. exfalso.
    assert (H1 : ((N + 1) * B <= (t * P) * B)%Z)
      by (apply Z.mul_le_mono_nonneg_r; lia).
    assert (H2 : (t * P * B <= A)%Z) by lia.
    lia. }
  (* N < (t+1)*P *)
  assert (Hup : (N < (t + 1) * P)%Z).
  { destruct (Z_lt_ge_dec N ((t + 1) * P)) as [Hlt | Hge]; [exact Hlt|]. exfalso.
    set (k := (t + 1)%Z) in *.
    assert (Hk : (1 <= k)%Z) by (unfold k; lia).
    assert (H1 : (k * P * B <= N * B)%Z)
      by (apply Z.mul_le_mono_nonneg_r; lia).
    assert (H2 : (A < k * P * B)%Z) by (unfold k; lia).
    (* D = kPB - A is positive, at most B/2, and a multiple of T *)
    set (D' := (k * U * B - a0)%Z).
    assert (HD : (k * P * B - A = T * D')%Z) by (unfold D'; subst P A; ring).
    assert (HDpos : (1 <= T * D')%Z) by lia.
    assert (HDhalf : (2 * (T * D') <= B)%Z) by lia.
    assert (HD'pos : (1 <= D')%Z) by nia.
    assert (HTD : (T <= T * D')%Z) by nia.
    destruct Hsmall as [HBs | Has].
    - lia.
    - (* 2*T*a0 = 2kPB - 2TD' >= 2PB - B = B(2P-1) >= 2T(2P-1) *)
      assert (H3 : (2 * T * a0 = 2 * (k * P * B) - 2 * (T * D'))%Z)
        by (unfold D'; subst P; ring).
      assert (H4 : (P * B <= k * (P * B))%Z) by nia.
      assert (H5 : (B * (2 * P - 1) <= 2 * T * a0)%Z) by lia.
      assert (H6 : ((2 * T) * (2 * P - 1) <= B * (2 * P - 1))%Z)
        by (apply Z.mul_le_mono_nonneg_r; lia).
      assert (H7 : ((2 * T) * (2 * P - 1) <= (2 * T) * a0)%Z) by lia.
      assert (H8 : (2 * P - 1 <= a0)%Z)
        by (apply (Z.mul_le_mono_pos_l _ _ (2 * T)); lia).
      lia. }
  symmetry. apply (Z.quot_unique N P t (N - P * t)); lia.
Qed.

(** The rounded quotient of a non-negative dividend by a positive divisor is
    non-negative. *)
Lemma round_nonneg :
  forall aa bb n : Z, (0 <= aa)%Z -> (0 < bb)%Z ->
  (2 * Z.abs (n * bb - aa) <= bb)%Z -> (0 <= n)%Z.
Proof.
  intros aa bb n Haa Hbb Hround.
  destruct (Z_le_gt_dec 0 n) as [Hle | Hgt]; [exact Hle|]. exfalso.
  assert (H1 : (n * bb <= (-1) * bb)%Z)
    by (apply Z.mul_le_mono_nonneg_r; lia).
  lia.
Qed.

(** Signed dividend, positive divisor. *)
Lemma quot_round_pos_divisor :
  forall aa bb n P T U a0 : Z,
  (0 < bb)%Z -> (1 <= T)%Z -> (1 <= U)%Z ->
  P = (T * U)%Z -> aa = (a0 * T)%Z ->
  (2 * Z.abs (n * bb - aa) <= bb)%Z ->
  (bb < 2 * T \/ Z.abs a0 < 2 * P - 1)%Z ->
  Z.quot n P = Z.quot aa (bb * P).
Proof.
  intros aa bb n P T U a0 Hbb HT HU HP Haa Hround Hsmall.
  assert (HPpos : (0 < P)%Z) by nia.
  assert (HBP : (bb * P <> 0)%Z) by nia.
  destruct (Z_le_gt_dec 0 a0) as [Hpos | Hneg].
  - assert (Haa0 : (0 <= aa)%Z) by nia.
    apply (quot_round_nonneg aa bb n P T U a0); try assumption.
    + apply (round_nonneg aa bb n); assumption.
    + lia.
  - assert (Haa0 : (0 <= - aa)%Z) by nia.
    assert (Hround' : (2 * Z.abs (- n * bb - - aa) <= bb)%Z).
    { replace (- n * bb - - aa)%Z with (- (n * bb - aa))%Z by ring.
      rewrite Z.abs_opp. exact Hround. }
    assert (Hn : (0 <= - n)%Z)
      by (apply (round_nonneg (- aa) bb (- n)); assumption).
    assert (Hcore : Z.quot (- n) P = Z.quot (- aa) (bb * P)).
    { apply (quot_round_nonneg (- aa) bb (- n) P T U (- a0)); try assumption.
      - lia.
      - subst aa. ring.
      - lia. }
    rewrite (Z.quot_opp_l n P) in Hcore by lia.
    rewrite (Z.quot_opp_l aa (bb * P)) in Hcore by exact HBP.
    lia.
Qed.

(** Signed dividend and divisor. *)
Lemma quot_round_signed :
  forall aa bb n P T U a0 : Z,
  bb <> 0%Z -> (1 <= T)%Z -> (1 <= U)%Z ->
  P = (T * U)%Z -> aa = (a0 * T)%Z ->
  (2 * Z.abs (n * bb - aa) <= Z.abs bb)%Z ->
  (Z.abs bb < 2 * T \/ Z.abs a0 < 2 * P - 1)%Z ->
  Z.quot n P = Z.quot aa (bb * P).
Proof.
  intros aa bb n P T U a0 Hbb HT HU HP Haa Hround Hsmall.
  assert (HPpos : (0 < P)%Z) by nia.
  destruct (Z_lt_ge_dec 0 bb) as [Hpos | Hneg].
  - apply (quot_round_pos_divisor aa bb n P T U a0); try assumption; lia.
  - assert (Hbbneg : (0 < - bb)%Z) by lia.
    assert (HBP : (bb * P <> 0)%Z) by nia.
    assert (Hcore : Z.quot n P = Z.quot (- aa) (- bb * P)).
    { apply (quot_round_pos_divisor (- aa) (- bb) n P T U (- a0));
        try assumption.
      - subst aa. ring.
      - replace (n * - bb - - aa)%Z with (- (n * bb - aa))%Z by ring.
        rewrite Z.abs_opp. lia.
      - rewrite Z.abs_opp. lia. }
    rewrite Hcore.
    replace (- bb * P)%Z with (- (bb * P))%Z by ring.
    apply Z.quot_opp_opp. exact HBP.
Qed.

(* ------------------------------------------------------------------------- *)
(** * 2. The integer structure of QuoRem and DivRound                         *)
(* ------------------------------------------------------------------------- *)

(** [quo_rem_shape] of DecQ.v, with the extra information needed here: the
    scaled dividend is [aa = a0 * T] where [T] divides [10^prec], and either
    [a0] is the coefficient of [a] itself, or nothing was scaled on the divisor
    side and [T] is all of [10^prec]. *)
Lemma quo_rem_shape_ext :
  forall a b prec, coef b <> 0%Z -> (0 <= prec)%Z ->
  exists aa bb pa pb er a0 T U,
    (0 < pa)%Z /\ (0 < pb)%Z /\
    aa = (coef a * pa)%Z /\ bb = (coef b * pb)%Z /\
    quo_rem a b prec = (mkDec (Z.quot aa bb) (- prec), mkDec (Z.rem aa bb) er) /\
    dval a / dval b == inject_Z aa / inject_Z bb * pow10Q (- prec) /\
    pow10Q (dexp b) == inject_Z pb * pow10Q (er + prec) /\
    (1 <= T)%Z /\ (1 <= U)%Z /\ pow10 prec = (T * U)%Z /\ aa = (a0 * T)%Z /\
    (a0 = coef a \/ (bb = coef b /\ T = pow10 prec)).
Proof.
  intros a b prec Hb Hprec.
  assert (Hcb : ~ inject_Z (coef b) == 0) by (apply inject_Z_nz; exact Hb).
  assert (HPpos : (0 < pow10 prec)%Z) by (apply pow10_pos; exact Hprec).
  unfold quo_rem. cbv zeta.
  remember (dexp a - dexp b - - prec)%Z as e eqn:He.
  destruct (e <? 0)%Z eqn:Hlt.
  - apply Z.ltb_lt in Hlt.
    exists (coef a), (coef b * pow10 (- e))%Z, 1%Z, (pow10 (- e)), (dexp a),
           (coef a), 1%Z, (pow10 prec).
    assert (Hpp : (0 < pow10 (- e))%Z) by (apply pow10_pos; lia).
    split; [lia|]. split; [exact Hpp|]. split; [lia|]. split; [reflexivity|].
    split; [reflexivity|].
    assert (HE : pow10Q (- e) == inject_Z (pow10 (- e)))
      by (apply pow10Q_nonneg; lia).
    assert (HB : pow10Q (dexp b) == pow10Q (dexp a) * pow10Q (- e) * pow10Q prec).
    { rewrite <- !pow10Q_plus.
      replace (dexp a + - e + prec)%Z with (dexp b) by lia. reflexivity. }
    split; [|split].
    + unfold dval. rewrite inject_Z_mult, <- HE, HB, (pow10Q_opp prec).
      pose proof (pow10Q_nz (dexp a)) as HnA. pose proof (pow10Q_nz (- e)) as HnE.
      pose proof (pow10Q_nz prec) as HnR.
      generalize dependent (pow10Q (dexp a)). intros A _ HnA.
      generalize dependent (pow10Q (- e)). intros E _ HnE.
      generalize dependent (pow10Q prec). intros R HnR.
      generalize dependent (inject_Z (coef b)). intros cb Hcb.
      generalize (inject_Z (coef a)). intro ca.
      field. repeat split; assumption.
    + rewrite <- HE, HB, pow10Q_plus. ring.
    + split; [lia|]. split; [lia|]. split; [lia|]. split; [lia|].
      left. reflexivity.
  - apply Z.ltb_ge in Hlt.
    assert (Hpp : (0 < pow10 e)%Z) by (apply pow10_pos; lia).
    assert (HE : pow10Q e == inject_Z (pow10 e))
      by (apply pow10Q_nonneg; lia).
    assert (HA : pow10Q (dexp a) == pow10Q (dexp b) * pow10Q e * pow10Q (- prec)).
    { rewrite <- !pow10Q_plus.
      replace (dexp b + e + - prec)%Z with (dexp a) by lia. reflexivity. }
    assert (Hdiv : dval a / dval b ==
                   inject_Z (coef a * pow10 e) / inject_Z (coef b) * pow10Q (- prec)).
    { unfold dval. rewrite inject_Z_mult, <- HE, HA.
      pose proof (pow10Q_nz (dexp b)) as HnB.
      generalize dependent (pow10Q (dexp b)). intros B _ HnB.
      generalize (pow10Q e). intro E.
      generalize (pow10Q (- prec)). intro R.
      generalize dependent (inject_Z (coef b)). intros cb Hcb.
      generalize (inject_Z (coef a)). intro ca.
      field. split; assumption. }
    assert (Hpow : pow10Q (dexp b) == inject_Z 1 * pow10Q (- prec + dexp b + prec)).
    { replace (- prec + dexp b + prec)%Z with (dexp b) by lia.
      change (inject_Z 1) with 1. ring. }
    destruct (Z_lt_ge_dec e prec) as [Hsmall | Hbig].
    + (* 0 <= e < prec: T = 10^e *)
      exists (coef a * pow10 e)%Z, (coef b), (pow10 e), 1%Z, (- prec + dexp b)%Z,
             (coef a), (pow10 e), (pow10 (prec - e)).
      assert (Hpu : (0 < pow10 (prec - e))%Z) by (apply pow10_pos; lia).
      split; [exact Hpp|]. split; [lia|]. split; [reflexivity|]. split; [lia|].
      split; [reflexivity|]. split; [exact Hdiv|]. split; [exact Hpow|].
      split; [lia|]. split; [lia|]. split.
      * unfold pow10. rewrite <- Z.pow_add_r by lia. f_equal. lia.
      * split; [reflexivity|]. left. reflexivity.
    + (* prec <= e: T = 10^prec *)
      exists (coef a * pow10 e)%Z, (coef b), (pow10 e), 1%Z, (- prec + dexp b)%Z,
             (coef a * pow10 (e - prec))%Z, (pow10 prec), 1%Z.
      split; [exact Hpp|]. split; [lia|]. split; [reflexivity|]. split; [lia|].
      split; [reflexivity|]. split; [exact Hdiv|]. split; [exact Hpow|].
      split; [lia|]. split; [lia|]. split; [lia|]. split.
      * rewrite <- Z.mul_assoc. f_equal.
        unfold pow10. rewrite <- Z.pow_add_r by lia. f_equal. lia.
      * right. split; reflexivity.
Qed.

(** DivRound returns [n * 10^-prec] where the integer [n] is [aa / bb] rounded
    to a nearest integer. *)
Lemma div_round_int :
  forall a b prec, coef b <> 0%Z -> (0 <= prec)%Z ->
  exists aa bb a0 T U n,
    bb <> 0%Z /\ (1 <= T)%Z /\ (1 <= U)%Z /\ pow10 prec = (T * U)%Z /\
    aa = (a0 * T)%Z /\
    (a0 = coef a \/ (bb = coef b /\ T = pow10 prec)) /\
    dval a / dval b == inject_Z aa / inject_Z bb * pow10Q (- prec) /\
    dval (div_round a b prec) == inject_Z n * pow10Q (- prec) /\
    (2 * Z.abs (n * bb - aa) <= Z.abs bb)%Z.
Proof.
  intros a b prec Hb Hprec.
  destruct (quo_rem_shape_ext a b prec Hb Hprec)
    as (aa & bb & pa & pb & er & a0 & T & U & Hpa & Hpb & Haa & Hbb & Hqr & Hdiv
        & Hpow & HT & HU & HP & Haa0 & Hcase).
  assert (Hbbnz : bb <> 0%Z) by nia.
  assert (Hsa : Z.sgn (coef a) = Z.sgn aa).
  { rewrite Haa, Z.sgn_mul, (Z.sgn_pos pa Hpa). lia. }
  assert (Hsb : Z.sgn (coef b) = Z.sgn bb).
  { rewrite Hbb, Z.sgn_mul, (Z.sgn_pos pb Hpb). lia. }
  assert (Habs : Z.abs bb = (Z.abs (coef b) * pb)%Z).
  { rewrite Hbb, Z.abs_mul, (Z.abs_eq pb) by lia. reflexivity. }
  exists aa, bb, a0, T, U.
  unfold div_round. rewrite Hqr. cbv iota. cbn [coef dexp].
  rewrite Hsa, Hsb.
  assert (Hcmp : dcmp (mkDec (Z.abs (Z.rem aa bb) * 2) (er + prec)) (dabs b)
                 = (Z.abs (Z.rem aa bb) * 2 ?= Z.abs bb)%Z).
  { rewrite dcmp_spec, dval_mk.
    assert (Hab : dval (dabs b) == inject_Z (Z.abs bb) * pow10Q (er + prec)).
    { unfold dabs. rewrite dval_mk, Hpow, Habs, inject_Z_mult. ring. }
    rewrite Hab. apply Qcompare_scale. apply pow10Q_pos. }
  rewrite Hcmp. clear Hcmp.
  destruct (Zround_half aa bb Hbbnz) as (HLt & HNeg & HPos).
  assert (Hone : dval (mkDec 1 (- prec)) == pow10Q (- prec)).
  { rewrite dval_mk. change (inject_Z 1) with 1. ring. }
  assert (Hup : (Z.abs bb <= Z.abs (Z.rem aa bb) * 2)%Z ->
    exists n,
    bb <> 0%Z /\ (1 <= T)%Z /\ (1 <= U)%Z /\ pow10 prec = (T * U)%Z /\
    aa = (a0 * T)%Z /\
    (a0 = coef a \/ (bb = coef b /\ T = pow10 prec)) /\
    dval a / dval b == inject_Z aa / inject_Z bb * pow10Q (- prec) /\
    dval (if (Z.sgn aa * Z.sgn bb <? 0)%Z
          then dsub (mkDec (Z.quot aa bb) (- prec)) (mkDec 1 (- prec))
          else dadd (mkDec (Z.quot aa bb) (- prec)) (mkDec 1 (- prec)))
      == inject_Z n * pow10Q (- prec) /\
    (2 * Z.abs (n * bb - aa) <= Z.abs bb)%Z).
  { intro Hge.
    destruct (Z.sgn aa * Z.sgn bb <? 0)%Z eqn:Hsg.
    - apply Z.ltb_lt in Hsg. exists (Z.quot aa bb - 1)%Z.
      repeat (split; [assumption|]). split.
      + rewrite dsub_exact, Hone, dval_mk. unfold Z.sub.
        rewrite inject_Z_plus, inject_Z_opp. change (inject_Z 1) with 1. ring.
      + apply HNeg; assumption.
    - apply Z.ltb_ge in Hsg. exists (Z.quot aa bb + 1)%Z.
      repeat (split; [assumption|]). split.
      + rewrite dadd_exact, Hone, dval_mk.
        rewrite inject_Z_plus. change (inject_Z 1) with 1. ring.
      + apply HPos; [assumption | lia]. }
  destruct (Z.compare_spec (Z.abs (Z.rem aa bb) * 2) (Z.abs bb)) as [Heq | Hlt | Hgt].
  - apply Hup. lia.
  - exists (Z.quot aa bb). repeat (split; [assumption|]). split.
    + rewrite dval_mk. reflexivity.
    + apply HLt. exact Hlt.
  - apply Hup. lia.
Qed.

(* ------------------------------------------------------------------------- *)
(** * 3. Rationals                                                            *)
(* ------------------------------------------------------------------------- *)

(** Truncating a quotient of two integers is [Z.quot]. *)
Lemma Qtrunc_div :
  forall x y, y <> 0%Z -> Qtrunc (inject_Z x / inject_Z y) = Z.quot x y.
Proof.
  intros x y Hy.
  destruct (Z_lt_ge_dec 0 y) as [Hpos | Hneg].
  - assert (Hq : inject_Z x / inject_Z y == x # Z.to_pos y).
    { rewrite Qmake_Qdiv, Z2Pos.id by exact Hpos. reflexivity. }
    rewrite Hq. unfold Qtrunc. cbn [Qnum Qden].
    rewrite Z2Pos.id by exact Hpos. reflexivity.
  - assert (Hny : (0 < - y)%Z) by lia.
    assert (Hq : inject_Z x / inject_Z y == (- x) # Z.to_pos (- y)).
    { rewrite Qmake_Qdiv, Z2Pos.id by exact Hny.
      rewrite !inject_Z_opp. field. apply inject_Z_nz. exact Hy. }
    rewrite Hq. unfold Qtrunc. cbn [Qnum Qden].
    rewrite Z2Pos.id by exact Hny. apply Z.quot_opp_opp. exact Hy.
Qed.

Lemma pow10Q_neg_inv :
  forall k, (0 <= k)%Z -> pow10Q (- k) == / inject_Z (pow10 k).
Proof.
  intros k Hk. rewrite pow10Q_opp, (pow10Q_nonneg k Hk). reflexivity.
Qed.

Lemma Qtrunc_scaled :
  forall n k, (0 <= k)%Z ->
  Qtrunc (inject_Z n * pow10Q (- k)) = Z.quot n (pow10 k).
Proof.
  intros n k Hk.
  assert (Hp : (0 < pow10 k)%Z) by (apply pow10_pos; exact Hk).
  rewrite (pow10Q_neg_inv k Hk).
  change (inject_Z n * / inject_Z (pow10 k)) with (inject_Z n / inject_Z (pow10 k)).
  apply Qtrunc_div. lia.
Qed.

Lemma Qtrunc_div_scaled :
  forall aa bb k, bb <> 0%Z -> (0 <= k)%Z ->
  Qtrunc (inject_Z aa / inject_Z bb * pow10Q (- k)) = Z.quot aa (bb * pow10 k).
Proof.
  intros aa bb k Hbb Hk.
  assert (Hp : (0 < pow10 k)%Z) by (apply pow10_pos; exact Hk).
  assert (Hnz : (bb * pow10 k)%Z <> 0%Z) by nia.
  assert (Hq : inject_Z aa / inject_Z bb * pow10Q (- k) ==
               inject_Z aa / inject_Z (bb * pow10 k)).
  { rewrite (pow10Q_neg_inv k Hk), inject_Z_mult. field. split.
    - apply inject_Z_nz. lia.
    - apply inject_Z_nz. exact Hbb. }
  rewrite Hq. apply Qtrunc_div. exact Hnz.
Qed.

(** Operands with at most 15 significant decimal digits. *)
Definition digits15 (d : dec) : Prop := (Z.abs (coef d) < 10 ^ 15)%Z.

(** The key fact: rounding the quotient to 16 places does not change its
    integer part. *)
Theorem ddiv_trunc_exact_15 :
  forall a b, digits15 a -> digits15 b -> coef b <> 0%Z ->
  Qtrunc (dval (ddiv a b)) = Qtrunc (dval a / dval b).
Proof.
  intros a b Ha Hb Hnz. unfold digits15 in Ha, Hb.
  unfold ddiv, division_precision.
  destruct (div_round_int a b 16 Hnz ltac:(lia))
    as (aa & bb & a0 & T & U & n & Hbb & HT & HU & HP & Haa & Hcase & Hdiv
        & Hval & Hround).
  rewrite Hval, Hdiv.
  rewrite (Qtrunc_scaled n 16) by lia.
  rewrite (Qtrunc_div_scaled aa bb 16 Hbb) by lia.
  assert (H16 : pow10 16 = 10000000000000000%Z) by reflexivity.
  assert (H15 : (10 ^ 15 = 1000000000000000)%Z) by reflexivity.
  apply (quot_round_signed aa bb n (pow10 16) T U a0); try assumption.
  destruct Hcase as [Ha0 | [Hbb' HT']].
  - right. subst a0. lia.
  - left. subst bb T. lia.
Qed.

Theorem dmod_exact_15 :
  forall a b, digits15 a -> digits15 b -> coef b <> 0%Z ->
  dval (dmod a b) == dval a - dval b * inject_Z (Qtrunc (dval a / dval b)).
Proof.
  intros a b Ha Hb Hnz.
  rewrite dmod_spec_trunc, (ddiv_trunc_exact_15 a b Ha Hb Hnz). reflexivity.
Qed.

(* ------------------------------------------------------------------------- *)
(** * 4. Consequences: magnitude and sign of the remainder                    *)
(* ------------------------------------------------------------------------- *)

(** The fractional part left by truncation has the sign of the number. *)
Lemma Qtrunc_frac_sign :
  forall q,
  (0 <= q -> 0 <= q - inject_Z (Qtrunc q)) /\
  (q <= 0 -> q - inject_Z (Qtrunc q) <= 0).
Proof.
  intro q. destruct (Qtrunc_spec q) as (H1 & _ & H3 & H4). split; intro Hq.
  - specialize (H3 Hq). rewrite (Qabs_pos _ H3), (Qabs_pos _ Hq) in H1. lra.
  - specialize (H4 Hq). rewrite (Qabs_neg _ H4), (Qabs_neg _ Hq) in H1. lra.
Qed.

(** The truncated remainder x - y * trunc (x / y) of two rationals. *)
Lemma Qrem_trunc_spec :
  forall x y, ~ y == 0 ->
  let r := x - y * inject_Z (Qtrunc (x / y)) in
  Qabs r < Qabs y /\ (0 <= x -> 0 <= r) /\ (x <= 0 -> r <= 0).
Proof.
  intros x y Hy. cbv zeta.
  assert (Hx : x == y * (x / y)) by (field; exact Hy).
  remember (x / y) as q eqn:Hq. clear Hq.
  destruct (Qtrunc_spec q) as (_ & Hfrac & _ & _).
  destruct (Qtrunc_frac_sign q) as (Hfp & Hfn).
  remember (inject_Z (Qtrunc q)) as t eqn:Het. clear Het.
  assert (Hr : x - y * t == y * (q - t)) by (rewrite Hx; ring).
  split; [|split].
  - rewrite Hr, Qabs_Qmult.
    assert (Hay : 0 < Qabs y).
    { apply (Qabs_case y (fun v => 0 < v)); intro Hs.
      - destruct (Qle_lt_or_eq _ _ Hs) as [Hlt | Heq]; [exact Hlt|].
        exfalso. apply Hy. symmetry. exact Heq.
      - destruct (Qle_lt_or_eq _ _ Hs) as [Hlt | Heq]; [lra|].
        exfalso. apply Hy. exact Heq. }
    rewrite <- (Qmult_1_r (Qabs y)) at 2.
    apply Qmult_lt_l; assumption.
  - intro Hx0. rewrite Hr.
    destruct (Q_dec y 0) as [[Hneg | Hpos] | Hz]; [| |exfalso; exact (Hy Hz)].
    + assert (Hq0 : q <= 0) by nra.
      specialize (Hfn Hq0). nra.
    + assert (Hq0 : 0 <= q) by nra.
      specialize (Hfp Hq0). nra.
  - intro Hx0. rewrite Hr.
    destruct (Q_dec y 0) as [[Hneg | Hpos] | Hz]; [| |exfalso; exact (Hy Hz)].
    + assert (Hq0 : 0 <= q) by nra.
      specialize (Hfp Hq0). nra.
    + assert (Hq0 : q <= 0) by nra.
      specialize (Hfn Hq0). nra.
Qed.

(** For 15-digit operands Mod is the truncated remainder: smaller than the
    divisor in magnitude, and of the sign of the dividend (or zero). *)
Theorem dmod_sign_and_bound :
  forall a b, digits15 a -> digits15 b -> coef b <> 0%Z ->
  Qabs (dval (dmod a b)) < Qabs (dval b) /\
  (0 <= dval a -> 0 <= dval (dmod a b)) /\
  (dval a <= 0 -> dval (dmod a b) <= 0).
Proof.
  intros a b Ha Hb Hnz.
  assert (Hbnz : ~ dval b == 0).
  { intro H. apply dis_zero_iff in H. unfold dis_zero in H.
    apply Z.eqb_eq in H. exact (Hnz H). }
  pose proof (Qrem_trunc_spec (dval a) (dval b) Hbnz) as Hspec. cbv zeta in Hspec.
  rewrite <- (dmod_exact_15 a b Ha Hb Hnz) in Hspec. exact Hspec.
Qed.

(* ------------------------------------------------------------------------- *)
(** * 5. Examples, and the digit bound is needed                              *)
(* ------------------------------------------------------------------------- *)

Example dmod_7_2 : deq (dmod (mkDec 7 0) (mkDec 2 0)) (mkDec 1 0) = true.
Proof. vm_compute. reflexivity. Qed.

Example dmod_5p5_2 : deq (dmod (mkDec 55 (-1)) (mkDec 2 0)) (mkDec 15 (-1)) = true.
Proof. vm_compute. reflexivity. Qed.

Example dmod_neg7_2 : deq (dmod (mkDec (-7) 0) (mkDec 2 0)) (mkDec (-1) 0) = true.
Proof. vm_compute. reflexivity. Qed.

Example dmod_7_neg2 : deq (dmod (mkDec 7 0) (mkDec (-2) 0)) (mkDec 1 0) = true.
Proof. vm_compute. reflexivity. Qed.

Example dmod_7_2_val : dval (dmod (mkDec 7 0) (mkDec 2 0)) == 1.
Proof. vm_compute. reflexivity. Qed.

(** 0.99999999999999999 (17 nines) mod 1: the quotient rounds up to
    1.0000000000000000, whose integer part is 1, not 0; Mod returns
    -0.00000000000000001 instead of 0.99999999999999999. *)
Example ddiv_trunc_counterexample :
  Qtrunc (dval (ddiv (mkDec 99999999999999999 (-17)) (mkDec 1 0))) = 1%Z /\
  Qtrunc (dval (mkDec 99999999999999999 (-17)) / dval (mkDec 1 0)) = 0%Z.
Proof. split; vm_compute; reflexivity. Qed.

Example dmod_rounding_counterexample_val :
  deq (dmod (mkDec 99999999999999999 (-17)) (mkDec 1 0)) (mkDec (-1) (-17)) = true.
Proof. vm_compute. reflexivity. Qed.

Example dmod_rounding_counterexample :
  exists a b, coef b <> 0%Z /\
  ~ dval (dmod a b) == dval a - dval b * inject_Z (Qtrunc (dval a / dval b)).
Proof.
  exists (mkDec 99999999999999999 (-17)), (mkDec 1 0). split.
  - cbn [coef]. lia.
  - intro H. vm_compute in H. discriminate H.
Qed.

(* ------------------------------------------------------------------------- *)
(** * Assumptions                                                             *)
(* ------------------------------------------------------------------------- *)

Print Assumptions quot_round_signed.
Print Assumptions div_round_int.
Print Assumptions ddiv_trunc_exact_15.
Print Assumptions dmod_sign_and_bound.
Print Assumptions dmod_rounding_counterexample.
Print Assumptions dmod_exact_15.
