(* Proofs/C01.v — a key path returns exactly the value stored at that path. *)
From Mpath.Model Require Import Base Dec Types GoVal Ast Lexer Parser Funcs Eval.
From Mpath.Spec Require Import Json.
From Coq Require Import Permutation.

(** * The abstraction: forget the Go carrier *)
Fixpoint abs (g : gv) : jv :=
  match g with
  | VNil => JNull
  | VBool _ b => JBool b
  | VInt _ _ z => JNum (dnorm (mkDec z 0))
  | VFloat _ _ (FFin d) => JNum (dnorm d)
  | VDec d => JNum (dnorm d)
  | VStr _ s => JStr s
  | VSlice _ _ xs => JArr (map abs xs)
  | VArray _ xs => JArr (map abs xs)
  | VMap _ _ _ kvs =>
      JObj ((fix go (l : list (gv * gv)) : list (str * jv) :=
               match l with
               | [] => []
               | (VStr _ s, v) :: r => (s, abs v) :: go r
               | _ :: r => go r
               end) kvs)
  | VStruct fs =>
      JObj ((fix go (l : list (str * bool * bool * gv)) : list (str * jv) :=
               match l with
               | [] => []
               | (n, e, _, v) :: r => if e then (n, abs v) :: go r else go r
               end) fs)
  | _ => JNull
  end.

Fixpoint abs_kvs (l : list (gv * gv)) : list (str * jv) :=
  match l with
  | [] => []
  | (VStr _ s, v) :: r => (s, abs v) :: abs_kvs r
  | _ :: r => abs_kvs r
  end.

Fixpoint abs_fields (l : list (str * bool * bool * gv)) : list (str * jv) :=
  match l with
  | [] => []
  | (n, e, _, v) :: r => if e then (n, abs v) :: abs_fields r else abs_fields r
  end.

Lemma abs_map kt vt n kvs : abs (VMap kt vt n kvs) = JObj (abs_kvs kvs).
Proof. reflexivity. Qed.

Lemma abs_struct fs : abs (VStruct fs) = JObj (abs_fields fs).
Proof. reflexivity. Qed.

(** * The documents the property quantifies over.
    Scalars in any Go carrier (numbers: any integer kind, finite floats,
    decimals; strings that are not numerals), nil for null, slices and arrays
    of any element type, maps keyed by Go strings, structs (unexported fields
    are invisible, as they are to encoding/json).  Slices and maps are
    non-nil (encoding/json never produces a nil one). *)
Inductive wf_doc : gv -> Prop :=
| wf_nil : wf_doc VNil
| wf_bool n b : wf_doc (VBool n b)
| wf_int k n z : wf_doc (VInt k n z)
| wf_float i n d : wf_doc (VFloat i n (FFin d))
| wf_dec d : wf_doc (VDec d)
| wf_str n s (Hs : dec_of_string s = None) : wf_doc (VStr n s)
| wf_slice t xs (Hxs : Forall wf_doc xs) : wf_doc (VSlice t false xs)
| wf_array t xs (Hxs : Forall wf_doc xs) : wf_doc (VArray t xs)
| wf_map kt vt kvs
    (Hkvs : Forall (fun kv => (exists k, fst kv = VStr false k) /\ wf_doc (snd kv)) kvs) :
    wf_doc (VMap kt vt false kvs)
| wf_struct fs (Hfs : Forall (fun f => wf_doc (snd f)) fs) : wf_doc (VStruct fs).

(** The one shape on which the evaluator and the specification part ways (see
    [C01_dec_headed_counterexample]): an array whose FIRST element is a number
    and which also holds an object having the key.  [regular v ks]: no such
    array is met while [ks] is followed from [v]. *)
Definition has_field (k : str) (v : jv) : bool :=
  match field_of k v with Some _ => true | None => false end.

Definition num_headed_mix (k : str) (v : jv) : bool :=
  match v with
  | JArr (JNum _ :: xs) => existsb (has_field k) xs
  | _ => false
  end.

Fixpoint regular (v : jv) (ks : list str) : Prop :=
  match ks with
  | [] => True
  | k :: rest =>
      num_headed_mix k v = false /\
      match lookup1 k v with Found v' => regular v' rest | _ => True end
  end.

(** * Statement vocabulary *)
Definition key_path (ks : list str) : node :=
  NPath (Path false true false false (map (fun k => PIdent k false k) ks) []).

Definition proj (o : outcome gv) : option lres :=
  match o with
  | Ok v => Some (Found (abs v))
  | Err EKeyNotFound => Some KeyNotFound
  | Err (EOther _) => Some OnNull
  | _ => None
  end.

Definition fold_eq (a b : str) : Prop := equal_fold a b = true.

(** * equal_fold is an equivalence *)
Lemma str_eqb_refl a : str_eqb a a = true.
Proof. induction a as [|c a IH]; cbn; [reflexivity|]. rewrite Ascii.eqb_refl. exact IH. Qed.

Lemma str_eqb_eq a b : str_eqb a b = true -> a = b.
Proof.
  revert b; induction a as [|c a IH]; intros [|d b] H; cbn in H; try discriminate; [reflexivity|].
  apply andb_true_iff in H. destruct H as [Hc Hr].
  apply Ascii.eqb_eq in Hc. rewrite Hc, (IH _ Hr). reflexivity.
Qed.

Lemma equal_fold_lower a b : equal_fold a b = true -> str_lower a = str_lower b.
Proof. apply str_eqb_eq. Qed.

Lemma equal_fold_refl a : equal_fold a a = true.
Proof. apply str_eqb_refl. Qed.

Lemma equal_fold_sym a b : equal_fold a b = true -> equal_fold b a = true.
Proof. intros H. unfold equal_fold. rewrite (equal_fold_lower _ _ H). apply str_eqb_refl. Qed.

Lemma equal_fold_trans a b c : equal_fold a b = true -> equal_fold b c = true -> equal_fold a c = true.
Proof. intros H1 H2. unfold equal_fold. rewrite (equal_fold_lower _ _ H1). exact H2. Qed.

(** matching a stored key against [k'] or against a fold-equal [k] is the same test *)
Lemma equal_fold_same s k' k : equal_fold k' k = true -> equal_fold s k' = equal_fold s k.
Proof. intros H. unfold equal_fold. rewrite (equal_fold_lower _ _ H). reflexivity. Qed.

(** * Conversions do not change the abstract value *)
Definition not_ptr (v : gv) : Prop := match v with VPtr _ => False | _ => True end.

Lemma wf_not_ptr v : wf_doc v -> not_ptr v.
Proof. destruct 1; exact I. Qed.

Lemma deref1_not_ptr v : not_ptr v -> deref1 (value_of v) = value_of v.
Proof.
  destruct v; intros H; try reflexivity; try (destruct H).
  unfold deref1, rkind, value_of; cbn. destruct (nk_unsigned k); reflexivity.
Qed.

Lemma convert_number_check_not_ptr v :
  not_ptr v ->
  convert_number_check v =
  match v with
  | VStr _ s => match dec_of_string s with Some d => (true, d) | None => (false, dzero) end
  | VInt _ _ z => (true, mkDec z 0)
  | VFloat _ _ (FFin d) => (true, d)
  | _ => (false, dzero)
  end.
Proof.
  intros H. unfold convert_number_check. rewrite (deref1_not_ptr v H).
  destruct (is_empty_value (value_of v)); cbn [value_of rv_v rv_if];
    destruct v; try reflexivity; destruct f; reflexivity.
Qed.

Lemma convert_number_wf v : wf_doc v -> wf_doc (convert_number v) /\ abs (convert_number v) = abs v.
Proof.
  intros H. unfold convert_number. rewrite (convert_number_check_not_ptr v (wf_not_ptr v H)).
  destruct H; try (split; [constructor; assumption | reflexivity]).
  rewrite Hs. split; [constructor; assumption | reflexivity].
Qed.

Lemma convert_unless_string_wf v :
  wf_doc v -> wf_doc (convert_unless_string v) /\ abs (convert_unless_string v) = abs v.
Proof.
  intros H. unfold convert_unless_string. destruct (is_go_string v); [split; [exact H | reflexivity]|].
  apply convert_number_wf; exact H.
Qed.

(** null is the only nil among well-formed values *)
Lemma is_nil_wf v : wf_doc v -> is_nil v = true -> v = VNil.
Proof.
  destruct 1; intros Hn; try reflexivity; try discriminate Hn.
  unfold is_nil in Hn; cbn in Hn. destruct (nk_unsigned k); discriminate Hn.
Qed.
