(* Proofs/C01.v — a key path returns exactly the value stored at that path. *)
From Mpath.Model Require Import Base Dec Types GoVal Ast Lexer Parser Funcs Eval.
From Mpath.Spec Require Import Json.
From Coq Require Import Permutation.

(** * The abstraction: forget the Go carrier *)
Fixpoint abs (g : gv) : jv :=
  match g with
  | VNil => JNull
  | VBool _ b => JBool b
  | VInt _ _ z => JNum (dnorm (mkDec z 0))
  | VFloat _ _ (FFin d) => JNum (dnorm d)
  | VDec d => JNum (dnorm d)
  | VStr _ s => JStr s
  | VSlice _ _ xs => JArr (map abs xs)
  | VArray _ xs => JArr (map abs xs)
  | VMap _ _ _ kvs =>
      JObj ((fix go (l : list (gv * gv)) : list (str * jv) :=
               match l with
               | [] => []
               | (VStr _ s, v) :: r => (s, abs v) :: go r
               | _ :: r => go r
               end) kvs)
  | VStruct fs =>
      JObj ((fix go (l : list (str * bool * bool * gv)) : list (str * jv) :=
               match l with
               | [] => []
               | (n, e, _, v) :: r => if e then (n, abs v) :: go r else go r
               end) fs)
  | _ => JNull
  end.

Fixpoint abs_kvs (l : list (gv * gv)) : list (str * jv) :=
  match l with
  | [] => []
  | (VStr _ s, v) :: r => (s, abs v) :: abs_kvs r
  | _ :: r => abs_kvs r
  end.

Fixpoint abs_fields (l : list (str * bool * bool * gv)) : list (str * jv) :=
  match l with
  | [] => []
  | (n, e, _, v) :: r => if e then (n, abs v) :: abs_fields r else abs_fields r
  end.

Lemma abs_map kt vt n kvs : abs (VMap kt vt n kvs) = JObj (abs_kvs kvs).
Proof. reflexivity. Qed.

Lemma abs_struct fs : abs (VStruct fs) = JObj (abs_fields fs).
Proof. reflexivity. Qed.

(** * The documents the property quantifies over.
    Scalars in any Go carrier (numbers: any integer kind, finite floats,
    decimals; strings that are not numerals), nil for null, slices and arrays
    of any element type, maps keyed by Go strings, structs (unexported fields
    are invisible, as they are to encoding/json).  Slices and maps are
    non-nil (encoding/json never produces a nil one). *)
Inductive wf_doc : gv -> Prop :=
| wf_nil : wf_doc VNil
| wf_bool n b : wf_doc (VBool n b)
| wf_int k n z : wf_doc (VInt k n z)
| wf_float i n d : wf_doc (VFloat i n (FFin d))
| wf_dec d : wf_doc (VDec d)
| wf_str n s (Hs : dec_of_string s = None) : wf_doc (VStr n s)
| wf_slice t xs (Hxs : Forall wf_doc xs) : wf_doc (VSlice t false xs)
| wf_array t xs (Hxs : Forall wf_doc xs) : wf_doc (VArray t xs)
| wf_map kt vt kvs
    (Hkvs : Forall (fun kv => (exists k, fst kv = VStr false k) /\ wf_doc (snd kv)) kvs) :
    wf_doc (VMap kt vt false kvs)
| wf_struct fs (Hfs : Forall (fun f => wf_doc (snd f)) fs) : wf_doc (VStruct fs).

(** Exactly what encoding/json decodes into an [any]: a special case. *)
Inductive json_carrier : gv -> Prop :=
| jc_null : json_carrier VNil
| jc_bool b : json_carrier (VBool false b)
| jc_num d : json_carrier (VFloat false false (FFin d))
| jc_str s (Hs : dec_of_string s = None) : json_carrier (VStr false s)
| jc_arr xs (Hxs : Forall json_carrier xs) : json_carrier (VSlice EAny false xs)
| jc_obj kvs
    (Hkvs : Forall (fun kv => (exists k, fst kv = VStr false k) /\ json_carrier (snd kv)) kvs) :
    json_carrier (VMap KtStr EAny false kvs).

Lemma json_carrier_wf : forall g, json_carrier g -> wf_doc g.
Proof.
  fix IH 2. intros g H. destruct H as [|b|d|s Hs|xs Hxs|kvs Hkvs].
  - constructor.
  - constructor.
  - constructor.
  - constructor; exact Hs.
  - constructor. induction Hxs as [|x r Hx Hr IHr]; constructor; [exact (IH x Hx) | exact IHr].
  - constructor. induction Hkvs as [|kv r [Hk Hv] Hr IHr]; constructor;
      [split; [exact Hk | exact (IH _ Hv)] | exact IHr].
Qed.

(** * Statement vocabulary *)
Definition key_path (ks : list str) : node :=
  NPath (Path false true false false (map (fun k => PIdent k false k) ks) []).

Definition proj (o : outcome gv) : option lres :=
  match o with
  | Ok v => Some (Found (abs v))
  | Err EKeyNotFound => Some KeyNotFound
  | Err (EOther _) => Some OnNull
  | _ => None
  end.

Definition fold_eq (a b : str) : Prop := equal_fold a b = true.

(** * equal_fold is an equivalence *)
Lemma str_eqb_refl a : str_eqb a a = true.
Proof. induction a as [|c a IH]; cbn; [reflexivity|]. rewrite Ascii.eqb_refl. exact IH. Qed.

Lemma str_eqb_eq a b : str_eqb a b = true -> a = b.
Proof.
  revert b; induction a as [|c a IH]; intros [|d b] H; cbn in H; try discriminate; [reflexivity|].
  apply andb_true_iff in H. destruct H as [Hc Hr].
  apply Ascii.eqb_eq in Hc. rewrite Hc, (IH _ Hr). reflexivity.
Qed.

Lemma equal_fold_lower a b : equal_fold a b = true -> str_lower a = str_lower b.
Proof. apply str_eqb_eq. Qed.

Lemma equal_fold_refl a : equal_fold a a = true.
Proof. apply str_eqb_refl. Qed.

Lemma equal_fold_sym a b : equal_fold a b = true -> equal_fold b a = true.
Proof. intros H. unfold equal_fold. rewrite (equal_fold_lower _ _ H). apply str_eqb_refl. Qed.

Lemma equal_fold_trans a b c : equal_fold a b = true -> equal_fold b c = true -> equal_fold a c = true.
Proof. intros H1 H2. unfold equal_fold. rewrite (equal_fold_lower _ _ H1). exact H2. Qed.

(** matching a stored key against [k'] or against a fold-equal [k] is the same test *)
Lemma equal_fold_same s k' k : equal_fold k' k = true -> equal_fold s k' = equal_fold s k.
Proof. intros H. unfold equal_fold. rewrite (equal_fold_lower _ _ H). reflexivity. Qed.

(** * Conversions do not change the abstract value *)
Definition not_ptr (v : gv) : Prop := match v with VPtr _ => False | _ => True end.

Lemma wf_not_ptr v : wf_doc v -> not_ptr v.
Proof. destruct 1; exact I. Qed.

Lemma deref1_not_ptr v : not_ptr v -> deref1 (value_of v) = value_of v.
Proof.
  destruct v; intros H; try reflexivity; try (destruct H).
  unfold deref1, rkind, value_of; cbn. destruct (nk_unsigned k); reflexivity.
Qed.

(** the type assertion for *decimal.Decimal only fires on pointers *)
Lemma convert_number_check_base_eq v :
  not_ptr v -> convert_number_check v = convert_number_check_base v.
Proof. destruct v; intros H; try reflexivity; destruct H. Qed.

(** ... more precisely, only on a non-nil pointer to a decimal *)
Lemma convert_number_check_base_eq' v :
  (forall d, v <> VPtr (Some (VDec d))) -> convert_number_check v = convert_number_check_base v.
Proof.
  intros H. destruct v as [| | | | | | t | | | | | |]; try reflexivity.
  destruct t as [g|]; try reflexivity. destruct g; try reflexivity.
  exfalso. eapply H. reflexivity.
Qed.

Lemma convert_number_check_not_ptr v :
  not_ptr v ->
  convert_number_check v =
  match v with
  | VStr _ s => match dec_of_string s with Some d => (true, d) | None => (false, dzero) end
  | VInt _ _ z => (true, mkDec z 0)
  | VFloat _ _ (FFin d) => (true, d)
  | _ => (false, dzero)
  end.
Proof.
  intros H. rewrite (convert_number_check_base_eq v H).
  unfold convert_number_check_base. rewrite (deref1_not_ptr v H).
  destruct (is_empty_value (value_of v)); cbn [value_of rv_v rv_if];
    destruct v; try reflexivity; destruct f; reflexivity.
Qed.

Lemma convert_number_wf v : wf_doc v -> wf_doc (convert_number v) /\ abs (convert_number v) = abs v.
Proof.
  intros H. unfold convert_number. rewrite (convert_number_check_not_ptr v (wf_not_ptr v H)).
  destruct H; try (split; [constructor; assumption | reflexivity]).
  rewrite Hs. split; [constructor; assumption | reflexivity].
Qed.

Lemma convert_unless_string_wf v :
  wf_doc v -> wf_doc (convert_unless_string v) /\ abs (convert_unless_string v) = abs v.
Proof.
  intros H. unfold convert_unless_string. destruct (is_go_string v); [split; [exact H | reflexivity]|].
  apply convert_number_wf; exact H.
Qed.

(** null is the only nil among well-formed values *)
Lemma is_nil_wf v : wf_doc v -> is_nil v = true -> v = VNil.
Proof.
  destruct 1; intros Hn; try reflexivity; try discriminate Hn.
  unfold is_nil in Hn; cbn in Hn. destruct (nk_unsigned k); discriminate Hn.
Qed.

(** * One key on one value *)
Section OneKey.
Variables k' k : str.
Hypothesis Hk : equal_fold k' k = true.

Lemma map_lookup_spec kvs :
  Forall (fun kv => (exists s, fst kv = VStr false s) /\ wf_doc (snd kv)) kvs ->
  match map_lookup_fold k' kvs with
  | Some x => field k (abs_kvs kvs) = Some (abs x) /\ wf_doc x
  | None => field k (abs_kvs kvs) = None
  end.
Proof.
  induction 1 as [|[kk v] r [[s Hs] Hv] Hr IH]; [reflexivity|].
  cbn [fst snd] in Hs, Hv. subst kk.
  cbn [map_lookup_fold key_string abs_kvs field].
  rewrite (equal_fold_same s k' k Hk).
  destruct (equal_fold s k); [split; [reflexivity | exact Hv] | exact IH].
Qed.

Lemma struct_lookup_spec fs :
  Forall (fun f : str * bool * bool * gv => wf_doc (snd f)) fs ->
  match struct_lookup_fold k' fs with
  | Some x => field k (abs_fields fs) = Some (abs x) /\ wf_doc x
  | None => field k (abs_fields fs) = None
  end.
Proof.
  induction 1 as [|[[[n e] i] v] r Hv Hr IH]; [reflexivity|].
  cbn [snd] in Hv.
  cbn [struct_lookup_fold abs_fields].
  destruct e; cbn [andb]; [|exact IH].
  cbn [field]. rewrite (equal_fold_same n k' k Hk).
  destruct (equal_fold n k); [split; [reflexivity | exact Hv] | exact IH].
Qed.

(** an element of an array, seen through its slot *)
Lemma field_by_name_map b kt vt n kvs :
  get_field_by_name k' (mkRv b (VMap kt vt n kvs)) = option_map convert_number (map_lookup_fold k' kvs).
Proof. destruct b; [reflexivity|]. destruct kvs; reflexivity. Qed.

Lemma field_by_name_struct b fs :
  get_field_by_name k' (mkRv b (VStruct fs)) = option_map convert_unless_string (struct_lookup_fold k' fs).
Proof. destruct b; reflexivity. Qed.

Lemma field_by_name_other b x :
  wf_doc x -> match x with VMap _ _ _ _ | VStruct _ => False | _ => True end ->
  get_field_by_name k' (mkRv b x) = None.
Proof.
  intros Hx Hno. unfold get_field_by_name.
  destruct (is_empty_value (mkRv b x)); [reflexivity|].
  destruct Hx; try destruct Hno; destruct b; try reflexivity.
  all: unfold deref1, rkind; cbn; destruct (nk_unsigned k0); reflexivity.
Qed.
Lemma field_by_name_spec b x :
  wf_doc x ->
  match get_field_by_name k' (mkRv b x) with
  | Some y => field_of k (abs x) = Some (abs y) /\ wf_doc y
  | None => field_of k (abs x) = None
  end.
Proof.
  intros Hx.
  destruct x;
    try (rewrite (field_by_name_other b _ Hx I);
         try match goal with |- context [abs (VFloat _ _ ?f)] => destruct f end; reflexivity).
  - inversion Hx as [| | | | | | | |kt0 vt0 kvs0 Hkvs|]; subst.
    rewrite field_by_name_map, abs_map. cbn [field_of].
    pose proof (map_lookup_spec kvs Hkvs) as Hl.
    destruct (map_lookup_fold k' kvs) as [y|]; cbn [option_map]; [|exact Hl].
    destruct Hl as [Hf Hy]. destruct (convert_number_wf y Hy) as [Hw Ha].
    rewrite Ha. split; assumption.
  - inversion Hx as [| | | | | | | | |fs0 Hfs]; subst.
    rewrite field_by_name_struct, abs_struct. cbn [field_of].
    pose proof (struct_lookup_spec fields Hfs) as Hl.
    destruct (struct_lookup_fold k' fields) as [y|]; cbn [option_map]; [|exact Hl].
    destruct Hl as [Hf Hy]. destruct (convert_unless_string_wf y Hy) as [Hw Ha].
    rewrite Ha. split; assumption.
Qed.

Lemma filter_map_spec t xs :
  Forall wf_doc xs ->
  map abs (filter_map (fun x => get_field_by_name k' (slot t x)) xs) = collect (field_of k) (map abs xs)
  /\ Forall wf_doc (filter_map (fun x => get_field_by_name k' (slot t x)) xs).
Proof.
  induction 1 as [|x r Hx Hr [IHa IHw]]; [split; [reflexivity | constructor]|].
  cbn [filter_map map collect]. change (slot t x) with (mkRv (ety_eqb t EAny) x).
  pose proof (field_by_name_spec (ety_eqb t EAny) x Hx) as Hf.
  destruct (get_field_by_name k' (mkRv (ety_eqb t EAny) x)) as [y|].
  - destruct Hf as [Hf Hy]. rewrite Hf. cbn [map]. rewrite IHa. split; [reflexivity | constructor; assumption].
  - rewrite Hf. split; assumption.
Qed.

(** the array branch of getValuesByName *)
Definition project (t : ety) (xs : list gv) : outcome gv :=
  match xs with
  | [] => Err EKeyNotFound
  | x0 :: _ =>
    match rv_v (deref1 (slot t x0)) with
    | VDec _ => Err EKeyNotFound
    | _ =>
      match rkind (deref1 (slot t x0)) with
      | KdStruct | KdMap =>
        match filter_map (fun x => get_field_by_name k' (slot t x)) xs with
        | [] => Err EKeyNotFound
        | slc => Ok (VSlice EAny false slc)
        end
      | _ => Err EKeyNotFound
      end
    end
  end.

Lemma do_ident_slice t xs : do_ident k' (VSlice t false xs) = project t xs.
Proof. destruct xs; reflexivity. Qed.

Lemma do_ident_array t xs : do_ident k' (VArray t xs) = project t xs.
Proof. destruct xs; reflexivity. Qed.

Lemma slot_kind t x : not_ptr x -> rkind (deref1 (slot t x)) = kind_of x.
Proof.
  intros Hx. unfold slot. destruct (ety_eqb t EAny); [reflexivity|].
  destruct x; try reflexivity; try (destruct Hx).
  destruct k0; reflexivity.
Qed.

Lemma slot_val t x : not_ptr x -> rv_v (deref1 (slot t x)) = x.
Proof.
  intros Hx. unfold slot. destruct (ety_eqb t EAny); [reflexivity|].
  destruct x; try reflexivity; try (destruct Hx).
  destruct k0; reflexivity.
Qed.

(** what one step must establish: the specified answer and a well-formed result *)
Definition step_ok (d : gv) (o : outcome gv) : Prop :=
  match o with
  | Ok v => lookup1 k (abs d) = Found (abs v) /\ wf_doc v
  | Err EKeyNotFound => lookup1 k (abs d) = KeyNotFound
  | _ => False
  end.

Lemma project_spec t xs (d : gv) :
  abs d = JArr (map abs xs) ->
  Forall wf_doc xs ->
  step_ok d (project t xs).
Proof.
  intros Hd Hxs. unfold step_ok. rewrite Hd.
  destruct xs as [|x0 r]; [reflexivity|].
  destruct (filter_map_spec t (x0 :: r) Hxs) as [Ha Hw].
  inversion Hxs as [|x0' r' Hx0 Hr]; subst.
  unfold project.
  rewrite (slot_kind t x0 (wf_not_ptr x0 Hx0)), (slot_val t x0 (wf_not_ptr x0 Hx0)).
  destruct Hx0; try (destruct k0); try reflexivity.
  - cbn [kind_of]. cbn [map] in Ha |- *. rewrite abs_map in Ha |- *. cbn [lookup1]. rewrite <- Ha.
    destruct (filter_map (fun x => get_field_by_name k' (slot t x)) (VMap kt vt false kvs :: r)) as [|y ys];
      [reflexivity | split; [reflexivity | constructor; exact Hw]].
  - cbn [kind_of]. cbn [map] in Ha |- *. rewrite abs_struct in Ha |- *. cbn [lookup1]. rewrite <- Ha.
    destruct (filter_map (fun x => get_field_by_name k' (slot t x)) (VStruct fs :: r)) as [|y ys];
      [reflexivity | split; [reflexivity | constructor; exact Hw]].
Qed.

Lemma scalar_spec d :
  wf_doc d -> d <> VNil ->
  match d with VSlice _ _ _ | VArray _ _ | VMap _ _ _ _ | VStruct _ => False | _ => True end ->
  do_ident k' d = Err EKeyNotFound /\ lookup1 k (abs d) = KeyNotFound.
Proof.
  intros Hd Hnn Hsc.
  destruct Hd; try (destruct Hsc); try (exfalso; apply Hnn; reflexivity).
  all: split; [|reflexivity].
  all: unfold do_ident; rewrite deref1_not_ptr by exact I; cbn [rv_v value_of];
       unfold get_values_by_name;
       destruct (is_empty_value _); [reflexivity|];
       rewrite deref1_not_ptr by exact I; reflexivity.
Qed.

(** the step: one key of the query on one well-formed, non-null value *)
Lemma do_ident_spec d :
  wf_doc d -> d <> VNil -> step_ok d (do_ident k' d).
Proof.
  intros Hd Hnn.
  destruct d;
    try (destruct (scalar_spec _ Hd Hnn I) as [Hm Hs]; unfold step_ok; rewrite Hm; exact Hs).
  - inversion Hd as [| | | | | |t0 xs0 Hxs| | |]; subst.
    rewrite do_ident_slice. apply project_spec; [reflexivity | exact Hxs].
  - inversion Hd as [| | | | | | |t0 xs0 Hxs| |]; subst.
    rewrite do_ident_array. apply project_spec; [reflexivity | exact Hxs].
  - inversion Hd as [| | | | | | | |kt0 vt0 kvs0 Hkvs|]; subst.
    unfold step_ok. rewrite abs_map. cbn [lookup1].
    change (do_ident k' (VMap kt vt false kvs)) with
      (match map_lookup_fold k' kvs with Some x => Ok (convert_unless_string x) | None => Err EKeyNotFound end).
    pose proof (map_lookup_spec kvs Hkvs) as Hl.
    destruct (map_lookup_fold k' kvs) as [y|]; [|rewrite Hl; reflexivity].
    destruct Hl as [Hf Hy]. destruct (convert_unless_string_wf y Hy) as [Hw Ha].
    rewrite Hf, Ha. split; [reflexivity | exact Hw].
  - inversion Hd as [| | | | | | | | |fs0 Hfs]; subst.
    unfold step_ok. rewrite abs_struct. cbn [lookup1].
    change (do_ident k' (VStruct fields)) with
      (match option_map convert_unless_string (struct_lookup_fold k' fields) with Some out => Ok out | None => Err EKeyNotFound end).
    pose proof (struct_lookup_spec fields Hfs) as Hl.
    destruct (struct_lookup_fold k' fields) as [y|]; cbn [option_map]; [|rewrite Hl; reflexivity].
    destruct Hl as [Hf Hy]. destruct (convert_unless_string_wf y Hy) as [Hw Ha].
    rewrite Hf, Ha. split; [reflexivity | exact Hw].
Qed.
End OneKey.

(** * A path of keys *)
Definition key_ops (ks : list str) : list pathop := map (fun k => PIdent k false k) ks.

Section Path.
Variable ev : pathop -> gv -> outcome gv.
Hypothesis Hev : forall name us d, ev (PIdent name false us) d = do_ident name d.

Lemma path_ops_keys : forall ks' ks,
  Forall2 fold_eq ks' ks ->
  forall prev d, wf_doc d -> d <> VNil ->
  proj (path_ops ev prev false (key_ops ks') d None) = Some (lookup (abs d) ks).
Proof.
  induction 1 as [|k' k ks' ks Hk Hrest IH]; intros prev d Hd Hnn; [reflexivity|].
  cbn [key_ops map path_ops lookup]. fold (key_ops ks').
  replace (match prev with Some p => false && negb (pathop_qmark p) && negb (pathop_is_func (PIdent k' false k')) | None => false end)
    with false by (destruct prev; reflexivity).
  rewrite Hev.
  pose proof (do_ident_spec k' k Hk d Hd Hnn) as Hs. unfold step_ok in Hs.
  destruct (do_ident k' d) as [v|e|m| |w]; try contradiction.
  - destruct Hs as [Hl Hv]. rewrite Hl. cbn [orb].
    destruct (is_nil v) eqn:En.
    + apply (is_nil_wf v Hv) in En. subst v.
      destruct Hrest as [|k2' k2 r' r Hk2 Hr]; reflexivity.
    + apply IH; [exact Hv | intros Heq; subst v; discriminate En].
  - destruct e as [|tag]; [|contradiction]. cbn [pathop_qmark]. rewrite Hs. reflexivity.
Qed.
End Path.

(** * Main theorems *)
Section C01.
Variable uni : uclass.
Variable eng : engines.

Theorem C01_lookup_refines : forall g ks ks' fuel,
  wf_doc g -> g <> VNil ->
  Forall2 fold_eq ks' ks -> ks <> [] -> (2 <= fuel)%nat ->
  proj (eval uni eng fuel (key_path ks') g g) = Some (lookup (abs g) ks).
Proof.
  intros g ks ks' fuel Hg Hnn Hks Hne Hfuel.
  destruct fuel as [|[|f]]; [lia | lia |].
  destruct Hks as [|k' k r' r Hk Hr]; [contradiction Hne; reflexivity|].
  unfold key_path. cbn [eval map andb].
  apply (path_ops_keys (fun o d => eval uni eng (S f) (NOp o) d g)) with (ks' := k' :: r') (ks := k :: r).
  - intros name us d. reflexivity.
  - constructor; assumption.
  - exact Hg.
  - exact Hnn.
Qed.

(** "it never returns a different field's value or an invented one" *)
Theorem C01_no_invented_value : forall g ks ks' fuel v,
  wf_doc g -> g <> VNil ->
  Forall2 fold_eq ks' ks -> ks <> [] -> (2 <= fuel)%nat ->
  eval uni eng fuel (key_path ks') g g = Ok v ->
  lookup (abs g) ks = Found (abs v).
Proof.
  intros g ks ks' fuel v Hg Hnn Hks Hne Hfuel Hev.
  pose proof (C01_lookup_refines g ks ks' fuel Hg Hnn Hks Hne Hfuel) as H.
  rewrite Hev in H. cbn [proj] in H. injection H as H. symmetry. exact H.
Qed.

(** "if a key on the way does not exist the call returns no value and ErrKeyNotFound" *)
Theorem C01_key_not_found : forall g ks ks' fuel,
  wf_doc g -> g <> VNil ->
  Forall2 fold_eq ks' ks -> ks <> [] -> (2 <= fuel)%nat ->
  lookup (abs g) ks = KeyNotFound ->
  eval uni eng fuel (key_path ks') g g = Err EKeyNotFound.
Proof.
  intros g ks ks' fuel Hg Hnn Hks Hne Hfuel Hl.
  pose proof (C01_lookup_refines g ks ks' fuel Hg Hnn Hks Hne Hfuel) as H.
  rewrite Hl in H.
  destruct (eval uni eng fuel (key_path ks') g g) as [v|[|tag]|m| |w]; cbn [proj] in H;
    try discriminate H; reflexivity.
Qed.

(** and conversely: ErrKeyNotFound only for a missing key, a value only when
    every key exists, any other error only for a null met on the way *)
Theorem C01_outcomes : forall g ks ks' fuel,
  wf_doc g -> g <> VNil ->
  Forall2 fold_eq ks' ks -> ks <> [] -> (2 <= fuel)%nat ->
  match lookup (abs g) ks with
  | Found x => exists v, eval uni eng fuel (key_path ks') g g = Ok v /\ abs v = x
  | KeyNotFound => eval uni eng fuel (key_path ks') g g = Err EKeyNotFound
  | OnNull => exists tag, eval uni eng fuel (key_path ks') g g = Err (EOther tag)
  end.
Proof.
  intros g ks ks' fuel Hg Hnn Hks Hne Hfuel.
  pose proof (C01_lookup_refines g ks ks' fuel Hg Hnn Hks Hne Hfuel) as H.
  destruct (eval uni eng fuel (key_path ks') g g) as [v|[|tag]|m| |w]; cbn [proj] in H;
    try discriminate H; injection H as H; rewrite <- H; eauto.
Qed.

(** In particular for whatever json.Unmarshal puts into an [any]. *)
Corollary C01_lookup_refines_decoded : forall g ks ks' fuel,
  json_carrier g -> g <> VNil ->
  Forall2 fold_eq ks' ks -> ks <> [] -> (2 <= fuel)%nat ->
  proj (eval uni eng fuel (key_path ks') g g) = Some (lookup (abs g) ks).
Proof.
  intros g ks ks' fuel Hj. apply C01_lookup_refines. exact (json_carrier_wf g Hj).
Qed.

Corollary C01_single_key : forall g k k' fuel,
  wf_doc g -> g <> VNil -> equal_fold k' k = true -> (2 <= fuel)%nat ->
  proj (eval uni eng fuel (key_path [k']) g g) = Some (lookup1 k (abs g)).
Proof.
  intros g k k' fuel Hg Hnn Hk Hfuel.
  rewrite (C01_lookup_refines g [k] [k'] fuel Hg Hnn); try assumption.
  - cbn [lookup]. destruct (lookup1 k (abs g)); reflexivity.
  - constructor; [exact Hk | constructor].
  - discriminate.
Qed.

(** ** Where the evaluator leaves the specification *)

(** A null ROOT: the first key reports ErrKeyNotFound, whereas a null met
    further down reports "cannot access property of nil value" ([OnNull]). *)
Lemma C01_root_null : forall ks' fuel,
  ks' <> [] -> (2 <= fuel)%nat ->
  eval uni eng fuel (key_path ks') VNil VNil = Err EKeyNotFound.
Proof.
  intros ks' fuel Hne Hfuel.
  destruct fuel as [|[|f]]; [lia | lia |].
  destruct ks' as [|k' r']; [contradiction Hne; reflexivity|].
  reflexivity.
Qed.
End C01.

(** A decimal.Decimal is a struct to reflect but a number to mpath: after
    [$.items.a] has turned [1] into a decimal, [.x] on [[1, {"x":2}]] is
    ErrKeyNotFound -- the array does not start with an object -- exactly as on
    the same array decoded from JSON (float64 first).  (Before the repair of
    getValuesByName the first query answered [[2]].) *)
Definition jkey (s : string) : gv := VStr false (bs s).
Definition jnum (z : Z) : gv := VFloat false false (FFin (mkDec z 0)).
Definition jobj (kvs : list (gv * gv)) : gv := VMap KtStr EAny false kvs.
Definition jarr (xs : list gv) : gv := VSlice EAny false xs.

Definition mixed_doc : gv :=
  jobj [(jkey "items", jarr [jobj [(jkey "a", jnum 1)];
                              jobj [(jkey "a", jobj [(jkey "x", jnum 2)])]])].

Example C01_decimal_headed_array :
  json_carrier mixed_doc /\
  eval uni_ascii no_engines 2 (key_path [bs "items"; bs "a"]) mixed_doc mixed_doc
    = Ok (jarr [VDec (mkDec 1 0); jobj [(jkey "x", jnum 2)]]) /\
  eval uni_ascii no_engines 2 (key_path [bs "items"; bs "a"; bs "x"]) mixed_doc mixed_doc
    = Err EKeyNotFound /\
  lookup (abs mixed_doc) [bs "items"; bs "a"; bs "x"] = KeyNotFound /\
  (* the same inner array, stored rather than projected: *)
  eval uni_ascii no_engines 2 (key_path [bs "a"; bs "x"])
       (jobj [(jkey "a", jarr [jnum 1; jobj [(jkey "x", jnum 2)]])])
       (jobj [(jkey "a", jarr [jnum 1; jobj [(jkey "x", jnum 2)]])])
    = Err EKeyNotFound.
Proof.
  split; [repeat econstructor|].
  repeat split; vm_compute; reflexivity.
Qed.

(** * The iteration order of a Go map does not matter *)
Lemma field_some_in k kvs v :
  field k kvs = Some v -> exists k0, In (k0, v) kvs /\ equal_fold k0 k = true.
Proof.
  induction kvs as [|[k0 v0] r IH]; cbn [field]; [discriminate|].
  destruct (equal_fold k0 k) eqn:E.
  - intros Heq. injection Heq as Heq. subst v0. exists k0. split; [left; reflexivity | exact E].
  - intros Hf. destruct (IH Hf) as [k1 [Hin Hk1]]. exists k1. split; [right; exact Hin | exact Hk1].
Qed.

Lemma field_none_all k kvs :
  field k kvs = None -> forall k0 v, In (k0, v) kvs -> equal_fold k0 k = false.
Proof.
  induction kvs as [|[k1 v1] r IH]; cbn [field]; intros Hf k0 v Hin; [destruct Hin|].
  destruct (equal_fold k1 k) eqn:E; [discriminate Hf|].
  destruct Hin as [Heq|Hin]; [inversion Heq; subst; exact E | exact (IH Hf k0 v Hin)].
Qed.

Lemma field_in_distinct k kvs k0 v :
  keys_distinct (map fst kvs) -> In (k0, v) kvs -> equal_fold k0 k = true -> field k kvs = Some v.
Proof.
  induction kvs as [|[k1 v1] r IH]; cbn [map fst keys_distinct field]; intros Hd Hin Hk; [destruct Hin|].
  destruct Hd as [Hd Hr]. destruct Hin as [Heq|Hin].
  - inversion Heq; subst. rewrite Hk. reflexivity.
  - destruct (equal_fold k1 k) eqn:E; [|exact (IH Hr Hin Hk)].
    exfalso. assert (Hc : equal_fold k1 k0 = true).
    { apply (equal_fold_trans k1 k k0 E). apply equal_fold_sym. exact Hk. }
    rewrite (Hd k0) in Hc; [discriminate Hc|].
    change k0 with (fst (k0, v)). apply in_map. exact Hin.
Qed.

Lemma field_perm k kvs kvs' :
  Permutation kvs kvs' -> keys_distinct (map fst kvs) -> field k kvs = field k kvs'.
Proof.
  intros Hp Hd. destruct (field k kvs') as [v'|] eqn:E'.
  - destruct (field_some_in k kvs' v' E') as [k0 [Hin Hk0]].
    apply (field_in_distinct k kvs k0 v' Hd); [|exact Hk0].
    apply (Permutation_in _ (Permutation_sym Hp)). exact Hin.
  - destruct (field k kvs) as [v|] eqn:E; [|reflexivity].
    destruct (field_some_in k kvs v E) as [k0 [Hin Hk0]].
    rewrite (field_none_all k kvs' E' k0 v (Permutation_in _ Hp Hin)) in Hk0. discriminate Hk0.
Qed.

Theorem C01_map_order_irrelevant : forall kvs kvs' k,
  Permutation kvs kvs' -> keys_distinct (map fst kvs) ->
  lookup1 k (JObj kvs) = lookup1 k (JObj kvs').
Proof.
  intros kvs kvs' k Hp Hd. cbn [lookup1]. rewrite (field_perm k kvs kvs' Hp Hd). reflexivity.
Qed.

(** ** ... lifted to whole documents: [jperm v v'] when [v'] is [v] with the
    fields of any of its objects, at any depth, listed in another order *)
Inductive jperm : jv -> jv -> Prop :=
| jp_refl v : jperm v v
| jp_arr xs ys (Hxs : Forall2 jperm xs ys) : jperm (JArr xs) (JArr ys)
| jp_obj kvs kvs' kvs''
    (Hkvs : Forall2 (fun a b => fst a = fst b /\ jperm (snd a) (snd b)) kvs kvs')
    (Hp : Permutation kvs' kvs'') : jperm (JObj kvs) (JObj kvs'').

Definition lres_perm (a b : lres) : Prop :=
  match a, b with
  | Found x, Found y => jperm x y
  | KeyNotFound, KeyNotFound => True
  | OnNull, OnNull => True
  | _, _ => False
  end.

Definition opt_perm (a b : option jv) : Prop :=
  match a, b with Some x, Some y => jperm x y | None, None => True | _, _ => False end.

Lemma fold_distinct_arr xs : fold_distinct (JArr xs) <-> Forall fold_distinct xs.
Proof.
  induction xs as [|x r IH]; [split; constructor|].
  change (fold_distinct (JArr (x :: r))) with (fold_distinct x /\ fold_distinct (JArr r)).
  split.
  - intros [Hx Hr]. constructor; [exact Hx | apply IH; exact Hr].
  - intros H. inversion H as [|x' r' Hx Hr]; subst. split; [exact Hx | apply IH; exact Hr].
Qed.

Definition fd_vals : list (str * jv) -> Prop :=
  fix all (l : list (str * jv)) : Prop :=
    match l with [] => True | (_, x) :: r => fold_distinct x /\ all r end.

Lemma fd_vals_forall kvs : fd_vals kvs <-> Forall (fun kv => fold_distinct (snd kv)) kvs.
Proof.
  induction kvs as [|[k v] r IH]; [split; constructor|].
  change (fd_vals ((k, v) :: r)) with (fold_distinct v /\ fd_vals r).
  split.
  - intros [Hx Hr]. constructor; [exact Hx | apply IH; exact Hr].
  - intros H. inversion H as [|x' r' Hx Hr]; subst. split; [exact Hx | apply IH; exact Hr].
Qed.

Lemma fold_distinct_obj kvs :
  fold_distinct (JObj kvs) <->
  keys_distinct (map fst kvs) /\ Forall (fun kv => fold_distinct (snd kv)) kvs.
Proof.
  change (fold_distinct (JObj kvs)) with (keys_distinct (map fst kvs) /\ fd_vals kvs).
  rewrite fd_vals_forall. reflexivity.
Qed.

Lemma field_jperm k kvs kvs' :
  Forall2 (fun a b : str * jv => fst a = fst b /\ jperm (snd a) (snd b)) kvs kvs' ->
  opt_perm (field k kvs) (field k kvs') /\ map fst kvs = map fst kvs'.
Proof.
  induction 1 as [|[ka va] [kb vb] r r' [Hk Hv] Hr [IHf IHm]]; [split; exact I || reflexivity|].
  cbn [fst snd] in Hk, Hv. subst kb. cbn [field map fst]. rewrite IHm.
  split; [|reflexivity]. destruct (equal_fold ka k); [exact Hv | exact IHf].
Qed.

Lemma opt_perm_refl o : opt_perm o o.
Proof. destruct o; [apply jp_refl | exact I]. Qed.

Lemma field_of_jperm k x y : fold_distinct x -> jperm x y -> opt_perm (field_of k x) (field_of k y).
Proof.
  intros Hd Hp. destruct Hp as [v|xs ys Hxs|kvs kvs' kvs'' Hkvs Hp].
  - apply opt_perm_refl.
  - exact I.
  - cbn [field_of]. destruct (field_jperm k kvs kvs' Hkvs) as [Hf Hm].
    apply fold_distinct_obj in Hd. destruct Hd as [Hkd _].
    rewrite Hm in Hkd. rewrite <- (field_perm k kvs' kvs'' Hp Hkd). exact Hf.
Qed.

Lemma collect_jperm k xs ys :
  Forall fold_distinct xs -> Forall2 jperm xs ys ->
  Forall2 jperm (collect (field_of k) xs) (collect (field_of k) ys).
Proof.
  intros Hd Hp. induction Hp as [|x y r r' Hxy Hr IH]; [constructor|].
  inversion Hd as [|x' r0 Hx Hr0]; subst. cbn [collect].
  pose proof (field_of_jperm k x y Hx Hxy) as Hf. unfold opt_perm in Hf.
  destruct (field_of k x), (field_of k y); try contradiction.
  - constructor; [exact Hf | exact (IH Hr0)].
  - exact (IH Hr0).
Qed.

Lemma lres_perm_refl r : lres_perm r r.
Proof. destruct r; [apply jp_refl | exact I | exact I]. Qed.

Lemma jperm_obj_l kvs y : jperm (JObj kvs) y -> exists kvs', y = JObj kvs'.
Proof. intros H. inversion H; subst; eauto. Qed.

Lemma jperm_obj_r x kvs : jperm x (JObj kvs) -> exists kvs', x = JObj kvs'.
Proof. intros H. inversion H; subst; eauto. Qed.

Lemma lookup1_jperm k x y : fold_distinct x -> jperm x y -> lres_perm (lookup1 k x) (lookup1 k y).
Proof.
  intros Hd Hp. pose proof Hp as Hp0. destruct Hp as [v|xs ys Hxs|kvs kvs' kvs'' Hkvs Hp].
  - apply lres_perm_refl.
  - apply fold_distinct_arr in Hd.
    pose proof (collect_jperm k xs ys Hd Hxs) as Hc.
    destruct Hxs as [|x0 y0 r r' H0 Hr]; [exact I|].
    destruct x0 as [| | | | |kvs0].
    6:{ destruct (jperm_obj_l kvs0 y0 H0) as [kvs1 Hy]. subst y0. cbn [lookup1].
        destruct Hc as [|a b cs cs' Hab Hcs]; [exact I|].
        cbn [lres_perm]. apply jp_arr. constructor; assumption. }
    all: destruct y0 as [| | | | |kvs1]; try exact I;
      destruct (jperm_obj_r _ kvs1 H0) as [kvs2 Hx]; discriminate Hx.
  - pose proof (field_of_jperm k (JObj kvs) (JObj kvs'') Hd Hp0) as Hf.
    cbn [field_of] in Hf. cbn [lookup1]. unfold opt_perm in Hf.
    destruct (field k kvs), (field k kvs''); try contradiction; exact Hf.
Qed.

Lemma field_distinct k kvs v :
  Forall (fun kv : str * jv => fold_distinct (snd kv)) kvs -> field k kvs = Some v -> fold_distinct v.
Proof.
  intros Hall Hf. destruct (field_some_in k kvs v Hf) as [k0 [Hin _]].
  rewrite Forall_forall in Hall. exact (Hall (k0, v) Hin).
Qed.

Lemma collect_distinct k xs :
  Forall fold_distinct xs -> Forall fold_distinct (collect (field_of k) xs).
Proof.
  induction 1 as [|x r Hx Hr IH]; [constructor|]. cbn [collect].
  destruct (field_of k x) as [y|] eqn:E; [|exact IH].
  constructor; [|exact IH].
  destruct x; try discriminate E. cbn [field_of] in E.
  apply fold_distinct_obj in Hx. destruct Hx as [_ Hv]. exact (field_distinct k kvs y Hv E).
Qed.

Lemma lookup1_distinct k x x' : fold_distinct x -> lookup1 k x = Found x' -> fold_distinct x'.
Proof.
  intros Hd Hl. destruct x as [| | | |xs|kvs]; try discriminate Hl.
  - apply fold_distinct_arr in Hd.
    pose proof (collect_distinct k xs Hd) as Hc.
    destruct xs as [|x0 r]; [discriminate Hl|].
    destruct x0; try discriminate Hl. cbn [lookup1] in Hl.
    destruct (collect (field_of k) (JObj kvs :: r)) as [|c cs]; [discriminate Hl|].
    injection Hl as Hl. subst x'. apply fold_distinct_arr. exact Hc.
  - cbn [lookup1] in Hl. destruct (field k kvs) as [v|] eqn:E; [|discriminate Hl].
    injection Hl as Hl. subst x'.
    apply fold_distinct_obj in Hd. destruct Hd as [_ Hv]. exact (field_distinct k kvs v Hv E).
Qed.

Theorem C01_map_order_irrelevant_doc : forall ks x y,
  fold_distinct x -> jperm x y -> lres_perm (lookup x ks) (lookup y ks).
Proof.
  induction ks as [|k ks IH]; intros x y Hd Hp; [exact Hp|].
  cbn [lookup].
  pose proof (lookup1_jperm k x y Hd Hp) as H1.
  pose proof (lookup1_distinct k x) as H2.
  destruct (lookup1 k x) as [x'| |], (lookup1 k y) as [y'| |]; try contradiction; try exact I.
  apply IH; [apply H2; [exact Hd | reflexivity] | exact H1].
Qed.

(** the evaluator's answers on two documents that differ only in the order
    of object fields are equal up to that order *)
Theorem C01_map_order_eval : forall uni eng g g' ks ks' fuel,
  wf_doc g -> wf_doc g' -> g <> VNil -> g' <> VNil ->
  fold_distinct (abs g) -> jperm (abs g) (abs g') ->
  Forall2 fold_eq ks' ks -> ks <> [] -> (2 <= fuel)%nat ->
  exists r r', proj (eval uni eng fuel (key_path ks') g g) = Some r /\
               proj (eval uni eng fuel (key_path ks') g' g') = Some r' /\ lres_perm r r'.
Proof.
  intros uni eng g g' ks ks' fuel Hg Hg' Hnn Hnn' Hd Hp Hks Hne Hfuel.
  exists (lookup (abs g) ks), (lookup (abs g') ks).
  split; [apply C01_lookup_refines; assumption|].
  split; [apply C01_lookup_refines; assumption|].
  apply C01_map_order_irrelevant_doc; assumption.
Qed.

(** reordering the association list of a Go map is a [jperm] step *)
Lemma abs_kvs_perm kvs kvs' : Permutation kvs kvs' -> Permutation (abs_kvs kvs) (abs_kvs kvs').
Proof.
  induction 1 as [|[k v] l l' Hl IH|[k1 v1] [k2 v2] l|l l' l'' H1 IH1 H2 IH2].
  - constructor.
  - cbn [abs_kvs]. destruct k; try exact IH. constructor. exact IH.
  - cbn [abs_kvs]. destruct k1, k2; try apply Permutation_refl. apply perm_swap.
  - exact (perm_trans IH1 IH2).
Qed.

Lemma jperm_fields_refl l :
  Forall2 (fun a b : str * jv => fst a = fst b /\ jperm (snd a) (snd b)) l l.
Proof. induction l as [|a l IH]; constructor; [split; [reflexivity | apply jp_refl] | exact IH]. Qed.

Lemma jperm_map_order kt vt n kvs kvs' :
  Permutation kvs kvs' -> jperm (abs (VMap kt vt n kvs)) (abs (VMap kt vt n kvs')).
Proof.
  intros Hp. rewrite !abs_map.
  apply jp_obj with (kvs' := abs_kvs kvs); [apply jperm_fields_refl | apply abs_kvs_perm; exact Hp].
Qed.

(** * Non-vacuity: a concrete document, a path that crosses an array, other casing *)
Definition example_doc : gv :=
  jobj [(jkey "Items", jarr [jobj [(jkey "name", VStr false (bs "bolt")); (jkey "qty", jnum 2)];
                             jobj [(jkey "Name", VStr false (bs "nut"))]]);
        (jkey "gone", VNil)].

Example C01_example :
  wf_doc example_doc /\ example_doc <> VNil /\ fold_distinct (abs example_doc) /\
  Forall2 fold_eq [bs "items"; bs "NAME"] [bs "Items"; bs "name"] /\
  (* $.items.NAME *)
  eval uni_ascii no_engines 2 (key_path [bs "items"; bs "NAME"]) example_doc example_doc
    = Ok (jarr [VStr false (bs "bolt"); VStr false (bs "nut")]) /\
  lookup (abs example_doc) [bs "Items"; bs "name"] = Found (JArr [JStr (bs "bolt"); JStr (bs "nut")]) /\
  (* $.ITEMS.Qty: only the elements that have it; the number by value *)
  proj (eval uni_ascii no_engines 2 (key_path [bs "ITEMS"; bs "Qty"]) example_doc example_doc)
    = Some (Found (JArr [JNum (mkDec 2 0)])) /\
  (* $.GONE: a stored null is a value; $.gone.x: a null on the way; $.items.price: a missing key *)
  proj (eval uni_ascii no_engines 2 (key_path [bs "GONE"]) example_doc example_doc) = Some (Found JNull) /\
  proj (eval uni_ascii no_engines 2 (key_path [bs "gone"; bs "x"]) example_doc example_doc) = Some OnNull /\
  eval uni_ascii no_engines 2 (key_path [bs "items"; bs "price"]) example_doc example_doc = Err EKeyNotFound.
Proof.
  split; [repeat econstructor|].
  split; [discriminate|].
  split.
  { cbv [example_doc abs jobj jarr jkey jnum fold_distinct keys_distinct map fst In].
    repeat match goal with
           | |- _ /\ _ => split
           | |- True => exact I
           | |- forall _, _ => intros
           | H : _ \/ _ |- _ => destruct H
           | H : False |- _ => destruct H
           | H : _ = ?k |- _ => subst k
           end; vm_compute; reflexivity. }
  split; [repeat constructor|].
  repeat split; vm_compute; reflexivity.
Qed.

(** the theorem applied to the example *)
Example C01_example_by_theorem :
  proj (eval uni_ascii no_engines default_fuel (key_path [bs "items"; bs "NAME"]) example_doc example_doc)
  = Some (Found (JArr [JStr (bs "bolt"); JStr (bs "nut")])).
Proof.
  destruct C01_example as [Hwf [Hnn [_ [Hks [_ [Hl _]]]]]].
  rewrite <- Hl. apply C01_lookup_refines; try assumption; [discriminate | unfold default_fuel; lia].
Qed.

Print Assumptions C01_lookup_refines.
Print Assumptions C01_lookup_refines_decoded.
Print Assumptions C01_single_key.
Print Assumptions json_carrier_wf.
Print Assumptions C01_no_invented_value.
Print Assumptions C01_key_not_found.
Print Assumptions C01_outcomes.
Print Assumptions C01_root_null.
Print Assumptions C01_decimal_headed_array.
Print Assumptions C01_map_order_irrelevant.
Print Assumptions C01_map_order_irrelevant_doc.
Print Assumptions C01_map_order_eval.
Print Assumptions jperm_map_order.
Print Assumptions C01_example.
Print Assumptions C01_example_by_theorem.
