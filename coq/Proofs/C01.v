(* Proofs/C01.v — a key path returns exactly the value stored at that path. *)
From Mpath.Model Require Import Base Dec Types GoVal Ast Lexer Parser Funcs Eval.
From Mpath.Spec Require Import Json.
From Coq Require Import Permutation.

(** * The abstraction: forget the Go carrier *)
Fixpoint abs (g : gv) : jv :=
  match g with
  | VNil => JNull
  | VBool _ b => JBool b
  | VInt _ _ z => JNum (dnorm (mkDec z 0))
  | VFloat _ _ (FFin d) => JNum (dnorm d)
  | VDec d => JNum (dnorm d)
  | VStr _ s => JStr s
  | VSlice _ _ xs => JArr (map abs xs)
  | VArray _ xs => JArr (map abs xs)
  | VMap _ _ _ kvs =>
      JObj ((fix go (l : list (gv * gv)) : list (str * jv) :=
               match l with
               | [] => []
               | (VStr _ s, v) :: r => (s, abs v) :: go r
               | _ :: r => go r
               end) kvs)
  | VStruct fs =>
      JObj ((fix go (l : list (str * bool * bool * gv)) : list (str * jv) :=
               match l with
               | [] => []
               | (n, e, _, v) :: r => if e then (n, abs v) :: go r else go r
               end) fs)
  | _ => JNull
  end.

Fixpoint abs_kvs (l : list (gv * gv)) : list (str * jv) :=
  match l with
  | [] => []
  | (VStr _ s, v) :: r => (s, abs v) :: abs_kvs r
  | _ :: r => abs_kvs r
  end.

Fixpoint abs_fields (l : list (str * bool * bool * gv)) : list (str * jv) :=
  match l with
  | [] => []
  | (n, e, _, v) :: r => if e then (n, abs v) :: abs_fields r else abs_fields r
  end.

Lemma abs_map kt vt n kvs : abs (VMap kt vt n kvs) = JObj (abs_kvs kvs).
Proof. reflexivity. Qed.

Lemma abs_struct fs : abs (VStruct fs) = JObj (abs_fields fs).
Proof. reflexivity. Qed.

(** * The documents the property quantifies over.
    Scalars in any Go carrier (numbers: any integer kind, finite floats,
    decimals; strings that are not numerals), nil for null, slices and arrays
    of any element type, maps keyed by Go strings, structs (unexported fields
    are invisible, as they are to encoding/json).  Slices and maps are
    non-nil (encoding/json never produces a nil one). *)
Inductive wf_doc : gv -> Prop :=
| wf_nil : wf_doc VNil
| wf_bool n b : wf_doc (VBool n b)
| wf_int k n z : wf_doc (VInt k n z)
| wf_float i n d : wf_doc (VFloat i n (FFin d))
| wf_dec d : wf_doc (VDec d)
| wf_str n s (Hs : dec_of_string s = None) : wf_doc (VStr n s)
| wf_slice t xs (Hxs : Forall wf_doc xs) : wf_doc (VSlice t false xs)
| wf_array t xs (Hxs : Forall wf_doc xs) : wf_doc (VArray t xs)
| wf_map kt vt kvs
    (Hkvs : Forall (fun kv => (exists k, fst kv = VStr false k) /\ wf_doc (snd kv)) kvs) :
    wf_doc (VMap kt vt false kvs)
| wf_struct fs (Hfs : Forall (fun f => wf_doc (snd f)) fs) : wf_doc (VStruct fs).

(** The one shape on which the evaluator and the specification part ways (see
    [C01_dec_headed_counterexample]): an array whose FIRST element is a number
    and which also holds an object having the key.  [regular v ks]: no such
    array is met while [ks] is followed from [v]. *)
Definition has_field (k : str) (v : jv) : bool :=
  match field_of k v with Some _ => true | None => false end.

Definition num_headed_mix (k : str) (v : jv) : bool :=
  match v with
  | JArr (JNum _ :: xs) => existsb (has_field k) xs
  | _ => false
  end.

Fixpoint regular (v : jv) (ks : list str) : Prop :=
  match ks with
  | [] => True
  | k :: rest =>
      num_headed_mix k v = false /\
      match lookup1 k v with Found v' => regular v' rest | _ => True end
  end.

(** * Statement vocabulary *)
Definition key_path (ks : list str) : node :=
  NPath (Path false true false false (map (fun k => PIdent k false k) ks) []).

Definition proj (o : outcome gv) : option lres :=
  match o with
  | Ok v => Some (Found (abs v))
  | Err EKeyNotFound => Some KeyNotFound
  | Err (EOther _) => Some OnNull
  | _ => None
  end.

Definition fold_eq (a b : str) : Prop := equal_fold a b = true.

(** * equal_fold is an equivalence *)
Lemma str_eqb_refl a : str_eqb a a = true.
Proof. induction a as [|c a IH]; cbn; [reflexivity|]. rewrite Ascii.eqb_refl. exact IH. Qed.

Lemma str_eqb_eq a b : str_eqb a b = true -> a = b.
Proof.
  revert b; induction a as [|c a IH]; intros [|d b] H; cbn in H; try discriminate; [reflexivity|].
  apply andb_true_iff in H. destruct H as [Hc Hr].
  apply Ascii.eqb_eq in Hc. rewrite Hc, (IH _ Hr). reflexivity.
Qed.

Lemma equal_fold_lower a b : equal_fold a b = true -> str_lower a = str_lower b.
Proof. apply str_eqb_eq. Qed.

Lemma equal_fold_refl a : equal_fold a a = true.
Proof. apply str_eqb_refl. Qed.

Lemma equal_fold_sym a b : equal_fold a b = true -> equal_fold b a = true.
Proof. intros H. unfold equal_fold. rewrite (equal_fold_lower _ _ H). apply str_eqb_refl. Qed.

Lemma equal_fold_trans a b c : equal_fold a b = true -> equal_fold b c = true -> equal_fold a c = true.
Proof. intros H1 H2. unfold equal_fold. rewrite (equal_fold_lower _ _ H1). exact H2. Qed.

(** matching a stored key against [k'] or against a fold-equal [k] is the same test *)
Lemma equal_fold_same s k' k : equal_fold k' k = true -> equal_fold s k' = equal_fold s k.
Proof. intros H. unfold equal_fold. rewrite (equal_fold_lower _ _ H). reflexivity. Qed.

(** * Conversions do not change the abstract value *)
Definition not_ptr (v : gv) : Prop := match v with VPtr _ => False | _ => True end.

Lemma wf_not_ptr v : wf_doc v -> not_ptr v.
Proof. destruct 1; exact I. Qed.

Lemma deref1_not_ptr v : not_ptr v -> deref1 (value_of v) = value_of v.
Proof.
  destruct v; intros H; try reflexivity; try (destruct H).
  unfold deref1, rkind, value_of; cbn. destruct (nk_unsigned k); reflexivity.
Qed.

Lemma convert_number_check_not_ptr v :
  not_ptr v ->
  convert_number_check v =
  match v with
  | VStr _ s => match dec_of_string s with Some d => (true, d) | None => (false, dzero) end
  | VInt _ _ z => (true, mkDec z 0)
  | VFloat _ _ (FFin d) => (true, d)
  | _ => (false, dzero)
  end.
Proof.
  intros H. unfold convert_number_check. rewrite (deref1_not_ptr v H).
  destruct (is_empty_value (value_of v)); cbn [value_of rv_v rv_if];
    destruct v; try reflexivity; destruct f; reflexivity.
Qed.

Lemma convert_number_wf v : wf_doc v -> wf_doc (convert_number v) /\ abs (convert_number v) = abs v.
Proof.
  intros H. unfold convert_number. rewrite (convert_number_check_not_ptr v (wf_not_ptr v H)).
  destruct H; try (split; [constructor; assumption | reflexivity]).
  rewrite Hs. split; [constructor; assumption | reflexivity].
Qed.

Lemma convert_unless_string_wf v :
  wf_doc v -> wf_doc (convert_unless_string v) /\ abs (convert_unless_string v) = abs v.
Proof.
  intros H. unfold convert_unless_string. destruct (is_go_string v); [split; [exact H | reflexivity]|].
  apply convert_number_wf; exact H.
Qed.

(** null is the only nil among well-formed values *)
Lemma is_nil_wf v : wf_doc v -> is_nil v = true -> v = VNil.
Proof.
  destruct 1; intros Hn; try reflexivity; try discriminate Hn.
  unfold is_nil in Hn; cbn in Hn. destruct (nk_unsigned k); discriminate Hn.
Qed.

(** * One key on one value *)
Section OneKey.
Variables k' k : str.
Hypothesis Hk : equal_fold k' k = true.

Lemma map_lookup_spec kvs :
  Forall (fun kv => (exists s, fst kv = VStr false s) /\ wf_doc (snd kv)) kvs ->
  match map_lookup_fold k' kvs with
  | Some x => field k (abs_kvs kvs) = Some (abs x) /\ wf_doc x
  | None => field k (abs_kvs kvs) = None
  end.
Proof.
  induction 1 as [|[kk v] r [[s Hs] Hv] Hr IH]; [reflexivity|].
  cbn [fst snd] in Hs, Hv. subst kk.
  cbn [map_lookup_fold key_string abs_kvs field].
  rewrite (equal_fold_same s k' k Hk).
  destruct (equal_fold s k); [split; [reflexivity | exact Hv] | exact IH].
Qed.

Lemma struct_lookup_spec fs :
  Forall (fun f : str * bool * bool * gv => wf_doc (snd f)) fs ->
  match struct_lookup_fold k' fs with
  | Some x => field k (abs_fields fs) = Some (abs x) /\ wf_doc x
  | None => field k (abs_fields fs) = None
  end.
Proof.
  induction 1 as [|[[[n e] i] v] r Hv Hr IH]; [reflexivity|].
  cbn [snd] in Hv.
  cbn [struct_lookup_fold abs_fields].
  destruct e; cbn [andb]; [|exact IH].
  cbn [field]. rewrite (equal_fold_same n k' k Hk).
  destruct (equal_fold n k); [split; [reflexivity | exact Hv] | exact IH].
Qed.

(** an element of an array, seen through its slot *)
Lemma field_by_name_map b kt vt n kvs :
  get_field_by_name k' (mkRv b (VMap kt vt n kvs)) = option_map convert_number (map_lookup_fold k' kvs).
Proof. destruct b; [reflexivity|]. destruct kvs; reflexivity. Qed.

Lemma field_by_name_struct b fs :
  get_field_by_name k' (mkRv b (VStruct fs)) = option_map convert_unless_string (struct_lookup_fold k' fs).
Proof. destruct b; reflexivity. Qed.

Lemma field_by_name_other b x :
  wf_doc x -> match x with VMap _ _ _ _ | VStruct _ => False | _ => True end ->
  get_field_by_name k' (mkRv b x) = None.
Proof.
  intros Hx Hno. unfold get_field_by_name.
  destruct (is_empty_value (mkRv b x)); [reflexivity|].
  destruct Hx; try destruct Hno; destruct b; try reflexivity.
  all: unfold deref1, rkind; cbn; destruct (nk_unsigned k0); reflexivity.
Qed.
Lemma field_by_name_spec b x :
  wf_doc x ->
  match get_field_by_name k' (mkRv b x) with
  | Some y => field_of k (abs x) = Some (abs y) /\ wf_doc y
  | None => field_of k (abs x) = None
  end.
Proof.
  intros Hx.
  destruct x;
    try (rewrite (field_by_name_other b _ Hx I);
         try match goal with |- context [abs (VFloat _ _ ?f)] => destruct f end; reflexivity).
  - inversion Hx as [| | | | | | | |kt0 vt0 kvs0 Hkvs|]; subst.
    rewrite field_by_name_map, abs_map. cbn [field_of].
    pose proof (map_lookup_spec kvs Hkvs) as Hl.
    destruct (map_lookup_fold k' kvs) as [y|]; cbn [option_map]; [|exact Hl].
    destruct Hl as [Hf Hy]. destruct (convert_number_wf y Hy) as [Hw Ha].
    rewrite Ha. split; assumption.
  - inversion Hx as [| | | | | | | | |fs0 Hfs]; subst.
    rewrite field_by_name_struct, abs_struct. cbn [field_of].
    pose proof (struct_lookup_spec fields Hfs) as Hl.
    destruct (struct_lookup_fold k' fields) as [y|]; cbn [option_map]; [|exact Hl].
    destruct Hl as [Hf Hy]. destruct (convert_unless_string_wf y Hy) as [Hw Ha].
    rewrite Ha. split; assumption.
Qed.

Lemma filter_map_spec t xs :
  Forall wf_doc xs ->
  map abs (filter_map (fun x => get_field_by_name k' (slot t x)) xs) = collect (field_of k) (map abs xs)
  /\ Forall wf_doc (filter_map (fun x => get_field_by_name k' (slot t x)) xs).
Proof.
  induction 1 as [|x r Hx Hr [IHa IHw]]; [split; [reflexivity | constructor]|].
  cbn [filter_map map collect]. change (slot t x) with (mkRv (ety_eqb t EAny) x).
  pose proof (field_by_name_spec (ety_eqb t EAny) x Hx) as Hf.
  destruct (get_field_by_name k' (mkRv (ety_eqb t EAny) x)) as [y|].
  - destruct Hf as [Hf Hy]. rewrite Hf. cbn [map]. rewrite IHa. split; [reflexivity | constructor; assumption].
  - rewrite Hf. split; assumption.
Qed.

(** the array branch of getValuesByName *)
Definition project (t : ety) (xs : list gv) : outcome gv :=
  match xs with
  | [] => Err EKeyNotFound
  | x0 :: _ =>
    match rkind (deref1 (slot t x0)) with
    | KdStruct | KdMap =>
      match filter_map (fun x => get_field_by_name k' (slot t x)) xs with
      | [] => Err EKeyNotFound
      | slc => Ok (VSlice EAny false slc)
      end
    | _ => Err EKeyNotFound
    end
  end.

Lemma do_ident_slice t xs : do_ident k' (VSlice t false xs) = project t xs.
Proof. destruct xs; reflexivity. Qed.

Lemma do_ident_array t xs : do_ident k' (VArray t xs) = project t xs.
Proof. destruct xs; reflexivity. Qed.

Lemma slot_kind t x : not_ptr x -> rkind (deref1 (slot t x)) = kind_of x.
Proof.
  intros Hx. unfold slot. destruct (ety_eqb t EAny); [reflexivity|].
  destruct x; try reflexivity; try (destruct Hx).
  destruct k0; reflexivity.
Qed.

Lemma collect_none xs :
  existsb (has_field k) xs = false -> collect (field_of k) xs = [].
Proof.
  induction xs as [|x r IH]; [reflexivity|]. cbn [existsb collect]. unfold has_field at 1.
  destruct (field_of k x); cbn [orb]; [discriminate | exact IH].
Qed.

Definition step_ok (d : gv) (o : outcome gv) : Prop :=
  match o with
  | Ok v => lookup1 k (abs d) = Found (abs v) /\ wf_doc v
  | Err EKeyNotFound => lookup1 k (abs d) = KeyNotFound
  | _ => False
  end.

Lemma project_spec t xs (d : gv) :
  abs d = JArr (map abs xs) ->
  Forall wf_doc xs ->
  num_headed_mix k (JArr (map abs xs)) = false ->
  step_ok d (project t xs).
Proof.
  intros Hd Hxs Hmix. unfold step_ok. rewrite Hd. clear Hd d.
  destruct xs as [|x0 r]; [reflexivity|].
  destruct (filter_map_spec t (x0 :: r) Hxs) as [Ha Hw].
  inversion Hxs as [|x0' r' Hx0 Hr]; subst.
  unfold project. rewrite (slot_kind t x0 (wf_not_ptr x0 Hx0)).
  destruct Hx0; try (destruct k0); try reflexivity.
  - (* a decimal first: the evaluator goes on, the hypothesis says it finds nothing *)
    cbn [kind_of]. cbn [map abs num_headed_mix] in Hmix.
    cbn [map abs collect field_of] in Ha. rewrite (collect_none _ Hmix) in Ha.
    destruct (filter_map (fun x => get_field_by_name k' (slot t x)) (VDec d :: r)); [reflexivity | discriminate Ha].
  - cbn [kind_of]. cbn [map] in Ha |- *. rewrite abs_map in Ha |- *. cbn [lookup1]. rewrite <- Ha.
    destruct (filter_map (fun x => get_field_by_name k' (slot t x)) (VMap kt vt false kvs :: r)) as [|y ys];
      [reflexivity | split; [reflexivity | constructor; exact Hw]].
  - cbn [kind_of]. cbn [map] in Ha |- *. rewrite abs_struct in Ha |- *. cbn [lookup1]. rewrite <- Ha.
    destruct (filter_map (fun x => get_field_by_name k' (slot t x)) (VStruct fs :: r)) as [|y ys];
      [reflexivity | split; [reflexivity | constructor; exact Hw]].
Qed.

Lemma scalar_spec d :
  wf_doc d -> d <> VNil ->
  match d with VSlice _ _ _ | VArray _ _ | VMap _ _ _ _ | VStruct _ => False | _ => True end ->
  do_ident k' d = Err EKeyNotFound /\ lookup1 k (abs d) = KeyNotFound.
Proof.
  intros Hd Hnn Hsc.
  destruct Hd; try (destruct Hsc); try (exfalso; apply Hnn; reflexivity).
  all: split; [|reflexivity].
  all: unfold do_ident; rewrite deref1_not_ptr by exact I; cbn [rv_v value_of];
       unfold get_values_by_name;
       destruct (is_empty_value _); [reflexivity|];
       rewrite deref1_not_ptr by exact I; reflexivity.
Qed.

(** the step: one key of the query on one well-formed, non-null value *)
Lemma do_ident_spec d :
  wf_doc d -> d <> VNil -> num_headed_mix k (abs d) = false -> step_ok d (do_ident k' d).
Proof.
  intros Hd Hnn Hmix.
  destruct d;
    try (destruct (scalar_spec _ Hd Hnn I) as [Hm Hs]; unfold step_ok; rewrite Hm; exact Hs).
  - inversion Hd as [| | | | | |t0 xs0 Hxs| | |]; subst.
    rewrite do_ident_slice. apply project_spec; [reflexivity | exact Hxs | exact Hmix].
  - inversion Hd as [| | | | | | |t0 xs0 Hxs| |]; subst.
    rewrite do_ident_array. apply project_spec; [reflexivity | exact Hxs | exact Hmix].
  - inversion Hd as [| | | | | | | |kt0 vt0 kvs0 Hkvs|]; subst.
    unfold step_ok. rewrite abs_map. cbn [lookup1].
    change (do_ident k' (VMap kt vt false kvs)) with
      (match map_lookup_fold k' kvs with Some x => Ok (convert_unless_string x) | None => Err EKeyNotFound end).
    pose proof (map_lookup_spec kvs Hkvs) as Hl.
    destruct (map_lookup_fold k' kvs) as [y|]; [|rewrite Hl; reflexivity].
    destruct Hl as [Hf Hy]. destruct (convert_unless_string_wf y Hy) as [Hw Ha].
    rewrite Hf, Ha. split; [reflexivity | exact Hw].
  - inversion Hd as [| | | | | | | | |fs0 Hfs]; subst.
    unfold step_ok. rewrite abs_struct. cbn [lookup1].
    change (do_ident k' (VStruct fields)) with
      (match option_map convert_unless_string (struct_lookup_fold k' fields) with Some out => Ok out | None => Err EKeyNotFound end).
    pose proof (struct_lookup_spec fields Hfs) as Hl.
    destruct (struct_lookup_fold k' fields) as [y|]; cbn [option_map]; [|rewrite Hl; reflexivity].
    destruct Hl as [Hf Hy]. destruct (convert_unless_string_wf y Hy) as [Hw Ha].
    rewrite Hf, Ha. split; [reflexivity | exact Hw].
Qed.
End OneKey.
