(* DecQ.v — the decimal arithmetic of Model/Dec.v is exact with respect to the
   rational numbers.

   A decimal [mkDec c e] denotes the rational  c * 10^e  ([dval]).  This file
   proves that
     - rescale / rescale_pair preserve the value when they go to a smaller
       exponent (the only way add/sub/cmp use them);
     - dadd, dsub, dmul, dneg, dabs compute the exact rational result;
     - dcmp is the comparison of the rationals, hence deq/dlt/dgt/dle/dge are
       the usual order relations, are trichotomous, and do not depend on the
       representation;
     - dsum, dmin, dmax are the exact sum / a minimum / a maximum;
     - dnorm (strip_zeros) preserves the value;
     - ddiv (DivRound, precision 16) is within half a unit in the 16th place of
       the exact quotient; so is davg;
     - truncate0 is truncation toward zero and dmod is a - b * trunc(a / b)
       computed on the *rounded* quotient.

   Everything is closed under the global context (see the Print Assumptions at
   the end of the file). *)

From Mpath.Model Require Import Base Dec.
From Coq Require Import ZArith QArith Qpower Qabs Qfield Lia Lra List Morphisms.
Import ListNotations.
Local Open Scope Q_scope.

Local Arguments Z.pow : simpl never.
Local Arguments Z.quot : simpl never.
Local Arguments Z.rem : simpl never.

(* ------------------------------------------------------------------------- *)
(** * 0. Denotation                                                           *)
(* ------------------------------------------------------------------------- *)

Definition pow10Q (e : Z) : Q := (10 # 1) ^ e.
Definition dval (d : dec) : Q := inject_Z (coef d) * pow10Q (dexp d).

Lemma dval_mk : forall c e, dval (mkDec c e) = inject_Z c * pow10Q e.
Proof. reflexivity. Qed.

(** ** Powers of ten *)

Lemma ten_nz : ~ (10 # 1) == 0.
Proof. intro H. discriminate H. Qed.

Lemma pow10Q_pos : forall e, 0 < pow10Q e.
Proof. intro e. unfold pow10Q. apply Qpower_0_lt. reflexivity. Qed.

Lemma pow10Q_nz : forall e, ~ pow10Q e == 0.
Proof.
  intros e H. pose proof (pow10Q_pos e) as Hp. rewrite H in Hp.
  exact (Qlt_irrefl 0 Hp).
Qed.

Lemma pow10Q_plus : forall a b, pow10Q (a + b) == pow10Q a * pow10Q b.
Proof. intros a b. unfold pow10Q. apply Qpower_plus. exact ten_nz. Qed.

Lemma pow10Q_opp : forall e, pow10Q (- e) == / pow10Q e.
Proof. intro e. unfold pow10Q. apply Qpower_opp. Qed.

Lemma pow10Q_0 : pow10Q 0 == 1.
Proof. reflexivity. Qed.

Lemma pow10Q_nonneg : forall k, (0 <= k)%Z -> pow10Q k == inject_Z (pow10 k).
Proof.
  intros k Hk. unfold pow10Q, pow10.
  rewrite (Zpower_Qpower 10 k Hk). reflexivity.
Qed.

Lemma pow10Q_shift :
  forall e k, (0 <= k)%Z -> pow10Q (e + k) == pow10Q e * inject_Z (pow10 k).
Proof.
  intros e k Hk. rewrite pow10Q_plus, (pow10Q_nonneg k Hk). reflexivity.
Qed.

Lemma pow10_pos : forall k, (0 <= k)%Z -> (0 < pow10 k)%Z.
Proof. intros k Hk. unfold pow10. apply Z.pow_pos_nonneg; lia. Qed.

Global Opaque pow10Q.

Lemma inject_Z_nz : forall z, z <> 0%Z -> ~ inject_Z z == 0.
Proof.
  intros z Hz H. apply Hz.
  apply (proj1 (inject_Z_injective z 0)). exact H.
Qed.

(** Comparing two rationals that share a positive factor. *)
Lemma Qcompare_scale :
  forall c1 c2 p, 0 < p ->
  (inject_Z c1 * p ?= inject_Z c2 * p) = (c1 ?= c2)%Z.
Proof.
  intros c1 c2 p Hp. destruct (Z.compare_spec c1 c2) as [Heq | Hlt | Hgt].
  - subst c2. apply Qeq_alt. reflexivity.
  - apply Qlt_alt. apply (Qmult_lt_r _ _ p Hp). rewrite <- Zlt_Qlt. exact Hlt.
  - apply Qgt_alt. apply (Qmult_lt_r _ _ p Hp). rewrite <- Zlt_Qlt. exact Hgt.
Qed.

(* ------------------------------------------------------------------------- *)
(** * 1. rescale                                                              *)
(* ------------------------------------------------------------------------- *)

Lemma rescale_dexp : forall d e, dexp (rescale d e) = e.
Proof.
  intros d e. unfold rescale.
  destruct (e =? dexp d)%Z eqn:He.
  - apply Z.eqb_eq in He. symmetry. exact He.
  - destruct (dexp d <? e)%Z; reflexivity.
Qed.

Theorem rescale_exact :
  forall d e, (e <= dexp d)%Z -> dval (rescale d e) == dval d.
Proof.
  intros d e Hle. unfold rescale.
  destruct (e =? dexp d)%Z eqn:He; [reflexivity|].
  destruct (dexp d <? e)%Z eqn:Hlt.
  - apply Z.ltb_lt in Hlt. lia.
  - rewrite dval_mk. unfold dval.
    rewrite inject_Z_mult.
    assert (Hp : pow10Q (dexp d) == pow10Q e * inject_Z (pow10 (dexp d - e))).
    { rewrite <- pow10Q_shift by lia.
      replace (e + (dexp d - e))%Z with (dexp d) by lia. reflexivity. }
    rewrite Hp. ring.
Qed.

(** Both facts at once. *)
Corollary rescale_exact_full :
  forall d e, dexp (rescale d e) = e /\
              ((e <= dexp d)%Z -> dval (rescale d e) == dval d).
Proof. intros d e. split; [apply rescale_dexp | apply rescale_exact]. Qed.

(** Shape of a rescaled decimal: same value, the requested exponent. *)
Lemma rescale_shape :
  forall d e, (e <= dexp d)%Z ->
  dval d == inject_Z (coef (rescale d e)) * pow10Q e.
Proof.
  intros d e Hle. rewrite <- (rescale_exact d e Hle). unfold dval.
  rewrite rescale_dexp. reflexivity.
Qed.

(* ------------------------------------------------------------------------- *)
(** * 2. rescale_pair                                                         *)
(* ------------------------------------------------------------------------- *)

Theorem rescale_pair_exact :
  forall a b, let (x, y) := rescale_pair a b in
  dexp x = dexp y /\ dval x == dval a /\ dval y == dval b.
Proof.
  intros a b. unfold rescale_pair. cbv beta iota zeta.
  split; [|split].
  - rewrite !rescale_dexp. reflexivity.
  - apply rescale_exact. lia.
  - apply rescale_exact. lia.
Qed.

(** The same, in a form that is convenient after [destruct (rescale_pair a b)]. *)
Lemma rescale_pair_shape :
  forall a b x y, rescale_pair a b = (x, y) ->
  exists e, dexp x = e /\ dexp y = e /\
            dval a == inject_Z (coef x) * pow10Q e /\
            dval b == inject_Z (coef y) * pow10Q e.
Proof.
  intros a b x y Hxy. pose proof (rescale_pair_exact a b) as H.
  rewrite Hxy in H. destruct H as (He & Hx & Hy).
  exists (dexp x). split; [reflexivity|]. split; [symmetry; exact He|].
  split.
  - rewrite <- Hx. reflexivity.
  - rewrite <- Hy. unfold dval. rewrite He. reflexivity.
Qed.

(* ------------------------------------------------------------------------- *)
(** * 3. Ring operations                                                      *)
(* ------------------------------------------------------------------------- *)

Theorem dadd_exact : forall a b, dval (dadd a b) == dval a + dval b.
Proof.
  intros a b. unfold dadd.
  destruct (rescale_pair a b) as [x y] eqn:Hxy.
  destruct (rescale_pair_shape a b x y Hxy) as (e & Hx & Hy & Ha & Hb).
  rewrite Ha, Hb, dval_mk, Hx, inject_Z_plus. ring.
Qed.

Theorem dsub_exact : forall a b, dval (dsub a b) == dval a - dval b.
Proof.
  intros a b. unfold dsub.
  destruct (rescale_pair a b) as [x y] eqn:Hxy.
  destruct (rescale_pair_shape a b x y Hxy) as (e & Hx & Hy & Ha & Hb).
  rewrite Ha, Hb, dval_mk, Hx. unfold Z.sub.
  rewrite inject_Z_plus, inject_Z_opp. ring.
Qed.

Theorem dmul_exact : forall a b, dval (dmul a b) == dval a * dval b.
Proof.
  intros a b. unfold dmul. rewrite dval_mk. unfold dval.
  rewrite inject_Z_mult, pow10Q_plus. ring.
Qed.

Theorem dneg_exact : forall a, dval (dneg a) == - dval a.
Proof.
  intro a. unfold dneg. rewrite dval_mk. unfold dval.
  rewrite inject_Z_opp. ring.
Qed.

Theorem dabs_exact : forall a, dval (dabs a) == Qabs (dval a).
Proof.
  intro a. unfold dabs. rewrite dval_mk. unfold dval.
  rewrite Qabs_Qmult. rewrite (Qabs_pos (pow10Q (dexp a))).
  - reflexivity.
  - apply Qlt_le_weak. apply pow10Q_pos.
Qed.

Lemma dzero_exact : dval dzero == 0.
Proof. unfold dzero. rewrite dval_mk. ring. Qed.

Lemma dis_zero_iff : forall a, dis_zero a = true <-> dval a == 0.
Proof.
  intro a. unfold dis_zero, dval. split.
  - intro H. apply Z.eqb_eq in H. rewrite H. ring.
  - intro H. apply Z.eqb_eq.
    destruct (Z.eq_dec (coef a) 0) as [Hz | Hnz]; [exact Hz|].
    exfalso. apply (Qmult_integral _ _) in H. destruct H as [H | H].
    + exact (inject_Z_nz _ Hnz H).
    + exact (pow10Q_nz _ H).
Qed.

(* ------------------------------------------------------------------------- *)
(** * 4. Comparison                                                           *)
(* ------------------------------------------------------------------------- *)

Theorem dcmp_spec : forall a b, dcmp a b = (dval a ?= dval b).
Proof.
  intros a b. unfold dcmp.
  destruct (rescale_pair a b) as [x y] eqn:Hxy.
  destruct (rescale_pair_shape a b x y Hxy) as (e & Hx & Hy & Ha & Hb).
  rewrite Ha, Hb. symmetry. apply Qcompare_scale. apply pow10Q_pos.
Qed.

Theorem deq_iff : forall a b, deq a b = true <-> dval a == dval b.
Proof.
  intros a b. unfold deq. rewrite dcmp_spec.
  destruct (Qcompare_spec (dval a) (dval b)) as [H | H | H]; split; intro K;
    try reflexivity; try discriminate K; try exact H.
  - rewrite K in H. exfalso. exact (Qlt_irrefl _ H).
  - rewrite K in H. exfalso. exact (Qlt_irrefl _ H).
Qed.

Theorem dlt_iff : forall a b, dlt a b = true <-> dval a < dval b.
Proof.
  intros a b. unfold dlt. rewrite dcmp_spec.
  destruct (Qcompare_spec (dval a) (dval b)) as [H | H | H]; split; intro K;
    try reflexivity; try discriminate K; try exact H.
  - rewrite H in K. exfalso. exact (Qlt_irrefl _ K).
  - exfalso. exact (Qlt_irrefl _ (Qlt_trans _ _ _ H K)).
Qed.

Theorem dgt_iff : forall a b, dgt a b = true <-> dval b < dval a.
Proof.
  intros a b. unfold dgt. rewrite dcmp_spec.
  destruct (Qcompare_spec (dval a) (dval b)) as [H | H | H]; split; intro K;
    try reflexivity; try discriminate K; try exact H.
  - rewrite H in K. exfalso. exact (Qlt_irrefl _ K).
  - exfalso. exact (Qlt_irrefl _ (Qlt_trans _ _ _ H K)).
Qed.

Theorem dle_iff : forall a b, dle a b = true <-> dval a <= dval b.
Proof.
  intros a b. unfold dle, dgt. rewrite dcmp_spec.
  destruct (Qcompare_spec (dval a) (dval b)) as [H | H | H]; split; intro K;
    try reflexivity; try discriminate K.
  - rewrite H. apply Qle_refl.
  - apply Qlt_le_weak. exact H.
  - exfalso. exact (Qlt_not_le _ _ H K).
Qed.

Theorem dge_iff : forall a b, dge a b = true <-> dval b <= dval a.
Proof.
  intros a b. unfold dge, dlt. rewrite dcmp_spec.
  destruct (Qcompare_spec (dval a) (dval b)) as [H | H | H]; split; intro K;
    try reflexivity; try discriminate K.
  - rewrite H. apply Qle_refl.
  - exfalso. exact (Qlt_not_le _ _ H K).
  - apply Qlt_le_weak. exact H.
Qed.

(** Exactly one of dlt / deq / dgt holds. *)
Theorem dcmp_trichotomy :
  forall a b,
    (dlt a b = true  /\ deq a b = false /\ dgt a b = false) \/
    (dlt a b = false /\ deq a b = true  /\ dgt a b = false) \/
    (dlt a b = false /\ deq a b = false /\ dgt a b = true).
Proof.
  intros a b. unfold dlt, deq, dgt. destruct (dcmp a b).
  - right. left. repeat split.
  - left. repeat split.
  - right. right. repeat split.
Qed.

(** The same as boolean equations. *)
Theorem dcmp_trichotomy_bool :
  forall a b,
    xorb (xorb (dlt a b) (deq a b)) (dgt a b) = true /\
    dlt a b && deq a b = false /\ dlt a b && dgt a b = false /\
    deq a b && dgt a b = false.
Proof.
  intros a b. unfold dlt, deq, dgt. destruct (dcmp a b); repeat split.
Qed.

Theorem dle_lt_or_eq : forall a b, dle a b = dlt a b || deq a b.
Proof. intros a b. unfold dle, dgt, dlt, deq. destruct (dcmp a b); reflexivity. Qed.

Theorem dge_gt_or_eq : forall a b, dge a b = dgt a b || deq a b.
Proof. intros a b. unfold dge, dgt, dlt, deq. destruct (dcmp a b); reflexivity. Qed.

(** Comparison does not see the representation. *)
Theorem repr_invariant :
  forall a a' b b', dval a == dval a' -> dval b == dval b' ->
  dcmp a b = dcmp a' b'.
Proof.
  intros a a' b b' Ha Hb. rewrite !dcmp_spec. rewrite Ha, Hb. reflexivity.
Qed.

Corollary dcmp_antisym : forall a b, dcmp b a = CompOpp (dcmp a b).
Proof. intros a b. rewrite !dcmp_spec. symmetry. apply Qcompare_antisym. Qed.

Corollary dcmp_refl : forall a, dcmp a a = Eq.
Proof. intro a. rewrite dcmp_spec. apply Qeq_alt. reflexivity. Qed.

(* ------------------------------------------------------------------------- *)
(** * 5. Sum                                                                  *)
(* ------------------------------------------------------------------------- *)

Lemma fold_left_Qplus_comp :
  forall l q q', q == q' -> fold_left Qplus l q == fold_left Qplus l q'.
Proof.
  intro l. induction l as [| x l IH]; intros q q' Hq; simpl.
  - exact Hq.
  - apply IH. rewrite Hq. reflexivity.
Qed.

Theorem dsum_exact :
  forall first rest,
  dval (dsum first rest) == fold_left Qplus (map dval rest) (dval first).
Proof.
  intros first rest. unfold dsum. revert first.
  induction rest as [| x rest IH]; intro first; simpl.
  - reflexivity.
  - rewrite IH. apply fold_left_Qplus_comp. apply dadd_exact.
Qed.

(* ------------------------------------------------------------------------- *)
(** * 6. Minimum and maximum                                                  *)
(* ------------------------------------------------------------------------- *)

Theorem dmin_spec :
  forall first rest,
  In (dmin first rest) (first :: rest) /\
  forall x, In x (first :: rest) -> dval (dmin first rest) <= dval x.
Proof.
  intros first rest. unfold dmin. revert first.
  induction rest as [| y rest IH]; intro first.
  - simpl. split.
    + left. reflexivity.
    + intros x [Hx | []]. subst x. apply Qle_refl.
  - cbn [fold_left].
    set (acc := match dcmp y first with Lt => y | _ => first end).
    assert (Hacc : (acc = first \/ acc = y) /\
                   dval acc <= dval first /\ dval acc <= dval y).
    { unfold acc. rewrite dcmp_spec.
      destruct (Qcompare_spec (dval y) (dval first)) as [H | H | H].
      - split; [left; reflexivity|]. split; [apply Qle_refl|].
        rewrite H. apply Qle_refl.
      - split; [right; reflexivity|]. split; [apply Qlt_le_weak; exact H|].
        apply Qle_refl.
      - split; [left; reflexivity|]. split; [apply Qle_refl|].
        apply Qlt_le_weak. exact H. }
    destruct Hacc as (Hin & Hle1 & Hle2).
    destruct (IH acc) as (IHin & IHle). split.
    + destruct IHin as [Heq | Hr].
      * rewrite <- Heq. destruct Hin as [Hf | Hy]; rewrite ?Hf, ?Hy.
        -- left. reflexivity.
        -- right. left. reflexivity.
      * right. right. exact Hr.
    + intros x [Hx | [Hx | Hx]].
      * subst x. apply Qle_trans with (dval acc); [|exact Hle1].
        apply IHle. left. reflexivity.
      * subst x. apply Qle_trans with (dval acc); [|exact Hle2].
        apply IHle. left. reflexivity.
      * apply IHle. right. exact Hx.
Qed.

Theorem dmax_spec :
  forall first rest,
  In (dmax first rest) (first :: rest) /\
  forall x, In x (first :: rest) -> dval x <= dval (dmax first rest).
Proof.
  intros first rest. unfold dmax. revert first.
  induction rest as [| y rest IH]; intro first.
  - simpl. split.
    + left. reflexivity.
    + intros x [Hx | []]. subst x. apply Qle_refl.
  - cbn [fold_left].
    set (acc := match dcmp y first with Gt => y | _ => first end).
    assert (Hacc : (acc = first \/ acc = y) /\
                   dval first <= dval acc /\ dval y <= dval acc).
    { unfold acc. rewrite dcmp_spec.
      destruct (Qcompare_spec (dval y) (dval first)) as [H | H | H].
      - split; [left; reflexivity|]. split; [apply Qle_refl|].
        rewrite H. apply Qle_refl.
      - split; [left; reflexivity|]. split; [apply Qle_refl|].
        apply Qlt_le_weak. exact H.
      - split; [right; reflexivity|]. split; [apply Qlt_le_weak; exact H|].
        apply Qle_refl. }
    destruct Hacc as (Hin & Hle1 & Hle2).
    destruct (IH acc) as (IHin & IHle). split.
    + destruct IHin as [Heq | Hr].
      * rewrite <- Heq. destruct Hin as [Hf | Hy]; rewrite ?Hf, ?Hy.
        -- left. reflexivity.
        -- right. left. reflexivity.
      * right. right. exact Hr.
    + intros x [Hx | [Hx | Hx]].
      * subst x. apply Qle_trans with (dval acc); [exact Hle1|].
        apply IHle. left. reflexivity.
      * subst x. apply Qle_trans with (dval acc); [exact Hle2|].
        apply IHle. left. reflexivity.
      * apply IHle. right. exact Hx.
Qed.

(* ------------------------------------------------------------------------- *)
(** * 9. Normal form                                                          *)
(* ------------------------------------------------------------------------- *)

Lemma strip_zeros_exact :
  forall fuel c e, dval (strip_zeros fuel c e) == dval (mkDec c e).
Proof.
  intro fuel. induction fuel as [| k IH]; intros c e.
  - reflexivity.
  - cbn [strip_zeros].
    destruct (c =? 0)%Z eqn:Hc0.
    + apply Z.eqb_eq in Hc0. subst c. rewrite !dval_mk. ring.
    + destruct (Z.rem c 10 =? 0)%Z eqn:Hrem; [|reflexivity].
      apply Z.eqb_eq in Hrem. rewrite IH, !dval_mk.
      pose proof (Z.quot_rem' c 10) as Hqr. rewrite Hrem in Hqr.
      remember (Z.quot c 10) as q eqn:Hq. clear Hq.
      assert (Hc : c = (q * 10)%Z) by lia. clear Hqr. subst c.
      rewrite (pow10Q_shift e 1) by lia.
      change (pow10 1) with 10%Z.
      rewrite inject_Z_mult. ring.
Qed.

Theorem dnorm_exact : forall d, dval (dnorm d) == dval d.
Proof. intro d. unfold dnorm. rewrite strip_zeros_exact. reflexivity. Qed.

(* ------------------------------------------------------------------------- *)
(** * 7. Division: DivRound is within half a unit in the last place           *)
(* ------------------------------------------------------------------------- *)

(** ** 7a. Integer core: truncated quotient, then round half away from zero *)

(** Truncation: the quotient of [Z.quot] is within one divisor of the
    dividend, on the side of zero. *)
Lemma Zquot_trunc_bound :
  forall aa bb, bb <> 0%Z ->
  (Z.abs (Z.quot aa bb * bb - aa) < Z.abs bb)%Z /\
  (Z.abs (Z.quot aa bb * bb) <= Z.abs aa)%Z.
Proof.
  intros aa bb Hbb.
  pose proof (Z.quot_rem' aa bb) as Hqr.
  pose proof (Z.rem_bound_abs aa bb Hbb) as Hr.
  pose proof (Z.rem_sign_mul aa bb Hbb) as Hs.
  remember (Z.quot aa bb) as q eqn:Hq. remember (Z.rem aa bb) as r eqn:Hr'.
  clear Hq Hr'. split.
  - replace (q * bb - aa)%Z with (- r)%Z by lia. lia.
  - assert (Hqa : (0 <= (bb * q) * r)%Z).
    { destruct (Z.eq_dec (bb * q) 0) as [Hz | Hnz]; [rewrite Hz; lia|].
      (* |r| < |bb| <= |bb*q|, so bb*q has the sign of aa, which r shares *)
      assert (Hbq : (Z.abs bb <= Z.abs (bb * q))%Z).
      { rewrite Z.abs_mul. assert (q <> 0)%Z by (intro; subst q; lia). nia. }
      nia. }
    nia.
Qed.

Lemma mul_nonneg_pos_r : forall r a, (0 <= r * a)%Z -> (0 < a)%Z -> (0 <= r)%Z.
Proof. intros r a H Ha. nia. Qed.

Lemma mul_nonneg_neg_r : forall r a, (0 <= r * a)%Z -> (a < 0)%Z -> (r <= 0)%Z.
Proof. intros r a H Ha. nia. Qed.

Lemma Zround_half :
  forall aa bb, bb <> 0%Z ->
  let q := Z.quot aa bb in
  let r := Z.rem aa bb in
  ((Z.abs r * 2 < Z.abs bb)%Z ->
     (2 * Z.abs (q * bb - aa) <= Z.abs bb)%Z) /\
  ((Z.abs bb <= Z.abs r * 2)%Z -> (Z.sgn aa * Z.sgn bb < 0)%Z ->
     (2 * Z.abs ((q - 1) * bb - aa) <= Z.abs bb)%Z) /\
  ((Z.abs bb <= Z.abs r * 2)%Z -> ~ (Z.sgn aa * Z.sgn bb < 0)%Z ->
     (2 * Z.abs ((q + 1) * bb - aa) <= Z.abs bb)%Z).
Proof.
  intros aa bb Hbb q r.
  pose proof (Z.quot_rem' aa bb) as Hqr.
  pose proof (Z.rem_bound_abs aa bb Hbb) as Hr.
  pose proof (Z.rem_sign_mul aa bb Hbb) as Hs.
  fold q in Hqr. fold r in Hqr, Hr, Hs.
  clearbody q r.
  (* the remainder has the sign of the dividend *)
  assert (Hrs : ((0 < aa -> 0 <= r) /\ (aa < 0 -> r <= 0) /\ (aa = 0 -> r = 0))%Z).
  { split; [|split].
    - intro Ha. apply (mul_nonneg_pos_r r aa); assumption.
    - intro Ha. apply (mul_nonneg_neg_r r aa); assumption.
    - intro Ha. subst aa.
      destruct (Z.eq_dec q 0) as [Hq | Hq]; [subst q; lia|]. exfalso.
      assert (Hbq : (Z.abs bb <= Z.abs (bb * q))%Z) by (rewrite Z.abs_mul; nia).
      lia. }
  destruct Hrs as (Hrp & Hrn & Hrz). clear Hs.
  split; [|split].
  - intro Hlt. replace (q * bb - aa)%Z with (- r)%Z by lia. lia.
  - intros Hge Hsgn.
    replace ((q - 1) * bb - aa)%Z with (- (bb + r))%Z by lia.
    destruct (Z.lt_trichotomy aa 0) as [Ha | [Ha | Ha]];
    destruct (Z.lt_trichotomy bb 0) as [Hb | [Hb | Hb]];
      try (exfalso; exact (Hbb Hb)).
    + rewrite (Z.sgn_neg aa), (Z.sgn_neg bb) in Hsgn by assumption. lia.
    + specialize (Hrn Ha). lia.
    + rewrite Ha, Z.sgn_0 in Hsgn. lia.
    + rewrite Ha, Z.sgn_0 in Hsgn. lia.
    + specialize (Hrp Ha). lia.
    + rewrite (Z.sgn_pos aa), (Z.sgn_pos bb) in Hsgn by assumption. lia.
  - intros Hge Hsgn.
    replace ((q + 1) * bb - aa)%Z with (bb - r)%Z by lia.
    destruct (Z.lt_trichotomy aa 0) as [Ha | [Ha | Ha]];
    destruct (Z.lt_trichotomy bb 0) as [Hb | [Hb | Hb]];
      try (exfalso; exact (Hbb Hb)).
    + specialize (Hrn Ha). lia.
    + exfalso. apply Hsgn.
      rewrite (Z.sgn_neg aa), (Z.sgn_pos bb) by assumption. lia.
    + specialize (Hrz Ha). lia.
    + specialize (Hrz Ha). lia.
    + exfalso. apply Hsgn.
      rewrite (Z.sgn_pos aa), (Z.sgn_neg bb) by assumption. lia.
    + specialize (Hrp Ha). lia.
Qed.

(** ** 7b. From an integer bound to a rational bound *)

Lemma Qabs_inject_Z : forall z, Qabs (inject_Z z) = inject_Z (Z.abs z).
Proof. reflexivity. Qed.

Lemma Qabs_div_half :
  forall rc aa bb, bb <> 0%Z ->
  (2 * Z.abs (rc * bb - aa) <= Z.abs bb)%Z ->
  Qabs (inject_Z rc - inject_Z aa / inject_Z bb) <= 1 # 2.
Proof.
  intros rc aa bb Hbb Hbound.
  assert (Hnz : ~ inject_Z bb == 0) by (apply inject_Z_nz; exact Hbb).
  assert (Hx : inject_Z rc - inject_Z aa / inject_Z bb ==
               inject_Z (rc * bb - aa) / inject_Z bb).
  { unfold Z.sub. rewrite inject_Z_plus, inject_Z_opp, inject_Z_mult.
    field. exact Hnz. }
  rewrite Hx. unfold Qdiv. rewrite Qabs_Qmult, Qabs_Qinv, !Qabs_inject_Z.
  remember (Z.abs (rc * bb - aa)) as z eqn:Hz.
  remember (Z.abs bb) as n eqn:Hn.
  assert (Hnpos : (0 < n)%Z) by lia. clear Hz Hn Hx Hnz.
  apply Qle_shift_div_r.
  - change (inject_Z 0 < inject_Z n). rewrite <- Zlt_Qlt. exact Hnpos.
  - unfold Qle, Qmult, inject_Z, Qnum, Qden. lia.
Qed.

Lemma half_unit_core :
  forall rc aa bb p x y, bb <> 0%Z ->
  (2 * Z.abs (rc * bb - aa) <= Z.abs bb)%Z ->
  0 < p ->
  x == inject_Z rc * p ->
  y == inject_Z aa / inject_Z bb * p ->
  Qabs (x - y) <= (1 # 2) * p.
Proof.
  intros rc aa bb p x y Hbb Hbound Hp Hx Hy.
  rewrite Hx, Hy.
  assert (Hf : inject_Z rc * p - inject_Z aa / inject_Z bb * p ==
               (inject_Z rc - inject_Z aa / inject_Z bb) * p).
  { field. apply inject_Z_nz. exact Hbb. }
  rewrite Hf, Qabs_Qmult, (Qabs_pos p) by (apply Qlt_le_weak; exact Hp).
  apply (Qmult_le_r _ _ p Hp). apply Qabs_div_half; assumption.
Qed.

(** ** 7c. What QuoRem computes *)

(** Both branches of [quo_rem] divide two integers [aa], [bb] that are the
    coefficients of [a] and [b] scaled by positive powers of ten, chosen so that
    a / b = (aa / bb) * 10^-prec. *)
Lemma quo_rem_shape :
  forall a b prec, coef b <> 0%Z ->
  exists aa bb pa pb er,
    (0 < pa)%Z /\ (0 < pb)%Z /\
    aa = (coef a * pa)%Z /\ bb = (coef b * pb)%Z /\
    quo_rem a b prec = (mkDec (Z.quot aa bb) (- prec), mkDec (Z.rem aa bb) er) /\
    dval a / dval b == inject_Z aa / inject_Z bb * pow10Q (- prec) /\
    pow10Q (dexp b) == inject_Z pb * pow10Q (er + prec).
Proof.
  intros a b prec Hb.
  assert (Hcb : ~ inject_Z (coef b) == 0) by (apply inject_Z_nz; exact Hb).
  unfold quo_rem. cbv zeta.
  remember (dexp a - dexp b - - prec)%Z as e eqn:He.
  destruct (e <? 0)%Z eqn:Hlt.
  - apply Z.ltb_lt in Hlt.
    exists (coef a), (coef b * pow10 (- e))%Z, 1%Z, (pow10 (- e)), (dexp a).
    assert (Hpp : (0 < pow10 (- e))%Z) by (apply pow10_pos; lia).
    split; [lia|]. split; [exact Hpp|]. split; [lia|]. split; [reflexivity|].
    split; [reflexivity|].
    assert (HE : pow10Q (- e) == inject_Z (pow10 (- e)))
      by (apply pow10Q_nonneg; lia).
    assert (HB : pow10Q (dexp b) == pow10Q (dexp a) * pow10Q (- e) * pow10Q prec).
    { rewrite <- !pow10Q_plus.
      replace (dexp a + - e + prec)%Z with (dexp b) by lia. reflexivity. }
    split.
    + unfold dval. rewrite inject_Z_mult, <- HE, HB, (pow10Q_opp prec).
      pose proof (pow10Q_nz (dexp a)) as HnA. pose proof (pow10Q_nz (- e)) as HnE.
      pose proof (pow10Q_nz prec) as HnR.
      generalize dependent (pow10Q (dexp a)). intros A _ HnA.
      generalize dependent (pow10Q (- e)). intros E _ HnE.
      generalize dependent (pow10Q prec). intros R HnR.
      generalize dependent (inject_Z (coef b)). intros cb Hcb.
      generalize (inject_Z (coef a)). intro ca.
      field. repeat split; assumption.
    + rewrite <- HE, HB, pow10Q_plus. ring.
  - apply Z.ltb_ge in Hlt.
    exists (coef a * pow10 e)%Z, (coef b), (pow10 e), 1%Z, (- prec + dexp b)%Z.
    assert (Hpp : (0 < pow10 e)%Z) by (apply pow10_pos; lia).
    split; [exact Hpp|]. split; [lia|]. split; [reflexivity|]. split; [lia|].
    split; [reflexivity|].
    assert (HE : pow10Q e == inject_Z (pow10 e))
      by (apply pow10Q_nonneg; lia).
    assert (HA : pow10Q (dexp a) == pow10Q (dexp b) * pow10Q e * pow10Q (- prec)).
    { rewrite <- !pow10Q_plus.
      replace (dexp b + e + - prec)%Z with (dexp a) by lia. reflexivity. }
    split.
    + unfold dval. rewrite inject_Z_mult, <- HE, HA.
      pose proof (pow10Q_nz (dexp b)) as HnB.
      generalize dependent (pow10Q (dexp b)). intros B _ HnB.
      generalize (pow10Q e). intro E.
      generalize (pow10Q (- prec)). intro R.
      generalize dependent (inject_Z (coef b)). intros cb Hcb.
      generalize (inject_Z (coef a)). intro ca.
      field. split; assumption.
    + replace (- prec + dexp b + prec)%Z with (dexp b) by lia.
      change (inject_Z 1) with 1. ring.
Qed.

(** The truncated quotient alone is within one unit of the exact quotient. *)
Theorem quo_rem_trunc_unit :
  forall a b prec, coef b <> 0%Z ->
  Qabs (dval (fst (quo_rem a b prec)) - dval a / dval b) < pow10Q (- prec).
Proof.
  intros a b prec Hb.
  destruct (quo_rem_shape a b prec Hb)
    as (aa & bb & pa & pb & er & Hpa & Hpb & Haa & Hbb & Hqr & Hdiv & Hpow).
  assert (Hbbnz : bb <> 0%Z) by nia.
  assert (Hnz : ~ inject_Z bb == 0) by (apply inject_Z_nz; exact Hbbnz).
  rewrite Hqr. cbn [fst]. rewrite dval_mk, Hdiv.
  pose proof (pow10Q_pos (- prec)) as Hp.
  remember (pow10Q (- prec)) as p eqn:Hpe. clear Hpe.
  destruct (Zquot_trunc_bound aa bb Hbbnz) as (Hlt & _).
  remember (Z.quot aa bb) as q eqn:Hq. clear Hq.
  assert (Hf : inject_Z q * p - inject_Z aa / inject_Z bb * p ==
               (inject_Z (q * bb - aa) / inject_Z bb) * p).
  { unfold Z.sub. rewrite inject_Z_plus, inject_Z_opp, inject_Z_mult.
    field. exact Hnz. }
  rewrite Hf, Qabs_Qmult, (Qabs_pos p) by (apply Qlt_le_weak; exact Hp).
  rewrite <- (Qmult_1_l p) at 2.
  apply (Qmult_lt_r _ _ p Hp).
  unfold Qdiv. rewrite Qabs_Qmult, Qabs_Qinv, !Qabs_inject_Z.
  remember (Z.abs (q * bb - aa)) as z eqn:Hz.
  remember (Z.abs bb) as n eqn:Hn.
  assert (Hnpos : (0 < n)%Z) by lia. clear Hz Hn Hf Hnz.
  apply Qlt_shift_div_r.
  - change (inject_Z 0 < inject_Z n). rewrite <- Zlt_Qlt. exact Hnpos.
  - rewrite Qmult_1_l. rewrite <- Zlt_Qlt. exact Hlt.
Qed.

(** ** 7d. DivRound *)

Theorem div_round_half_unit :
  forall a b prec, coef b <> 0%Z ->
  Qabs (dval (div_round a b prec) - dval a / dval b)
    <= (1 # 2) * pow10Q (- prec).
Proof.
  intros a b prec Hb.
  destruct (quo_rem_shape a b prec Hb)
    as (aa & bb & pa & pb & er & Hpa & Hpb & Haa & Hbb & Hqr & Hdiv & Hpow).
  assert (Hbbnz : bb <> 0%Z) by nia.
  assert (Hsa : Z.sgn (coef a) = Z.sgn aa).
  { rewrite Haa, Z.sgn_mul, (Z.sgn_pos pa Hpa). lia. }
  assert (Hsb : Z.sgn (coef b) = Z.sgn bb).
  { rewrite Hbb, Z.sgn_mul, (Z.sgn_pos pb Hpb). lia. }
  assert (Habs : Z.abs bb = (Z.abs (coef b) * pb)%Z).
  { rewrite Hbb, Z.abs_mul, (Z.abs_eq pb) by lia. reflexivity. }
  unfold div_round. rewrite Hqr. cbv iota. cbn [coef dexp].
  rewrite Hsa, Hsb.
  (* the comparison of 2|r| with |b| is the integer comparison 2|r| ? |bb| *)
  assert (Hcmp : dcmp (mkDec (Z.abs (Z.rem aa bb) * 2) (er + prec)) (dabs b)
                 = (Z.abs (Z.rem aa bb) * 2 ?= Z.abs bb)%Z).
  { rewrite dcmp_spec, dval_mk.
    assert (Hab : dval (dabs b) == inject_Z (Z.abs bb) * pow10Q (er + prec)).
    { unfold dabs. rewrite dval_mk, Hpow, Habs, inject_Z_mult. ring. }
    rewrite Hab. apply Qcompare_scale. apply pow10Q_pos. }
  rewrite Hcmp. clear Hcmp.
  destruct (Zround_half aa bb Hbbnz) as (HLt & HNeg & HPos).
  pose proof (pow10Q_pos (- prec)) as Hp.
  assert (Hone : dval (mkDec 1 (- prec)) == pow10Q (- prec)).
  { rewrite dval_mk. change (inject_Z 1) with 1. ring. }
  assert (Hup : (Z.abs bb <= Z.abs (Z.rem aa bb) * 2)%Z ->
    Qabs (dval (if (Z.sgn aa * Z.sgn bb <? 0)%Z
                then dsub (mkDec (Z.quot aa bb) (- prec)) (mkDec 1 (- prec))
                else dadd (mkDec (Z.quot aa bb) (- prec)) (mkDec 1 (- prec)))
          - dval a / dval b) <= (1 # 2) * pow10Q (- prec)).
  { intro Hge.
    destruct (Z.sgn aa * Z.sgn bb <? 0)%Z eqn:Hsg.
    - apply Z.ltb_lt in Hsg.
      apply (half_unit_core (Z.quot aa bb - 1) aa bb); try assumption.
      + apply HNeg; assumption.
      + rewrite dsub_exact, Hone, dval_mk. unfold Z.sub.
        rewrite inject_Z_plus, inject_Z_opp. change (inject_Z 1) with 1. ring.
    - apply Z.ltb_ge in Hsg.
      apply (half_unit_core (Z.quot aa bb + 1) aa bb); try assumption.
      + apply HPos; [assumption | lia].
      + rewrite dadd_exact, Hone, dval_mk.
        rewrite inject_Z_plus. change (inject_Z 1) with 1. ring. }
  destruct (Z.compare_spec (Z.abs (Z.rem aa bb) * 2) (Z.abs bb)) as [Heq | Hlt | Hgt].
  - apply Hup. lia.
  - apply (half_unit_core (Z.quot aa bb) aa bb); try assumption.
    + apply HLt. exact Hlt.
    + rewrite dval_mk. reflexivity.
  - apply Hup. lia.
Qed.

Theorem ddiv_half_unit :
  forall a b, coef b <> 0%Z ->
  Qabs (dval (ddiv a b) - dval a / dval b) <= (1 # 2) * pow10Q (-16).
Proof.
  intros a b Hb. unfold ddiv, division_precision.
  exact (div_round_half_unit a b 16 Hb).
Qed.

(* ------------------------------------------------------------------------- *)
(** * 8. Average                                                              *)
(* ------------------------------------------------------------------------- *)

Theorem davg_half_unit :
  forall first rest,
  Qabs (dval (davg first rest)
        - (fold_left Qplus (map dval rest) (dval first))
          / inject_Z (Z.of_nat (S (length rest))))
    <= (1 # 2) * pow10Q (-16).
Proof.
  intros first rest. unfold davg.
  set (n := Z.of_nat (S (length rest))).
  assert (Hn : coef (mkDec n 0) <> 0%Z) by (cbn [coef]; unfold n; lia).
  pose proof (ddiv_half_unit (dsum first rest) (mkDec n 0) Hn) as H.
  assert (Hd : dval (mkDec n 0) == inject_Z n).
  { rewrite dval_mk, pow10Q_0. ring. }
  rewrite Hd, dsum_exact in H. exact H.
Qed.

(* ------------------------------------------------------------------------- *)
(** * 10. Truncation and modulo                                               *)
(* ------------------------------------------------------------------------- *)

(** Truncation of a rational toward zero. *)
Definition Qtrunc (q : Q) : Z := Z.quot (Qnum q) (Zpos (Qden q)).

(** [Qtrunc] does not depend on the (possibly non-reduced) representation. *)
Global Instance Qtrunc_comp : Proper (Qeq ==> eq) Qtrunc.
Proof.
  intros [n1 d1] [n2 d2] H. unfold Qeq, Qtrunc in *. cbn [Qnum Qden] in *.
  rewrite <- (Z.quot_mul_cancel_r n1 (Zpos d1) (Zpos d2)) by lia.
  rewrite <- (Z.quot_mul_cancel_r n2 (Zpos d2) (Zpos d1)) by lia.
  rewrite H. f_equal. lia.
Qed.

Lemma Qtrunc_inject_Z : forall z, Qtrunc (inject_Z z) = z.
Proof. intro z. unfold Qtrunc, inject_Z, Qnum, Qden. apply Z.quot_1_r. Qed.

(** [Qtrunc] really is truncation toward zero: it is the integer of largest
    magnitude not exceeding |q|, with the sign of q, at distance < 1. *)
Lemma Qtrunc_spec :
  forall q,
  Qabs (inject_Z (Qtrunc q)) <= Qabs q /\
  Qabs (q - inject_Z (Qtrunc q)) < 1 /\
  (0 <= q -> 0 <= inject_Z (Qtrunc q)) /\
  (q <= 0 -> inject_Z (Qtrunc q) <= 0).
Proof.
  intros [n d]. unfold Qtrunc. cbn [Qnum Qden].
  assert (Hd : Zpos d <> 0%Z) by lia.
  destruct (Zquot_trunc_bound n (Zpos d) Hd) as (H1 & H2).
  pose proof (Z.quot_rem' n (Zpos d)) as Hqr.
  pose proof (Z.rem_sign_mul n (Zpos d) Hd) as Hs.
  pose proof (Z.rem_bound_abs n (Zpos d) Hd) as Hr.
  remember (Z.quot n (Zpos d)) as t eqn:Ht.
  remember (Z.rem n (Zpos d)) as r eqn:Hr'. clear Ht Hr'.
  rewrite Z.abs_mul in H2.
  split; [|split; [|split]].
  - unfold Qabs, inject_Z, Qle. cbn [Qnum Qden]. lia.
  - assert (Hx : (n # d) - inject_Z t == (n - t * Zpos d) # d).
    { unfold Qeq, Qminus, Qplus, Qopp, inject_Z. cbn [Qnum Qden]. lia. }
    rewrite Hx. unfold Qabs, Qlt. cbn [Qnum Qden]. lia.
  - unfold Qle, inject_Z. cbn [Qnum Qden]. intro Hq. nia.
  - unfold Qle, inject_Z. cbn [Qnum Qden]. intro Hq. nia.
Qed.

Theorem truncate0_spec :
  forall d, dval (truncate0 d) == inject_Z (Qtrunc (dval d)).
Proof.
  intro d. unfold truncate0.
  destruct (dexp d <? 0)%Z eqn:Hlt.
  - apply Z.ltb_lt in Hlt. unfold rescale.
    destruct (0 =? dexp d)%Z eqn:H0; [apply Z.eqb_eq in H0; lia|].
    replace (dexp d <? 0)%Z with true by (symmetry; apply Z.ltb_lt; exact Hlt).
    rewrite dval_mk, pow10Q_0, Qmult_1_r.
    replace (0 - dexp d)%Z with (- dexp d)%Z by lia.
    assert (Hpp : (0 < pow10 (- dexp d))%Z) by (apply pow10_pos; lia).
    assert (Hv : dval d == coef d # Z.to_pos (pow10 (- dexp d))).
    { unfold dval. rewrite Qmake_Qdiv, Z2Pos.id by exact Hpp.
      rewrite <- (pow10Q_nonneg (- dexp d)) by lia.
      rewrite (pow10Q_opp (dexp d)). unfold Qdiv. rewrite Qinv_involutive.
      reflexivity. }
    rewrite Hv. unfold Qtrunc. cbn [Qnum Qden]. rewrite Z2Pos.id by exact Hpp.
    reflexivity.
  - apply Z.ltb_ge in Hlt.
    assert (Hv : dval d == inject_Z (coef d * pow10 (dexp d))).
    { unfold dval. rewrite inject_Z_mult, pow10Q_nonneg by exact Hlt.
      reflexivity. }
    rewrite Hv at 2. rewrite Qtrunc_inject_Z. exact Hv.
Qed.

(** The weaker, representation-free reading of the same fact. *)
Corollary truncate0_spec_ex :
  forall d, exists z,
  dval (truncate0 d) == inject_Z z /\
  Qabs (inject_Z z) <= Qabs (dval d) /\
  Qabs (dval d - inject_Z z) < 1 /\
  (0 <= dval d -> 0 <= inject_Z z) /\ (dval d <= 0 -> inject_Z z <= 0).
Proof.
  intro d. exists (Qtrunc (dval d)). split; [apply truncate0_spec|].
  apply Qtrunc_spec.
Qed.

(** Mod is a - b * trunc(ddiv a b): note that the truncation is applied to the
    *rounded* 16-digit quotient, not to the exact one.  The hypothesis
    [coef b <> 0] of the requested statement is not needed for this equation
    (it is what makes [ddiv a b] meaningful, see [ddiv_half_unit]). *)
Theorem dmod_spec_partial :
  forall a b,
  dval (dmod a b) == dval a - dval b * dval (truncate0 (ddiv a b)).
Proof.
  intros a b. unfold dmod. rewrite dsub_exact, dmul_exact. reflexivity.
Qed.

Corollary dmod_spec_trunc :
  forall a b,
  dval (dmod a b) == dval a - dval b * inject_Z (Qtrunc (dval (ddiv a b))).
Proof.
  intros a b. rewrite dmod_spec_partial, truncate0_spec. reflexivity.
Qed.

(* ------------------------------------------------------------------------- *)
(** * 11. The classic                                                         *)
(* ------------------------------------------------------------------------- *)

Example point_one_plus_point_two :
  dadd (mkDec 1 (-1)) (mkDec 2 (-1)) = mkDec 3 (-1).
Proof. vm_compute. reflexivity. Qed.

Example point_one_plus_point_two_val :
  dval (dadd (mkDec 1 (-1)) (mkDec 2 (-1))) == 3 # 10.
Proof. rewrite point_one_plus_point_two. vm_compute. reflexivity. Qed.

Example point_one_plus_point_two_eq :
  deq (dadd (mkDec 1 (-1)) (mkDec 2 (-1))) (mkDec 30 (-2)) = true.
Proof. vm_compute. reflexivity. Qed.

(* ------------------------------------------------------------------------- *)
(** * Assumptions                                                             *)
(* ------------------------------------------------------------------------- *)

Print Assumptions rescale_exact.
Print Assumptions rescale_dexp.
Print Assumptions rescale_pair_exact.
Print Assumptions dadd_exact.
Print Assumptions dsub_exact.
Print Assumptions dmul_exact.
Print Assumptions dneg_exact.
Print Assumptions dabs_exact.
Print Assumptions dcmp_spec.
Print Assumptions deq_iff.
Print Assumptions dlt_iff.
Print Assumptions dgt_iff.
Print Assumptions dle_iff.
Print Assumptions dge_iff.
Print Assumptions dcmp_trichotomy.
Print Assumptions dcmp_trichotomy_bool.
Print Assumptions dle_lt_or_eq.
Print Assumptions dge_gt_or_eq.
Print Assumptions repr_invariant.
Print Assumptions dsum_exact.
Print Assumptions dmin_spec.
Print Assumptions dmax_spec.
Print Assumptions quo_rem_trunc_unit.
Print Assumptions div_round_half_unit.
Print Assumptions ddiv_half_unit.
Print Assumptions davg_half_unit.
Print Assumptions dnorm_exact.
Print Assumptions Qtrunc_comp.
Print Assumptions Qtrunc_spec.
Print Assumptions truncate0_spec.
Print Assumptions truncate0_spec_ex.
Print Assumptions dmod_spec_partial.
Print Assumptions dmod_spec_trunc.
Print Assumptions point_one_plus_point_two.
Print Assumptions point_one_plus_point_two_val.
