(* Proofs/C19.v — the null / empty predicates and null propagation along `?`.

   C19: "IsNull is true exactly for null, nil and absent-under-`?` values;
   IsEmpty is true exactly for zero values ("", 0, false, an empty array or
   object); IsNullOrEmpty is their disjunction; and IsNotNull, IsNotEmpty,
   IsNotNullOrEmpty are the exact negations.  A key marked `?` that is missing
   or null makes the following `?`-marked keys and the next function receive
   null instead of failing, whereas a key that is absent from an object and not
   marked `?` fails with ErrKeyNotFound even when later keys are marked." *)
From Mpath.Model Require Import Base Dec Types GoVal Ast Lexer Parser Funcs Eval.
From Mpath.Generated Require Import FuncTable.

Local Arguments Z.pow : simpl never.

(* ------------------------------------------------------------------ *)
(** * A. The six predicates, by name                                    *)
(* ------------------------------------------------------------------ *)

Theorem predicates_by_name : forall eng val,
  run_func eng "IsNull" [] val = Ok (vbool (is_nil val)) /\
  run_func eng "IsNotNull" [] val = Ok (vbool (negb (is_nil val))) /\
  run_func eng "IsEmpty" [] val = Ok (vbool (cmp_is_zero val)) /\
  run_func eng "IsNotEmpty" [] val = Ok (vbool (negb (cmp_is_zero val))) /\
  run_func eng "IsNullOrEmpty" [] val = Ok (vbool (is_nil val || cmp_is_zero val)) /\
  run_func eng "IsNotNullOrEmpty" [] val = Ok (vbool (negb (is_nil val || cmp_is_zero val))).
Proof. intros eng val. repeat split; reflexivity. Qed.

(** the negated forms are the exact negations, and the disjunction is the
    disjunction — as relations between the answers of the named functions *)
Corollary negations_exact : forall eng val b,
  (run_func eng "IsNull" [] val = Ok (vbool b) <-> run_func eng "IsNotNull" [] val = Ok (vbool (negb b))) /\
  (run_func eng "IsEmpty" [] val = Ok (vbool b) <-> run_func eng "IsNotEmpty" [] val = Ok (vbool (negb b))) /\
  (run_func eng "IsNullOrEmpty" [] val = Ok (vbool b)
   <-> run_func eng "IsNotNullOrEmpty" [] val = Ok (vbool (negb b))).
Proof.
  intros eng val b.
  destruct (predicates_by_name eng val) as [H1 [H2 [H3 [H4 [H5 H6]]]]].
  rewrite H1, H2, H3, H4, H5, H6.
  repeat split; intros H; injection H as H;
    try (rewrite H; reflexivity);
    (apply (f_equal negb) in H; rewrite !negb_involutive in H; rewrite H; reflexivity).
Qed.

(** with arguments the six functions fail (they take none) *)
Lemma predicates_reject_arguments : forall eng p ps val,
  exists e,
    run_func eng "IsNull" (p :: ps) val = Err e /\
    run_func eng "IsNotNull" (p :: ps) val = Err e /\
    run_func eng "IsEmpty" (p :: ps) val = Err e /\
    run_func eng "IsNotEmpty" (p :: ps) val = Err e /\
    run_func eng "IsNullOrEmpty" (p :: ps) val = Err e /\
    run_func eng "IsNotNullOrEmpty" (p :: ps) val = Err e.
Proof. intros eng p ps val. eexists. repeat split; reflexivity. Qed.

(* ------------------------------------------------------------------ *)
(** * B. IsNull: exactly null and the nil values                        *)
(* ------------------------------------------------------------------ *)

(** the untyped nil (JSON null, a nil interface, the value standing for a key
    absent under `?`), a nil pointer, and a nil slice / map / func / chan *)
Definition nil_like (v : gv) : bool :=
  match v with
  | VNil => true
  | VPtr None => true
  | VSlice _ isnil _ => isnil
  | VMap _ _ isnil _ => isnil
  | VFunc isnil => isnil
  | VChan isnil => isnil
  | _ => false
  end.

Theorem is_nil_nil_like : forall v, is_nil v = nil_like v.
Proof.
  intros v. destruct v as [ |nm b|k nm z|w nm f|nm s|d|tg|t n xs|t xs|kt vt n kvs|fs|n|n];
    try reflexivity; try (destruct k; reflexivity); try (destruct tg; reflexivity).
Qed.

Theorem is_null_table :
  (* true *)
  is_nil VNil = true /\
  is_nil (VPtr None) = true /\
  (forall t xs, is_nil (VSlice t true xs) = true) /\
  (forall kt vt kvs, is_nil (VMap kt vt true kvs) = true) /\
  is_nil (VFunc true) = true /\
  is_nil (VChan true) = true /\
  (* false *)
  (forall nm b, is_nil (VBool nm b) = false) /\
  (forall k nm z, is_nil (VInt k nm z) = false) /\
  (forall w nm f, is_nil (VFloat w nm f) = false) /\
  (forall d, is_nil (VDec d) = false) /\
  (forall nm s, is_nil (VStr nm s) = false) /\
  (forall t xs, is_nil (VSlice t false xs) = false) /\
  (forall t xs, is_nil (VArray t xs) = false) /\
  (forall kt vt kvs, is_nil (VMap kt vt false kvs) = false) /\
  (forall fs, is_nil (VStruct fs) = false) /\
  (forall g, is_nil (VPtr (Some g)) = false) /\
  is_nil (VFunc false) = false /\
  is_nil (VChan false) = false.
Proof. repeat split; intros; rewrite is_nil_nil_like; reflexivity. Qed.

Theorem is_null_iff : forall eng v,
  run_func eng "IsNull" [] v = Ok (vbool true) <-> nil_like v = true.
Proof.
  intros eng v. destruct (predicates_by_name eng v) as [H _]. rewrite H, is_nil_nil_like.
  split; intros E; [injection E as E; exact E | rewrite E; reflexivity].
Qed.

(** the number conversion applied to a function's receiver never changes
    whether it is null *)
Lemma is_nil_convert_number : forall v, is_nil (convert_number v) = is_nil v.
Proof.
  intros v. unfold convert_number. destruct (convert_number_check v) as [was d] eqn:E.
  destruct was; [|reflexivity].
  rewrite !is_nil_nil_like. cbn [nil_like].
  destruct v as [ |nm b|k nm z|w nm f|nm s|d0|tg|t n xs|t xs|kt vt n kvs|fs|n|n]; try reflexivity;
    try (exfalso; revert E; unfold convert_number_check, convert_number_check_base, deref1, rkind; cbn;
         repeat match goal with |- context [if ?b then _ else _] => destruct b end; cbn; congruence).
  destruct tg as [g|]; [reflexivity|vm_compute in E; discriminate E].
Qed.

(** in particular an empty but non-nil array or object, "", 0 and false are
    not null *)
Corollary empty_values_are_not_null :
  is_nil (VSlice EAny false []) = false /\ is_nil (VMap KtStr EAny false []) = false /\
  is_nil (VStr false []) = false /\ is_nil (VDec dzero) = false /\ is_nil (VBool false false) = false.
Proof. repeat split; reflexivity. Qed.

(* ------------------------------------------------------------------ *)
(** * C. IsEmpty: exactly the zero values                               *)
(* ------------------------------------------------------------------ *)

Theorem is_empty_table :
  (forall nm s, cmp_is_zero (VStr nm s) = true <-> s = []) /\
  (forall k nm z, cmp_is_zero (VInt k nm z) = true <-> z = 0) /\
  (forall w nm f, cmp_is_zero (VFloat w nm f) = true <-> exists d, f = FFin d /\ coef d = 0) /\
  (forall d, cmp_is_zero (VDec d) = true <-> coef d = 0) /\
  (forall nm b, cmp_is_zero (VBool nm b) = true <-> b = false) /\
  (forall t n xs, cmp_is_zero (VSlice t n xs) = true <-> xs = []) /\
  (forall kt vt n kvs, cmp_is_zero (VMap kt vt n kvs) = true <-> kvs = []).
Proof.
  repeat split; intros H; cbn [cmp_is_zero] in *.
  - destruct s; [reflexivity|discriminate].
  - subst; reflexivity.
  - apply Z.eqb_eq; exact H.
  - subst; reflexivity.
  - destruct f as [ |ng|d]; cbn in H; try discriminate.
    exists d. split; [reflexivity|]. apply Z.eqb_eq. exact H.
  - destruct H as [d [-> Hc]]. cbn. unfold dis_zero. apply Z.eqb_eq. exact Hc.
  - apply Z.eqb_eq; exact H.
  - apply Z.eqb_eq; exact H.
  - destruct b; [discriminate|reflexivity].
  - subst; reflexivity.
  - destruct xs; [reflexivity|discriminate].
  - subst; reflexivity.
  - destruct kvs; [reflexivity|discriminate].
  - subst; reflexivity.
Qed.

(** the same table read as values: the zero values are empty … *)
Corollary zero_values_are_empty :
  (forall nm, cmp_is_zero (VStr nm []) = true) /\
  (forall k nm, cmp_is_zero (VInt k nm 0) = true) /\
  (forall w nm e, cmp_is_zero (VFloat w nm (FFin (mkDec 0 e))) = true) /\
  (forall e, cmp_is_zero (VDec (mkDec 0 e)) = true) /\
  (forall nm, cmp_is_zero (VBool nm false) = true) /\
  (forall t n, cmp_is_zero (VSlice t n []) = true) /\
  (forall kt vt n, cmp_is_zero (VMap kt vt n []) = true).
Proof. repeat split. Qed.

(** … and nothing else of these kinds is *)
Corollary non_zero_values_are_not_empty :
  (forall nm c s, cmp_is_zero (VStr nm (c :: s)) = false) /\
  (forall k nm z, z <> 0 -> cmp_is_zero (VInt k nm z) = false) /\
  (forall w nm d, coef d <> 0 -> cmp_is_zero (VFloat w nm (FFin d)) = false) /\
  (forall w nm, cmp_is_zero (VFloat w nm FNaN) = false) /\
  (forall w nm ng, cmp_is_zero (VFloat w nm (FInf ng)) = false) /\
  (forall d, coef d <> 0 -> cmp_is_zero (VDec d) = false) /\
  (forall nm, cmp_is_zero (VBool nm true) = false) /\
  (forall t n x xs, cmp_is_zero (VSlice t n (x :: xs)) = false) /\
  (forall kt vt n kv kvs, cmp_is_zero (VMap kt vt n (kv :: kvs)) = false).
Proof.
  repeat split; intros; cbn; try reflexivity; try (apply Z.eqb_neq; assumption).
Qed.

(** The remaining kinds, which the property leaves unspecified ("IsEmpty on
    null"): the model (cmp.Equal against the zero value, EquateEmpty) answers
      VNil            -> true        VPtr None       -> true
      VPtr (Some _)   -> false       VFunc n, VChan n -> n
      VArray t xs     -> every element is zero (for [N]any: every element is nil)
      VStruct fs      -> every field is zero (interface-typed fields: nil). *)
Lemma is_empty_other_kinds :
  cmp_is_zero VNil = true /\ cmp_is_zero (VPtr None) = true /\
  (forall g, cmp_is_zero (VPtr (Some g)) = false) /\
  (forall n, cmp_is_zero (VFunc n) = n) /\ (forall n, cmp_is_zero (VChan n) = n) /\
  (forall t, cmp_is_zero (VArray t []) = true) /\ cmp_is_zero (VStruct []) = true.
Proof. repeat split. Qed.

Theorem is_empty_iff : forall eng v,
  run_func eng "IsEmpty" [] v = Ok (vbool true) <-> cmp_is_zero v = true.
Proof.
  intros eng v. destruct (predicates_by_name eng v) as [_ [_ [H _]]]. rewrite H.
  split; intros E; [injection E as E; exact E | rewrite E; reflexivity].
Qed.

Theorem is_null_or_empty_iff : forall eng v,
  run_func eng "IsNullOrEmpty" [] v = Ok (vbool true)
  <-> (run_func eng "IsNull" [] v = Ok (vbool true) \/ run_func eng "IsEmpty" [] v = Ok (vbool true)).
Proof.
  intros eng v. destruct (predicates_by_name eng v) as [H1 [_ [H3 [_ [H5 _]]]]]. rewrite H1, H3, H5.
  split.
  - intros E. injection E as E. apply orb_true_iff in E. destruct E as [E|E]; rewrite E; auto.
  - intros [E|E]; injection E as E; rewrite E; [reflexivity|rewrite orb_true_r; reflexivity].
Qed.

(* ------------------------------------------------------------------ *)
(** * D. Null propagation along a path                                  *)
(* ------------------------------------------------------------------ *)

(** the guard at the top of opPath.Do's loop body: the previous operation
    produced (or passed on) a null, was not marked `?`, and the current
    operation is not a function *)
Definition blocked (prev : option pathop) (prior_nil : bool) (op : pathop) : bool :=
  match prev with
  | Some p => prior_nil && negb (pathop_qmark p) && negb (pathop_is_func op)
  | None => false
  end.

Lemma not_blocked_iff prev pn op :
  blocked prev pn op = false <->
  (prev = None \/ pn = false \/ (exists p, prev = Some p /\ pathop_qmark p = true) \/ pathop_is_func op = true).
Proof.
  unfold blocked. destruct prev as [p|]; [|split; auto].
  destruct pn, (pathop_qmark p) eqn:Q, (pathop_is_func op); cbn; split; intros H; auto;
    try discriminate; try (right; right; left; eauto; fail).
  destruct H as [H|[H|[[p' [Hp Hq]]|H]]]; try discriminate.
  injection Hp as <-. congruence.
Qed.

Lemma path_ops_step (ev : pathop -> gv -> outcome gv) prev pn op rest data le :
  path_ops ev prev pn (op :: rest) data le =
  if blocked prev pn op then fail "cannot access property of nil value" else
  match ev op data with
  | Ok v => path_ops ev (Some op) (pn || is_nil v) rest v None
  | Err EKeyNotFound =>
    if pathop_qmark op then path_ops ev (Some op) true rest VNil (Some EKeyNotFound)
    else Err EKeyNotFound
  | Err (EOther t) => Err (EOther t)
  | Panic m => Panic m
  | OutOfFuel => OutOfFuel
  | Declined w => Declined w
  end.
Proof. reflexivity. Qed.

(** a key looked up in null is "not found" *)
Lemma ident_on_nil : forall name, do_ident name VNil = Err EKeyNotFound.
Proof. intros name. reflexivity. Qed.

(** a key absent from an object is "not found" *)
Lemma ident_absent name kt vt isnil kvs :
  map_lookup_fold name kvs = None -> do_ident name (VMap kt vt isnil kvs) = Err EKeyNotFound.
Proof. intros H. unfold do_ident. cbn. rewrite H. reflexivity. Qed.

Lemma ident_present_null name kt vt isnil kvs :
  map_lookup_fold name kvs = Some VNil -> do_ident name (VMap kt vt isnil kvs) = Ok VNil.
Proof. intros H. unfold do_ident. cbn. rewrite H. reflexivity. Qed.

(** ** for any one-operation evaluator *)
Section Generic.
Variable ev : pathop -> gv -> outcome gv.

Lemma unmarked_absent_fails_gen prev pn op rest data le :
  ev op data = Err EKeyNotFound -> pathop_qmark op = false -> blocked prev pn op = false ->
  path_ops ev prev pn (op :: rest) data le = Err EKeyNotFound.
Proof. intros He Hq Hb. rewrite path_ops_step, Hb, He, Hq. reflexivity. Qed.

Lemma marked_absent_continues_gen prev pn op rest data le :
  ev op data = Err EKeyNotFound -> pathop_qmark op = true -> blocked prev pn op = false ->
  path_ops ev prev pn (op :: rest) data le = path_ops ev (Some op) true rest VNil (Some EKeyNotFound).
Proof. intros He Hq Hb. rewrite path_ops_step, Hb, He, Hq. reflexivity. Qed.

Lemma marked_null_continues_gen prev pn op rest data le v :
  ev op data = Ok v -> is_nil v = true -> blocked prev pn op = false ->
  path_ops ev prev pn (op :: rest) data le = path_ops ev (Some op) true rest v None.
Proof. intros He Hn Hb. rewrite path_ops_step, Hb, He, Hn, orb_true_r. reflexivity. Qed.

Lemma unmarked_after_null_fails_gen prev op rest data le :
  pathop_qmark prev = false -> pathop_is_func op = false ->
  path_ops ev (Some prev) true (op :: rest) data le = Err (EOther "cannot access property of nil value").
Proof. intros Hq Hf. rewrite path_ops_step. unfold blocked. rewrite Hq, Hf. reflexivity. Qed.

End Generic.

Lemma last_cons {A} (x : A) l d : last (x :: l) d = last l x.
Proof.
  revert x d. induction l as [|y l IH]; intros x d; [reflexivity|].
  change (last (x :: y :: l) d) with (last (y :: l) d). rewrite (IH y d), (IH y x). reflexivity.
Qed.

(** a run of `?`-marked keys: name and userString of each *)
Definition marked (ks : list (str * str)) : list pathop :=
  map (fun ku => PIdent (fst ku) true (snd ku)) ks.

(** ** for the evaluator of [eval] *)
Section C19.
Variable uni : uclass.
Variable eng : engines.

(** the one-operation evaluator that [eval (S k) (NPath _)] hands to [path_ops] *)
Definition ev_at (k : nat) (orig : gv) : pathop -> gv -> outcome gv :=
  fun o d => eval uni eng k (NOp o) d orig.

Lemma eval_path_unfold k inv root isf me ops us cur orig :
  eval uni eng (S k) (NPath (Path inv root isf me ops us)) cur orig =
  if root && isf then fail "cannot access root data in filter" else
  let data := if root then orig else cur in
  let data := match ops with [] => convert_unless_string data | _ => data end in
  path_ops (ev_at k orig) None false ops data None.
Proof. reflexivity. Qed.

Lemma ev_at_ident k orig name q us d : ev_at (S k) orig (PIdent name q us) d = do_ident name d.
Proof. reflexivity. Qed.

Lemma ev_at_func k orig f d : ev_at (S k) orig (PFunc f) d = eval uni eng k (NFunc f) d orig.
Proof. reflexivity. Qed.

Theorem unmarked_absent_fails k orig prev pn op rest data le :
  ev_at k orig op data = Err EKeyNotFound -> pathop_qmark op = false -> blocked prev pn op = false ->
  path_ops (ev_at k orig) prev pn (op :: rest) data le = Err EKeyNotFound.
Proof. apply unmarked_absent_fails_gen. Qed.

Theorem marked_absent_continues k orig prev pn op rest data le :
  ev_at k orig op data = Err EKeyNotFound -> pathop_qmark op = true -> blocked prev pn op = false ->
  path_ops (ev_at k orig) prev pn (op :: rest) data le
  = path_ops (ev_at k orig) (Some op) true rest VNil (Some EKeyNotFound).
Proof. apply marked_absent_continues_gen. Qed.

Theorem marked_null_continues k orig prev pn op rest data le v :
  ev_at k orig op data = Ok v -> is_nil v = true -> blocked prev pn op = false ->
  path_ops (ev_at k orig) prev pn (op :: rest) data le = path_ops (ev_at k orig) (Some op) true rest v None.
Proof. apply marked_null_continues_gen. Qed.

Theorem unmarked_after_null_fails k orig prev op rest data le :
  pathop_qmark prev = false -> pathop_is_func op = false ->
  path_ops (ev_at k orig) (Some prev) true (op :: rest) data le
  = Err (EOther "cannot access property of nil value").
Proof. apply unmarked_after_null_fails_gen. Qed.

(** the two cases an object key can be in, spelled out on [do_ident] *)
Corollary absent_key_unmarked k orig prev pn name us rest kt vt isnil kvs le :
  map_lookup_fold name kvs = None -> blocked prev pn (PIdent name false us) = false ->
  path_ops (ev_at (S k) orig) prev pn (PIdent name false us :: rest) (VMap kt vt isnil kvs) le
  = Err EKeyNotFound.
Proof.
  intros Hl Hb. apply unmarked_absent_fails; [|reflexivity|exact Hb].
  rewrite ev_at_ident. apply ident_absent. exact Hl.
Qed.

Corollary absent_key_marked k orig prev pn name us rest kt vt isnil kvs le :
  map_lookup_fold name kvs = None -> blocked prev pn (PIdent name true us) = false ->
  path_ops (ev_at (S k) orig) prev pn (PIdent name true us :: rest) (VMap kt vt isnil kvs) le
  = path_ops (ev_at (S k) orig) (Some (PIdent name true us)) true rest VNil (Some EKeyNotFound).
Proof.
  intros Hl Hb. apply marked_absent_continues; [|reflexivity|exact Hb].
  rewrite ev_at_ident. apply ident_absent. exact Hl.
Qed.

Corollary null_key k orig prev pn name q us rest kt vt isnil kvs le :
  map_lookup_fold name kvs = Some VNil -> blocked prev pn (PIdent name q us) = false ->
  path_ops (ev_at (S k) orig) prev pn (PIdent name q us :: rest) (VMap kt vt isnil kvs) le
  = path_ops (ev_at (S k) orig) (Some (PIdent name q us)) true rest VNil None.
Proof.
  intros Hl Hb. apply marked_null_continues; [|reflexivity|exact Hb].
  rewrite ev_at_ident. apply ident_present_null. exact Hl.
Qed.

(** after a null whose producer was marked, a run of marked keys is skipped:
    each of them "receives null" and passes it on *)
Theorem marked_run_gen k orig : forall ks prev rest le,
  pathop_qmark prev = true ->
  path_ops (ev_at (S k) orig) (Some prev) true (marked ks ++ rest) VNil le
  = path_ops (ev_at (S k) orig) (Some (last (marked ks) prev)) true rest VNil
             (match ks with [] => le | _ => Some EKeyNotFound end).
Proof.
  induction ks as [|[n u] ks IH]; intros prev rest le Hq; [reflexivity|].
  change (marked ((n, u) :: ks) ++ rest) with (PIdent n true u :: (marked ks ++ rest)).
  rewrite marked_absent_continues.
  - rewrite IH by reflexivity.
    change (marked ((n, u) :: ks)) with (PIdent n true u :: marked ks).
    rewrite last_cons. destruct ks; reflexivity.
  - rewrite ev_at_ident. apply ident_on_nil.
  - reflexivity.
  - unfold blocked. rewrite Hq. reflexivity.
Qed.

Theorem marked_run k orig ks prev rest le :
  ks <> [] -> pathop_qmark prev = true ->
  path_ops (ev_at (S k) orig) (Some prev) true (marked ks ++ rest) VNil le
  = path_ops (ev_at (S k) orig) (Some (last (marked ks) prev)) true rest VNil (Some EKeyNotFound).
Proof.
  intros Hne Hq. rewrite marked_run_gen by exact Hq. destruct ks; [contradiction|reflexivity].
Qed.

Corollary marked_one k orig prev b u rest le :
  pathop_qmark prev = true ->
  path_ops (ev_at (S k) orig) (Some prev) true (PIdent b true u :: rest) VNil le
  = path_ops (ev_at (S k) orig) (Some (PIdent b true u)) true rest VNil (Some EKeyNotFound).
Proof. intros Hq. apply (marked_run k orig [(b, u)] prev rest le); [discriminate|exact Hq]. Qed.

Lemma last_marked_is_marked ks prev : pathop_qmark prev = true -> pathop_qmark (last (marked ks) prev) = true.
Proof.
  revert prev. induction ks as [|[n u] ks IH]; intros prev Hq; [exact Hq|].
  change (marked ((n, u) :: ks)) with (PIdent n true u :: marked ks). rewrite last_cons. apply IH. reflexivity.
Qed.

(** the next function is never blocked: it is run on the null *)
Theorem function_receives_null k orig prev f rest le :
  path_ops (ev_at (S k) orig) (Some prev) true (PFunc f :: rest) VNil le
  = match eval uni eng k (NFunc f) VNil orig with
    | Ok v => path_ops (ev_at (S k) orig) (Some (PFunc f)) true rest v None
    | Err e => Err e
    | Panic m => Panic m
    | OutOfFuel => OutOfFuel
    | Declined w => Declined w
    end.
Proof.
  rewrite path_ops_step.
  assert (Hb : blocked (Some prev) true (PFunc f) = false)
    by (unfold blocked; cbn [pathop_is_func negb]; apply andb_false_r).
  rewrite Hb, ev_at_func.
  destruct (eval uni eng k (NFunc f) VNil orig) as [v|e|m| |w]; try reflexivity.
  destruct e; reflexivity.
Qed.

(** the six predicates looked up in the generated table *)
Lemma predicates_in_table :
  find_fdesc_key (bs "IsNull") func_table
    = Some (mkFdesc "IsNull" "IsNull" (PT_Any, IO_Variadic) (PT_Boolean, IO_Single) [] false) /\
  find_fdesc_key (bs "IsNotNull") func_table
    = Some (mkFdesc "IsNotNull" "IsNotNull" (PT_Any, IO_Variadic) (PT_Boolean, IO_Single) [] false) /\
  find_fdesc_key (bs "IsEmpty") func_table
    = Some (mkFdesc "IsEmpty" "IsEmpty" (PT_Any, IO_Variadic) (PT_Boolean, IO_Single) [] false) /\
  find_fdesc_key (bs "IsNotEmpty") func_table
    = Some (mkFdesc "IsNotEmpty" "IsNotEmpty" (PT_Any, IO_Variadic) (PT_Boolean, IO_Single) [] false) /\
  find_fdesc_key (bs "IsNullOrEmpty") func_table
    = Some (mkFdesc "IsNullOrEmpty" "IsNullOrEmpty" (PT_Any, IO_Variadic) (PT_Boolean, IO_Single) [] false) /\
  find_fdesc_key (bs "IsNotNullOrEmpty") func_table
    = Some (mkFdesc "IsNotNullOrEmpty" "IsNotNullOrEmpty" (PT_Any, IO_Variadic) (PT_Boolean, IO_Single) [] false).
Proof. repeat split; vm_compute; reflexivity. Qed.

Lemma isnull_in_table : exists d, find_fdesc_key (bs "IsNull") func_table = Some d /\ fd_key d = "IsNull"%string.
Proof. vm_compute; eauto. Qed.

(** a call without arguments of a table function other than Select *)
Lemma eval_call_no_args k inv ft us cur orig d :
  find_fdesc_key ft func_table = Some d -> String.eqb (fd_key d) "Select" = false ->
  eval uni eng (S k) (NFunc (Func inv ft [] us)) cur orig = run_func eng (fd_key d) [] (convert_number cur).
Proof. intros Hd Hs. cbn [eval eval_params bind]. rewrite Hd, Hs. reflexivity. Qed.

(** the predicates as query functions, on the (number-converted) current value *)
Theorem predicates_in_queries k inv us cur orig :
  eval uni eng (S k) (NFunc (Func inv (bs "IsNull") [] us)) cur orig
    = Ok (vbool (is_nil (convert_number cur))) /\
  eval uni eng (S k) (NFunc (Func inv (bs "IsNotNull") [] us)) cur orig
    = Ok (vbool (negb (is_nil (convert_number cur)))) /\
  eval uni eng (S k) (NFunc (Func inv (bs "IsEmpty") [] us)) cur orig
    = Ok (vbool (cmp_is_zero (convert_number cur))) /\
  eval uni eng (S k) (NFunc (Func inv (bs "IsNotEmpty") [] us)) cur orig
    = Ok (vbool (negb (cmp_is_zero (convert_number cur)))) /\
  eval uni eng (S k) (NFunc (Func inv (bs "IsNullOrEmpty") [] us)) cur orig
    = Ok (vbool (is_nil (convert_number cur) || cmp_is_zero (convert_number cur))) /\
  eval uni eng (S k) (NFunc (Func inv (bs "IsNotNullOrEmpty") [] us)) cur orig
    = Ok (vbool (negb (is_nil (convert_number cur) || cmp_is_zero (convert_number cur)))).
Proof.
  destruct predicates_in_table as [T1 [T2 [T3 [T4 [T5 T6]]]]].
  destruct (predicates_by_name eng (convert_number cur)) as [H1 [H2 [H3 [H4 [H5 H6]]]]].
  repeat apply conj.
  - rewrite (eval_call_no_args k inv _ us cur orig _ T1 eq_refl). exact H1.
  - rewrite (eval_call_no_args k inv _ us cur orig _ T2 eq_refl). exact H2.
  - rewrite (eval_call_no_args k inv _ us cur orig _ T3 eq_refl). exact H3.
  - rewrite (eval_call_no_args k inv _ us cur orig _ T4 eq_refl). exact H4.
  - rewrite (eval_call_no_args k inv _ us cur orig _ T5 eq_refl). exact H5.
  - rewrite (eval_call_no_args k inv _ us cur orig _ T6 eq_refl). exact H6.
Qed.

(** IsNull / IsNotNull in a query decide on the current value itself … *)
Corollary isnull_in_queries k inv us cur orig :
  eval uni eng (S k) (NFunc (Func inv (bs "IsNull") [] us)) cur orig = Ok (vbool (nil_like cur)) /\
  eval uni eng (S k) (NFunc (Func inv (bs "IsNotNull") [] us)) cur orig = Ok (vbool (negb (nil_like cur))).
Proof.
  destruct (predicates_in_queries k inv us cur orig) as [H1 [H2 _]].
  rewrite H1, H2, is_nil_convert_number, is_nil_nil_like. split; reflexivity.
Qed.

(** … whereas IsEmpty sees a string that spells a number as that number
    (opFunction.Do converts the receiver first): "0" and "0.00" are empty *)
Lemma isempty_numeral_string k inv us nm s d orig :
  dec_of_string s = Some d ->
  eval uni eng (S k) (NFunc (Func inv (bs "IsEmpty") [] us)) (VStr nm s) orig = Ok (vbool (coef d =? 0)).
Proof.
  intros Hd. destruct (predicates_in_queries k inv us (VStr nm s) orig) as [_ [_ [H _]]]. rewrite H.
  assert (Hc : convert_number (VStr nm s) = VDec d).
  { unfold convert_number, convert_number_check, convert_number_check_base.
    assert (Hv : (if is_empty_value (value_of (VStr nm s)) then value_of (VStr nm s)
                  else deref1 (value_of (VStr nm s))) = value_of (VStr nm s))
      by (destruct (is_empty_value _); reflexivity).
    rewrite Hv. cbn. rewrite Hd. reflexivity. }
  rewrite Hc. reflexivity.
Qed.

Lemma convert_number_nil : convert_number VNil = VNil.
Proof. reflexivity. Qed.

Corollary isnull_on_nil k inv us orig :
  eval uni eng (S k) (NFunc (Func inv (bs "IsNull") [] us)) VNil orig = Ok (vbool true).
Proof. destruct (predicates_in_queries k inv us VNil orig) as [H _]. rewrite H. reflexivity. Qed.

Corollary isnotnull_on_nil k inv us orig :
  eval uni eng (S k) (NFunc (Func inv (bs "IsNotNull") [] us)) VNil orig = Ok (vbool false).
Proof. destruct (predicates_in_queries k inv us VNil orig) as [_ [H _]]. rewrite H. reflexivity. Qed.

(** ** End to end: `$.a?.b?.IsNull()` and `$.a.b?.IsNull()` on an object without `a` *)
Theorem C19_guard_marked fuel a b u1 u2 u3 u4 kvs cur :
  map_lookup_fold a kvs = None ->
  eval uni eng (S (S (S fuel)))
       (NPath (Path false true false false
                 [PIdent a true u1; PIdent b true u2; PFunc (Func false (bs "IsNull") [] u3)] u4))
       cur (VMap KtStr EAny false kvs)
  = Ok (vbool true).
Proof.
  intros Ha. rewrite eval_path_unfold. cbn [andb]. cbv zeta. cbv iota.
  rewrite absent_key_marked by (exact Ha || reflexivity).
  rewrite marked_one by reflexivity.
  rewrite function_receives_null, isnull_on_nil. reflexivity.
Qed.

Theorem C19_guard_unmarked fuel a b u1 u2 u3 u4 kvs cur :
  map_lookup_fold a kvs = None ->
  eval uni eng (S (S fuel))
       (NPath (Path false true false false
                 [PIdent a false u1; PIdent b true u2; PFunc (Func false (bs "IsNull") [] u3)] u4))
       cur (VMap KtStr EAny false kvs)
  = Err EKeyNotFound.
Proof.
  intros Ha. rewrite eval_path_unfold. cbn [andb]. cbv zeta. cbv iota.
  apply absent_key_unmarked; [exact Ha|reflexivity].
Qed.

(** a key that is present with a null value behaves like the marked absent one,
    marked or not — but only a marked one lets the next *key* through *)
Theorem C19_guard_null_value fuel a q b u1 u2 u3 u4 kvs cur :
  map_lookup_fold a kvs = Some VNil ->
  eval uni eng (S (S (S fuel)))
       (NPath (Path false true false false
                 [PIdent a q u1; PIdent b true u2; PFunc (Func false (bs "IsNull") [] u3)] u4))
       cur (VMap KtStr EAny false kvs)
  = if q then Ok (vbool true) else Err (EOther "cannot access property of nil value").
Proof.
  intros Ha. rewrite eval_path_unfold. cbn [andb]. cbv zeta. cbv iota.
  rewrite null_key by (exact Ha || reflexivity).
  destruct q.
  - rewrite marked_one by reflexivity.
    rewrite function_receives_null, isnull_on_nil. reflexivity.
  - apply unmarked_after_null_fails; reflexivity.
Qed.

(** and the function directly after the null is reached whether or not the
    key is marked *)
Theorem C19_function_after_null_value fuel a q u1 u3 u4 kvs cur :
  map_lookup_fold a kvs = Some VNil ->
  eval uni eng (S (S (S fuel)))
       (NPath (Path false true false false [PIdent a q u1; PFunc (Func false (bs "IsNull") [] u3)] u4))
       cur (VMap KtStr EAny false kvs)
  = Ok (vbool true).
Proof.
  intros Ha. rewrite eval_path_unfold. cbn [andb]. cbv zeta. cbv iota.
  rewrite null_key by (exact Ha || reflexivity).
  rewrite function_receives_null, isnull_on_nil. reflexivity.
Qed.

End C19.

(* ------------------------------------------------------------------ *)
(** * E. Parsed queries on concrete documents                           *)
(* ------------------------------------------------------------------ *)

Definition run (q : string) (doc : gv) : option (outcome gv) :=
  match parse_string uni_ascii (bs q) with
  | Ok t => Some (do_top uni_ascii no_engines t doc)
  | _ => None
  end.

(** {"x": 1} and {"n": null} *)
Definition doc_x : gv := VMap KtStr EAny false [(VStr false (bs "x"), VInt KInt false 1)].
Definition doc_n : gv := VMap KtStr EAny false [(VStr false (bs "n"), VNil)].

(** the parser produces the shape the theorems speak about *)
Example parsed_shape :
  parse_string uni_ascii (bs "$.a?.b?.IsNull()")
  = Ok (TopP (Path false true false false
                [PIdent (bs "a") true (bs "a?"); PIdent (bs "b") true (bs "b?");
                 PFunc (Func false (bs "IsNull") [] (bs "IsNull()"))]
                (bs "$.a?.b?.IsNull()"))).
Proof. vm_compute. reflexivity. Qed.

Example ex_marked_absent : run "$.a?.b?.IsNull()" doc_x = Some (Ok (vbool true)).
Proof. vm_compute. reflexivity. Qed.

Example ex_unmarked_absent : run "$.a.b?.IsNull()" doc_x = Some (Err EKeyNotFound).
Proof. vm_compute. reflexivity. Qed.

Example ex_null_value : run "$.n?.x?.IsNotNull()" doc_n = Some (Ok (vbool false)).
Proof. vm_compute. reflexivity. Qed.

Example ex_null_value_unmarked :
  run "$.n.x?.IsNotNull()" doc_n = Some (Err (EOther "cannot access property of nil value")).
Proof. vm_compute. reflexivity. Qed.

Example ex_null_value_function : run "$.n.IsNull()" doc_n = Some (Ok (vbool true)).
Proof. vm_compute. reflexivity. Qed.

Example ex_present : run "$.x?.IsNull()" doc_x = Some (Ok (vbool false)).
Proof. vm_compute. reflexivity. Qed.

Example ex_empty_vs_null :
  run "$.x?.IsEmpty()" doc_x = Some (Ok (vbool false)) /\
  run "$.n?.IsEmpty()" doc_n = Some (Ok (vbool true)) /\
  run "$.n?.IsNullOrEmpty()" doc_n = Some (Ok (vbool true)) /\
  run "$.x?.IsNotNullOrEmpty()" doc_x = Some (Ok (vbool true)).
Proof. repeat split; vm_compute; reflexivity. Qed.

(** the receiver of a function is number-converted first: a string spelling
    zero is "empty" in a query, any other non-empty string is not *)
Example ex_numeral_string_is_empty :
  run "$.s.IsEmpty()" (VMap KtStr EAny false [(VStr false (bs "s"), VStr false (bs "0.00"))]) = Some (Ok (vbool true)) /\
  run "$.s.IsEmpty()" (VMap KtStr EAny false [(VStr false (bs "s"), VStr false (bs "x"))]) = Some (Ok (vbool false)) /\
  run "$.s.IsEmpty()" (VMap KtStr EAny false [(VStr false (bs "s"), VStr false [])]) = Some (Ok (vbool true)).
Proof. repeat split; vm_compute; reflexivity. Qed.

Print Assumptions predicates_by_name.
Print Assumptions is_nil_convert_number.
Print Assumptions isnull_in_queries.
Print Assumptions negations_exact.
Print Assumptions is_nil_nil_like.
Print Assumptions is_null_table.
Print Assumptions is_null_iff.
Print Assumptions is_empty_table.
Print Assumptions is_empty_iff.
Print Assumptions is_null_or_empty_iff.
Print Assumptions ident_on_nil.
Print Assumptions unmarked_absent_fails.
Print Assumptions marked_absent_continues.
Print Assumptions marked_null_continues.
Print Assumptions marked_run.
Print Assumptions function_receives_null.
Print Assumptions unmarked_after_null_fails.
Print Assumptions predicates_in_queries.
Print Assumptions C19_guard_marked.
Print Assumptions C19_guard_unmarked.
Print Assumptions C19_guard_null_value.
Print Assumptions C19_function_after_null_value.
