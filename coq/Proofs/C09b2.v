(* Proofs/C09b2.v — C09b, part 2: the compact rendering [render], the canonical
   class [canon], the item list of an operation in the two layouts (compact /
   Sprint), and the facts about them that do not involve the parser:
     A. the text of the compact item list is [render];
     B. the text of the Sprint-layout item list is what Sprint prints;
     C. both item lists are well-formed (so the lexer yields their tokens);
     E. Sprint's fuel (the length of the userString) suffices. *)
From Mpath.Model Require Import Base Dec Types GoVal Ast Lexer Parser Printer Funcs Eval.
From Mpath.Generated Require Import FuncTable Escapes Runes.
From Mpath.Proofs Require Import C09 C09b1.

Local Open Scope Z_scope.

(* ================================================================== *)
(** * Definitions                                                       *)
(* ================================================================== *)

Definition path_root (p : path) : bool := match p with Path _ r _ _ _ _ => r end.
Definition path_isf (p : path) : bool := match p with Path _ _ f _ _ _ => f end.
Definition path_me (p : path) : bool := match p with Path _ _ _ m _ _ => m end.
Definition path_ops (p : path) : list pathop := match p with Path _ _ _ _ ops _ => ops end.
Definition logop_isf (l : logop) : bool := match l with LogOp _ f _ _ _ => f end.

Definition open_s (isf : bool) : str := if isf then bs "[" else bs "{".
Definition close_s (isf : bool) : str := if isf then bs "]" else bs "}".
Definition open_c (isf : bool) : Z := if isf then 91 else 123.
Definition close_c (isf : bool) : Z := if isf then 93 else 125.

Definition lot_is_and (t : lot) : bool := match t with LAnd => true | _ => false end.

(** the stored userString [us] of an AND group is the spelling without keyword *)
Definition kw_omitted (isf : bool) (t : lot) (body us : str) : bool :=
  lot_is_and t && str_eqb us (open_s isf ++ body ++ close_s isf).

(** ** The compact concrete syntax: no white space; one comma between operands
    / arguments, none after the last; a group is spelled `{KW,x1,...,xn}` (a
    filter `[KW,x1,...,xn]`) with KW = AND | OR followed by a comma — except
    that an AND group whose stored userString is the spelling without the
    keyword, `{x1,...,xn}` / `[x1,...,xn]`, is rendered that way (the parser
    accepts both spellings of AND and keeps the one written in the
    userString; Sprint always prints the keyword).
      $.a.b?[@.x.Equal(1),{OR,@.y,$.z}].Sum($.n,2)
      $.a.b?[AND,@.x.Equal(1),{OR,@.y,$.z}].Sum($.n,2)            *)
Fixpoint render_path (p : path) : str :=
  match p with Path _ root _ _ ops _ => rp_root_str root ++ concat (map render_pathop ops) end
with render_pathop (o : pathop) : str :=
  match o with
  | PIdent k q _ => bs "." ++ key_piece (k, q)
  | PFilter l _ => render_logop l
  | PFunc f => bs "." ++ render_func f
  end
with render_func (f : func) : str :=
  match f with Func _ ft ps _ => ft ++ bs "(" ++ concat_str (bs ",") (map render_param ps) ++ bs ")" end
with render_param (p : param) : str :=
  match p with FPPath q => render_path q | FPLog l => render_logop l | _ => param_string p end
with render_logop (l : logop) : str :=
  match l with LogOp _ isf t xs us =>
    if kw_omitted isf t (concat_str (bs ",") (map render_operand xs)) us
    then open_s isf ++ concat_str (bs ",") (map render_operand xs) ++ close_s isf
    else open_s isf ++ kw_text t ++ bs "," ++ concat_str (bs ",") (map render_operand xs) ++ close_s isf
  end
with render_operand (x : operand) : str :=
  match x with OpP p => render_path p | OpL l => render_logop l end.

Definition render (t : top) : str :=
  match t with TopP p => render_path p | TopL l => render_logop l end.

Definition log_body (xs : list operand) : str := concat_str (bs ",") (map render_operand xs).
Definition logop_om (l : logop) : bool :=
  match l with LogOp _ isf t xs us => kw_omitted isf t (log_body xs) us end.

Section AllP.
  Context {A : Type} (P : A -> Prop).
  Fixpoint all_P (l : list A) : Prop :=
    match l with [] => True | x :: l' => P x /\ all_P l' end.
  Lemma all_P_Forall : forall l, all_P l <-> Forall P l.
  Proof.
    induction l as [|x l IH]; cbn [all_P]; split; intros H.
    - constructor.
    - exact I.
    - constructor; [exact (proj1 H)|apply IH; exact (proj2 H)].
    - inversion H; subst. split; [assumption|apply IH; assumption].
  Qed.
End AllP.

(** ** The canonical class.  Flags as the parser sets them, keys the lexer
    reads back, known functions, literal arguments as in C09's [frag_op],
    AND/OR groups, and every userString equal to the compact rendering of its
    own node. *)
Fixpoint canon_path (uni : uclass) (p : path) {struct p} : Prop :=
  match p with
  | Path inv root isf me ops us =>
    inv = me && negb (last_ok_for_group ops) /\
    root && isf = false /\
    us = rp_root_str root ++ concat (map render_pathop ops) /\
    all_P (canon_pathop uni) ops
  end
with canon_pathop (uni : uclass) (o : pathop) {struct o} : Prop :=
  match o with
  | PIdent k q us => good_key uni (k, q) /\ us = key_piece (k, q)
  | PFilter l us => canon_logop uni l /\ logop_isf l = true /\ us = render_logop l
  | PFunc f => canon_func uni f
  end
with canon_func (uni : uclass) (f : func) {struct f} : Prop :=
  match f with
  | Func inv ft ps us =>
    inv = false /\ known_func ft /\
    us = ft ++ bs "(" ++ concat_str (bs ",") (map render_param ps) ++ bs ")" /\
    all_P (canon_param uni) ps
  end
with canon_param (uni : uclass) (p : param) {struct p} : Prop :=
  match p with
  | FPPath q => canon_path uni q /\ path_isf q = false /\ path_me q = false
  | FPLog l => canon_logop uni l /\ logop_isf l = false
  | FPNum _ | FPStr _ | FPBool _ => lit_param_ok p
  end
with canon_logop (uni : uclass) (l : logop) {struct l} : Prop :=
  match l with
  | LogOp inv isf t xs us =>
    inv = false /\ (t = LAnd \/ t = LOr) /\
    us = render_logop (LogOp inv isf t xs us) /\
    all_P (canon_operand uni isf) xs
  end
with canon_operand (uni : uclass) (isf : bool) (x : operand) {struct x} : Prop :=
  match x with
  | OpP p => canon_path uni p /\ path_isf p = isf /\ path_me p = true
  | OpL l => canon_logop uni l /\ logop_isf l = false
  end.

Definition canon (uni : uclass) (t : top) : Prop :=
  match t with
  | TopP p => canon_path uni p /\ path_isf p = false /\ path_me p = false
  | TopL l => canon_logop uni l /\ logop_isf l = false
  end.

(** ** The item list of a node.  [ws = false]: the compact layout; [ws = true]:
    Sprint's layout at depth [d].  Arguments of functions are always compact:
    Sprint prints them by their userString. *)
Definition W (ws : bool) (s : str) : list item := if ws then [IWs s] else [].

Fixpoint its_path (ws : bool) (d : nat) (p : path) {struct p} : list item :=
  match p with
  | Path _ root _ _ ops _ => W ws (tabs d) ++ ICh (rp_root_rune root) :: flat_map (its_pathop ws d) ops
  end
with its_pathop (ws : bool) (d : nat) (o : pathop) {struct o} : list item :=
  match o with
  | PIdent k q _ => [ICh 46; IKey (k, q)]
  | PFilter l _ => its_logop ws d l
  | PFunc f => ICh 46 :: its_func f
  end
with its_func (f : func) {struct f} : list item :=
  match f with
  | Func _ ft ps _ => IName ft :: ICh 40 :: jn [ICh 44] (map its_param ps) ++ [ICh 41]
  end
with its_param (p : param) {struct p} : list item :=
  match p with
  | FPPath q => its_path false 0 q
  | FPLog l => its_logop false 0 l
  | FPNum _ | FPStr _ | FPBool _ => [ILit p]
  end
with its_logop (ws : bool) (d : nat) (l : logop) {struct l} : list item :=
  match l with
  | LogOp _ isf t xs us =>
    (if isf then [] else W ws (tabs d)) ++ ICh (open_c isf) ::
    (W ws (nl ++ tabs (S d)) ++
     (if kw_omitted isf t (concat_str (bs ",") (map render_operand xs)) us then [] else [IKw t; ICh 44]) ++
     jn [ICh 44] (map (fun x => W ws nl ++ its_operand ws (S d) x) xs) ++
     W ws (nl ++ tabs d) ++ [ICh (close_c isf)])
  end
with its_operand (ws : bool) (d : nat) (x : operand) {struct x} : list item :=
  match x with OpP p => its_path ws d p | OpL l => its_logop ws d l end.

Definition its_top (ws : bool) (t : top) : list item :=
  match t with TopP p => its_path ws 0 p | TopL l => its_logop ws 0 l end.

(** the parts of a function call / a group after the name / the opening bracket *)
Definition its_fargs (ps : list param) : list item :=
  ICh 40 :: jn [ICh 44] (map its_param ps) ++ [ICh 41].
Definition its_lbody (ws : bool) (d : nat) (isf : bool) (t : lot) (om : bool) (xs : list operand) : list item :=
  W ws (nl ++ tabs (S d)) ++ (if om then [] else [IKw t; ICh 44]) ++
  jn [ICh 44] (map (fun x => W ws nl ++ its_operand ws (S d) x) xs) ++
  W ws (nl ++ tabs d) ++ [ICh (close_c isf)].

Lemma its_path_eq : forall ws d inv root isf me ops us,
  its_path ws d (Path inv root isf me ops us)
  = W ws (tabs d) ++ ICh (rp_root_rune root) :: flat_map (its_pathop ws d) ops.
Proof. reflexivity. Qed.
Lemma its_func_eq : forall inv ft ps us, its_func (Func inv ft ps us) = IName ft :: its_fargs ps.
Proof. reflexivity. Qed.
Lemma its_logop_eq : forall ws d inv isf t xs us,
  its_logop ws d (LogOp inv isf t xs us)
  = (if isf then [] else W ws (tabs d)) ++ ICh (open_c isf) ::
    its_lbody ws d isf t (logop_om (LogOp inv isf t xs us)) xs.
Proof. reflexivity. Qed.

(** Sprint-level nesting depth (filters and groups; not function arguments) *)
Fixpoint dp_path (p : path) : nat :=
  match p with Path _ _ _ _ ops _ => S (fold_right (fun o n => Nat.max (dp_pathop o) n) O ops) end
with dp_pathop (o : pathop) : nat :=
  match o with PFilter l _ => dp_logop l | _ => O end
with dp_logop (l : logop) : nat :=
  match l with LogOp _ _ _ xs _ => S (fold_right (fun x n => Nat.max (dp_operand x) n) O xs) end
with dp_operand (x : operand) : nat :=
  match x with OpP p => dp_path p | OpL l => dp_logop l end.

(* ================================================================== *)
(** * Induction over operation trees                                    *)
(* ================================================================== *)

Section AstInd.
  Variables (Pp : path -> Prop) (Pf : func -> Prop) (Pl : logop -> Prop).
  Definition Po_of (o : pathop) : Prop :=
    match o with PIdent _ _ _ => True | PFilter l _ => Pl l | PFunc f => Pf f end.
  Definition Pa_of (p : param) : Prop :=
    match p with FPPath q => Pp q | FPLog l => Pl l | _ => True end.
  Definition Px_of (x : operand) : Prop :=
    match x with OpP p => Pp p | OpL l => Pl l end.
  Hypothesis Hp : forall inv root isf me ops us, Forall Po_of ops -> Pp (Path inv root isf me ops us).
  Hypothesis Hf : forall inv ft ps us, Forall Pa_of ps -> Pf (Func inv ft ps us).
  Hypothesis Hl : forall inv isf t xs us, Forall Px_of xs -> Pl (LogOp inv isf t xs us).

  Lemma Forall_bounded {A} (R : A -> Prop) (sz : A -> nat) (n : nat) (l : list A) :
    (forall x, (sz x < n)%nat -> R x) ->
    (fold_right (fun x m => (sz x + m)%nat) O l < n)%nat -> Forall R l.
  Proof.
    intros HR. induction l as [|x l IH]; intros Hlt; constructor; cbn [fold_right] in Hlt.
    - apply HR. lia.
    - apply IH. lia.
  Qed.

  Lemma ast_ind_bounded : forall n,
    (forall p, (size_path p < n)%nat -> Pp p) /\
    (forall o, (size_pathop o < n)%nat -> Po_of o) /\
    (forall f, (size_func f < n)%nat -> Pf f) /\
    (forall a, (size_param a < n)%nat -> Pa_of a) /\
    (forall l, (size_logop l < n)%nat -> Pl l) /\
    (forall x, (size_operand x < n)%nat -> Px_of x).
  Proof.
    induction n as [|n IH]; [repeat split; intros; lia|].
    destruct IH as (IHp & IHo & IHf & IHa & IHl & IHx).
    repeat split.
    - intros [inv root isf me ops us] Hs. cbn [size_path] in Hs. apply Hp.
      eapply Forall_bounded; [exact IHo|]. lia.
    - intros [name q us|l us|f] Hs; cbn [size_pathop] in Hs; cbn [Po_of]; [exact I| |].
      + apply IHl. lia.
      + apply IHf. lia.
    - intros [inv ft ps us] Hs. cbn [size_func] in Hs. apply Hf.
      eapply Forall_bounded; [exact IHa|]. lia.
    - intros [d|s|b|q|l] Hs; cbn [size_param] in Hs; cbn [Pa_of]; try exact I.
      + apply IHp. lia.
      + apply IHl. lia.
    - intros [inv isf t xs us] Hs. cbn [size_logop] in Hs. apply Hl.
      eapply Forall_bounded; [exact IHx|]. lia.
    - intros [p|l] Hs; cbn [size_operand] in Hs; cbn [Px_of].
      + apply IHp. lia.
      + apply IHl. lia.
  Qed.

  Theorem ast_ind3 : (forall p, Pp p) /\ (forall f, Pf f) /\ (forall l, Pl l).
  Proof.
    repeat split.
    - intros p. apply (proj1 (ast_ind_bounded (S (size_path p)))). lia.
    - intros f. apply (proj1 (proj2 (proj2 (ast_ind_bounded (S (size_func f)))))). lia.
    - intros l. apply (proj1 (proj2 (proj2 (proj2 (proj2 (ast_ind_bounded (S (size_logop l)))))))). lia.
  Qed.
End AstInd.

(* ================================================================== *)
(** * Small tools                                                       *)
(* ================================================================== *)

Lemma map_ext_F : forall {A B} (f g : A -> B) l, Forall (fun x => f x = g x) l -> map f l = map g l.
Proof. intros A B f g l H. induction H as [|x l Hx _ IH]; [reflexivity|]. cbn [map]. rewrite Hx, IH. reflexivity. Qed.

Lemma Forall_and2 : forall {A} (P Q R : A -> Prop) l,
  (forall x, P x -> Q x -> R x) -> Forall P l -> Forall Q l -> Forall R l.
Proof.
  intros A P Q R l H HP. induction HP as [|x l Hx _ IH]; intros HQ; [constructor|].
  inversion HQ; subst. constructor; [apply H; assumption|apply IH; assumption].
Qed.

Lemma items_text_W : forall ws s, items_text (W ws s) = if ws then s else [].
Proof. intros [|] s; [|reflexivity]. unfold W, items_text. cbn [map concat item_text]. apply app_nil_r. Qed.

Lemma items_toks_W : forall ws s its rest, items_toks (W ws s ++ its) rest = items_toks its rest.
Proof. intros [|] s its rest; reflexivity. Qed.

Lemma wf_W : forall uni ws s rest, forallb ws_char s = true -> wf_items uni (W ws s) rest.
Proof. intros uni [|] s rest H; cbn [W wf_items item_ok]; auto. Qed.

Lemma open_s_ch : forall isf, open_s isf = ch_str (open_c isf).
Proof. intros [|]; reflexivity. Qed.
Lemma close_s_ch : forall isf, close_s isf = ch_str (close_c isf).
Proof. intros [|]; reflexivity. Qed.

Lemma in_punct_root : forall root, In (rp_root_rune root) punct.
Proof. intros [|]; cbn; tauto. Qed.
Lemma in_punct_open : forall isf, In (open_c isf) punct.
Proof. intros [|]; cbn; tauto. Qed.
Lemma in_punct_close : forall isf, In (close_c isf) punct.
Proof. intros [|]; cbn; tauto. Qed.
Lemma in_punct_40 : In 40 punct. Proof. cbn; tauto. Qed.
Lemma in_punct_41 : In 41 punct. Proof. cbn; tauto. Qed.
Lemma in_punct_44 : In 44 punct. Proof. cbn; tauto. Qed.
Lemma in_punct_46 : In 46 punct. Proof. cbn; tauto. Qed.

(** the userString of a canonical node is its rendering *)
Lemma canon_path_us : forall uni p, canon_path uni p -> path_us p = render_path p.
Proof. intros uni [inv root isf me ops us] (_ & _ & E & _). exact E. Qed.
Lemma canon_func_us : forall uni f, canon_func uni f -> func_us f = render_func f.
Proof. intros uni [inv ft ps us] (_ & _ & E & _). exact E. Qed.
Lemma canon_logop_us : forall uni l, canon_logop uni l -> logop_us l = render_logop l.
Proof. intros uni [inv isf t xs us] (_ & _ & E & _). exact E. Qed.

Theorem canon_top_us : forall uni t, canon uni t -> top_us t = render t.
Proof.
  intros uni [p|l] H; cbn [canon] in H; cbn [top_us render].
  - apply (canon_path_us uni). exact (proj1 H).
  - apply (canon_logop_us uni). exact (proj1 H).
Qed.

(* ================================================================== *)
(** * A. The compact item list spells [render]                          *)
(* ================================================================== *)

Definition AP (p : path) : Prop := forall d, items_text (its_path false d p) = render_path p.
Definition AF (f : func) : Prop := items_text (its_func f) = render_func f.
Definition AL (l : logop) : Prop := forall d, items_text (its_logop false d l) = render_logop l.

Lemma text_A : (forall p, AP p) /\ (forall f, AF f) /\ (forall l, AL l).
Proof.
  apply ast_ind3.
  - intros inv root isf me ops us HF d.
    rewrite its_path_eq. cbn [W app]. rewrite items_text_cons, items_text_flat_map.
    cbn [item_text render_path]. rewrite root_str_ch. f_equal. f_equal.
    apply map_ext_F. eapply Forall_impl; [|exact HF].
    intros [k q us1|l us1|f] Ho; cbn [Po_of] in Ho.
    + cbn [its_pathop render_pathop]. rewrite !items_text_cons. cbn [item_text items_text map concat].
      rewrite app_nil_r. reflexivity.
    + cbn [its_pathop render_pathop]. apply Ho.
    + cbn [its_pathop render_pathop]. rewrite items_text_cons. rewrite Ho. reflexivity.
  - intros inv ft ps us HF. unfold AF.
    rewrite its_func_eq. unfold its_fargs. rewrite !items_text_cons, items_text_app, items_text_jn.
    cbn [item_text render_func]. rewrite map_map.
    change (items_text [ICh 44]) with (bs ","). change (items_text [ICh 41]) with (bs ")").
    change (ch_str 40) with (bs "(").
    f_equal. f_equal. f_equal. f_equal.
    apply map_ext_F. eapply Forall_impl; [|exact HF].
    intros [dd|s|b|q|l] Ha; cbn [Pa_of] in Ha; cbn [its_param render_param];
      try (unfold items_text; cbn [map concat item_text]; apply app_nil_r).
    + apply Ha.
    + apply Ha.
  - intros inv isf t xs us HF d.
    assert (Hb : map (fun x => items_text (its_operand false (S d) x)) xs = map render_operand xs).
    { apply map_ext_F. eapply Forall_impl; [|exact HF].
      intros [p|l] Hx; cbn [Px_of] in Hx; cbn [its_operand render_operand app]; apply Hx. }
    rewrite its_logop_eq. unfold its_lbody. cbn [W logop_om render_logop]. unfold log_body.
    replace (if isf then [] else @nil item) with (@nil item) by (destruct isf; reflexivity).
    cbn [app]. rewrite items_text_cons. cbn [item_text]. rewrite open_s_ch, close_s_ch.
    destruct (kw_omitted isf t (concat_str (bs ",") (map render_operand xs)) us).
    + cbn [app]. rewrite items_text_app, items_text_jn, map_map.
      change (items_text [ICh 44]) with (bs ","). rewrite Hb. reflexivity.
    + cbn [app]. rewrite !items_text_cons, items_text_app, items_text_jn, map_map.
      change (items_text [ICh 44]) with (bs ","). rewrite Hb. reflexivity.
Qed.

Theorem render_items : forall t, items_text (its_top false t) = render t.
Proof.
  intros [p|l]; cbn [its_top render].
  - apply (proj1 text_A).
  - apply (proj2 (proj2 text_A)).
Qed.

(* ================================================================== *)
(** * B. The Sprint-layout item list spells what Sprint prints          *)
(* ================================================================== *)

Definition sp_op (k d : nat) (o : pathop) : str :=
  match o with
  | PIdent name q _ => bs "." ++ name ++ (if q then bs "?" else [])
  | PFilter l _ => sprint_log k d l
  | PFunc f => bs "." ++ sprint_func f
  end.
Definition sp_operand (k d : nat) (x : operand) : str :=
  match x with OpP p => sprint_path k d p | OpL l => sprint_log k d l end.

Lemma sprint_path_S : forall k d inv root isf me ops us,
  sprint_path (S k) d (Path inv root isf me ops us)
  = tabs d ++ (if root then bs "$" else bs "@") ++ concat (map (sp_op k d) ops).
Proof. reflexivity. Qed.

Lemma sprint_log_S : forall k d inv isf t xs us,
  sprint_log (S k) d (LogOp inv isf t xs us)
  = (if isf then bs "[" else tabs d ++ bs "{") ++ nl ++ tabs (S d) ++
    (match t with LAnd => bs "AND," | LOr => bs "OR," | LBad _ => [] end) ++
    concat_str (bs ",") (map (fun x => nl ++ sp_operand k (S d) x) xs) ++
    nl ++ tabs d ++ (if isf then bs "]" else bs "}").
Proof.
  intros k d inv isf t xs us. cbn [sprint_log].
  f_equal. f_equal. f_equal. f_equal. f_equal.
  induction xs as [|x xs IH]; [reflexivity|].
  rewrite IH. clear IH.
  destruct xs as [|y xs].
  - cbn [map concat_str]. rewrite !app_nil_r. destruct x; reflexivity.
  - change (concat_str (bs ",") (map (fun x0 => nl ++ sp_operand k (S d) x0) (x :: y :: xs)))
      with ((nl ++ sp_operand k (S d) x) ++ bs "," ++
            concat_str (bs ",") (map (fun x0 => nl ++ sp_operand k (S d) x0) (y :: xs))).
    rewrite <- !app_assoc. destruct x; reflexivity.
Qed.

Lemma canon_sprint_func : forall uni f, canon_func uni f -> sprint_func f = render_func f.
Proof.
  intros uni [inv ft ps us] (_ & _ & _ & Hps). cbn [sprint_func render_func].
  f_equal. f_equal. f_equal. f_equal.
  apply map_ext_F. apply all_P_Forall in Hps. eapply Forall_impl; [|exact Hps].
  intros [dd|s|b|q|l] Ha; cbn [canon_param] in Ha; cbn [param_string render_param]; try reflexivity.
  - apply (canon_path_us uni). exact (proj1 Ha).
  - apply (canon_logop_us uni). exact (proj1 Ha).
Qed.

Lemma max_bound : forall {A} (f : A -> nat) l k,
  (fold_right (fun x n => Nat.max (f x) n) O l <= k)%nat -> Forall (fun x => (f x <= k)%nat) l.
Proof.
  intros A f l k. induction l as [|x l IH]; intros H; constructor; cbn [fold_right] in H.
  - lia.
  - apply IH. lia.
Qed.

Lemma shape_log : forall (isf : bool) (t : lot) (d : nat) (A B : str), (t = LAnd \/ t = LOr) -> A = B ->
  (if isf then bs "[" else tabs d ++ bs "{") ++ nl ++ tabs (S d) ++
  (match t return str with LAnd => bs "AND," | LOr => bs "OR," | LBad _ => [] end) ++
  A ++ nl ++ tabs d ++ (if isf then bs "]" else bs "}")
  = items_text (if isf then [] else [IWs (tabs d)]) ++ ch_str (open_c isf) ++ nl ++ tabs (S d) ++
    kw_text t ++ ch_str 44 ++ B ++ nl ++ tabs d ++ ch_str (close_c isf).
Proof.
  intros isf t d A B Ht ->. unfold items_text.
  destruct Ht as [->| ->]; destruct isf; cbn [map concat item_text kw_text open_c close_c];
    rewrite <- ?app_assoc; reflexivity.
Qed.

(** the groups and filters that Sprint prints structurally (not those inside
    function arguments) have the keyword in their userString *)
Fixpoint kws_path (p : path) : Prop :=
  match p with Path _ _ _ _ ops _ => all_P kws_pathop ops end
with kws_pathop (o : pathop) : Prop :=
  match o with PFilter l _ => kws_logop l | _ => True end
with kws_logop (l : logop) : Prop :=
  match l with
  | LogOp _ isf t xs us =>
    kw_omitted isf t (concat_str (bs ",") (map render_operand xs)) us = false /\ all_P kws_operand xs
  end
with kws_operand (x : operand) : Prop :=
  match x with OpP p => kws_path p | OpL l => kws_logop l end.
Definition kws (t : top) : Prop := match t with TopP p => kws_path p | TopL l => kws_logop l end.

Definition BP (uni : uclass) (p : path) : Prop :=
  canon_path uni p -> kws_path p ->
  forall k d, (dp_path p <= k)%nat -> sprint_path k d p = items_text (its_path true d p).
Definition BL (uni : uclass) (l : logop) : Prop :=
  canon_logop uni l -> kws_logop l ->
  forall k d, (dp_logop l <= k)%nat -> sprint_log k d l = items_text (its_logop true d l).

Lemma text_B : forall uni, (forall p, BP uni p) /\ (forall f : func, True) /\ (forall l, BL uni l).
Proof.
  intros uni. apply ast_ind3.
  - intros inv root isf me ops us HF (_ & _ & _ & Hops) Hkw k d Hk.
    cbn [dp_path] in Hk. destruct k as [|k]; [lia|].
    apply all_P_Forall in Hops. cbn [kws_path] in Hkw. apply all_P_Forall in Hkw.
    pose proof (max_bound dp_pathop ops k ltac:(lia)) as Hd.
    rewrite sprint_path_S, its_path_eq. cbn [W app].
    rewrite !items_text_cons, items_text_flat_map.
    cbn [item_text]. rewrite <- root_str_ch.
    f_equal. f_equal. f_equal.
    apply map_ext_F.
    refine (Forall_and2 _ _ _ ops _
              (Forall_and2 _ _ _ ops (fun x a b => conj a b)
                 (Forall_and2 _ _ _ ops (fun x a b => conj a b) HF Hops) Hkw) Hd).
    intros [kk q us1|l us1|f] [[Ho Hc] Hs] Hdo; cbn [Po_of] in Ho; cbn [canon_pathop] in Hc;
      cbn [kws_pathop] in Hs; cbn [dp_pathop] in Hdo; cbn [sp_op its_pathop].
    + rewrite !items_text_cons. cbn [item_text items_text map concat]. rewrite app_nil_r. reflexivity.
    + apply Ho; [exact (proj1 Hc)|exact Hs|exact Hdo].
    + rewrite items_text_cons, (proj1 (proj2 text_A) f), (canon_sprint_func uni f Hc). reflexivity.
  - intros; exact I.
  - intros inv isf t xs us HF (_ & Ht & _ & Hxs) (Hom & Hkw) k d Hk.
    cbn [dp_logop] in Hk. destruct k as [|k]; [lia|].
    apply all_P_Forall in Hxs. apply all_P_Forall in Hkw.
    pose proof (max_bound dp_operand xs k ltac:(lia)) as Hd.
    rewrite sprint_log_S, its_logop_eq. cbn [logop_om]. unfold log_body. rewrite Hom.
    unfold its_lbody. cbn [W app].
    rewrite items_text_app, !items_text_cons, items_text_app, items_text_jn.
    change (items_text [IWs (nl ++ tabs d); ICh (close_c isf)]) with ((nl ++ tabs d) ++ ch_str (close_c isf) ++ []).
    change (items_text [ICh 44]) with (bs ",").
    rewrite !app_nil_r. cbn [item_text]. rewrite map_map, <- !app_assoc.
    apply shape_log; [exact Ht|].
    f_equal.
    apply map_ext_F.
    refine (Forall_and2 _ _ _ xs _
              (Forall_and2 _ _ _ xs (fun x a b => conj a b)
                 (Forall_and2 _ _ _ xs (fun x a b => conj a b) HF Hxs) Hkw) Hd).
    intros [p|l] [[Hx Hc] Hs] Hdx; cbn [Px_of] in Hx; cbn [canon_operand] in Hc; cbn [kws_operand] in Hs;
      cbn [dp_operand] in Hdx; cbn [sp_operand its_operand]; rewrite items_text_cons;
      cbn [item_text]; f_equal; (apply Hx; [exact (proj1 Hc)|exact Hs|exact Hdx]).
Qed.

(* ================================================================== *)
(** * E. The userString is long enough to serve as Sprint's fuel        *)
(* ================================================================== *)

Lemma length_concat_max : forall {A} (f : A -> str) (g : A -> nat) l,
  Forall (fun x => (g x <= length (f x))%nat) l ->
  (fold_right (fun x n => Nat.max (g x) n) O l <= length (concat (map f l)))%nat.
Proof.
  intros A f g l H. induction H as [|x l Hx _ IH]; [cbn; lia|].
  cbn [fold_right map concat]. rewrite app_length. lia.
Qed.

Lemma length_concat_str_max : forall {A} (f : A -> str) (g : A -> nat) sep l,
  Forall (fun x => (g x <= length (f x))%nat) l ->
  (fold_right (fun x n => Nat.max (g x) n) O l <= length (concat_str sep (map f l)))%nat.
Proof.
  intros A f g sep l H. destruct H as [|x l Hx Hl]; [cbn; lia|].
  cbn [map]. rewrite concat_str_cons, app_length. cbn [fold_right].
  assert (H2 : (fold_right (fun x n => Nat.max (g x) n) O l
                <= length (concat (map (fun y => sep ++ y) (map f l))))%nat).
  { clear Hx. induction Hl as [|y l Hy _ IH]; [cbn; lia|].
    cbn [fold_right map concat]. rewrite !app_length. lia. }
  lia.
Qed.

Lemma depth_E : (forall p, (dp_path p <= length (render_path p))%nat) /\ (forall f : func, True) /\
                (forall l, (dp_logop l <= length (render_logop l))%nat).
Proof.
  apply ast_ind3.
  - intros inv root isf me ops us HF. cbn [dp_path render_path]. rewrite app_length.
    assert (H1 : length (rp_root_str root) = 1%nat) by (destruct root; reflexivity).
    assert (H2 : (fold_right (fun o n => Nat.max (dp_pathop o) n) O ops
                  <= length (concat (map render_pathop ops)))%nat).
    { apply length_concat_max. eapply Forall_impl; [|exact HF].
      intros [k q us1|l us1|f] Ho; cbn [Po_of] in Ho; cbn [dp_pathop render_pathop]; [lia|exact Ho|lia]. }
    lia.
  - intros; exact I.
  - intros inv isf t xs us HF.
    assert (H1 : length (open_s isf) = 1%nat) by (destruct isf; reflexivity).
    assert (H2 : (fold_right (fun x n => Nat.max (dp_operand x) n) O xs
                  <= length (concat_str (bs ",") (map render_operand xs)))%nat).
    { apply length_concat_str_max. eapply Forall_impl; [|exact HF].
      intros [p|l] Hx; cbn [Px_of] in Hx; cbn [dp_operand render_operand]; exact Hx. }
    cbn [dp_logop render_logop].
    destruct (kw_omitted isf t (concat_str (bs ",") (map render_operand xs)) us); rewrite !app_length; lia.
Qed.

Theorem sprint_items : forall uni t, canon uni t -> kws t -> sprint_top t = items_text (its_top true t).
Proof.
  intros uni [p|l] H Hk; cbn [canon] in H; destruct H as (Hc & _); cbn [kws] in Hk; cbn [sprint_top its_top].
  - apply (proj1 (text_B uni) p Hc Hk).
    rewrite (canon_path_us uni p Hc). pose proof (proj1 depth_E p). lia.
  - apply (proj2 (proj2 (text_B uni)) l Hc Hk).
    rewrite (canon_logop_us uni l Hc). pose proof (proj2 (proj2 depth_E) l). lia.
Qed.

(* ================================================================== *)
(** * C. The item lists are well-formed                                 *)
(* ================================================================== *)

(** a rune that may follow a path: it ends an identifier and is not `(` *)
Definition pfollow (uni : uclass) (c : Z) : Prop := is_ident_rune uni c = false /\ c <> 40.

Lemma pfollow_46 : forall uni, pfollow uni 46. Proof. intros uni. split; [reflexivity|discriminate]. Qed.
Lemma pfollow_91 : forall uni, pfollow uni 91. Proof. intros uni. split; [reflexivity|discriminate]. Qed.
Lemma pfollow_44 : forall uni, pfollow uni 44. Proof. intros uni. split; [reflexivity|discriminate]. Qed.
Lemma pfollow_41 : forall uni, pfollow uni 41. Proof. intros uni. split; [reflexivity|discriminate]. Qed.
Lemma pfollow_93 : forall uni, pfollow uni 93. Proof. intros uni. split; [reflexivity|discriminate]. Qed.
Lemma pfollow_125 : forall uni, pfollow uni 125. Proof. intros uni. split; [reflexivity|discriminate]. Qed.
Lemma pfollow_10 : forall uni, pfollow uni 10. Proof. intros uni. split; [reflexivity|discriminate]. Qed.
Lemma pfollow_eof : forall uni, pfollow uni (-1). Proof. intros uni. split; [apply rp_ident_eof|discriminate]. Qed.

(** the first rune of what follows a key inside a path *)
Lemma peek_ops : forall uni ws d ops R,
  all_P (canon_pathop uni) ops -> pfollow uni (peek R) ->
  pfollow uni (peek (items_cs (flat_map (its_pathop ws d) ops) ++ R)).
Proof.
  intros uni ws d [|o ops] R Hc HR; [exact HR|].
  cbn [all_P] in Hc. destruct Hc as [Ho _].
  cbn [flat_map]. rewrite items_cs_app, <- app_assoc.
  destruct o as [k q us|l us|f].
  - apply pfollow_46.
  - cbn [canon_pathop] in Ho. destruct Ho as (_ & Hf & _).
    destruct l as [inv isf t xs us1]. cbn [logop_isf] in Hf. subst isf.
    cbn [its_pathop]. rewrite its_logop_eq. apply pfollow_91.
  - apply pfollow_46.
Qed.

Section JnWf.
  Variables (uni : uclass) (Q : Z -> Prop).
  Hypothesis Q44 : Q 44.

  Lemma wf_jn_tail : forall (ls : list (list item)) tl R,
    Forall (fun l => forall R', Q (peek R') -> wf_items uni l R') ls ->
    wf_items uni tl R -> Q (peek (items_cs tl ++ R)) ->
    wf_items uni (jn_tail [ICh 44] ls ++ tl) R /\ Q (peek (items_cs (jn_tail [ICh 44] ls ++ tl) ++ R)).
  Proof.
    intros ls tl R H Htl HQ. induction H as [|y ls Hy _ IH]; [split; assumption|].
    destruct IH as [IH1 IH2].
    unfold jn_tail in *. cbn [map concat]. rewrite <- !app_assoc. cbn [app]. split.
    - cbn [wf_items item_ok]. split; [exact in_punct_44|].
      apply wf_items_app. split; [|exact IH1]. apply Hy. exact IH2.
    - exact Q44.
  Qed.

  Lemma wf_jn : forall (ls : list (list item)) tl R,
    Forall (fun l => forall R', Q (peek R') -> wf_items uni l R') ls ->
    wf_items uni tl R -> Q (peek (items_cs tl ++ R)) ->
    wf_items uni (jn [ICh 44] ls ++ tl) R.
  Proof.
    intros [|x ls] tl R H Htl HQ; [exact Htl|].
    inversion H as [|? ? Hx Hls]; subst.
    destruct (wf_jn_tail ls tl R Hls Htl HQ) as [H1 H2].
    rewrite jn_cons, <- app_assoc. apply wf_items_app. split; [|exact H1]. apply Hx. exact H2.
  Qed.
End JnWf.

Definition CP (uni : uclass) (p : path) : Prop :=
  canon_path uni p -> forall ws d R, pfollow uni (peek R) -> wf_items uni (its_path ws d p) R.
Definition CF (uni : uclass) (f : func) : Prop :=
  canon_func uni f -> forall R, wf_items uni (its_func f) R.
Definition CL (uni : uclass) (l : logop) : Prop :=
  canon_logop uni l -> forall ws d R, wf_items uni (its_logop ws d l) R.

Lemma wf_C : forall uni, (forall p, CP uni p) /\ (forall f, CF uni f) /\ (forall l, CL uni l).
Proof.
  intros uni. apply ast_ind3.
  - intros inv root isf me ops us HF (_ & _ & _ & Hops) ws d R HR.
    rewrite its_path_eq. apply wf_items_app. split; [apply wf_W, tabs_ws|].
    cbn [wf_items item_ok]. split; [apply in_punct_root|].
    clear inv root isf me us.
    induction HF as [|o ops Ho _ IH]; [exact I|].
    cbn [all_P] in Hops. destruct Hops as [Hco Hcops]. specialize (IH Hcops).
    cbn [flat_map]. apply wf_items_app. split; [|exact IH].
    pose proof (peek_ops uni ws d ops R Hcops HR) as Hpk.
    destruct o as [k q us1|l us1|f]; cbn [Po_of] in Ho; cbn [canon_pathop] in Hco; cbn [its_pathop].
    + cbn [wf_items item_ok]. split; [exact in_punct_46|]. split; [|exact I].
      cbn [items_cs map concat app]. split; [exact (proj1 Hco)|exact Hpk].
    + apply Ho. exact (proj1 Hco).
    + cbn [wf_items item_ok]. split; [exact in_punct_46|]. apply Ho. exact Hco.
  - intros inv ft ps us HF (_ & Hk & _ & Hps) R.
    rewrite its_func_eq. unfold its_fargs. cbn [wf_items item_ok].
    split; [split; [exact Hk|reflexivity]|]. split; [exact in_punct_40|].
    apply (wf_jn uni (fun c => c = 41 \/ c = 44)); [right; reflexivity| |cbn [wf_items item_ok]; split; [exact in_punct_41|exact I]|left; reflexivity].
    apply all_P_Forall in Hps. apply Forall_map.
    refine (Forall_and2 _ _ _ ps _ HF Hps).
    intros [dd|s|b|q|l] Ha Hc R' HR'; cbn [Pa_of] in Ha; cbn [canon_param] in Hc; cbn [its_param];
      try (cbn [wf_items item_ok items_cs map concat app]; split; [split; [exact Hc|exact HR']|exact I]).
    + apply Ha; [exact (proj1 Hc)|]. destruct HR' as [E|E]; rewrite E; [apply pfollow_41|apply pfollow_44].
    + apply Ha. exact (proj1 Hc).
  - intros inv isf t xs us HF (_ & Ht & _ & Hxs) ws d R.
    rewrite its_logop_eq. apply wf_items_app. split.
    { destruct isf; [exact I|apply wf_W, tabs_ws]. }
    cbn [wf_items item_ok]. split; [apply in_punct_open|].
    unfold its_lbody. apply wf_items_app. split; [apply wf_W, nl_tabs_ws|].
    apply wf_items_app. split.
    { destruct (logop_om (LogOp inv isf t xs us)); [exact I|].
      cbn [wf_items item_ok]. split; [split; [exact Ht|reflexivity]|]. split; [exact in_punct_44|exact I]. }
    apply (wf_jn uni (pfollow uni)); [apply pfollow_44| | |].
    + apply all_P_Forall in Hxs. apply Forall_map.
      refine (Forall_and2 _ _ _ xs _ HF Hxs).
      intros [p|l] Hx Hc R' HR'; cbn [Px_of] in Hx; cbn [canon_operand] in Hc; cbn [its_operand];
        (apply wf_items_app; split; [apply wf_W; reflexivity|]).
      * apply Hx; [exact (proj1 Hc)|exact HR'].
      * apply Hx. exact (proj1 Hc).
    + apply wf_items_app. split; [apply wf_W, nl_tabs_ws|].
      cbn [wf_items item_ok]. split; [apply in_punct_close|exact I].
    + destruct ws, isf; cbn; first [apply pfollow_10|apply pfollow_93|apply pfollow_125].
Qed.

Theorem wf_top : forall uni ws t, canon uni t -> wf_items uni (its_top ws t) [].
Proof.
  intros uni ws [p|l] H; cbn [canon] in H; destruct H as (Hc & _); cbn [its_top].
  - apply (proj1 (wf_C uni) p Hc). apply pfollow_eof.
  - apply (proj2 (proj2 (wf_C uni)) l Hc).
Qed.
