(* Proofs/Termination.v — the "always terminates" half of C07.

   [eval] is defined by recursion on fuel: one unit per descent into a child
   node and one per re-parse by Select.  This file shows

   1. for a query without Select, the nesting depth of the tree ([depth], a
      function of the query alone) is a sufficient fuel on every input;
   2. the same with Select, as long as every Select receives its sub-query as
      literal parameters whose parse is again such a query ([static_select],
      with an explicit bound computed by [static_fuel]);
   3. this is false when the sub-query comes from the data: the query
      $.AsArray().Select($.q), run on a document whose "q" is that very text,
      answers OutOfFuel with every fuel (the recorded finding F21);
   4. for a parsed query, [depth] is bounded by the parser's fuel, hence by the
      length of the query text: [default_fuel] is enough for every Select-free
      query of at most 1362 bytes. *)
From Mpath.Model Require Import Base Dec Types GoVal Ast Lexer Parser Funcs Eval.
From Mpath.Generated Require Import FuncTable.
From Mpath.Proofs Require Import EvalMono NoPanic C08.

(** * "not out of fuel", as a proposition that computes *)
Definition nf {A} (o : outcome A) : Prop :=
  match o with OutOfFuel => False | _ => True end.

Lemma nf_neq {A} (o : outcome A) : nf o -> o <> OutOfFuel.
Proof. intros H E. rewrite E in H. exact H. Qed.

Lemma neq_nf {A} (o : outcome A) : o <> OutOfFuel -> nf o.
Proof. intros H. destruct o as [a|e|msg| |w]; try exact I. exact (H eq_refl). Qed.

Lemma nf_bind {A B} (o : outcome A) (f : A -> outcome B) :
  nf o -> (forall a, o = Ok a -> nf (f a)) -> nf (bind o f).
Proof.
  intros Ho Hf. destruct o as [a|e|msg| |w]; try exact I.
  - exact (Hf a eq_refl).
  - exact Ho.
Qed.

Ltac nf_step :=
  match goal with
  | |- nf (Ok _) => exact I
  | |- nf (Err _) => exact I
  | |- nf (fail _) => exact I
  | |- nf (Panic _) => exact I
  | |- nf (Declined _) => exact I
  | |- nf (bind _ _) => apply nf_bind; [ | intros ? ? ]
  | |- nf (match ?x with _ => _ end) => destruct x
  end.
Ltac nf_crush := repeat nf_step.

(** * The functions of funcs.go never construct OutOfFuel *)
Lemma params_first_any_nf ps : nf (params_first_any ps).
Proof. unfold params_first_any. nf_crush. Qed.

Lemma params_first_number_nf ps : nf (params_first_number ps).
Proof. unfold params_first_number. nf_crush. Qed.

Lemma params_first_string_nf ps : nf (params_first_string ps).
Proof. unfold params_first_string. nf_crush. Qed.

Lemma func_equal_nf ps val : nf (func_equal ps val).
Proof. unfold func_equal. nf_crush; apply params_first_any_nf. Qed.

Lemma boolv_nf o : nf o -> nf (boolv o).
Proof. intros H. unfold boolv. apply nf_bind; [exact H|]. intros b _. exact I. Qed.

Lemma negate_nf o : nf o -> nf (negate o).
Proof. intros H. unfold negate. apply nf_bind; [exact H|]. intros b _. exact I. Qed.

Lemma decimal_bool_func_nf f ps val : nf (decimal_bool_func f ps val).
Proof. unfold decimal_bool_func. nf_crush; apply params_first_number_nf. Qed.

Lemma string_bool_func_nf f inv ps val : nf (string_bool_func f inv ps val).
Proof. unfold string_bool_func. nf_crush; apply params_first_string_nf. Qed.

Lemma func_count_nf ps val : nf (func_count ps val).
Proof. unfold func_count. cbv zeta. nf_crush. Qed.

Lemma func_any_nf ps val : nf (func_any ps val).
Proof. unfold func_any. cbv zeta. nf_crush. Qed.

Lemma func_first_nf ps val : nf (func_first ps val).
Proof. unfold func_first. cbv zeta. nf_crush. Qed.

Lemma func_last_nf ps val : nf (func_last ps val).
Proof. unfold func_last. cbv zeta. nf_crush. Qed.

Lemma func_index_nf ps val : nf (func_index ps val).
Proof. unfold func_index. cbv zeta. nf_crush. apply params_first_number_nf. Qed.

Lemma func_decimal_slice_nf a ps val : nf (func_decimal_slice a ps val).
Proof.
  unfold func_decimal_slice. cbv zeta.
  match goal with |- nf (match ?x with _ => _ end) => destruct x as [[|d [|d' rest]]|] end; exact I.
Qed.

Lemma func_decimal_nf op ps val : nf (func_decimal op ps val).
Proof. unfold func_decimal. nf_crush; apply params_first_number_nf. Qed.

Lemma func_any_of_nf ps val : nf (func_any_of ps val).
Proof. exact I. Qed.

Lemma go_slice_nf s lo hi : nf (go_slice s lo hi).
Proof. unfold go_slice. nf_crush. Qed.

Lemma string_part_func_nf w ps val : nf (string_part_func w ps val).
Proof.
  unfold string_part_func.
  apply nf_bind; [apply params_first_number_nf|]. intros p _.
  destruct (negb (dis_integer p)); [exact I|].
  destruct (dis_neg p); [exact I|].
  destruct val as [ |nm b|k nm z|i32 nm f|nm s|d|tg|t isnil xs|t xs|kt vt isnil kvs|fs|isnil|isnil]; try exact I.
  destruct nm; [exact I|].
  cbv zeta.
  apply nf_bind; [|intros r _; exact I].
  destruct w;
    match goal with |- nf (if ?c then _ else _) => destruct c end;
    first [exact I | apply go_slice_nf].
Qed.

Lemma func_replace_all_nf ps val : nf (func_replace_all ps val).
Proof. unfold func_replace_all. nf_crush. Qed.

Lemma func_is_null_nf ps val : nf (func_is_null ps val).
Proof. unfold func_is_null. nf_crush. Qed.
Lemma func_is_empty_nf ps val : nf (func_is_empty ps val).
Proof. unfold func_is_empty. nf_crush. Qed.
Lemma func_is_null_or_empty_nf ps val : nf (func_is_null_or_empty ps val).
Proof. unfold func_is_null_or_empty. nf_crush. Qed.

Lemma func_not_nf val : nf (func_not val).
Proof. unfold func_not. nf_crush. Qed.
Lemma func_invert_nf val : nf (func_invert val).
Proof. unfold func_invert. nf_crush. Qed.

Lemma func_does_match_regex_nf eng ps val : nf (func_does_match_regex eng ps val).
Proof. unfold func_does_match_regex. nf_crush; apply params_first_string_nf. Qed.

Lemma func_replace_regex_nf eng ps val : nf (func_replace_regex eng ps val).
Proof. unfold func_replace_regex. cbv zeta. nf_crush. Qed.

Lemma func_as_json_nf eng ps val : nf (func_as_json eng ps val).
Proof. unfold func_as_json. nf_crush. Qed.

Lemma string_to_object_nf eng fmt ps val : nf (string_to_object eng fmt ps val).
Proof. unfold string_to_object. cbv zeta. nf_crush. Qed.

Lemma func_sprintf_nf eng ps val : nf (func_sprintf eng ps val).
Proof. unfold func_sprintf. nf_crush. Qed.

Lemma remove_keys_nf keep val : nf (remove_keys keep val).
Proof.
  unfold remove_keys. cbv zeta.
  destruct (rv_v (deref1 (value_of val))); try exact I.
  match goal with |- nf (match ?x with _ => _ end) => destruct x end; exact I.
Qed.

Lemma func_remove_keys_by_nf eng how ps val : nf (func_remove_keys_by eng how ps val).
Proof.
  unfold func_remove_keys_by.
  destruct (negb (len_is ps 1)); [exact I|].
  apply nf_bind; [apply params_first_string_nf|]. intros p _.
  destruct (String.eqb how "Regex").
  - destruct (eng_re_match eng p []) as [[b|]|]; try exact I. apply remove_keys_nf.
  - destruct (String.eqb how "Prefix"); apply remove_keys_nf.
Qed.

Create HintDb nofuel.
#[export] Hint Resolve boolv_nf negate_nf func_equal_nf decimal_bool_func_nf string_bool_func_nf
  func_count_nf func_any_nf func_first_nf func_last_nf func_decimal_slice_nf func_decimal_nf
  func_any_of_nf func_replace_all_nf func_is_null_nf func_is_empty_nf func_is_null_or_empty_nf
  func_not_nf func_invert_nf func_does_match_regex_nf func_replace_regex_nf func_as_json_nf
  string_to_object_nf func_sprintf_nf func_remove_keys_by_nf
  func_index_nf string_part_func_nf : nofuel.

Lemma run_func_nf eng ft ps val : nf (run_func eng ft ps val).
Proof.
  unfold run_func.
  repeat match goal with
  | |- nf (if String.eqb ft ?s then _ else _) =>
    destruct (String.eqb ft s); [ first [ exact I | solve [eauto 3 with nofuel] ] | ]
  end.
  exact I.
Qed.

Theorem run_func_never_out_of_fuel : forall eng ft ps val, run_func eng ft ps val <> OutOfFuel.
Proof. intros eng ft ps val. apply nf_neq. apply run_func_nf. Qed.

(** * The evaluator's helpers *)
Lemma spread_result_nf res : nf (spread_result res).
Proof. unfold spread_result. nf_crush. Qed.

Lemma get_values_by_name_nf name data : nf (get_values_by_name name data).
Proof. unfold get_values_by_name. cbv zeta. nf_crush. Qed.

Lemma do_ident_nf name cur : nf (do_ident name cur).
Proof.
  unfold do_ident. cbv zeta.
  destruct (rv_v (deref1 (value_of cur))); try apply get_values_by_name_nf.
  destruct (map_lookup_fold name kvs); exact I.
Qed.

Lemma parse_string_nf uni s : nf (parse_string uni s).
Proof. apply neq_nf. apply (C08_parse_string_no_fuel_no_panic uni s). Qed.

(** * The combinators: out of fuel only if a child is *)
Lemma path_ops_nf (ev : pathop -> gv -> outcome gv) :
  forall ops, (forall o d, In o ops -> nf (ev o d)) ->
  forall prev pn data le, nf (path_ops ev prev pn ops data le).
Proof.
  induction ops as [|op rest IH]; intros H prev pn data le; cbn [path_ops].
  - destruct le; exact I.
  - destruct (match prev with
              | Some p => pn && negb (pathop_qmark p) && negb (pathop_is_func op)
              | None => false
              end); [exact I|].
    pose proof (H op data (or_introl eq_refl)) as Hop.
    assert (IH' := IH (fun o d Hin => H o d (or_intror Hin))).
    destruct (ev op data) as [v|e|msg| |w]; try exact I.
    + apply IH'.
    + destruct e as [|tag]; [|exact I].
      destruct (pathop_qmark op); [apply IH'|exact I].
    + exact Hop.
Qed.

Lemma log_ops_nf (ev : operand -> outcome gv) t :
  forall xs, (forall x, In x xs -> nf (ev x)) -> nf (log_ops ev t xs).
Proof.
  induction xs as [|x rest IH]; intros H; cbn [log_ops].
  - destruct t; exact I.
  - pose proof (H x (or_introl eq_refl)) as Hx.
    assert (IH' := IH (fun y Hin => H y (or_intror Hin))).
    destruct (ev x) as [v|e|msg| |w]; cbn [bind]; try exact I; [|exact Hx].
    destruct v as [ |nm b|k nm z|i32 nm f|nm s|d|tg|ty isnil ys|ty ys|kt vt isnil kvs|fs|isnil|isnil]; try exact I.
    destruct nm; [exact I|].
    destruct t as [| |s]; destruct b; try exact I; exact IH'.
Qed.

Lemma filter_elems_nf (ev : gv -> outcome gv) :
  (forall x, nf (ev x)) -> forall xs, nf (filter_elems ev xs).
Proof.
  intros H xs; induction xs as [|x rest IH]; cbn [filter_elems]; [exact I|].
  apply nf_bind; [apply H|]. intros res _.
  destruct res as [ |nm b|k nm z|i32 nm f|nm s|d|tg|ty isnil ys|ty ys|kt vt isnil kvs|fs|isnil|isnil]; try exact I.
  destruct nm; [exact I|].
  apply nf_bind; [exact IH|]. intros ys _. exact I.
Qed.

Lemma select_elems_nf (ev : gv -> outcome gv) :
  (forall x, nf (ev x)) -> forall xs, nf (select_elems ev xs).
Proof.
  intros H xs; induction xs as [|x rest IH]; cbn [select_elems]; [exact I|].
  apply nf_bind; [apply H|]. intros res _.
  apply nf_bind; [exact IH|]. intros more _. exact I.
Qed.

Definition param_node (p : param) : option node :=
  match p with FPPath q => Some (NPath q) | FPLog l => Some (NLog l) | _ => None end.

Lemma param_here_nf (ev : node -> outcome gv) p :
  (forall m, param_node p = Some m -> nf (ev m)) -> nf (param_here ev p).
Proof.
  intros H. destruct p as [d|s|b|q|l]; cbn [param_here]; try exact I.
  - apply nf_bind; [apply H; reflexivity|]. intros res _. apply spread_result_nf.
  - apply nf_bind; [apply H; reflexivity|]. intros res _. apply spread_result_nf.
Qed.

Lemma eval_params_nf (ev : node -> outcome gv) :
  forall ps, (forall p m, In p ps -> param_node p = Some m -> nf (ev m)) -> nf (eval_params ev ps).
Proof.
  induction ps as [|p rest IH]; intros H; [exact I|].
  rewrite eval_params_unfold.
  apply nf_bind; [apply param_here_nf; intros m Hm; exact (H p m (or_introl eq_refl) Hm)|].
  intros h _.
  apply nf_bind; [apply IH; intros p' m Hin Hm; exact (H p' m (or_intror Hin) Hm)|].
  intros more _. exact I.
Qed.

(** * 1. Select-free queries: the nesting depth is a sufficient fuel *)

(** the maximum of [f] over a list; [f] is a parameter of the inner [fix], so
    that the guard checker sees through the nested lists of the AST *)
Definition maxl {A} (f : A -> nat) : list A -> nat :=
  fix go (l : list A) : nat :=
    match l with [] => O | x :: r => Nat.max (f x) (go r) end.

Lemma maxl_le {A} (f : A -> nat) (l : list A) (x : A) : In x l -> (f x <= maxl f l)%nat.
Proof.
  induction l as [|y l IH]; cbn [In maxl]; [tauto|].
  intros [->|H]; [lia | specialize (IH H); lia].
Qed.

Lemma maxl_snoc {A} (f : A -> nat) (l : list A) (x : A) :
  maxl f (l ++ [x]) = Nat.max (maxl f l) (f x).
Proof. induction l as [|y l IH]; cbn [app maxl]; [lia | rewrite IH; lia]. Qed.

(** The number of nodes on the longest chain of descents that [eval] can make
    (NTop -> NPath/NLog -> NOp -> NFunc -> parameters -> ...). *)
Fixpoint depth_path (p : path) : nat :=
  match p with Path _ _ _ _ ops _ => S (maxl depth_op ops) end
with depth_op (o : pathop) : nat :=
  match o with
  | PIdent _ _ _ => 1
  | PFilter l _ => S (depth_log l)
  | PFunc f => S (depth_func f)
  end
with depth_func (f : func) : nat :=
  match f with Func _ _ ps _ => S (maxl depth_param ps) end
with depth_param (p : param) : nat :=
  match p with FPPath q => depth_path q | FPLog l => depth_log l | _ => O end
with depth_log (l : logop) : nat :=
  match l with LogOp _ _ _ xs _ => S (maxl depth_operand xs) end
with depth_operand (x : operand) : nat :=
  match x with OpP p => depth_path p | OpL l => depth_log l end.

Definition depth_top (t : top) : nat :=
  match t with TopP p => S (depth_path p) | TopL l => S (depth_log l) end.

Definition depth (n : node) : nat :=
  match n with
  | NPath p => depth_path p
  | NOp o => depth_op o
  | NFunc f => depth_func f
  | NLog l => depth_log l
  | NTop t => depth_top t
  end.

Lemma depth_path_eq a b c d ops us : depth_path (Path a b c d ops us) = S (maxl depth_op ops).
Proof. reflexivity. Qed.
Lemma depth_op_ident n q us : depth_op (PIdent n q us) = 1%nat.
Proof. reflexivity. Qed.
Lemma depth_op_filter l us : depth_op (PFilter l us) = S (depth_log l).
Proof. reflexivity. Qed.
Lemma depth_op_func f : depth_op (PFunc f) = S (depth_func f).
Proof. reflexivity. Qed.
Lemma depth_func_eq a ft ps us : depth_func (Func a ft ps us) = S (maxl depth_param ps).
Proof. reflexivity. Qed.
Lemma depth_log_eq a b t xs us : depth_log (LogOp a b t xs us) = S (maxl depth_operand xs).
Proof. reflexivity. Qed.
Lemma depth_param_path q : depth_param (FPPath q) = depth_path q.
Proof. reflexivity. Qed.
Lemma depth_param_log l : depth_param (FPLog l) = depth_log l.
Proof. reflexivity. Qed.
Lemma depth_operand_path p : depth_operand (OpP p) = depth_path p.
Proof. reflexivity. Qed.
Lemma depth_operand_log l : depth_operand (OpL l) = depth_log l.
Proof. reflexivity. Qed.

Lemma depth_pos n : (1 <= depth n)%nat.
Proof.
  destruct n as [p|o|f|l|t]; cbn [depth].
  - destruct p. rewrite depth_path_eq. lia.
  - destruct o; [rewrite depth_op_ident | rewrite depth_op_filter | rewrite depth_op_func]; lia.
  - destruct f. rewrite depth_func_eq. lia.
  - destruct l. rewrite depth_log_eq. lia.
  - destruct t; cbn [depth_top]; lia.
Qed.

(** no function of the tree (arguments, filters and groups included) is Select *)
Definition is_select (ft : str) : bool := str_eqb ft (bs "Select").

Fixpoint ns_path (p : path) : bool :=
  match p with Path _ _ _ _ ops _ => forallb ns_op ops end
with ns_op (o : pathop) : bool :=
  match o with PIdent _ _ _ => true | PFilter l _ => ns_log l | PFunc f => ns_func f end
with ns_func (f : func) : bool :=
  match f with Func _ ft ps _ => negb (is_select ft) && forallb ns_param ps end
with ns_param (p : param) : bool :=
  match p with FPPath q => ns_path q | FPLog l => ns_log l | _ => true end
with ns_log (l : logop) : bool :=
  match l with LogOp _ _ _ xs _ => forallb ns_operand xs end
with ns_operand (x : operand) : bool :=
  match x with OpP p => ns_path p | OpL l => ns_log l end.

Definition no_select (n : node) : bool :=
  match n with
  | NPath p => ns_path p
  | NOp o => ns_op o
  | NFunc f => ns_func f
  | NLog l => ns_log l
  | NTop (TopP p) => ns_path p
  | NTop (TopL l) => ns_log l
  end.

Lemma ns_path_eq a b c d ops us : ns_path (Path a b c d ops us) = forallb ns_op ops.
Proof. reflexivity. Qed.
Lemma ns_func_eq a ft ps us :
  ns_func (Func a ft ps us) = negb (is_select ft) && forallb ns_param ps.
Proof. reflexivity. Qed.
Lemma ns_log_eq a b t xs us : ns_log (LogOp a b t xs us) = forallb ns_operand xs.
Proof. reflexivity. Qed.

(** ** The table lookup returns the descriptor whose key was asked for *)
Lemma str_eqb_true a : forall b, str_eqb a b = true -> a = b.
Proof.
  induction a as [|x a IH]; intros [|y b] H; cbn [str_eqb] in H; try discriminate H; [reflexivity|].
  apply andb_prop in H. destruct H as [H1 H2].
  apply Ascii.eqb_eq in H1. apply IH in H2. subst. reflexivity.
Qed.

Lemma str_eqb_same a : str_eqb a a = true.
Proof. induction a as [|x a IH]; cbn [str_eqb]; [reflexivity|]. rewrite Ascii.eqb_refl. exact IH. Qed.

Lemma find_fdesc_key_key ft : forall tbl d,
  find_fdesc_key ft tbl = Some d -> bs (fd_key d) = ft.
Proof.
  induction tbl as [|d0 tbl IH]; intros d H; cbn [find_fdesc_key] in H; [discriminate H|].
  destruct (str_eqb (bs (fd_key d0)) ft) eqn:E.
  - injection H as <-. apply str_eqb_true. exact E.
  - apply IH. exact H.
Qed.

(** a function whose name is not "Select" never takes the Select branch *)
Lemma not_select_branch ft tbl d :
  find_fdesc_key ft tbl = Some d -> is_select ft = false ->
  String.eqb (fd_key d) "Select" = false.
Proof.
  intros Hf Hn. destruct (String.eqb (fd_key d) "Select") eqn:E; [|reflexivity].
  apply String.eqb_eq in E. apply find_fdesc_key_key in Hf. rewrite E in Hf.
  subst ft. unfold is_select in Hn. rewrite str_eqb_same in Hn. discriminate Hn.
Qed.

Section NoSelect.
Variable uni : uclass.
Variable eng : engines.

Lemma eval_nf_no_select : forall fuel n cur orig,
  no_select n = true -> (depth n <= fuel)%nat -> nf (eval uni eng fuel n cur orig).
Proof.
  induction fuel as [|k IH]; intros n cur orig Hns Hd.
  - pose proof (depth_pos n). lia.
  - cbn [eval]. destruct n as [p|o|f|l|t]; cbn [no_select depth] in Hns, Hd.
    + destruct p as [inv root isf me ops us].
      rewrite ns_path_eq in Hns. rewrite depth_path_eq in Hd.
      rewrite forallb_forall in Hns.
      destruct (root && isf); [exact I|].
      apply path_ops_nf. intros o d Hin. apply IH.
      * exact (Hns o Hin).
      * pose proof (maxl_le depth_op ops o Hin). cbn [depth]. lia.
    + destruct o as [name q us|l us|f].
      * apply do_ident_nf.
      * change (ns_log l = true) in Hns. rewrite depth_op_filter in Hd.
        assert (Hl : forall x, nf (eval uni eng k (NLog l) x orig)).
        { intros x. apply IH; [exact Hns | cbn [depth]; lia]. }
        destruct (get_as_struct_or_slice cur) as [[val [|]]|]; [ | |exact I].
        -- apply nf_bind; [apply Hl|]. intros res _. nf_crush.
        -- destruct val; try exact I.
           apply nf_bind; [|intros ys _; exact I].
           apply filter_elems_nf. exact Hl.
      * change (ns_func f = true) in Hns. rewrite depth_op_func in Hd.
        apply IH; [exact Hns | cbn [depth]; lia].
    + destruct f as [inv ft ps us].
      rewrite ns_func_eq in Hns. rewrite depth_func_eq in Hd.
      apply andb_prop in Hns. destruct Hns as [Hsel Hps]. apply negb_true_iff in Hsel.
      rewrite forallb_forall in Hps.
      apply nf_bind.
      { apply eval_params_nf. intros p m Hin Hm.
        pose proof (maxl_le depth_param ps p Hin) as Hle. specialize (Hps p Hin).
        destruct p as [d|s|b|q|l]; cbn [param_node] in Hm; try discriminate Hm;
          injection Hm as <-.
        - rewrite depth_param_path in Hle. apply IH; [exact Hps | cbn [depth]; lia].
        - rewrite depth_param_log in Hle. apply IH; [exact Hps | cbn [depth]; lia]. }
      intros rt _. cbv zeta.
      destruct (find_fdesc_key ft func_table) as [d|] eqn:Ef; [|exact I].
      rewrite (not_select_branch ft func_table d Ef Hsel).
      apply run_func_nf.
    + destruct l as [inv isf t xs us].
      rewrite ns_log_eq in Hns. rewrite depth_log_eq in Hd.
      rewrite forallb_forall in Hns.
      apply log_ops_nf. intros x Hin.
      pose proof (maxl_le depth_operand xs x Hin) as Hle. specialize (Hns x Hin).
      destruct x as [p|l].
      * rewrite depth_operand_path in Hle. apply IH; [exact Hns | cbn [depth]; lia].
      * rewrite depth_operand_log in Hle. apply IH; [exact Hns | cbn [depth]; lia].
    + destruct t as [p|l]; cbn [depth_top] in Hd; (apply IH; [exact Hns | cbn [depth]; lia]).
Qed.

End NoSelect.

Theorem eval_fuel_sufficient_no_select : forall uni eng n cur orig fuel,
  no_select n = true -> (depth n <= fuel)%nat -> eval uni eng fuel n cur orig <> OutOfFuel.
Proof.
  intros uni eng n cur orig fuel Hns Hd. apply nf_neq. apply eval_nf_no_select; assumption.
Qed.

(** * 3. A Select whose sub-query comes from the data can reproduce itself *)

(** one Select step, with everything that does not depend on the fuel supplied
    as a hypothesis *)
Lemma eval_select_step uni eng k inv ft ps us cur orig rt d q t ty nl xs :
  eval_params (fun m => eval uni eng k m cur orig) ps = Ok rt ->
  find_fdesc_key ft func_table = Some d ->
  String.eqb (fd_key d) "Select" = true ->
  params_first_string rt = Ok q ->
  parse_string uni q = Ok t ->
  rv_v (deref1 (value_of (convert_number cur))) = VSlice ty nl xs ->
  eval uni eng (S k) (NFunc (Func inv ft ps us)) cur orig
  = (do rs <- select_elems (fun x => eval uni eng k (NTop t) x x) xs;
     Ok (VSlice EAny (match rs with [] => true | _ => false end) rs)).
Proof.
  intros Hp Hf Hs Hq Ht Hv. cbn [eval]. rewrite Hp. cbn [bind]. cbv zeta.
  rewrite Hf, Hs, Hq. cbn [bind]. rewrite Ht, Hv. reflexivity.
Qed.

Definition self_q : str := bs "$.AsArray().Select($.q)".
Definition self_doc : gv := VMap KtStr EAny false [(VStr false (bs "q"), VStr false self_q)].

(** the pieces of the parse of [self_q] *)
Definition self_arg : path :=
  Path false true false false [PIdent (bs "q") false (bs "q")] (bs "$.q").
Definition self_f1 : func := Func false (bs "AsArray") [] (bs "AsArray()").
Definition self_f2 : func := Func false (bs "Select") [FPPath self_arg] (bs "Select($.q)").
Definition self_path : path :=
  Path false true false false [PFunc self_f1; PFunc self_f2] self_q.
Definition self_top : top := TopP self_path.

Lemma self_parse : parse_string uni_ascii self_q = Ok self_top.
Proof. vm_compute. reflexivity. Qed.

(** AsArray wraps the document in a one-element array *)
Definition self_arr : gv := VSlice EAny false [self_doc].

Lemma self_as_array k :
  eval uni_ascii no_engines k (NOp (PFunc self_f1)) self_doc self_doc = OutOfFuel \/
  eval uni_ascii no_engines k (NOp (PFunc self_f1)) self_doc self_doc = Ok self_arr.
Proof. destruct k as [|[|k]]; [left; reflexivity | left; reflexivity | right; vm_compute; reflexivity]. Qed.

(** the argument $.q evaluates to the text of the query itself *)
Lemma self_arg_value k cur :
  eval uni_ascii no_engines k (NPath self_arg) cur self_doc = OutOfFuel \/
  eval uni_ascii no_engines k (NPath self_arg) cur self_doc = Ok (VStr false self_q).
Proof. destruct k as [|[|k]]; [left; reflexivity | left; reflexivity | right; vm_compute; reflexivity]. Qed.

(** every level of the evaluation is out of fuel, by one induction on the fuel:
    the element Select iterates over is the document, and the query it parses
    is the query being evaluated *)
Lemma self_all_levels : forall fuel,
  eval uni_ascii no_engines fuel (NTop self_top) self_doc self_doc = OutOfFuel /\
  eval uni_ascii no_engines fuel (NPath self_path) self_doc self_doc = OutOfFuel /\
  eval uni_ascii no_engines fuel (NOp (PFunc self_f2)) self_arr self_doc = OutOfFuel /\
  eval uni_ascii no_engines fuel (NFunc self_f2) self_arr self_doc = OutOfFuel.
Proof.
  induction fuel as [|k (IHtop & IHpath & IHop & IHfunc)].
  - repeat split; reflexivity.
  - split; [|split; [|split]].
    + (* NTop: descend into the path *)
      exact IHpath.
    + (* NPath: AsArray, then Select *)
      change (path_ops (fun o d => eval uni_ascii no_engines k (NOp o) d self_doc) None false
                       [PFunc self_f1; PFunc self_f2] self_doc None = OutOfFuel).
      cbn [path_ops].
      destruct (self_as_array k) as [E|E]; rewrite E; [reflexivity|].
      cbn [orb is_nil self_arr andb negb pathop_is_func pathop_qmark path_ops].
      rewrite IHop. reflexivity.
    + (* NOp (PFunc Select): descend into the function *)
      exact IHfunc.
    + (* NFunc Select: evaluate $.q, parse it, run it on the element *)
      destruct (self_arg_value k self_arr) as [E|E].
      * cbn [eval self_f2 eval_params]. rewrite E. reflexivity.
      * unfold self_f2.
        rewrite (eval_select_step uni_ascii no_engines k false (bs "Select") [FPPath self_arg]
                   (bs "Select($.q)") self_arr self_doc [RStr self_q]
                   (mkFdesc "Select" "Select" (PT_Any, IO_Array) (PT_Any, IO_Array) [(PT_String, IO_Single)] false)
                   self_q self_top EAny false [self_doc]).
        -- cbn [select_elems]. rewrite IHtop. reflexivity.
        -- cbn [eval_params]. rewrite E. reflexivity.
        -- vm_compute. reflexivity.
        -- reflexivity.
        -- reflexivity.
        -- exact self_parse.
        -- vm_compute. reflexivity.
Qed.

Theorem select_self_reference_diverges :
  let q := bs "$.AsArray().Select($.q)" in
  exists t, parse_string uni_ascii q = Ok t /\
    forall fuel,
      eval uni_ascii no_engines fuel (NTop t)
           (VMap KtStr EAny false [(VStr false (bs "q"), VStr false q)])
           (VMap KtStr EAny false [(VStr false (bs "q"), VStr false q)]) = OutOfFuel.
Proof.
  cbv zeta. exists self_top. split; [exact self_parse|].
  intros fuel. exact (proj1 (self_all_levels fuel)).
Qed.

(** the same through the entry point: [do_top] gives up after [default_fuel] *)
Corollary select_self_reference_do_top :
  do_top uni_ascii no_engines self_top self_doc = OutOfFuel.
Proof. unfold do_top. exact (proj1 (self_all_levels default_fuel)). Qed.

(** the model run on the finding, with a small fuel *)
Example select_self_reference_fuel_50 :
  match parse_string uni_ascii self_q with
  | Ok t => eval uni_ascii no_engines 50 (NTop t) self_doc self_doc = OutOfFuel
  | _ => False
  end.
Proof. vm_compute. reflexivity. Qed.

(** * 2. Select with a literal sub-query *)

Definition omax (a b : option nat) : option nat :=
  match a, b with Some x, Some y => Some (Nat.max x y) | _, _ => None end.

Definition omaxl {A} (f : A -> option nat) : list A -> option nat :=
  fix go (l : list A) : option nat :=
    match l with [] => Some O | x :: r => omax (f x) (go r) end.

Lemma omaxl_in {A} (f : A -> option nat) : forall l m x,
  omaxl f l = Some m -> In x l -> exists k, f x = Some k /\ (k <= m)%nat.
Proof.
  induction l as [|y l IH]; intros m x H Hin; cbn [In omaxl] in *; [tauto|].
  destruct (f y) as [ky|] eqn:Ey; [|discriminate H].
  destruct (omaxl f l) as [kl|] eqn:El; [|discriminate H].
  cbn [omax] in H. injection H as <-.
  destruct Hin as [->|Hin].
  - exists ky. split; [exact Ey|lia].
  - destruct (IH kl x eq_refl Hin) as [k [Hk Hle]]. exists k. split; [exact Hk|lia].
Qed.

Lemma option_map_S (o : option nat) (k : nat) :
  option_map S o = Some k -> exists k', o = Some k' /\ k = S k'.
Proof. destruct o as [k'|]; cbn [option_map]; intros H; [injection H as <-; eauto|discriminate H]. Qed.

(** parameters that are literals reach the function as they are written *)
Definition lit_param (p : param) : option rparam :=
  match p with
  | FPNum d => Some (RNum d)
  | FPStr s => Some (RStr s)
  | FPBool b => Some (RBool b)
  | FPPath _ | FPLog _ => None
  end.
Definition lit_params (ps : list param) : option (list rparam) := all_some (map lit_param ps).

Lemma eval_params_lit (ev : node -> outcome gv) : forall ps rt,
  lit_params ps = Some rt -> eval_params ev ps = Ok rt.
Proof.
  unfold lit_params.
  induction ps as [|p rest IH]; intros rt H; cbn [map all_some] in H.
  - injection H as <-. reflexivity.
  - destruct (lit_param p) as [r|] eqn:Ep; [|discriminate H].
    destruct (all_some (map lit_param rest)) as [rs|] eqn:Er; [|discriminate H].
    cbn [option_map] in H. injection H as <-.
    rewrite eval_params_unfold. rewrite (IH rs eq_refl).
    destruct p as [d|s|b|q|l]; cbn [lit_param] in Ep; try discriminate Ep;
      injection Ep as <-; reflexivity.
Qed.

Section Static.
Variable uni : uclass.

(** [static_fuel g n]: a fuel that suffices for [n] on every input, when every
    Select of [n] has literal parameters and the query they spell is, again,
    analysable.  [g] bounds the analysis itself (one unit per node visited and
    per literal parsed), exactly as the fuel of [eval] bounds the evaluation;
    [None] = not analysable within [g]. *)
Fixpoint static_fuel (g : nat) (n : node) : option nat :=
  match g with
  | O => None
  | S g' =>
    match n with
    | NTop (TopP p) => option_map S (static_fuel g' (NPath p))
    | NTop (TopL l) => option_map S (static_fuel g' (NLog l))
    | NPath (Path _ _ _ _ ops _) => option_map S (omaxl (fun o => static_fuel g' (NOp o)) ops)
    | NOp (PIdent _ _ _) => Some 1%nat
    | NOp (PFilter l _) => option_map S (static_fuel g' (NLog l))
    | NOp (PFunc f) => option_map S (static_fuel g' (NFunc f))
    | NLog (LogOp _ _ _ xs _) =>
      option_map S (omaxl (fun x => match x with
                                    | OpP p => static_fuel g' (NPath p)
                                    | OpL l => static_fuel g' (NLog l)
                                    end) xs)
    | NFunc (Func _ ft ps _) =>
      if is_select ft then
        match lit_params ps with
        | None => None                       (* the sub-query is computed: not static *)
        | Some rt =>
          match params_first_string rt with
          | Ok q =>
            match parse_string uni q with
            | Ok t => option_map S (static_fuel g' (NTop t))   (* one unit for the re-parse *)
            | _ => Some 1%nat                (* the literal does not parse: an error at run time *)
            end
          | _ => Some 1%nat                  (* wrong count or kind: an error at run time *)
          end
        end
      else
        option_map S (omaxl (fun p => match p with
                                      | FPPath q => static_fuel g' (NPath q)
                                      | FPLog l => static_fuel g' (NLog l)
                                      | _ => Some O
                                      end) ps)
    end
  end.

(** [k] is the bound the analysis finds for [n] *)
Definition static_select (n : node) (k : nat) : Prop := exists g, static_fuel g n = Some k.

Lemma static_fuel_pos g n k : static_fuel g n = Some k -> (1 <= k)%nat.
Proof.
  destruct g as [|g]; [discriminate|]. cbn [static_fuel].
  assert (HS : forall o, option_map S o = Some k -> (1 <= k)%nat).
  { intros o H. apply option_map_S in H. destruct H as [k' [_ ->]]. lia. }
  assert (H1 : Some 1%nat = Some k -> (1 <= k)%nat) by (intros H; injection H as <-; lia).
  destruct n as [p|o|f|l|t].
  - destruct p. apply HS.
  - destruct o; [exact H1 | apply HS | apply HS].
  - destruct f as [inv ft ps us]. destruct (is_select ft); [|apply HS].
    destruct (lit_params ps) as [rt|]; [|discriminate].
    destruct (params_first_string rt) as [q|e|msg| |w]; try exact H1.
    destruct (parse_string uni q) as [t|e|msg| |w]; try exact H1. apply HS.
  - destruct l. apply HS.
  - destruct t; apply HS.
Qed.

Variable eng : engines.

Lemma eval_nf_static : forall fuel g n k cur orig,
  static_fuel g n = Some k -> (k <= fuel)%nat -> nf (eval uni eng fuel n cur orig).
Proof.
  induction fuel as [|f IH]; intros g n k cur orig Hs Hk.
  - pose proof (static_fuel_pos g n k Hs). lia.
  - destruct g as [|g]; [discriminate Hs|].
    cbn [static_fuel] in Hs. cbn [eval].
    destruct n as [p|o|fn|l|t].
    + destruct p as [inv root isf me ops us].
      apply option_map_S in Hs. destruct Hs as [m [Hm ->]].
      destruct (root && isf); [exact I|].
      apply path_ops_nf. intros o d Hin.
      destruct (omaxl_in _ ops m o Hm Hin) as [ko [Hko Hle]].
      apply (IH g (NOp o) ko); [exact Hko|lia].
    + destruct o as [name q us|l us|fn].
      * apply do_ident_nf.
      * apply option_map_S in Hs. destruct Hs as [m [Hm ->]].
        assert (Hl : forall x, nf (eval uni eng f (NLog l) x orig)).
        { intros x. apply (IH g (NLog l) m); [exact Hm|lia]. }
        destruct (get_as_struct_or_slice cur) as [[val [|]]|]; [ | |exact I].
        -- apply nf_bind; [apply Hl|]. intros res _. nf_crush.
        -- destruct val; try exact I.
           apply nf_bind; [|intros ys _; exact I].
           apply filter_elems_nf. exact Hl.
      * apply option_map_S in Hs. destruct Hs as [m [Hm ->]].
        apply (IH g (NFunc fn) m); [exact Hm|lia].
    + destruct fn as [inv ft ps us].
      destruct (is_select ft) eqn:Esel.
      * (* Select with literal parameters *)
        destruct (lit_params ps) as [rt|] eqn:Elit; [|discriminate Hs].
        rewrite (eval_params_lit _ ps rt Elit). cbn [bind]. cbv zeta.
        destruct (find_fdesc_key ft func_table) as [d|]; [|exact I].
        destruct (String.eqb (fd_key d) "Select"); [|apply run_func_nf].
        destruct (params_first_string rt) as [q|e|msg| |w] eqn:Eq; cbn [bind]; try exact I.
        { pose proof (parse_string_nf uni q) as Hp.
          destruct (parse_string uni q) as [t|e|msg| |w]; try exact I; [|exact Hp].
          apply option_map_S in Hs. destruct Hs as [m [Hm ->]].
          assert (Ht : forall x, nf (eval uni eng f (NTop t) x x)).
          { intros x. apply (IH g (NTop t) m); [exact Hm|lia]. }
          destruct (rv_v (deref1 (value_of (convert_number cur))))
            as [ |nm b|kk nm z|i32 nm fl|nm s|dd|tg|ty isnil xs|ty xs|kt vt isnil kvs|fs|isnil|isnil];
            try exact I.
          - apply nf_bind; [|intros rs _; exact I]. apply select_elems_nf. exact Ht.
          - apply nf_bind; [|intros rs _; exact I]. apply select_elems_nf. exact Ht.
          - destruct (sorted_values kvs) as [vs|]; [|exact I].
            apply nf_bind; [|intros rs _; exact I]. apply select_elems_nf. exact Ht. }
        { pose proof (params_first_string_nf rt) as Hp. rewrite Eq in Hp. exact Hp. }
      * (* any other function: its arguments, then run_func *)
        apply option_map_S in Hs. destruct Hs as [m [Hm ->]].
        apply nf_bind.
        { apply eval_params_nf. intros p n Hin Hn.
          destruct (omaxl_in _ ps m p Hm Hin) as [kp [Hkp Hle]].
          destruct p as [d|s|b|q|l]; cbn [param_node] in Hn; try discriminate Hn;
            injection Hn as <-.
          - apply (IH g (NPath q) kp); [exact Hkp|lia].
          - apply (IH g (NLog l) kp); [exact Hkp|lia]. }
        intros rt _. cbv zeta.
        destruct (find_fdesc_key ft func_table) as [d|] eqn:Ef; [|exact I].
        rewrite (not_select_branch ft func_table d Ef Esel).
        apply run_func_nf.
    + destruct l as [inv isf t xs us].
      apply option_map_S in Hs. destruct Hs as [m [Hm ->]].
      apply log_ops_nf. intros x Hin.
      destruct (omaxl_in _ xs m x Hm Hin) as [kx [Hkx Hle]].
      destruct x as [p|l].
      * apply (IH g (NPath p) kx); [exact Hkx|lia].
      * apply (IH g (NLog l) kx); [exact Hkx|lia].
    + destruct t as [p|l]; apply option_map_S in Hs; destruct Hs as [m [Hm ->]].
      * apply (IH g (NPath p) m); [exact Hm|lia].
      * apply (IH g (NLog l) m); [exact Hm|lia].
Qed.

End Static.

Theorem eval_fuel_sufficient_static : forall uni eng n k cur orig fuel,
  static_select uni n k -> (k <= fuel)%nat -> eval uni eng fuel n cur orig <> OutOfFuel.
Proof.
  intros uni eng n k cur orig fuel [g Hg] Hk. apply nf_neq. exact (eval_nf_static uni eng fuel g n k cur orig Hg Hk).
Qed.

(** ** The analysis does not depend on its own fuel, and extends part 1 *)
Lemma omaxl_ext {A} (f f' : A -> option nat) : forall l m,
  (forall x k, In x l -> f x = Some k -> f' x = Some k) ->
  omaxl f l = Some m -> omaxl f' l = Some m.
Proof.
  induction l as [|y l IH]; intros m H Hm; cbn [omaxl] in *; [exact Hm|].
  destruct (f y) as [ky|] eqn:Ey; [|discriminate Hm].
  destruct (omaxl f l) as [kl|] eqn:El; [|discriminate Hm].
  rewrite (H y ky (or_introl eq_refl) Ey).
  rewrite (IH kl (fun x k Hin => H x k (or_intror Hin)) eq_refl). exact Hm.
Qed.

Lemma omaxl_maxl {A} (f : A -> option nat) (h : A -> nat) : forall l,
  (forall x, In x l -> f x = Some (h x)) -> omaxl f l = Some (maxl h l).
Proof.
  induction l as [|y l IH]; intros H; cbn [omaxl maxl]; [reflexivity|].
  rewrite (H y (or_introl eq_refl)). rewrite (IH (fun x Hin => H x (or_intror Hin))). reflexivity.
Qed.

Lemma static_fuel_mono uni : forall g n k,
  static_fuel uni g n = Some k -> static_fuel uni (S g) n = Some k.
Proof.
  induction g as [|g IH]; intros n k H; [discriminate H|].
  remember (S g) as g1 eqn:Eg1. cbn [static_fuel]. rewrite Eg1 in H. cbn [static_fuel] in H.
  assert (HS : forall m m', (forall k', static_fuel uni g m = Some k' -> static_fuel uni g1 m' = Some k') ->
             option_map S (static_fuel uni g m) = Some k -> option_map S (static_fuel uni g1 m') = Some k).
  { intros m m' Himp Hm. apply option_map_S in Hm. destruct Hm as [k' [Hk' ->]].
    rewrite (Himp k' Hk'). reflexivity. }
  assert (IH1 : forall m k', static_fuel uni g m = Some k' -> static_fuel uni g1 m = Some k').
  { intros m k' Hm. apply IH. exact Hm. }
  destruct n as [p|o|f|l|t].
  - destruct p as [inv root isf me ops us].
    apply option_map_S in H. destruct H as [m [Hm ->]].
    match goal with |- option_map S (omaxl ?f' ?l) = _ => assert (E : omaxl f' l = Some m) end.
    { eapply omaxl_ext; [|exact Hm]. intros x k' _ Hx. apply IH1. exact Hx. }
    rewrite E. reflexivity.
  - destruct o as [name q us|l us|f]; [exact H| |]; (eapply HS; [|exact H]); apply IH1.
  - destruct f as [inv ft ps us]. destruct (is_select ft).
    + destruct (lit_params ps) as [rt|]; [|discriminate H].
      destruct (params_first_string rt) as [q|e|msg| |w]; try exact H.
      destruct (parse_string uni q) as [t|e|msg| |w]; try exact H.
      eapply HS; [|exact H]. apply IH1.
    + apply option_map_S in H. destruct H as [m [Hm ->]].
      match goal with |- option_map S (omaxl ?f' ?l) = _ => assert (E : omaxl f' l = Some m) end.
      { eapply omaxl_ext; [|exact Hm]. intros x k' _ Hx.
        destruct x as [d|s|b|q|l]; try exact Hx; apply IH1; exact Hx. }
      rewrite E. reflexivity.
  - destruct l as [inv isf t xs us].
    apply option_map_S in H. destruct H as [m [Hm ->]].
    match goal with |- option_map S (omaxl ?f' ?l) = _ => assert (E : omaxl f' l = Some m) end.
    { eapply omaxl_ext; [|exact Hm]. intros x k' _ Hx. destruct x as [p|l]; apply IH1; exact Hx. }
    rewrite E. reflexivity.
  - destruct t as [p|l]; (eapply HS; [|exact H]); apply IH1.
Qed.

Lemma static_fuel_mono_le uni g g' n k :
  (g <= g')%nat -> static_fuel uni g n = Some k -> static_fuel uni g' n = Some k.
Proof. intros Hle; induction Hle; intros H; [exact H|]. apply static_fuel_mono. auto. Qed.

(** the bound is a function of the query *)
Theorem static_select_unique : forall uni n k k',
  static_select uni n k -> static_select uni n k' -> k = k'.
Proof.
  intros uni n k k' [g Hg] [g' Hg'].
  apply (static_fuel_mono_le uni g (Nat.max g g')) in Hg; [|lia].
  apply (static_fuel_mono_le uni g' (Nat.max g g')) in Hg'; [|lia].
  congruence.
Qed.

(** without Select the analysis returns the depth *)
Lemma static_fuel_no_select uni : forall g n,
  no_select n = true -> (depth n <= g)%nat -> static_fuel uni g n = Some (depth n).
Proof.
  induction g as [|g IH]; intros n Hns Hd.
  - pose proof (depth_pos n). lia.
  - cbn [static_fuel]. destruct n as [p|o|f|l|t]; cbn [no_select depth] in Hns, Hd |- *.
    + destruct p as [inv root isf me ops us].
      rewrite ns_path_eq in Hns. rewrite depth_path_eq in Hd |- *.
      rewrite forallb_forall in Hns.
      rewrite (omaxl_maxl _ depth_op ops); [reflexivity|].
      intros o Hin. pose proof (maxl_le depth_op ops o Hin).
      apply (IH (NOp o)); [exact (Hns o Hin) | cbn [depth]; lia].
    + destruct o as [name q us|l us|f].
      * reflexivity.
      * change (ns_log l = true) in Hns. rewrite depth_op_filter in Hd |- *.
        rewrite (IH (NLog l)); [reflexivity | exact Hns | cbn [depth]; lia].
      * change (ns_func f = true) in Hns. rewrite depth_op_func in Hd |- *.
        rewrite (IH (NFunc f)); [reflexivity | exact Hns | cbn [depth]; lia].
    + destruct f as [inv ft ps us].
      rewrite ns_func_eq in Hns. rewrite depth_func_eq in Hd |- *.
      apply andb_prop in Hns. destruct Hns as [Hsel Hps]. apply negb_true_iff in Hsel.
      rewrite forallb_forall in Hps. rewrite Hsel.
      rewrite (omaxl_maxl _ depth_param ps); [reflexivity|].
      intros p Hin. pose proof (maxl_le depth_param ps p Hin) as Hle. specialize (Hps p Hin).
      destruct p as [d|s|b|q|l]; try reflexivity.
      * rewrite depth_param_path in Hle |- *. apply (IH (NPath q)); [exact Hps | cbn [depth]; lia].
      * rewrite depth_param_log in Hle |- *. apply (IH (NLog l)); [exact Hps | cbn [depth]; lia].
    + destruct l as [inv isf t xs us].
      rewrite ns_log_eq in Hns. rewrite depth_log_eq in Hd |- *.
      rewrite forallb_forall in Hns.
      rewrite (omaxl_maxl _ depth_operand xs); [reflexivity|].
      intros x Hin. pose proof (maxl_le depth_operand xs x Hin) as Hle. specialize (Hns x Hin).
      destruct x as [p|l].
      * rewrite depth_operand_path in Hle |- *. apply (IH (NPath p)); [exact Hns | cbn [depth]; lia].
      * rewrite depth_operand_log in Hle |- *. apply (IH (NLog l)); [exact Hns | cbn [depth]; lia].
    + destruct t as [p|l]; cbn [depth_top] in Hd |- *.
      * rewrite (IH (NPath p)); [reflexivity | exact Hns | cbn [depth]; lia].
      * rewrite (IH (NLog l)); [reflexivity | exact Hns | cbn [depth]; lia].
Qed.

Theorem no_select_is_static : forall uni n, no_select n = true -> static_select uni n (depth n).
Proof. intros uni n H. exists (depth n). apply static_fuel_no_select; [exact H|lia]. Qed.

(** ** The analysis on concrete queries *)
Definition static_bound_of (q : string) : option (nat * option nat) :=
  match parse_string uni_ascii (bs q) with
  | Ok t => Some (depth (NTop t), static_fuel uni_ascii 64 (NTop t))
  | _ => None
  end.

(** a literal sub-query: its bound and one unit for the re-parse are added *)
Example static_ex_select :
  static_bound_of "$.rows.Select(""@.v"").Index(2)" = Some (4%nat, Some 7%nat).
Proof. vm_compute. reflexivity. Qed.

(** a literal sub-query that itself contains a Select with a literal sub-query *)
Example static_ex_nested :
  static_bound_of "$.a.Select(""@.b.Select(\""@.c\"")"")" = Some (4%nat, Some 11%nat).
Proof. vm_compute. reflexivity. Qed.

(** the bound holds for the evaluation, on every input *)
Example static_ex_terminates : forall eng cur orig,
  match parse_string uni_ascii (bs "$.a.Select(""@.b.Select(\""@.c\"")"")") with
  | Ok t => eval uni_ascii eng 11 (NTop t) cur orig <> OutOfFuel
  | _ => False
  end.
Proof.
  intros eng cur orig.
  destruct (parse_string uni_ascii (bs "$.a.Select(""@.b.Select(\""@.c\"")"")")) as [t|e|msg| |w] eqn:E;
    try (vm_compute in E; discriminate E).
  apply (eval_fuel_sufficient_static uni_ascii eng (NTop t) 11); [|lia].
  exists 64%nat. vm_compute in E. injection E as <-. vm_compute. reflexivity.
Qed.

(** the finding is outside the static fragment: its Select takes a path *)
Theorem self_reference_not_static : forall k, ~ static_select uni_ascii (NTop self_top) k.
Proof.
  intros k Hs.
  apply (eval_fuel_sufficient_static uni_ascii no_engines (NTop self_top) k self_doc self_doc k Hs (le_n k)).
  exact (proj1 (self_all_levels k)).
Qed.

(** * 4. Parsed queries and the default fuel *)
Corollary do_top_terminates_no_select : forall uni eng s t data,
  parse_string uni s = Ok t -> no_select (NTop t) = true ->
  (depth (NTop t) <= default_fuel)%nat ->
  do_top uni eng t data <> OutOfFuel.
Proof.
  intros uni eng s t data _ Hns Hd. unfold do_top.
  apply eval_fuel_sufficient_no_select; assumption.
Qed.

Corollary do_top_terminates_static : forall uni eng s t k data,
  parse_string uni s = Ok t -> static_select uni (NTop t) k ->
  (k <= default_fuel)%nat ->
  do_top uni eng t data <> OutOfFuel.
Proof.
  intros uni eng s t k data _ Hs Hk. unfold do_top.
  apply (eval_fuel_sufficient_static uni eng (NTop t) k); assumption.
Qed.

(** ** The depth of a parsed query is bounded by the parser's fuel
    The parser spends one unit of its own fuel per call and per loop iteration,
    so a tree it builds with fuel [k] is at most [k] deep. *)
Lemma depth_param_num d : depth_param (FPNum d) = O.
Proof. reflexivity. Qed.
Lemma depth_param_str s : depth_param (FPStr s) = O.
Proof. reflexivity. Qed.
Lemma depth_param_bool b : depth_param (FPBool b) = O.
Proof. reflexivity. Qed.

Definition bnd {A} (dp : A -> nat) (o : pres A) (b : nat) : Prop :=
  match o with Ok (_, _, a) => (dp a <= b)%nat | _ => True end.

Lemma bnd_bind {A B} (dpA : A -> nat) (dpB : B -> nat) (o : pres A)
      (f : cursor * list token * A -> pres B) (b1 b2 : nat) :
  bnd dpA o b1 ->
  (forall c r a, (dpA a <= b1)%nat -> bnd dpB (f (c, r, a)) b2) ->
  bnd dpB (bind o f) b2.
Proof.
  intros Ho Hf. destruct o as [[[c r] a]|e|m| |w]; cbn [bind bnd] in *; try exact I.
  apply Hf. exact Ho.
Qed.

Definition depth_at (k : nat) : Prop :=
  (forall isf me cur rest, bnd depth_path (parse_path k isf me cur rest) k) /\
  (forall root isf me ops us cur rest b, (maxl depth_op ops <= b)%nat -> (k <= b)%nat ->
     bnd depth_path (path_loop k root isf me ops us cur rest) (S b)) /\
  (forall cur rest, bnd depth_func (parse_func k cur rest) k) /\
  (forall inv ft ps us cur rest b, (maxl depth_param ps <= b)%nat -> (k <= b)%nat ->
     bnd depth_func (func_loop k inv ft ps us cur rest) (S b)) /\
  (forall isf cur rest, bnd depth_log (parse_log k isf cur rest) k) /\
  (forall inv isf ty xs us cur rest b, (maxl depth_operand xs <= b)%nat -> (k <= b)%nat ->
     bnd depth_log (log_loop k inv isf ty xs us cur rest) (S b)).

Ltac d_side :=
  rewrite ?maxl_snoc, ?depth_path_eq, ?depth_func_eq, ?depth_log_eq,
          ?depth_op_ident, ?depth_op_filter, ?depth_op_func,
          ?depth_param_path, ?depth_param_log, ?depth_param_num, ?depth_param_str, ?depth_param_bool,
          ?depth_operand_path, ?depth_operand_log;
  cbn [maxl]; lia.

Ltac dp_step IH1 IH2 IH3 IH4 IH5 IH6 :=
  first
  [ exact I
  | match goal with |- bnd _ (Ok _) _ => cbn [bnd]; d_side end
  | match goal with |- bnd _ perr _ => exact I end
  | first [ apply IH2 | apply IH4 | apply IH6 ]; [ d_side | lia ]
  | match goal with |- bnd _ (bind _ _) _ =>
      eapply bnd_bind; [ first [ apply IH1 | apply IH3 | apply IH5 ] | intros ? ? ? ?; cbv beta iota ]
    end
  | match goal with |- bnd _ (match ?x with _ => _ end) _ => destruct x end ].

Lemma parse_depth_at : forall k, depth_at k.
Proof.
  induction k as [|k IH].
  - repeat split; intros; exact I.
  - destruct IH as (IH1 & IH2 & IH3 & IH4 & IH5 & IH6).
    repeat split; intros.
    + cbn [parse_path]. repeat dp_step IH1 IH2 IH3 IH4 IH5 IH6.
    + cbn [path_loop]. repeat dp_step IH1 IH2 IH3 IH4 IH5 IH6.
    + cbn [parse_func]. repeat dp_step IH1 IH2 IH3 IH4 IH5 IH6.
    + cbn [func_loop]. repeat dp_step IH1 IH2 IH3 IH4 IH5 IH6.
    + cbn [parse_log]. repeat dp_step IH1 IH2 IH3 IH4 IH5 IH6.
    + cbn [log_loop]. repeat dp_step IH1 IH2 IH3 IH4 IH5 IH6.
Qed.

Lemma top_loop_some_result k t0 cur rest t : top_loop k (Some t0) cur rest = Ok t -> t = t0.
Proof.
  destruct k as [|k]; [discriminate|]. cbn [top_loop].
  destruct cur as [tok| |]; try (intros H; injection H as <-; reflexivity).
  destruct (is_ch tok 123); [discriminate|].
  destruct (is_ch tok 64 || is_ch tok 36); discriminate.
Qed.

Lemma top_loop_depth k cur rest t :
  top_loop k None cur rest = Ok t -> (depth (NTop t) <= k)%nat.
Proof.
  destruct k as [|k]; [discriminate|]. cbn [top_loop].
  destruct (parse_depth_at k) as (P1 & _ & _ & _ & P5 & _).
  destruct cur as [tok| |]; try discriminate.
  destruct (is_ch tok 123).
  - pose proof (P5 false (CTok tok) rest) as B.
    destruct (parse_log k false (CTok tok) rest) as [[[c r] l]|e|m| |w]; cbn [bind bnd] in *;
      try discriminate.
    intros H. apply top_loop_some_result in H. subst t. cbn [depth depth_top]. lia.
  - destruct (is_ch tok 64 || is_ch tok 36); [|discriminate].
    pose proof (P1 false false (CTok tok) rest) as B.
    destruct (parse_path k false false (CTok tok) rest) as [[[c r] p]|e|m| |w]; cbn [bind bnd] in *;
      try discriminate.
    intros H. apply top_loop_some_result in H. subst t. cbn [depth depth_top]. lia.
Qed.

Theorem parse_tokens_depth : forall toks t,
  parse_tokens toks = Ok t -> (depth (NTop t) <= parse_fuel toks)%nat.
Proof.
  intros toks t. unfold parse_tokens. destruct (scan toks) as [c r]. apply top_loop_depth.
Qed.

(** ** The lexer yields at most one token per byte *)
Lemma chars_fuel_len : forall k (s : str) cs, chars_fuel k s = Some cs -> (length cs <= length s)%nat.
Proof.
  induction k as [|k IH]; intros s cs H; cbn [chars_fuel] in H.
  - injection H as <-. cbn [length]. lia.
  - destruct s as [|b s']; [injection H as <-; cbn [length]; lia|].
    pose proof (decode_rune_width (b :: s') ltac:(discriminate)) as Hw.
    destruct (decode_rune (b :: s')) as [r w]. cbn [snd] in Hw.
    destruct ((r =? rune_error) && (w =? 1)%nat); [discriminate H|].
    destruct (r =? 0); [discriminate H|].
    destruct (chars_fuel k (skipn w (b :: s'))) as [cs'|] eqn:E; [|discriminate H].
    injection H as <-. apply IH in E. rewrite skipn_length in E. cbn [length] in *. lia.
Qed.

Lemma chars_len (s : str) cs : chars s = Some cs -> (length cs <= length s)%nat.
Proof.
  unfold chars. intros H.
  destruct (chars_fuel (S (length s)) s) as [[|[r b] cs0]|] eqn:E; [| |discriminate H].
  - injection H as <-. cbn [length]. lia.
  - apply chars_fuel_len in E. cbn [length] in E.
    destruct (r =? bom); injection H as <-; cbn [length]; lia.
Qed.

Lemma tokens_fuel_len uni : forall k cs toks,
  tokens_fuel uni k cs = Some toks -> (length toks <= length cs)%nat.
Proof.
  assert (OM : forall (x : token) o toks, option_map (cons x) o = Some toks ->
                 exists ts, o = Some ts /\ toks = x :: ts).
  { intros x [ts|] toks H; cbn [option_map] in H; [injection H as <-; eauto|discriminate H]. }
  induction k as [|k IH]; intros cs toks H; [discriminate H|].
  destruct cs as [|[c b] cs']; [injection H as <-; cbn [length]; lia|].
  cbn [tokens_fuel] in H. cbn [length].
  destruct (is_ws c); [apply IH in H; lia|].
  destruct (is_ident_rune uni c) eqn:Ei.
  { cbn [span_ident] in H. rewrite Ei in H.
    destruct (span_ident uni cs') as [t r] eqn:Es. apply span_ident_len in Es.
    apply OM in H. destruct H as [ts [Hts ->]]. apply IH in Hts. cbn [length]. lia. }
  destruct (c =? 34).
  { destruct (scan_string (S (length cs')) 34 cs' b 0) as [[[t n] r]|] eqn:Ess; [|discriminate H].
    apply scan_string_len in Ess.
    apply OM in H. destruct H as [ts [Hts ->]]. apply IH in Hts. cbn [length]. lia. }
  destruct (c =? 39).
  { destruct (scan_string (S (length cs')) 39 cs' b 0) as [[[t n] r]|] eqn:Ess; [|discriminate H].
    apply scan_string_len in Ess. destruct (n =? 1)%nat; [|discriminate H].
    apply OM in H. destruct H as [ts [Hts ->]]. apply IH in Hts. cbn [length]. lia. }
  destruct ((c =? 47) && (peek cs' =? 47)).
  { pose proof (skip_line_len (tl cs')) as Hl. pose proof (tl_len cs') as Ht. apply IH in H. lia. }
  destruct ((c =? 47) && (peek cs' =? 42)).
  { destruct (skip_block (tl cs')) as [r|] eqn:Eb; [|discriminate H].
    apply skip_block_len in Eb. pose proof (tl_len cs') as Ht. apply IH in H. lia. }
  apply OM in H. destruct H as [ts [Hts ->]]. apply IH in Hts. cbn [length]. lia.
Qed.

Lemma filter_len {A} (p : A -> bool) (l : list A) : (length (filter p l) <= length l)%nat.
Proof. induction l as [|x l IH]; cbn [filter length]; [lia|]. destruct (p x); cbn [length]; lia. Qed.

Lemma lex_len uni (s : str) toks : lex uni s = Some toks -> (length toks <= length s)%nat.
Proof.
  unfold lex. intros H.
  destruct (chars s) as [cs|] eqn:Ec; [|discriminate H]. apply chars_len in Ec.
  destruct (tokens_fuel uni (S (length cs)) cs) as [ts|] eqn:Et; [|discriminate H].
  apply tokens_fuel_len in Et. cbn [option_map] in H. injection H as <-.
  pose proof (filter_len (visible uni) ts). lia.
Qed.

(** the depth of a parsed query is linear in the length of its text *)
Theorem parse_string_depth : forall uni (s : str) t,
  parse_string uni s = Ok t -> (depth (NTop t) <= 3 * length s + 8)%nat.
Proof.
  intros uni s t. unfold parse_string.
  destruct (lex uni s) as [toks|] eqn:El; [|discriminate].
  intros H. apply parse_tokens_depth in H. apply lex_len in El. unfold parse_fuel in H. lia.
Qed.

(** [default_fuel] is enough for every Select-free query of at most 1362 bytes *)
Corollary do_top_terminates_short_no_select : forall uni eng (s : str) t data,
  parse_string uni s = Ok t -> no_select (NTop t) = true -> (length s <= 1362)%nat ->
  do_top uni eng t data <> OutOfFuel.
Proof.
  intros uni eng s t data Hp Hns Hl.
  apply (do_top_terminates_no_select uni eng s t data Hp Hns).
  apply parse_string_depth in Hp. unfold default_fuel. lia.
Qed.

Print Assumptions eval_fuel_sufficient_no_select.
Print Assumptions eval_fuel_sufficient_static.
Print Assumptions select_self_reference_diverges.
Print Assumptions select_self_reference_fuel_50.
Print Assumptions self_reference_not_static.
Print Assumptions static_select_unique.
Print Assumptions no_select_is_static.
Print Assumptions do_top_terminates_no_select.
Print Assumptions do_top_terminates_static.
Print Assumptions parse_string_depth.
Print Assumptions do_top_terminates_short_no_select.
Print Assumptions run_func_never_out_of_fuel.
