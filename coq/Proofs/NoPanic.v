(* Proofs/NoPanic.v — evaluation is total: an error or a result, never a panic.

   The model's [Panic] outcome is produced by exactly the primitive operations
   that panic in Go.  This file shows every one of them unreachable, for the
   parser unconditionally and for the evaluator up to one side condition that
   cannot be removed (see [unguarded_statement_is_false] below): Index, Left,
   Right, TrimLeft and TrimRight go through Decimal.IntPart, which wraps modulo
   2^64, so they misbehave on a receiver of 2^63 or more elements/bytes.  No Go
   value is that long (len is an int), but a Coq list can be, and the
   evaluator can build long values from short ones (ReplaceAll, Select, the
   decoder oracles), so the condition is stated on the *actual receiver of each
   such call*: [recv_ok] for [run_func], and the computable [guard], which
   follows the evaluation and checks [recv_ok] at every call it performs, for
   [eval]. *)
From Mpath.Model Require Import Base Dec Types GoVal Ast Lexer Parser Funcs Eval.
From Mpath.Generated Require Import FuncTable.
From Mpath.Proofs Require Import EvalMono C03.

(** * "not a panic", as a proposition that computes *)
Definition np {A} (o : outcome A) : Prop :=
  match o with Panic _ => False | _ => True end.

Lemma np_neq {A} (o : outcome A) (m : string) : np o -> o <> Panic m.
Proof. intros H E. rewrite E in H. exact H. Qed.

Lemma neq_np {A} (o : outcome A) : (forall m, o <> Panic m) -> np o.
Proof.
  intros H. destruct o as [a|e|msg| |w]; try exact I.
  exact (H msg eq_refl).
Qed.

Lemma np_bind {A B} (o : outcome A) (f : A -> outcome B) :
  np o -> (forall a, o = Ok a -> np (f a)) -> np (bind o f).
Proof.
  intros Ho Hf. destruct o as [a|e|msg| |w]; try exact I.
  - exact (Hf a eq_refl).
  - exact Ho.
Qed.

(** the form asked for in the task statement *)
Lemma bind_no_panic {A B} (o : outcome A) (f : A -> outcome B) (m : string) :
  o <> Panic m -> (forall a, f a <> Panic m) -> bind o f <> Panic m.
Proof.
  intros Ho Hf. destruct o as [a|e|msg| |w]; cbn [bind]; first [apply Hf | congruence].
Qed.

(** one step of case analysis on the head of an outcome-valued expression *)
Ltac np_step :=
  match goal with
  | |- np (Ok _) => exact I
  | |- np (Err _) => exact I
  | |- np (fail _) => exact I
  | |- np OutOfFuel => exact I
  | |- np (Declined _) => exact I
  | |- np (bind _ _) => apply np_bind; [ | intros ? ? ]
  | |- np (match ?x with _ => _ end) => destruct x
  end.
Ltac np_crush := repeat np_step.

(** * The functions of funcs.go *)

Lemma params_first_any_np ps : np (params_first_any ps).
Proof. unfold params_first_any. np_crush. Qed.

Lemma params_first_number_np ps : np (params_first_number ps).
Proof. unfold params_first_number. np_crush. Qed.

Lemma params_first_string_np ps : np (params_first_string ps).
Proof. unfold params_first_string. np_crush. Qed.

Lemma func_equal_np ps val : np (func_equal ps val).
Proof. unfold func_equal. np_crush; apply params_first_any_np. Qed.

Lemma boolv_np o : np o -> np (boolv o).
Proof. intros H. unfold boolv. apply np_bind; [exact H|]. intros b _. exact I. Qed.

Lemma negate_np o : np o -> np (negate o).
Proof. intros H. unfold negate. apply np_bind; [exact H|]. intros b _. exact I. Qed.

Lemma decimal_bool_func_np f ps val : np (decimal_bool_func f ps val).
Proof. unfold decimal_bool_func. np_crush; apply params_first_number_np. Qed.

Lemma string_bool_func_np f inv ps val : np (string_bool_func f inv ps val).
Proof. unfold string_bool_func. np_crush; apply params_first_string_np. Qed.

Lemma func_count_np ps val : np (func_count ps val).
Proof. unfold func_count. np_crush. Qed.

Lemma func_any_np ps val : np (func_any ps val).
Proof. unfold func_any. np_crush. Qed.

Lemma func_first_np ps val : np (func_first ps val).
Proof. unfold func_first. np_crush. Qed.

Lemma nth_error_last_some {A} (x : A) xs : nth_error (x :: xs) (length (x :: xs) - 1) <> None.
Proof. apply nth_error_Some. simpl. lia. Qed.

Lemma func_last_np ps val : np (func_last ps val).
Proof.
  unfold func_last.
  destruct (negb (len_is ps 0)); [exact I|].
  destruct (empty_guard (value_of val)); [exact I|].
  destruct (elems_of (rv_v (deref1 (value_of val)))) as [[t xs]|]; [|exact I].
  destruct xs as [|x xs]; [exact I|].
  destruct (nth_error (x :: xs) (length (x :: xs) - 1)) eqn:E; [exact I|].
  exfalso. revert E. apply nth_error_last_some.
Qed.

(** * Decimal.IntPart of a non-negative decimal bounded by a length below 2^63 *)
Lemma pow10_pos n : 0 <= n -> 0 < pow10 n.
Proof. intros H. unfold pow10. apply Z.pow_pos_nonneg; lia. Qed.

Lemma big_int64_small x : 0 <= x < 2 ^ 63 -> big_int64 x = x.
Proof.
  intros H. unfold big_int64, sint64.
  assert (H64 : 2 ^ 64 = 18446744073709551616) by reflexivity.
  assert (H63 : 2 ^ 63 = 9223372036854775808) by reflexivity.
  rewrite H64, H63 in *.
  rewrite Z.abs_eq by lia.
  rewrite (Z.mod_small x) by lia.
  rewrite (Z.mod_small (x + 9223372036854775808)) by lia.
  destruct (Z.ltb_spec x 0); lia.
Qed.

Ltac zb := repeat match goal with
  | |- context [Z.eqb ?a ?b] => destruct (Z.eqb_spec a b)
  | |- context [Z.ltb ?a ?b] => destruct (Z.ltb_spec a b)
  | |- context [Z.leb ?a ?b] => destruct (Z.leb_spec a b)
  end.

Lemma trunc_cmp p len : dis_neg p = false ->
  0 <= coef (rescale p 0) /\
  (dcmp p (mkDec len 0) = Lt -> coef (rescale p 0) < len) /\
  (dcmp p (mkDec len 0) <> Gt -> coef (rescale p 0) <= len).
Proof.
  destruct p as [c e]. unfold dis_neg, dcmp, rescale_pair, rescale. cbn [coef dexp].
  intros Hn. apply Z.ltb_ge in Hn.
  destruct (Z.min_spec e 0) as [[He ->]|[He ->]]; zb; cbn [coef dexp]; try lia.
  - assert (Hp : 0 < pow10 (0 - e)) by (apply pow10_pos; lia).
    rewrite Z.quot_div_nonneg by lia.
    split; [apply Z.div_pos; lia|].
    split; intros Hcmp.
    + change (c < len * pow10 (0 - e)) in Hcmp. apply Z.div_lt_upper_bound; lia.
    + apply Z.div_le_upper_bound; [lia|].
      change (c <= len * pow10 (0 - e)) in Hcmp. lia.
  - split; [lia|]. split; [apply Z.compare_lt_iff | intros Hcmp; exact Hcmp].
  - assert (Hp : 0 < pow10 (e - 0)) by (apply pow10_pos; lia).
    split; [apply Z.mul_nonneg_nonneg; lia|].
    split; [apply Z.compare_lt_iff | intros Hcmp; exact Hcmp].
Qed.

Arguments int_part : simpl never.

Lemma int_part_lt p len :
  dis_neg p = false -> dlt p (mkDec len 0) = true -> len <= 2 ^ 63 ->
  0 <= int_part p < len.
Proof.
  intros Hn Hlt Hlen.
  destruct (trunc_cmp p len Hn) as [H0 [H1 _]].
  assert (Hc : dcmp p (mkDec len 0) = Lt).
  { unfold dlt in Hlt. destruct (dcmp p (mkDec len 0)); [discriminate|reflexivity|discriminate]. }
  specialize (H1 Hc).
  unfold int_part. rewrite big_int64_small by lia. lia.
Qed.

Lemma int_part_clamp p n :
  dis_neg p = false -> 0 <= n < 2 ^ 63 ->
  0 <= int_part (if dgt p (mkDec n 0) then mkDec n 0 else p) <= n.
Proof.
  intros Hn Hlen.
  destruct (dgt p (mkDec n 0)) eqn:Hg.
  - unfold int_part, rescale. cbn [coef dexp]. rewrite Z.eqb_refl. cbn [coef].
    rewrite big_int64_small by lia. lia.
  - destruct (trunc_cmp p n Hn) as [H0 [_ H1]].
    assert (Hc : dcmp p (mkDec n 0) <> Gt).
    { unfold dgt in Hg. destruct (dcmp p (mkDec n 0)); [discriminate|discriminate|discriminate]. }
    specialize (H1 Hc).
    unfold int_part. rewrite big_int64_small by lia. lia.
Qed.

(** * The five functions that index with IntPart, and their receivers *)
Definition seq_recv_len (val : gv) : nat :=
  match elems_of (rv_v (deref1 (value_of val))) with Some (_, xs) => length xs | None => O end.
Definition str_recv_len (val : gv) : nat :=
  match val with VStr false s => length s | _ => O end.

(** the receiver of Index has fewer than 2^63 elements / the receiver of
    Left, Right, TrimLeft, TrimRight has fewer than 2^63 bytes *)
Definition small_seq (val : gv) : bool := Z.of_nat (seq_recv_len val) <? 2 ^ 63.
Definition small_str (val : gv) : bool := Z.of_nat (str_recv_len val) <? 2 ^ 63.

Lemma func_index_np ps val : small_seq val = true -> np (func_index ps val).
Proof.
  intros Hs. unfold func_index.
  apply np_bind; [apply params_first_number_np|]. intros p _.
  destruct (empty_guard (value_of val)); [exact I|].
  unfold small_seq, seq_recv_len in Hs.
  destruct (elems_of (rv_v (deref1 (value_of val)))) as [[t xs]|]; [|exact I].
  apply Z.ltb_lt in Hs.
  destruct (negb (dis_neg p) && dlt p (mkDec (Z.of_nat (length xs)) 0)) eqn:E; [|exact I].
  apply andb_prop in E. destruct E as [E1 E2]. apply negb_true_iff in E1.
  assert (Hi : 0 <= int_part p < Z.of_nat (length xs)) by (apply int_part_lt; [exact E1|exact E2|lia]).
  cbv zeta.
  destruct (Z.ltb_spec (int_part p) 0) as [Hneg|_]; [lia|].
  destruct (nth_error xs (Z.to_nat (int_part p))) eqn:E4; [exact I|].
  apply nth_error_None in E4. lia.
Qed.

Lemma go_slice_np s lo hi :
  0 <= lo -> lo <= hi -> hi <= Z.of_nat (length s) -> np (go_slice s lo hi).
Proof.
  intros H1 H2 H3. unfold go_slice.
  destruct (Z.leb_spec 0 lo); [|lia].
  destruct (Z.leb_spec lo hi); [|lia].
  destruct (Z.leb_spec hi (Z.of_nat (length s))); [|lia].
  exact I.
Qed.

Lemma string_part_func_np w ps val : small_str val = true -> np (string_part_func w ps val).
Proof.
  intros Hs. unfold string_part_func.
  apply np_bind; [apply params_first_number_np|]. intros p _.
  destruct (negb (dis_integer p)); [exact I|].
  destruct (dis_neg p) eqn:En; [exact I|].
  destruct val as [ |nm b|k nm z|i32 nm f|nm s|d|tg|t isnil xs|t xs|kt vt isnil kvs|fs|isnil|isnil]; try exact I.
  destruct nm; [exact I|].
  unfold small_str, str_recv_len in Hs. apply Z.ltb_lt in Hs.
  cbv zeta.
  pose proof (int_part_clamp p (Z.of_nat (length s)) En (conj (Nat2Z.is_nonneg _) Hs)) as Hi.
  remember (int_part (if dgt p (mkDec (Z.of_nat (length s)) 0) then mkDec (Z.of_nat (length s)) 0 else p)) as i eqn:Ei.
  clear Ei.
  apply np_bind; [|intros r _; exact I].
  destruct w.
  - destruct (Z.ltb_spec (Z.of_nat (length s)) i); [exact I|]. apply go_slice_np; lia.
  - destruct (Z.ltb_spec (Z.of_nat (length s)) i); [exact I|]. apply go_slice_np; lia.
  - destruct (Z.leb_spec (Z.of_nat (length s)) i); [exact I|]. apply go_slice_np; lia.
  - destruct (Z.leb_spec (Z.of_nat (length s)) i); [exact I|]. apply go_slice_np; lia.
Qed.

(** * The remaining function families *)
Lemma func_decimal_slice_np a ps val : np (func_decimal_slice a ps val).
Proof.
  unfold func_decimal_slice. cbv zeta.
  match goal with |- np (match ?x with _ => _ end) => destruct x as [[|d [|d' rest]]|] end; exact I.
Qed.

Lemma func_decimal_np op ps val : np (func_decimal op ps val).
Proof. unfold func_decimal. np_crush; apply params_first_number_np. Qed.

Lemma func_any_of_np ps val : np (func_any_of ps val).
Proof. exact I. Qed.

Lemma func_replace_all_np ps val : np (func_replace_all ps val).
Proof. unfold func_replace_all. np_crush. Qed.

Lemma func_is_null_np ps val : np (func_is_null ps val).
Proof. unfold func_is_null. np_crush. Qed.
Lemma func_is_empty_np ps val : np (func_is_empty ps val).
Proof. unfold func_is_empty. np_crush. Qed.
Lemma func_is_null_or_empty_np ps val : np (func_is_null_or_empty ps val).
Proof. unfold func_is_null_or_empty. np_crush. Qed.

Lemma func_not_np val : np (func_not val).
Proof. unfold func_not. np_crush. Qed.
Lemma func_invert_np val : np (func_invert val).
Proof. unfold func_invert. np_crush. Qed.

Lemma func_does_match_regex_np eng ps val : np (func_does_match_regex eng ps val).
Proof. unfold func_does_match_regex. np_crush; apply params_first_string_np. Qed.

Lemma func_replace_regex_np eng ps val : np (func_replace_regex eng ps val).
Proof. unfold func_replace_regex. cbv zeta. np_crush. Qed.

Lemma func_as_json_np eng ps val : np (func_as_json eng ps val).
Proof. unfold func_as_json. np_crush. Qed.

Lemma string_to_object_np eng fmt ps val : np (string_to_object eng fmt ps val).
Proof. unfold string_to_object. cbv zeta. np_crush. Qed.

Lemma func_sprintf_np eng ps val : np (func_sprintf eng ps val).
Proof. unfold func_sprintf. np_crush. Qed.

Lemma remove_keys_np keep val : np (remove_keys keep val).
Proof.
  unfold remove_keys. cbv zeta.
  destruct (rv_v (deref1 (value_of val))); try exact I.
  match goal with |- np (match ?x with _ => _ end) => destruct x end; exact I.
Qed.

Lemma func_remove_keys_by_np eng how ps val : np (func_remove_keys_by eng how ps val).
Proof.
  unfold func_remove_keys_by.
  destruct (negb (len_is ps 1)); [exact I|].
  apply np_bind; [apply params_first_string_np|]. intros p _.
  destruct (String.eqb how "Regex").
  - destruct (eng_re_match eng p []) as [[b|]|]; try exact I. apply remove_keys_np.
  - destruct (String.eqb how "Prefix"); apply remove_keys_np.
Qed.

(** * run_func *)
Definition is_strpart (ft : string) : bool :=
  String.eqb ft "TrimRight" || String.eqb ft "TrimLeft" || String.eqb ft "Right" || String.eqb ft "Left".

(** The side condition of a call [run_func eng ft ps val]: it constrains the
    receiver [val] of the five IntPart-indexing functions and nothing else. *)
Definition recv_ok (ft : string) (val : gv) : bool :=
  if String.eqb ft "Index" then small_seq val
  else if is_strpart ft then small_str val
  else true.

Lemma recv_ok_index ft val :
  String.eqb ft "Index" = true -> recv_ok ft val = true -> small_seq val = true.
Proof. intros E H. unfold recv_ok in H. rewrite E in H. exact H. Qed.

Lemma recv_ok_trim_right ft val :
  String.eqb ft "TrimRight" = true -> recv_ok ft val = true -> small_str val = true.
Proof. intros E H. apply String.eqb_eq in E. subst ft. exact H. Qed.
Lemma recv_ok_trim_left ft val :
  String.eqb ft "TrimLeft" = true -> recv_ok ft val = true -> small_str val = true.
Proof. intros E H. apply String.eqb_eq in E. subst ft. exact H. Qed.
Lemma recv_ok_right ft val :
  String.eqb ft "Right" = true -> recv_ok ft val = true -> small_str val = true.
Proof. intros E H. apply String.eqb_eq in E. subst ft. exact H. Qed.
Lemma recv_ok_left ft val :
  String.eqb ft "Left" = true -> recv_ok ft val = true -> small_str val = true.
Proof. intros E H. apply String.eqb_eq in E. subst ft. exact H. Qed.

Create HintDb nopanic.
#[export] Hint Resolve boolv_np negate_np func_equal_np decimal_bool_func_np string_bool_func_np
  func_count_np func_any_np func_first_np func_last_np func_decimal_slice_np func_decimal_np
  func_any_of_np func_replace_all_np func_is_null_np func_is_empty_np func_is_null_or_empty_np
  func_not_np func_invert_np func_does_match_regex_np func_replace_regex_np func_as_json_np
  string_to_object_np func_sprintf_np func_remove_keys_by_np
  func_index_np string_part_func_np
  recv_ok_index recv_ok_trim_right recv_ok_trim_left recv_ok_right recv_ok_left : nopanic.

Lemma run_func_np eng ft ps val : recv_ok ft val = true -> np (run_func eng ft ps val).
Proof.
  intros H. unfold run_func.
  repeat match goal with
  | |- np (if String.eqb ft ?s then _ else _) =>
    destruct (String.eqb ft s) eqn:?E; [ first [ exact I | solve [eauto 3 with nopanic] ] | ]
  end.
  exact I.
Qed.

Theorem run_func_never_panics : forall eng ft ps val m,
  recv_ok ft val = true -> run_func eng ft ps val <> Panic m.
Proof. intros eng ft ps val m H. apply np_neq. apply run_func_np. exact H. Qed.

(** unconditional for every function but Index, Left, Right, TrimLeft, TrimRight *)
Definition indexing_func (ft : string) : bool := String.eqb ft "Index" || is_strpart ft.

Lemma recv_ok_other ft val : indexing_func ft = false -> recv_ok ft val = true.
Proof.
  unfold indexing_func, recv_ok. intros H. apply orb_false_elim in H. destruct H as [H1 H2].
  rewrite H1, H2. reflexivity.
Qed.

Theorem run_func_never_panics_other : forall eng ft ps val m,
  indexing_func ft = false -> run_func eng ft ps val <> Panic m.
Proof. intros eng ft ps val m H. apply run_func_never_panics. apply recv_ok_other. exact H. Qed.

(** * The side condition cannot be dropped
    On a slice of 2^63+1 elements, Index(2^63) passes the range check of
    func_index, IntPart wraps to -2^63, and reflect panics.  Such a list exists
    in Coq (not in Go), so [run_func] does panic in the model. *)
Lemma func_index_huge xs :
  Z.of_nat (length xs) = 2 ^ 63 + 1 ->
  func_index [RNum (mkDec (2 ^ 63) 0)] (VSlice EAny false xs)
  = Panic "reflect: slice index out of range".
Proof.
  intros H. unfold func_index.
  change (params_first_number [RNum (mkDec (2 ^ 63) 0)]) with (@Ok dec (mkDec (2 ^ 63) 0)).
  cbn [bind].
  replace (empty_guard (value_of (VSlice EAny false xs))) with false
    by (symmetry; unfold empty_guard; apply andb_false_r).
  change (elems_of (rv_v (deref1 (value_of (VSlice EAny false xs))))) with (Some (EAny, xs)).
  cbv iota beta. rewrite H.
  vm_compute. reflexivity.
Qed.

Theorem unguarded_statement_is_false :
  ~ (forall eng ft ps val m, run_func eng ft ps val <> Panic m).
Proof.
  intros Hall.
  set (N := Z.to_nat (2 ^ 63 + 1)).
  assert (HN : Z.of_nat N = 2 ^ 63 + 1) by (apply Z2Nat.id; vm_compute; discriminate).
  clearbody N.
  apply (Hall no_engines "Index"%string [RNum (mkDec (2 ^ 63) 0)]
              (VSlice EAny false (repeat VNil N)) "reflect: slice index out of range"%string).
  change (func_index [RNum (mkDec (2 ^ 63) 0)] (VSlice EAny false (repeat VNil N))
          = Panic "reflect: slice index out of range").
  apply func_index_huge. rewrite repeat_length. exact HN.
Qed.

(** * The parser never constructs Panic *)
Definition parse_np_at (k : nat) : Prop :=
  (forall isf me cur rest, np (parse_path k isf me cur rest)) /\
  (forall root isf me ops us cur rest, np (path_loop k root isf me ops us cur rest)) /\
  (forall cur rest, np (parse_func k cur rest)) /\
  (forall inv ft ps us cur rest, np (func_loop k inv ft ps us cur rest)) /\
  (forall isf cur rest, np (parse_log k isf cur rest)) /\
  (forall inv isf ty xs us cur rest, np (log_loop k inv isf ty xs us cur rest)).

Ltac p_step IH1 IH2 IH3 IH4 IH5 IH6 :=
  let rec_call := first [ apply IH1 | apply IH2 | apply IH3 | apply IH4 | apply IH5 | apply IH6 ] in
  first
  [ exact I
  | rec_call
  | match goal with |- np (bind _ _) => apply np_bind; [ rec_call | intros [[? ?] ?] _ ] end
  | match goal with |- np (match ?x with _ => _ end) => destruct x end ].

Lemma parse_np : forall k, parse_np_at k.
Proof.
  induction k as [|k IH].
  - repeat split; intros; exact I.
  - destruct IH as (IH1 & IH2 & IH3 & IH4 & IH5 & IH6).
    repeat split; intros.
    + cbn [parse_path]. repeat p_step IH1 IH2 IH3 IH4 IH5 IH6.
    + cbn [path_loop]. repeat p_step IH1 IH2 IH3 IH4 IH5 IH6.
    + cbn [parse_func]. repeat p_step IH1 IH2 IH3 IH4 IH5 IH6.
    + cbn [func_loop]. repeat p_step IH1 IH2 IH3 IH4 IH5 IH6.
    + cbn [parse_log]. repeat p_step IH1 IH2 IH3 IH4 IH5 IH6.
    + cbn [log_loop]. repeat p_step IH1 IH2 IH3 IH4 IH5 IH6.
Qed.

Lemma top_loop_np : forall k topop cur rest, np (top_loop k topop cur rest).
Proof.
  induction k as [|k IH]; intros topop cur rest; [exact I|].
  destruct (parse_np k) as (P1 & _ & _ & _ & P5 & _).
  cbn [top_loop].
  destruct cur as [t| |].
  - destruct (is_ch t 123).
    + destruct topop as [t0|]; [exact I|].
      apply np_bind; [apply P5|]. intros [[c r] l] _. apply IH.
    + destruct (is_ch t 64 || is_ch t 36); [|exact I].
      destruct topop as [t0|]; [exact I|].
      apply np_bind; [apply P1|]. intros [[c r] p] _. apply IH.
  - destruct topop; exact I.
  - destruct topop; exact I.
Qed.

Lemma parse_tokens_np toks : np (parse_tokens toks).
Proof. unfold parse_tokens. destruct (scan toks) as [c r]. apply top_loop_np. Qed.

Lemma parse_string_np uni s : np (parse_string uni s).
Proof. unfold parse_string. destruct (lex uni s) as [toks|]; [apply parse_tokens_np|exact I]. Qed.

Theorem parse_never_panics : forall uni s m, parse_string uni s <> Panic m.
Proof. intros uni s m. apply np_neq. apply parse_string_np. Qed.

(** * The evaluator: helpers that cannot panic *)
Lemma spread_result_np res : np (spread_result res).
Proof. unfold spread_result. np_crush. Qed.

Lemma get_values_by_name_np name data : np (get_values_by_name name data).
Proof. unfold get_values_by_name. cbv zeta. np_crush. Qed.

Lemma do_ident_np name cur : np (do_ident name cur).
Proof.
  unfold do_ident. cbv zeta.
  destruct (rv_v (deref1 (value_of cur))); try apply get_values_by_name_np.
  destruct (map_lookup_fold name kvs); exact I.
Qed.

(** getAsStructOrSlice hands a []interface{} to the filter whenever it says "not a struct" *)
Lemma get_as_struct_or_slice_false cur val :
  get_as_struct_or_slice cur = Some (val, false) -> exists xs, val = VSlice EAny false xs.
Proof.
  unfold get_as_struct_or_slice. cbv zeta. intros H.
  assert (G : forall r,
    match rv_v r with
    | VStruct _ | VDec _ | VMap _ _ _ _ => Some (rv_v r, true)
    | VSlice t _ xs | VArray t xs =>
      match xs with [] => Some (VSlice EAny false [], false) | _ => Some (VSlice EAny false xs, false) end
    | _ => None
    end = Some (val, false) -> exists xs, val = VSlice EAny false xs).
  { intros r Hr. destruct (rv_v r) as [ |nm b|k nm z|i32 nm f|nm s|d|tg|t isnil xs|t xs|kt vt isnil kvs|fs|isnil|isnil];
      try discriminate Hr; destruct xs as [|x xs]; inversion Hr; eauto. }
  destruct cur as [ |nm b|k nm z|i32 nm f|nm s|d|tg|t isnil xs|t xs|kt vt isnil kvs|fs|isnil|isnil];
    try (apply G in H; exact H).
  destruct kt; destruct vt; try (apply G in H; exact H); discriminate H.
Qed.

(** * The guard: [recv_ok] at every run_func call the evaluation performs

    Each combinator below mirrors the control flow of the evaluator's
    combinator of the same name ([ev] is the evaluator for a child, [gd] the
    guard for that child): a child is guarded exactly when it is evaluated. *)
Fixpoint path_guard (ev : pathop -> gv -> outcome gv) (gd : pathop -> gv -> bool)
    (prev : option pathop) (prior_nil : bool) (ops : list pathop) (data : gv) : bool :=
  match ops with
  | [] => true
  | op :: rest =>
    let blocked := match prev with
                   | Some p => prior_nil && negb (pathop_qmark p) && negb (pathop_is_func op)
                   | None => false
                   end in
    if blocked then true else
    gd op data &&
    match ev op data with
    | Ok v => path_guard ev gd (Some op) (prior_nil || is_nil v) rest v
    | Err EKeyNotFound => if pathop_qmark op then path_guard ev gd (Some op) true rest VNil else true
    | _ => true
    end
  end.

Fixpoint log_guard (ev : operand -> outcome gv) (gd : operand -> bool) (t : lot) (xs : list operand) : bool :=
  match xs with
  | [] => true
  | x :: rest =>
    gd x &&
    match ev x with
    | Ok (VBool false b) =>
      match t with
      | LAnd => if b then log_guard ev gd t rest else true
      | LOr => if b then true else log_guard ev gd t rest
      | LBad _ => log_guard ev gd t rest
      end
    | _ => true
    end
  end.

(** filter_elems and select_elems: left to right, stopping at the first non-result *)
Fixpoint seq_guard (ev : gv -> outcome gv) (gd : gv -> bool) (xs : list gv) : bool :=
  match xs with
  | [] => true
  | x :: rest => gd x && match ev x with Ok _ => seq_guard ev gd rest | _ => true end
  end.

Definition param_guard (gd : node -> bool) (p : param) : bool :=
  match p with FPPath q => gd (NPath q) | FPLog l => gd (NLog l) | _ => true end.

Fixpoint params_guard (ev : node -> outcome gv) (gd : node -> bool) (ps : list param) : bool :=
  match ps with
  | [] => true
  | p :: rest =>
    param_guard gd p && match param_here ev p with Ok _ => params_guard ev gd rest | _ => true end
  end.

Lemma path_ops_np ev gd :
  (forall o d, gd o d = true -> np (ev o d)) ->
  forall ops prev pn data le,
    path_guard ev gd prev pn ops data = true -> np (path_ops ev prev pn ops data le).
Proof.
  intros H ops; induction ops as [|op rest IH]; intros prev pn data le Hg;
    cbn [path_ops path_guard] in *.
  - destruct le; exact I.
  - destruct (match prev with
              | Some p => pn && negb (pathop_qmark p) && negb (pathop_is_func op)
              | None => false
              end); [exact I|].
    apply andb_prop in Hg. destruct Hg as [Hg1 Hg2].
    specialize (H _ _ Hg1).
    destruct (ev op data) as [v|e|msg| |w]; try exact I.
    + apply IH. exact Hg2.
    + destruct e as [|tag]; [|exact I].
      destruct (pathop_qmark op); [apply IH; exact Hg2|exact I].
    + exact H.
Qed.

Lemma log_ops_np ev gd :
  (forall x, gd x = true -> np (ev x)) ->
  forall t xs, log_guard ev gd t xs = true -> np (log_ops ev t xs).
Proof.
  intros H t xs; induction xs as [|x rest IH]; intros Hg; cbn [log_ops log_guard] in *.
  - destruct t; exact I.
  - apply andb_prop in Hg. destruct Hg as [Hg1 Hg2].
    specialize (H _ Hg1).
    destruct (ev x) as [v|e|msg| |w]; cbn [bind]; try exact I; [|exact H].
    destruct v as [ |nm b|k nm z|i32 nm f|nm s|d|tg|ty isnil ys|ty ys|kt vt isnil kvs|fs|isnil|isnil]; try exact I.
    destruct nm; [exact I|].
    destruct t as [| |s]; destruct b; try exact I; apply IH; exact Hg2.
Qed.

(** the predicate of a filter is a logical group, whose result is a Go bool *)
Lemma filter_elems_np ev gd :
  (forall x, gd x = true -> np (ev x)) ->
  (forall x v, ev x = Ok v -> exists b, v = vbool b) ->
  forall xs, seq_guard ev gd xs = true -> np (filter_elems ev xs).
Proof.
  intros H Hb xs; induction xs as [|x rest IH]; intros Hg; cbn [filter_elems seq_guard] in *;
    [exact I|].
  apply andb_prop in Hg. destruct Hg as [Hg1 Hg2].
  specialize (H _ Hg1). specialize (Hb x).
  destruct (ev x) as [v|e|msg| |w]; cbn [bind]; try exact I; [|exact H].
  destruct (Hb v eq_refl) as [b ->]. unfold vbool.
  apply np_bind; [apply IH; exact Hg2|]. intros ys _. exact I.
Qed.

Lemma select_elems_np ev gd :
  (forall x, gd x = true -> np (ev x)) ->
  forall xs, seq_guard ev gd xs = true -> np (select_elems ev xs).
Proof.
  intros H xs; induction xs as [|x rest IH]; intros Hg; cbn [select_elems seq_guard] in *;
    [exact I|].
  apply andb_prop in Hg. destruct Hg as [Hg1 Hg2].
  specialize (H _ Hg1).
  destruct (ev x) as [v|e|msg| |w]; cbn [bind]; try exact I; [|exact H].
  apply np_bind; [apply IH; exact Hg2|]. intros ys _. exact I.
Qed.

Lemma param_here_np ev gd p :
  (forall n, gd n = true -> np (ev n)) -> param_guard gd p = true -> np (param_here ev p).
Proof.
  intros H Hg. destruct p as [d|s|b|q|l]; cbn [param_here param_guard] in *; try exact I.
  - apply np_bind; [apply H; exact Hg|]. intros res _. apply spread_result_np.
  - apply np_bind; [apply H; exact Hg|]. intros res _. apply spread_result_np.
Qed.

Lemma eval_params_np ev gd :
  (forall n, gd n = true -> np (ev n)) ->
  forall ps, params_guard ev gd ps = true -> np (eval_params ev ps).
Proof.
  intros H ps; induction ps as [|p rest IH]; intros Hg; [exact I|].
  rewrite eval_params_unfold. cbn [params_guard] in Hg.
  apply andb_prop in Hg. destruct Hg as [Hg1 Hg2].
  apply np_bind; [exact (param_here_np ev gd p H Hg1)|].
  intros h Hh. rewrite Hh in Hg2.
  apply np_bind; [apply IH; exact Hg2|]. intros more _. exact I.
Qed.

Section Guard.
Variable uni : uclass.
Variable eng : engines.

(** [guard fuel n cur orig] follows [eval uni eng fuel n cur orig] and is true
    iff every call [run_func eng ft ps val] made along the way satisfies
    [recv_ok ft val]. *)
Fixpoint guard (fuel : nat) (n : node) (cur orig : gv) : bool :=
  match fuel with
  | O => true
  | S k =>
    match n with
    | NTop (TopP p) => guard k (NPath p) cur orig
    | NTop (TopL l) => guard k (NLog l) cur orig
    | NPath (Path _ root is_filter _ ops _) =>
      if root && is_filter then true else
      let data := if root then orig else cur in
      let data := match ops with [] => convert_unless_string data | _ => data end in
      path_guard (fun o d => eval uni eng k (NOp o) d orig) (fun o d => guard k (NOp o) d orig)
                 None false ops data
    | NOp (PIdent _ _ _) => true
    | NOp (PFilter l _) =>
      match get_as_struct_or_slice cur with
      | None => true
      | Some (val, true) => guard k (NLog l) val orig
      | Some (val, false) =>
        match val with
        | VSlice _ _ xs =>
          seq_guard (fun x => eval uni eng k (NLog l) x orig) (fun x => guard k (NLog l) x orig) xs
        | _ => true
        end
      end
    | NOp (PFunc f) => guard k (NFunc f) cur orig
    | NLog (LogOp _ _ t xs _) =>
      log_guard
        (fun x => match x with
                  | OpP p => eval uni eng k (NPath p) cur orig
                  | OpL l => eval uni eng k (NLog l) cur orig
                  end)
        (fun x => match x with
                  | OpP p => guard k (NPath p) cur orig
                  | OpL l => guard k (NLog l) cur orig
                  end) t xs
    | NFunc (Func _ ft ps _) =>
      params_guard (fun m => eval uni eng k m cur orig) (fun m => guard k m cur orig) ps &&
      match eval_params (fun m => eval uni eng k m cur orig) ps with
      | Ok rt =>
        let val := convert_number cur in
        match find_fdesc_key ft func_table with
        | None => true
        | Some d =>
          if String.eqb (fd_key d) "Select" then
            match params_first_string rt with
            | Ok q =>
              match parse_string uni q with
              | Ok t =>
                match rv_v (deref1 (value_of val)) with
                | VSlice _ _ xs | VArray _ xs =>
                  seq_guard (fun x => eval uni eng k (NTop t) x x) (fun x => guard k (NTop t) x x) xs
                | VMap _ _ _ kvs =>
                  match sorted_values kvs with
                  | Some vs =>
                    seq_guard (fun x => eval uni eng k (NTop t) x x) (fun x => guard k (NTop t) x x) vs
                  | None => true
                  end
                | _ => true
                end
              | _ => true
              end
            | _ => true
            end
          else recv_ok (fd_key d) val
        end
      | _ => true
      end
    end
  end.

Lemma eval_np : forall fuel n cur orig,
  guard fuel n cur orig = true -> np (eval uni eng fuel n cur orig).
Proof.
  induction fuel as [|k IH]; intros n cur orig Hg; [exact I|].
  cbn [eval]. cbn [guard] in Hg.
  destruct n as [p|o|f|l|t].
  - destruct p as [inv root isf me ops us].
    destruct (root && isf); [exact I|].
    eapply path_ops_np; [|exact Hg]. intros o d Ho. apply IH. exact Ho.
  - destruct o as [name q us|l us|f].
    + apply do_ident_np.
    + destruct (get_as_struct_or_slice cur) as [[val [|]]|] eqn:Eg; [ | |exact I].
      * apply np_bind; [apply IH; exact Hg|]. intros res _. np_crush.
      * destruct (get_as_struct_or_slice_false _ _ Eg) as [xs ->].
        apply np_bind; [|intros ys _; exact I].
        eapply filter_elems_np; [ | |exact Hg].
        -- intros x Hx. apply IH. exact Hx.
        -- intros x v Hv. eapply group_result_is_bool. exact Hv.
    + apply IH. exact Hg.
  - destruct f as [inv ft ps us].
    apply andb_prop in Hg. destruct Hg as [Hg1 Hg2].
    apply np_bind.
    { eapply eval_params_np; [|exact Hg1]. intros m Hm. apply IH. exact Hm. }
    intros rt Hrt. rewrite Hrt in Hg2. cbv zeta in *.
    destruct (find_fdesc_key ft func_table) as [d|]; [|exact I].
    destruct (String.eqb (fd_key d) "Select").
    + apply np_bind; [apply params_first_string_np|]. intros q Hq. rewrite Hq in Hg2.
      pose proof (parse_string_np uni q) as Hp.
      destruct (parse_string uni q) as [t|e|msg| |w]; try exact I; [|exact Hp].
      destruct (rv_v (deref1 (value_of (convert_number cur))))
        as [ |nm b|kk nm z|i32 nm fl|nm s|dd|tg|ty isnil xs|ty xs|kt vt isnil kvs|fs|isnil|isnil];
        try exact I.
      * apply np_bind; [|intros rs _; exact I].
        eapply select_elems_np; [|exact Hg2]. intros x Hx. apply IH. exact Hx.
      * apply np_bind; [|intros rs _; exact I].
        eapply select_elems_np; [|exact Hg2]. intros x Hx. apply IH. exact Hx.
      * destruct (sorted_values kvs) as [vs|]; [|exact I].
        apply np_bind; [|intros rs _; exact I].
        eapply select_elems_np; [|exact Hg2]. intros x Hx. apply IH. exact Hx.
    + apply run_func_np. exact Hg2.
  - destruct l as [inv isf t xs us].
    eapply log_ops_np; [|exact Hg]. intros x Hx. destruct x as [p|l]; apply IH; exact Hx.
  - destruct t as [p|l]; apply IH; exact Hg.
Qed.

End Guard.

(** * Main theorems *)
Theorem eval_never_panics : forall uni eng fuel n cur orig m,
  guard uni eng fuel n cur orig = true ->
  eval uni eng fuel n cur orig <> Panic m.
Proof. intros uni eng fuel n cur orig m Hg. apply np_neq. apply eval_np. exact Hg. Qed.

Corollary do_top_never_panics : forall uni eng t data m,
  guard uni eng default_fuel (NTop t) data data = true ->
  do_top uni eng t data <> Panic m.
Proof. intros uni eng t data m Hg. unfold do_top. apply eval_never_panics. exact Hg. Qed.

(** * The guard on concrete, non-trivial evaluations
    (Index, Left, TrimRight, Select and a filter over a map of slices) *)
Definition ex_data : gv :=
  VMap KtStr EAny false
    [ (VStr false (bs "a"), VSlice EAny false [VInt KInt false 10; VInt KInt false 20; VInt KInt false 30]);
      (VStr false (bs "s"), VStr false (bs "hello world"));
      (VStr false (bs "rows"), VSlice EAny false
         [ VMap KtStr EAny false [(VStr false (bs "v"), VSlice EAny false [VInt KInt false 1; VInt KInt false 2])];
           VMap KtStr EAny false [(VStr false (bs "v"), VSlice EAny false [VInt KInt false 3])] ]) ].

Definition ex_run (q : string) : option (bool * outcome gv) :=
  match parse_string uni_ascii (bs q) with
  | Ok t => Some (guard uni_ascii no_engines default_fuel (NTop t) ex_data ex_data,
                  do_top uni_ascii no_engines t ex_data)
  | _ => None
  end.

Example guard_ex_index :
  ex_run "$.a.Index(1)" = Some (true, Ok (VDec (mkDec 20 0))).
Proof. vm_compute. reflexivity. Qed.

Example guard_ex_string_parts :
  ex_run "$.s.Left(5).TrimRight(1)" = Some (true, Ok (VStr false (bs "hell"))).
Proof. vm_compute. reflexivity. Qed.

Example guard_ex_select_index :
  ex_run "$.rows.Select(""@.v"").Index(2)" = Some (true, Ok (VDec (mkDec 3 0))).
Proof. vm_compute. reflexivity. Qed.

Example guard_ex_filter :
  option_map fst (ex_run "$.rows[@.v.Index(0).Less(2)].Select(""@.v"").Last()") = Some true.
Proof. vm_compute. reflexivity. Qed.

Example guard_ex_no_panic : forall m,
  match parse_string uni_ascii (bs "$.rows.Select(""@.v"").Index(2)") with
  | Ok t => do_top uni_ascii no_engines t ex_data <> Panic m
  | _ => False
  end.
Proof.
  intros m.
  destruct (parse_string uni_ascii (bs "$.rows.Select(""@.v"").Index(2)")) as [t|e|msg| |w] eqn:E;
    try (vm_compute in E; discriminate E).
  apply do_top_never_panics.
  vm_compute in E. injection E as <-. vm_compute. reflexivity.
Qed.

(** The same for the evaluator: the statement without [guard] is false. *)
Lemma eval_index_call uni eng p x xs orig :
  eval uni eng 1 (NFunc (Func false (bs "Index") [FPNum p] [])) (VSlice EAny false (x :: xs)) orig
  = func_index [RNum p] (VSlice EAny false (x :: xs)).
Proof. reflexivity. Qed.

Theorem eval_unguarded_statement_is_false :
  ~ (forall uni eng fuel n cur orig m, eval uni eng fuel n cur orig <> Panic m).
Proof.
  intros Hall.
  set (N := Z.to_nat (2 ^ 63 + 1)).
  assert (HN : Z.of_nat N = 2 ^ 63 + 1) by (apply Z2Nat.id; vm_compute; discriminate).
  clearbody N.
  destruct N as [|N]; [vm_compute in HN; discriminate HN|].
  apply (Hall uni_ascii no_engines 1%nat
              (NFunc (Func false (bs "Index") [FPNum (mkDec (2 ^ 63) 0)] []))
              (VSlice EAny false (VNil :: repeat VNil N)) VNil
              "reflect: slice index out of range"%string).
  rewrite eval_index_call.
  apply func_index_huge.
  cbn [length]. rewrite repeat_length. exact HN.
Qed.

(** * Unconditionally, for queries that name none of the six functions
    A query in which no function is Index, Left, Right, TrimLeft, TrimRight or
    Select (Select re-parses a query text computed at run time, which may name
    any function) passes the guard on every input. *)
Definition risky_names : list string :=
  ["Index"; "Left"; "Right"; "TrimLeft"; "TrimRight"; "Select"]%string.
Definition risky_name (ft : str) : bool := existsb (fun k => str_eqb (bs k) ft) risky_names.

Fixpoint plain_path (p : path) : bool :=
  match p with Path _ _ _ _ ops _ => forallb plain_op ops end
with plain_op (o : pathop) : bool :=
  match o with PIdent _ _ _ => true | PFilter l _ => plain_log l | PFunc f => plain_func f end
with plain_func (f : func) : bool :=
  match f with Func _ ft ps _ => negb (risky_name ft) && forallb plain_param ps end
with plain_param (p : param) : bool :=
  match p with FPPath q => plain_path q | FPLog l => plain_log l | _ => true end
with plain_log (l : logop) : bool :=
  match l with LogOp _ _ _ xs _ => forallb plain_operand xs end
with plain_operand (x : operand) : bool :=
  match x with OpP p => plain_path p | OpL l => plain_log l end.

Definition plain_node (n : node) : bool :=
  match n with
  | NPath p => plain_path p
  | NOp o => plain_op o
  | NFunc f => plain_func f
  | NLog l => plain_log l
  | NTop (TopP p) => plain_path p
  | NTop (TopL l) => plain_log l
  end.

Lemma plain_path_eq a b c d ops us : plain_path (Path a b c d ops us) = forallb plain_op ops.
Proof. reflexivity. Qed.
Lemma plain_func_eq a ft ps us :
  plain_func (Func a ft ps us) = negb (risky_name ft) && forallb plain_param ps.
Proof. reflexivity. Qed.
Lemma plain_log_eq a b t xs us : plain_log (LogOp a b t xs us) = forallb plain_operand xs.
Proof. reflexivity. Qed.

Lemma table_lookup_safe ft d :
  find_fdesc_key ft func_table = Some d -> risky_name ft = false ->
  String.eqb (fd_key d) "Select" = false /\ indexing_func (fd_key d) = false.
Proof.
  unfold func_table. cbn [find_fdesc_key fd_key]. intros H R.
  unfold risky_name, risky_names in R. cbn [existsb] in R.
  repeat match type of R with
         | (_ || _) = false => apply orb_false_elim in R; let R1 := fresh "R" in destruct R as [R1 R]
         end.
  repeat match type of H with
         | (if str_eqb ?k ft then _ else _) = Some d =>
           let E := fresh "E" in
           destruct (str_eqb k ft) eqn:E;
           [ first [ congruence | injection H as <-; split; reflexivity ] | ]
         end.
  discriminate H.
Qed.

Lemma path_guard_true ev gd ops :
  (forall o d, In o ops -> gd o d = true) ->
  forall prev pn data, path_guard ev gd prev pn ops data = true.
Proof.
  induction ops as [|op rest IH]; intros H prev pn data; cbn [path_guard]; [reflexivity|].
  destruct (match prev with
            | Some p => pn && negb (pathop_qmark p) && negb (pathop_is_func op)
            | None => false
            end); [reflexivity|].
  rewrite (H op data (or_introl eq_refl)). cbn [andb].
  assert (IH' := IH (fun o d Hin => H o d (or_intror Hin))).
  destruct (ev op data) as [v|e|msg| |w]; try reflexivity; [apply IH'|].
  destruct e as [|tag]; [|reflexivity].
  destruct (pathop_qmark op); [apply IH'|reflexivity].
Qed.

Lemma log_guard_true ev gd t xs :
  (forall x, In x xs -> gd x = true) -> log_guard ev gd t xs = true.
Proof.
  induction xs as [|x rest IH]; intros H; cbn [log_guard]; [reflexivity|].
  rewrite (H x (or_introl eq_refl)). cbn [andb].
  assert (IH' := IH (fun y Hin => H y (or_intror Hin))).
  destruct (ev x) as [v|e|msg| |w]; try reflexivity.
  destruct v as [ |nm b|k nm z|i32 nm f|nm s|d|tg|ty isnil ys|ty ys|kt vt isnil kvs|fs|isnil|isnil]; try reflexivity.
  destruct nm; [reflexivity|].
  destruct t as [| |s]; destruct b; try reflexivity; exact IH'.
Qed.

Lemma seq_guard_true ev gd xs : (forall x, gd x = true) -> seq_guard ev gd xs = true.
Proof.
  intros H. induction xs as [|x rest IH]; cbn [seq_guard]; [reflexivity|].
  rewrite (H x). cbn [andb]. destruct (ev x); try reflexivity. exact IH.
Qed.

Lemma params_guard_true ev gd ps :
  (forall p, In p ps -> param_guard gd p = true) -> params_guard ev gd ps = true.
Proof.
  induction ps as [|p rest IH]; intros H; cbn [params_guard]; [reflexivity|].
  rewrite (H p (or_introl eq_refl)). cbn [andb].
  destruct (param_here ev p); try reflexivity.
  apply IH. intros q Hin. apply H. right. exact Hin.
Qed.

Lemma plain_guard uni eng : forall fuel n cur orig,
  plain_node n = true -> guard uni eng fuel n cur orig = true.
Proof.
  induction fuel as [|k IH]; intros n cur orig Hp; [reflexivity|].
  cbn [guard]. destruct n as [p|o|f|l|t]; cbn [plain_node] in Hp.
  - destruct p as [inv root isf me ops us]. rewrite plain_path_eq in Hp.
    destruct (root && isf); [reflexivity|].
    apply path_guard_true. intros o d Hin. apply IH.
    rewrite forallb_forall in Hp. exact (Hp o Hin).
  - destruct o as [name q us|l us|f].
    + reflexivity.
    + change (plain_log l = true) in Hp.
      destruct (get_as_struct_or_slice cur) as [[val [|]]|]; [ | |reflexivity].
      * apply IH. exact Hp.
      * destruct val; try reflexivity. apply seq_guard_true. intros x. apply IH. exact Hp.
    + change (plain_func f = true) in Hp. apply IH. exact Hp.
  - destruct f as [inv ft ps us]. rewrite plain_func_eq in Hp.
    apply andb_prop in Hp. destruct Hp as [Hr Hps]. apply negb_true_iff in Hr.
    rewrite forallb_forall in Hps.
    apply andb_true_intro. split.
    + apply params_guard_true. intros p Hin. specialize (Hps p Hin).
      destruct p as [d|s|b|q|l]; cbn [param_guard]; try reflexivity; apply IH; exact Hps.
    + destruct (eval_params (fun m => eval uni eng k m cur orig) ps) as [rt|e|msg| |w]; try reflexivity.
      cbv zeta.
      destruct (find_fdesc_key ft func_table) as [d|] eqn:Ef; [|reflexivity].
      destruct (table_lookup_safe ft d Ef Hr) as [Hs Hi].
      rewrite Hs. apply recv_ok_other. exact Hi.
  - destruct l as [inv isf t xs us]. rewrite plain_log_eq in Hp.
    rewrite forallb_forall in Hp.
    apply log_guard_true. intros x Hin. specialize (Hp x Hin).
    destruct x as [p|l]; apply IH; exact Hp.
  - destruct t as [p|l]; apply IH; exact Hp.
Qed.

Theorem eval_never_panics_plain : forall uni eng fuel n cur orig m,
  plain_node n = true -> eval uni eng fuel n cur orig <> Panic m.
Proof.
  intros uni eng fuel n cur orig m Hp. apply eval_never_panics. apply plain_guard. exact Hp.
Qed.

Corollary do_top_never_panics_plain : forall uni eng t data m,
  plain_node (NTop t) = true -> do_top uni eng t data <> Panic m.
Proof.
  intros uni eng t data m Hp. apply do_top_never_panics. apply plain_guard. exact Hp.
Qed.

Print Assumptions eval_never_panics.
Print Assumptions do_top_never_panics.
Print Assumptions parse_never_panics.
Print Assumptions run_func_never_panics.
Print Assumptions run_func_never_panics_other.
Print Assumptions eval_never_panics_plain.
Print Assumptions do_top_never_panics_plain.
Print Assumptions unguarded_statement_is_false.
Print Assumptions eval_unguarded_statement_is_false.
Print Assumptions guard_ex_no_panic.
