(* Proofs/C16.v — CueValidate's caches are unobservable. *)
From Mpath.Model Require Import Base Caches.

Lemma str_eqb_true_eq (a b : str) : str_eqb a b = true -> a = b.
Proof.
  revert b; induction a as [|x a IH]; intros [|y b] H; simpl in H; try discriminate; auto.
  apply andb_true_iff in H. destruct H as [Hc Hs]. apply Ascii.eqb_eq in Hc. subst. f_equal. auto.
Qed.

Section C16.
Variables OP CV R : Type.
Variable parse : str -> outcome OP.
Variable compile : str -> outcome CV.
Variable validate : OP -> CV -> str -> R.

Notation step := (cv_step OP CV R parse compile validate).
Notation run := (cv_run OP CV R parse compile validate).
Notation fresh := (cv_fresh OP CV R parse compile validate).

(** every cached entry is what the parser / compiler returns for its key *)
Definition cache_inv (c : caches OP CV) : Prop :=
  (forall q op, cache_get q (c_ops OP CV c) = Some op -> parse q = Ok op) /\
  (forall s v, cache_get s (c_vals OP CV c) = Some v -> compile s = Ok v).

Lemma inv_empty : cache_inv (empty_caches OP CV).
Proof. split; intros k v H; discriminate H. Qed.

Lemma cache_get_cons {A} k k' (v : A) l x :
  cache_get k ((k', v) :: l) = Some x -> (k' = k /\ v = x) \/ cache_get k l = Some x.
Proof.
  simpl. destruct (str_eqb k' k) eqn:E; intros H.
  - left. split; [apply str_eqb_true_eq; exact E | congruence].
  - right. exact H.
Qed.

Lemma inv_step c call : cache_inv c -> cache_inv (fst (step c call)).
Proof.
  intros [Ho Hv]. destruct call as [[q schema] cur]. unfold cv_step.
  destruct (is_empty_str q || is_empty_str schema); [split; assumption|].
  destruct (cache_get q (c_ops OP CV c)) as [op|] eqn:Eq.
  - (* operation cached *)
    destruct (cache_get schema (c_vals OP CV c)) as [v|] eqn:Es; cbn; [split; assumption|].
    destruct (compile schema) as [v| | | |] eqn:Ec; cbn; try (split; assumption).
    split; [assumption|]. intros s x H. apply cache_get_cons in H. destruct H as [[<- <-]|H]; [exact Ec|apply Hv; exact H].
  - destruct (parse q) as [op| | | |] eqn:Ep; cbn; try (split; assumption).
    assert (Ho' : forall q0 op0, cache_get q0 ((q, op) :: c_ops OP CV c) = Some op0 -> parse q0 = Ok op0).
    { intros q0 op0 H. apply cache_get_cons in H. destruct H as [[<- <-]|H]; [exact Ep|apply Ho; exact H]. }
    destruct (cache_get schema (c_vals OP CV c)) as [v|] eqn:Es; cbn; [split; assumption|].
    destruct (compile schema) as [v| | | |] eqn:Ec; cbn; try (split; assumption).
    split; [assumption|]. intros s x H. apply cache_get_cons in H. destruct H as [[<- <-]|H]; [exact Ec|apply Hv; exact H].
Qed.

Lemma inv_run history : forall c, cache_inv c -> cache_inv (run history c).
Proof.
  induction history as [|call h IH]; intros c Hc; [exact Hc|].
  cbn [cv_run fold_left]. apply IH. apply inv_step. exact Hc.
Qed.

(** under the invariant the answer is the answer of a fresh process *)
Lemma step_transparent c call : cache_inv c -> snd (step c call) = fresh call.
Proof.
  intros [Ho Hv]. destruct call as [[q schema] cur]. unfold cv_fresh, cv_step.
  destruct (is_empty_str q || is_empty_str schema); [reflexivity|].
  cbn [empty_caches c_ops c_vals cache_get].
  destruct (cache_get q (c_ops OP CV c)) as [op|] eqn:Eq.
  - rewrite (Ho _ _ Eq).
    destruct (cache_get schema (c_vals OP CV c)) as [v|] eqn:Es.
    + rewrite (Hv _ _ Es). reflexivity.
    + cbn [c_vals cache_get]. destruct (compile schema); reflexivity.
  - destruct (parse q) as [op| | | |] eqn:Ep; try reflexivity.
    cbn [c_vals c_ops cache_get].
    destruct (cache_get schema (c_vals OP CV c)) as [v|] eqn:Es.
    + rewrite (Hv _ _ Es). reflexivity.
    + destruct (compile schema); reflexivity.
Qed.

Theorem cache_transparent : forall history call,
  snd (step (run history (empty_caches OP CV)) call) = fresh call.
Proof. intros history call. apply step_transparent. apply inv_run. apply inv_empty. Qed.

(** a repeated call returns the same answer *)
Lemma run_app h1 h2 c : run (h1 ++ h2) c = run h2 (run h1 c).
Proof. unfold cv_run. apply fold_left_app. Qed.

Corollary repeated_call_same : forall history call,
  snd (step (fst (step (run history (empty_caches OP CV)) call)) call)
  = snd (step (run history (empty_caches OP CV)) call).
Proof.
  intros history call.
  rewrite (cache_transparent history call).
  change (fst (step (run history (empty_caches OP CV)) call)) with (run [call] (run history (empty_caches OP CV))).
  rewrite <- run_app. apply cache_transparent.
Qed.

(** the answer depends on the texts only through parse / compile: two
    spellings that parse and compile to the same things give the same answer *)
Theorem respelling_transparent : forall history q q' s s' cur op v,
  parse q = Ok op -> parse q' = Ok op -> compile s = Ok v -> compile s' = Ok v ->
  q <> [] -> q' <> [] -> s <> [] -> s' <> [] ->
  snd (step (run history (empty_caches OP CV)) (q, s, cur)) = snd (step (run history (empty_caches OP CV)) (q', s', cur)).
Proof.
  intros history q q' s s' cur op v Hq Hq' Hs Hs' Nq Nq' Ns Ns'.
  rewrite !cache_transparent. unfold cv_fresh, cv_step.
  destruct q; [contradiction|]. destruct q'; [contradiction|]. destruct s; [contradiction|]. destruct s'; [contradiction|].
  cbn [is_empty_str orb empty_caches c_ops c_vals cache_get]. rewrite Hq, Hq'. cbn [c_vals cache_get]. rewrite Hs, Hs'. reflexivity.
Qed.

End C16.
