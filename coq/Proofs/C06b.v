(* Proofs/C06b.v — C06, the remaining positions of the quantifier: a number
   collected by stepping a key across an array of objects, read by Index, and
   handed to a function as its receiver; one level of pointer / interface
   indirection in each of these positions. *)
From Coq Require Import QArith.
From Mpath.Model Require Import Base Dec Types GoVal Ast Lexer Parser Funcs Eval.
From Mpath.Generated Require Import FuncTable.
From Mpath.Proofs Require Import DecQ Strings C04 C06 C01 C17.

Local Open Scope Z_scope.

(* ------------------------------------------------------------------ *)
(** * 1. Stepping a key across an array of objects                      *)
(* ------------------------------------------------------------------ *)

(** an object — a map of any key/value type and nil flag, or a struct — in
    which key [k], up to case folding, holds the value [g] *)
Inductive obj_row (k : str) : gv -> gv -> Prop :=
| or_map kt vt isnil kvs g :
    map_lookup_fold k kvs = Some g -> obj_row k (VMap kt vt isnil kvs) g
| or_struct fs g :
    struct_lookup_fold k fs = Some g -> obj_row k (VStruct fs) g.

(** an object that does not have the key *)
Inductive obj_lacks (k : str) : gv -> Prop :=
| ol_map kt vt isnil kvs :
    map_lookup_fold k kvs = None -> obj_lacks k (VMap kt vt isnil kvs)
| ol_struct fs :
    struct_lookup_fold k fs = None -> obj_lacks k (VStruct fs).

(** the values of key [k] in those rows of [xs] that have it, in order *)
Inductive rows_proj (k : str) : list gv -> list gv -> Prop :=
| rp_nil : rows_proj k [] []
| rp_hit x g xs gs : obj_row k x g -> rows_proj k xs gs -> rows_proj k (x :: xs) (g :: gs)
| rp_miss x xs gs : obj_lacks k x -> rows_proj k xs gs -> rows_proj k (x :: xs) gs.

(** value preservation, pointwise *)
Definition same_value (g : gv) (d : dec) : Prop :=
  exists q, source_value g = Some q /\ (dval d == q)%Q.

Lemma carriers_same_value gs ds : Forall2 num_carrier gs ds -> Forall2 same_value gs ds.
Proof. induction 1; constructor; [apply carrier_value; assumption|assumption]. Qed.

Lemma field_hit k t x g d :
  obj_row k x g -> num_carrier g d -> get_field_by_name k (slot t x) = Some (VDec d).
Proof.
  intros Hr Hc. unfold slot. destruct Hr as [kt vt isnil kvs g Hl|fs g Hl].
  - rewrite field_by_name_map, Hl. cbn [option_map]. rewrite (convert_number_carrier g d Hc). reflexivity.
  - rewrite field_by_name_struct, Hl. cbn [option_map]. rewrite (convert_unless_string_carrier g d Hc). reflexivity.
Qed.

Lemma field_miss k t x : obj_lacks k x -> get_field_by_name k (slot t x) = None.
Proof.
  intros Hr. unfold slot. destruct Hr as [kt vt isnil kvs Hl|fs Hl].
  - rewrite field_by_name_map, Hl. reflexivity.
  - rewrite field_by_name_struct, Hl. reflexivity.
Qed.

Lemma rows_filter k t xs gs ds :
  rows_proj k xs gs -> Forall2 num_carrier gs ds ->
  filter_map (fun x => get_field_by_name k (slot t x)) xs = map VDec ds.
Proof.
  intros H. revert ds. induction H as [|x g xs gs Hx Hr IH|x xs gs Hx Hr IH]; intros ds Hc.
  - inversion Hc. reflexivity.
  - inversion Hc as [|g' d gs' ds' Hg Hrest]; subst. cbn [filter_map map].
    rewrite (field_hit k t x g d Hx Hg), (IH ds' Hrest). reflexivity.
  - cbn [filter_map]. rewrite (field_miss k t x Hx). apply IH. exact Hc.
Qed.

(** the first element decides whether the array is an array of objects *)
Definition is_object (x : gv) : Prop :=
  match x with VMap _ _ _ _ | VStruct _ => True | _ => False end.

Lemma rows_first_object k x xs gs : rows_proj k (x :: xs) gs -> is_object x.
Proof.
  intros H. inversion H as [|x' g xs' gs' Hx|x' xs' gs' Hx]; subst; destruct Hx; exact I.
Qed.

Lemma do_ident_objects k t xs x0 rest :
  xs = x0 :: rest -> is_object x0 ->
  (forall n, do_ident k (VSlice t n xs) =
     match filter_map (fun x => get_field_by_name k (slot t x)) xs with
     | [] => Err EKeyNotFound
     | slc => Ok (VSlice EAny false slc)
     end) /\
  do_ident k (VArray t xs) =
     match filter_map (fun x => get_field_by_name k (slot t x)) xs with
     | [] => Err EKeyNotFound
     | slc => Ok (VSlice EAny false slc)
     end.
Proof.
  intros -> Hx. destruct x0; try contradiction; split; try intros n; destruct t; reflexivity.
Qed.

(** stepping [k] across an array of objects some of which lack the key: the
    rows lacking it are skipped, the order of the others is kept, every
    collected number is the decimal of its carrier — whatever the element type
    tag [t] (EAny = []any, interface slots), the nil flag, slice or Go array *)
Theorem C06b_across_array_some : forall k t xs gs ds,
  rows_proj k xs gs -> Forall2 num_carrier gs ds -> gs <> [] ->
  (forall n, do_ident k (VSlice t n xs) = Ok (VSlice EAny false (map VDec ds))) /\
  do_ident k (VArray t xs) = Ok (VSlice EAny false (map VDec ds)) /\
  Forall2 same_value gs ds.
Proof.
  intros k t xs gs ds Hr Hc Hne.
  assert (Hf := rows_filter k t xs gs ds Hr Hc).
  destruct xs as [|x0 rest]; [inversion Hr; subst; contradiction|].
  destruct (do_ident_objects k t (x0 :: rest) x0 rest eq_refl (rows_first_object k x0 rest gs Hr)) as [Hs Ha].
  assert (Hd : exists d ds', ds = d :: ds').
  { destruct Hc; [contradiction|eauto]. }
  destruct Hd as [d [ds' ->]].
  split; [|split].
  - intros n. rewrite Hs, Hf. reflexivity.
  - rewrite Ha, Hf. reflexivity.
  - apply carriers_same_value. exact Hc.
Qed.
Print Assumptions C06b_across_array_some.

(** no row has the key: key not found *)
Theorem C06b_across_array_none : forall k t xs,
  rows_proj k xs [] ->
  (forall n, do_ident k (VSlice t n xs) = Err EKeyNotFound) /\
  do_ident k (VArray t xs) = Err EKeyNotFound.
Proof.
  intros k t xs Hr.
  assert (Hf := rows_filter k t xs [] [] Hr (Forall2_nil _)).
  destruct xs as [|x0 rest]; [split; [intros n|]; reflexivity|].
  destruct (do_ident_objects k t (x0 :: rest) x0 rest eq_refl (rows_first_object k x0 rest [] Hr)) as [Hs Ha].
  split; [intros n; rewrite Hs, Hf|rewrite Ha, Hf]; reflexivity.
Qed.
Print Assumptions C06b_across_array_none.

Lemma all_rows_proj k xs gs : Forall2 (obj_row k) xs gs -> rows_proj k xs gs.
Proof. induction 1; constructor; assumption. Qed.

(** every row has the key *)
Theorem C06b_across_array : forall k t xs gs ds,
  xs <> [] -> Forall2 (obj_row k) xs gs -> Forall2 num_carrier gs ds ->
  (forall n, do_ident k (VSlice t n xs) = Ok (VSlice EAny false (map VDec ds))) /\
  do_ident k (VArray t xs) = Ok (VSlice EAny false (map VDec ds)) /\
  Forall2 same_value gs ds.
Proof.
  intros k t xs gs ds Hne Hr Hc.
  apply (C06b_across_array_some k t xs gs ds (all_rows_proj k xs gs Hr) Hc).
  destruct Hr; [contradiction|discriminate].
Qed.
Print Assumptions C06b_across_array.

(** the array itself may sit behind one pointer (a *[]T document or field) *)
Theorem C06b_across_array_behind_pointer : forall k t n xs,
  do_ident k (VPtr (Some (VSlice t n xs))) = do_ident k (VSlice t n xs) /\
  do_ident k (VPtr (Some (VArray t xs))) = do_ident k (VArray t xs).
Proof. intros k t n xs. destruct xs; split; reflexivity. Qed.
Print Assumptions C06b_across_array_behind_pointer.

(* ------------------------------------------------------------------ *)
(** * 2. Index (and First / Last on Go arrays and behind a pointer)     *)
(* ------------------------------------------------------------------ *)

Section ArrayFuncs.
Variable eng : engines.

Lemma nth_error_nth_lt (xs : list gv) i g :
  nth_error xs i = Some g -> (i < length xs)%nat /\ nth i xs VNil = g.
Proof.
  intros H. split.
  - apply nth_error_Some. rewrite H. discriminate.
  - apply nth_error_nth. exact H.
Qed.

(** the general form: [cur] is a slice or a Go array of any element type,
    directly or behind one pointer ([elems] of Proofs/C17.v).  The guard on
    the length is the one of C17_index: Index goes through int64. *)
Theorem C06b_index_elems : forall cur xs p i g d,
  elems cur = Some xs -> denotes_nat p i -> nth_error xs i = Some g -> num_carrier g d ->
  Z.of_nat (length xs) < 2 ^ 63 ->
  run_func eng "Index" [RNum p] cur = Ok (VDec d).
Proof.
  intros cur xs p i g d He Hd Hn Hc Hlen.
  destruct (nth_error_nth_lt xs i g Hn) as [Hi Hg].
  rewrite (index_elems eng cur xs p i He Hd Hi Hlen), Hg.
  rewrite (convert_number_carrier g d Hc). reflexivity.
Qed.

Theorem C06b_index : forall t xs p i g d,
  denotes_nat p i -> nth_error xs i = Some g -> num_carrier g d ->
  Z.of_nat (length xs) < 2 ^ 63 ->
  (forall n, run_func eng "Index" [RNum p] (VSlice t n xs) = Ok (VDec d)) /\
  run_func eng "Index" [RNum p] (VArray t xs) = Ok (VDec d) /\
  same_value g d.
Proof.
  intros t xs p i g d Hd Hn Hc Hlen. split; [|split].
  - intros n. apply (C06b_index_elems _ xs p i g d); auto.
  - apply (C06b_index_elems _ xs p i g d); auto.
  - apply carrier_value. exact Hc.
Qed.

(** First and Last in the same generality (Properties/C06.v has slices) *)
Theorem C06b_first_last_elems : forall cur g xs d,
  num_carrier g d ->
  (elems cur = Some (g :: xs) -> run_func eng "First" [] cur = Ok (VDec d)) /\
  (elems cur = Some (xs ++ [g]) -> run_func eng "Last" [] cur = Ok (VDec d)).
Proof.
  intros cur g xs d Hc. split; intros He.
  - rewrite (first_elems eng cur g xs He), (convert_number_carrier g d Hc). reflexivity.
  - rewrite (last_elems eng cur (xs ++ [g]) He) by (destruct xs; discriminate).
    rewrite last_last, (convert_number_carrier g d Hc). reflexivity.
Qed.

End ArrayFuncs.
Print Assumptions C06b_index_elems.
Print Assumptions C06b_index.
Print Assumptions C06b_first_last_elems.

(* ------------------------------------------------------------------ *)
(** * 3. A function applied after a key receives the decimal            *)
(* ------------------------------------------------------------------ *)

(** the functions dispatched by [run_func]: every key of the function table
    but Select (which the evaluator runs itself) *)
Definition plain_function (name : string) : bool :=
  existsb (String.eqb name) (map fd_key func_table) && negb (String.eqb name "Select").

Lemma bs_inj a b : bs a = bs b -> a = b.
Proof.
  unfold bs. intros H.
  rewrite <- (string_of_list_ascii_of_string a), <- (string_of_list_ascii_of_string b), H. reflexivity.
Qed.

Lemma find_by_name name : forall tbl,
  existsb (String.eqb name) (map fd_key tbl) = true ->
  exists fd, find_fdesc_key (bs name) tbl = Some fd /\ fd_key fd = name.
Proof.
  induction tbl as [|d tbl IH]; [discriminate|].
  cbn [map existsb find_fdesc_key]. intros H.
  destruct (str_eqb (bs (fd_key d)) (bs name)) eqn:E.
  - exists d. split; [reflexivity|]. apply bs_inj. apply C01.str_eqb_eq. exact E.
  - apply orb_prop in H. destruct H as [H|H]; [|exact (IH H)].
    apply String.eqb_eq in H. subst name. rewrite C01.str_eqb_refl in E. discriminate.
Qed.

Lemma plain_function_spec name :
  plain_function name = true ->
  exists fd, find_fdesc_key (bs name) func_table = Some fd /\ fd_key fd = name /\
             String.eqb name "Select" = false.
Proof.
  unfold plain_function. intros H. apply andb_prop in H. destruct H as [H1 H2].
  destruct (find_by_name name func_table H1) as [fd [Hf Hk]].
  exists fd. repeat split; try assumption. apply negb_true_iff. exact H2.
Qed.

Example plain_functions_named :
  forallb plain_function
    ["Add"; "Subtract"; "Multiply"; "Divide"; "Modulo"; "Equal"; "NotEqual"; "Less"; "LessOrEqual";
     "Greater"; "GreaterOrEqual"; "AnyOf"; "Sum"; "Average"; "Minimum"; "Maximum"; "AsArray";
     "First"; "Last"; "Index"; "Count"; "Any"; "IsNull"; "IsEmpty"; "AsJSON"] = true /\
  plain_function "Select" = false /\ plain_function "NoSuch" = false.
Proof. vm_compute. repeat split. Qed.

Section Receiver.
Variable uni : uclass.
Variable eng : engines.

(** `$.k` read with a bare rooted path, whatever the current element is *)
Lemma eval_root_key fuel inv me k u us cur doc v :
  do_ident k doc = Ok v ->
  eval uni eng (S (S fuel)) (NPath (Path inv true false me [PIdent k false u] us)) cur doc = Ok v.
Proof.
  intros H. cbn [eval andb path_ops pathop_qmark]. rewrite H. reflexivity.
Qed.

(** the function node that follows a key is evaluated on the decimal: no
    condition on the function at all *)
Theorem C06b_function_receiver_node : forall fuel inv me k u1 u3 f doc d,
  do_ident k doc = Ok (VDec d) ->
  eval uni eng (S (S fuel)) (NPath (Path inv true false me [PIdent k false u1; PFunc f] u3)) doc doc
  = eval uni eng fuel (NFunc f) (VDec d) doc.
Proof.
  intros fuel inv me k u1 u3 f doc d H.
  cbn [eval andb path_ops pathop_qmark pathop_is_func negb]. rewrite H.
  cbn [orb andb path_ops pathop_qmark pathop_is_func negb].
  change (is_nil (VDec d)) with false. cbn [andb].
  destruct (eval uni eng fuel (NFunc f) (VDec d) doc) as [v|[|tg]|m| |w]; reflexivity.
Qed.

(** a function node on a decimal receiver: arguments are resolved by
    [eval_params] with the receiver as current element, then [run_func] is
    called on the decimal itself *)
Theorem C06b_run_on_decimal : forall fuel finv name ps us d orig,
  plain_function name = true ->
  eval uni eng (S fuel) (NFunc (Func finv (bs name) ps us)) (VDec d) orig
  = (do rt <- eval_params (fun m => eval uni eng fuel m (VDec d) orig) ps;
     run_func eng name rt (VDec d)).
Proof.
  intros fuel finv name ps us d orig Hp.
  destruct (plain_function_spec name Hp) as [fd [Hf [Hk Hs]]].
  cbn [eval]. destruct (eval_params _ ps) as [rt|e|m| |w]; cbn [bind]; try reflexivity.
  rewrite Hf, Hk, Hs. reflexivity.
Qed.

(** `$.k.F(ps)` on a map document whose key k holds any numeric carrier.
    Side condition: F is a key of the function table other than Select —
    the computable [plain_function]; for any other name the evaluator never
    reaches run_func.  The right-hand side has the form the function-level
    theorems of Proofs/C04.v and C05.v speak about
    ([run_func eng "Add" ps (VDec v)]). *)
Theorem C06b_function_receiver : forall fuel inv me k u1 u2 u3 finv name ps kt vt isnil kvs g d,
  map_lookup_fold k kvs = Some g -> num_carrier g d -> plain_function name = true ->
  eval uni eng (S (S (S fuel)))
       (NPath (Path inv true false me [PIdent k false u1; PFunc (Func finv (bs name) ps u2)] u3))
       (VMap kt vt isnil kvs) (VMap kt vt isnil kvs)
  = (do rt <- eval_params (fun m => eval uni eng fuel m (VDec d) (VMap kt vt isnil kvs)) ps;
     run_func eng name rt (VDec d)).
Proof.
  intros fuel inv me k u1 u2 u3 finv name ps kt vt isnil kvs g d Hl Hc Hp.
  rewrite (C06b_function_receiver_node (S fuel) inv me k u1 u3 _ _ d (as_map_value k kt vt isnil kvs g d Hl Hc)).
  apply C06b_run_on_decimal. exact Hp.
Qed.

(** the same for a struct document *)
Theorem C06b_function_receiver_struct : forall fuel inv me k u1 u2 u3 finv name ps fs g d,
  struct_lookup_fold k fs = Some g -> num_carrier g d -> plain_function name = true ->
  eval uni eng (S (S (S fuel)))
       (NPath (Path inv true false me [PIdent k false u1; PFunc (Func finv (bs name) ps u2)] u3))
       (VStruct fs) (VStruct fs)
  = (do rt <- eval_params (fun m => eval uni eng fuel m (VDec d) (VStruct fs)) ps;
     run_func eng name rt (VDec d)).
Proof.
  intros fuel inv me k u1 u2 u3 finv name ps fs g d Hl Hc Hp.
  assert (Hne : fs <> []) by (destruct fs; [discriminate|discriminate]).
  rewrite (C06b_function_receiver_node (S fuel) inv me k u1 u3 _ _ d (as_struct_field k fs g d Hne Hl Hc)).
  apply C06b_run_on_decimal. exact Hp.
Qed.

(** sanity check: `$.a.Add($.b)` with a and b held by ANY numeric carriers *)
Corollary C06b_add_fields : forall fuel inv me u1 u2 u3 finv pinv pme pu1 pu2 a b kt vt isnil kvs ga gb da db qa qb,
  map_lookup_fold a kvs = Some ga -> map_lookup_fold b kvs = Some gb ->
  num_carrier ga da -> num_carrier gb db ->
  source_value ga = Some qa -> source_value gb = Some qb ->
  exists r,
    eval uni eng (S (S (S (S (S fuel)))))
      (NPath (Path inv true false me
                [PIdent a false u1;
                 PFunc (Func finv (bs "Add") [FPPath (Path pinv true false pme [PIdent b false pu1] pu2)] u2)] u3))
      (VMap kt vt isnil kvs) (VMap kt vt isnil kvs) = Ok (VDec r) /\
    (dval r == qa + qb)%Q.
Proof.
  intros fuel inv me u1 u2 u3 finv pinv pme pu1 pu2 a b kt vt isnil kvs ga gb da db qa qb Ha Hb Hca Hcb Hqa Hqb.
  rewrite (C06b_function_receiver (S (S fuel)) inv me a u1 u2 u3 finv "Add" _ kt vt isnil kvs ga da Ha Hca eq_refl).
  cbn [eval_params].
  rewrite (eval_root_key fuel pinv pme b pu1 pu2 (VDec da) _ (VDec db) (as_map_value b kt vt isnil kvs gb db Hb Hcb)).
  cbn [bind spread_result app].
  destruct (add_exact eng [RNum db] da db (params_first_number_lit db)) as [r [Hr Hv]].
  exists r. split; [exact Hr|].
  destruct (carrier_value ga da Hca) as [qa' [Ea Va]]. destruct (carrier_value gb db Hcb) as [qb' [Eb Vb]].
  rewrite Hqa in Ea. rewrite Hqb in Eb. injection Ea as <-. injection Eb as <-.
  rewrite Hv, Va, Vb. reflexivity.
Qed.

End Receiver.
Print Assumptions C06b_function_receiver_node.
Print Assumptions C06b_run_on_decimal.
Print Assumptions C06b_function_receiver.
Print Assumptions C06b_function_receiver_struct.
Print Assumptions C06b_add_fields.

(* ------------------------------------------------------------------ *)
(** * 4. One level of pointer / interface indirection                   *)
(* ------------------------------------------------------------------ *)

(** a machine number held directly: an integer of any kind and width (named
    or not) or a finite float *)
Definition direct_number (g : gv) : Prop :=
  match g with VInt _ _ _ | VFloat _ _ (FFin _) => True | _ => False end.

Definition ptr_to (g : gv) : gv := VPtr (Some g).

(** [num_carrier] already contains the pointer case for machine numbers: the
    pointer is a carrier of the same decimal and of the same source value *)
Lemma C06b_pointer_carrier : forall g d, num_carrier g d -> direct_number g ->
  num_carrier (ptr_to g) d /\ source_value (ptr_to g) = source_value g.
Proof.
  intros g d H Hd. destruct H; try contradiction; split; (constructor || reflexivity).
Qed.

Lemma pointer_carriers gs ds :
  Forall2 num_carrier gs ds -> Forall direct_number gs -> Forall2 num_carrier (map ptr_to gs) ds.
Proof.
  induction 1 as [|g d gs ds Hg Hr IH]; intros Hd; [constructor|].
  inversion Hd; subst. cbn [map]. constructor; [|apply IH; assumption].
  apply C06b_pointer_carrier; assumption.
Qed.

(** *T for T a machine number, in every position of the quantifier *)
Theorem C06b_pointer_and_interface : forall g d, num_carrier g d -> direct_number g ->
  (* the value is the pointee's *)
  same_value (ptr_to g) d /\ source_value (ptr_to g) = source_value g /\
  (* at the root *)
  (forall uni eng fuel inv me us,
     eval uni eng (S fuel) (NPath (Path inv true false me [] us)) (ptr_to g) (ptr_to g) = Ok (VDec d)) /\
  (* as a map value (map[K]*T, or map[K]any holding a *T) *)
  (forall k kt vt isnil kvs, map_lookup_fold k kvs = Some (ptr_to g) ->
     do_ident k (VMap kt vt isnil kvs) = Ok (VDec d)) /\
  (* as a struct field, interface-typed or not *)
  (forall k fs, struct_lookup_fold k fs = Some (ptr_to g) -> do_ident k (VStruct fs) = Ok (VDec d)) /\
  (* as an element of []*T, [n]*T or []any read by First / Last / Index *)
  (forall eng cur xs, elems cur = Some (ptr_to g :: xs) -> run_func eng "First" [] cur = Ok (VDec d)) /\
  (forall eng cur xs, elems cur = Some (xs ++ [ptr_to g]) -> run_func eng "Last" [] cur = Ok (VDec d)) /\
  (forall eng cur xs p i, elems cur = Some xs -> denotes_nat p i -> nth_error xs i = Some (ptr_to g) ->
     Z.of_nat (length xs) < 2 ^ 63 -> run_func eng "Index" [RNum p] cur = Ok (VDec d)) /\
  (* as a function receiver *)
  (forall uni eng fuel inv me k u1 u2 u3 finv name ps kt vt isnil kvs,
     map_lookup_fold k kvs = Some (ptr_to g) -> plain_function name = true ->
     eval uni eng (S (S (S fuel)))
       (NPath (Path inv true false me [PIdent k false u1; PFunc (Func finv (bs name) ps u2)] u3))
       (VMap kt vt isnil kvs) (VMap kt vt isnil kvs)
     = (do rt <- eval_params (fun m => eval uni eng fuel m (VDec d) (VMap kt vt isnil kvs)) ps;
        run_func eng name rt (VDec d))).
Proof.
  intros g d Hc Hd. destruct (C06b_pointer_carrier g d Hc Hd) as [Hp Hs].
  split; [apply carrier_value; exact Hp|]. split; [exact Hs|].
  split; [intros; apply at_root; exact Hp|].
  split; [intros k kt vt isnil kvs Hl; apply (as_map_value k kt vt isnil kvs (ptr_to g) d Hl Hp)|].
  split.
  { intros k fs Hl. apply (as_struct_field k fs (ptr_to g) d); [destruct fs; discriminate|exact Hl|exact Hp]. }
  split; [intros eng cur xs He; apply (proj1 (C06b_first_last_elems eng cur (ptr_to g) xs d Hp) He)|].
  split; [intros eng cur xs He; apply (proj2 (C06b_first_last_elems eng cur (ptr_to g) xs d Hp) He)|].
  split; [intros eng cur xs p i He Hn Hi Hlen; apply (C06b_index_elems eng cur xs p i (ptr_to g) d He Hn Hi Hp Hlen)|].
  intros. apply (C06b_function_receiver uni eng fuel inv me k u1 u2 u3 finv name ps kt vt isnil kvs (ptr_to g) d); assumption.
Qed.
Print Assumptions C06b_pointer_and_interface.

(** … and collected by stepping a key across objects whose fields are *T *)
Theorem C06b_pointer_across_array : forall k t xs gs ds,
  xs <> [] -> Forall2 (obj_row k) xs (map ptr_to gs) ->
  Forall2 num_carrier gs ds -> Forall direct_number gs ->
  (forall n, do_ident k (VSlice t n xs) = Ok (VSlice EAny false (map VDec ds))) /\
  do_ident k (VArray t xs) = Ok (VSlice EAny false (map VDec ds)) /\
  Forall2 same_value (map ptr_to gs) ds.
Proof.
  intros k t xs gs ds Hne Hr Hc Hd.
  apply (C06b_across_array k t xs (map ptr_to gs) ds Hne Hr (pointer_carriers gs ds Hc Hd)).
Qed.
Print Assumptions C06b_pointer_across_array.

(** interface slots: the elements of an [EAny] slice / array ([]any, [n]any).
    Whatever carrier the interface holds — including a pointer to a machine
    number — First, Last and Index return its decimal, and a key stepped
    across []any of objects collects the decimals. *)
Theorem C06b_interface_slots : forall eng g d, num_carrier g d ->
  (forall n rest, run_func eng "First" [] (VSlice EAny n (g :: rest)) = Ok (VDec d)) /\
  (forall rest, run_func eng "First" [] (VArray EAny (g :: rest)) = Ok (VDec d)) /\
  (forall n pre, run_func eng "Last" [] (VSlice EAny n (pre ++ [g])) = Ok (VDec d)) /\
  (forall pre, run_func eng "Last" [] (VArray EAny (pre ++ [g])) = Ok (VDec d)) /\
  (forall n xs p i, denotes_nat p i -> nth_error xs i = Some g -> Z.of_nat (length xs) < 2 ^ 63 ->
     run_func eng "Index" [RNum p] (VSlice EAny n xs) = Ok (VDec d) /\
     run_func eng "Index" [RNum p] (VArray EAny xs) = Ok (VDec d)) /\
  (direct_number g -> forall n rest,
     run_func eng "First" [] (VSlice EAny n (ptr_to g :: rest)) = Ok (VDec d)) /\
  (forall k x n, obj_row k x g -> do_ident k (VSlice EAny n [x]) = Ok (VSlice EAny false [VDec d])).
Proof.
  intros eng g d Hc.
  split; [intros n rest; apply (proj1 (C06b_first_last_elems eng _ g rest d Hc)); reflexivity|].
  split; [intros rest; apply (proj1 (C06b_first_last_elems eng _ g rest d Hc)); reflexivity|].
  split; [intros n pre; apply (proj2 (C06b_first_last_elems eng _ g pre d Hc)); reflexivity|].
  split; [intros pre; apply (proj2 (C06b_first_last_elems eng _ g pre d Hc)); reflexivity|].
  split.
  { intros n xs p i Hd Hn Hlen. destruct (C06b_index eng EAny xs p i g d Hd Hn Hc Hlen) as [Hs [Ha _]].
    split; [apply Hs|exact Ha]. }
  split.
  { intros Hd n rest. destruct (C06b_pointer_carrier g d Hc Hd) as [Hp _].
    apply (proj1 (C06b_first_last_elems eng _ (ptr_to g) rest d Hp)). reflexivity. }
  intros k x n Hr.
  destruct (C06b_across_array k EAny [x] [g] [d]) as [Hs _];
    [discriminate|repeat constructor; exact Hr|repeat constructor; exact Hc|]. apply Hs.
Qed.
Print Assumptions C06b_interface_slots.

(** ** A pointer to a decimal.Decimal *)

(** repo fix 4453c04: convertToDecimalIfNumberAndCheck starts with the type
    assertion of val to pointer-to-decimal.Decimal, so a non-nil *decimal.Decimal comes out
    as the decimal it points to — the pointee itself, a fortiori with its value
    intact.  (Before the fix the conversion looked at the reflect.Kind after one
    dereference, found a struct, and returned the POINTER: the former
    [pointer_to_decimal_unchanged] / [C06b_pointer_to_decimal_refuted].)
    [num_carrier] and [source_value] of Proofs/C06.v are kept as they were; the
    pointer to a decimal is stated here on its own. *)
Theorem C06b_pointer_to_decimal : forall d,
  convert_number (VPtr (Some (VDec d))) = VDec d /\
  convert_unless_string (VPtr (Some (VDec d))) = VDec d.
Proof. intros d. split; reflexivity. Qed.
Print Assumptions C06b_pointer_to_decimal.

(** all that the position lemmas use of a carrier: both conversions yield [d] *)
Definition converts (g : gv) (d : dec) : Prop :=
  convert_number g = VDec d /\ convert_unless_string g = VDec d.

Lemma carrier_converts g d : num_carrier g d -> converts g d.
Proof.
  intros H. split; [exact (convert_number_carrier g d H)|exact (convert_unless_string_carrier g d H)].
Qed.

Lemma pointer_to_decimal_converts d : converts (ptr_to (VDec d)) d.
Proof. exact (C06b_pointer_to_decimal d). Qed.

Lemma cv_at_root uni eng fuel inv me us g d : converts g d ->
  eval uni eng (S fuel) (NPath (Path inv true false me [] us)) g g = Ok (VDec d).
Proof. intros [_ H]. cbn [eval andb]. cbn [path_ops]. rewrite H. reflexivity. Qed.

Lemma cv_map_value name kt vt isnil kvs g d :
  map_lookup_fold name kvs = Some g -> converts g d ->
  do_ident name (VMap kt vt isnil kvs) = Ok (VDec d).
Proof. intros Hl [_ H]. unfold do_ident. cbn. rewrite Hl. rewrite H. reflexivity. Qed.

Lemma cv_struct_field name fs g d :
  struct_lookup_fold name fs = Some g -> converts g d ->
  do_ident name (VStruct fs) = Ok (VDec d).
Proof.
  intros Hl [_ H]. unfold do_ident. cbn. unfold get_values_by_name. cbn.
  unfold get_field_by_name. cbn. rewrite Hl. cbn. rewrite H. reflexivity.
Qed.

Lemma cv_field_hit k t x g d :
  obj_row k x g -> converts g d -> get_field_by_name k (slot t x) = Some (VDec d).
Proof.
  intros Hr [Hn Hu]. unfold slot. destruct Hr as [kt vt isnil kvs g Hl|fs g Hl].
  - rewrite field_by_name_map, Hl. cbn [option_map]. rewrite Hn. reflexivity.
  - rewrite field_by_name_struct, Hl. cbn [option_map]. rewrite Hu. reflexivity.
Qed.

Lemma cv_rows_filter k t xs gs ds :
  rows_proj k xs gs -> Forall2 converts gs ds ->
  filter_map (fun x => get_field_by_name k (slot t x)) xs = map VDec ds.
Proof.
  intros H. revert ds. induction H as [|x g xs gs Hx Hr IH|x xs gs Hx Hr IH]; intros ds Hc.
  - inversion Hc. reflexivity.
  - inversion Hc as [|g' d gs' ds' Hg Hrest]; subst. cbn [filter_map map].
    rewrite (cv_field_hit k t x g d Hx Hg), (IH ds' Hrest). reflexivity.
  - cbn [filter_map]. rewrite (field_miss k t x Hx). apply IH. exact Hc.
Qed.

(** [C06b_across_array_some] for rows whose values are any mixture of numeric
    carriers and pointers to decimals *)
Theorem C06b_across_array_converts : forall k t xs gs ds,
  rows_proj k xs gs -> Forall2 converts gs ds -> gs <> [] ->
  (forall n, do_ident k (VSlice t n xs) = Ok (VSlice EAny false (map VDec ds))) /\
  do_ident k (VArray t xs) = Ok (VSlice EAny false (map VDec ds)).
Proof.
  intros k t xs gs ds Hr Hc Hne.
  assert (Hf := cv_rows_filter k t xs gs ds Hr Hc).
  destruct xs as [|x0 rest]; [inversion Hr; subst; contradiction|].
  destruct (do_ident_objects k t (x0 :: rest) x0 rest eq_refl (rows_first_object k x0 rest gs Hr)) as [Hs Ha].
  assert (Hd : exists d ds', ds = d :: ds').
  { destruct Hc; [contradiction|eauto]. }
  destruct Hd as [d [ds' ->]].
  split.
  - intros n. rewrite Hs, Hf. reflexivity.
  - rewrite Ha, Hf. reflexivity.
Qed.
Print Assumptions C06b_across_array_converts.

Lemma cv_index_elems eng cur xs p i g d :
  elems cur = Some xs -> denotes_nat p i -> nth_error xs i = Some g -> converts g d ->
  Z.of_nat (length xs) < 2 ^ 63 ->
  run_func eng "Index" [RNum p] cur = Ok (VDec d).
Proof.
  intros He Hd Hn [Hc _] Hlen.
  destruct (nth_error_nth_lt xs i g Hn) as [Hi Hg].
  rewrite (index_elems eng cur xs p i He Hd Hi Hlen), Hg.
  rewrite Hc. reflexivity.
Qed.

Lemma cv_first_last_elems eng cur g xs d :
  converts g d ->
  (elems cur = Some (g :: xs) -> run_func eng "First" [] cur = Ok (VDec d)) /\
  (elems cur = Some (xs ++ [g]) -> run_func eng "Last" [] cur = Ok (VDec d)).
Proof.
  intros [Hc _]. split; intros He.
  - rewrite (first_elems eng cur g xs He), Hc. reflexivity.
  - rewrite (last_elems eng cur (xs ++ [g]) He) by (destruct xs; discriminate).
    rewrite last_last, Hc. reflexivity.
Qed.

(** *decimal.Decimal in every position of the quantifier, mirroring
    [C06b_pointer_and_interface]; the result is the pointee [VDec d] itself *)
Theorem C06b_pointer_to_decimal_positions : forall d,
  (* at the root *)
  (forall uni eng fuel inv me us,
     eval uni eng (S fuel) (NPath (Path inv true false me [] us)) (ptr_to (VDec d)) (ptr_to (VDec d)) = Ok (VDec d)) /\
  (* as a map value (map[K]*decimal.Decimal, or map[K]any holding one) *)
  (forall k kt vt isnil kvs, map_lookup_fold k kvs = Some (ptr_to (VDec d)) ->
     do_ident k (VMap kt vt isnil kvs) = Ok (VDec d)) /\
  (* as a struct field, interface-typed or not *)
  (forall k fs, struct_lookup_fold k fs = Some (ptr_to (VDec d)) -> do_ident k (VStruct fs) = Ok (VDec d)) /\
  (* as an element of []*decimal.Decimal, [n]*decimal.Decimal or []any read by First / Last / Index *)
  (forall eng cur xs, elems cur = Some (ptr_to (VDec d) :: xs) -> run_func eng "First" [] cur = Ok (VDec d)) /\
  (forall eng cur xs, elems cur = Some (xs ++ [ptr_to (VDec d)]) -> run_func eng "Last" [] cur = Ok (VDec d)) /\
  (forall eng cur xs p i, elems cur = Some xs -> denotes_nat p i -> nth_error xs i = Some (ptr_to (VDec d)) ->
     Z.of_nat (length xs) < 2 ^ 63 -> run_func eng "Index" [RNum p] cur = Ok (VDec d)) /\
  (* as a function receiver *)
  (forall uni eng fuel inv me k u1 u2 u3 finv name ps kt vt isnil kvs,
     map_lookup_fold k kvs = Some (ptr_to (VDec d)) -> plain_function name = true ->
     eval uni eng (S (S (S fuel)))
       (NPath (Path inv true false me [PIdent k false u1; PFunc (Func finv (bs name) ps u2)] u3))
       (VMap kt vt isnil kvs) (VMap kt vt isnil kvs)
     = (do rt <- eval_params (fun m => eval uni eng fuel m (VDec d) (VMap kt vt isnil kvs)) ps;
        run_func eng name rt (VDec d))) /\
  (forall uni eng fuel inv me k u1 u2 u3 finv name ps fs,
     struct_lookup_fold k fs = Some (ptr_to (VDec d)) -> plain_function name = true ->
     eval uni eng (S (S (S fuel)))
       (NPath (Path inv true false me [PIdent k false u1; PFunc (Func finv (bs name) ps u2)] u3))
       (VStruct fs) (VStruct fs)
     = (do rt <- eval_params (fun m => eval uni eng fuel m (VDec d) (VStruct fs)) ps;
        run_func eng name rt (VDec d))).
Proof.
  intros d. pose proof (pointer_to_decimal_converts d) as Hp.
  split; [intros; apply cv_at_root; exact Hp|].
  split; [intros k kt vt isnil kvs Hl; apply (cv_map_value k kt vt isnil kvs (ptr_to (VDec d)) d Hl Hp)|].
  split; [intros k fs Hl; apply (cv_struct_field k fs (ptr_to (VDec d)) d Hl Hp)|].
  split; [intros eng cur xs He; apply (proj1 (cv_first_last_elems eng cur (ptr_to (VDec d)) xs d Hp) He)|].
  split; [intros eng cur xs He; apply (proj2 (cv_first_last_elems eng cur (ptr_to (VDec d)) xs d Hp) He)|].
  split; [intros eng cur xs p i He Hn Hi Hlen; apply (cv_index_elems eng cur xs p i (ptr_to (VDec d)) d He Hn Hi Hp Hlen)|].
  split.
  - intros uni eng fuel inv me k u1 u2 u3 finv name ps kt vt isnil kvs Hl Hpf.
    rewrite (C06b_function_receiver_node uni eng (S fuel) inv me k u1 u3 _ _ d
               (cv_map_value k kt vt isnil kvs (ptr_to (VDec d)) d Hl Hp)).
    apply C06b_run_on_decimal. exact Hpf.
  - intros uni eng fuel inv me k u1 u2 u3 finv name ps fs Hl Hpf.
    rewrite (C06b_function_receiver_node uni eng (S fuel) inv me k u1 u3 _ _ d
               (cv_struct_field k fs (ptr_to (VDec d)) d Hl Hp)).
    apply C06b_run_on_decimal. exact Hpf.
Qed.
Print Assumptions C06b_pointer_to_decimal_positions.

Lemma pointer_to_decimal_all_convert ds : Forall2 converts (map ptr_to (map VDec ds)) ds.
Proof. induction ds; cbn [map]; constructor; [apply pointer_to_decimal_converts|assumption]. Qed.

(** … and collected by stepping a key across objects whose fields are
    *decimal.Decimal (every row has the key; for rows lacking it and for rows
    mixing pointers with other carriers see [C06b_across_array_converts]) *)
Theorem C06b_pointer_to_decimal_across_array : forall k t xs ds,
  xs <> [] -> Forall2 (obj_row k) xs (map ptr_to (map VDec ds)) ->
  (forall n, do_ident k (VSlice t n xs) = Ok (VSlice EAny false (map VDec ds))) /\
  do_ident k (VArray t xs) = Ok (VSlice EAny false (map VDec ds)).
Proof.
  intros k t xs ds Hne Hr.
  apply (C06b_across_array_converts k t xs (map ptr_to (map VDec ds)) ds
           (all_rows_proj k xs _ Hr) (pointer_to_decimal_all_convert ds)).
  destruct Hr; [contradiction|discriminate].
Qed.
Print Assumptions C06b_pointer_to_decimal_across_array.

Definition jkey (s : string) : gv := VStr false (bs s).

(** the former witness of the refutation, g = decimal 1.5 behind a pointer:
    every position now yields the decimal, and arithmetic on it works *)
Example C06b_pointer_to_decimal_example :
  let g := VDec (mkDec 15 (-1)) in
  let doc := VMap KtStr EAny false [(jkey "a", ptr_to g)] in
  num_carrier g (mkDec 15 (-1)) /\
  do_ident (bs "a") doc = Ok g /\
  C17.run "$.a" doc = Some (Ok g) /\
  C17.run "$.a.Add(1)" doc = Some (Ok (VDec (mkDec 25 (-1)))) /\
  run_func no_engines "First" [] (VSlice EAny false [ptr_to g]) = Ok g /\
  run_func no_engines "Index" [RNum (mkDec 0 0)] (VSlice ETOther false [ptr_to g]) = Ok g /\
  do_ident (bs "a") (VSlice ETOther false [doc]) = Ok (VSlice EAny false [g]).
Proof. cbv zeta. split; [constructor|]. repeat split; vm_compute; reflexivity. Qed.

(** ** Where indirection is NOT converted *)

(** two levels, a pointer to a pointer to T, are outside the property; for the
    record, the model leaves them unchanged — also when T is decimal.Decimal
    (the type assertion is for *decimal.Decimal, not **decimal.Decimal) *)
Example C06b_two_pointers_unchanged :
  convert_number (ptr_to (ptr_to (VInt KInt false 7))) = ptr_to (ptr_to (VInt KInt false 7)).
Proof. reflexivity. Qed.

Theorem C06b_two_pointers_to_decimal_unchanged : forall d,
  convert_number (ptr_to (ptr_to (VDec d))) = ptr_to (ptr_to (VDec d)) /\
  convert_unless_string (ptr_to (ptr_to (VDec d))) = ptr_to (ptr_to (VDec d)).
Proof. intros d. split; reflexivity. Qed.

(* ------------------------------------------------------------------ *)
(** * 5. A concrete document                                            *)
(* ------------------------------------------------------------------ *)

Definition u64max : gv := VInt KUint64 false 18446744073709551615.
Definition f01 : gv := VFloat false false (FFin (mkDec 1 (-1))).   (* float64 0.1: its shortest round-tripping decimal *)
Definition i8min : gv := VInt KInt8 false (-128).

Definition jmap (kvs : list (string * gv)) : gv :=
  VMap KtStr EAny false (map (fun kv => (jkey (fst kv), snd kv)) kvs).

(** []map[string]any{{"k": uint64 max}, {"k": 0.1}, {"K": int8 -128}} *)
Definition map_rows (t : ety) : gv :=
  VSlice t false [jmap [("k", u64max)]; jmap [("k", f01)]; jmap [("K", i8min)]].
(** []struct{ K any }{{max}, {0.1}, {-128}} *)
Definition struct_rows (t : ety) : gv :=
  VSlice t false [VStruct [(bs "K", true, true, u64max)]; VStruct [(bs "K", true, true, f01)];
                  VStruct [(bs "K", true, true, i8min)]].
(** the same rows with statically typed fields, as [3]any *)
Definition struct_rows_array : gv :=
  VArray EAny [VStruct [(bs "K", true, false, u64max)]; VStruct [(bs "K", true, false, f01)];
               VStruct [(bs "K", true, false, i8min)]].
(** rows whose field is a pointer to the number: struct{ K *uint64 } … *)
Definition ptr_rows : gv :=
  VSlice ETOther false [VStruct [(bs "K", true, false, ptr_to u64max)]; jmap [("k", ptr_to f01)];
                        VStruct [(bs "k", false, false, VNil); (bs "K", true, true, ptr_to i8min)]].

Definition doc_of (rows : gv) : gv := jmap [("rows", rows); ("a", u64max); ("b", f01)].

Definition three : list dec := [mkDec 18446744073709551615 0; mkDec 1 (-1); mkDec (-128) 0].
Definition three_decimals : gv := VSlice EAny false (map VDec three).

Example C06b_example :
  C17.run "$.rows.k" (doc_of (map_rows ETOther)) = Some (Ok three_decimals) /\
  C17.run "$.rows.k" (doc_of (map_rows EAny)) = Some (Ok three_decimals) /\
  C17.run "$.rows.k" (doc_of (struct_rows ETOther)) = Some (Ok three_decimals) /\
  C17.run "$.rows.k" (doc_of (struct_rows EAny)) = Some (Ok three_decimals) /\
  C17.run "$.rows.k" (doc_of struct_rows_array) = Some (Ok three_decimals) /\
  C17.run "$.rows.k" (doc_of ptr_rows) = Some (Ok three_decimals) /\
  C17.run "$.rows.Index(0).k" (doc_of (map_rows ETOther)) = Some (Ok (VDec (mkDec 18446744073709551615 0))) /\
  C17.run "$.rows.Index(0).k" (doc_of (struct_rows ETOther)) = Some (Ok (VDec (mkDec 18446744073709551615 0))) /\
  C17.run "$.rows.Index(2).k" (doc_of ptr_rows) = Some (Ok (VDec (mkDec (-128) 0))) /\
  C17.run "$.rows.k.Index(1)" (doc_of (map_rows ETOther)) = Some (Ok (VDec (mkDec 1 (-1)))) /\
  C17.run "$.rows.k.Last()" (doc_of (struct_rows EAny)) = Some (Ok (VDec (mkDec (-128) 0))) /\
  C17.run "$.a.Add($.b)" (doc_of VNil) = Some (Ok (VDec (mkDec 184467440737095516151 (-1)))) /\
  Forall2 num_carrier [u64max; f01; i8min] three /\
  Forall2 same_value [u64max; f01; i8min] three.
Proof.
  assert (Hc : Forall2 num_carrier [u64max; f01; i8min] three) by (repeat constructor).
  repeat (split; [vm_compute; reflexivity|]).
  split; [exact Hc|apply carriers_same_value; exact Hc].
Qed.

(** the general theorems instantiated on that document agree with the run *)
Example C06b_example_by_theorem :
  do_ident (bs "k") (map_rows ETOther) = Ok three_decimals /\
  do_ident (bs "k") (struct_rows EAny) = Ok three_decimals.
Proof.
  split.
  - apply (C06b_across_array (bs "k") ETOther _ [u64max; f01; i8min] three); [discriminate| |repeat constructor].
    repeat constructor; reflexivity.
  - apply (C06b_across_array (bs "k") EAny _ [u64max; f01; i8min] three); [discriminate| |repeat constructor].
    repeat constructor; reflexivity.
Qed.

(** the query text of [C06b_add_fields] is what the parser produces *)
Example C06b_add_fields_query :
  parse_string uni_ascii (bs "$.a.Add($.b)") =
  Ok (TopP (Path false true false false
              [PIdent (bs "a") false (bs "a");
               PFunc (Func false (bs "Add") [FPPath (Path false true false false [PIdent (bs "b") false (bs "b")] (bs "$.b"))]
                           (bs "Add($.b)"))]
              (bs "$.a.Add($.b)"))).
Proof. vm_compute. reflexivity. Qed.

Check C06b_across_array.
Check C06b_across_array_some.
Check C06b_across_array_none.
Check C06b_across_array_behind_pointer.
Check C06b_index.
Check C06b_index_elems.
Check C06b_first_last_elems.
Check C06b_function_receiver_node.
Check C06b_run_on_decimal.
Check C06b_function_receiver.
Check C06b_function_receiver_struct.
Check C06b_add_fields.
Check C06b_pointer_carrier.
Check C06b_pointer_and_interface.
Check C06b_pointer_across_array.
Check C06b_interface_slots.
Check C06b_pointer_to_decimal.
Check C06b_pointer_to_decimal_positions.
Check C06b_across_array_converts.
Check C06b_pointer_to_decimal_across_array.
Check C06b_pointer_to_decimal_example.
Check C06b_two_pointers_to_decimal_unchanged.
Check C06b_example.
Print Assumptions C06b_pointer_to_decimal_example.
Print Assumptions C06b_two_pointers_to_decimal_unchanged.
Print Assumptions C06b_example.
