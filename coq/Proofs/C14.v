(* C14.v — function typing: CueValidate accepts a call exactly when the
   descriptor says so, reports the descriptor's Returns type (refined to the
   element type for First/Last/Index on a typed list), and evaluation of an
   accepted call on conforming data never fails with a wrong-type error.

   Part 1  opFunction.Validate with its parameter loop as a named function
   Part 2  C14_accepts_iff (any descriptor table) and its CueValidate-level form
   Part 3  C14_reported_type, the deviations from the property text
   Part 4  C14_type_sound over the generated table (a boolean coverage check
           re-run by vm_compute whenever Generated/FuncTable.v changes) *)
From Mpath.Model Require Import Base Dec Types GoVal Ast Parser Funcs Cue Validate.
From Mpath.Generated Require Import FuncTable.
From Mpath.Proofs Require Import NoPanic.
From Mpath.Spec Require Import Walk.
From Mpath.Proofs Require Import C13.

(** * Part 1 *)
Lemma Types_iotype_eqb_eq a b : iotype_eqb a b = true -> a = b.
Proof. destruct a, b; simpl; intros; congruence. Qed.
Lemma ptype_eqb_eq a b : ptype_eqb a b = true -> a = b.
Proof. destruct a, b; simpl; intros; congruence. Qed.

Section Func.
Variable tbl : list fdesc.
Variable root : cty.
Variable blocked : list str.

Definition param_step (cue_path : list str) (p : param) : paramres * option vty :=
  match p with
  | FPNum _ => (mkParamres None None, Some (Some (PT_Number, IO_Single)))
  | FPStr _ => (mkParamres None None, Some (Some (PT_String, IO_Single)))
  | FPBool _ => (mkParamres None None, Some (Some (PT_Boolean, IO_Single)))
  | FPPath q =>
    let r := validate_path tbl root blocked q cue_path in
    let pp := Some (path_has r, path_errs r) in
    match pr_error r with
    | Some e => (mkParamres (Some e) pp, None)
    | None =>
      match pr_parts r with
      | [] => (mkParamres (Some [ENoParts]) pp, None)
      | _ :: _ => (mkParamres None pp, Some (pr_type r))
      end
    end
  | FPLog l =>
    let r := validate_log tbl root blocked l cue_path in
    let pp := Some (log_has r, log_errs r) in
    match lr_error r with
    | Some e => (mkParamres (Some e) pp, None)
    | None =>
      match lr_parts r with
      | [] => (mkParamres (Some [ENoParts]) pp, None)
      | _ :: _ => (mkParamres None pp, Some (Some (PT_Boolean, IO_Single)))
      end
    end
  end.

Section ParamsLoop.
Variable cue_path : list str.
Variable fparams : list ioty.
Fixpoint params_loop (ps : list param) (i : nat) (variadic : option nat) : list paramres :=
  match ps with
  | [] => []
  | p :: rest =>
    let '(pr, go) := param_step cue_path p in
    match go with
    | None => pr :: params_loop rest (S i) variadic
    | Some pret =>
      let '(e, variadic') := check_param fparams i variadic pret in
      mkParamres e (pa_part pr) :: params_loop rest (S i) variadic'
    end
  end.
End ParamsLoop.

Definition func_result (fd : fdesc) (v : cty) (e0 : merr) (prev : vty) (prs : list paramres) : part * vty * bool * bool :=
  let e1 := receiver_error e0 (fd_on fd) prev in
  let k := underlying_kind v in
  let ty := refine_return (fd_ret fd) k prev in
  let known := fd_known fd in
  let in_known_branch := known && iotype_eqb (snd (fd_ret fd)) IO_Single
                         && vty_io_is prev IO_Array && vty_ty_is prev PT_Object && ckind_eqb k KStruct in
  let ty' := if in_known_branch then (PT_Object, snd ty) else ty in
  let fields_fail := in_known_branch &&
                     negb (is_some (match underlying_value v with
                                    | Some u => available_fields u blocked
                                    | None => None
                                    end)) in
  let e2 := if fields_fail then set_error e1 [EOtherErr] else e1 in
  (mkPart KFunc e2 (existsb param_has prs) (flat_map param_errs prs) (Some ty'), Some ty', known, fields_fail).

Lemma validate_func_unfold invalid ft ps us cue prev :
  validate_func tbl root blocked (Func invalid ft ps us) cue prev =
  match find_value_at_path root cue with
  | None => (mkPart KFunc (Some [EUndeclared]) false [] None, None, false, false)
  | Some v =>
    match find_fdesc_key ft tbl with
    | None => (mkPart KFunc (Some [EUnknownFunction]) false [] None, None, false, false)
    | Some fd => func_result fd v (if invalid then Some [EInvalidOp] else None) prev
                             (params_loop cue (fd_params fd) ps O None)
    end
  end.
Proof. reflexivity. Qed.
End Func.

(** * Part 2: accepts iff known, arity, receiver *)

(** ** Specification-side notions *)

(** ValidOn admits the type of the value the function is applied to *)
Definition admits (on prev : ioty) : bool :=
  (ptype_eqb (fst on) PT_Any || ptype_eqb (fst prev) (fst on))
  && (iotype_eqb (snd on) IO_Variadic || iotype_eqb (snd prev) (snd on)).

(** left unspecified by the property: ValidOn is Any but Single where the value
    is an Array, or Array where the value is Single *)
Definition any_single_array_gap (on prev : ioty) : bool :=
  ptype_eqb (fst on) PT_Any && negb (iotype_eqb (snd on) IO_Variadic) && negb (iotype_eqb (snd prev) (snd on)).

(** a ValidOn that names a type and is Variadic: no descriptor of ListFunctions()
    has one (see [func_table_no_typed_variadic]); opFunction.Validate would refuse every
    Single or Array value for it *)
Definition typed_variadic (on : ioty) : bool :=
  negb (ptype_eqb (fst on) PT_Any) && iotype_eqb (snd on) IO_Variadic.

Definition is_variadic (pd : ioty) : bool := iotype_eqb (snd pd) IO_Variadic.
Definition has_variadic (params : list ioty) : bool := existsb is_variadic params.

(** no more arguments than declared parameters; unbounded with a variadic parameter *)
Definition arity_ok (params : list ioty) (n : nat) : bool := (n <=? length params)%nat || has_variadic params.

(** an argument of (validated) type [t] fits the parameter descriptor [pd], as far as
    opFunction.Validate looks: Single/Array-ness for Single and Array parameters, the
    type for a variadic one *)
Definition fits (pd : ioty) (t : vty) : bool :=
  match snd pd with
  | IO_Single => vty_io_is t IO_Single
  | IO_Array => vty_io_is t IO_Array
  | IO_Variadic => ptype_eqb (fst pd) PT_Any || vty_ty_is t (fst pd)
  end.

(** arguments are matched to parameters left to right; a variadic parameter takes all
    the remaining ones; arguments beyond the parameters are not constrained here *)
Fixpoint conform (params : list ioty) (ats : list vty) {struct ats} : bool :=
  match ats, params with
  | [], _ => true
  | _ :: _, [] => true
  | t :: ats', pd :: params' =>
    if is_variadic pd then forallb (fits pd) ats else fits pd t && conform params' ats'
  end.

Fixpoint match_b (params : list ioty) (ats : list vty) {struct ats} : bool :=
  match ats with
  | [] => true
  | t :: ats' =>
    match params with
    | [] => false
    | pd :: params' => if is_variadic pd then forallb (fits pd) ats else fits pd t && match_b params' ats'
    end
  end.

Lemma match_split params ats : match_b params ats = arity_ok params (length ats) && conform params ats.
Proof.
  revert params. induction ats as [|t ats IH]; intros params.
  - reflexivity.
  - destruct params as [|pd params]; [reflexivity|].
    cbn [match_b conform length]. unfold arity_ok, has_variadic. cbn [existsb length].
    destruct (is_variadic pd) eqn:E.
    + rewrite orb_true_r. reflexivity.
    + rewrite IH. unfold arity_ok, has_variadic. cbn [orb].
      change (S (length ats) <=? S (length params))%nat with (length ats <=? length params)%nat.
      destruct (fits pd t), ((length ats <=? length params)%nat || existsb is_variadic params); reflexivity.
Qed.

Section Accept.
Variable tbl : list fdesc.
Variable root : cty.
Variable blocked : list str.

(** an argument that validates without error, and its type *)
Definition arg_ok (cue : list str) (p : param) : option vty :=
  let '(pr, go) := param_step tbl root blocked cue p in
  if param_has pr then None else go.

Fixpoint arg_types (cue : list str) (ps : list param) : option (list vty) :=
  match ps with
  | [] => Some []
  | p :: rest =>
    match arg_ok cue p, arg_types cue rest with
    | Some t, Some ts => Some (t :: ts)
    | _, _ => None
    end
  end.

Lemma nth_error_skipn {A} (l : list A) i :
  match nth_error l i with
  | Some x => skipn i l = x :: skipn (S i) l
  | None => skipn i l = []
  end.
Proof.
  revert i. induction l as [|a l IH]; intros [|i]; try reflexivity.
  cbn [nth_error]. specialize (IH i). destruct (nth_error l i); cbn [skipn] in *; exact IH.
Qed.

Lemma params_loop_some cue fparams j pd :
  nth_error fparams j = Some pd -> is_variadic pd = true ->
  forall ps ats i, arg_types cue ps = Some ats ->
  existsb param_has (params_loop tbl root blocked cue fparams ps i (Some j)) = negb (forallb (fits pd) ats).
Proof.
  intros Hn Hv. induction ps as [|p ps IH]; intros ats i Ha.
  - injection Ha as <-. reflexivity.
  - cbn [arg_types] in Ha. unfold arg_ok in Ha.
    cbn [params_loop].
    destruct (param_step tbl root blocked cue p) as [pr go].
    destruct (param_has pr) eqn:Ep; [discriminate|].
    destruct go as [t|]; [|discriminate].
    destruct (arg_types cue ps) as [ts|]; [|discriminate]. injection Ha as <-.
    unfold check_param. rewrite Hn.
    unfold is_variadic in Hv. apply Types_iotype_eqb_eq in Hv.
    rewrite Hv. cbn [existsb forallb].
    rewrite (IH ts (S i) eq_refl).
    unfold param_has in *. cbn [pa_error pa_part].
    apply orb_false_iff in Ep. destruct Ep as [_ Ep]. rewrite Ep, orb_false_r.
    unfold fits. rewrite Hv.
    destruct (ptype_eqb (fst pd) PT_Any || vty_ty_is t (fst pd)) eqn:E.
    + apply orb_true_iff in E. destruct E as [E|E]; rewrite E; [reflexivity|rewrite andb_false_r; reflexivity].
    + apply orb_false_iff in E. destruct E as [E1 E2]. rewrite E1, E2. reflexivity.
Qed.

Lemma params_loop_none cue fparams :
  forall ps ats i, arg_types cue ps = Some ats ->
  existsb param_has (params_loop tbl root blocked cue fparams ps i None) = negb (match_b (skipn i fparams) ats).
Proof.
  induction ps as [|p ps IH]; intros ats i Ha.
  - injection Ha as <-. reflexivity.
  - cbn [arg_types] in Ha. unfold arg_ok in Ha.
    cbn [params_loop].
    destruct (param_step tbl root blocked cue p) as [pr go].
    destruct (param_has pr) eqn:Ep; [discriminate|].
    destruct go as [t|]; [|discriminate].
    destruct (arg_types cue ps) as [ts|] eqn:Ets; [|discriminate]. injection Ha as <-.
    assert (Hpr : forall e, param_has (mkParamres e (pa_part pr)) = is_some e).
    { intros e. unfold param_has in *. cbn [pa_error pa_part].
      apply orb_false_iff in Ep. destruct Ep as [_ Ep]. rewrite Ep. apply orb_false_r. }
    unfold check_param.
    pose proof (nth_error_skipn fparams i) as Hs.
    destruct (nth_error fparams i) as [pd|] eqn:En.
    + rewrite Hs. cbn [match_b]. unfold is_variadic.
      destruct (iotype_eqb (snd pd) IO_Variadic) eqn:Ev.
      * (* the variadic parameter: from here on every argument is checked against it *)
        pose proof (Types_iotype_eqb_eq _ _ Ev) as Ev'. rewrite Ev'.
        cbn [existsb forallb]. rewrite Hpr.
        rewrite (params_loop_some cue fparams i pd En Ev ps ts (S i) Ets).
        unfold fits. rewrite Ev'.
        destruct (ptype_eqb (fst pd) PT_Any); destruct (vty_ty_is t (fst pd)); reflexivity.
      * destruct (snd pd) eqn:Es; try discriminate; cbn [existsb]; rewrite Hpr, (IH ts (S i) eq_refl);
          unfold fits; rewrite Es; destruct (vty_io_is t _); reflexivity.
    + rewrite Hs. cbn [existsb match_b]. rewrite Hpr. reflexivity.
Qed.

Lemma fields_never_fail v : 
  ckind_eqb (underlying_kind v) KStruct = true ->
  is_some (match underlying_value v with Some u => available_fields u blocked | None => None end) = true.
Proof.
  unfold underlying_kind. destruct (underlying_value v) as [u|]; [|discriminate].
  cbn [opt_kind]. intros H. unfold available_fields.
  destruct (incomplete_kind u); try discriminate. reflexivity.
Qed.

(** the part of the answer of opFunction.Validate that says "no error" *)
Definition call_part (r : part * vty * bool * bool) : part := fst (fst (fst r)).
Definition call_type (r : part * vty * bool * bool) : vty := snd (fst (fst r)).

Lemma receiver_error_admits on prev :
  any_single_array_gap on prev = false -> typed_variadic on = false ->
  is_some (receiver_error None on (Some prev)) = negb (admits on prev).
Proof.
  unfold any_single_array_gap, typed_variadic, receiver_error, receiver_type_mismatch, receiver_io_mismatch,
         admits, vty_ty_is, vty_io_is, set_error.
  destruct prev as [pty pio]. cbn [fst snd].
  destruct (ptype_eqb (fst on) PT_Any), (iotype_eqb (snd on) IO_Variadic),
           (ptype_eqb pty (fst on)), (iotype_eqb pio (snd on)); cbn; intros; try discriminate; reflexivity.
Qed.

Theorem C14_accepts_iff : forall invalid ft ps us cue prev v ats,
  find_value_at_path root cue = Some v ->
  (invalid = true -> find_fdesc_key ft tbl = None) ->
  arg_types cue ps = Some ats ->
  (forall d, find_fdesc_key ft tbl = Some d ->
             conform (fd_params d) ats = true /\
             any_single_array_gap (fd_on d) prev = false /\ typed_variadic (fd_on d) = false) ->
  part_has (call_part (validate_func tbl root blocked (Func invalid ft ps us) cue (Some prev))) = false
  <-> exists d, find_fdesc_key ft tbl = Some d /\
                arity_ok (fd_params d) (length ats) = true /\
                admits (fd_on d) prev = true.
Proof.
  intros invalid ft ps us cue prev v ats Hv Hinv Hargs Hd.
  rewrite validate_func_unfold, Hv.
  destruct (find_fdesc_key ft tbl) as [d|] eqn:Ed.
  - destruct (Hd d eq_refl) as [Hc [Hg1 Hg2]].
    assert (Hi : invalid = false) by (destruct invalid; [discriminate (Hinv eq_refl)|reflexivity]).
    subst invalid. unfold func_result, call_part. cbn [fst snd part_has pt_error pt_sub_has].
    rewrite (params_loop_none cue (fd_params d) ps ats 0 Hargs). cbn [skipn].
    rewrite match_split, Hc, andb_true_r.
    assert (Hff : (fd_known d && iotype_eqb (snd (fd_ret d)) IO_Single
                   && vty_io_is (Some prev) IO_Array && vty_ty_is (Some prev) PT_Object
                   && ckind_eqb (underlying_kind v) KStruct
                   && negb (is_some (match underlying_value v with Some u => available_fields u blocked | None => None end))) = false).
    { destruct (ckind_eqb (underlying_kind v) KStruct) eqn:Ek.
      - rewrite (fields_never_fail v Ek). apply andb_false_r.
      - rewrite andb_false_r. reflexivity. }
    rewrite Hff. unfold part_has. cbn [pt_error pt_sub_has]. rewrite (receiver_error_admits _ _ Hg1 Hg2).
    split.
    + intros H. apply orb_false_iff in H. destruct H as [H1 H2].
      apply negb_false_iff in H1. apply negb_false_iff in H2. exists d. auto.
    + intros [d' [E [H1 H2]]]. injection E as <-. rewrite H1, H2. reflexivity.
  - cbn. split; [discriminate|]. intros [d [E _]]. discriminate.
Qed.

(** * Part 3: the reported type *)

(** the type opFunction.Validate reports for a known function: the element type of
    the schema value (for Returns Any Single) only when it is the type [prev] the
    previous part reported for the receiver (repair of finding F31) *)
Definition reported (d : fdesc) (v : cty) (prev : vty) : ioty :=
  let k := underlying_kind v in
  let ty := refine_return (fd_ret d) k prev in
  if fd_known d && iotype_eqb (snd (fd_ret d)) IO_Single && vty_io_is prev IO_Array && vty_ty_is prev PT_Object
     && ckind_eqb k KStruct
  then (PT_Object, snd ty) else ty.

Theorem C14_reported_type : forall invalid ft ps us cue prev v d,
  find_value_at_path root cue = Some v -> find_fdesc_key ft tbl = Some d ->
  call_type (validate_func tbl root blocked (Func invalid ft ps us) cue prev) = Some (reported d v prev).
Proof.
  intros invalid ft ps us cue prev v d Hv Hd. rewrite validate_func_unfold, Hv, Hd. reflexivity.
Qed.
End Accept.

(** * Part 4: type soundness of evaluation w.r.t. the reported type *)

(** JSON-like carriers: what encoding/json leaves in an `any`, plus the decimal
    numbers mpath itself produces. *)
Definition single_has (p : ptype) (x : gv) : Prop :=
  match p with
  | PT_String => exists s, x = VStr false s
  | PT_Boolean => exists b, x = VBool false b
  | PT_Number => (exists d, x = VDec d) \/ (exists d, x = VFloat false false (FFin d))
  | PT_Object => exists n kvs, x = VMap KtStr EAny n kvs
  | _ => True
  end.

Definition has_type (g : gv) (ty : ioty) : Prop :=
  match snd ty with
  | IO_Single => single_has (fst ty) g
  | IO_Array => exists n xs, g = VSlice EAny n xs /\ Forall (single_has (fst ty)) xs
  | IO_Variadic => True
  end.

(** no string of the data reads as a number (finding F23: receivers are
    number-converted before a function runs) *)
Definition plain_string (x : gv) : Prop :=
  match x with VStr _ s => string_number s = None | _ => True end.
Definition plain_strings (g : gv) : Prop :=
  plain_string g /\ match g with VSlice _ _ xs => Forall plain_string xs | _ => True end.

(** errors that say "wrong type / wrong arguments" rather than depending on the data *)
Definition wrong_type_tags : list string :=
  ["parameter wasn't number"; "parameter wasn't string"; "not a number"; "value wasn't string";
   "value is not a boolean"; "input was not boolean"; "input was not a string"; "value is not a string";
   "value is not a map"; "not array"; "not an array of numbers"; "unsupported type; expected array or map";
   "unrecognised function"; "expected 0 params"; "expected 1 params"; "expected 2 params";
   "no number parameter found"; "no string parameter found"; "replace parameter missing"]%string.

Definition wrong_type_err (e : err) : bool :=
  match e with
  | EKeyNotFound => false
  | EOther tag => existsb (String.eqb tag) wrong_type_tags
  end.

Definition typed_outcome (o : outcome gv) (rt : ioty) : Prop :=
  match o with
  | Ok r => has_type r rt
  | Err e => wrong_type_err e = false
  | _ => True          (* Panic is excluded separately ([np]); Declined = an engine oracle has no entry *)
  end.

(** runtime arguments that match the descriptor in number and kind *)
Definition rfits (p : ptype) (a : rparam) : bool :=
  match p, a with
  | PT_Any, _ => true
  | PT_Number, RNum _ => true
  | PT_String, RStr _ => true
  | PT_Boolean, RBool _ => true
  | _, _ => false
  end.

Fixpoint rconform (params : list ioty) (args : list rparam) {struct params} : bool :=
  match params with
  | [] => match args with [] => true | _ :: _ => false end
  | pd :: params' =>
    if is_variadic pd then match params' with [] => forallb (rfits (fst pd)) args | _ :: _ => false end
    else match args with
         | a :: args' => rfits (fst pd) a && rconform params' args'
         | [] => false
         end
  end.

(** the type evaluation is checked against: the descriptor's Returns, and for an
    element-returning function (Returns Any Single: First, Last, Index) the
    receiver's element type *)
Definition sound_reported (ret prev : ioty) : ioty :=
  match ret with
  | (PT_Any, IO_Single) => (fst prev, IO_Single)
  | _ => ret
  end.

(** ** conversions leave JSON-like values of a kind in that kind *)
Lemma convert_plain_str s : string_number s = None -> convert_number (VStr false s) = VStr false s.
Proof.
  unfold string_number, convert_number.
  destruct (convert_number_check (VStr false s)) as [was d]. destruct was; [discriminate|reflexivity].
Qed.
Lemma convert_dec d : convert_number (VDec d) = VDec d.
Proof. reflexivity. Qed.
Lemma convert_float d : convert_number (VFloat false false (FFin d)) = VDec d.
Proof. unfold convert_number, convert_number_check, convert_number_check_base. cbn. destruct (dis_zero d); reflexivity. Qed.
Lemma convert_bool b : convert_number (VBool false b) = VBool false b.
Proof. destruct b; reflexivity. Qed.
Lemma convert_map kt vt n kvs : convert_number (VMap kt vt n kvs) = VMap kt vt n kvs.
Proof. destruct kvs; reflexivity. Qed.
Lemma convert_slice t n xs : convert_number (VSlice t n xs) = VSlice t n xs.
Proof. destruct xs; reflexivity. Qed.

Lemma convert_single p x : single_has p x -> plain_string x -> single_has p (convert_number x).
Proof.
  destruct p; cbn [single_has]; auto.
  - intros [s ->] H. rewrite (convert_plain_str s H). eauto.
  - intros [b ->] _. rewrite convert_bool. eauto.
  - intros [[d ->]|[d ->]] _; [rewrite convert_dec|rewrite convert_float]; eauto.
  - intros [n [kvs ->]] _. rewrite convert_map. eauto.
Qed.

Lemma elem_number_json x : single_has PT_Number x -> exists d, elem_number x = Some d.
Proof.
  intros [[d ->]|[d ->]]; [eexists; reflexivity|].
  exists d. unfold elem_number, convert_number_check, convert_number_check_base. cbn. destruct (dis_zero d); reflexivity.
Qed.

Lemma all_some_numbers xs : Forall (single_has PT_Number) xs -> exists ds, all_some (map elem_number xs) = Some ds.
Proof.
  induction 1 as [|x xs Hx _ [ds IH]]; [exists []; reflexivity|].
  destruct (elem_number_json x Hx) as [d Hd]. exists (d :: ds). cbn [map all_some]. rewrite Hd, IH. reflexivity.
Qed.

(** ** receivers admitted by a ValidOn *)
Lemma admits_exact on prev :
  ptype_eqb (fst on) PT_Any = false -> iotype_eqb (snd on) IO_Variadic = false ->
  admits on prev = true -> prev = on.
Proof.
  unfold admits. intros H1 H2 H. rewrite H1, H2 in H. cbn [orb] in H.
  apply andb_true_iff in H. destruct H as [Ha Hb].
  apply ptype_eqb_eq in Ha. apply Types_iotype_eqb_eq in Hb.
  destruct prev, on; cbn in *; congruence.
Qed.

Lemma admits_any_io on prev :
  ptype_eqb (fst on) PT_Any = true -> iotype_eqb (snd on) IO_Variadic = false ->
  admits on prev = true -> snd prev = snd on.
Proof.
  unfold admits. intros H1 H2 H. rewrite H1, H2 in H. cbn [orb andb] in H.
  apply Types_iotype_eqb_eq in H. exact H.
Qed.

(** a family of functions with one signature, and its soundness statement *)
Definition fam_spec (keys : list string) (on : ioty) (params : list ioty) (ret : ioty) : Prop :=
  forall key, In key keys ->
  forall eng prev args g,
    admits on prev = true -> rconform params args = true ->
    has_type g prev -> plain_strings g ->
    typed_outcome (run_func eng key args (convert_number g)) (sound_reported ret prev).

Ltac keys Hin := repeat (destruct Hin as [<-|Hin]); [..|destruct Hin].
Ltac not_wrong := cbn [typed_outcome fail]; reflexivity.

Definition NS : ioty := (PT_Number, IO_Single).
Definition SS : ioty := (PT_String, IO_Single).
Definition BS : ioty := (PT_Boolean, IO_Single).
Definition OS : ioty := (PT_Object, IO_Single).
Definition AnyS : ioty := (PT_Any, IO_Single).
Definition AnyA : ioty := (PT_Any, IO_Array).
Definition AnyV : ioty := (PT_Any, IO_Variadic).
Definition NA : ioty := (PT_Number, IO_Array).
Definition NV : ioty := (PT_Number, IO_Variadic).
Definition OV : ioty := (PT_Object, IO_Variadic).

Lemma number_recv g : has_type g NS -> exists v, convert_number g = VDec v.
Proof. intros [[d ->]|[d ->]]; [rewrite convert_dec|rewrite convert_float]; eauto. Qed.

Lemma string_recv g : has_type g SS -> plain_strings g -> exists s, g = VStr false s /\ convert_number g = VStr false s.
Proof. intros [s ->] [H _]. exists s. split; [reflexivity|]. apply convert_plain_str. exact H. Qed.

Lemma one_num args : rconform [NS] args = true -> exists p, args = [RNum p].
Proof. destruct args as [|[p|s|b] [|a r]]; try discriminate. eauto. Qed.
Lemma one_str args : rconform [SS] args = true -> exists p, args = [RStr p].
Proof. destruct args as [|[p|s|b] [|a r]]; try discriminate. eauto. Qed.
Lemma two_str args : rconform [SS; SS] args = true -> exists p q, args = [RStr p; RStr q].
Proof. destruct args as [|[p|s|b] [|[p'|s'|b'] [|a r]]]; try discriminate. eauto. Qed.
Lemma one_any args : rconform [AnyS] args = true -> exists a, args = [a].
Proof. destruct args as [|a [|a' r]]; try discriminate. eauto. Qed.
Lemma no_args args : rconform [] args = true -> args = [].
Proof. destruct args; [reflexivity|discriminate]. Qed.

Lemma fam_arith : fam_spec ["Add"; "Subtract"; "Multiply"; "Divide"; "Modulo"]%string NS [NS] NS.
Proof.
  intros key Hin eng prev args g Hadm Hargs Hty _.
  apply admits_exact in Hadm; [|reflexivity|reflexivity]. subst prev.
  destruct (number_recv g Hty) as [v ->]. destruct (one_num args Hargs) as [p ->].
  keys Hin; cbn; try (right+left; eauto; fail);
    try (destruct (dis_zero p); cbn; [reflexivity|left; eauto]); left; eauto.
Qed.

Lemma fam_cmp : fam_spec ["Less"; "LessOrEqual"; "Greater"; "GreaterOrEqual"]%string NS [NS] BS.
Proof.
  intros key Hin eng prev args g Hadm Hargs Hty _.
  apply admits_exact in Hadm; [|reflexivity|reflexivity]. subst prev.
  destruct (number_recv g Hty) as [v ->]. destruct (one_num args Hargs) as [p ->].
  keys Hin; cbn; eauto.
Qed.

Lemma fam_strbool :
  fam_spec ["Contains"; "NotContains"; "Prefix"; "NotPrefix"; "Suffix"; "NotSuffix"; "DoesMatchRegex"]%string SS [SS] BS.
Proof.
  intros key Hin eng prev args g Hadm Hargs Hty Hpl.
  apply admits_exact in Hadm; [|reflexivity|reflexivity]. subst prev.
  destruct (string_recv g Hty Hpl) as [s [-> ->]]. destruct (one_str args Hargs) as [p ->].
  keys Hin; cbn; eauto.
  destruct (eng_re_match eng p s) as [[b|]|]; cbn; eauto.
Qed.

Lemma fam_equal : fam_spec ["Equal"; "NotEqual"]%string AnyV [AnyS] BS.
Proof.
  intros key Hin eng prev args g _ Hargs _ _.
  destruct (one_any args Hargs) as [a ->]. generalize (convert_number g). intros val.
  keys Hin; cbn; destruct val; destruct a; cbn; eauto.
Qed.

Lemma fam_isnull :
  fam_spec ["IsEmpty"; "IsNotEmpty"; "IsNull"; "IsNotNull"; "IsNullOrEmpty"; "IsNotNullOrEmpty"]%string AnyV [] BS.
Proof.
  intros key Hin eng prev args g _ Hargs _ _.
  rewrite (no_args args Hargs). generalize (convert_number g). intros val.
  keys Hin; cbn; eauto.
Qed.

Lemma fam_not : fam_spec ["Not"; "Invert"]%string BS [] BS.
Proof.
  intros key Hin eng prev args g Hadm Hargs Hty _.
  apply admits_exact in Hadm; [|reflexivity|reflexivity]. subst prev.
  destruct Hty as [b ->]. rewrite convert_bool. rewrite (no_args args Hargs).
  keys Hin; cbn; eauto.
Qed.

Lemma array_recv on prev g :
  ptype_eqb (fst on) PT_Any = true -> snd on = IO_Array ->
  admits on prev = true -> has_type g prev ->
  exists n xs, g = VSlice EAny n xs /\ convert_number g = VSlice EAny n xs /\ Forall (single_has (fst prev)) xs.
Proof.
  intros H1 H2 Hadm Hty.
  assert (Hio : snd prev = IO_Array).
  { rewrite <- H2. apply admits_any_io; [exact H1|rewrite H2; reflexivity|exact Hadm]. }
  unfold has_type in Hty. rewrite Hio in Hty. destruct Hty as [n [xs [-> Hall]]].
  exists n, xs. rewrite convert_slice. auto.
Qed.

Lemma fam_any : fam_spec ["Any"]%string AnyA [] BS.
Proof.
  intros key Hin eng prev args g Hadm Hargs Hty _.
  destruct (array_recv AnyA prev g eq_refl eq_refl Hadm Hty) as [n [xs [-> [-> _]]]].
  rewrite (no_args args Hargs).
  keys Hin. destruct xs; cbn; eauto.
Qed.

Lemma fam_anyof : fam_spec ["AnyOf"]%string AnyS [AnyV] BS.
Proof.
  intros key Hin eng prev args g _ _ _ _.
  keys Hin. cbn. eauto.
Qed.

Lemma fam_asarray : fam_spec ["AsArray"]%string AnyA [] AnyA.
Proof.
  intros key Hin eng prev args g _ _ _ _.
  keys Hin. cbn. eexists _, _. split; [reflexivity|]. constructor; [exact I|constructor].
Qed.

Lemma fam_asjson : fam_spec ["AsJSON"]%string AnyV [] SS.
Proof.
  intros key Hin eng prev args g _ Hargs _ _.
  rewrite (no_args args Hargs). generalize (convert_number g). intros val.
  keys Hin. cbn. unfold func_as_json. cbn [len_is length Nat.eqb negb].
  destruct (is_empty_value (value_of val)); cbn; eauto.
  destruct (eng_json_marshal eng val) as [[s|]|]; cbn; eauto.
Qed.

Lemma agg_typed a args n xs ds :
  all_some (map elem_number xs) = Some ds ->
  typed_outcome (func_decimal_slice a args (VSlice EAny n xs)) NS.
Proof.
  intros Hds. unfold func_decimal_slice. rewrite Hds. cbn [option_map].
  destruct ((numbers args ++ filter_map string_number (strings args)) ++ ds) as [|d [|d' r]];
    cbn [typed_outcome has_type single_has fst snd NS]; left; eauto.
Qed.

Lemma fam_agg : fam_spec ["Average"; "Sum"; "Minimum"; "Maximum"]%string NA [NV] NS.
Proof.
  intros key Hin eng prev args g Hadm _ Hty _.
  apply admits_exact in Hadm; [|reflexivity|reflexivity]. subst prev.
  destruct Hty as [n [xs [-> Hall]]]. rewrite convert_slice.
  destruct (all_some_numbers xs Hall) as [ds Hds].
  keys Hin.
  - exact (agg_typed AggAvg args n xs ds Hds).
  - exact (agg_typed AggSum args n xs ds Hds).
  - exact (agg_typed AggMin args n xs ds Hds).
  - exact (agg_typed AggMax args n xs ds Hds).
Qed.

Lemma fam_count : fam_spec ["Count"]%string AnyA [] NS.
Proof.
  intros key Hin eng prev args g _ Hargs _ _.
  rewrite (no_args args Hargs). generalize (convert_number g). intros val.
  keys Hin. cbn. unfold func_count. cbn [len_is length Nat.eqb negb].
  destruct (is_empty_value (value_of val)); [cbn; left; eauto|].
  destruct (elems_of (rv_v (deref1 (value_of val)))) as [[t xs]|]; cbn; left; eauto.
Qed.

Lemma plain_elems n xs : plain_strings (VSlice EAny n xs) -> Forall plain_string xs.
Proof. intros [_ H]. exact H. Qed.

Lemma elem_typed p xs x : Forall (single_has p) xs -> Forall plain_string xs -> In x xs ->
  single_has p (convert_number x).
Proof.
  intros H1 H2 Hin. rewrite Forall_forall in H1, H2. apply convert_single; auto.
Qed.

Lemma fam_firstlast : fam_spec ["First"; "Last"]%string AnyA [] AnyS.
Proof.
  intros key Hin eng prev args g Hadm Hargs Hty Hpl.
  destruct (array_recv AnyA prev g eq_refl eq_refl Hadm Hty) as [n [xs [-> [-> Hall]]]].
  pose proof (plain_elems n xs Hpl) as Hp.
  rewrite (no_args args Hargs).
  keys Hin; cbn [sound_reported AnyS].
  - destruct xs as [|x xs]; cbn; [reflexivity|]. apply (elem_typed _ _ _ Hall Hp). left. reflexivity.
  - change (run_func eng "Last" [] (VSlice EAny n xs)) with (func_last [] (VSlice EAny n xs)).
    destruct xs as [|x xs]; [cbn; reflexivity|].
    unfold func_last. cbn [len_is length Nat.eqb negb].
    replace (empty_guard (value_of (VSlice EAny n (x :: xs)))) with false by reflexivity.
    change (elems_of (rv_v (deref1 (value_of (VSlice EAny n (x :: xs)))))) with (Some (EAny, x :: xs)).
    cbv iota beta.
    destruct (nth_error (x :: xs) (length (x :: xs) - 1)) as [y|] eqn:E; [|exact I].
    cbn [typed_outcome has_type fst snd]. apply (elem_typed _ _ _ Hall Hp). eapply nth_error_In. exact E.
Qed.

Lemma fam_index : fam_spec ["Index"]%string AnyA [NS] AnyS.
Proof.
  intros key Hin eng prev args g Hadm Hargs Hty Hpl.
  destruct (array_recv AnyA prev g eq_refl eq_refl Hadm Hty) as [n [xs [-> [-> Hall]]]].
  pose proof (plain_elems n xs Hpl) as Hp.
  destruct (one_num args Hargs) as [p ->].
  keys Hin; cbn [sound_reported AnyS].
  change (run_func eng "Index" [RNum p] (VSlice EAny n xs)) with (func_index [RNum p] (VSlice EAny n xs)).
  unfold func_index. cbn [params_first_number len_is length Nat.eqb negb numbers filter_map bind].
  replace (empty_guard (value_of (VSlice EAny n xs))) with false by (destruct xs; reflexivity).
  change (elems_of (rv_v (deref1 (value_of (VSlice EAny n xs))))) with (Some (EAny, xs)).
  cbv iota beta.
  destruct (negb (dis_neg p) && dlt p (mkDec (Z.of_nat (length xs)) 0)); [|reflexivity].
  cbv zeta. destruct (int_part p <? 0); [exact I|].
  destruct (nth_error xs (Z.to_nat (int_part p))) as [y|] eqn:E; [|exact I].
  cbn [typed_outcome has_type fst snd]. apply (elem_typed _ _ _ Hall Hp). eapply nth_error_In. exact E.
Qed.

Lemma strpart_typed w p s : typed_outcome (string_part_func w [RNum p] (VStr false s)) SS.
Proof.
  unfold string_part_func. cbn [params_first_number len_is length Nat.eqb negb numbers filter_map bind].
  destruct (dis_integer p); cbn [negb]; [|reflexivity].
  destruct (dis_neg p); [reflexivity|].
  cbv zeta.
  match goal with |- typed_outcome (bind ?o _) _ => destruct o as [r|e|m| |why] eqn:E end;
    cbn [bind typed_outcome has_type single_has fst snd SS]; eauto.
  (* an inner Err: none of the branches produces one *)
  exfalso. destruct w;
    repeat match type of E with
           | (if ?c then _ else _) = _ => destruct c
           end; try discriminate;
    unfold go_slice in E;
    repeat match type of E with
           | (if ?c then _ else _) = _ => destruct c
           end; discriminate.
Qed.

Lemma fam_strpart : fam_spec ["Left"; "Right"; "TrimLeft"; "TrimRight"]%string SS [NS] SS.
Proof.
  intros key Hin eng prev args g Hadm Hargs Hty Hpl.
  apply admits_exact in Hadm; [|reflexivity|reflexivity]. subst prev.
  destruct (string_recv g Hty Hpl) as [s [-> ->]]. destruct (one_num args Hargs) as [p ->].
  keys Hin.
  - exact (strpart_typed SLeft p s).
  - exact (strpart_typed SRight p s).
  - exact (strpart_typed STrimLeft p s).
  - exact (strpart_typed STrimRight p s).
Qed.

Lemma parse_typed eng fmt s prev : typed_outcome (string_to_object eng fmt [] (VStr false s)) (sound_reported OV prev).
Proof.
  unfold string_to_object. cbn [len_is length Nat.eqb negb].
  destruct (is_empty_value (value_of (VStr false s))); [exact I|].
  destruct (eng_decode eng fmt s) as [[g|]|]; cbn; auto.
Qed.

Lemma fam_parse : fam_spec ["ParseJSON"; "ParseTOML"; "ParseXML"; "ParseYAML"]%string SS [] OV.
Proof.
  intros key Hin eng prev args g Hadm Hargs Hty Hpl.
  assert (Hprev := Hadm). apply admits_exact in Hprev; [|reflexivity|reflexivity]. subst prev.
  destruct (string_recv g Hty Hpl) as [s [-> ->]]. rewrite (no_args args Hargs).
  keys Hin.
  - exact (parse_typed eng "JSON" s SS).
  - exact (parse_typed eng "TOML" s SS).
  - exact (parse_typed eng "XML" s SS).
  - exact (parse_typed eng "YAML" s SS).
Qed.

Lemma remove_keys_typed keep n kvs : typed_outcome (remove_keys keep (VMap KtStr EAny n kvs)) OS.
Proof.
  unfold remove_keys.
  change (rv_v (deref1 (value_of (VMap KtStr EAny n kvs)))) with (VMap KtStr EAny n kvs). cbv iota beta.
  match goal with |- typed_outcome (match ?o with _ => _ end) _ => destruct o end; cbn; eauto.
Qed.

Lemma removekeys_typed eng how p n kvs :
  typed_outcome (func_remove_keys_by eng how [RStr p] (VMap KtStr EAny n kvs)) OS.
Proof.
  unfold func_remove_keys_by. cbn [len_is length Nat.eqb negb params_first_string strings filter_map bind].
  destruct (String.eqb how "Regex").
  - destruct (eng_re_match eng p []) as [[b|]|]; try (cbn; auto; fail); apply remove_keys_typed.
  - destruct (String.eqb how "Prefix"); apply remove_keys_typed.
Qed.

Lemma fam_removekeys : fam_spec ["RemoveKeysByPrefix"; "RemoveKeysByRegex"; "RemoveKeysBySuffix"]%string OS [SS] OS.
Proof.
  intros key Hin eng prev args g Hadm Hargs Hty _.
  apply admits_exact in Hadm; [|reflexivity|reflexivity]. subst prev.
  destruct Hty as [n [kvs ->]]. rewrite convert_map. destruct (one_str args Hargs) as [p ->].
  keys Hin.
  - exact (removekeys_typed eng "Prefix" p n kvs).
  - exact (removekeys_typed eng "Regex" p n kvs).
  - exact (removekeys_typed eng "Suffix" p n kvs).
Qed.

Lemma fam_replace : fam_spec ["ReplaceAll"; "ReplaceRegex"]%string SS [SS; SS] SS.
Proof.
  intros key Hin eng prev args g Hadm Hargs Hty Hpl.
  apply admits_exact in Hadm; [|reflexivity|reflexivity]. subst prev.
  destruct (string_recv g Hty Hpl) as [s [-> ->]]. destruct (two_str args Hargs) as [p [q ->]].
  keys Hin.
  - cbn. destruct p; cbn; eauto.
  - change (run_func eng "ReplaceRegex" [RStr p; RStr q] (VStr false s))
      with (func_replace_regex eng [RStr p; RStr q] (VStr false s)).
    unfold func_replace_regex. cbn [len_is length Nat.eqb negb strings filter_map].
    destruct p; [reflexivity|].
    destruct (eng_re_replace eng _ s q) as [[out|]|]; cbn; eauto.
Qed.

Lemma fam_sprintf : fam_spec ["Sprintf"]%string SS [AnyV] SS.
Proof.
  intros key Hin eng prev args g Hadm _ Hty Hpl.
  apply admits_exact in Hadm; [|reflexivity|reflexivity]. subst prev.
  destruct (string_recv g Hty Hpl) as [s [-> ->]].
  keys Hin.
  change (run_func eng "Sprintf" args (VStr false s)) with (func_sprintf eng args (VStr false s)).
  unfold func_sprintf. destruct (params_get_all args) as [|a rest]; [cbn; eauto|].
  destruct (eng_sprintf eng s rest); cbn; eauto.
Qed.

(** ** every row of the generated table, through a boolean check *)
Definition family := (list string * ioty * list ioty * ioty)%type.

Definition families : list family :=
  [ (["Add"; "Subtract"; "Multiply"; "Divide"; "Modulo"]%string, NS, [NS], NS);
    (["Less"; "LessOrEqual"; "Greater"; "GreaterOrEqual"]%string, NS, [NS], BS);
    (["Contains"; "NotContains"; "Prefix"; "NotPrefix"; "Suffix"; "NotSuffix"; "DoesMatchRegex"]%string, SS, [SS], BS);
    (["Equal"; "NotEqual"]%string, AnyV, [AnyS], BS);
    (["IsEmpty"; "IsNotEmpty"; "IsNull"; "IsNotNull"; "IsNullOrEmpty"; "IsNotNullOrEmpty"]%string, AnyV, [], BS);
    (["Not"; "Invert"]%string, BS, [], BS);
    (["Any"]%string, AnyA, [], BS);
    (["AnyOf"]%string, AnyS, [AnyV], BS);
    (["AsArray"]%string, AnyA, [], AnyA);
    (["AsJSON"]%string, AnyV, [], SS);
    (["Average"; "Sum"; "Minimum"; "Maximum"]%string, NA, [NV], NS);
    (["Count"]%string, AnyA, [], NS);
    (["First"; "Last"]%string, AnyA, [], AnyS);
    (["Index"]%string, AnyA, [NS], AnyS);
    (["Left"; "Right"; "TrimLeft"; "TrimRight"]%string, SS, [NS], SS);
    (["ParseJSON"; "ParseTOML"; "ParseXML"; "ParseYAML"]%string, SS, [], OV);
    (["RemoveKeysByPrefix"; "RemoveKeysByRegex"; "RemoveKeysBySuffix"]%string, OS, [SS], OS);
    (["ReplaceAll"; "ReplaceRegex"]%string, SS, [SS; SS], SS);
    (["Sprintf"]%string, SS, [AnyV], SS) ].

Definition fam_holds (f : family) : Prop :=
  let '(keys, on, params, ret) := f in fam_spec keys on params ret.

Lemma families_sound : Forall fam_holds families.
Proof.
  repeat constructor.
  - exact fam_arith. - exact fam_cmp. - exact fam_strbool. - exact fam_equal. - exact fam_isnull.
  - exact fam_not. - exact fam_any. - exact fam_anyof. - exact fam_asarray. - exact fam_asjson.
  - exact fam_agg. - exact fam_count. - exact fam_firstlast. - exact fam_index. - exact fam_strpart.
  - exact fam_parse. - exact fam_removekeys. - exact fam_replace. - exact fam_sprintf.
Qed.

Definition ioty_eqb (a b : ioty) : bool := ptype_eqb (fst a) (fst b) && iotype_eqb (snd a) (snd b).
Fixpoint iotys_eqb (a b : list ioty) : bool :=
  match a, b with
  | [], [] => true
  | x :: a', y :: b' => ioty_eqb x y && iotys_eqb a' b'
  | _, _ => false
  end.

Lemma ioty_eqb_eq a b : ioty_eqb a b = true -> a = b.
Proof.
  unfold ioty_eqb. intros H. apply andb_true_iff in H. destruct H as [H1 H2].
  apply ptype_eqb_eq in H1. apply Types_iotype_eqb_eq in H2. destruct a, b; cbn in *; congruence.
Qed.
Lemma iotys_eqb_eq a b : iotys_eqb a b = true -> a = b.
Proof.
  revert b. induction a as [|x a IH]; intros [|y b] H; try discriminate; [reflexivity|].
  cbn in H. apply andb_true_iff in H. destruct H as [H1 H2].
  apply ioty_eqb_eq in H1. apply IH in H2. congruence.
Qed.

Definition row_in_family (d : fdesc) (f : family) : bool :=
  let '(keys, on, params, ret) := f in
  existsb (String.eqb (fd_key d)) keys && ioty_eqb (fd_on d) on && iotys_eqb (fd_params d) params
  && ioty_eqb (fd_ret d) ret.

(** the descriptor is one of the rows the family lemmas were proved for *)
Definition covered (d : fdesc) : bool := existsb (row_in_family d) families.

(** rows of the table that are not covered, and why: Select is evaluated by the
    evaluator itself (it re-parses its argument and maps it over the elements), not
    by run_func; the kind of its result depends on that sub-query *)
Definition uncovered_keys : list string := ["Select"]%string.

Lemma table_covered :
  forallb (fun d => covered d || existsb (String.eqb (fd_key d)) uncovered_keys) func_table = true.
Proof. vm_compute. reflexivity. Qed.

Lemma covered_sound d : covered d = true ->
  forall eng prev args g,
    admits (fd_on d) prev = true -> rconform (fd_params d) args = true ->
    has_type g prev -> plain_strings g ->
    typed_outcome (run_func eng (fd_key d) args (convert_number g)) (sound_reported (fd_ret d) prev).
Proof.
  unfold covered. intros H. apply existsb_exists in H. destruct H as [f [Hf Hrow]].
  pose proof families_sound as Hall. rewrite Forall_forall in Hall. specialize (Hall f Hf).
  destruct f as [[[keys on] params] ret]. cbn [fam_holds] in Hall. cbn [row_in_family] in Hrow.
  apply andb_true_iff in Hrow. destruct Hrow as [Hrow H4].
  apply andb_true_iff in Hrow. destruct Hrow as [Hrow H3].
  apply andb_true_iff in Hrow. destruct Hrow as [H1 H2].
  apply ioty_eqb_eq in H2. apply iotys_eqb_eq in H3. apply ioty_eqb_eq in H4.
  apply existsb_exists in H1. destruct H1 as [key [Hk He]]. apply String.eqb_eq in He.
  rewrite H2, H3, H4, He. intros eng prev args g. apply Hall. exact Hk.
Qed.

Theorem C14_type_sound : forall d, In d func_table -> fd_key d <> "Select"%string ->
  forall eng prev args g,
    admits (fd_on d) prev = true ->
    rconform (fd_params d) args = true ->
    has_type g prev -> plain_strings g ->
    recv_ok (fd_key d) (convert_number g) = true ->
    let o := run_func eng (fd_key d) args (convert_number g) in
    np o /\ typed_outcome o (sound_reported (fd_ret d) prev).
Proof.
  intros d Hin Hsel eng prev args g Hadm Hargs Hty Hpl Hrecv.
  split; [apply run_func_np; exact Hrecv|].
  pose proof table_covered as Hc. rewrite forallb_forall in Hc. specialize (Hc d Hin).
  apply orb_true_iff in Hc. destruct Hc as [Hc|Hc].
  - apply covered_sound; assumption.
  - cbn in Hc. rewrite orb_false_r in Hc. apply String.eqb_eq in Hc. contradiction.
Qed.


(** * Part 5: the reported type against the property text; CueValidate-level forms *)

(** ** facts about the generated table, re-checked whenever it is regenerated *)

(** only functions that return Any claim to return "known values" *)
Lemma func_table_known_any :
  forallb (fun d => implb (fd_known d) (ptype_eqb (fst (fd_ret d)) PT_Any)) func_table = true.
Proof. vm_compute. reflexivity. Qed.

(** no ValidOn names a type and is Variadic *)
Lemma func_table_no_typed_variadic :
  forallb (fun d => negb (typed_variadic (fd_on d))) func_table = true.
Proof. vm_compute. reflexivity. Qed.

(** a variadic parameter is always the last one, so "has a variadic parameter"
    in [arity_ok] reads "the last parameter is variadic" *)
Fixpoint variadic_only_last (params : list ioty) : bool :=
  match params with
  | [] => true
  | [_] => true
  | pd :: rest => negb (is_variadic pd) && variadic_only_last rest
  end.
Lemma func_table_variadic_last :
  forallb (fun d => variadic_only_last (fd_params d)) func_table = true.
Proof. vm_compute. reflexivity. Qed.

Lemma has_variadic_last params :
  variadic_only_last params = true ->
  has_variadic params = match rev params with pd :: _ => is_variadic pd | [] => false end.
Proof.
  induction params as [|pd [|pd' rest] IH]; intros H.
  - reflexivity.
  - cbn. apply orb_false_r.
  - cbn [variadic_only_last] in H. apply andb_true_iff in H. destruct H as [H1 H2].
    apply negb_true_iff in H1. unfold has_variadic in *.
    change (existsb is_variadic (pd :: pd' :: rest)) with (is_variadic pd || existsb is_variadic (pd' :: rest)).
    rewrite H1. cbn [orb]. rewrite (IH H2).
    change (rev (pd :: pd' :: rest)) with (rev (pd' :: rest) ++ [pd]).
    destruct (rev (pd' :: rest)) eqn:E; [|reflexivity].
    cbn [rev] in E. destruct (rev rest); discriminate.
Qed.

(** descriptors are keyed by their name, so a function the parser marks invalid
    (name not found) is unknown to opFunction.Validate as well *)
Lemma func_table_keys_are_names :
  forallb (fun d => String.eqb (fd_key d) (fd_name d)) func_table = true.
Proof. vm_compute. reflexivity. Qed.

Lemma find_by_name_none_key tbl name :
  forallb (fun d => String.eqb (fd_key d) (fd_name d)) tbl = true ->
  find_fdesc name tbl = None -> find_fdesc_key name tbl = None.
Proof.
  induction tbl as [|d tbl IH]; intros Hk Hf; [reflexivity|].
  cbn in *. apply andb_true_iff in Hk. destruct Hk as [Hk1 Hk2]. apply String.eqb_eq in Hk1.
  rewrite Hk1. destruct (str_eqb (bs (fd_name d)) name); [discriminate|]. apply IH; assumption.
Qed.

(** ** C14_reported_type, read against the property text *)

(** every function but the element-returning ones (Returns Any Single: First, Last,
    Index) reports its Returns type *)
Corollary C14_reported_type_plain : forall d v prev,
  ioty_eqb (fd_ret d) (PT_Any, IO_Single) = false ->
  implb (fd_known d) (ptype_eqb (fst (fd_ret d)) PT_Any) = true ->
  reported d v prev = fd_ret d.
Proof.
  intros d v prev Hne Hk. unfold reported. destruct (fd_ret d) as [rt rio].
  destruct rt, rio; cbn in *; try discriminate; destruct (fd_known d); try discriminate; reflexivity.
Qed.

Lemma underlying_kind_list o e : underlying_kind (CList o e) = incomplete_kind e.
Proof. destruct o; reflexivity. Qed.

(** First, Last, Index (Returns Any Single) on a typed list report the element's
    type — except on a list of bytes, see [C14_reported_type_bytes_refuted] *)
Corollary C14_reported_type_element : forall d o e,
  fd_ret d = (PT_Any, IO_Single) ->
  wf (CList o e) = true -> e <> CBytes ->
  reported d (CList o e) (Some (kind_of (CList o e))) = (fst (kind_of e), IO_Single).
Proof.
  intros d o e Hret Hwf Hne. unfold reported. rewrite Hret, underlying_kind_list.
  cbn [wf] in Hwf. apply andb_true_iff in Hwf. destruct Hwf as [Hl _]. apply negb_true_iff in Hl.
  destruct e; try discriminate; try congruence; cbn; destruct (fd_known d); reflexivity.
Qed.

(** deviation 1: on a list of bytes the element type is not reported (bytes fields
    are reported as String by opPathIdent.Validate, but the refinement only knows
    cue.StringKind) *)
Lemma C14_reported_type_bytes_refuted :
  exists d, find_fdesc_key (bs "First") func_table = Some d /\
    let v := CList true CBytes in
    kind_of v = (PT_String, IO_Array) /\
    reported d v (Some (kind_of v)) = (PT_Any, IO_Single).
Proof. vm_compute. eexists. split; [reflexivity|]. split; reflexivity. Qed.

(** since repo fix 4a77141 the refinement is applied to the element-returning
    functions only: a function that returns (Any, Array) reports just that on every
    receiver … *)
Lemma C14_reported_type_any_array : forall d v prev,
  fd_ret d = (PT_Any, IO_Array) -> reported d v prev = (PT_Any, IO_Array).
Proof.
  intros d v prev Hret. unfold reported. rewrite Hret. cbn. rewrite andb_false_r. reflexivity.
Qed.

(** … which is the case of AsArray and Select in ListFunctions() *)
Lemma C14_reported_type_asarray_select :
  forall key, In key [bs "AsArray"; bs "Select"] ->
  exists d, find_fdesc_key key func_table = Some d /\ fd_ret d = (PT_Any, IO_Array) /\
            forall v prev, reported d v prev = fd_ret d.
Proof.
  intros key [<-|[<-|[]]]; vm_compute find_fdesc_key; eexists; (split; [reflexivity|]);
    (split; [reflexivity|]); intros v prev; apply C14_reported_type_any_array; reflexivity.
Qed.

(** known finding F23: a string field that holds a numeral is number-converted
    before a string function runs, which then fails with a wrong-type error *)
Lemma C14_numeral_string_refuted :
  let g := VStr false (bs "123") in
  has_type g (PT_String, IO_Single) /\
  exists e, run_func no_engines "Contains" [RStr (bs "1")] (convert_number g) = Err e /\ wrong_type_err e = true.
Proof. cbn zeta. split; [eexists; reflexivity|]. eexists. split; vm_compute; reflexivity. Qed.

(** the type CueValidate reports is the one evaluation was checked against, or
    the weaker (Any, Single) *)
Lemma reported_vs_sound d v :
  wf v = true ->
  implb (fd_known d) (ptype_eqb (fst (fd_ret d)) PT_Any) = true ->
  reported d v (Some (kind_of v)) = sound_reported (fd_ret d) (kind_of v) \/
  reported d v (Some (kind_of v)) = (PT_Any, IO_Single).
Proof.
  intros Hwf Hk. unfold reported. destruct (fd_ret d) as [rt rio] eqn:Er. cbn [fst snd] in *.
  destruct rt; try (cbn in Hk; destruct (fd_known d); [discriminate|]; left; destruct rio; reflexivity).
  clear Hk.
  destruct rio; try (left; cbn; rewrite andb_false_r; reflexivity).
  destruct v as [ | | | | | | | o e | l | o fs]; try (cbn; destruct (fd_known d); auto; fail).
  - rewrite underlying_kind_list.
    cbn [wf] in Hwf. apply andb_true_iff in Hwf. destruct Hwf as [Hl _]. apply negb_true_iff in Hl.
    destruct e; try discriminate; cbn; destruct (fd_known d); auto.
  - destruct l as [|x l]; [discriminate|]. cbn. destruct (fd_known d); auto.
Qed.

Lemma typed_outcome_any o rt : typed_outcome o rt -> typed_outcome o (PT_Any, IO_Single).
Proof. destruct o; cbn; auto. Qed.

(** C14 (c) against the type CueValidate actually reports, for a receiver that is a
    schema value [v]: every row but Select *)
Theorem C14_type_sound_reported : forall d v, In d func_table ->
  fd_key d <> "Select"%string ->
  wf v = true ->
  forall eng args g,
    let prev := kind_of v in
    admits (fd_on d) prev = true ->
    rconform (fd_params d) args = true ->
    has_type g prev -> plain_strings g ->
    recv_ok (fd_key d) (convert_number g) = true ->
    let o := run_func eng (fd_key d) args (convert_number g) in
    np o /\ typed_outcome o (reported d v (Some prev)).
Proof.
  intros d v Hin Hsel Hwf eng args g prev Hadm Hargs Hty Hpl Hrecv o.
  destruct (C14_type_sound d Hin Hsel eng prev args g Hadm Hargs Hty Hpl Hrecv) as [Hnp Hto].
  split; [exact Hnp|].
  pose proof func_table_known_any as Hk. rewrite forallb_forall in Hk. specialize (Hk d Hin).
  destruct (reported_vs_sound d v Hwf Hk) as [E|E]; fold prev in E; rewrite E.
  - exact Hto.
  - apply (typed_outcome_any _ (sound_reported (fd_ret d) prev)). exact Hto.
Qed.

Lemma find_fdesc_key_In key tbl d : find_fdesc_key key tbl = Some d -> In d tbl.
Proof.
  induction tbl as [|x tbl IH]; cbn [find_fdesc_key]; [discriminate|].
  destruct (str_eqb (bs (fd_key x)) key).
  - intros H. left. congruence.
  - intros H. right. apply IH. exact H.
Qed.

(** in particular AsArray: its report (Any, Array) is what it returns *)
Corollary C14_asarray_type_sound : forall v eng g,
  wf v = true -> snd (kind_of v) = IO_Array ->
  has_type g (kind_of v) -> plain_strings g ->
  exists d, find_fdesc_key (bs "AsArray") func_table = Some d /\
    let o := run_func eng (fd_key d) [] (convert_number g) in
    np o /\ typed_outcome o (reported d v (Some (kind_of v))) /\
    reported d v (Some (kind_of v)) = (PT_Any, IO_Array).
Proof.
  intros v eng g Hwf Hio Hty Hpl.
  destruct (C14_reported_type_asarray_select (bs "AsArray") (or_introl eq_refl)) as [d [Hd [Hret Hrep]]].
  exists d. split; [exact Hd|].
  assert (Hin : In d func_table) by (apply (find_fdesc_key_In _ _ _ Hd)).
  assert (Hkey : fd_key d = "AsArray"%string) by (vm_compute in Hd; injection Hd as <-; reflexivity).
  assert (Hon : fd_on d = (PT_Any, IO_Array)) by (vm_compute in Hd; injection Hd as <-; reflexivity).
  assert (Hps : fd_params d = []) by (vm_compute in Hd; injection Hd as <-; reflexivity).
  assert (Hadm : admits (fd_on d) (kind_of v) = true).
  { rewrite Hon. unfold admits. cbn [fst snd ptype_eqb orb iotype_eqb andb]. rewrite Hio. reflexivity. }
  assert (Hsel : fd_key d <> "Select"%string) by (rewrite Hkey; discriminate).
  assert (Hargs : rconform (fd_params d) [] = true) by (rewrite Hps; reflexivity).
  assert (Hrecv : recv_ok (fd_key d) (convert_number g) = true) by (rewrite Hkey; reflexivity).
  destruct (C14_type_sound_reported d v Hin Hsel Hwf eng [] g Hadm Hargs Hty Hpl Hrecv) as [H1 H2].
  split; [exact H1|]. split; [exact H2|]. rewrite Hrep. exact Hret.
Qed.

(** ** through CueValidate: `$.k1.….kn.F(args)` *)
Definition call_path (ks : list str) (f : func) : top :=
  TopP (Path false true false false (idents ks ++ [PFunc f]) (key_path_text ks ++ bs "." ++ func_us f)).

Lemma path_loop_keys_then tbl root bl ops1 ops2 ks s :
  op_keys ops1 = Some ks ->
  path_loop tbl root bl (ops1 ++ ops2) s =
  if snd (keys_loop root bl ks s) then finish (fst (keys_loop root bl ks s)) true
  else path_loop tbl root bl ops2 (fst (keys_loop root bl ks s)).
Proof.
  revert ks s. induction ops1 as [|o ops1 IH]; intros ks s Hk.
  - simpl in Hk. injection Hk as <-. reflexivity.
  - destruct o as [k q us'| |]; simpl in Hk; try discriminate.
    destruct (op_keys ops1) as [ks'|] eqn:E; [|discriminate]. injection Hk as <-.
    cbn [app path_loop step_op keys_loop].
    destruct (step_ident root bl s k) as [s'|s']; [|reflexivity].
    apply IH. reflexivity.
Qed.

Lemma call_part_type tbl root bl f cue prev :
  pt_type (call_part (validate_func tbl root bl f cue prev)) = call_type (validate_func tbl root bl f cue prev).
Proof.
  destruct f as [invalid ft ps us]. rewrite validate_func_unfold.
  destruct (find_value_at_path root cue); [|reflexivity].
  destruct (find_fdesc_key ft tbl); reflexivity.
Qed.

(** what CueValidate answers for a call on an accepted key path is what
    opFunction.Validate answers for the call at that path, with the type C13 gives *)
Lemma call_through_cue tbl schema bl k ks f prev :
  wf_schema schema = true -> str_mem k bl = false ->
  walk schema (k :: ks) = Accept prev ->
  exists v, find_value_at_path schema (k :: ks) = Some v /\ kind_of v = prev /\ wf v = true /\
    let r := validate_top_gen tbl schema bl (call_path (k :: ks) f) in
    let c := validate_func tbl schema bl f (k :: ks) (Some prev) in
    v_err r = false /\ v_has_errors r = part_has (call_part c) /\ v_type r = call_type c.
Proof.
  intros Hwf Hb Hw.
  destruct schema as [ | | | | | | | | | o fs]; try discriminate. cbn [wf_schema] in Hwf.
  destruct (keys_loop_init_accept (CStruct o fs) bl true o fs k ks prev eq_refl Hwf Hb Hw)
    as [s' [cur [E1 [E2 [E3 E4]]]]].
  exists cur. destruct E2 as [av_error0 av_clean0 av_last0 av_part0 av_should0 av_unknown0 av_found0 av_cue0 av_ret0 av_wf0].
  rewrite E4 in av_cue0.
  split; [exact av_cue0|]. split; [exact E3|]. split; [exact av_wf0|].
  cbv zeta. unfold validate_top_gen, validate_top_with, call_path. rewrite validate_path_unfold.
  cbn [available_fields incomplete_kind].
  rewrite (path_loop_keys_then tbl (CStruct o fs) bl (idents (k :: ks)) [PFunc f] (k :: ks) _ (op_keys_idents (k :: ks))).
  rewrite E1. cbn [fst snd path_loop step_op]. rewrite av_should0.
  destruct av_part0 as [p [Hp Hpt]]. rewrite Hp, Hpt, av_ret0, E3, E4.
  rewrite <- call_part_type. unfold call_part.
  destruct (validate_func tbl (CStruct o fs) bl f (k :: ks) (Some prev)) as [[[fp ty] known] goerr].
  cbn [fst snd finish pr_error pr_parts pr_type v_err v_has_errors v_type st_error st_parts].
  unfold path_has, add_part, finish. cbn [pr_error pr_parts st_error st_parts].
  rewrite existsb_app, (clean_parts_has _ av_clean0), rev_app_distr. cbn. rewrite orb_false_r, av_error0. cbn. auto.
Qed.

(** C14 (a) at the level of CueValidate *)
Theorem C14_accepts_iff_cue : forall tbl schema k ks invalid ft ps us prev ats,
  wf_schema schema = true ->
  walk schema (k :: ks) = Accept prev ->
  (invalid = true -> find_fdesc_key ft tbl = None) ->
  arg_types tbl schema [] (k :: ks) ps = Some ats ->
  (forall d, find_fdesc_key ft tbl = Some d ->
             conform (fd_params d) ats = true /\
             any_single_array_gap (fd_on d) prev = false /\ typed_variadic (fd_on d) = false) ->
  let r := validate_top_gen tbl schema [] (call_path (k :: ks) (Func invalid ft ps us)) in
  (v_err r = false /\ v_has_errors r = false)
  <-> exists d, find_fdesc_key ft tbl = Some d /\
                arity_ok (fd_params d) (length ats) = true /\
                admits (fd_on d) prev = true.
Proof.
  intros tbl schema k ks invalid ft ps us prev ats Hwf Hw Hinv Hargs Hd r.
  destruct (call_through_cue tbl schema [] k ks (Func invalid ft ps us) prev Hwf eq_refl Hw)
    as [v [Hv [_ [_ [R1 [R2 _]]]]]].
  subst r. rewrite R1, R2.
  rewrite <- (C14_accepts_iff tbl schema [] invalid ft ps us (k :: ks) prev v ats Hv Hinv Hargs Hd).
  tauto.
Qed.

(** C14 (b) at the level of CueValidate *)
Theorem C14_reported_type_cue : forall tbl schema k ks invalid ft ps us prev d,
  wf_schema schema = true ->
  walk schema (k :: ks) = Accept prev ->
  find_fdesc_key ft tbl = Some d ->
  exists v, find_value_at_path schema (k :: ks) = Some v /\ kind_of v = prev /\
    v_type (validate_top_gen tbl schema [] (call_path (k :: ks) (Func invalid ft ps us)))
    = Some (reported d v (Some prev)).
Proof.
  intros tbl schema k ks invalid ft ps us prev d Hwf Hw Hd.
  destruct (call_through_cue tbl schema [] k ks (Func invalid ft ps us) prev Hwf eq_refl Hw)
    as [v [Hv [Hk [_ [_ [_ R3]]]]]].
  exists v. split; [exact Hv|]. split; [exact Hk|].
  rewrite R3. apply C14_reported_type; assumption.
Qed.

(** the gap the property leaves unspecified is really there: `Count` and `First`
    (ValidOn Any Array) are accepted on a Single string *)
Lemma C14_any_single_array_gap_accepted :
  let schema := CStruct false [(mkLabel (bs "a") FRegular, CStr)] in
  let r := validate_top schema [] (call_path [bs "a"] (Func false (bs "First") [] (bs "First()"))) in
  v_has_errors r = false /\ v_type r = Some (PT_String, IO_Single).
Proof. vm_compute. auto. Qed.

(** a Single parameter's kind is never looked at: `Contains(1)` is accepted *)
Lemma C14_single_param_kind_unchecked :
  let schema := CStruct false [(mkLabel (bs "a") FRegular, CStr)] in
  let r := validate_top schema []
             (call_path [bs "a"] (Func false (bs "Contains") [FPNum (mkDec 1 0)] (bs "Contains(1)"))) in
  v_has_errors r = false.
Proof. vm_compute. reflexivity. Qed.


(** outside C13/C14's domains, recorded: after an element-returning function on a
    `[...T]` list, findValueAtPath spends the next key on moving from the list to
    its element type without applying it: any key is accepted and typed Object … *)
Lemma C14_key_after_element_function_not_applied :
  let elem := CStruct false [(mkLabel (bs "z") FRegular, CStr)] in
  let schema := CStruct false [(mkLabel (bs "ls") FRegular, CList true elem)] in
  let first := PFunc (Func false (bs "First") [] (bs "First()")) in
  let q key := TopP (Path false true false false
                       [PIdent (bs "ls") false (bs "ls"); first; PIdent key false key] (bs "$.ls.First()." ++ key)) in
  v_has_errors (validate_top schema [] (q (bs "z"))) = false /\
  v_type (validate_top schema [] (q (bs "z"))) = Some (PT_Object, IO_Single) /\
  v_has_errors (validate_top schema [] (q (bs "nosuch"))) = false.
Proof. vm_compute. auto. Qed.

(** … and the same happens to the first key of every `@` path inside a filter on
    such a list: `$.ls[@.nosuch.Equal("x")]` is accepted *)
Lemma C14_filter_key_not_applied :
  let elem := CStruct false [(mkLabel (bs "z") FRegular, CStr)] in
  let schema := CStruct false [(mkLabel (bs "ls") FRegular, CList true elem)] in
  let pred := Path false false true true
                [PIdent (bs "nosuch") false (bs "nosuch");
                 PFunc (Func false (bs "Equal") [FPStr (bs "x")] (bs "Equal(""x"")"))] (bs "@.nosuch.Equal(""x"")") in
  let flt := PFilter (LogOp false true LAnd [OpP pred] (bs "[@.nosuch.Equal(""x"")]")) (bs "[@.nosuch.Equal(""x"")]") in
  let q := TopP (Path false true false false [PIdent (bs "ls") false (bs "ls"); flt] (bs "$.ls[@.nosuch.Equal(""x"")]")) in
  v_has_errors (validate_top schema [] q) = false /\ v_err (validate_top schema [] q) = false.
Proof. vm_compute. auto. Qed.

Print Assumptions C14_accepts_iff.
Print Assumptions C14_accepts_iff_cue.
Print Assumptions C14_reported_type.
Print Assumptions C14_reported_type_cue.
Print Assumptions C14_reported_type_plain.
Print Assumptions C14_reported_type_element.
Print Assumptions C14_reported_type_bytes_refuted.
Print Assumptions C14_reported_type_any_array.
Print Assumptions C14_reported_type_asarray_select.
Print Assumptions C14_asarray_type_sound.
Print Assumptions C14_numeral_string_refuted.
Print Assumptions C14_type_sound.
Print Assumptions C14_type_sound_reported.
Print Assumptions C14_any_single_array_gap_accepted.
Print Assumptions C14_single_param_kind_unchecked.
Print Assumptions C14_key_after_element_function_not_applied.
Print Assumptions C14_filter_key_not_applied.
