(* Proofs/E2E3.v — end to end, aggregates, AnyOf and the string slicers: whole
   queries `$.xs.k.Sum()`, `$.nums.Sum(1,$.b)`, `$.xs.Select("$.k").Sum()`,
   `$.n.AnyOf(1,$.nums,3)`, `$.s.Left($.c)` over documents held in arbitrary Go
   carriers.  Builds on Proofs/E2E.v (a call after a key, arguments as literal
   or `$`-path), Proofs/E2E2.v (the rows setting), Proofs/C04.v (what the
   aggregates compute), Proofs/C06b.v (a key stepped across rows), Proofs/C17.v
   (Select, AnyOf, spreading) and Proofs/C18.v / Strings.v (the slicers). *)
From Coq Require Import QArith Qabs Lia.
From Mpath.Model Require Import Base Dec Types GoVal Ast Lexer Parser Funcs Eval.
From Mpath.Generated Require Import FuncTable.
From Mpath.Proofs Require Import EvalMono DecQ Strings C04 C05 C06 C06b C17 C18 C02 E2E E2E2.

Local Open Scope Z_scope.

(* ------------------------------------------------------------------ *)
(** * 0. The AST shapes                                                *)
(* ------------------------------------------------------------------ *)

(** `$.a.k.F()` — a rooted path: key a, key k stepped across the rows, then
    the function.  The parser produces [stepped_path false false a false a k
    false k false F "F()" "$.a.k.F()"] ([E2E3_parser_shapes]); the theorems
    hold for every value of the decoration fields. *)
Definition stepped_path (inv me : bool) (a : str) (q1 : bool) (u1 : str) (k : str) (q2 : bool) (u2 : str)
                        (finv : bool) (name : string) (fu us : str) : path :=
  Path inv true false me [PIdent a q1 u1; PIdent k q2 u2; PFunc (Func finv (bs name) [] fu)] us.

(** `$.a.Select("qs").F()` *)
Definition select_path (inv me : bool) (a : str) (q1 : bool) (u1 : str)
                       (sinv : bool) (qs su : str) (finv : bool) (name : string) (fu us : str) : path :=
  Path inv true false me [PIdent a q1 u1; PFunc (Func sinv (bs "Select") [FPStr qs] su);
                          PFunc (Func finv (bs name) [] fu)] us.

(** `$.a.F(ps)` is [call_path] of Proofs/E2E.v; `$.b` as an argument is
    [FPPath (key_path …)]. *)

(* ------------------------------------------------------------------ *)
(** * 1. Lists of rationals: sum, least, greatest                      *)
(* ------------------------------------------------------------------ *)

Fixpoint sumQ (qs : list Q) : Q :=
  match qs with [] => 0%Q | q :: r => (q + sumQ r)%Q end.

(** x is (the value of) a member of qs below / above every member *)
Definition least_of (x : Q) (qs : list Q) : Prop :=
  (exists q, In q qs /\ (x == q)%Q) /\ forall q, In q qs -> (x <= q)%Q.
Definition greatest_of (x : Q) (qs : list Q) : Prop :=
  (exists q, In q qs /\ (x == q)%Q) /\ forall q, In q qs -> (q <= x)%Q.

(** the decimals ds have the values qs, position by position *)
Definition vals (ds : list dec) (qs : list Q) : Prop := Forall2 (fun d q => (dval d == q)%Q) ds qs.

Lemma carriers_vals gs ds qs :
  Forall2 num_carrier gs ds -> Forall2 has_source gs qs -> vals ds qs.
Proof.
  intros Hc. revert qs. induction Hc as [|g d gs ds Hg Hr IH]; intros qs Hs.
  - inversion Hs. constructor.
  - inversion Hs as [|g' q gs' qs' Hq Hrest]; subst. constructor.
    + apply (carrier_source g d q Hg Hq).
    + apply IH. exact Hrest.
Qed.

Lemma vals_app ds ds' qs qs' : vals ds qs -> vals ds' qs' -> vals (ds ++ ds') (qs ++ qs').
Proof. intros H H'. apply Forall2_app; assumption. Qed.

Lemma vals_length ds qs : vals ds qs -> length ds = length qs.
Proof. apply Forall2_length'. Qed.

Lemma vals_self ds : vals ds (map dval ds).
Proof. induction ds; cbn [map]; constructor; [reflexivity|assumption]. Qed.

Lemma vals_In_l ds qs d : vals ds qs -> In d ds -> exists q, In q qs /\ (dval d == q)%Q.
Proof.
  induction 1 as [|d' q ds qs Hd Hr IH]; intros Hin; [contradiction|].
  destruct Hin as [<-|Hin].
  - exists q. split; [left; reflexivity|exact Hd].
  - destruct (IH Hin) as [q' [Hq' Hv]]. exists q'. split; [right; exact Hq'|exact Hv].
Qed.

Lemma vals_In_r ds qs q : vals ds qs -> In q qs -> exists d, In d ds /\ (dval d == q)%Q.
Proof.
  induction 1 as [|d q' ds qs Hd Hr IH]; intros Hin; [contradiction|].
  destruct Hin as [<-|Hin].
  - exists d. split; [left; reflexivity|exact Hd].
  - destruct (IH Hin) as [d' [Hd' Hv]]. exists d'. split; [right; exact Hd'|exact Hv].
Qed.

Lemma sumQ_app a b : (sumQ (a ++ b) == sumQ a + sumQ b)%Q.
Proof. induction a as [|x a IH]; cbn [app sumQ]; [ring|rewrite IH; ring]. Qed.

Lemma sumQ_compat qs qs' : Forall2 Qeq qs qs' -> (sumQ qs == sumQ qs')%Q.
Proof. induction 1 as [|q q' qs qs' Hq Hr IH]; cbn [sumQ]; [reflexivity|rewrite Hq, IH; reflexivity]. Qed.

Lemma qsum_vals ds qs : vals ds qs -> (qsum ds == sumQ qs)%Q.
Proof.
  induction 1 as [|d q ds qs Hd Hr IH]; [reflexivity|].
  rewrite qsum_cons. cbn [sumQ]. rewrite Hd, IH. reflexivity.
Qed.

Lemma least_of_compat x x' qs qs' :
  (x == x')%Q -> (forall q, In q qs -> exists q', In q' qs' /\ (q == q')%Q) ->
  (forall q', In q' qs' -> exists q, In q qs /\ (q == q')%Q) ->
  least_of x qs -> least_of x' qs'.
Proof.
  intros Hx H1 H2 [[q [Hin Hq]] Hle]. split.
  - destruct (H1 q Hin) as [q' [Hin' Hq']]. exists q'. split; [exact Hin'|].
    rewrite <- Hx, Hq. exact Hq'.
  - intros q' Hin'. destruct (H2 q' Hin') as [q0 [Hin0 Hq0]]. rewrite <- Hx, <- Hq0. apply Hle. exact Hin0.
Qed.

Lemma greatest_of_compat x x' qs qs' :
  (x == x')%Q -> (forall q, In q qs -> exists q', In q' qs' /\ (q == q')%Q) ->
  (forall q', In q' qs' -> exists q, In q qs /\ (q == q')%Q) ->
  greatest_of x qs -> greatest_of x' qs'.
Proof.
  intros Hx H1 H2 [[q [Hin Hq]] Hle]. split.
  - destruct (H1 q Hin) as [q' [Hin' Hq']]. exists q'. split; [exact Hin'|].
    rewrite <- Hx, Hq. exact Hq'.
  - intros q' Hin'. destruct (H2 q' Hin') as [q0 [Hin0 Hq0]]. rewrite <- Hx, <- Hq0. apply Hle. exact Hin0.
Qed.

(** the least (greatest) member is unique up to Qeq *)
Lemma least_unique x y qs : least_of x qs -> least_of y qs -> (x == y)%Q.
Proof.
  intros [[qx [Hix Hx]] Hlx] [[qy [Hiy Hy]] Hly]. apply Qle_antisym.
  - rewrite Hy. apply Hlx. exact Hiy.
  - rewrite Hx. apply Hly. exact Hix.
Qed.

Lemma greatest_unique x y qs : greatest_of x qs -> greatest_of y qs -> (x == y)%Q.
Proof.
  intros [[qx [Hix Hx]] Hlx] [[qy [Hiy Hy]] Hly]. apply Qle_antisym.
  - rewrite Hx. apply Hly. exact Hix.
  - rewrite Hy. apply Hlx. exact Hiy.
Qed.

Lemma Forall2_Qeq_In_l qs qs' q : Forall2 Qeq qs qs' -> In q qs -> exists q', In q' qs' /\ (q == q')%Q.
Proof.
  induction 1 as [|a b qs qs' Hab Hr IH]; intros Hin; [contradiction|].
  destruct Hin as [<-|Hin]; [exists b; split; [left; reflexivity|exact Hab]|].
  destruct (IH Hin) as [q' [H1 H2]]. exists q'. split; [right; exact H1|exact H2].
Qed.

Lemma Forall2_Qeq_In_r qs qs' q' : Forall2 Qeq qs qs' -> In q' qs' -> exists q, In q qs /\ (q == q')%Q.
Proof.
  induction 1 as [|a b qs qs' Hab Hr IH]; intros Hin; [contradiction|].
  destruct Hin as [<-|Hin]; [exists a; split; [left; reflexivity|exact Hab]|].
  destruct (IH Hin) as [q [H1 H2]]. exists q. split; [right; exact H1|exact H2].
Qed.

(* ------------------------------------------------------------------ *)
(** * 2. What the four aggregates compute on a list of decimals        *)
(* ------------------------------------------------------------------ *)

(** [agg_value a ds] (Proofs/C17.v): 0 for no operand, the operand itself for
    one, decimal.Sum / Avg / Min / Max of the first and the rest otherwise *)

Lemma agg_sum ds qs : vals ds qs -> (dval (agg_value AggSum ds) == sumQ qs)%Q.
Proof.
  intros H. rewrite <- (qsum_vals ds qs H). unfold agg_value.
  destruct ds as [|d [|d' rest]].
  - apply dzero_exact.
  - rewrite qsum_cons. unfold qsum. cbn [map fold_left]. ring.
  - cbn [run_agg]. rewrite dsum_exact. apply fold_from.
Qed.

Lemma agg_min_dec ds : ds <> [] ->
  In (agg_value AggMin ds) ds /\ forall x, In x ds -> (dval (agg_value AggMin ds) <= dval x)%Q.
Proof.
  intros Hne. unfold agg_value. destruct ds as [|d [|d' rest]]; [contradiction| |].
  - split; [left; reflexivity|]. intros x [<-|[]]. apply Qle_refl.
  - cbn [run_agg]. apply dmin_spec.
Qed.

Lemma agg_max_dec ds : ds <> [] ->
  In (agg_value AggMax ds) ds /\ forall x, In x ds -> (dval x <= dval (agg_value AggMax ds))%Q.
Proof.
  intros Hne. unfold agg_value. destruct ds as [|d [|d' rest]]; [contradiction| |].
  - split; [left; reflexivity|]. intros x [<-|[]]. apply Qle_refl.
  - cbn [run_agg]. apply dmax_spec.
Qed.

Lemma agg_min ds qs : vals ds qs -> ds <> [] -> least_of (dval (agg_value AggMin ds)) qs.
Proof.
  intros H Hne. destruct (agg_min_dec ds Hne) as [Hin Hle]. split.
  - apply (vals_In_l ds qs _ H Hin).
  - intros q Hq. destruct (vals_In_r ds qs q H Hq) as [d [Hd Hv]]. rewrite <- Hv. apply Hle. exact Hd.
Qed.

Lemma agg_max ds qs : vals ds qs -> ds <> [] -> greatest_of (dval (agg_value AggMax ds)) qs.
Proof.
  intros H Hne. destruct (agg_max_dec ds Hne) as [Hin Hle]. split.
  - apply (vals_In_l ds qs _ H Hin).
  - intros q Hq. destruct (vals_In_r ds qs q H Hq) as [d [Hd Hv]]. rewrite <- Hv. apply Hle. exact Hd.
Qed.

(** half a unit of the 16th decimal place *)
Definition half_unit : Q := ((1 # 2) * pow10Q (-16))%Q.

Lemma half_unit_nonneg : (0 <= half_unit)%Q.
Proof. unfold half_unit. apply Qmult_le_0_compat; [discriminate|]. apply Qlt_le_weak. apply pow10Q_pos. Qed.

(** the exact mean *)
Definition meanQ (qs : list Q) : Q := (sumQ qs / inject_Z (Z.of_nat (length qs)))%Q.

Lemma agg_avg ds qs : vals ds qs -> ds <> [] ->
  (Qabs (dval (agg_value AggAvg ds) - meanQ qs) <= half_unit)%Q.
Proof.
  intros H Hne. unfold meanQ. rewrite <- (qsum_vals ds qs H), <- (vals_length ds qs H).
  unfold agg_value. destruct ds as [|d [|d' rest]]; [contradiction| |].
  - (* one operand: returned as it is, and the mean of one number is that number *)
    assert (E : (dval d - qsum [d] / inject_Z (Z.of_nat (length [d])) == 0)%Q).
    { rewrite qsum_cons. unfold qsum. cbn [map fold_left length]. change (inject_Z (Z.of_nat 1)) with 1%Q. field. }
    rewrite E. apply half_unit_nonneg.
  - cbn [run_agg]. pose proof (davg_half_unit d (d' :: rest)) as Hh.
    rewrite (fold_from d (d' :: rest)) in Hh. exact Hh.
Qed.

(* ------------------------------------------------------------------ *)
(** * 2b. The rounded quotient depends on values only                  *)
(* ------------------------------------------------------------------ *)

(** round half away from zero of aa / bb, as DivRound computes it from the
    truncated quotient and the remainder *)
Definition rnd (aa bb : Z) : Z :=
  match (Z.abs (Z.rem aa bb) * 2 ?= Z.abs bb) with
  | Lt => Z.quot aa bb
  | _ => if Z.sgn aa * Z.sgn bb <? 0 then Z.quot aa bb - 1 else Z.quot aa bb + 1
  end.

Lemma rnd_scale aa bb m : 0 < m -> bb <> 0 -> rnd (aa * m) (bb * m) = rnd aa bb.
Proof.
  intros Hm Hb. unfold rnd.
  rewrite (Z.quot_mul_cancel_r aa bb m) by lia.
  rewrite (Z.mul_rem_distr_r aa bb m) by lia.
  rewrite !Z.abs_mul, !Z.sgn_mul, (Z.sgn_pos m Hm), !Z.mul_1_r, (Z.abs_eq m) by lia.
  replace (Z.abs (Z.rem aa bb) * m * 2) with (Z.abs (Z.rem aa bb) * 2 * m) by ring.
  rewrite <- (Zmult_compare_compat_r (Z.abs (Z.rem aa bb) * 2) (Z.abs bb) m) by lia.
  reflexivity.
Qed.

Lemma rnd_cross aa bb aa' bb' : 0 < bb * bb' -> aa * bb' = aa' * bb -> rnd aa bb = rnd aa' bb'.
Proof.
  intros Hs Hx.
  assert (Hb : bb <> 0) by nia. assert (Hb' : bb' <> 0) by nia.
  rewrite <- (rnd_scale aa bb (Z.abs bb')) by lia.
  rewrite <- (rnd_scale aa' bb' (Z.abs bb)) by lia.
  f_equal; nia.
Qed.

Lemma div_round_rnd a b prec : coef b <> 0 ->
  exists aa pa pb, 0 < pa /\ 0 < pb /\ aa = coef a * pa /\
    (dval a / dval b == inject_Z aa / inject_Z (coef b * pb) * pow10Q (- prec))%Q /\
    (dval (div_round a b prec) == inject_Z (rnd aa (coef b * pb)) * pow10Q (- prec))%Q.
Proof.
  intros Hb.
  destruct (quo_rem_shape a b prec Hb)
    as (aa & bb & pa & pb & er & Hpa & Hpb & Haa & Hbb & Hqr & Hdiv & Hpow).
  exists aa, pa, pb. rewrite <- Hbb.
  split; [exact Hpa|]. split; [exact Hpb|]. split; [exact Haa|]. split; [exact Hdiv|].
  assert (Hbbnz : bb <> 0) by nia.
  assert (Hsa : Z.sgn (coef a) = Z.sgn aa).
  { rewrite Haa, Z.sgn_mul, (Z.sgn_pos pa Hpa). lia. }
  assert (Hsb : Z.sgn (coef b) = Z.sgn bb).
  { rewrite Hbb, Z.sgn_mul, (Z.sgn_pos pb Hpb). lia. }
  assert (Habs : Z.abs bb = Z.abs (coef b) * pb).
  { rewrite Hbb, Z.abs_mul, (Z.abs_eq pb) by lia. reflexivity. }
  unfold div_round. rewrite Hqr. cbv iota. cbn [coef dexp].
  rewrite Hsa, Hsb.
  assert (Hcmp : dcmp (mkDec (Z.abs (Z.rem aa bb) * 2) (er + prec)) (dabs b)
                 = (Z.abs (Z.rem aa bb) * 2 ?= Z.abs bb)).
  { rewrite dcmp_spec, dval_mk.
    assert (Hab : (dval (dabs b) == inject_Z (Z.abs bb) * pow10Q (er + prec))%Q).
    { unfold dabs. rewrite dval_mk, Hpow, Habs, inject_Z_mult. ring. }
    rewrite Hab. apply Qcompare_scale. apply pow10Q_pos. }
  rewrite Hcmp. clear Hcmp. unfold rnd.
  assert (Hone : (dval (mkDec 1 (- prec)) == pow10Q (- prec))%Q).
  { rewrite dval_mk. change (inject_Z 1) with 1%Q. ring. }
  assert (Hup : (dval (if Z.sgn aa * Z.sgn bb <? 0
                then dsub (mkDec (Z.quot aa bb) (- prec)) (mkDec 1 (- prec))
                else dadd (mkDec (Z.quot aa bb) (- prec)) (mkDec 1 (- prec)))
          == inject_Z (if Z.sgn aa * Z.sgn bb <? 0 then Z.quot aa bb - 1 else Z.quot aa bb + 1) * pow10Q (- prec))%Q).
  { destruct (Z.sgn aa * Z.sgn bb <? 0).
    - rewrite dsub_exact, Hone, dval_mk. unfold Z.sub.
      rewrite inject_Z_plus, inject_Z_opp. change (inject_Z 1) with 1%Q. ring.
    - rewrite dadd_exact, Hone, dval_mk.
      rewrite inject_Z_plus. change (inject_Z 1) with 1%Q. ring. }
  destruct (Z.abs (Z.rem aa bb) * 2 ?= Z.abs bb).
  - exact Hup.
  - rewrite dval_mk. reflexivity.
  - exact Hup.
Qed.

(** the quotient rounded to 16 places depends on the VALUE of the dividend
    only, not on its representation *)
Theorem ddiv_compat_l a a' b : (dval a == dval a')%Q -> coef b <> 0 ->
  (dval (ddiv a b) == dval (ddiv a' b))%Q.
Proof.
  intros Ha Hb. unfold ddiv.
  destruct (div_round_rnd a b division_precision Hb) as (aa & pa & pb & Hpa & Hpb & Haa & Hdiv & Hr).
  destruct (div_round_rnd a' b division_precision Hb) as (aa' & pa' & pb' & Hpa' & Hpb' & Haa' & Hdiv' & Hr').
  rewrite Hr, Hr'.
  assert (Hx : aa * (coef b * pb') = aa' * (coef b * pb)).
  { assert (Hnb : ~ (inject_Z (coef b * pb) == 0)%Q) by (apply inject_Z_nz; nia).
    assert (Hnb' : ~ (inject_Z (coef b * pb') == 0)%Q) by (apply inject_Z_nz; nia).
    pose proof (pow10Q_nz (- division_precision)) as Hp.
    assert (Hdb : ~ (dval b == 0)%Q).
    { unfold dval. intros E. apply Qmult_integral in E. destruct E as [E|E].
      - revert E. apply inject_Z_nz. exact Hb.
      - revert E. apply pow10Q_nz. }
    assert (E : (dval a / dval b == dval a' / dval b)%Q) by (rewrite Ha; reflexivity).
    rewrite Hdiv, Hdiv' in E.
    apply inject_Z_injective. rewrite !inject_Z_mult.
    set (A := inject_Z aa) in *. set (A' := inject_Z aa') in *.
    rewrite <- !inject_Z_mult.
    set (B := inject_Z (coef b * pb)) in *. set (B' := inject_Z (coef b * pb')) in *.
    set (P := pow10Q (- division_precision)) in *.
    assert (E1 : (A * B' == (A / B * P) * (B * B' / P))%Q) by (field; split; assumption).
    rewrite E1, E. field. split; assumption. }
  rewrite (rnd_cross aa (coef b * pb) aa' (coef b * pb')); [reflexivity| |exact Hx].
  nia.
Qed.

(** … hence every aggregate: operands of equal values, position by position,
    in whatever representation (1.5 or 1.50, 2 or 2.0), give results of equal
    value — for Average too, whose rounding to 16 places is a function of the
    exact mean *)
Lemma agg_value_compat a ds ds' qs qs' :
  vals ds qs -> vals ds' qs' -> Forall2 Qeq qs qs' ->
  (dval (agg_value a ds) == dval (agg_value a ds'))%Q.
Proof.
  intros H H' Hq.
  assert (Hlen : length ds = length ds').
  { rewrite (vals_length _ _ H), (vals_length _ _ H'). apply (Forall2_length' _ _ _ Hq). }
  destruct a.
  - rewrite (agg_sum ds qs H), (agg_sum ds' qs' H'). apply sumQ_compat. exact Hq.
  - destruct ds as [|d [|d1 rest]]; destruct ds' as [|d' [|d1' rest']]; try discriminate Hlen.
    + reflexivity.
    + change (agg_value AggAvg [d]) with (agg_value AggSum [d]).
      change (agg_value AggAvg [d']) with (agg_value AggSum [d']).
      rewrite (agg_sum [d] qs H), (agg_sum [d'] qs' H'). apply sumQ_compat. exact Hq.
    + change (agg_value AggAvg (d :: d1 :: rest)) with (davg d (d1 :: rest)).
      change (agg_value AggAvg (d' :: d1' :: rest')) with (davg d' (d1' :: rest')).
      unfold davg. cbn [length] in Hlen. injection Hlen as Hlen. cbn [length]. rewrite Hlen.
      apply ddiv_compat_l; [|cbn [coef]; lia].
      rewrite !dsum_exact, !fold_from, (qsum_vals _ _ H), (qsum_vals _ _ H'). apply sumQ_compat. exact Hq.
  - destruct ds as [|d ds0]; destruct ds' as [|d' ds0']; try discriminate Hlen; [reflexivity|].
    apply (least_unique _ _ qs'); [|apply (agg_min _ _ H'); discriminate].
    apply (least_of_compat _ _ qs qs' (Qeq_refl _)); [| |apply (agg_min _ _ H); discriminate].
    + intros q Hin. apply (Forall2_Qeq_In_l qs qs' q Hq Hin).
    + intros q Hin. apply (Forall2_Qeq_In_r qs qs' q Hq Hin).
  - destruct ds as [|d ds0]; destruct ds' as [|d' ds0']; try discriminate Hlen; [reflexivity|].
    apply (greatest_unique _ _ qs'); [|apply (agg_max _ _ H'); discriminate].
    apply (greatest_of_compat _ _ qs qs' (Qeq_refl _)); [| |apply (agg_max _ _ H); discriminate].
    + intros q Hin. apply (Forall2_Qeq_In_l qs qs' q Hq Hin).
    + intros q Hin. apply (Forall2_Qeq_In_r qs qs' q Hq Hin).
Qed.

(* ------------------------------------------------------------------ *)
(** * 3. Arrays of numbers, and arguments that spread                  *)
(* ------------------------------------------------------------------ *)

(** a slice or Go array held DIRECTLY (not behind a pointer): what an
    aggregate accepts as its receiver and what an argument must be to be
    spread.  Behind a pointer the aggregate sees "not an array" and answers 0,
    and the spreading fails ([E2E3_pointer_to_array_refuted]). *)
Definition direct_elems (arr : gv) : option (list gv) := option_map snd (elems_of arr).

Lemma direct_cases arr xs : direct_elems arr = Some xs ->
  (exists t n, arr = VSlice t n xs) \/ (exists t, arr = VArray t xs).
Proof.
  unfold direct_elems. destruct arr; cbn; try discriminate; intros H; injection H as ->; eauto.
Qed.

Lemma direct_is_elems arr xs : direct_elems arr = Some xs -> elems arr = Some xs.
Proof. intros H. destruct (direct_cases arr xs H) as [[t [n ->]]|[t ->]]; reflexivity. Qed.

(** a slice statically typed []decimal.Decimal holds decimals: a condition of
    well-typedness of the model's value (the tag EDec on a slice whose elements
    are not all [VDec] describes no Go value), needed because the aggregates
    take the []decimal.Decimal branch on the tag alone *)
Definition is_dec (g : gv) : bool := match g with VDec _ => true | _ => false end.
Definition well_tagged (arr : gv) : bool :=
  match arr with VSlice EDec _ xs => forallb is_dec xs | _ => true end.

Lemma elem_number_carrier g d : num_carrier g d -> elem_number g = Some d.
Proof.
  intros H. pose proof (convert_number_carrier g d H) as Hc.
  destruct H; try reflexivity; unfold elem_number; unfold convert_number in Hc;
    destruct (convert_number_check _) as [was d']; destruct was; try discriminate Hc;
    injection Hc as ->; reflexivity.
Qed.

Lemma spread_elem_carrier g d : num_carrier g d -> spread_elem g = Some (RNum d).
Proof.
  intros H. pose proof (convert_number_carrier g d H) as Hc.
  destruct H; try reflexivity; unfold spread_elem; unfold convert_number in Hc;
    destruct (convert_number_check _) as [was d']; destruct was; try discriminate Hc;
    injection Hc as ->; reflexivity.
Qed.

Lemma all_elem_numbers gs ds : Forall2 num_carrier gs ds -> all_some (map elem_number gs) = Some ds.
Proof.
  induction 1 as [|g d gs ds Hg Hr IH]; [reflexivity|].
  cbn [map all_some]. rewrite (elem_number_carrier g d Hg), IH. reflexivity.
Qed.

Lemma all_dec_elements gs ds : Forall2 num_carrier gs ds -> forallb is_dec gs = true ->
  all_some (map (fun x => match x with VDec d => Some d | _ => None end) gs) = Some ds.
Proof.
  induction 1 as [|g d gs ds Hg Hr IH]; intros Hd; [reflexivity|].
  cbn [forallb] in Hd. apply andb_prop in Hd. destruct Hd as [Hd1 Hd2].
  cbn [map all_some]. rewrite (IH Hd2). destruct Hg; try discriminate Hd1. reflexivity.
Qed.

(** the operands of an aggregate whose receiver is an array of numbers and
    whose resolved arguments are the numbers [ps]: the arguments come first,
    except for a []decimal.Decimal receiver, where they come last *)
Lemma agg_on_array a ps arr gs ds :
  direct_elems arr = Some gs -> well_tagged arr = true -> Forall2 num_carrier gs ds ->
  exists ops, func_decimal_slice a (map RNum ps) arr = Ok (VDec (agg_value a ops)) /\
              (ops = ps ++ ds \/ ops = ds ++ ps).
Proof.
  intros Hd Hw Hc.
  assert (Hn : numbers (map RNum ps) ++ filter_map string_number (strings (map RNum ps)) = ps).
  { rewrite numbers_rnum. assert (Hs : strings (map RNum ps) = []).
    { clear. induction ps as [|p ps IH]; [reflexivity|exact IH]. }
    rewrite Hs. cbn [filter_map]. apply app_nil_r. }
  assert (Hfin : forall ops, match ops with
                             | [] => Ok (VDec dzero) | [d] => Ok (VDec d)
                             | d :: rest => Ok (VDec (run_agg a d rest)) end
                             = Ok (VDec (agg_value a ops))).
  { intros [|d [|d' rest]]; reflexivity. }
  destruct (direct_cases arr gs Hd) as [[t [n ->]]|[t ->]].
  - destruct t.
    1,3,4,5,6,7: exists (ps ++ ds); split; [|left; reflexivity];
      unfold func_decimal_slice; rewrite Hn, (all_elem_numbers gs ds Hc); cbn [option_map]; apply Hfin.
    exists (ds ++ ps). split; [|right; reflexivity].
    unfold func_decimal_slice. rewrite Hn. cbn [well_tagged] in Hw.
    rewrite (all_dec_elements gs ds Hc Hw). cbn [option_map]. apply Hfin.
  - exists (ps ++ ds). split; [|left; reflexivity].
    unfold func_decimal_slice. rewrite Hn, (all_elem_numbers gs ds Hc). cbn [option_map]. apply Hfin.
Qed.

(** an element of an array argument: a numeric carrier, a Go string, a Go bool *)
Inductive elem_denotes : gv -> rparam -> Prop :=
| ed_num g d : num_carrier g d -> elem_denotes g (RNum d)
| ed_str s : elem_denotes (VStr false s) (RStr s)
| ed_bool b : elem_denotes (VBool false b) (RBool b).

Lemma spread_elems xs rs : Forall2 elem_denotes xs rs -> all_some (map spread_elem xs) = Some rs.
Proof.
  induction 1 as [|x r xs rs Hx Hr IH]; [reflexivity|].
  cbn [map all_some]. rewrite IH. destruct Hx as [g d Hg|s|b].
  - rewrite (spread_elem_carrier g d Hg). reflexivity.
  - reflexivity.
  - reflexivity.
Qed.

(** what an argument contributes to the resolved argument list: a literal or a
    path to a scalar contributes what it denotes ([param_denotes] of
    Proofs/E2E.v); a path to an array (slice or Go array of ANY element tag and
    nil flag, held directly) contributes its elements, in order.
    Restrictions of the model: none on the element tag or the nil flag; the
    array must not sit behind a pointer ([E2E3_pointer_to_array_refuted]), and
    every element must be a number, a Go string or a Go bool. *)
Inductive arg_spreads (doc : gv) : param -> list rparam -> Prop :=
| as_single p r : param_denotes doc p r -> arg_spreads doc p [r]
| as_array inv me b q u us arr xs rs :
    obj_row b doc arr -> direct_elems arr = Some xs -> Forall2 elem_denotes xs rs ->
    arg_spreads doc (FPPath (key_path inv me b q u us)) rs.

(** the numeric arguments: literals, paths to numeric carriers, paths to
    arrays of numeric carriers; [ds] the decimals they contribute, in order,
    and [qs] their source values (for a literal: its value) *)
Inductive args_values (doc : gv) : list param -> list dec -> list Q -> Prop :=
| av_nil : args_values doc [] [] []
| av_lit d ps ds qs : args_values doc ps ds qs -> args_values doc (FPNum d :: ps) (d :: ds) (dval d :: qs)
| av_num inv me b q u us g d qv ps ds qs :
    obj_row b doc g -> num_carrier g d -> has_source g qv -> args_values doc ps ds qs ->
    args_values doc (FPPath (key_path inv me b q u us) :: ps) (d :: ds) (qv :: qs)
| av_arr inv me b q u us arr gs ds0 qs0 ps ds qs :
    obj_row b doc arr -> direct_elems arr = Some gs ->
    Forall2 num_carrier gs ds0 -> Forall2 has_source gs qs0 -> args_values doc ps ds qs ->
    args_values doc (FPPath (key_path inv me b q u us) :: ps) (ds0 ++ ds) (qs0 ++ qs).

Lemma carriers_elem_denote gs ds : Forall2 num_carrier gs ds -> Forall2 elem_denotes gs (map RNum ds).
Proof. induction 1; cbn [map]; constructor; [constructor; assumption|assumption]. Qed.

Lemma args_values_spread doc ps ds qs : args_values doc ps ds qs ->
  vals ds qs /\ exists rss, Forall2 (arg_spreads doc) ps rss /\ concat rss = map RNum ds.
Proof.
  induction 1 as [|d ps ds qs H [IHv [rss [IH1 IH2]]]
                  |inv me b q u us g d qv ps ds qs Hrow Hc Hs H [IHv [rss [IH1 IH2]]]
                  |inv me b q u us arr gs ds0 qs0 ps ds qs Hrow Hd Hc Hs H [IHv [rss [IH1 IH2]]]].
  - split; [constructor|]. exists []. split; [constructor|reflexivity].
  - split; [constructor; [reflexivity|exact IHv]|].
    exists ([RNum d] :: rss). split; [constructor; [apply as_single; constructor|exact IH1]|].
    cbn [concat map app]. rewrite IH2. reflexivity.
  - split; [constructor; [apply (carrier_source g d qv Hc Hs)|exact IHv]|].
    exists ([RNum d] :: rss). split.
    + constructor; [|exact IH1]. apply as_single. apply (pd_path_num doc inv me b q u us g d Hrow Hc).
    + cbn [concat map app]. rewrite IH2. reflexivity.
  - split; [apply vals_app; [apply (carriers_vals gs ds0 qs0 Hc Hs)|exact IHv]|].
    exists (map RNum ds0 :: rss). split.
    + constructor; [|exact IH1].
      apply (as_array doc inv me b q u us arr gs (map RNum ds0) Hrow Hd (carriers_elem_denote gs ds0 Hc)).
    + cbn [concat]. rewrite IH2, map_app. reflexivity.
Qed.

Lemma direct_unconverted arr xs : direct_elems arr = Some xs -> convert_unless_string arr = arr.
Proof. intros H. apply (elems_unconverted arr xs). apply direct_is_elems. exact H. Qed.

Lemma spread_direct arr xs rs :
  direct_elems arr = Some xs -> Forall2 elem_denotes xs rs -> spread_result arr = Ok rs.
Proof.
  intros Hd Hx. destruct (direct_cases arr xs Hd) as [[t [n ->]]|[t ->]];
    cbn [spread_result]; rewrite (spread_elems xs rs Hx); reflexivity.
Qed.

Section E2E3.
Variable uni : uclass.
Variable eng : engines.

(** the resolved argument list: every argument's contribution, concatenated *)
Theorem E2E3_eval_params : forall fuel cur doc ps rss,
  Forall2 (arg_spreads doc) ps rss ->
  eval_params (fun m => eval uni eng (S (S fuel)) m cur doc) ps = Ok (concat rss).
Proof.
  intros fuel cur doc ps rss H. apply eval_params_spec.
  induction H as [|p rs ps rss Hp Hr IH]; constructor; [|exact IH].
  destruct Hp as [p r Hp|inv me b q u us arr xs rs Hrow Hd Hx].
  - pose proof (E2E_eval_params uni eng fuel cur doc [p] [r] (Forall2_cons _ _ Hp (Forall2_nil _))) as E.
    rewrite eval_params_unfold in E. cbn [eval_params] in E.
    destruct (param_here _ p) as [h|e|m| |w]; cbn [bind] in E; try discriminate E.
    injection E as E. rewrite app_nil_r in E. rewrite E. reflexivity.
  - unfold param_here. rewrite (eval_key_path_row uni eng fuel inv me b q u us cur doc arr Hrow).
    cbn [bind]. rewrite (direct_unconverted arr xs Hd). apply (spread_direct arr xs rs Hd Hx).
Qed.

Lemma eval_params_values fuel cur doc ps ds qs :
  args_values doc ps ds qs ->
  eval_params (fun m => eval uni eng (S (S fuel)) m cur doc) ps = Ok (map RNum ds) /\ vals ds qs.
Proof.
  intros H. destruct (args_values_spread doc ps ds qs H) as [Hv [rss [H1 H2]]].
  split; [|exact Hv]. rewrite (E2E3_eval_params fuel cur doc ps rss H1), H2. reflexivity.
Qed.

End E2E3.

(* ------------------------------------------------------------------ *)
(** * 4. Evaluation of the three shapes                                *)
(* ------------------------------------------------------------------ *)

(** key k stepped across an array carrier (slice or Go array of any element
    tag, directly or behind one pointer) of objects that all have the key *)
Lemma do_ident_rows k arr rows gs ds :
  elems arr = Some rows -> rows <> [] -> Forall2 (obj_row k) rows gs -> Forall2 num_carrier gs ds ->
  do_ident k arr = Ok (VSlice EAny false (map VDec ds)).
Proof.
  intros He Hne Hr Hc.
  destruct (elems_cases arr rows He) as [[t [n ->]]|[[t ->]|[[t [n ->]]|[t ->]]]].
  - apply (proj1 (C06b_across_array k t rows gs ds Hne Hr Hc)).
  - apply (proj1 (proj2 (C06b_across_array k t rows gs ds Hne Hr Hc))).
  - rewrite (proj1 (C06b_across_array_behind_pointer k t n rows)).
    apply (proj1 (C06b_across_array k t rows gs ds Hne Hr Hc)).
  - rewrite (proj2 (C06b_across_array_behind_pointer k t false rows)).
    apply (proj1 (proj2 (C06b_across_array k t rows gs ds Hne Hr Hc))).
Qed.

Lemma do_ident_no_rows k arr : elems arr = Some [] -> do_ident k arr = Err EKeyNotFound.
Proof.
  intros He. destruct (elems_cases arr [] He) as [[t [n ->]]|[[t ->]|[[t [n ->]]|[t ->]]]]; reflexivity.
Qed.

Definition agg_names : list string := ["Sum"; "Average"; "Minimum"; "Maximum"].

Lemma agg_plain a : plain_function (C17.agg_name a) = true.
Proof. destruct a; vm_compute; reflexivity. Qed.

Lemma agg_names_cases F : In F agg_names -> exists a, F = C17.agg_name a.
Proof.
  unfold agg_names. cbn [In]. intros [<-|[<-|[<-|[<-|[]]]]];
    [exists AggSum|exists AggAvg|exists AggMin|exists AggMax]; reflexivity.
Qed.

Section Shapes.
Variable uni : uclass.
Variable eng : engines.

(** `$.a.k.F()`: F runs on the []any of the decimals collected by the key.
    Side condition [is_nil arr = true -> q1 = true] as in Proofs/E2E2.v: a key
    is not a function, so after a nil value it is refused unless the preceding
    key carries `?`.  (A nil slice with rows describes no Go value; the
    condition is vacuous for every real non-empty array.) *)
Lemma stepped_eval fuel inv me a q1 u1 k q2 u2 finv name fu us cur doc arr rows gs ds :
  obj_row a doc arr -> elems arr = Some rows -> rows <> [] -> (is_nil arr = true -> q1 = true) ->
  Forall2 (obj_row k) rows gs -> Forall2 num_carrier gs ds -> plain_function name = true ->
  eval uni eng (S (S (S fuel))) (NPath (stepped_path inv me a q1 u1 k q2 u2 finv name fu us)) cur doc
  = run_func eng name [] (VSlice EAny false (map VDec ds)).
Proof.
  intros Hrow He Hne Hnil Hr Hc Hp. unfold stepped_path.
  rewrite (eval_path_unfold uni eng). cbn [andb path_ops].
  change (eval uni eng (S (S fuel)) (NOp (PIdent a q1 u1)) doc doc) with (do_ident a doc).
  rewrite (do_ident_row a doc arr Hrow), (elems_unconverted arr rows He).
  cbn [path_ops pathop_qmark pathop_is_func negb orb].
  assert (Hblk : is_nil arr && negb q1 && true = false).
  { destruct (is_nil arr); [rewrite (Hnil eq_refl)|]; reflexivity. }
  rewrite Hblk.
  change (eval uni eng (S (S fuel)) (NOp (PIdent k q2 u2)) arr doc) with (do_ident k arr).
  rewrite (do_ident_rows k arr rows gs ds He Hne Hr Hc).
  cbn [path_ops pathop_qmark pathop_is_func negb]. rewrite andb_false_r.
  change (eval uni eng (S (S fuel)) (NOp (PFunc (Func finv (bs name) [] fu))) (VSlice EAny false (map VDec ds)) doc)
    with (eval uni eng (S fuel) (NFunc (Func finv (bs name) [] fu)) (VSlice EAny false (map VDec ds)) doc).
  rewrite (eval_func_node uni eng fuel finv name [] fu _ doc Hp).
  cbn [eval_params bind].
  rewrite (convert_number_elems (VSlice EAny false (map VDec ds)) (map VDec ds) eq_refl).
  destruct (run_func eng name [] (VSlice EAny false (map VDec ds))) as [v'|[|tg]|m| |w]; reflexivity.
Qed.

(** … over an array carrier with no rows *)
Lemma stepped_eval_empty fuel inv me a q1 u1 k q2 u2 finv name fu us cur doc arr :
  obj_row a doc arr -> elems arr = Some [] -> plain_function name = true ->
  eval uni eng (S (S (S fuel))) (NPath (stepped_path inv me a q1 u1 k q2 u2 finv name fu us)) cur doc
  = if is_nil arr && negb q1 then Err (EOther "cannot access property of nil value")
    else if q2 then run_func eng name [] VNil
    else Err EKeyNotFound.
Proof.
  intros Hrow He Hp. unfold stepped_path.
  rewrite (eval_path_unfold uni eng). cbn [andb path_ops].
  change (eval uni eng (S (S fuel)) (NOp (PIdent a q1 u1)) doc doc) with (do_ident a doc).
  rewrite (do_ident_row a doc arr Hrow), (elems_unconverted arr [] He).
  cbn [path_ops pathop_qmark pathop_is_func negb orb]. rewrite andb_true_r.
  destruct (is_nil arr && negb q1); [reflexivity|].
  change (eval uni eng (S (S fuel)) (NOp (PIdent k q2 u2)) arr doc) with (do_ident k arr).
  rewrite (do_ident_no_rows k arr He).
  destruct q2; [|reflexivity].
  cbn [path_ops pathop_qmark pathop_is_func negb andb].
  change (eval uni eng (S (S fuel)) (NOp (PFunc (Func finv (bs name) [] fu))) VNil doc)
    with (eval uni eng (S fuel) (NFunc (Func finv (bs name) [] fu)) VNil doc).
  rewrite (eval_func_node uni eng fuel finv name [] fu _ doc Hp).
  cbn [eval_params bind]. change (convert_number VNil) with VNil.
  destruct (run_func eng name [] VNil) as [v'|[|tg]|m| |w]; reflexivity.
Qed.

(** `$.a.Select("$.k").F()`: Select runs `$.k` on every row (there `$` is the
    row) and collects the decimals; F runs on that []any.  No condition on a
    nil array carrier: both operations after the key are functions. *)
Lemma select_eval fuel inv me a q1 u1 sinv qstr su finv name fu us pinv pme k pq pu pus cur doc arr rows gs ds :
  parse_string uni qstr = Ok (TopP (key_path pinv pme k pq pu pus)) ->
  obj_row a doc arr -> elems arr = Some rows ->
  Forall2 (obj_row k) rows gs -> Forall2 num_carrier gs ds -> plain_function name = true ->
  eval uni eng (S (S (S (S (S (S fuel)))))) (NPath (select_path inv me a q1 u1 sinv qstr su finv name fu us)) cur doc
  = run_func eng name [] (VSlice EAny (match ds with [] => true | _ => false end) (map VDec ds)).
Proof.
  intros Hq Hrow He Hr Hc Hp. unfold select_path.
  rewrite (eval_path_unfold uni eng). cbn [andb path_ops].
  change (eval uni eng (S (S (S (S (S fuel))))) (NOp (PIdent a q1 u1)) doc doc) with (do_ident a doc).
  rewrite (do_ident_row a doc arr Hrow), (elems_unconverted arr rows He).
  cbn [path_ops pathop_qmark pathop_is_func negb orb]. rewrite andb_false_r.
  change (eval uni eng (S (S (S (S (S fuel))))) (NOp (PFunc (Func sinv (bs "Select") [FPStr qstr] su))) arr doc)
    with (eval uni eng (S (S (S (S fuel)))) (NFunc (Func sinv (bs "Select") [FPStr qstr] su)) arr doc).
  assert (Hrs : Forall2 (fun x r => eval uni eng (S (S (S fuel))) (NTop (TopP (key_path pinv pme k pq pu pus))) x x = Ok r)
                        rows (map VDec ds)).
  { clear - Hr Hc. revert ds Hc. induction Hr as [|x g rows gs Hx Hr IH]; intros ds Hc.
    - inversion Hc. constructor.
    - inversion Hc as [|g' d gs' ds' Hg Hrest]; subst. cbn [map]. constructor; [|apply IH; exact Hrest].
      rewrite eval_top. rewrite (eval_key_path_row uni eng fuel pinv pme k pq pu pus x x g Hx).
      rewrite (convert_unless_string_carrier g d Hg). reflexivity. }
  rewrite (select_flat_map_elems uni eng (S (S (S fuel))) sinv qstr su _ arr doc rows (map VDec ds) Hq He Hrs).
  assert (Hfl : concat (map flatten_result (map VDec ds)) = map VDec ds).
  { clear. induction ds as [|d ds IH]; [reflexivity|]. cbn [map concat flatten_result app]. rewrite IH. reflexivity. }
  rewrite Hfl.
  assert (Hfg : match map VDec ds with [] => true | _ :: _ => false end = match ds with [] => true | _ :: _ => false end)
    by (destruct ds; reflexivity).
  rewrite Hfg.
  cbn [path_ops pathop_qmark pathop_is_func negb]. rewrite andb_false_r.
  set (sl := VSlice EAny (match ds with [] => true | _ :: _ => false end) (map VDec ds)).
  change (eval uni eng (S (S (S (S (S fuel))))) (NOp (PFunc (Func finv (bs name) [] fu))) sl doc)
    with (eval uni eng (S (S (S (S fuel)))) (NFunc (Func finv (bs name) [] fu)) sl doc).
  rewrite (eval_func_node uni eng (S (S (S fuel))) finv name [] fu _ doc Hp).
  cbn [eval_params bind].
  rewrite (convert_number_elems sl (map VDec ds) eq_refl).
  destruct (run_func eng name [] sl) as [v'|[|tg]|m| |w]; reflexivity.
Qed.

(** `$.a.F(ps)` with arguments that may spread: F runs on the value under the
    key with the concatenated contributions *)
Lemma call_eval fuel inv me a q u1 u2 u3 finv name ps rss cur doc g :
  obj_row a doc g -> Forall2 (arg_spreads doc) ps rss -> plain_function name = true ->
  eval uni eng (S (S (S (S (S fuel))))) (NPath (call_path inv me a q u1 finv name ps u2 u3)) cur doc
  = run_func eng name (concat rss) (convert_number (convert_unless_string g)).
Proof.
  intros Hrow Hps Hp. unfold call_path.
  rewrite (eval_key_then_func uni eng (S (S (S fuel))) inv me a q u1 u3 _ cur doc _ (do_ident_row a doc g Hrow)).
  rewrite (eval_func_node uni eng (S (S fuel)) finv name ps u2 _ doc Hp).
  rewrite (E2E3_eval_params uni eng fuel _ doc ps rss Hps). reflexivity.
Qed.

End Shapes.

(* ------------------------------------------------------------------ *)
(** * 5. The setting                                                   *)
(* ------------------------------------------------------------------ *)

(** the rows: [rows_doc a k doc arr rows gs ds qs] of Proofs/E2E2.v — key [a]
    of the document (any object carrier) holds an array carrier (slice or Go
    array, any element tag, possibly behind one pointer) of objects in which
    key [k] holds the numeric carriers gs, of decimals ds and source values qs.

    the numbers held directly: key [a] holds a slice or Go array — NOT behind a
    pointer — of numeric carriers *)
Record nums_doc (a : str) (doc arr : gv) (gs : list gv) (ds : list dec) (qs : list Q) : Prop := {
  nd_key : obj_row a doc arr;
  nd_arr : direct_elems arr = Some gs;
  nd_tag : well_tagged arr = true;
  nd_num : Forall2 num_carrier gs ds;
  nd_src : Forall2 has_source gs qs
}.

Lemma sumQ_swap a b : (sumQ (a ++ b) == sumQ (b ++ a))%Q.
Proof. rewrite !sumQ_app. ring. Qed.

Lemma meanQ_swap a b : (meanQ (a ++ b) == meanQ (b ++ a))%Q.
Proof.
  unfold meanQ. rewrite (sumQ_swap a b), !app_length, (Nat.add_comm (length a)). reflexivity.
Qed.

Lemma in_swap {A} (a b : list A) x : In x (a ++ b) -> In x (b ++ a).
Proof. intros H. apply in_or_app. apply in_app_or in H. tauto. Qed.

Lemma least_swap x a b : least_of x (a ++ b) -> least_of x (b ++ a).
Proof.
  intros [[q [Hin Hq]] Hle]. split.
  - exists q. split; [apply in_swap; exact Hin|exact Hq].
  - intros q' Hin'. apply Hle. apply in_swap. exact Hin'.
Qed.

Lemma greatest_swap x a b : greatest_of x (a ++ b) -> greatest_of x (b ++ a).
Proof.
  intros [[q [Hin Hq]] Hle]. split.
  - exists q. split; [apply in_swap; exact Hin|exact Hq].
  - intros q' Hin'. apply Hle. apply in_swap. exact Hin'.
Qed.

(* ------------------------------------------------------------------ *)
(** * 6. The theorems                                                  *)
(* ------------------------------------------------------------------ *)

Section Queries.
Variable uni : uclass.
Variable eng : engines.

(** the decoration of the queries — fuel offset, invalid / must-end flags,
    `?` marks, userStrings, the current element (the paths are rooted) — of
    `$.a.k.F()` (x…), of `$.a.Select("…").F()` (s…) with the re-parsed `$.k`
    (p…), and of `$.b.F(args)` (c…) *)
Variables (fuel : nat) (cur : gv).
Variables (xinv xme xq1 : bool) (xu1 : str) (xq2 : bool) (xu2 : str) (xfinv : bool) (xfu xus : str).
Variables (sinv sme sq1 : bool) (su1 : str) (ssinv : bool) (qstr ssu : str) (sfinv : bool) (sfu sus : str).
Variables (pinv pme pq : bool) (pu pus : str).
Variables (cinv cme cq : bool) (cu1 cu2 cu3 : str) (cfinv : bool).

(** `$.a.k.F()`, `$.a.Select(qstr).F()`, `$.b.F(ps)` evaluated on doc *)
Local Notation stepped a k F doc :=
  (eval uni eng (S (S (S (S (S (S (S fuel)))))))
        (NPath (stepped_path xinv xme a xq1 xu1 k xq2 xu2 xfinv F xfu xus)) cur doc).
Local Notation selected a F doc :=
  (eval uni eng (S (S (S (S (S (S (S fuel)))))))
        (NPath (select_path sinv sme a sq1 su1 ssinv qstr ssu sfinv F sfu sus)) cur doc).
Local Notation called b F ps doc :=
  (eval uni eng (S (S (S (S (S (S (S fuel)))))))
        (NPath (call_path cinv cme b cq cu1 cfinv F ps cu2 cu3)) cur doc).
(** the side condition on a nil array carrier (see [stepped_eval]) *)
Local Notation nil_ok arr := (is_nil arr = true -> xq1 = true).

(** ** 6.1 `$.xs.k.F()` *)

Lemma stepped_agg a k ag doc arr rows gs ds qs :
  rows_doc a k doc arr rows gs ds qs -> rows <> [] -> nil_ok arr ->
  stepped a k (C17.agg_name ag) doc = Ok (VDec (agg_value ag ds)).
Proof.
  intros [Hk Ha Hr Hc Hs] Hne Hn.
  rewrite (stepped_eval uni eng (S (S (S (S fuel)))) xinv xme a xq1 xu1 k xq2 xu2 xfinv _ xfu xus cur doc arr rows gs ds
             Hk Ha Hne Hn Hr Hc (agg_plain ag)).
  rewrite run_agg_by_name. apply aggregate_direct.
Qed.

(** non-empty rows: Sum is the exact sum of the source values; Minimum /
    Maximum return a decimal whose value is the least / greatest of them;
    Average is within half a unit of the 16th decimal place of the exact mean
    (for one row it is that row's number itself) *)
Theorem E2E3_sum_stepped : forall a k doc arr rows gs ds qs,
  rows_doc a k doc arr rows gs ds qs -> rows <> [] -> nil_ok arr ->
  (exists r, stepped a k "Sum" doc = Ok (VDec r) /\ (dval r == sumQ qs)%Q) /\
  (exists r, stepped a k "Minimum" doc = Ok (VDec r) /\ least_of (dval r) qs) /\
  (exists r, stepped a k "Maximum" doc = Ok (VDec r) /\ greatest_of (dval r) qs) /\
  (exists r, stepped a k "Average" doc = Ok (VDec r) /\ (Qabs (dval r - meanQ qs) <= half_unit)%Q).
Proof.
  intros a k doc arr rows gs ds qs Hd Hne Hn.
  pose proof (carriers_vals gs ds qs (rd_num _ _ _ _ _ _ _ _ Hd) (rd_src _ _ _ _ _ _ _ _ Hd)) as Hv.
  assert (Hdne : ds <> []).
  { destruct (rows_doc_length _ _ _ _ _ _ _ _ Hd) as [H1 H2]. intros ->. cbn [length] in H2.
    rewrite <- H2 in H1. apply Hne. apply length_zero_nil. exact H1. }
  split; [|split; [|split]].
  - exists (agg_value AggSum ds). split; [apply (stepped_agg a k AggSum doc arr rows gs ds qs Hd Hne Hn)|].
    apply agg_sum. exact Hv.
  - exists (agg_value AggMin ds). split; [apply (stepped_agg a k AggMin doc arr rows gs ds qs Hd Hne Hn)|].
    apply agg_min; assumption.
  - exists (agg_value AggMax ds). split; [apply (stepped_agg a k AggMax doc arr rows gs ds qs Hd Hne Hn)|].
    apply agg_max; assumption.
  - exists (agg_value AggAvg ds). split; [apply (stepped_agg a k AggAvg doc arr rows gs ds qs Hd Hne Hn)|].
    apply agg_avg; assumption.
Qed.

(** an array with no rows: the stepped key is not found — unless it carries
    `?`, in which case the aggregate runs on nil and answers 0; a nil array
    under a key without `?` is refused before that *)
Theorem E2E3_sum_stepped_empty : forall a k F doc arr,
  In F agg_names -> obj_row a doc arr -> elems arr = Some [] ->
  stepped a k F doc
  = if is_nil arr && negb xq1 then Err (EOther "cannot access property of nil value")
    else if xq2 then Ok (VDec dzero) else Err EKeyNotFound.
Proof.
  intros a k F doc arr HF Hk Ha. destruct (agg_names_cases F HF) as [ag ->].
  rewrite (stepped_eval_empty uni eng (S (S (S (S fuel)))) xinv xme a xq1 xu1 k xq2 xu2 xfinv _ xfu xus cur doc arr
             Hk Ha (agg_plain ag)).
  rewrite run_agg_by_name. reflexivity.
Qed.

(** ** 6.2 `$.nums.F(args)` *)

Lemma called_agg b ag ps doc arr gs ds qs dsp qsp :
  nums_doc b doc arr gs ds qs -> args_values doc ps dsp qsp ->
  exists ops qops, called b (C17.agg_name ag) ps doc = Ok (VDec (agg_value ag ops)) /\ vals ops qops /\
                   (qops = qsp ++ qs \/ qops = qs ++ qsp).
Proof.
  intros [Hk Ha Ht Hc Hs] Hps.
  destruct (args_values_spread doc ps dsp qsp Hps) as [Hvp [rss [H1 H2]]].
  pose proof (carriers_vals gs ds qs Hc Hs) as Hv.
  rewrite (call_eval uni eng (S (S fuel)) cinv cme b cq cu1 cu2 cu3 cfinv _ ps rss cur doc arr Hk H1 (agg_plain ag)).
  rewrite H2, (direct_unconverted arr gs Ha), (convert_number_elems arr gs (direct_is_elems arr gs Ha)).
  rewrite run_agg_by_name.
  destruct (agg_on_array ag dsp arr gs ds Ha Ht Hc) as [ops [Hr [-> | ->]]].
  - exists (dsp ++ ds), (qsp ++ qs). split; [exact Hr|]. split; [apply vals_app; assumption|left; reflexivity].
  - exists (ds ++ dsp), (qs ++ qsp). split; [exact Hr|]. split; [apply vals_app; assumption|right; reflexivity].
Qed.

(** the receiver's numbers and all the arguments' numbers — literals, `$.b` to
    a numeric carrier, `$.b` to an array of numeric carriers (spread):
    Sum is exact; Minimum / Maximum are the least / greatest of all of them;
    Average is within half a unit of the mean of all of them *)
Theorem E2E3_sum_direct_with_arguments : forall b ps doc arr gs ds qs dsp qsp,
  nums_doc b doc arr gs ds qs -> args_values doc ps dsp qsp ->
  (exists r, called b "Sum" ps doc = Ok (VDec r) /\ (dval r == sumQ qs + sumQ qsp)%Q) /\
  (qs ++ qsp <> [] ->
   (exists r, called b "Minimum" ps doc = Ok (VDec r) /\ least_of (dval r) (qs ++ qsp)) /\
   (exists r, called b "Maximum" ps doc = Ok (VDec r) /\ greatest_of (dval r) (qs ++ qsp)) /\
   (exists r, called b "Average" ps doc = Ok (VDec r) /\ (Qabs (dval r - meanQ (qs ++ qsp)) <= half_unit)%Q)).
Proof.
  intros b ps doc arr gs ds qs dsp qsp Hd Hps.
  assert (Hne : forall ops qops, vals ops qops -> qops = qsp ++ qs \/ qops = qs ++ qsp -> qs ++ qsp <> [] -> ops <> []).
  { intros ops qops Hv Hq Hn ->. inversion Hv; subst. destruct Hq as [Hq|Hq]; [|apply Hn; symmetry; exact Hq].
    symmetry in Hq. apply app_eq_nil in Hq. destruct Hq as [-> ->]. apply Hn. reflexivity. }
  split; [|intros Hn; split; [|split]].
  - destruct (called_agg b AggSum ps doc arr gs ds qs dsp qsp Hd Hps) as [ops [qops [Hr [Hv Hq]]]].
    exists (agg_value AggSum ops). split; [exact Hr|]. rewrite (agg_sum ops qops Hv).
    destruct Hq as [-> | ->]; rewrite sumQ_app; ring.
  - destruct (called_agg b AggMin ps doc arr gs ds qs dsp qsp Hd Hps) as [ops [qops [Hr [Hv Hq]]]].
    exists (agg_value AggMin ops). split; [exact Hr|].
    pose proof (agg_min ops qops Hv (Hne ops qops Hv Hq Hn)) as Hl.
    destruct Hq as [-> | ->]; [apply least_swap|]; exact Hl.
  - destruct (called_agg b AggMax ps doc arr gs ds qs dsp qsp Hd Hps) as [ops [qops [Hr [Hv Hq]]]].
    exists (agg_value AggMax ops). split; [exact Hr|].
    pose proof (agg_max ops qops Hv (Hne ops qops Hv Hq Hn)) as Hl.
    destruct Hq as [-> | ->]; [apply greatest_swap|]; exact Hl.
  - destruct (called_agg b AggAvg ps doc arr gs ds qs dsp qsp Hd Hps) as [ops [qops [Hr [Hv Hq]]]].
    exists (agg_value AggAvg ops). split; [exact Hr|].
    pose proof (agg_avg ops qops Hv (Hne ops qops Hv Hq Hn)) as Hl.
    destruct Hq as [-> | ->]; [rewrite <- (meanQ_swap qsp qs)|]; exact Hl.
Qed.

(** ** 6.3 The three ways of aggregating the same numbers *)

Lemma selected_agg a k ag doc arr rows gs ds qs :
  parse_string uni qstr = Ok (TopP (key_path pinv pme k pq pu pus)) ->
  rows_doc a k doc arr rows gs ds qs ->
  selected a (C17.agg_name ag) doc = Ok (VDec (agg_value ag ds)).
Proof.
  intros Hq [Hk Ha Hr Hc Hs].
  rewrite (select_eval uni eng (S fuel) sinv sme a sq1 su1 ssinv qstr ssu sfinv _ sfu sus pinv pme k pq pu pus
             cur doc arr rows gs ds Hq Hk Ha Hr Hc (agg_plain ag)).
  rewrite run_agg_by_name. apply aggregate_direct.
Qed.

(** `$.xs.k.F()`, `$.xs.Select("$.k").F()` and `$.nums.F()`, where nums holds
    numbers of the same values as the rows (in whatever carriers and
    representations): the first two give the SAME decimal, the third a decimal
    of the same value — for Average too ([ddiv_compat_l]: the rounding depends
    on the exact mean only).  [qstr] is the text inside Select; the hypothesis
    says it parses to `$.k` (any decoration). *)
Theorem E2E3_aggregate_identity : forall a k b F doc arr rows gs ds qs arrn gsn dsn qsn,
  In F agg_names ->
  parse_string uni qstr = Ok (TopP (key_path pinv pme k pq pu pus)) ->
  rows_doc a k doc arr rows gs ds qs -> rows <> [] -> nil_ok arr ->
  nums_doc b doc arrn gsn dsn qsn -> Forall2 Qeq qs qsn ->
  exists r r',
    stepped a k F doc = Ok (VDec r) /\ selected a F doc = Ok (VDec r) /\
    called b F [] doc = Ok (VDec r') /\ (dval r == dval r')%Q.
Proof.
  intros a k b F doc arr rows gs ds qs arrn gsn dsn qsn HF Hq Hd Hne Hn Hdn Hqq.
  destruct (agg_names_cases F HF) as [ag ->].
  destruct (called_agg b ag [] doc arrn gsn dsn qsn [] [] Hdn (av_nil doc)) as [ops [qops [Hr [Hv Hqo]]]].
  exists (agg_value ag ds), (agg_value ag ops).
  split; [apply (stepped_agg a k ag doc arr rows gs ds qs Hd Hne Hn)|].
  split; [apply (selected_agg a k ag doc arr rows gs ds qs Hq Hd)|].
  split; [exact Hr|].
  apply (agg_value_compat ag ds ops qs qops
           (carriers_vals gs ds qs (rd_num _ _ _ _ _ _ _ _ Hd) (rd_src _ _ _ _ _ _ _ _ Hd)) Hv).
  destruct Hqo as [-> | ->]; [exact Hqq|rewrite app_nil_r; exact Hqq].
Qed.

(** over an array with no rows the three differ: the stepped key is not found
    ([E2E3_sum_stepped_empty]), Select and the direct form answer 0 *)
Theorem E2E3_aggregate_identity_empty : forall a k b F doc arr arrn,
  In F agg_names ->
  parse_string uni qstr = Ok (TopP (key_path pinv pme k pq pu pus)) ->
  rows_doc a k doc arr [] [] [] [] -> nums_doc b doc arrn [] [] [] ->
  selected a F doc = Ok (VDec dzero) /\ called b F [] doc = Ok (VDec dzero).
Proof.
  intros a k b F doc arr arrn HF Hq Hd Hdn. destruct (agg_names_cases F HF) as [ag ->]. split.
  - rewrite (selected_agg a k ag doc arr [] [] [] [] Hq Hd). reflexivity.
  - destruct (called_agg b ag [] doc arrn [] [] [] [] [] Hdn (av_nil doc)) as [ops [qops [Hr [Hv Hqo]]]].
    rewrite Hr. assert (ops = []) as ->; [|reflexivity].
    destruct Hqo as [-> | ->]; inversion Hv; reflexivity.
Qed.

(** ** 6.4 `$.n.AnyOf(args)` *)

(** the general form: arguments of any kind.  A number is compared with the
    numbers among the (spread) arguments only — strings and bools among them,
    wherever they stand, are passed over ([any_of_numbers] of Proofs/C05.v), so
    no restriction to numeric arrays is needed *)
Theorem E2E3_anyof_mixed : forall n ps rss doc gn dn,
  obj_row n doc gn -> num_carrier gn dn -> Forall2 (arg_spreads doc) ps rss ->
  called n "AnyOf" ps doc = Ok (vbool (existsb (deq dn) (numbers (concat rss)))).
Proof.
  intros n ps rss doc gn dn Hrow Hc Hps.
  rewrite (call_eval uni eng (S (S fuel)) cinv cme n cq cu1 cu2 cu3 cfinv "AnyOf" ps rss cur doc gn Hrow Hps eq_refl).
  rewrite (convert_unless_string_carrier gn dn Hc). change (convert_number (VDec dn)) with (VDec dn).
  apply any_of_numbers.
Qed.

(** a numeric receiver in any carrier, of source value qn; number literals,
    paths to numeric carriers and paths to arrays of numeric carriers: true
    exactly when one of the (spread) argument values equals qn *)
Theorem E2E3_anyof : forall n ps doc gn dn qn dsp qsp,
  obj_row n doc gn -> num_carrier gn dn -> has_source gn qn -> args_values doc ps dsp qsp ->
  decides (called n "AnyOf" ps doc) (exists q, In q qsp /\ (q == qn)%Q).
Proof.
  intros n ps doc gn dn qn dsp qsp Hrow Hc Hs Hps.
  destruct (args_values_spread doc ps dsp qsp Hps) as [Hv [rss [H1 H2]]].
  pose proof (carrier_source gn dn qn Hc Hs) as Hqn.
  exists (existsb (deq dn) dsp). split.
  - rewrite (E2E3_anyof_mixed n ps rss doc gn dn Hrow Hc H1), H2, numbers_rnum. reflexivity.
  - rewrite existsb_exists. split.
    + intros [d [Hin Hd]]. apply deq_iff in Hd. destruct (vals_In_l dsp qsp d Hv Hin) as [q [Hq Hdq]].
      exists q. split; [exact Hq|]. rewrite <- Hdq, <- Hd. exact Hqn.
    + intros [q [Hin Hq]]. destruct (vals_In_r dsp qsp q Hv Hin) as [d [Hd Hdq]].
      exists d. split; [exact Hd|]. apply deq_iff. rewrite Hqn, Hdq, Hq. reflexivity.
Qed.

(** ** 6.5 `$.s.Left(c)`, Right, TrimLeft, TrimRight *)

(** a decimal whose value is the natural number n denotes it (2, 2.0, 20e-1) *)
Lemma value_denotes_nat p n : (dval p == inject_Z (Z.of_nat n))%Q -> denotes_nat p n.
Proof.
  destruct p as [c e]. unfold dval, denotes_nat. cbn [coef dexp]. intros H.
  destruct (Z.leb_spec 0 e) as [He|He].
  - left. split; [exact He|]. apply inject_Z_injective.
    rewrite inject_Z_mult. rewrite <- (pow10Q_nonneg e He). exact H.
  - right. split; [exact He|]. apply inject_Z_injective.
    rewrite inject_Z_mult. assert (Hn : (0 <= - e)%Z) by lia. rewrite <- (pow10Q_nonneg (- e) Hn).
    rewrite <- H. rewrite <- Qmult_assoc, <- pow10Q_plus. replace (e + - e) with 0 by lia.
    rewrite pow10Q_0. ring.
Qed.

(** the receiver a Go string that is not a numeral (a numeral string is turned
    into a decimal before the function sees it) and shorter than 2^63 bytes
    (the count goes through int64, as in C18); the count anything that denotes
    a number whose value is the natural number n.  The result is the part
    taken at min(n, length): Left(n) of a shorter string is the whole string. *)
Theorem E2E3_string_slicers : forall a p doc s pd n,
  obj_row a doc (VStr false s) -> dec_of_string s = None -> Z.of_nat (length s) < 2 ^ 63 ->
  param_denotes doc p (RNum pd) -> (dval pd == inject_Z (Z.of_nat n))%Q ->
  called a "Left" [p] doc = Ok (VStr false (part SLeft (Nat.min n (length s)) s)) /\
  called a "Right" [p] doc = Ok (VStr false (part SRight (Nat.min n (length s)) s)) /\
  called a "TrimLeft" [p] doc = Ok (VStr false (part STrimLeft (Nat.min n (length s)) s)) /\
  called a "TrimRight" [p] doc = Ok (VStr false (part STrimRight (Nat.min n (length s)) s)).
Proof.
  intros a p doc s pd n Hrow Hs Hlen Hp Hv.
  pose proof (value_denotes_nat pd n Hv) as Hd.
  assert (Hps : Forall2 (param_denotes doc) [p] [RNum pd]) by (constructor; [exact Hp|constructor]).
  assert (H : forall w, called a (part_name w) [p] doc = Ok (VStr false (part w (Nat.min n (length s)) s))).
  { intros w.
    rewrite (E2E_call_on_string uni eng (S (S fuel)) cinv cme a cq cu1 cu2 cu3 cfinv (part_name w) [p] [RNum pd] cur doc s
               Hrow Hs Hps); [|destruct w; reflexivity].
    apply part_by_name; assumption. }
  split; [exact (H SLeft)|]. split; [exact (H SRight)|]. split; [exact (H STrimLeft)|exact (H STrimRight)].
Qed.

(** `$.s.Left(2)`: the count as a literal — any spelling of n (2, 2.0, 20e-1) *)
Corollary E2E3_string_slicers_literal : forall a doc s pd n,
  obj_row a doc (VStr false s) -> dec_of_string s = None -> Z.of_nat (length s) < 2 ^ 63 ->
  (dval pd == inject_Z (Z.of_nat n))%Q ->
  called a "Left" [FPNum pd] doc = Ok (VStr false (part SLeft (Nat.min n (length s)) s)) /\
  called a "Right" [FPNum pd] doc = Ok (VStr false (part SRight (Nat.min n (length s)) s)) /\
  called a "TrimLeft" [FPNum pd] doc = Ok (VStr false (part STrimLeft (Nat.min n (length s)) s)) /\
  called a "TrimRight" [FPNum pd] doc = Ok (VStr false (part STrimRight (Nat.min n (length s)) s)).
Proof.
  intros a doc s pd n Hrow Hs Hlen Hv.
  apply (E2E3_string_slicers a (FPNum pd) doc s pd n Hrow Hs Hlen (pd_num doc pd) Hv).
Qed.

(** `$.s.Left($.c)`: the count read from the document, in ANY numeric carrier
    whose source value is the natural number n *)
Corollary E2E3_string_slicers_path : forall a c doc s gc dc n,
  obj_row a doc (VStr false s) -> dec_of_string s = None -> Z.of_nat (length s) < 2 ^ 63 ->
  obj_row c doc gc -> num_carrier gc dc -> has_source gc (inject_Z (Z.of_nat n)) ->
  let arg := FPPath (key_path pinv pme c pq pu pus) in
  called a "Left" [arg] doc = Ok (VStr false (part SLeft (Nat.min n (length s)) s)) /\
  called a "Right" [arg] doc = Ok (VStr false (part SRight (Nat.min n (length s)) s)) /\
  called a "TrimLeft" [arg] doc = Ok (VStr false (part STrimLeft (Nat.min n (length s)) s)) /\
  called a "TrimRight" [arg] doc = Ok (VStr false (part STrimRight (Nat.min n (length s)) s)).
Proof.
  intros a c doc s gc dc n Hrow Hs Hlen Hc Hcc Hsrc arg.
  apply (E2E3_string_slicers a arg doc s dc n Hrow Hs Hlen (pd_path_num doc pinv pme c pq pu pus gc dc Hc Hcc)
           (carrier_source gc dc _ Hcc Hsrc)).
Qed.

(** ** 6.6 Storage invariance of the stepped aggregate *)

(** two documents whose rows carry the same values position by position — in
    other numeric carriers and representations, other object carriers, another
    array carrier: the four aggregates give decimals of equal value *)
Theorem E2E3_stepped_storage_invariant : forall a k F doc doc' arr arr' rows rows' gs gs' ds ds' qs qs',
  In F agg_names ->
  rows_doc a k doc arr rows gs ds qs -> rows_doc a k doc' arr' rows' gs' ds' qs' ->
  rows <> [] -> nil_ok arr -> nil_ok arr' -> Forall2 Qeq qs qs' ->
  exists r r', stepped a k F doc = Ok (VDec r) /\ stepped a k F doc' = Ok (VDec r') /\ (dval r == dval r')%Q.
Proof.
  intros a k F doc doc' arr arr' rows rows' gs gs' ds ds' qs qs' HF Hd Hd' Hne Hn Hn' Hq.
  destruct (agg_names_cases F HF) as [ag ->].
  assert (Hne' : rows' <> []).
  { destruct (rows_doc_length _ _ _ _ _ _ _ _ Hd) as [H1 _]. destruct (rows_doc_length _ _ _ _ _ _ _ _ Hd') as [H1' _].
    intros ->. cbn [length] in H1'. rewrite <- (Forall2_length' _ _ _ Hq), <- H1 in H1'.
    apply Hne. apply length_zero_nil. symmetry. exact H1'. }
  exists (agg_value ag ds), (agg_value ag ds').
  split; [apply (stepped_agg a k ag doc arr rows gs ds qs Hd Hne Hn)|].
  split; [apply (stepped_agg a k ag doc' arr' rows' gs' ds' qs' Hd' Hne' Hn')|].
  apply (agg_value_compat ag ds ds' qs qs'); [| |exact Hq].
  - apply (carriers_vals gs ds qs (rd_num _ _ _ _ _ _ _ _ Hd) (rd_src _ _ _ _ _ _ _ _ Hd)).
  - apply (carriers_vals gs' ds' qs' (rd_num _ _ _ _ _ _ _ _ Hd') (rd_src _ _ _ _ _ _ _ _ Hd')).
Qed.

End Queries.

(** at the library's entry point: [do_top] = Do on the parsed query *)
Lemma do_top_path3 uni eng p doc :
  do_top uni eng (TopP p) doc
  = eval uni eng (S (S (S (S (S (S (S 4088%nat))))))) (NPath p) doc doc.
Proof.
  unfold do_top.
  change default_fuel with (S (S (S (S (S (S (S (S 4088%nat)))))))). generalize 4088%nat. intros n.
  apply eval_top.
Qed.

Print Assumptions ddiv_compat_l.
Print Assumptions agg_value_compat.
Print Assumptions E2E3_eval_params.
Print Assumptions E2E3_sum_stepped.
Print Assumptions E2E3_sum_stepped_empty.
Print Assumptions E2E3_sum_direct_with_arguments.
Print Assumptions E2E3_aggregate_identity.
Print Assumptions E2E3_aggregate_identity_empty.
Print Assumptions E2E3_anyof_mixed.
Print Assumptions E2E3_anyof.
Print Assumptions E2E3_string_slicers.
Print Assumptions E2E3_string_slicers_literal.
Print Assumptions E2E3_string_slicers_path.
Print Assumptions E2E3_stepped_storage_invariant.

(* ------------------------------------------------------------------ *)
(** * 7. Through the real parser                                       *)
(* ------------------------------------------------------------------ *)

(** the parser produces exactly the shapes the theorems are stated for *)
Example E2E3_parser_shapes :
  parse_string uni_ascii (bs "$.xs.k.Sum()") =
    Ok (TopP (stepped_path false false (bs "xs") false (bs "xs") (bs "k") false (bs "k")
                false "Sum" (bs "Sum()") (bs "$.xs.k.Sum()"))) /\
  parse_string uni_ascii (bs "$.nums.Sum(1,$.b)") =
    Ok (TopP (call_path false false (bs "nums") false (bs "nums") false "Sum"
                [FPNum (mkDec 1 0); FPPath (key_path false false (bs "b") false (bs "b") (bs "$.b"))]
                (bs "Sum(1,$.b)") (bs "$.nums.Sum(1,$.b)"))) /\
  parse_string uni_ascii (bs "$.nums.Sum()") =
    Ok (TopP (call_path false false (bs "nums") false (bs "nums") false "Sum" [] (bs "Sum()") (bs "$.nums.Sum()"))) /\
  parse_string uni_ascii (bs "$.xs.Select(""$.k"").Sum()") =
    Ok (TopP (select_path false false (bs "xs") false (bs "xs") false (bs "$.k") (bs "Select(""$.k"")")
                false "Sum" (bs "Sum()") (bs "$.xs.Select(""$.k"").Sum()"))) /\
  parse_string uni_ascii (bs "$.k") = Ok (TopP (key_path false false (bs "k") false (bs "k") (bs "$.k"))) /\
  parse_string uni_ascii (bs "$.n.AnyOf($.nums)") =
    Ok (TopP (call_path false false (bs "n") false (bs "n") false "AnyOf"
                [FPPath (key_path false false (bs "nums") false (bs "nums") (bs "$.nums"))]
                (bs "AnyOf($.nums)") (bs "$.n.AnyOf($.nums)"))) /\
  parse_string uni_ascii (bs "$.n.AnyOf(1,$.nums,3)") =
    Ok (TopP (call_path false false (bs "n") false (bs "n") false "AnyOf"
                [FPNum (mkDec 1 0); FPPath (key_path false false (bs "nums") false (bs "nums") (bs "$.nums"));
                 FPNum (mkDec 3 0)]
                (bs "AnyOf(1,$.nums,3)") (bs "$.n.AnyOf(1,$.nums,3)"))) /\
  parse_string uni_ascii (bs "$.s.Left($.c)") =
    Ok (TopP (call_path false false (bs "s") false (bs "s") false "Left"
                [FPPath (key_path false false (bs "c") false (bs "c") (bs "$.c"))]
                (bs "Left($.c)") (bs "$.s.Left($.c)"))).
Proof. repeat split; vm_compute; reflexivity. Qed.

(** {"xs": [{"k": int8(-1)}, {"K": uint64(1<<63)}, {"k": 2.5}], "nums": [decimal 1.5, int 2],
     "n": 2.5, "b": uint8(4), "s": "hello", "c": int(2)} — maps and slices … *)
Definition ex3_doc : gv :=
  jmap [("xs", VSlice ETOther false [jmap [("k", VInt KInt8 false (-1))]; jmap [("K", VInt KUint64 false two63)];
                                     jmap [("k", f25)]]);
        ("nums", VSlice EAny false [VDec (mkDec 15 (-1)); VInt KInt false 2]);
        ("n", f25); ("b", VInt KUint8 false 4); ("s", VStr false (bs "hello")); ("c", VInt KInt false 2)].

(** … and the same numbers stored differently: a struct; xs a pointer to a
    [3]struct whose fields are statically typed, interface-typed, a pointer to
    the float; nums a []decimal.Decimal{1.50, 2}; n a pointer to a named
    float32 written 2.50; b the decimal 4.0; c a named uint16 *)
Definition ex3_rows' : list gv :=
  [VStruct [(bs "K", true, false, VInt KInt8 false (-1))];
   VStruct [(bs "K", true, true, VInt KUint64 false two63)];
   VStruct [(bs "K", true, true, VPtr (Some f25))]].
Definition ex3_xs' : gv := VPtr (Some (VArray ETOther ex3_rows')).
Definition ex3_nums' : gv := VSlice EDec false [VDec (mkDec 150 (-2)); VDec (mkDec 2 0)].
Definition ex3_n' : gv := VPtr (Some (VFloat true true (FFin (mkDec 250 (-2))))).
Definition ex3_doc' : gv :=
  VStruct [(bs "Xs", true, false, ex3_xs'); (bs "Nums", true, false, ex3_nums'); (bs "N", true, true, ex3_n');
           (bs "B", true, false, VDec (mkDec 40 (-1)));
           (bs "S", true, false, VStr false (bs "hello"));
           (bs "C", true, true, VInt KUint16 true 2)].

(** 2^63 + 1.5 *)
Definition big_sum : dec := mkDec 92233720368547758095 (-1).

Example E2E3_example :
  C17.run "$.xs.k.Sum()" ex3_doc = Some (Ok (VDec big_sum)) /\
  C17.run "$.nums.Sum(1,$.b)" ex3_doc = Some (Ok (VDec (mkDec 85 (-1)))) /\
  C17.run "$.xs.k.Maximum()" ex3_doc = Some (Ok (VDec (mkDec two63 0))) /\
  C17.run "$.xs.k.Minimum()" ex3_doc = Some (Ok (VDec (mkDec (-1) 0))) /\
  C17.run "$.xs.Select(""$.k"").Sum()" ex3_doc = Some (Ok (VDec big_sum)) /\
  C17.run "$.n.AnyOf(1,$.nums,2.50)" ex3_doc = Some (Ok (vbool true)) /\
  C17.run "$.n.AnyOf($.nums)" ex3_doc = Some (Ok (vbool false)) /\
  C17.run "$.s.Left($.c)" ex3_doc = Some (Ok (VStr false (bs "he"))) /\
  (* the other storage: the same values (8.50 for 8.5) *)
  C17.run "$.xs.k.Sum()" ex3_doc' = Some (Ok (VDec big_sum)) /\
  C17.run "$.nums.Sum(1,$.b)" ex3_doc' = Some (Ok (VDec (mkDec 850 (-2)))) /\
  C17.run "$.xs.k.Maximum()" ex3_doc' = Some (Ok (VDec (mkDec two63 0))) /\
  C17.run "$.xs.k.Minimum()" ex3_doc' = Some (Ok (VDec (mkDec (-1) 0))) /\
  C17.run "$.xs.Select(""$.k"").Sum()" ex3_doc' = Some (Ok (VDec big_sum)) /\
  C17.run "$.xs.k.Average()" ex3_doc' = C17.run "$.xs.k.Average()" ex3_doc /\
  C17.run "$.n.AnyOf(1,$.nums,2.50)" ex3_doc' = Some (Ok (vbool true)) /\
  C17.run "$.n.AnyOf($.nums)" ex3_doc' = Some (Ok (vbool false)) /\
  C17.run "$.s.Left($.c)" ex3_doc' = Some (Ok (VStr false (bs "he"))) /\
  (* an array-valued argument of an aggregate; counts in other spellings and carriers; clamping *)
  C17.run "$.nums.Sum($.nums)" ex3_doc' = Some (Ok (VDec (mkDec 700 (-2)))) /\
  C17.run "$.s.Right(2.0)" ex3_doc' = Some (Ok (VStr false (bs "lo"))) /\
  C17.run "$.s.TrimRight($.b)" ex3_doc' = Some (Ok (VStr false (bs "h"))) /\
  C17.run "$.s.Left(99)" ex3_doc' = Some (Ok (VStr false (bs "hello"))) /\
  C17.run "$.s.TrimLeft(99)" ex3_doc' = Some (Ok (VStr false [])).
Proof. repeat split; vm_compute; reflexivity. Qed.

Lemma big_sum_value : (dval big_sum == inject_Z two63 + (3 # 2))%Q.
Proof. vm_compute. reflexivity. Qed.

(** the general theorems instantiated on the differently stored document: the
    hypotheses are discharged by computation, the conclusions speak about the
    parsed queries at the library's entry point *)
Example E2E3_example_by_theorem :
  (forall t, parse_string uni_ascii (bs "$.xs.k.Sum()") = Ok t ->
     exists r, do_top uni_ascii no_engines t ex3_doc' = Ok (VDec r) /\ (dval r == inject_Z two63 + (3 # 2))%Q) /\
  (forall t, parse_string uni_ascii (bs "$.nums.Sum(1,$.b)") = Ok t ->
     exists r, do_top uni_ascii no_engines t ex3_doc' = Ok (VDec r) /\ (dval r == 17 # 2)%Q) /\
  (forall t, parse_string uni_ascii (bs "$.n.AnyOf(1,$.nums,3)") = Ok t ->
     do_top uni_ascii no_engines t ex3_doc' = Ok (vbool false)) /\
  (forall t, parse_string uni_ascii (bs "$.s.Left($.c)") = Ok t ->
     do_top uni_ascii no_engines t ex3_doc' = Ok (VStr false (bs "he"))).
Proof.
  destruct E2E3_parser_shapes as [P1 [P2 [_ [_ [_ [_ [P6 P7]]]]]]].
  split; [|split; [|split]]; intros t Ht.
  - rewrite P1 in Ht. apply Ok_inj in Ht. subst t. rewrite do_top_path3.
    destruct (E2E3_sum_stepped uni_ascii no_engines 4088 ex3_doc' false false false (bs "xs") false (bs "k")
                false (bs "Sum()") (bs "$.xs.k.Sum()") (bs "xs") (bs "k") ex3_doc'
                ex3_xs'
                ex3_rows' [VInt KInt8 false (-1); VInt KUint64 false two63; VPtr (Some f25)]
                [mkDec (-1) 0; mkDec two63 0; mkDec 25 (-1)]
                [inject_Z (-1); inject_Z two63; dval (mkDec 25 (-1))]) as [[r [Hr Hv]] _].
    + constructor.
      * apply or_struct. vm_compute. reflexivity.
      * reflexivity.
      * repeat (apply Forall2_cons; [apply or_struct; vm_compute; reflexivity|]). apply Forall2_nil.
      * repeat constructor.
      * repeat (apply Forall2_cons; [reflexivity|]). apply Forall2_nil.
    + discriminate.
    + discriminate.
    + exists r. split; [exact Hr|]. rewrite Hv. vm_compute. reflexivity.
  - rewrite P2 in Ht. apply Ok_inj in Ht. subst t. rewrite do_top_path3.
    destruct (E2E3_sum_direct_with_arguments uni_ascii no_engines 4088 ex3_doc' false false false (bs "nums")
                (bs "Sum(1,$.b)") (bs "$.nums.Sum(1,$.b)") false (bs "nums")
                [FPNum (mkDec 1 0); FPPath (key_path false false (bs "b") false (bs "b") (bs "$.b"))] ex3_doc'
                ex3_nums'
                [VDec (mkDec 150 (-2)); VDec (mkDec 2 0)] [mkDec 150 (-2); mkDec 2 0]
                [dval (mkDec 150 (-2)); dval (mkDec 2 0)]
                [mkDec 1 0; mkDec 40 (-1)] [dval (mkDec 1 0); dval (mkDec 40 (-1))]) as [[r [Hr Hv]] _].
    + constructor.
      * apply or_struct. vm_compute. reflexivity.
      * reflexivity.
      * reflexivity.
      * repeat constructor.
      * repeat (apply Forall2_cons; [reflexivity|]). apply Forall2_nil.
    + apply av_lit.
      apply (av_num ex3_doc' false false (bs "b") false (bs "b") (bs "$.b") (VDec (mkDec 40 (-1))) (mkDec 40 (-1))
               (dval (mkDec 40 (-1))) [] [] []).
      * apply or_struct. vm_compute. reflexivity.
      * constructor.
      * reflexivity.
      * apply av_nil.
    + exists r. split; [exact Hr|]. rewrite Hv. vm_compute. reflexivity.
  - rewrite P6 in Ht. apply Ok_inj in Ht. subst t. rewrite do_top_path3.
    destruct (E2E3_anyof uni_ascii no_engines 4088 ex3_doc' false false false (bs "n")
                (bs "AnyOf(1,$.nums,3)") (bs "$.n.AnyOf(1,$.nums,3)") false (bs "n")
                [FPNum (mkDec 1 0); FPPath (key_path false false (bs "nums") false (bs "nums") (bs "$.nums"));
                 FPNum (mkDec 3 0)] ex3_doc'
                ex3_n' (mkDec 250 (-2)) (dval (mkDec 250 (-2)))
                ([mkDec 1 0] ++ [mkDec 150 (-2); mkDec 2 0] ++ [mkDec 3 0])
                ([dval (mkDec 1 0)] ++ [dval (mkDec 150 (-2)); dval (mkDec 2 0)] ++ [dval (mkDec 3 0)]))
      as [b [Hb Hiff]].
    + apply or_struct. vm_compute. reflexivity.
    + constructor.
    + reflexivity.
    + apply av_lit.
      apply (av_arr ex3_doc' false false (bs "nums") false (bs "nums") (bs "$.nums")
               ex3_nums'
               [VDec (mkDec 150 (-2)); VDec (mkDec 2 0)] [mkDec 150 (-2); mkDec 2 0]
               [dval (mkDec 150 (-2)); dval (mkDec 2 0)] [FPNum (mkDec 3 0)] [mkDec 3 0] [dval (mkDec 3 0)]).
      * apply or_struct. vm_compute. reflexivity.
      * reflexivity.
      * repeat constructor.
      * repeat (apply Forall2_cons; [reflexivity|]). apply Forall2_nil.
      * apply av_lit. apply av_nil.
    + rewrite Hb. destruct b; [|reflexivity]. exfalso.
      destruct (proj1 Hiff eq_refl) as [q [Hin Hq]]. cbn [app In] in Hin.
      destruct Hin as [<-|[<-|[<-|[<-|[]]]]]; vm_compute in Hq; discriminate Hq.
  - rewrite P7 in Ht. apply Ok_inj in Ht. subst t. rewrite do_top_path3.
    refine (proj1 (E2E3_string_slicers_path uni_ascii no_engines 4088 ex3_doc' false false false (bs "c") (bs "$.c")
                     false false false (bs "s") (bs "Left($.c)") (bs "$.s.Left($.c)") false
                     (bs "s") (bs "c") ex3_doc' (bs "hello") (VInt KUint16 true 2) (mkDec 2 0) 2%nat _ _ _ _ _ _)).
    + apply or_struct. vm_compute. reflexivity.
    + vm_compute. reflexivity.
    + vm_compute. reflexivity.
    + apply or_struct. vm_compute. reflexivity.
    + constructor.
    + reflexivity.
Qed.

(* ------------------------------------------------------------------ *)
(** * 8. Where a side condition is needed                              *)
(* ------------------------------------------------------------------ *)

(** An array of numbers behind a pointer (Go: `Nums *[]any`).  Stepping a key
    across it, Count, First … dereference once, but an AGGREGATE does not: it
    sees neither a slice nor an array, collects no operand — dropping even its
    arguments — and answers 0; and as an ARGUMENT the pointer is not spread:
    "unhandled param path type".  Hence [direct_elems] (not [elems]) in
    [nums_doc] and [arg_spreads]. *)
Definition ptr_nums_doc : gv :=
  jmap [("nums", VPtr (Some (VSlice EAny false [VDec (mkDec 15 (-1)); VInt KInt false 2])));
        ("n", VInt KInt false 2)].

Example E2E3_pointer_to_array_refuted :
  C17.run "$.nums.Count()" ptr_nums_doc = Some (Ok (VDec (mkDec 2 0))) /\
  C17.run "$.nums.First()" ptr_nums_doc = Some (Ok (VDec (mkDec 15 (-1)))) /\
  C17.run "$.nums.Sum()" ptr_nums_doc = Some (Ok (VDec dzero)) /\
  C17.run "$.nums.Sum(1)" ptr_nums_doc = Some (Ok (VDec dzero)) /\
  C17.run "$.nums.Maximum()" ptr_nums_doc = Some (Ok (VDec dzero)) /\
  C17.run "$.n.AnyOf($.nums)" ptr_nums_doc = Some (Err (EOther "unhandled param path type")) /\
  C17.run "$.n.Sum($.nums)" ptr_nums_doc = Some (Err (EOther "unhandled param path type")).
Proof. repeat split; vm_compute; reflexivity. Qed.

(** An array with no rows: the three ways of aggregating differ — the stepped
    key is not found (0 with `?` on it), Select and the direct form answer 0.
    And the tag of a slice is trusted: a value tagged []decimal.Decimal whose
    element is not a decimal (no Go value is like that) is "not an array of
    numbers" for the aggregates, while spreading does not look at the tag —
    hence [well_tagged] in [nums_doc] only. *)
Definition empty3_doc : gv :=
  jmap [("xs", VSlice ETOther false []); ("nums", VSlice EAny false []); ("n", VInt KInt false 2);
        ("bad", VSlice EDec false [VInt KInt false 2])].

Example E2E3_empty_and_tag_refuted :
  C17.run "$.xs.k.Sum()" empty3_doc = Some (Err EKeyNotFound) /\
  C17.run "$.xs.k?.Sum()" empty3_doc = Some (Ok (VDec dzero)) /\
  C17.run "$.xs.Select(""$.k"").Sum()" empty3_doc = Some (Ok (VDec dzero)) /\
  C17.run "$.nums.Sum()" empty3_doc = Some (Ok (VDec dzero)) /\
  C17.run "$.nums.Average()" empty3_doc = Some (Ok (VDec dzero)) /\
  C17.run "$.n.AnyOf($.nums)" empty3_doc = Some (Ok (vbool false)) /\
  C17.run "$.bad.Sum()" empty3_doc = Some (Err (EOther "not an array of numbers")) /\
  C17.run "$.n.AnyOf($.bad)" empty3_doc = Some (Ok (vbool true)) /\
  (* a nil slice under the key ([nil_doc] of Proofs/E2E2.v) *)
  C17.run "$.xs.k.Sum()" nil_doc = Some (Err (EOther "cannot access property of nil value")) /\
  C17.run "$.xs?.k.Sum()" nil_doc = Some (Err EKeyNotFound) /\
  C17.run "$.xs?.k?.Sum()" nil_doc = Some (Ok (VDec dzero)) /\
  C17.run "$.xs.Select(""$.k"").Sum()" nil_doc = Some (Ok (VDec dzero)).
Proof. repeat split; vm_compute; reflexivity. Qed.

(** the slicers: a count that is not a natural number is an error, whatever
    way it is supplied *)
Example E2E3_slicer_count_refuted :
  C17.run "$.s.Left(1.5)" ex3_doc = Some (Err (EOther "parameter must be an integer")) /\
  C17.run "$.s.Left(-1)" ex3_doc = Some (Err (EOther "parameter must not be negative")) /\
  C17.run "$.s.Left($.n)" ex3_doc = Some (Err (EOther "parameter must be an integer")).
Proof. repeat split; vm_compute; reflexivity. Qed.

Print Assumptions E2E3_parser_shapes.
Print Assumptions E2E3_example.
Print Assumptions E2E3_example_by_theorem.
Print Assumptions E2E3_pointer_to_array_refuted.
Print Assumptions E2E3_empty_and_tag_refuted.
Print Assumptions E2E3_slicer_count_refuted.

Check nums_doc.
Check arg_spreads_ind.
Check args_values_ind.
Check ddiv_compat_l.
Check agg_value_compat.
Check E2E3_eval_params.
Check E2E3_sum_stepped.
Check E2E3_sum_stepped_empty.
Check E2E3_sum_direct_with_arguments.
Check E2E3_aggregate_identity.
Check E2E3_aggregate_identity_empty.
Check E2E3_anyof_mixed.
Check E2E3_anyof.
Check E2E3_string_slicers.
Check E2E3_string_slicers_literal.
Check E2E3_string_slicers_path.
Check E2E3_stepped_storage_invariant.
