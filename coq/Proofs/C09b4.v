(* Proofs/C09b4.v — C09b, part 4:
   (i)  [wcanon]: the class of operations on which Sprint -> parse is shown to
        work although the userStrings of the nodes that Sprint prints
        structurally (top-level path, its keys, calls, filters, groups, operand
        paths) are arbitrary — as they are when a query was written with
        optional white space, without the AND keyword, with other commas.
        Only what Sprint prints by userString (path and group ARGUMENTS of
        functions) must be canonical.  [fixup] recomputes those userStrings
        and flags; fixup t is canonical, structurally equal to t and prints
        like t.
   (ii) boolean deciders [canon_b], [wcanon_b] with soundness proofs, so that
        membership of a concrete operation is established by computation. *)
From Mpath.Model Require Import Base Dec Types GoVal Ast Lexer Parser Printer Funcs Eval.
From Mpath.Generated Require Import FuncTable Escapes Runes.
From Mpath.Proofs Require Import C09 C09b1 C09b2.

Local Open Scope Z_scope.

(* ================================================================== *)
(** * The weak class and the normaliser                                 *)
(* ================================================================== *)

Fixpoint wcanon_path (uni : uclass) (p : path) {struct p} : Prop :=
  match p with
  | Path _ root isf _ ops _ => root && isf = false /\ all_P (wcanon_pathop uni) ops
  end
with wcanon_pathop (uni : uclass) (o : pathop) {struct o} : Prop :=
  match o with
  | PIdent k q _ => good_key uni (k, q)
  | PFilter l _ => wcanon_logop uni l /\ logop_isf l = true
  | PFunc (Func _ ft ps _) => known_func ft /\ all_P (canon_param uni) ps
  end
with wcanon_logop (uni : uclass) (l : logop) {struct l} : Prop :=
  match l with
  | LogOp _ isf t xs _ => (t = LAnd \/ t = LOr) /\ all_P (wcanon_operand uni isf) xs
  end
with wcanon_operand (uni : uclass) (isf : bool) (x : operand) {struct x} : Prop :=
  match x with
  | OpP p => wcanon_path uni p /\ path_isf p = isf
  | OpL l => wcanon_logop uni l /\ logop_isf l = false
  end.

Definition wcanon (uni : uclass) (t : top) : Prop :=
  match t with
  | TopP p => wcanon_path uni p /\ path_isf p = false
  | TopL l => wcanon_logop uni l /\ logop_isf l = false
  end.

Fixpoint fix_path (me : bool) (p : path) {struct p} : path :=
  match p with
  | Path _ root isf _ ops _ =>
    Path (me && negb (last_ok_for_group (map fix_pathop ops))) root isf me (map fix_pathop ops)
         (rp_root_str root ++ concat (map render_pathop (map fix_pathop ops)))
  end
with fix_pathop (o : pathop) {struct o} : pathop :=
  match o with
  | PIdent k q _ => PIdent k q (key_piece (k, q))
  | PFilter l _ => PFilter (fix_logop l) (render_logop (fix_logop l))
  | PFunc (Func _ ft ps _) =>
    PFunc (Func false ft ps (ft ++ bs "(" ++ concat_str (bs ",") (map render_param ps) ++ bs ")"))
  end
with fix_logop (l : logop) {struct l} : logop :=
  match l with
  | LogOp _ isf t xs _ =>
    LogOp false isf t (map fix_operand xs)
          (open_s isf ++ kw_text t ++ bs "," ++
           concat_str (bs ",") (map render_operand (map fix_operand xs)) ++ close_s isf)
  end
with fix_operand (x : operand) {struct x} : operand :=
  match x with OpP p => OpP (fix_path true p) | OpL l => OpL (fix_logop l) end.

Definition fixup (t : top) : top :=
  match t with TopP p => TopP (fix_path false p) | TopL l => TopL (fix_logop l) end.

Definition dp_top (t : top) : nat := match t with TopP p => dp_path p | TopL l => dp_logop l end.

(* ------------------------------------------------------------------ *)
(** ** fixup t is canonical                                             *)
(* ------------------------------------------------------------------ *)

Lemma kw_form_not_omitted : forall isf t body, t = LAnd \/ t = LOr ->
  kw_omitted isf t body (open_s isf ++ kw_text t ++ bs "," ++ body ++ close_s isf) = false.
Proof.
  intros isf t body Ht. unfold kw_omitted.
  destruct (str_eqb (open_s isf ++ kw_text t ++ bs "," ++ body ++ close_s isf)
                    (open_s isf ++ body ++ close_s isf)) eqn:E; [|apply andb_false_r].
  exfalso. apply str_eqb_eq in E. apply (f_equal (@length ascii)) in E. rewrite !app_length in E.
  destruct Ht as [->| ->]; cbn [kw_text bs list_ascii_of_string length] in E; lia.
Qed.

Definition F1P (uni : uclass) (p : path) : Prop :=
  wcanon_path uni p -> forall me,
    canon_path uni (fix_path me p) /\ path_isf (fix_path me p) = path_isf p /\ path_me (fix_path me p) = me /\
    kws_path (fix_path me p).
Definition F1L (uni : uclass) (l : logop) : Prop :=
  wcanon_logop uni l ->
  canon_logop uni (fix_logop l) /\ logop_isf (fix_logop l) = logop_isf l /\ kws_logop (fix_logop l).

Lemma all_P_map : forall {A B} (P : B -> Prop) (f : A -> B) l, Forall (fun x => P (f x)) l -> all_P P (map f l).
Proof. intros A B P f l H. apply all_P_Forall, Forall_map. exact H. Qed.

Lemma fix_canon : forall uni, (forall p, F1P uni p) /\ (forall f : func, True) /\ (forall l, F1L uni l).
Proof.
  intros uni. apply ast_ind3.
  - intros inv root isf me0 ops us HF (Hri & Hops) me.
    apply all_P_Forall in Hops.
    cbn [fix_path path_isf path_me]. split; [|split; [reflexivity|split; [reflexivity|]]].
    + cbn [canon_path]. split; [reflexivity|]. split; [exact Hri|]. split; [reflexivity|].
      apply all_P_map.
      refine (Forall_and2 _ _ _ ops _ HF Hops).
      intros [k q us1|l us1|[inv1 ft ps us1]] Ho Hw; cbn [Po_of] in Ho; cbn [wcanon_pathop] in Hw;
        cbn [fix_pathop canon_pathop].
      * split; [exact Hw|reflexivity].
      * destruct (Ho (proj1 Hw)) as (H1 & H2 & _). split; [exact H1|]. split; [|reflexivity].
        rewrite H2. exact (proj2 Hw).
      * cbn [canon_func]. split; [reflexivity|]. split; [exact (proj1 Hw)|]. split; [reflexivity|exact (proj2 Hw)].
    + cbn [kws_path]. apply all_P_map.
      refine (Forall_and2 _ _ _ ops _ HF Hops).
      intros [k q us1|l us1|[inv1 ft ps us1]] Ho Hw; cbn [Po_of] in Ho; cbn [wcanon_pathop] in Hw;
        cbn [fix_pathop kws_pathop]; try exact I.
      exact (proj2 (proj2 (Ho (proj1 Hw)))).
  - intros; exact I.
  - intros inv isf t xs us HF (Ht & Hxs).
    apply all_P_Forall in Hxs.
    cbn [fix_logop logop_isf]. split; [|split; [reflexivity|]].
    + cbn [canon_logop]. split; [reflexivity|]. split; [exact Ht|]. split.
      { cbn [render_logop]. rewrite kw_form_not_omitted by exact Ht. reflexivity. }
      apply all_P_map.
      refine (Forall_and2 _ _ _ xs _ HF Hxs).
      intros [p|l] Hx Hw; cbn [Px_of] in Hx; cbn [wcanon_operand] in Hw; cbn [fix_operand canon_operand].
      * destruct (Hx (proj1 Hw) true) as (H1 & H2 & H3 & _). split; [exact H1|]. split; [|exact H3].
        rewrite H2. exact (proj2 Hw).
      * destruct (Hx (proj1 Hw)) as (H1 & H2 & _). split; [exact H1|]. rewrite H2. exact (proj2 Hw).
    + cbn [kws_logop]. split; [apply kw_form_not_omitted; exact Ht|].
      apply all_P_map.
      refine (Forall_and2 _ _ _ xs _ HF Hxs).
      intros [p|l] Hx Hw; cbn [Px_of] in Hx; cbn [wcanon_operand] in Hw; cbn [fix_operand kws_operand].
      * exact (proj2 (proj2 (proj2 (Hx (proj1 Hw) true)))).
      * exact (proj2 (proj2 (Hx (proj1 Hw)))).
Qed.

Theorem fixup_canon : forall uni t, wcanon uni t -> canon uni (fixup t) /\ kws (fixup t).
Proof.
  intros uni [p|l] H; cbn [wcanon] in H; cbn [fixup canon kws].
  - destruct (proj1 (fix_canon uni) p (proj1 H) false) as (H1 & H2 & H3 & H4).
    split; [|exact H4]. split; [exact H1|]. split; [|exact H3]. rewrite H2. exact (proj2 H).
  - destruct (proj2 (proj2 (fix_canon uni)) l (proj1 H)) as (H1 & H2 & H3).
    split; [|exact H3]. split; [exact H1|]. rewrite H2. exact (proj2 H).
Qed.

(* ------------------------------------------------------------------ *)
(** ** fixup t is structurally equal to t                               *)
(* ------------------------------------------------------------------ *)

Lemma struct_eq_param_refl : forall p, struct_eq_param p p.
Proof.
  intros p. apply (proj1 (proj2 (proj2 (proj2 (struct_eq_refl_bounded (S (size_param p))))))). lia.
Qed.

Lemma Forall2_map_r : forall {A B} (R : A -> B -> Prop) (f : A -> B) l,
  Forall (fun x => R x (f x)) l -> Forall2 R l (map f l).
Proof. intros A B R f l H. induction H; cbn [map]; constructor; assumption. Qed.

Lemma Forall2_refl_all : forall {A} (R : A -> A -> Prop) l, (forall x, R x x) -> Forall2 R l l.
Proof. intros A R l H. induction l; constructor; auto. Qed.

Lemma fix_struct_eq :
  (forall p, forall me, struct_eq_path p (fix_path me p)) /\ (forall f : func, True) /\
  (forall l, struct_eq_logop l (fix_logop l)).
Proof.
  apply ast_ind3.
  - intros inv root isf me0 ops us HF me. cbn [fix_path]. constructor.
    apply Forall2_map_r. eapply Forall_impl; [|exact HF].
    intros [k q us1|l us1|[inv1 ft ps us1]] Ho; cbn [Po_of] in Ho; cbn [fix_pathop].
    + constructor.
    + constructor. exact Ho.
    + constructor. constructor. apply Forall2_refl_all. exact struct_eq_param_refl.
  - intros; exact I.
  - intros inv isf t xs us HF. cbn [fix_logop]. constructor.
    apply Forall2_map_r. eapply Forall_impl; [|exact HF].
    intros [p|l] Hx; cbn [Px_of] in Hx; cbn [fix_operand]; constructor; [apply Hx|exact Hx].
Qed.

Theorem fixup_struct_eq : forall t, struct_eq t (fixup t).
Proof.
  intros [p|l]; cbn [fixup]; constructor.
  - apply (proj1 fix_struct_eq).
  - apply (proj2 (proj2 fix_struct_eq)).
Qed.

(* ------------------------------------------------------------------ *)
(** ** fixup t prints like t, and is as deep                            *)
(* ------------------------------------------------------------------ *)

Lemma sprint_path_0 : forall d p, sprint_path 0 d p = []. Proof. reflexivity. Qed.
Lemma sprint_log_0 : forall d l, sprint_log 0 d l = []. Proof. reflexivity. Qed.

Lemma fix_sprint :
  (forall p, forall me k d, sprint_path k d (fix_path me p) = sprint_path k d p) /\ (forall f : func, True) /\
  (forall l, forall k d, sprint_log k d (fix_logop l) = sprint_log k d l).
Proof.
  apply ast_ind3.
  - intros inv root isf me0 ops us HF me k d. destruct k as [|k]; [reflexivity|].
    cbn [fix_path]. rewrite !sprint_path_S. f_equal. f_equal. f_equal.
    rewrite map_map. apply map_ext_F. eapply Forall_impl; [|exact HF].
    intros [kk q us1|l us1|[inv1 ft ps us1]] Ho; cbn [Po_of] in Ho; cbn [fix_pathop sp_op]; try reflexivity.
    apply Ho.
  - intros; exact I.
  - intros inv isf t xs us HF k d. destruct k as [|k]; [reflexivity|].
    cbn [fix_logop]. rewrite !sprint_log_S. f_equal. f_equal. f_equal. f_equal. f_equal.
    f_equal. rewrite map_map. apply map_ext_F. eapply Forall_impl; [|exact HF].
    intros [p|l] Hx; cbn [Px_of] in Hx; cbn [fix_operand sp_operand]; f_equal; apply Hx.
Qed.

Lemma fold_max_map : forall {A} (g : A -> nat) (f : A -> A) l,
  Forall (fun x => g (f x) = g x) l ->
  fold_right (fun x n => Nat.max (g x) n) O (map f l) = fold_right (fun x n => Nat.max (g x) n) O l.
Proof. intros A g f l H. induction H as [|x l Hx _ IH]; [reflexivity|]. cbn [map fold_right]. rewrite Hx, IH. reflexivity. Qed.

Lemma fix_depth :
  (forall p, forall me, dp_path (fix_path me p) = dp_path p) /\ (forall f : func, True) /\
  (forall l, dp_logop (fix_logop l) = dp_logop l).
Proof.
  apply ast_ind3.
  - intros inv root isf me0 ops us HF me. cbn [fix_path dp_path]. f_equal.
    apply fold_max_map. eapply Forall_impl; [|exact HF].
    intros [kk q us1|l us1|[inv1 ft ps us1]] Ho; cbn [Po_of] in Ho; cbn [fix_pathop dp_pathop]; try reflexivity.
    exact Ho.
  - intros; exact I.
  - intros inv isf t xs us HF. cbn [fix_logop dp_logop]. f_equal.
    apply fold_max_map. eapply Forall_impl; [|exact HF].
    intros [p|l] Hx; cbn [Px_of] in Hx; cbn [fix_operand dp_operand]; [apply Hx|exact Hx].
Qed.

(** Sprint of t is the Sprint-layout text of fixup t, provided the fuel that
    [sprint_top] takes from the userString of t covers the depth of t (it does
    for every parsed operation; the condition is decidable) *)
Theorem sprint_top_fixup : forall uni t, wcanon uni t ->
  (dp_top t <= S (length (top_us t)))%nat ->
  sprint_top t = items_text (its_top true (fixup t)) /\ sprint_top (fixup t) = sprint_top t.
Proof.
  intros uni t Hw Hd.
  destruct (fixup_canon uni t Hw) as (Hc & Hk).
  assert (E : sprint_top t = items_text (its_top true (fixup t))).
  { destruct t as [p|l]; cbn [fixup canon kws sprint_top its_top dp_top top_us] in *.
    - rewrite <- (proj1 fix_sprint p false).
      apply (proj1 (text_B uni) _ (proj1 Hc) Hk). rewrite (proj1 fix_depth). exact Hd.
    - rewrite <- (proj2 (proj2 fix_sprint) l).
      apply (proj2 (proj2 (text_B uni)) _ (proj1 Hc) Hk). rewrite (proj2 (proj2 fix_depth)). exact Hd. }
  split; [exact E|]. rewrite E. apply (sprint_items uni); assumption.
Qed.

(** canonical operations are weakly canonical *)
Lemma canon_wcanon_all : forall uni,
  (forall p, canon_path uni p -> wcanon_path uni p) /\ (forall f : func, True) /\
  (forall l, canon_logop uni l -> wcanon_logop uni l).
Proof.
  intros uni. apply ast_ind3.
  - intros inv root isf me ops us HF (_ & Hri & _ & Hops). cbn [wcanon_path]. split; [exact Hri|].
    apply all_P_Forall. apply all_P_Forall in Hops.
    refine (Forall_and2 _ _ _ ops _ HF Hops).
    intros [k q us1|l us1|[inv1 ft ps us1]] Ho Hc; cbn [Po_of] in Ho; cbn [canon_pathop] in Hc; cbn [wcanon_pathop].
    + exact (proj1 Hc).
    + split; [apply Ho; exact (proj1 Hc)|exact (proj1 (proj2 Hc))].
    + destruct Hc as (_ & Hk & _ & Hps). split; assumption.
  - intros; exact I.
  - intros inv isf t xs us HF (_ & Ht & _ & Hxs). cbn [wcanon_logop]. split; [exact Ht|].
    apply all_P_Forall. apply all_P_Forall in Hxs.
    refine (Forall_and2 _ _ _ xs _ HF Hxs).
    intros [p|l] Hx Hc; cbn [Px_of] in Hx; cbn [canon_operand] in Hc; cbn [wcanon_operand].
    + split; [apply Hx; exact (proj1 Hc)|exact (proj1 (proj2 Hc))].
    + split; [apply Hx; exact (proj1 Hc)|exact (proj2 Hc)].
Qed.

Theorem canon_wcanon : forall uni t, canon uni t -> wcanon uni t.
Proof.
  intros uni [p|l] H; cbn [canon] in H; cbn [wcanon].
  - split; [apply (proj1 (canon_wcanon_all uni)); exact (proj1 H)|exact (proj1 (proj2 H))].
  - split; [apply (proj2 (proj2 (canon_wcanon_all uni))); exact (proj1 H)|exact (proj2 H)].
Qed.

(* ================================================================== *)
(** * Deciders                                                          *)
(* ================================================================== *)

Definition good_key_b (uni : uclass) (kq : str * bool) : bool :=
  match fst kq with [] => false | _ => true end &&
  match chars_fuel (S (length (fst kq))) (fst kq) with
  | Some cs => forallb (fun rb => is_ident_rune uni (fst rb)) cs
  | None => false
  end &&
  (snd kq || match rev (fst kq) with c :: _ => negb (Ascii.eqb c "?"%char) | [] => true end).

Lemma good_key_b_sound : forall uni kq, good_key_b uni kq = true -> good_key uni kq.
Proof.
  intros uni [k q] H. unfold good_key_b in H. cbn [fst snd] in H.
  apply andb_true_iff in H. destruct H as [H H3]. apply andb_true_iff in H. destruct H as [H1 H2].
  split; [|split]; cbn [fst snd].
  - intros E. rewrite E in H1. discriminate.
  - destruct (chars_fuel (S (length k)) k) as [cs|]; [|discriminate]. exists cs. split; [reflexivity|exact H2].
  - intros Hq k' E. subst q. cbn [orb] in H3. subst k.
    rewrite rev_app_distr in H3. cbn in H3. discriminate.
Qed.

Definition dec_eqb (a b : dec) : bool := (coef a =? coef b) && (dexp a =? dexp b).
Lemma dec_eqb_eq : forall a b, dec_eqb a b = true -> a = b.
Proof.
  intros [c1 e1] [c2 e2] H. unfold dec_eqb in H. cbn [coef dexp] in H.
  apply andb_true_iff in H. destruct H as [H1 H2]. apply Z.eqb_eq in H1. apply Z.eqb_eq in H2. subst. reflexivity.
Qed.

Definition num_ok_b (d : dec) : bool :=
  dec_eqb (dnorm d) d &&
  (Z.abs (coef d) * 10 ^ Z.max 0 (dexp d) <? 10 ^ 15) &&
  (-300 <=? dexp d + Z.of_nat (length (show_Z (Z.abs (coef d))))).

Lemma num_ok_b_sound : forall d, num_ok_b d = true -> num_ok d.
Proof.
  intros d H. unfold num_ok_b in H.
  apply andb_true_iff in H. destruct H as [H H3]. apply andb_true_iff in H. destruct H as [H1 H2].
  split; [apply dec_eqb_eq; exact H1|]. split; [apply Z.ltb_lt; exact H2|apply Z.leb_le; exact H3].
Qed.

Definition lit_ok_b (v : str) : bool :=
  match chars_fuel (S (length (escape v))) (escape v) with
  | Some cs => rsafe false cs
  | None => false
  end.

Lemma lit_ok_b_sound : forall v, lit_ok_b v = true -> lit_ok v.
Proof.
  intros v. unfold lit_ok_b, lit_ok.
  generalize (chars_fuel (S (length (escape v))) (escape v)).
  intros [cs|] H; [exists cs; split; [reflexivity|exact H]|discriminate].
Qed.

Definition lit_param_ok_b (p : param) : bool :=
  match p with
  | FPBool _ => true
  | FPStr v => clean_b v && lit_ok_b v
  | FPNum d => num_ok_b d
  | FPPath _ | FPLog _ => false
  end.

Lemma lit_param_ok_b_sound : forall p, lit_param_ok_b p = true -> lit_param_ok p.
Proof.
  intros [d|v|b|q|l] H; cbn [lit_param_ok_b] in H; cbn [lit_param_ok]; try discriminate.
  - apply num_ok_b_sound. exact H.
  - apply andb_true_iff in H. destruct H as [H1 H2]. split; [exact H1|apply lit_ok_b_sound; exact H2].
  - exact I.
Qed.

Definition known_func_b (ft : str) : bool := existsb (fun d => str_eqb (bs (fd_key d)) ft) func_table.
Definition lot_ok_b (t : lot) : bool := match t with LAnd | LOr => true | LBad _ => false end.
Lemma lot_ok_b_sound : forall t, lot_ok_b t = true -> t = LAnd \/ t = LOr.
Proof. intros [| |s] H; try discriminate; auto. Qed.

Fixpoint canon_path_b (uni : uclass) (p : path) {struct p} : bool :=
  match p with
  | Path inv root isf me ops us =>
    Bool.eqb inv (me && negb (last_ok_for_group ops)) && negb (root && isf) &&
    str_eqb us (rp_root_str root ++ concat (map render_pathop ops)) &&
    forallb (canon_pathop_b uni) ops
  end
with canon_pathop_b (uni : uclass) (o : pathop) {struct o} : bool :=
  match o with
  | PIdent k q us => good_key_b uni (k, q) && str_eqb us (key_piece (k, q))
  | PFilter l us => canon_logop_b uni l && logop_isf l && str_eqb us (render_logop l)
  | PFunc f => canon_func_b uni f
  end
with canon_func_b (uni : uclass) (f : func) {struct f} : bool :=
  match f with
  | Func inv ft ps us =>
    negb inv && known_func_b ft &&
    str_eqb us (ft ++ bs "(" ++ concat_str (bs ",") (map render_param ps) ++ bs ")") &&
    forallb (canon_param_b uni) ps
  end
with canon_param_b (uni : uclass) (p : param) {struct p} : bool :=
  match p with
  | FPPath q => canon_path_b uni q && negb (path_isf q) && negb (path_me q)
  | FPLog l => canon_logop_b uni l && negb (logop_isf l)
  | FPNum _ | FPStr _ | FPBool _ => lit_param_ok_b p
  end
with canon_logop_b (uni : uclass) (l : logop) {struct l} : bool :=
  match l with
  | LogOp inv isf t xs us =>
    negb inv && lot_ok_b t &&
    str_eqb us (render_logop (LogOp inv isf t xs us)) &&
    forallb (canon_operand_b uni isf) xs
  end
with canon_operand_b (uni : uclass) (isf : bool) (x : operand) {struct x} : bool :=
  match x with
  | OpP p => canon_path_b uni p && Bool.eqb (path_isf p) isf && path_me p
  | OpL l => canon_logop_b uni l && negb (logop_isf l)
  end.

Definition canon_b (uni : uclass) (t : top) : bool :=
  match t with
  | TopP p => canon_path_b uni p && negb (path_isf p) && negb (path_me p)
  | TopL l => canon_logop_b uni l && negb (logop_isf l)
  end.

Ltac split_andb H :=
  repeat match type of H with
         | (_ && _) = true => let H2 := fresh H in apply andb_true_iff in H; destruct H as [H H2]
         end.

Lemma negb_true_false : forall b, negb b = true -> b = false.
Proof. intros [|] H; [discriminate|reflexivity]. Qed.

Lemma forallb_all_P : forall {A} (P : A -> Prop) (f : A -> bool) l,
  Forall (fun x => f x = true -> P x) l -> forallb f l = true -> all_P P l.
Proof.
  intros A P f l H. induction H as [|x l Hx _ IH]; intros Hb; [exact I|].
  cbn [forallb] in Hb. apply andb_true_iff in Hb. destruct Hb as [H1 H2].
  cbn [all_P]. split; [apply Hx; exact H1|apply IH; exact H2].
Qed.

Lemma canon_b_sound_all : forall uni,
  (forall p, canon_path_b uni p = true -> canon_path uni p) /\
  (forall f, canon_func_b uni f = true -> canon_func uni f) /\
  (forall l, canon_logop_b uni l = true -> canon_logop uni l).
Proof.
  intros uni. apply ast_ind3.
  - intros inv root isf me ops us HF H. cbn [canon_path_b] in H.
    apply andb_true_iff in H. destruct H as [H H4]. apply andb_true_iff in H. destruct H as [H H3].
    apply andb_true_iff in H. destruct H as [H1 H2].
    cbn [canon_path]. split; [apply Bool.eqb_prop; exact H1|]. split; [apply negb_true_false; exact H2|].
    split; [apply str_eqb_eq; exact H3|].
    refine (forallb_all_P _ _ ops _ H4). eapply Forall_impl; [|exact HF].
    intros [k q us1|l us1|f] Ho Hb; cbn [Po_of] in Ho; cbn [canon_pathop_b] in Hb; cbn [canon_pathop].
    + apply andb_true_iff in Hb. destruct Hb as [Hb1 Hb2].
      split; [apply good_key_b_sound; exact Hb1|apply str_eqb_eq; exact Hb2].
    + apply andb_true_iff in Hb. destruct Hb as [Hb Hb3]. apply andb_true_iff in Hb. destruct Hb as [Hb1 Hb2].
      split; [apply Ho; exact Hb1|]. split; [exact Hb2|apply str_eqb_eq; exact Hb3].
    + apply Ho. exact Hb.
  - intros inv ft ps us HF H. cbn [canon_func_b] in H.
    apply andb_true_iff in H. destruct H as [H H4]. apply andb_true_iff in H. destruct H as [H H3].
    apply andb_true_iff in H. destruct H as [H1 H2].
    cbn [canon_func]. split; [apply negb_true_false; exact H1|].
    split; [apply fc_known_func_b; exact H2|]. split; [apply str_eqb_eq; exact H3|].
    refine (forallb_all_P _ _ ps _ H4). eapply Forall_impl; [|exact HF].
    intros [dd|s|b|q|l] Ha Hb; cbn [Pa_of] in Ha; cbn [canon_param_b] in Hb; cbn [canon_param];
      try (apply lit_param_ok_b_sound; exact Hb).
    + apply andb_true_iff in Hb. destruct Hb as [Hb Hb3]. apply andb_true_iff in Hb. destruct Hb as [Hb1 Hb2].
      split; [apply Ha; exact Hb1|]. split; apply negb_true_false; assumption.
    + apply andb_true_iff in Hb. destruct Hb as [Hb1 Hb2].
      split; [apply Ha; exact Hb1|apply negb_true_false; exact Hb2].
  - intros inv isf t xs us HF H. cbn [canon_logop_b] in H.
    apply andb_true_iff in H. destruct H as [H H4]. apply andb_true_iff in H. destruct H as [H H3].
    apply andb_true_iff in H. destruct H as [H1 H2].
    cbn [canon_logop]. split; [apply negb_true_false; exact H1|].
    split; [apply lot_ok_b_sound; exact H2|]. split; [apply str_eqb_eq; exact H3|].
    refine (forallb_all_P _ _ xs _ H4). eapply Forall_impl; [|exact HF].
    intros [p|l] Hx Hb; cbn [Px_of] in Hx; cbn [canon_operand_b] in Hb; cbn [canon_operand].
    + apply andb_true_iff in Hb. destruct Hb as [Hb Hb3]. apply andb_true_iff in Hb. destruct Hb as [Hb1 Hb2].
      split; [apply Hx; exact Hb1|]. split; [apply Bool.eqb_prop; exact Hb2|exact Hb3].
    + apply andb_true_iff in Hb. destruct Hb as [Hb1 Hb2].
      split; [apply Hx; exact Hb1|apply negb_true_false; exact Hb2].
Qed.

Theorem canon_b_sound : forall uni t, canon_b uni t = true -> canon uni t.
Proof.
  intros uni [p|l] H; cbn [canon_b] in H; cbn [canon].
  - apply andb_true_iff in H. destruct H as [H H3]. apply andb_true_iff in H. destruct H as [H1 H2].
    split; [apply (proj1 (canon_b_sound_all uni)); exact H1|]. split; apply negb_true_false; assumption.
  - apply andb_true_iff in H. destruct H as [H1 H2].
    split; [apply (proj2 (proj2 (canon_b_sound_all uni))); exact H1|apply negb_true_false; exact H2].
Qed.

Fixpoint wcanon_path_b (uni : uclass) (p : path) {struct p} : bool :=
  match p with
  | Path _ root isf _ ops _ => negb (root && isf) && forallb (wcanon_pathop_b uni) ops
  end
with wcanon_pathop_b (uni : uclass) (o : pathop) {struct o} : bool :=
  match o with
  | PIdent k q _ => good_key_b uni (k, q)
  | PFilter l _ => wcanon_logop_b uni l && logop_isf l
  | PFunc (Func _ ft ps _) => known_func_b ft && forallb (canon_param_b uni) ps
  end
with wcanon_logop_b (uni : uclass) (l : logop) {struct l} : bool :=
  match l with
  | LogOp _ isf t xs _ => lot_ok_b t && forallb (wcanon_operand_b uni isf) xs
  end
with wcanon_operand_b (uni : uclass) (isf : bool) (x : operand) {struct x} : bool :=
  match x with
  | OpP p => wcanon_path_b uni p && Bool.eqb (path_isf p) isf
  | OpL l => wcanon_logop_b uni l && negb (logop_isf l)
  end.

Definition wcanon_b (uni : uclass) (t : top) : bool :=
  match t with
  | TopP p => wcanon_path_b uni p && negb (path_isf p)
  | TopL l => wcanon_logop_b uni l && negb (logop_isf l)
  end.

Lemma canon_param_b_sound : forall uni p, canon_param_b uni p = true -> canon_param uni p.
Proof.
  intros uni [dd|s|b|q|l] Hb; cbn [canon_param_b] in Hb; cbn [canon_param];
    try (apply lit_param_ok_b_sound; exact Hb).
  - apply andb_true_iff in Hb. destruct Hb as [Hb Hb3]. apply andb_true_iff in Hb. destruct Hb as [Hb1 Hb2].
    split; [apply (proj1 (canon_b_sound_all uni)); exact Hb1|]. split; apply negb_true_false; assumption.
  - apply andb_true_iff in Hb. destruct Hb as [Hb1 Hb2].
    split; [apply (proj2 (proj2 (canon_b_sound_all uni))); exact Hb1|apply negb_true_false; exact Hb2].
Qed.

Lemma wcanon_b_sound_all : forall uni,
  (forall p, wcanon_path_b uni p = true -> wcanon_path uni p) /\ (forall f : func, True) /\
  (forall l, wcanon_logop_b uni l = true -> wcanon_logop uni l).
Proof.
  intros uni. apply ast_ind3.
  - intros inv root isf me ops us HF H. cbn [wcanon_path_b] in H.
    apply andb_true_iff in H. destruct H as [H1 H2].
    cbn [wcanon_path]. split; [apply negb_true_false; exact H1|].
    refine (forallb_all_P _ _ ops _ H2). eapply Forall_impl; [|exact HF].
    intros [k q us1|l us1|[inv1 ft ps us1]] Ho Hb; cbn [Po_of] in Ho; cbn [wcanon_pathop_b] in Hb; cbn [wcanon_pathop].
    + apply good_key_b_sound; exact Hb.
    + apply andb_true_iff in Hb. destruct Hb as [Hb1 Hb2]. split; [apply Ho; exact Hb1|exact Hb2].
    + apply andb_true_iff in Hb. destruct Hb as [Hb1 Hb2]. split; [apply fc_known_func_b; exact Hb1|].
      refine (forallb_all_P _ _ ps _ Hb2). apply Forall_forall. intros p _. apply canon_param_b_sound.
  - intros; exact I.
  - intros inv isf t xs us HF H. cbn [wcanon_logop_b] in H.
    apply andb_true_iff in H. destruct H as [H1 H2].
    cbn [wcanon_logop]. split; [apply lot_ok_b_sound; exact H1|].
    refine (forallb_all_P _ _ xs _ H2). eapply Forall_impl; [|exact HF].
    intros [p|l] Hx Hb; cbn [Px_of] in Hx; cbn [wcanon_operand_b] in Hb; cbn [wcanon_operand];
      apply andb_true_iff in Hb; destruct Hb as [Hb1 Hb2].
    + split; [apply Hx; exact Hb1|apply Bool.eqb_prop; exact Hb2].
    + split; [apply Hx; exact Hb1|apply negb_true_false; exact Hb2].
Qed.

Theorem wcanon_b_sound : forall uni t, wcanon_b uni t = true -> wcanon uni t.
Proof.
  intros uni [p|l] H; cbn [wcanon_b] in H; cbn [wcanon]; apply andb_true_iff in H; destruct H as [H1 H2].
  - split; [apply (proj1 (wcanon_b_sound_all uni)); exact H1|apply negb_true_false; exact H2].
  - split; [apply (proj2 (proj2 (wcanon_b_sound_all uni))); exact H1|apply negb_true_false; exact H2].
Qed.

Fixpoint kws_path_b (p : path) {struct p} : bool :=
  match p with Path _ _ _ _ ops _ => forallb kws_pathop_b ops end
with kws_pathop_b (o : pathop) {struct o} : bool :=
  match o with PFilter l _ => kws_logop_b l | _ => true end
with kws_logop_b (l : logop) {struct l} : bool :=
  match l with
  | LogOp _ isf t xs us =>
    negb (kw_omitted isf t (concat_str (bs ",") (map render_operand xs)) us) && forallb kws_operand_b xs
  end
with kws_operand_b (x : operand) {struct x} : bool :=
  match x with OpP p => kws_path_b p | OpL l => kws_logop_b l end.
Definition kws_b (t : top) : bool := match t with TopP p => kws_path_b p | TopL l => kws_logop_b l end.

Lemma kws_b_sound_all :
  (forall p, kws_path_b p = true -> kws_path p) /\ (forall f : func, True) /\
  (forall l, kws_logop_b l = true -> kws_logop l).
Proof.
  apply ast_ind3.
  - intros inv root isf me ops us HF H. cbn [kws_path_b] in H. cbn [kws_path].
    refine (forallb_all_P _ _ ops _ H). eapply Forall_impl; [|exact HF].
    intros [k q us1|l us1|f] Ho Hb; cbn [Po_of] in Ho; cbn [kws_pathop_b] in Hb; cbn [kws_pathop]; try exact I.
    apply Ho. exact Hb.
  - intros; exact I.
  - intros inv isf t xs us HF H. cbn [kws_logop_b] in H. apply andb_true_iff in H. destruct H as [H1 H2].
    cbn [kws_logop]. split; [apply negb_true_false; exact H1|].
    refine (forallb_all_P _ _ xs _ H2). eapply Forall_impl; [|exact HF].
    intros [p|l] Hx Hb; cbn [Px_of] in Hx; cbn [kws_operand_b] in Hb; cbn [kws_operand]; apply Hx; exact Hb.
Qed.

Theorem kws_b_sound : forall t, kws_b t = true -> kws t.
Proof.
  intros [p|l] H; cbn [kws_b] in H; cbn [kws].
  - apply (proj1 kws_b_sound_all). exact H.
  - apply (proj2 (proj2 kws_b_sound_all)). exact H.
Qed.

(** the two spellings of a canonical group *)
Lemma canon_logop_forms : forall uni inv isf t xs us, canon_logop uni (LogOp inv isf t xs us) ->
  us = open_s isf ++ kw_text t ++ bs "," ++ log_body xs ++ close_s isf \/
  (t = LAnd /\ us = open_s isf ++ log_body xs ++ close_s isf).
Proof.
  intros uni inv isf t xs us (_ & _ & Hus & _). cbn [render_logop] in Hus. fold (log_body xs) in Hus.
  destruct (kw_omitted isf t (log_body xs) us) eqn:E; [right|left; exact Hus].
  split; [|exact Hus]. unfold kw_omitted in E. apply andb_true_iff in E.
  destruct t; try discriminate (proj1 E); reflexivity.
Qed.
