(* Proofs/C04.v — the arithmetic functions, by name, are the exact decimal
   operations of Dec.v (whose exactness in Q is proved in DecQ.v). *)
From Coq Require Import QArith Qabs.
From Mpath.Model Require Import Base Dec Types GoVal Funcs.
From Mpath.Proofs Require Import DecQ.

Lemma params_first_number_lit d : params_first_number [RNum d] = Ok d.
Proof. reflexivity. Qed.

(** a numeric string supplies the number it spells (NewFromString) *)
Lemma string_number_spec s : string_number s = dec_of_string s.
Proof.
  unfold string_number, convert_number_check, convert_number_check_base.
  assert (Hv : (if is_empty_value (value_of (VStr false s)) then value_of (VStr false s) else deref1 (value_of (VStr false s))) = value_of (VStr false s)).
  { destruct (is_empty_value _); reflexivity. }
  rewrite Hv. cbn. destruct (dec_of_string s); reflexivity.
Qed.

Lemma params_first_number_str s d :
  dec_of_string s = Some d -> params_first_number [RStr s] = Ok d.
Proof.
  intros H. unfold params_first_number. cbn [len_is length Nat.eqb negb numbers strings filter_map].
  rewrite string_number_spec, H. reflexivity.
Qed.

Section C04.
Variable eng : engines.

Definition arith_name (op : arith) : string :=
  match op with AAdd => "Add" | ASub => "Subtract" | AMul => "Multiply" | ADiv => "Divide" | AMod => "Modulo" end.

Lemma dispatch_arith op ps v : run_func eng (arith_name op) ps v = func_decimal op ps v.
Proof. destruct op; reflexivity. Qed.

Lemma add_by_name ps v p : params_first_number ps = Ok p ->
  run_func eng "Add" ps (VDec v) = Ok (VDec (dadd v p)).
Proof. intros H. rewrite (dispatch_arith AAdd). unfold func_decimal. rewrite H. reflexivity. Qed.
Lemma sub_by_name ps v p : params_first_number ps = Ok p ->
  run_func eng "Subtract" ps (VDec v) = Ok (VDec (dsub v p)).
Proof. intros H. rewrite (dispatch_arith ASub). unfold func_decimal. rewrite H. reflexivity. Qed.
Lemma mul_by_name ps v p : params_first_number ps = Ok p ->
  run_func eng "Multiply" ps (VDec v) = Ok (VDec (dmul v p)).
Proof. intros H. rewrite (dispatch_arith AMul). unfold func_decimal. rewrite H. reflexivity. Qed.
Lemma div_by_name ps v p : params_first_number ps = Ok p -> coef p <> 0%Z ->
  run_func eng "Divide" ps (VDec v) = Ok (VDec (ddiv v p)).
Proof.
  intros H Hz. rewrite (dispatch_arith ADiv). unfold func_decimal. rewrite H. cbn [bind].
  unfold dis_zero. destruct (Z.eqb_spec (coef p) 0); [contradiction|reflexivity].
Qed.
Lemma mod_by_name ps v p : params_first_number ps = Ok p -> coef p <> 0%Z ->
  run_func eng "Modulo" ps (VDec v) = Ok (VDec (dmod v p)).
Proof.
  intros H Hz. rewrite (dispatch_arith AMod). unfold func_decimal. rewrite H. cbn [bind].
  unfold dis_zero. destruct (Z.eqb_spec (coef p) 0); [contradiction|reflexivity].
Qed.
Lemma zero_divisor_is_error op ps v p : params_first_number ps = Ok p -> coef p = 0%Z ->
  (op = ADiv \/ op = AMod) -> exists e, func_decimal op ps (VDec v) = Err e.
Proof.
  intros H Hz [->| ->]; unfold func_decimal; rewrite H; cbn [bind]; unfold dis_zero; rewrite Hz; eexists; reflexivity.
Qed.

(** the exact statements in Q *)
Lemma add_exact ps v p : params_first_number ps = Ok p ->
  exists r, run_func eng "Add" ps (VDec v) = Ok (VDec r) /\ (dval r == dval v + dval p)%Q.
Proof. intros H. eexists; split; [exact (add_by_name ps v p H) | apply dadd_exact]. Qed.
Lemma sub_exact ps v p : params_first_number ps = Ok p ->
  exists r, run_func eng "Subtract" ps (VDec v) = Ok (VDec r) /\ (dval r == dval v - dval p)%Q.
Proof. intros H. eexists; split; [exact (sub_by_name ps v p H) | apply dsub_exact]. Qed.
Lemma mul_exact ps v p : params_first_number ps = Ok p ->
  exists r, run_func eng "Multiply" ps (VDec v) = Ok (VDec r) /\ (dval r == dval v * dval p)%Q.
Proof. intros H. eexists; split; [exact (mul_by_name ps v p H) | apply dmul_exact]. Qed.
Lemma div_half_unit ps v p : params_first_number ps = Ok p -> coef p <> 0%Z ->
  exists r, run_func eng "Divide" ps (VDec v) = Ok (VDec r) /\
            (Qabs (dval r - dval v / dval p) <= (1 # 2) * pow10Q (-16))%Q.
Proof. intros H Hz. eexists; split; [exact (div_by_name ps v p H Hz) | apply ddiv_half_unit; exact Hz]. Qed.
Lemma mod_rounded_quotient ps v p : params_first_number ps = Ok p -> coef p <> 0%Z ->
  exists r, run_func eng "Modulo" ps (VDec v) = Ok (VDec r) /\
            (dval r == dval v - dval p * inject_Z (Qtrunc (dval (ddiv v p))))%Q.
Proof. intros H Hz. eexists; split; [exact (mod_by_name ps v p H Hz) | apply dmod_spec_trunc]. Qed.

(** aggregates over a list of numbers *)
Definition agg_name (a : agg) : string :=
  match a with AggSum => "Sum" | AggAvg => "Average" | AggMin => "Minimum" | AggMax => "Maximum" end.
Lemma dispatch_agg a ps v : run_func eng (agg_name a) ps v = func_decimal_slice a ps v.
Proof. destruct a; reflexivity. Qed.

Definition qsum (l : list dec) : Q := fold_left Qplus (map dval l) 0%Q.

Lemma fold_left_Qplus_shift (l : list Q) (x : Q) : (fold_left Qplus l x == x + fold_left Qplus l 0)%Q.
Proof.
  revert x. induction l as [|y l IH]; intros x; simpl.
  - ring.
  - rewrite IH. rewrite (IH (0 + y)%Q). ring.
Qed.

Lemma qsum_cons d l : (qsum (d :: l) == dval d + qsum l)%Q.
Proof. unfold qsum. cbn [map fold_left]. rewrite fold_left_Qplus_shift. ring. Qed.

Lemma fold_from d l : (fold_left Qplus (map dval l) (dval d) == qsum (d :: l))%Q.
Proof. rewrite qsum_cons. unfold qsum. apply fold_left_Qplus_shift. Qed.

(** the operands an aggregate works on: the array's numbers and the numeric
    arguments (numbers and numeric strings) *)
Definition agg_operands (ps : list rparam) (val : gv) : option (list dec) :=
  let param_numbers := numbers ps ++ filter_map string_number (strings ps) in
  match val with
  | VDec d => Some ([d] ++ param_numbers)
  | VSlice EDec _ xs => option_map (fun ds => ds ++ param_numbers) (all_some (map (fun x => match x with VDec d => Some d | _ => None end) xs))
  | VSlice EAny _ xs => option_map (fun ds => param_numbers ++ ds) (all_some (map elem_number xs))
  | VMap _ _ _ kvs => option_map (fun ds => param_numbers ++ ds) (all_some (map elem_number (map snd kvs)))
  | _ => None
  end.

Lemma agg_result a ps val ds :
  agg_operands ps val = Some ds ->
  func_decimal_slice a ps val =
  Ok (VDec (match ds with [] => dzero | [d] => d | d :: rest => run_agg a d rest end)).
Proof.
  unfold agg_operands, func_decimal_slice. intros H.
  destruct val; try discriminate.
  - inversion H; subst. cbn. destruct (numbers ps ++ filter_map string_number (strings ps)); reflexivity.
  - destruct t; try discriminate.
    + destruct (all_some (map elem_number xs)) as [l|]; [|discriminate]. inversion H; subst. cbn.
      destruct (_ ++ l) as [|d [|d' r]]; reflexivity.
    + destruct (all_some _) as [l|]; [|discriminate]. inversion H; subst. cbn.
      destruct (l ++ _) as [|d [|d' r]]; reflexivity.
  - cbn in H. destruct (all_some (map elem_number (map snd kvs))) as [l|] eqn:E; [|discriminate]. inversion H; subst. cbn. destruct (_ ++ l) as [|d [|d' r]]; reflexivity.
Qed.

Lemma sum_exact ps val ds :
  agg_operands ps val = Some ds ->
  exists r, run_func eng "Sum" ps val = Ok (VDec r) /\ (dval r == qsum ds)%Q.
Proof.
  intros H. rewrite (dispatch_agg AggSum). rewrite (agg_result AggSum ps val ds H).
  eexists; split; [reflexivity|]. unfold qsum.
  destruct ds as [|d [|d' rest]].
  - simpl. apply dzero_exact.
  - simpl. ring.
  - cbn [run_agg]. rewrite dsum_exact. apply fold_from.
Qed.

Lemma min_max_spec ps val d rest :
  agg_operands ps val = Some (d :: rest) ->
  (exists r, run_func eng "Minimum" ps val = Ok (VDec r) /\ In r (d :: rest) /\ forall x, In x (d :: rest) -> (dval r <= dval x)%Q) /\
  (exists r, run_func eng "Maximum" ps val = Ok (VDec r) /\ In r (d :: rest) /\ forall x, In x (d :: rest) -> (dval x <= dval r)%Q).
Proof.
  intros H. split.
  - rewrite (dispatch_agg AggMin), (agg_result AggMin ps val _ H). eexists; split; [reflexivity|].
    destruct rest as [|d' rest'].
    + split; [left; reflexivity|]. intros x [<-|[]]. apply Qle_refl.
    + cbn [run_agg]. apply dmin_spec.
  - rewrite (dispatch_agg AggMax), (agg_result AggMax ps val _ H). eexists; split; [reflexivity|].
    destruct rest as [|d' rest'].
    + split; [left; reflexivity|]. intros x [<-|[]]. apply Qle_refl.
    + cbn [run_agg]. apply dmax_spec.
Qed.

Lemma avg_half_unit ps val d d' rest :
  agg_operands ps val = Some (d :: d' :: rest) ->
  exists r, run_func eng "Average" ps val = Ok (VDec r) /\
    (Qabs (dval r - qsum (d :: d' :: rest) / inject_Z (Z.of_nat (length (d :: d' :: rest)))) <= (1 # 2) * pow10Q (-16))%Q.
Proof.
  intros H. rewrite (dispatch_agg AggAvg), (agg_result AggAvg ps val _ H). eexists; split; [reflexivity|].
  cbn [run_agg]. pose proof (davg_half_unit d (d' :: rest)) as Hh.
  rewrite <- (fold_from d (d' :: rest)). exact Hh.
Qed.

End C04.
