(* Properties/C06.v — numbers come out as decimals with their value intact. *)
From Coq Require Import QArith.
From Mpath.Model Require Import Base Dec Types GoVal Ast Lexer Parser Funcs Eval.
From Mpath.Proofs Require Import DecQ C06.

(** every numeric carrier (any integer kind and width including the full
    uint64 range, floats, decimal.Decimal, named types over them, or one of
    these behind a pointer) converts to the decimal d, whose value is exactly
    the source number's *)
Theorem C06_value_preserved : forall g d, num_carrier g d ->
  convert_number g = VDec d /\ convert_unless_string g = VDec d /\
  exists q, source_value g = Some q /\ (dval d == q)%Q.
Proof.
  intros g d H. split; [exact (convert_number_carrier g d H)|].
  split; [exact (convert_unless_string_carrier g d H)|exact (carrier_value g d H)].
Qed.
Print Assumptions C06_value_preserved.

(** positions: at the root, in a map value, in a struct field, as a slice
    element read by First / Last *)
Theorem C06_at_root : forall uni eng fuel inv me us g d, num_carrier g d ->
  eval uni eng (S fuel) (NPath (Path inv true false me [] us)) g g = Ok (VDec d).
Proof. exact at_root. Qed.
Print Assumptions C06_at_root.
Theorem C06_map_value : forall name kt vt isnil kvs g d,
  map_lookup_fold name kvs = Some g -> num_carrier g d -> do_ident name (VMap kt vt isnil kvs) = Ok (VDec d).
Proof. exact as_map_value. Qed.
Print Assumptions C06_map_value.
Theorem C06_struct_field : forall name fs g d,
  fs <> [] -> struct_lookup_fold name fs = Some g -> num_carrier g d -> do_ident name (VStruct fs) = Ok (VDec d).
Proof. exact as_struct_field. Qed.
Print Assumptions C06_struct_field.
Theorem C06_first : forall eng t n g xs d, num_carrier g d ->
  run_func eng "First" [] (VSlice t n (g :: xs)) = Ok (VDec d).
Proof. exact first_elem. Qed.
Print Assumptions C06_first.
Theorem C06_last : forall eng t n g xs d, num_carrier g d ->
  run_func eng "Last" [] (VSlice t n (xs ++ [g])) = Ok (VDec d).
Proof. exact last_elem. Qed.
Print Assumptions C06_last.

(** booleans and strings that are not numerals are returned unchanged *)
Theorem C06_bool_unchanged : forall nm b,
  convert_number (VBool nm b) = VBool nm b /\ convert_unless_string (VBool nm b) = VBool nm b.
Proof. exact convert_bool. Qed.
Print Assumptions C06_bool_unchanged.
Theorem C06_string_unchanged : forall nm s, dec_of_string s = None ->
  convert_number (VStr nm s) = VStr nm s /\ convert_unless_string (VStr nm s) = VStr nm s.
Proof. exact convert_string. Qed.
Print Assumptions C06_string_unchanged.

Example C06_example :
  num_carrier (VInt KUint64 true 18446744073709551615) (mkDec 18446744073709551615 0) /\
  convert_number (VPtr (Some (VInt KUint64 false 9223372036854775808))) = VDec (mkDec 9223372036854775808 0).
Proof. split; [constructor|reflexivity]. Qed.
