(* Properties/C06.v — numbers come out as decimals with their value intact. *)
From Coq Require Import QArith.
From Mpath.Model Require Import Base Dec Types GoVal Ast Lexer Parser Funcs Eval.
From Mpath.Proofs Require Import DecQ C06.

(** every numeric carrier (any integer kind and width including the full
    uint64 range, floats, decimal.Decimal, named types over them, or one of
    these behind a pointer) converts to the decimal d, whose value is exactly
    the source number's *)
Theorem C06_value_preserved : forall g d, num_carrier g d ->
  convert_number g = VDec d /\ convert_unless_string g = VDec d /\
  exists q, source_value g = Some q /\ (dval d == q)%Q.
Proof.
  intros g d H. split; [exact (convert_number_carrier g d H)|].
  split; [exact (convert_unless_string_carrier g d H)|exact (carrier_value g d H)].
Qed.
Print Assumptions C06_value_preserved.

(** positions: at the root, in a map value, in a struct field, as a slice
    element read by First / Last *)
Theorem C06_at_root : forall uni eng fuel inv me us g d, num_carrier g d ->
  eval uni eng (S fuel) (NPath (Path inv true false me [] us)) g g = Ok (VDec d).
Proof. exact at_root. Qed.
Print Assumptions C06_at_root.
Theorem C06_map_value : forall name kt vt isnil kvs g d,
  map_lookup_fold name kvs = Some g -> num_carrier g d -> do_ident name (VMap kt vt isnil kvs) = Ok (VDec d).
Proof. exact as_map_value. Qed.
Print Assumptions C06_map_value.
Theorem C06_struct_field : forall name fs g d,
  fs <> [] -> struct_lookup_fold name fs = Some g -> num_carrier g d -> do_ident name (VStruct fs) = Ok (VDec d).
Proof. exact as_struct_field. Qed.
Print Assumptions C06_struct_field.
Theorem C06_first : forall eng t n g xs d, num_carrier g d ->
  run_func eng "First" [] (VSlice t n (g :: xs)) = Ok (VDec d).
Proof. exact first_elem. Qed.
Print Assumptions C06_first.
Theorem C06_last : forall eng t n g xs d, num_carrier g d ->
  run_func eng "Last" [] (VSlice t n (xs ++ [g])) = Ok (VDec d).
Proof. exact last_elem. Qed.
Print Assumptions C06_last.

(** booleans and strings that are not numerals are returned unchanged *)
Theorem C06_bool_unchanged : forall nm b,
  convert_number (VBool nm b) = VBool nm b /\ convert_unless_string (VBool nm b) = VBool nm b.
Proof. exact convert_bool. Qed.
Print Assumptions C06_bool_unchanged.
Theorem C06_string_unchanged : forall nm s, dec_of_string s = None ->
  convert_number (VStr nm s) = VStr nm s /\ convert_unless_string (VStr nm s) = VStr nm s.
Proof. exact convert_string. Qed.
Print Assumptions C06_string_unchanged.

Example C06_example :
  num_carrier (VInt KUint64 true 18446744073709551615) (mkDec 18446744073709551615 0) /\
  convert_number (VPtr (Some (VInt KUint64 false 9223372036854775808))) = VDec (mkDec 9223372036854775808 0).
Proof. split; [constructor|reflexivity]. Qed.

(** the remaining positions of the property (Proofs/C06b.v): a key stepped
    across an array of objects (maps or structs, any slice/array carrier, rows
    lacking the key skipped), Index, a function receiver after a key (composed
    with C04's exact addition as a check), one level of pointer, interface
    slots.  [direct_number] restricts the pointer theorems to pointers to the
    built-in numeric kinds: a *decimal.Decimal is the subject of
    [C06_pointer_to_decimal] below. *)
From Mpath.Proofs Require C17 C06b.
Import Mpath.Proofs.C17 Mpath.Proofs.C06b.

Theorem C06_across_array :
  forall (k : str) (t : ety) (xs gs : list gv) (ds : list dec), xs <> [] -> Forall2 (obj_row k) xs gs -> Forall2 num_carrier gs ds -> (forall n : bool, do_ident k (VSlice t n xs) = Ok (VSlice EAny false (map VDec ds))) /\ do_ident k (VArray t xs) = Ok (VSlice EAny false (map VDec ds)) /\ Forall2 same_value gs ds.
Proof. exact Mpath.Proofs.C06b.C06b_across_array. Qed.
Print Assumptions C06_across_array.

Theorem C06_across_array_some :
  forall (k : str) (t : ety) (xs gs : list gv) (ds : list dec), rows_proj k xs gs -> Forall2 num_carrier gs ds -> gs <> [] -> (forall n : bool, do_ident k (VSlice t n xs) = Ok (VSlice EAny false (map VDec ds))) /\ do_ident k (VArray t xs) = Ok (VSlice EAny false (map VDec ds)) /\ Forall2 same_value gs ds.
Proof. exact Mpath.Proofs.C06b.C06b_across_array_some. Qed.
Print Assumptions C06_across_array_some.

Theorem C06_across_array_none :
  forall (k : str) (t : ety) (xs : list gv), rows_proj k xs [] -> (forall n : bool, do_ident k (VSlice t n xs) = Err EKeyNotFound) /\ do_ident k (VArray t xs) = Err EKeyNotFound.
Proof. exact Mpath.Proofs.C06b.C06b_across_array_none. Qed.
Print Assumptions C06_across_array_none.

Theorem C06_index :
  forall (eng : engines) (t : ety) (xs : list gv) (p : dec) (i : nat) (g : gv) (d : dec), Strings.denotes_nat p i -> nth_error xs i = Some g -> num_carrier g d -> Z.of_nat (Datatypes.length xs) < 2 ^ 63 -> (forall n : bool, run_func eng "Index" [RNum p] (VSlice t n xs) = Ok (VDec d)) /\ run_func eng "Index" [RNum p] (VArray t xs) = Ok (VDec d) /\ same_value g d.
Proof. exact Mpath.Proofs.C06b.C06b_index. Qed.
Print Assumptions C06_index.

Theorem C06_index_elems :
  forall (eng : engines) (cur : gv) (xs : list gv) (p : dec) (i : nat) (g : gv) (d : dec), elems cur = Some xs -> Strings.denotes_nat p i -> nth_error xs i = Some g -> num_carrier g d -> Z.of_nat (Datatypes.length xs) < 2 ^ 63 -> run_func eng "Index" [RNum p] cur = Ok (VDec d).
Proof. exact Mpath.Proofs.C06b.C06b_index_elems. Qed.
Print Assumptions C06_index_elems.

Theorem C06_first_last_elems :
  forall (eng : engines) (cur g : gv) (xs : list gv) (d : dec), num_carrier g d -> (elems cur = Some (g :: xs) -> run_func eng "First" [] cur = Ok (VDec d)) /\ (elems cur = Some (xs ++ [g]) -> run_func eng "Last" [] cur = Ok (VDec d)).
Proof. exact Mpath.Proofs.C06b.C06b_first_last_elems. Qed.
Print Assumptions C06_first_last_elems.

Theorem C06_function_receiver :
  forall (uni : uclass) (eng : engines) (fuel : nat) (inv me : bool) (k u1 u2 u3 : str) (finv : bool) (name : string) (ps : list param) (kt : kty) (vt : ety) (isnil : bool) (kvs : list (gv * gv)) (g : gv) (d : dec), map_lookup_fold k kvs = Some g -> num_carrier g d -> plain_function name = true -> eval uni eng (S (S (S fuel))) (NPath (Path inv true false me [PIdent k false u1; PFunc (Func finv (bs name) ps u2)] u3)) (VMap kt vt isnil kvs) (VMap kt vt isnil kvs) = (do rt <- eval_params (fun m : node => eval uni eng fuel m (VDec d) (VMap kt vt isnil kvs)) ps; run_func eng name rt (VDec d)).
Proof. exact Mpath.Proofs.C06b.C06b_function_receiver. Qed.
Print Assumptions C06_function_receiver.

Theorem C06_function_receiver_struct :
  forall (uni : uclass) (eng : engines) (fuel : nat) (inv me : bool) (k u1 u2 u3 : str) (finv : bool) (name : string) (ps : list param) (fs : list (str * bool * bool * gv)) (g : gv) (d : dec), struct_lookup_fold k fs = Some g -> num_carrier g d -> plain_function name = true -> eval uni eng (S (S (S fuel))) (NPath (Path inv true false me [PIdent k false u1; PFunc (Func finv (bs name) ps u2)] u3)) (VStruct fs) (VStruct fs) = (do rt <- eval_params (fun m : node => eval uni eng fuel m (VDec d) (VStruct fs)) ps; run_func eng name rt (VDec d)).
Proof. exact Mpath.Proofs.C06b.C06b_function_receiver_struct. Qed.
Print Assumptions C06_function_receiver_struct.

Theorem C06_add_fields :
  forall (uni : uclass) (eng : engines) (fuel : nat) (inv me : bool) (u1 u2 u3 : str) (finv pinv pme : bool) (pu1 pu2 a b : str) (kt : kty) (vt : ety) (isnil : bool) (kvs : list (gv * gv)) (ga gb : gv) (da db : dec) (qa qb : Q), map_lookup_fold a kvs = Some ga -> map_lookup_fold b kvs = Some gb -> num_carrier ga da -> num_carrier gb db -> source_value ga = Some qa -> source_value gb = Some qb -> exists r : dec, eval uni eng (S (S (S (S (S fuel))))) (NPath (Path inv true false me [PIdent a false u1; PFunc (Func finv (bs "Add") [FPPath (Path pinv true false pme [PIdent b false pu1] pu2)] u2)] u3)) (VMap kt vt isnil kvs) (VMap kt vt isnil kvs) = Ok (VDec r) /\ dval r == qa + qb.
Proof. exact Mpath.Proofs.C06b.C06b_add_fields. Qed.
Print Assumptions C06_add_fields.

Theorem C06_pointer_and_interface :
  forall (g : gv) (d : dec), num_carrier g d -> direct_number g -> same_value (ptr_to g) d /\ source_value (ptr_to g) = source_value g /\ (forall (uni : uclass) (eng : engines) (fuel : nat) (inv me : bool) (us : str), eval uni eng (S fuel) (NPath (Path inv true false me [] us)) (ptr_to g) (ptr_to g) = Ok (VDec d)) /\ (forall (k : str) (kt : kty) (vt : ety) (isnil : bool) (kvs : list (gv * gv)), map_lookup_fold k kvs = Some (ptr_to g) -> do_ident k (VMap kt vt isnil kvs) = Ok (VDec d)) /\ (forall (k : str) (fs : list (str * bool * bool * gv)), struct_lookup_fold k fs = Some (ptr_to g) -> do_ident k (VStruct fs) = Ok (VDec d)) /\ (forall (eng : engines) (cur : gv) (xs : list gv), elems cur = Some (ptr_to g :: xs) -> run_func eng "First" [] cur = Ok (VDec d)) /\ (forall (eng : engines) (cur : gv) (xs : list gv), elems cur = Some (xs ++ [ptr_to g]) -> run_func eng "Last" [] cur = Ok (VDec d)) /\ (forall (eng : engines) (cur : gv) (xs : list gv) (p : dec) (i : nat), elems cur = Some xs -> Strings.denotes_nat p i -> nth_error xs i = Some (ptr_to g) -> Z.of_nat (Datatypes.length xs) < 2 ^ 63 -> run_func eng "Index" [RNum p] cur = Ok (VDec d)) /\ (forall (uni : uclass) (eng : engines) (fuel : nat) (inv me : bool) (k u1 u2 u3 : str) (finv : bool) (name : string) (ps : list param) (kt : kty) (vt : ety) (isnil : bool) (kvs : list (gv * gv)), map_lookup_fold k kvs = Some (ptr_to g) -> plain_function name = true -> eval uni eng (S (S (S fuel))) (NPath (Path inv true false me [PIdent k false u1; PFunc (Func finv (bs name) ps u2)] u3)) (VMap kt vt isnil kvs) (VMap kt vt isnil kvs) = (do rt <- eval_params (fun m : node => eval uni eng fuel m (VDec d) (VMap kt vt isnil kvs)) ps; run_func eng name rt (VDec d))).
Proof. exact Mpath.Proofs.C06b.C06b_pointer_and_interface. Qed.
Print Assumptions C06_pointer_and_interface.

Theorem C06_pointer_across_array :
  forall (k : str) (t : ety) (xs gs : list gv) (ds : list dec), xs <> [] -> Forall2 (obj_row k) xs (map ptr_to gs) -> Forall2 num_carrier gs ds -> Forall direct_number gs -> (forall n : bool, do_ident k (VSlice t n xs) = Ok (VSlice EAny false (map VDec ds))) /\ do_ident k (VArray t xs) = Ok (VSlice EAny false (map VDec ds)) /\ Forall2 same_value (map ptr_to gs) ds.
Proof. exact Mpath.Proofs.C06b.C06b_pointer_across_array. Qed.
Print Assumptions C06_pointer_across_array.

Theorem C06_interface_slots :
  forall (eng : engines) (g : gv) (d : dec), num_carrier g d -> (forall (n : bool) (rest : list gv), run_func eng "First" [] (VSlice EAny n (g :: rest)) = Ok (VDec d)) /\ (forall rest : list gv, run_func eng "First" [] (VArray EAny (g :: rest)) = Ok (VDec d)) /\ (forall (n : bool) (pre : list gv), run_func eng "Last" [] (VSlice EAny n (pre ++ [g])) = Ok (VDec d)) /\ (forall pre : list gv, run_func eng "Last" [] (VArray EAny (pre ++ [g])) = Ok (VDec d)) /\ (forall (n : bool) (xs : list gv) (p : dec) (i : nat), Strings.denotes_nat p i -> nth_error xs i = Some g -> Z.of_nat (Datatypes.length xs) < 2 ^ 63 -> run_func eng "Index" [RNum p] (VSlice EAny n xs) = Ok (VDec d) /\ run_func eng "Index" [RNum p] (VArray EAny xs) = Ok (VDec d)) /\ (direct_number g -> forall (n : bool) (rest : list gv), run_func eng "First" [] (VSlice EAny n (ptr_to g :: rest)) = Ok (VDec d)) /\ (forall (k : str) (x : gv) (n : bool), obj_row k x g -> do_ident k (VSlice EAny n [x]) = Ok (VSlice EAny false [VDec d])).
Proof. exact Mpath.Proofs.C06b.C06b_interface_slots. Qed.
Print Assumptions C06_interface_slots.

Theorem C06_pointer_to_decimal :
  forall d : dec, convert_number (VPtr (Some (VDec d))) = VDec d /\ convert_unless_string (VPtr (Some (VDec d))) = VDec d.
Proof. exact Mpath.Proofs.C06b.C06b_pointer_to_decimal. Qed.
Print Assumptions C06_pointer_to_decimal.

Theorem C06_pointer_to_decimal_positions :
  forall d : dec, (forall (uni : uclass) (eng : engines) (fuel : nat) (inv me : bool) (us : str), eval uni eng (S fuel) (NPath (Path inv true false me [] us)) (ptr_to (VDec d)) (ptr_to (VDec d)) = Ok (VDec d)) /\ (forall (k : str) (kt : kty) (vt : ety) (isnil : bool) (kvs : list (gv * gv)), map_lookup_fold k kvs = Some (ptr_to (VDec d)) -> do_ident k (VMap kt vt isnil kvs) = Ok (VDec d)) /\ (forall (k : str) (fs : list (str * bool * bool * gv)), struct_lookup_fold k fs = Some (ptr_to (VDec d)) -> do_ident k (VStruct fs) = Ok (VDec d)) /\ (forall (eng : engines) (cur : gv) (xs : list gv), elems cur = Some (ptr_to (VDec d) :: xs) -> run_func eng "First" [] cur = Ok (VDec d)) /\ (forall (eng : engines) (cur : gv) (xs : list gv), elems cur = Some (xs ++ [ptr_to (VDec d)]) -> run_func eng "Last" [] cur = Ok (VDec d)) /\ (forall (eng : engines) (cur : gv) (xs : list gv) (p : dec) (i : nat), elems cur = Some xs -> Strings.denotes_nat p i -> nth_error xs i = Some (ptr_to (VDec d)) -> Z.of_nat (Datatypes.length xs) < 2 ^ 63 -> run_func eng "Index" [RNum p] cur = Ok (VDec d)) /\ (forall (uni : uclass) (eng : engines) (fuel : nat) (inv me : bool) (k u1 u2 u3 : str) (finv : bool) (name : string) (ps : list param) (kt : kty) (vt : ety) (isnil : bool) (kvs : list (gv * gv)), map_lookup_fold k kvs = Some (ptr_to (VDec d)) -> plain_function name = true -> eval uni eng (S (S (S fuel))) (NPath (Path inv true false me [PIdent k false u1; PFunc (Func finv (bs name) ps u2)] u3)) (VMap kt vt isnil kvs) (VMap kt vt isnil kvs) = (do rt <- eval_params (fun m : node => eval uni eng fuel m (VDec d) (VMap kt vt isnil kvs)) ps; run_func eng name rt (VDec d))) /\ (forall (uni : uclass) (eng : engines) (fuel : nat) (inv me : bool) (k u1 u2 u3 : str) (finv : bool) (name : string) (ps : list param) (fs : list (str * bool * bool * gv)), struct_lookup_fold k fs = Some (ptr_to (VDec d)) -> plain_function name = true -> eval uni eng (S (S (S fuel))) (NPath (Path inv true false me [PIdent k false u1; PFunc (Func finv (bs name) ps u2)] u3)) (VStruct fs) (VStruct fs) = (do rt <- eval_params (fun m : node => eval uni eng fuel m (VDec d) (VStruct fs)) ps; run_func eng name rt (VDec d))).
Proof. exact Mpath.Proofs.C06b.C06b_pointer_to_decimal_positions. Qed.
Print Assumptions C06_pointer_to_decimal_positions.

Theorem C06_pointer_to_decimal_across_array :
  forall (k : str) (t : ety) (xs : list gv) (ds : list dec), xs <> [] -> Forall2 (obj_row k) xs (map ptr_to (map VDec ds)) -> (forall n : bool, do_ident k (VSlice t n xs) = Ok (VSlice EAny false (map VDec ds))) /\ do_ident k (VArray t xs) = Ok (VSlice EAny false (map VDec ds)).
Proof. exact Mpath.Proofs.C06b.C06b_pointer_to_decimal_across_array. Qed.
Print Assumptions C06_pointer_to_decimal_across_array.

Theorem C06_across_array_converts :
  forall (k : str) (t : ety) (xs gs : list gv) (ds : list dec), rows_proj k xs gs -> Forall2 converts gs ds -> gs <> [] -> (forall n : bool, do_ident k (VSlice t n xs) = Ok (VSlice EAny false (map VDec ds))) /\ do_ident k (VArray t xs) = Ok (VSlice EAny false (map VDec ds)).
Proof. exact Mpath.Proofs.C06b.C06b_across_array_converts. Qed.
Print Assumptions C06_across_array_converts.
