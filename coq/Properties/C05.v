(* Properties/C05.v — comparison and equality decide by value, coherently. *)
From Coq Require Import QArith.
From Mpath.Model Require Import Base Dec Types GoVal Funcs.
From Mpath.Proofs Require Import DecQ C05.

(** the four order functions, by name, compute dlt/dle/dgt/dge of the receiver and the argument *)
Theorem C05_comparisons_by_name : forall eng ps v p, params_first_number ps = Ok p ->
  run_func eng "Less" ps (VDec v) = Ok (vbool (dlt v p)) /\
  run_func eng "LessOrEqual" ps (VDec v) = Ok (vbool (dle v p)) /\
  run_func eng "Greater" ps (VDec v) = Ok (vbool (dgt v p)) /\
  run_func eng "GreaterOrEqual" ps (VDec v) = Ok (vbool (dge v p)).
Proof. exact comparisons_by_name. Qed.
Print Assumptions C05_comparisons_by_name.

Theorem C05_equal_numbers : forall eng p v,
  run_func eng "Equal" [RNum p] (VDec v) = Ok (vbool (deq v p)) /\
  run_func eng "NotEqual" [RNum p] (VDec v) = Ok (vbool (negb (deq v p))).
Proof. exact equal_numbers. Qed.
Print Assumptions C05_equal_numbers.

(** exactly one of Less, Equal, Greater; LessOrEqual = Less ∨ Equal;
    GreaterOrEqual = Greater ∨ Equal; NotEqual = ¬Equal *)
Theorem C05_trichotomy_and_identities : forall v p,
  let a := compare_all v p in
  ((a_lt a = true /\ a_eq a = false /\ a_gt a = false) \/
   (a_lt a = false /\ a_eq a = true /\ a_gt a = false) \/
   (a_lt a = false /\ a_eq a = false /\ a_gt a = true)) /\
  a_le a = a_lt a || a_eq a /\ a_ge a = a_gt a || a_eq a /\ a_ne a = negb (a_eq a).
Proof. exact answers_coherent. Qed.
Print Assumptions C05_trichotomy_and_identities.

(** the answers depend on the numeric values alone: 10, 10.0, 1e1 … *)
Theorem C05_repr_invariant : forall v v' p p',
  (dval v == dval v')%Q -> (dval p == dval p')%Q -> compare_all v p = compare_all v' p'.
Proof. exact answers_by_value. Qed.
Print Assumptions C05_repr_invariant.

Theorem C05_decide_by_value : forall v p,
  (a_lt (compare_all v p) = true <-> (dval v < dval p)%Q) /\
  (a_eq (compare_all v p) = true <-> (dval v == dval p)%Q) /\
  (a_gt (compare_all v p) = true <-> (dval p < dval v)%Q).
Proof. exact answers_decide_by_value. Qed.
Print Assumptions C05_decide_by_value.

(** strings and booleans compare exactly *)
Theorem C05_string_exact : forall eng s t,
  run_func eng "Equal" [RStr t] (VStr false s) = Ok (vbool (str_eqb s t)) /\
  run_func eng "NotEqual" [RStr t] (VStr false s) = Ok (vbool (negb (str_eqb s t))).
Proof. exact equal_strings. Qed.
Print Assumptions C05_string_exact.
Theorem C05_str_eqb_is_equality : forall s t : str, str_eqb s t = true <-> s = t.
Proof. exact str_eqb_eq. Qed.
Print Assumptions C05_str_eqb_is_equality.
Theorem C05_bool_exact : forall eng b c,
  run_func eng "Equal" [RBool c] (VBool false b) = Ok (vbool (Bool.eqb b c)) /\
  run_func eng "NotEqual" [RBool c] (VBool false b) = Ok (vbool (negb (Bool.eqb b c))).
Proof. exact equal_bools. Qed.
Print Assumptions C05_bool_exact.

Theorem C05_cross_kind_never_equal : forall eng v s b p t c,
  run_func eng "Equal" [RStr t] (VDec v) = Ok (vbool false) /\
  run_func eng "Equal" [RBool c] (VDec v) = Ok (vbool false) /\
  run_func eng "Equal" [RNum p] (VStr false s) = Ok (vbool false) /\
  run_func eng "Equal" [RBool c] (VStr false s) = Ok (vbool false) /\
  run_func eng "Equal" [RNum p] (VBool false b) = Ok (vbool false) /\
  run_func eng "Equal" [RStr t] (VBool false b) = Ok (vbool false).
Proof. exact cross_kind_never_equal. Qed.
Print Assumptions C05_cross_kind_never_equal.

(** AnyOf: true exactly when the input equals one of the arguments (of its
    kind), whatever their order and number *)
Theorem C05_anyof_numbers : forall eng ps v,
  run_func eng "AnyOf" ps (VDec v) = Ok (vbool (existsb (deq v) (numbers ps))).
Proof. exact any_of_numbers. Qed.
Print Assumptions C05_anyof_numbers.
Theorem C05_anyof_strings : forall eng ps s,
  run_func eng "AnyOf" ps (VStr false s) = Ok (vbool (existsb (str_eqb s) (strings ps))).
Proof. exact any_of_strings. Qed.
Print Assumptions C05_anyof_strings.
Theorem C05_anyof_bools : forall eng ps b,
  run_func eng "AnyOf" ps (VBool false b) = Ok (vbool (existsb (Bool.eqb b) (bools ps))).
Proof. exact any_of_bools. Qed.
Print Assumptions C05_anyof_bools.

Example C05_example :
  compare_all (mkDec 10 0) (mkDec 100 (-1)) = compare_all (mkDec 1 1) (mkDec 10 0) /\
  a_eq (compare_all (mkDec 10 0) (mkDec 100 (-1))) = true /\
  run_func no_engines "AnyOf" [RStr (bs "x"); RNum (mkDec 100 (-1)); RBool true] (VDec (mkDec 1 1)) = Ok (vbool true).
Proof. vm_compute. repeat split. Qed.

(** End to end (Proofs/E2E.v): the same statements for whole queries `$.a.F(args)`
    evaluated on documents (maps with any key type, or structs) whose fields
    are ANY Go carriers of the numbers / plain strings involved, with every
    argument supplied as a literal or as a path `$.b` into the document;
    [param_denotes] says what an argument resolves to, [obj_row] what a key
    holds, [decides o P]: o is a boolean that is true exactly when P. *)
From Coq Require Import QArith Qabs.
From Mpath.Generated Require Import FuncTable.
From Mpath.Proofs Require C06 C06b E2E.
Import Mpath.Proofs.C06 Mpath.Proofs.C06b Mpath.Proofs.E2E.

Theorem C05_E2E_compare :
  forall (uni : Lexer.uclass) (eng : engines) (fuel : nat) (inv me q : bool) (u1 u2 u3 : str) (finv : bool) (cur : gv) (a : str) (p : Ast.param) (doc ga : gv) (da db : dec) (qa qb : Q), obj_row a doc ga -> num_carrier ga da -> source_value ga = Some qa -> param_denotes doc p (RNum db) -> dval db == qb -> decides (Eval.eval uni eng (S (S (S (S (S fuel))))) (Eval.NPath (call_path inv me a q u1 finv "Less" [p] u2 u3)) cur doc) (qa < qb) /\ decides (Eval.eval uni eng (S (S (S (S (S fuel))))) (Eval.NPath (call_path inv me a q u1 finv "LessOrEqual" [p] u2 u3)) cur doc) (qa <= qb) /\ decides (Eval.eval uni eng (S (S (S (S (S fuel))))) (Eval.NPath (call_path inv me a q u1 finv "Greater" [p] u2 u3)) cur doc) (qb < qa) /\ decides (Eval.eval uni eng (S (S (S (S (S fuel))))) (Eval.NPath (call_path inv me a q u1 finv "GreaterOrEqual" [p] u2 u3)) cur doc) (qb <= qa) /\ decides (Eval.eval uni eng (S (S (S (S (S fuel))))) (Eval.NPath (call_path inv me a q u1 finv "Equal" [p] u2 u3)) cur doc) (qa == qb) /\ decides (Eval.eval uni eng (S (S (S (S (S fuel))))) (Eval.NPath (call_path inv me a q u1 finv "NotEqual" [p] u2 u3)) cur doc) (~ qa == qb).
Proof. exact Mpath.Proofs.E2E.E2E_compare. Qed.
Print Assumptions C05_E2E_compare.

Theorem C05_E2E_compare_path :
  forall (uni : Lexer.uclass) (eng : engines) (fuel : nat) (inv me q : bool) (u1 u2 u3 : str) (finv : bool) (cur : gv) (pinv pme pq : bool) (pu pus a b : str) (doc ga gb : gv) (da db : dec) (qa qb : Q), obj_row a doc ga -> obj_row b doc gb -> num_carrier ga da -> num_carrier gb db -> source_value ga = Some qa -> source_value gb = Some qb -> decides (Eval.eval uni eng (S (S (S (S (S fuel))))) (Eval.NPath (call_path inv me a q u1 finv "Less" [Ast.FPPath (key_path pinv pme b pq pu pus)] u2 u3)) cur doc) (qa < qb) /\ decides (Eval.eval uni eng (S (S (S (S (S fuel))))) (Eval.NPath (call_path inv me a q u1 finv "LessOrEqual" [Ast.FPPath (key_path pinv pme b pq pu pus)] u2 u3)) cur doc) (qa <= qb) /\ decides (Eval.eval uni eng (S (S (S (S (S fuel))))) (Eval.NPath (call_path inv me a q u1 finv "Greater" [Ast.FPPath (key_path pinv pme b pq pu pus)] u2 u3)) cur doc) (qb < qa) /\ decides (Eval.eval uni eng (S (S (S (S (S fuel))))) (Eval.NPath (call_path inv me a q u1 finv "GreaterOrEqual" [Ast.FPPath (key_path pinv pme b pq pu pus)] u2 u3)) cur doc) (qb <= qa) /\ decides (Eval.eval uni eng (S (S (S (S (S fuel))))) (Eval.NPath (call_path inv me a q u1 finv "Equal" [Ast.FPPath (key_path pinv pme b pq pu pus)] u2 u3)) cur doc) (qa == qb) /\ decides (Eval.eval uni eng (S (S (S (S (S fuel))))) (Eval.NPath (call_path inv me a q u1 finv "NotEqual" [Ast.FPPath (key_path pinv pme b pq pu pus)] u2 u3)) cur doc) (~ qa == qb).
Proof. exact Mpath.Proofs.E2E.E2E_compare_path. Qed.
Print Assumptions C05_E2E_compare_path.

Theorem C05_E2E_compare_literal :
  forall (uni : Lexer.uclass) (eng : engines) (fuel : nat) (inv me q : bool) (u1 u2 u3 : str) (finv : bool) (cur : gv) (a : str) (d : dec) (doc ga : gv) (da : dec) (qa : Q), obj_row a doc ga -> num_carrier ga da -> source_value ga = Some qa -> decides (Eval.eval uni eng (S (S (S (S (S fuel))))) (Eval.NPath (call_path inv me a q u1 finv "Less" [Ast.FPNum d] u2 u3)) cur doc) (qa < dval d) /\ decides (Eval.eval uni eng (S (S (S (S (S fuel))))) (Eval.NPath (call_path inv me a q u1 finv "LessOrEqual" [Ast.FPNum d] u2 u3)) cur doc) (qa <= dval d) /\ decides (Eval.eval uni eng (S (S (S (S (S fuel))))) (Eval.NPath (call_path inv me a q u1 finv "Greater" [Ast.FPNum d] u2 u3)) cur doc) (dval d < qa) /\ decides (Eval.eval uni eng (S (S (S (S (S fuel))))) (Eval.NPath (call_path inv me a q u1 finv "GreaterOrEqual" [Ast.FPNum d] u2 u3)) cur doc) (dval d <= qa) /\ decides (Eval.eval uni eng (S (S (S (S (S fuel))))) (Eval.NPath (call_path inv me a q u1 finv "Equal" [Ast.FPNum d] u2 u3)) cur doc) (qa == dval d) /\ decides (Eval.eval uni eng (S (S (S (S (S fuel))))) (Eval.NPath (call_path inv me a q u1 finv "NotEqual" [Ast.FPNum d] u2 u3)) cur doc) (~ qa == dval d).
Proof. exact Mpath.Proofs.E2E.E2E_compare_literal. Qed.
Print Assumptions C05_E2E_compare_literal.

Theorem C05_E2E_compare_storage_invariant :
  forall (uni : Lexer.uclass) (eng : engines) (fuel : nat) (inv me q : bool) (u1 u2 u3 : str) (finv : bool) (cur : gv) (a : str) (p p' : Ast.param) (doc doc' ga ga' : gv) (da da' db db' : dec) (qa qa' : Q), obj_row a doc ga -> obj_row a doc' ga' -> num_carrier ga da -> num_carrier ga' da' -> source_value ga = Some qa -> source_value ga' = Some qa' -> qa == qa' -> param_denotes doc p (RNum db) -> param_denotes doc' p' (RNum db') -> dval db == dval db' -> forall name : string, In name comparison_names -> Eval.eval uni eng (S (S (S (S (S fuel))))) (Eval.NPath (call_path inv me a q u1 finv name [p] u2 u3)) cur doc = Eval.eval uni eng (S (S (S (S (S fuel))))) (Eval.NPath (call_path inv me a q u1 finv name [p'] u2 u3)) cur doc'.
Proof. exact Mpath.Proofs.E2E.E2E_compare_storage_invariant. Qed.
Print Assumptions C05_E2E_compare_storage_invariant.

Theorem C05_E2E_storage_invariant_path :
  forall (uni : Lexer.uclass) (eng : engines) (fuel : nat) (inv me q : bool) (u1 u2 u3 : str) (finv : bool) (cur : gv) (pinv pme pq : bool) (pu pus a b : str) (doc doc' ga gb ga' gb' : gv) (da db da' db' : dec) (qa qb qa' qb' : Q), obj_row a doc ga -> obj_row b doc gb -> obj_row a doc' ga' -> obj_row b doc' gb' -> num_carrier ga da -> num_carrier gb db -> num_carrier ga' da' -> num_carrier gb' db' -> source_value ga = Some qa -> source_value gb = Some qb -> source_value ga' = Some qa' -> source_value gb' = Some qb' -> qa == qa' -> qb == qb' -> (forall name : string, In name comparison_names -> Eval.eval uni eng (S (S (S (S (S fuel))))) (Eval.NPath (call_path inv me a q u1 finv name [Ast.FPPath (key_path pinv pme b pq pu pus)] u2 u3)) cur doc = Eval.eval uni eng (S (S (S (S (S fuel))))) (Eval.NPath (call_path inv me a q u1 finv name [Ast.FPPath (key_path pinv pme b pq pu pus)] u2 u3)) cur doc') /\ (forall name : string, In name arithmetic_names -> exists r r' : dec, Eval.eval uni eng (S (S (S (S (S fuel))))) (Eval.NPath (call_path inv me a q u1 finv name [Ast.FPPath (key_path pinv pme b pq pu pus)] u2 u3)) cur doc = Ok (VDec r) /\ Eval.eval uni eng (S (S (S (S (S fuel))))) (Eval.NPath (call_path inv me a q u1 finv name [Ast.FPPath (key_path pinv pme b pq pu pus)] u2 u3)) cur doc' = Ok (VDec r') /\ dval r == dval r').
Proof. exact Mpath.Proofs.E2E.E2E_storage_invariant_path. Qed.
Print Assumptions C05_E2E_storage_invariant_path.

Theorem C05_E2E_storage_invariant_literal_vs_path :
  forall (uni : Lexer.uclass) (eng : engines) (fuel : nat) (inv me q : bool) (u1 u2 u3 : str) (finv : bool) (cur : gv) (pinv pme pq : bool) (pu pus a b : str) (d : dec) (doc doc' ga ga' gb' : gv) (da da' db' : dec) (qa qa' qb' : Q), obj_row a doc ga -> obj_row a doc' ga' -> obj_row b doc' gb' -> num_carrier ga da -> num_carrier ga' da' -> num_carrier gb' db' -> source_value ga = Some qa -> source_value ga' = Some qa' -> source_value gb' = Some qb' -> qa == qa' -> dval d == qb' -> (forall name : string, In name comparison_names -> Eval.eval uni eng (S (S (S (S (S fuel))))) (Eval.NPath (call_path inv me a q u1 finv name [Ast.FPNum d] u2 u3)) cur doc = Eval.eval uni eng (S (S (S (S (S fuel))))) (Eval.NPath (call_path inv me a q u1 finv name [Ast.FPPath (key_path pinv pme b pq pu pus)] u2 u3)) cur doc') /\ (forall name : string, In name arithmetic_names -> exists r r' : dec, Eval.eval uni eng (S (S (S (S (S fuel))))) (Eval.NPath (call_path inv me a q u1 finv name [Ast.FPNum d] u2 u3)) cur doc = Ok (VDec r) /\ Eval.eval uni eng (S (S (S (S (S fuel))))) (Eval.NPath (call_path inv me a q u1 finv name [Ast.FPPath (key_path pinv pme b pq pu pus)] u2 u3)) cur doc' = Ok (VDec r') /\ dval r == dval r').
Proof. exact Mpath.Proofs.E2E.E2E_storage_invariant_literal_vs_path. Qed.
Print Assumptions C05_E2E_storage_invariant_literal_vs_path.
