(* Properties/C12.v — parsing, evaluation and validation are safe to run
   concurrently: the lock discipline and pool ownership part (PARTIAL: the Go
   memory model below whole-map operations, and races inside third-party
   code, are left to the race detector run by the check).

   Generated/Conc.v is regenerated from the function bodies of /repo on every
   run (go/ast): one action program per function that touches a mutex, a
   sync.Pool or a package-level variable (of any type) written after initialisation.  The checker
   [check_table] explores every control path; its soundness w.r.t. an
   interleaving semantics of any number of threads is proved in Proofs/C12.v. *)
From Coq Require Import String List.
Import ListNotations.
From Mpath.Model Require Import Conc.
From Mpath.Generated Require Import Conc.
From Mpath.Generated Require Purity.
From Mpath.Proofs Require C12 C12b.
Import Mpath.Proofs.C12 Mpath.Proofs.C12b.

(** the checker is sound: for ANY table it accepts, any number of threads
    running any of its programs under any schedule never reach a state with
    two threads inside an access to the same shared variable (one a write),
    never share a pool object, never unlock an unheld mutex, and hold nothing
    when they finish *)
Theorem C12_check_locked_sound : forall fuel T,
  check_table fuel T = true ->
  forall (names : list string) (sched : list nat) (g : gstate),
    run T (init T names) sched g ->
    ~ Racy g /\ ~ Shared g /\ ~ Crash T g /\
    (forall i t, nth_error (g_thr g) i = Some t -> finished t ->
       (forall m, s_mtx (g_sh g) m <> Some i) /\ t_owned t = []).
Proof. exact Mpath.Proofs.C12.C12_check_locked_sound. Qed.
Print Assumptions C12_check_locked_sound.

(** the same when only some programs of the table are places a goroutine can
    start in (exported functions, functions used as values, functions nobody
    calls by name: [conc_entries]); the others are helpers, checked in the
    context of their callers — a helper may rely on its caller's lock *)
Theorem C12_check_entries_sound : forall fuel T E,
  check_entries fuel T E = true ->
  forall names, (forall n, In n names -> In n E) ->
  forall (sched : list nat) (g : gstate),
    run T (init T names) sched g ->
    ~ Racy g /\ ~ Shared g /\ ~ Crash T g /\
    (forall i t, nth_error (g_thr g) i = Some t -> finished t ->
       (forall m, s_mtx (g_sh g) m <> Some i) /\ t_owned t = []).
Proof. exact Mpath.Proofs.C12b.C12b_entries_sound. Qed.
Print Assumptions C12_check_entries_sound.

(** checking every program as an entry point is the special case *)
Theorem C12_check_entries_all : forall fuel T, check_entries fuel T (map fst T) = check_table fuel T.
Proof. exact Mpath.Proofs.C12b.C12b_all_entries. Qed.
Print Assumptions C12_check_entries_all.

(** today's entry points, as read off the source, are accepted *)
Theorem C12_entry_points_locked : check_entries 4 conc_table conc_entries = true.
Proof. vm_compute. reflexivity. Qed.
Print Assumptions C12_entry_points_locked.

(** hence: CueValidate, ParseReadSeeker, ParseString and Select, from any
    number of goroutines in any interleaving *)
Theorem C12_entry_points_safe :
  forall (names : list string), (forall n, In n names -> In n conc_entries) ->
  forall (sched : list nat) (g : gstate),
    run conc_table (init conc_table names) sched g ->
    ~ Racy g /\ ~ Shared g /\ ~ Crash conc_table g /\
    (forall i t, nth_error (g_thr g) i = Some t -> finished t ->
       (forall m, s_mtx (g_sh g) m <> Some i) /\ t_owned t = []).
Proof. exact (Mpath.Proofs.C12b.C12b_entries_sound 4 conc_table conc_entries C12_entry_points_locked). Qed.
Print Assumptions C12_entry_points_safe.

(** an access in progress always holds the variable's guard *)
Theorem C12_access_holds_guard : forall fuel T G,
  check_table_with fuel T G = true ->
  forall names sched g, run T (init T names) sched g ->
    forall i t w v, nth_error (g_thr g) i = Some t -> t_acc t = Some (w, v) ->
      exists m, G v = Some m /\ s_mtx (g_sh g) m = Some i.
Proof. exact Mpath.Proofs.C12.C12_access_holds_guard. Qed.
Print Assumptions C12_access_holds_guard.

(** no deadlock: the table locks a single mutex *)
Theorem C12_single_mutex : forallb (fun m => table_locks_only m conc_table) conc_mutexes = true.
Proof. vm_compute. reflexivity. Qed.
Print Assumptions C12_single_mutex.

(** the parsed operation is shared by every goroutine that evaluates it: the evaluation code (every
    Do method, funcs.go, helpers.go) contains no statement that writes through its receiver or a
    parameter (Generated/Purity.v, regenerated from the source on every run), so concurrent
    evaluations only read the operation and shared documents *)
Theorem C12_evaluation_only_reads_the_operation : Mpath.Generated.Purity.evaluation_write_sites = [].
Proof. reflexivity. Qed.
Print Assumptions C12_evaluation_only_reads_the_operation.

(** non-vacuity: the table is not empty and mentions both caches and the pool *)
Example C12_example :
  conc_table <> [] /\ conc_entries <> [] /\ conc_mutable_maps <> [] /\ conc_pools <> [] /\ conc_mutexes <> [] /\
  In "CueValidate" conc_entries /\ In "ParseString" conc_entries.
Proof. repeat split; try discriminate; vm_compute; intuition reflexivity. Qed.
