(* Properties/C04.v — arithmetic is exact decimal arithmetic.
   Only statements, each closed by [exact] of a lemma from Proofs/.
   dval d = coef d * 10^(dexp d) as a rational (Proofs/DecQ.v). *)
From Coq Require Import QArith Qabs.
From Mpath.Model Require Import Base Dec Types GoVal Funcs.
From Mpath.Proofs Require Import DecQ DecMod C04.

(** Add, Subtract, Multiply: the mathematically exact result, for every pair
    of finite decimals (any coefficient, any exponent), however the argument
    is supplied *)
Theorem C04_add_exact : forall eng ps v p, params_first_number ps = Ok p ->
  exists r, run_func eng "Add" ps (VDec v) = Ok (VDec r) /\ (dval r == dval v + dval p)%Q.
Proof. exact add_exact. Qed.
Print Assumptions C04_add_exact.
Theorem C04_sub_exact : forall eng ps v p, params_first_number ps = Ok p ->
  exists r, run_func eng "Subtract" ps (VDec v) = Ok (VDec r) /\ (dval r == dval v - dval p)%Q.
Proof. exact sub_exact. Qed.
Print Assumptions C04_sub_exact.
Theorem C04_mul_exact : forall eng ps v p, params_first_number ps = Ok p ->
  exists r, run_func eng "Multiply" ps (VDec v) = Ok (VDec r) /\ (dval r == dval v * dval p)%Q.
Proof. exact mul_exact. Qed.
Print Assumptions C04_mul_exact.

(** Sum over the array's numbers and the numeric arguments: exact *)
Theorem C04_sum_exact : forall eng ps val ds, agg_operands ps val = Some ds ->
  exists r, run_func eng "Sum" ps val = Ok (VDec r) /\ (dval r == qsum ds)%Q.
Proof. exact sum_exact. Qed.
Print Assumptions C04_sum_exact.

(** Minimum / Maximum: one of the operands, below / above all of them *)
Theorem C04_min_max : forall eng ps val d rest, agg_operands ps val = Some (d :: rest) ->
  (exists r, run_func eng "Minimum" ps val = Ok (VDec r) /\ In r (d :: rest) /\ forall x, In x (d :: rest) -> (dval r <= dval x)%Q) /\
  (exists r, run_func eng "Maximum" ps val = Ok (VDec r) /\ In r (d :: rest) /\ forall x, In x (d :: rest) -> (dval x <= dval r)%Q).
Proof. exact min_max_spec. Qed.
Print Assumptions C04_min_max.

(** Divide: within half a unit of the 16th decimal place of the exact quotient *)
Theorem C04_div_half_unit : forall eng ps v p, params_first_number ps = Ok p -> coef p <> 0%Z ->
  exists r, run_func eng "Divide" ps (VDec v) = Ok (VDec r) /\
            (Qabs (dval r - dval v / dval p) <= (1 # 2) * pow10Q (-16))%Q.
Proof. exact div_half_unit. Qed.
Print Assumptions C04_div_half_unit.

Theorem C04_avg_half_unit : forall eng ps val d d' rest, agg_operands ps val = Some (d :: d' :: rest) ->
  exists r, run_func eng "Average" ps val = Ok (VDec r) /\
    (Qabs (dval r - qsum (d :: d' :: rest) / inject_Z (Z.of_nat (length (d :: d' :: rest)))) <= (1 # 2) * pow10Q (-16))%Q.
Proof. exact avg_half_unit. Qed.
Print Assumptions C04_avg_half_unit.

(** Modulo = a − b·trunc(q) where q is the quotient rounded to 16 places
    (Go's Decimal.Mod); C04_mod_trunc_15 below removes the rounding for
    operands of at most 15 significant digits *)
Theorem C04_mod_rounded_quotient : forall eng ps v p, params_first_number ps = Ok p -> coef p <> 0%Z ->
  exists r, run_func eng "Modulo" ps (VDec v) = Ok (VDec r) /\
            (dval r == dval v - dval p * inject_Z (Qtrunc (dval (ddiv v p))))%Q.
Proof. exact mod_rounded_quotient. Qed.
Print Assumptions C04_mod_rounded_quotient.

(** Modulo returns a − b·trunc(a/b) for operands of at most 15 significant
    digits (any exponents, any signs); the bound matters: C04_mod_17_digits_refuted *)
Theorem C04_mod_trunc_15 : forall a b, digits15 a -> digits15 b -> coef b <> 0%Z ->
  (dval (dmod a b) == dval a - dval b * inject_Z (Qtrunc (dval a / dval b)))%Q.
Proof. exact dmod_exact_15. Qed.
Print Assumptions C04_mod_trunc_15.

Local Open Scope Q_scope.
Theorem C04_mod_sign_and_bound : forall a b, digits15 a -> digits15 b -> coef b <> 0%Z ->
  Qabs (dval (dmod a b)) < Qabs (dval b) /\
  (0 <= dval a -> 0 <= dval (dmod a b)) /\ (dval a <= 0 -> dval (dmod a b) <= 0).
Proof. exact dmod_sign_and_bound. Qed.
Local Close Scope Q_scope.
Print Assumptions C04_mod_sign_and_bound.

Theorem C04_mod_17_digits_refuted : exists a b, coef b <> 0%Z /\
  ~ (dval (dmod a b) == dval a - dval b * inject_Z (Qtrunc (dval a / dval b)))%Q.
Proof. exact dmod_rounding_counterexample. Qed.
Print Assumptions C04_mod_17_digits_refuted.

(** the operand is the same number whether supplied as a literal / data
    number (RNum) or as a numeric string *)
Theorem C04_supply_independent : forall s d, dec_of_string s = Some d ->
  params_first_number [RStr s] = Ok d /\ params_first_number [RNum d] = Ok d.
Proof. intros s d H. split; [exact (params_first_number_str s d H)|exact (params_first_number_lit d)]. Qed.
Print Assumptions C04_supply_independent.

(** no binary floating-point error: 0.1 + 0.2 is exactly 0.3 *)
Example C04_point_one_plus_point_two :
  run_func no_engines "Add" [RNum (mkDec 2 (-1))] (VDec (mkDec 1 (-1))) = Ok (VDec (mkDec 3 (-1))).
Proof. vm_compute. reflexivity. Qed.

(** End to end (Proofs/E2E.v): the same statements for whole queries `$.a.F(args)`
    evaluated on documents (maps with any key type, or structs) whose fields
    are ANY Go carriers of the numbers / plain strings involved, with every
    argument supplied as a literal or as a path `$.b` into the document;
    [param_denotes] says what an argument resolves to, [obj_row] what a key
    holds, [decides o P]: o is a boolean that is true exactly when P. *)
From Coq Require Import QArith Qabs.
From Mpath.Generated Require Import FuncTable.
From Mpath.Proofs Require C06 C06b E2E.
Import Mpath.Proofs.C06 Mpath.Proofs.C06b Mpath.Proofs.E2E.

Theorem C04_E2E_arith :
  forall (uni : Lexer.uclass) (eng : engines) (fuel : nat) (inv me q : bool) (u1 u2 u3 : str) (finv : bool) (cur : gv) (a : str) (p : Ast.param) (doc ga : gv) (da db : dec) (qa qb : Q), obj_row a doc ga -> num_carrier ga da -> source_value ga = Some qa -> param_denotes doc p (RNum db) -> dval db == qb -> (exists r : dec, Eval.eval uni eng (S (S (S (S (S fuel))))) (Eval.NPath (call_path inv me a q u1 finv "Add" [p] u2 u3)) cur doc = Ok (VDec r) /\ dval r == qa + qb) /\ (exists r : dec, Eval.eval uni eng (S (S (S (S (S fuel))))) (Eval.NPath (call_path inv me a q u1 finv "Subtract" [p] u2 u3)) cur doc = Ok (VDec r) /\ dval r == qa - qb) /\ (exists r : dec, Eval.eval uni eng (S (S (S (S (S fuel))))) (Eval.NPath (call_path inv me a q u1 finv "Multiply" [p] u2 u3)) cur doc = Ok (VDec r) /\ dval r == qa * qb).
Proof. exact Mpath.Proofs.E2E.E2E_arith. Qed.
Print Assumptions C04_E2E_arith.

Theorem C04_E2E_arith_path :
  forall (uni : Lexer.uclass) (eng : engines) (fuel : nat) (inv me q : bool) (u1 u2 u3 : str) (finv : bool) (cur : gv) (pinv pme pq : bool) (pu pus a b : str) (doc ga gb : gv) (da db : dec) (qa qb : Q), obj_row a doc ga -> obj_row b doc gb -> num_carrier ga da -> num_carrier gb db -> source_value ga = Some qa -> source_value gb = Some qb -> (exists r : dec, Eval.eval uni eng (S (S (S (S (S fuel))))) (Eval.NPath (call_path inv me a q u1 finv "Add" [Ast.FPPath (key_path pinv pme b pq pu pus)] u2 u3)) cur doc = Ok (VDec r) /\ dval r == qa + qb) /\ (exists r : dec, Eval.eval uni eng (S (S (S (S (S fuel))))) (Eval.NPath (call_path inv me a q u1 finv "Subtract" [Ast.FPPath (key_path pinv pme b pq pu pus)] u2 u3)) cur doc = Ok (VDec r) /\ dval r == qa - qb) /\ (exists r : dec, Eval.eval uni eng (S (S (S (S (S fuel))))) (Eval.NPath (call_path inv me a q u1 finv "Multiply" [Ast.FPPath (key_path pinv pme b pq pu pus)] u2 u3)) cur doc = Ok (VDec r) /\ dval r == qa * qb).
Proof. exact Mpath.Proofs.E2E.E2E_arith_path. Qed.
Print Assumptions C04_E2E_arith_path.

Theorem C04_E2E_arith_literal :
  forall (uni : Lexer.uclass) (eng : engines) (fuel : nat) (inv me q : bool) (u1 u2 u3 : str) (finv : bool) (cur : gv) (a : str) (d : dec) (doc ga : gv) (da : dec) (qa : Q), obj_row a doc ga -> num_carrier ga da -> source_value ga = Some qa -> (exists r : dec, Eval.eval uni eng (S (S (S (S (S fuel))))) (Eval.NPath (call_path inv me a q u1 finv "Add" [Ast.FPNum d] u2 u3)) cur doc = Ok (VDec r) /\ dval r == qa + dval d) /\ (exists r : dec, Eval.eval uni eng (S (S (S (S (S fuel))))) (Eval.NPath (call_path inv me a q u1 finv "Subtract" [Ast.FPNum d] u2 u3)) cur doc = Ok (VDec r) /\ dval r == qa - dval d) /\ (exists r : dec, Eval.eval uni eng (S (S (S (S (S fuel))))) (Eval.NPath (call_path inv me a q u1 finv "Multiply" [Ast.FPNum d] u2 u3)) cur doc = Ok (VDec r) /\ dval r == qa * dval d).
Proof. exact Mpath.Proofs.E2E.E2E_arith_literal. Qed.
Print Assumptions C04_E2E_arith_literal.

Theorem C04_E2E_divide :
  forall (uni : Lexer.uclass) (eng : engines) (fuel : nat) (inv me q : bool) (u1 u2 u3 : str) (finv : bool) (cur : gv) (a : str) (p : Ast.param) (doc ga : gv) (da db : dec) (qa qb : Q), obj_row a doc ga -> num_carrier ga da -> source_value ga = Some qa -> param_denotes doc p (RNum db) -> dval db == qb -> coef db <> 0%Z -> exists r : dec, Eval.eval uni eng (S (S (S (S (S fuel))))) (Eval.NPath (call_path inv me a q u1 finv "Divide" [p] u2 u3)) cur doc = Ok (VDec r) /\ Qabs (dval r - qa / qb) <= (1 # 2) * pow10Q (-16).
Proof. exact Mpath.Proofs.E2E.E2E_divide. Qed.
Print Assumptions C04_E2E_divide.

Theorem C04_E2E_arith_storage_invariant :
  forall (uni : Lexer.uclass) (eng : engines) (fuel : nat) (inv me q : bool) (u1 u2 u3 : str) (finv : bool) (cur : gv) (a : str) (p p' : Ast.param) (doc doc' ga ga' : gv) (da da' db db' : dec) (qa qa' : Q), obj_row a doc ga -> obj_row a doc' ga' -> num_carrier ga da -> num_carrier ga' da' -> source_value ga = Some qa -> source_value ga' = Some qa' -> qa == qa' -> param_denotes doc p (RNum db) -> param_denotes doc' p' (RNum db') -> dval db == dval db' -> forall name : string, In name arithmetic_names -> exists r r' : dec, Eval.eval uni eng (S (S (S (S (S fuel))))) (Eval.NPath (call_path inv me a q u1 finv name [p] u2 u3)) cur doc = Ok (VDec r) /\ Eval.eval uni eng (S (S (S (S (S fuel))))) (Eval.NPath (call_path inv me a q u1 finv name [p'] u2 u3)) cur doc' = Ok (VDec r') /\ dval r == dval r'.
Proof. exact Mpath.Proofs.E2E.E2E_arith_storage_invariant. Qed.
Print Assumptions C04_E2E_arith_storage_invariant.

Theorem C04_E2E_numeric_string_argument :
  forall (uni : Lexer.uclass) (eng : engines) (fuel : nat) (inv me q : bool) (u1 u2 u3 : str) (finv : bool) (cur : gv) (a : str) (p : Ast.param) (doc ga : gv) (da : dec) (qa : Q) (t : str) (db : dec), obj_row a doc ga -> num_carrier ga da -> source_value ga = Some qa -> param_denotes doc p (RStr t) -> dec_of_string t = Some db -> (exists r : dec, Eval.eval uni eng (S (S (S (S (S fuel))))) (Eval.NPath (call_path inv me a q u1 finv "Add" [p] u2 u3)) cur doc = Ok (VDec r) /\ dval r == qa + dval db) /\ (exists r : dec, Eval.eval uni eng (S (S (S (S (S fuel))))) (Eval.NPath (call_path inv me a q u1 finv "Subtract" [p] u2 u3)) cur doc = Ok (VDec r) /\ dval r == qa - dval db) /\ (exists r : dec, Eval.eval uni eng (S (S (S (S (S fuel))))) (Eval.NPath (call_path inv me a q u1 finv "Multiply" [p] u2 u3)) cur doc = Ok (VDec r) /\ dval r == qa * dval db) /\ decides (Eval.eval uni eng (S (S (S (S (S fuel))))) (Eval.NPath (call_path inv me a q u1 finv "Less" [p] u2 u3)) cur doc) (qa < dval db) /\ decides (Eval.eval uni eng (S (S (S (S (S fuel))))) (Eval.NPath (call_path inv me a q u1 finv "LessOrEqual" [p] u2 u3)) cur doc) (qa <= dval db) /\ decides (Eval.eval uni eng (S (S (S (S (S fuel))))) (Eval.NPath (call_path inv me a q u1 finv "Greater" [p] u2 u3)) cur doc) (dval db < qa) /\ decides (Eval.eval uni eng (S (S (S (S (S fuel))))) (Eval.NPath (call_path inv me a q u1 finv "GreaterOrEqual" [p] u2 u3)) cur doc) (dval db <= qa) /\ Eval.eval uni eng (S (S (S (S (S fuel))))) (Eval.NPath (call_path inv me a q u1 finv "Equal" [p] u2 u3)) cur doc = Ok (vbool false) /\ Eval.eval uni eng (S (S (S (S (S fuel))))) (Eval.NPath (call_path inv me a q u1 finv "NotEqual" [p] u2 u3)) cur doc = Ok (vbool true).
Proof. exact Mpath.Proofs.E2E.E2E_numeric_string_argument. Qed.
Print Assumptions C04_E2E_numeric_string_argument.
