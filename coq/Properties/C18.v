(* Properties/C18.v — string functions mean what their names say.
   Only statements, each closed by [exact] of a lemma from Proofs/. *)
From Mpath.Model Require Import Base Dec Types GoVal Funcs.
From Mpath.Proofs Require Import Strings C18.

(** Contains / Prefix / Suffix are the substring, prefix and suffix tests *)
Theorem C18_contains_iff : forall s n : str,
  contains s n = true <-> exists pre post, s = pre ++ n ++ post.
Proof. exact contains_iff. Qed.
Print Assumptions C18_contains_iff.

Theorem C18_prefix_iff : forall s p : str, has_prefix s p = true <-> exists rest, s = p ++ rest.
Proof. exact has_prefix_iff. Qed.
Print Assumptions C18_prefix_iff.

Theorem C18_suffix_iff : forall s p : str, has_suffix s p = true <-> exists pre, s = pre ++ p.
Proof. exact has_suffix_iff. Qed.
Print Assumptions C18_suffix_iff.

(** the six functions, by name, compute those tests; the Not* ones are the exact negations *)
Theorem C18_substring_family_and_negations : forall eng (s p : str),
  run_func eng "Contains" [RStr p] (VStr false s) = Ok (vbool (contains s p)) /\
  run_func eng "NotContains" [RStr p] (VStr false s) = Ok (vbool (negb (contains s p))) /\
  run_func eng "Prefix" [RStr p] (VStr false s) = Ok (vbool (has_prefix s p)) /\
  run_func eng "NotPrefix" [RStr p] (VStr false s) = Ok (vbool (negb (has_prefix s p))) /\
  run_func eng "Suffix" [RStr p] (VStr false s) = Ok (vbool (has_suffix s p)) /\
  run_func eng "NotSuffix" [RStr p] (VStr false s) = Ok (vbool (negb (has_suffix s p))).
Proof. exact substring_family. Qed.
Print Assumptions C18_substring_family_and_negations.

(** Left / Right / TrimLeft / TrimRight with any decimal that denotes the
    natural number n (10, 10.0, 1e1 …): first n / last n bytes, or the text
    without them, clamped at the length.  (Go strings are shorter than 2^63.) *)
Theorem C18_left_right_trim : forall eng w p (n : nat) (s : str),
  denotes_nat p n -> Z.of_nat (length s) < 2 ^ 63 ->
  run_func eng (part_name w) [RNum p] (VStr false s) = Ok (VStr false (part w (Nat.min n (length s)) s)).
Proof. exact part_by_name. Qed.
Print Assumptions C18_left_right_trim.

Theorem C18_left_and_trim_left_partition : forall (s : str) (k : nat), part SLeft k s ++ part STrimLeft k s = s.
Proof. exact left_trim_left_partition. Qed.
Print Assumptions C18_left_and_trim_left_partition.

Theorem C18_negative_count_is_error : forall w p (s : str),
  dis_neg p = true -> dis_integer p = true -> exists e, string_part_func w [RNum p] (VStr false s) = Err e.
Proof. exact negative_count_is_error. Qed.
Print Assumptions C18_negative_count_is_error.

(** ReplaceAll: every non-overlapping occurrence, left to right *)
Theorem C18_replace_all_no_occurrence : forall s f r : str,
  f <> [] -> contains s f = false -> replace_all s f r = s.
Proof. exact replace_all_no_occurrence. Qed.
Print Assumptions C18_replace_all_no_occurrence.

Theorem C18_replace_all_leftmost : forall a b f r : str,
  f <> [] ->
  (forall pre post, a ++ f ++ b = pre ++ f ++ post -> (length a <= length pre)%nat) ->
  replace_all (a ++ f ++ b) f r = a ++ r ++ replace_all b f r.
Proof. exact replace_all_first. Qed.
Print Assumptions C18_replace_all_leftmost.

Theorem C18_replace_all_by_name : forall eng (f r s : str),
  f <> [] -> run_func eng "ReplaceAll" [RStr f; RStr r] (VStr false s) = Ok (VStr false (replace_all s f r)).
Proof. exact replace_all_by_name. Qed.
Print Assumptions C18_replace_all_by_name.

(** the regular-expression functions delegate to the engine (Go's regexp, a
    parameter of the model): arguments in the right order, answer untouched *)
Theorem C18_match_regex_delegates : forall eng (p s : str),
  run_func eng "DoesMatchRegex" [RStr p] (VStr false s) =
  match eng_re_match eng p s with
  | Some (Some b) => Ok (vbool b)
  | Some None => fail "regular expression is invalid"
  | None => Declined "regexp oracle miss"
  end.
Proof. exact match_regex_delegates. Qed.
Print Assumptions C18_match_regex_delegates.

Theorem C18_replace_regex_delegates : forall eng (p tpl s : str),
  p <> [] ->
  run_func eng "ReplaceRegex" [RStr p; RStr tpl] (VStr false s) =
  match eng_re_replace eng p s tpl with
  | Some (Some out) => Ok (vstr out)
  | Some None => fail "regular expression is invalid"
  | None => Declined "regexp oracle miss"
  end.
Proof. exact replace_regex_delegates. Qed.
Print Assumptions C18_replace_regex_delegates.

Example C18_example :
  run_func no_engines "ReplaceAll" [RStr (bs "aa"); RStr (bs "b")] (VStr false (bs "aaaxaa")) = Ok (VStr false (bs "baxb")) /\
  run_func no_engines "Right" [RNum (mkDec 2 0)] (VStr false (bs "hello")) = Ok (VStr false (bs "lo")) /\
  run_func no_engines "TrimRight" [RNum (mkDec 1 1)] (VStr false (bs "hello")) = Ok (VStr false []).
Proof. vm_compute. repeat split. Qed.

(** End to end (Proofs/E2E.v): the same statements for whole queries `$.a.F(args)`
    evaluated on documents (maps with any key type, or structs) whose fields
    are ANY Go carriers of the numbers / plain strings involved, with every
    argument supplied as a literal or as a path `$.b` into the document;
    [param_denotes] says what an argument resolves to, [obj_row] what a key
    holds, [decides o P]: o is a boolean that is true exactly when P. *)
From Coq Require Import QArith Qabs.
From Mpath.Generated Require Import FuncTable.
From Mpath.Proofs Require C06 C06b E2E.
Import Mpath.Proofs.C06 Mpath.Proofs.C06b Mpath.Proofs.E2E.

Theorem C18_E2E_substring :
  forall (uni : Lexer.uclass) (eng : engines) (fuel : nat) (inv me q : bool) (u1 u2 u3 : str) (finv : bool) (cur : gv) (a : str) (p : Ast.param) (doc : gv) (s n : str), obj_row a doc (VStr false s) -> dec_of_string s = None -> param_denotes doc p (RStr n) -> Eval.eval uni eng (S (S (S (S (S fuel))))) (Eval.NPath (call_path inv me a q u1 finv "Contains" [p] u2 u3)) cur doc = Ok (vbool (contains s n)) /\ Eval.eval uni eng (S (S (S (S (S fuel))))) (Eval.NPath (call_path inv me a q u1 finv "NotContains" [p] u2 u3)) cur doc = Ok (vbool (negb (contains s n))) /\ Eval.eval uni eng (S (S (S (S (S fuel))))) (Eval.NPath (call_path inv me a q u1 finv "Prefix" [p] u2 u3)) cur doc = Ok (vbool (has_prefix s n)) /\ Eval.eval uni eng (S (S (S (S (S fuel))))) (Eval.NPath (call_path inv me a q u1 finv "NotPrefix" [p] u2 u3)) cur doc = Ok (vbool (negb (has_prefix s n))) /\ Eval.eval uni eng (S (S (S (S (S fuel))))) (Eval.NPath (call_path inv me a q u1 finv "Suffix" [p] u2 u3)) cur doc = Ok (vbool (has_suffix s n)) /\ Eval.eval uni eng (S (S (S (S (S fuel))))) (Eval.NPath (call_path inv me a q u1 finv "NotSuffix" [p] u2 u3)) cur doc = Ok (vbool (negb (has_suffix s n))).
Proof. exact Mpath.Proofs.E2E.E2E_substring. Qed.
Print Assumptions C18_E2E_substring.

Theorem C18_E2E_substring_path :
  forall (uni : Lexer.uclass) (eng : engines) (fuel : nat) (inv me q : bool) (u1 u2 u3 : str) (finv : bool) (cur : gv) (pinv pme pq : bool) (pu pus a b : str) (doc : gv) (s n : str), obj_row a doc (VStr false s) -> dec_of_string s = None -> obj_row b doc (VStr false n) -> Eval.eval uni eng (S (S (S (S (S fuel))))) (Eval.NPath (call_path inv me a q u1 finv "Contains" [Ast.FPPath (key_path pinv pme b pq pu pus)] u2 u3)) cur doc = Ok (vbool (contains s n)) /\ Eval.eval uni eng (S (S (S (S (S fuel))))) (Eval.NPath (call_path inv me a q u1 finv "NotContains" [Ast.FPPath (key_path pinv pme b pq pu pus)] u2 u3)) cur doc = Ok (vbool (negb (contains s n))) /\ Eval.eval uni eng (S (S (S (S (S fuel))))) (Eval.NPath (call_path inv me a q u1 finv "Prefix" [Ast.FPPath (key_path pinv pme b pq pu pus)] u2 u3)) cur doc = Ok (vbool (has_prefix s n)) /\ Eval.eval uni eng (S (S (S (S (S fuel))))) (Eval.NPath (call_path inv me a q u1 finv "NotPrefix" [Ast.FPPath (key_path pinv pme b pq pu pus)] u2 u3)) cur doc = Ok (vbool (negb (has_prefix s n))) /\ Eval.eval uni eng (S (S (S (S (S fuel))))) (Eval.NPath (call_path inv me a q u1 finv "Suffix" [Ast.FPPath (key_path pinv pme b pq pu pus)] u2 u3)) cur doc = Ok (vbool (has_suffix s n)) /\ Eval.eval uni eng (S (S (S (S (S fuel))))) (Eval.NPath (call_path inv me a q u1 finv "NotSuffix" [Ast.FPPath (key_path pinv pme b pq pu pus)] u2 u3)) cur doc = Ok (vbool (negb (has_suffix s n))).
Proof. exact Mpath.Proofs.E2E.E2E_substring_path. Qed.
Print Assumptions C18_E2E_substring_path.

Theorem C18_E2E_replace_all :
  forall (uni : Lexer.uclass) (eng : engines) (fuel : nat) (inv me q : bool) (u1 u2 u3 : str) (finv : bool) (cur : gv) (a : str) (pf pr : Ast.param) (doc : gv) (s f r : str), obj_row a doc (VStr false s) -> dec_of_string s = None -> param_denotes doc pf (RStr f) -> param_denotes doc pr (RStr r) -> f <> [] -> Eval.eval uni eng (S (S (S (S (S fuel))))) (Eval.NPath (call_path inv me a q u1 finv "ReplaceAll" [pf; pr] u2 u3)) cur doc = Ok (VStr false (replace_all s f r)).
Proof. exact Mpath.Proofs.E2E.E2E_replace_all. Qed.
Print Assumptions C18_E2E_replace_all.

Theorem C18_E2E_replace_all_four_ways :
  forall (uni : Lexer.uclass) (eng : engines) (fuel : nat) (inv me q : bool) (u1 u2 u3 : str) (finv : bool) (cur : gv) (pinv pme pq : bool) (pu pus : str) (rinv rme rq : bool) (ru rus a kf kr : str) (doc : gv) (s f r : str), obj_row a doc (VStr false s) -> dec_of_string s = None -> obj_row kf doc (VStr false f) -> obj_row kr doc (VStr false r) -> f <> [] -> Eval.eval uni eng (S (S (S (S (S fuel))))) (Eval.NPath (call_path inv me a q u1 finv "ReplaceAll" [Ast.FPStr f; Ast.FPStr r] u2 u3)) cur doc = Ok (VStr false (replace_all s f r)) /\ Eval.eval uni eng (S (S (S (S (S fuel))))) (Eval.NPath (call_path inv me a q u1 finv "ReplaceAll" [Ast.FPStr f; Ast.FPPath (key_path rinv rme kr rq ru rus)] u2 u3)) cur doc = Ok (VStr false (replace_all s f r)) /\ Eval.eval uni eng (S (S (S (S (S fuel))))) (Eval.NPath (call_path inv me a q u1 finv "ReplaceAll" [Ast.FPPath (key_path pinv pme kf pq pu pus); Ast.FPStr r] u2 u3)) cur doc = Ok (VStr false (replace_all s f r)) /\ Eval.eval uni eng (S (S (S (S (S fuel))))) (Eval.NPath (call_path inv me a q u1 finv "ReplaceAll" [Ast.FPPath (key_path pinv pme kf pq pu pus); Ast.FPPath (key_path rinv rme kr rq ru rus)] u2 u3)) cur doc = Ok (VStr false (replace_all s f r)).
Proof. exact Mpath.Proofs.E2E.E2E_replace_all_four_ways. Qed.
Print Assumptions C18_E2E_replace_all_four_ways.

Theorem C18_E2E_call_on_string :
  forall (uni : Lexer.uclass) (eng : engines) (fuel : nat) (inv me : bool) (a : str) (q : bool) (u1 u2 u3 : str) (finv : bool) (name : string) (ps : list Ast.param) (rs : list rparam) (cur doc : gv) (s : str), obj_row a doc (VStr false s) -> dec_of_string s = None -> Forall2 (param_denotes doc) ps rs -> plain_function name = true -> Eval.eval uni eng (S (S (S (S (S fuel))))) (Eval.NPath (call_path inv me a q u1 finv name ps u2 u3)) cur doc = run_func eng name rs (VStr false s).
Proof. exact Mpath.Proofs.E2E.E2E_call_on_string. Qed.
Print Assumptions C18_E2E_call_on_string.

(** the slicers end to end (Proofs/E2E3.v): the count a literal (`2`, `2.0`, `20e-1`) or a path to any
    numeric carrier whose value is the natural number n *)
From Mpath.Proofs Require E2E3.
Import Mpath.Proofs.E2E3.

Theorem C18_E2E3_string_slicers :
  forall (uni : Lexer.uclass) (eng : engines) (fuel : nat) (cur : gv) (cinv cme cq : bool) (cu1 cu2 cu3 : str) (cfinv : bool) (a : str) (p : Ast.param) (doc : gv) (s : str) (pd : dec) (n : nat), obj_row a doc (VStr false s) -> dec_of_string s = None -> (Z.of_nat (Datatypes.length s) < 2 ^ 63)%Z -> param_denotes doc p (RNum pd) -> DecQ.dval pd == inject_Z (Z.of_nat n) -> Eval.eval uni eng (S (S (S (S (S (S (S fuel))))))) (Eval.NPath (call_path cinv cme a cq cu1 cfinv "Left" [p] cu2 cu3)) cur doc = Ok (VStr false (part SLeft (Nat.min n (Datatypes.length s)) s)) /\ Eval.eval uni eng (S (S (S (S (S (S (S fuel))))))) (Eval.NPath (call_path cinv cme a cq cu1 cfinv "Right" [p] cu2 cu3)) cur doc = Ok (VStr false (part SRight (Nat.min n (Datatypes.length s)) s)) /\ Eval.eval uni eng (S (S (S (S (S (S (S fuel))))))) (Eval.NPath (call_path cinv cme a cq cu1 cfinv "TrimLeft" [p] cu2 cu3)) cur doc = Ok (VStr false (part STrimLeft (Nat.min n (Datatypes.length s)) s)) /\ Eval.eval uni eng (S (S (S (S (S (S (S fuel))))))) (Eval.NPath (call_path cinv cme a cq cu1 cfinv "TrimRight" [p] cu2 cu3)) cur doc = Ok (VStr false (part STrimRight (Nat.min n (Datatypes.length s)) s)).
Proof. exact Mpath.Proofs.E2E3.E2E3_string_slicers. Qed.
Print Assumptions C18_E2E3_string_slicers.
