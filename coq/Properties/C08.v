(* Properties/C08.v — parsing is total and honours its (operation, error)
   contract.  Statements only (restated as Coq prints them); proofs in
   Proofs/C08.v.  Model/Lexer.v + Model/Parser.v: the parser; Model/Reader.v:
   how text/scanner turns a chunked, possibly failing reader into runes;
   Model/Sys.v: the pooled scanner object and ParseReadSeeker's protocol
   (Reset, error handler, deferred clean-up) as a state machine over
   histories of earlier parses. *)
From Coq Require Import String List.
From Mpath.Model Require Import Base Dec Types GoVal Ast Lexer Parser Reader Sys.
From Mpath.Proofs Require C08.
Import Mpath.Proofs.C08.

Theorem C08_parse_total :
  forall toks : list token, parse_tokens toks <> OutOfFuel.
Proof. exact Mpath.Proofs.C08.C08_parse_total. Qed.
Print Assumptions C08_parse_total.

Theorem C08_parse_string_total :
  forall (uni : uclass) (s : str), (exists t : top, parse_string uni s = Ok t) \/ (exists e : err, parse_string uni s = Err e) \/ (exists w : string, parse_string uni s = Declined w /\ (exists n : str, numeral n = NumUnknown)).
Proof. exact Mpath.Proofs.C08.C08_parse_string_total. Qed.
Print Assumptions C08_parse_string_total.

Theorem C08_parse_string_no_fuel_no_panic :
  forall (uni : uclass) (s : str), parse_string uni s <> OutOfFuel /\ (forall m : string, parse_string uni s <> Panic m).
Proof. exact Mpath.Proofs.C08.C08_parse_string_no_fuel_no_panic. Qed.
Print Assumptions C08_parse_string_no_fuel_no_panic.

Theorem C08_exactly_one :
  forall (toks : list token) (t : top), parse_tokens toks = Ok t <-> (exists (c : cursor) (r : list token), parse_tokens_st toks = Ok (t, (c, r)) /\ r = [] /\ (c = CEOF \/ c = CZero)).
Proof. exact Mpath.Proofs.C08.C08_exactly_one. Qed.
Print Assumptions C08_exactly_one.

Theorem C08_lex_fuel_sufficient :
  forall (uni : uclass) (cs : list (Z * str)) (k : nat), (S (Datatypes.length cs) <= k)%nat -> tokens_fuel uni k cs = tokens_fuel uni (S (Datatypes.length cs)) cs.
Proof. exact Mpath.Proofs.C08.C08_lex_fuel_sufficient. Qed.
Print Assumptions C08_lex_fuel_sufficient.

Theorem C08_chunk_independent :
  forall (uni : uclass) (bs_list : list str), parse_reader uni (map RChunk bs_list) = parse_string uni (concat bs_list).
Proof. exact Mpath.Proofs.C08.C08_chunk_independent. Qed.
Print Assumptions C08_chunk_independent.

Theorem C08_chars_chunk_independent :
  forall bl : list str, chars_of_reader (map RChunk bl) = chars (concat bl).
Proof. exact Mpath.Proofs.C08.C08_chars_chunk_independent. Qed.
Print Assumptions C08_chars_chunk_independent.

Theorem C08_fault_is_error :
  forall (uni : uclass) (pre : list str) (post : reader), parse_reader uni (map RChunk pre ++ RErr :: post) = Err (EOther "scanner error").
Proof. exact Mpath.Proofs.C08.C08_fault_is_error. Qed.
Print Assumptions C08_fault_is_error.

Theorem C08_offset_independent :
  forall (uni : uclass) (data : str) (off off' : nat) (ok : bool) (plan : list nat) (fault : option nat), parse_read_seeker uni {| rs_data := data; rs_off := off; rs_seek_ok := ok; rs_plan := plan; rs_fault := fault |} = parse_read_seeker uni {| rs_data := data; rs_off := off'; rs_seek_ok := ok; rs_plan := plan; rs_fault := fault |}.
Proof. exact Mpath.Proofs.C08.C08_offset_independent. Qed.
Print Assumptions C08_offset_independent.

Theorem C08_read_seeker :
  forall (uni : uclass) (data : str) (off : nat) (plan : list nat), parse_read_seeker uni {| rs_data := data; rs_off := off; rs_seek_ok := true; rs_plan := plan; rs_fault := None |} = parse_string uni data.
Proof. exact Mpath.Proofs.C08.C08_read_seeker. Qed.
Print Assumptions C08_read_seeker.

Theorem C08_read_seeker_fault :
  forall (uni : uclass) (data : str) (off : nat) (ok : bool) (plan : list nat) (n : nat), exists e : err, parse_read_seeker uni {| rs_data := data; rs_off := off; rs_seek_ok := ok; rs_plan := plan; rs_fault := Some n |} = Err e.
Proof. exact Mpath.Proofs.C08.C08_read_seeker_fault. Qed.
Print Assumptions C08_read_seeker_fault.

Theorem C08_put_back_clean :
  forall (o : sobj) (uni : uclass) (bytes : str), s_ident_std o = true -> clean (snd (parse_with o uni bytes)).
Proof. exact Mpath.Proofs.C08.C08_put_back_clean. Qed.
Print Assumptions C08_put_back_clean.

Theorem C08_pool_invariant :
  forall (history : list call) (p : list sobj), Forall clean p -> Forall clean (run history p).
Proof. exact Mpath.Proofs.C08.C08_pool_invariant. Qed.
Print Assumptions C08_pool_invariant.

Theorem C08_history_independent :
  forall (history : list call) (pick : option nat) (uni : uclass) (bytes : str), snd (step (run history []) (Parse pick uni bytes)) = parse_string uni bytes.
Proof. exact Mpath.Proofs.C08.C08_history_independent. Qed.
Print Assumptions C08_history_independent.

Theorem C08_stale_error_would_leak :
  forall (o : sobj) (m : string) (uni : uclass) (bytes : str) (t : top), s_err o = Some m -> s_ident_std o = true -> parse_string uni bytes = Ok t -> fst (parse_with o uni bytes) = Err (EOther m).
Proof. exact Mpath.Proofs.C08.C08_stale_error_would_leak. Qed.
Print Assumptions C08_stale_error_would_leak.

Theorem C08_clean_is_necessary :
  forall o : sobj, (forall (uni : uclass) (bytes : str), fst (parse_with o uni bytes) = parse_string uni bytes) -> clean o.
Proof. exact Mpath.Proofs.C08.C08_clean_is_necessary. Qed.
Print Assumptions C08_clean_is_necessary.

Theorem C08_no_stderr :
  forall (o : sobj) (uni : uclass) (bytes : str), writes_stderr (reset o) uni bytes = false.
Proof. exact Mpath.Proofs.C08.C08_no_stderr. Qed.
Print Assumptions C08_no_stderr.

(** the pooled scanners are the only state a parse can leave behind: apart from the pool, one mutex
    and the two validation caches (C16) the package has no variable written after initialisation and
    no self-synchronising value — Generated/State.v, regenerated from the source on every run *)
From Coq Require Import String List.
From Mpath.Generated Require State.
Theorem C08_state_inventory :
  map fst Mpath.Generated.State.package_state = ["mutex"; "pool"; "variable"; "variable"]%string.
Proof. reflexivity. Qed.
Print Assumptions C08_state_inventory.
