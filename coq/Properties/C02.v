(* Properties/C02.v — a filter keeps exactly the matching elements, in order.
   Only statements, each closed by [exact] of a lemma from Proofs/, with
   Print Assumptions beneath. *)
From Mpath.Model Require Import Base Dec Types GoVal Ast Lexer Parser Funcs Eval.
From Mpath.Spec Require Import Logic.
From Mpath.Proofs Require Import C03 C02.

(** [coll[l]] over any slice or array (typed or not, through a pointer or
    not): if the filter body evaluates on every element x (bound to `@`, with
    `$` bound to the original data) to a Go bool b_x, the result is exactly
    the elements with b_x = true, in order, as a []any. *)
Theorem C02_filter_array :
  forall uni eng fuel l us cur orig xs bs,
    as_elems cur = Some xs ->
    Forall2 (fun x b => eval uni eng fuel (NLog l) x orig = Ok (vbool b)) xs bs ->
    eval uni eng (S fuel) (NOp (PFilter l us)) cur orig = Ok (VSlice EAny false (keep xs bs)).
Proof. exact filter_array. Qed.
Print Assumptions C02_filter_array.

(** the kept elements are a subsequence of the input: original order, unchanged *)
Theorem C02_filter_order_unchanged :
  forall (xs : list gv) bs, subseq (keep xs bs) xs.
Proof. exact (@keep_subseq gv). Qed.
Print Assumptions C02_filter_order_unchanged.

(** predicates combine with AND (is_and = true: also the parser's default,
    see C03_default_and) or OR *)
Theorem C02_filter_and_or :
  forall uni eng fuel inv is_and ps us us' cur orig xs (val : gv -> operand -> bool),
    as_elems cur = Some xs ->
    (forall x p, In x xs -> In p ps -> eval uni eng fuel (operand_node p) x orig = Ok (vbool (val x p))) ->
    eval uni eng (S (S fuel)) (NOp (PFilter (LogOp inv true (lot_of is_and) ps us) us')) cur orig
    = Ok (VSlice EAny false (filter (fun x => group_value is_and (map (val x) ps)) xs)).
Proof. exact filter_group. Qed.
Print Assumptions C02_filter_and_or.

Theorem C02_filter_empty :
  forall uni eng fuel l us cur orig,
    as_elems cur = Some [] ->
    eval uni eng (S fuel) (NOp (PFilter l us)) cur orig = Ok (VSlice EAny false []).
Proof. exact filter_empty. Qed.
Print Assumptions C02_filter_empty.

(** [coll[p][q]] equals [coll[AND,p,q]] *)
Theorem C02_filter_chain :
  forall uni eng fuel p q us1 us2 us3 u1 u2 u3 cur orig xs (vp vq : gv -> bool),
    as_elems cur = Some xs ->
    (forall x, In x xs -> eval uni eng fuel (operand_node p) x orig = Ok (vbool (vp x))) ->
    (forall x, In x xs -> eval uni eng fuel (operand_node q) x orig = Ok (vbool (vq x))) ->
    exists mid,
      eval uni eng (S (S fuel)) (NOp (PFilter (LogOp false true LAnd [p] us1) u1)) cur orig = Ok mid /\
      eval uni eng (S (S fuel)) (NOp (PFilter (LogOp false true LAnd [q] us2) u2)) mid orig
      = eval uni eng (S (S fuel)) (NOp (PFilter (LogOp false true LAnd [p; q] us3) u3)) cur orig.
Proof. exact filter_chain. Qed.
Print Assumptions C02_filter_chain.

(** a single object: itself when the predicate is true, null otherwise *)
Theorem C02_filter_object :
  forall uni eng fuel l us cur orig val b,
    get_as_struct_or_slice cur = Some (val, true) ->
    eval uni eng fuel (NLog l) val orig = Ok (vbool b) ->
    eval uni eng (S fuel) (NOp (PFilter l us)) cur orig = Ok (if b then val else VNil).
Proof. exact filter_object. Qed.
Print Assumptions C02_filter_object.

(** `$` denotes the original data wherever it occurs *)
Theorem C02_root_binding :
  forall uni eng fuel inv isf me ops us cur cur' orig,
    eval uni eng fuel (NPath (Path inv true isf me ops us)) cur orig
    = eval uni eng fuel (NPath (Path inv true isf me ops us)) cur' orig.
Proof. exact root_path_ignores_current. Qed.
Print Assumptions C02_root_binding.

(** `@` denotes the element under test *)
Theorem C02_element_binding :
  forall uni eng fuel l us cur orig xs,
    as_elems cur = Some xs ->
    eval uni eng (S fuel) (NOp (PFilter l us)) cur orig
    = bind (filter_elems (fun x => eval uni eng fuel (NLog l) x orig) xs) (fun ys => Ok (VSlice EAny false ys)).
Proof. exact filter_binds_element. Qed.
Print Assumptions C02_element_binding.

(** Non-vacuity: a concrete filter with a `$`-reading argument over a typed
    array of objects. *)
Example C02_example :
  exists t, parse_string uni_ascii (bs "$.xs[@.n.Greater($.lim)].Count()") = Ok t /\
  do_top uni_ascii no_engines t
    (VMap KtStr EAny false
       [(VStr false (bs "lim"), VFloat false false (FFin (mkDec 1 0)));
        (VStr false (bs "xs"), VSlice EAny false
           [VMap KtStr EAny false [(VStr false (bs "n"), VFloat false false (FFin (mkDec 1 0)))];
            VMap KtStr EAny false [(VStr false (bs "n"), VFloat false false (FFin (mkDec 2 0)))];
            VMap KtStr EAny false [(VStr false (bs "n"), VFloat false false (FFin (mkDec 3 0)))]])])
  = Ok (VDec (mkDec 2 0)).
Proof. eexists. split; [vm_compute; reflexivity|]. vm_compute. reflexivity. Qed.

(** End to end (Proofs/E2E2.v): whole filter queries `$.a[@.k.F(p)]…` on a document whose key `a`
    holds an array (slice or Go array, any element type, directly or behind one pointer) of rows that
    are objects in ANY carrier, the compared field a number in ANY Go carrier; the threshold a literal or
    a path `$.lim` into the document (bound to the document, not to the row).  [rows_doc] bundles these
    hypotheses; [flags F qs qp] are the truth values of the comparison on the rows' source values;
    [keep rows bs] (C02) is the sub-list selected by bs, in order. *)
From Coq Require Import QArith.
From Mpath.Proofs Require C06 C06b C17 E2E E2E2.
Import Mpath.Proofs.C06 Mpath.Proofs.C06b Mpath.Proofs.C17 Mpath.Proofs.E2E Mpath.Proofs.E2E2.

Theorem C02_E2E2_filter_compare :
  forall (uni : uclass) (eng : engines) (fuel : nat) (inv me xq : bool) (xu us : str) (cur : gv) (a k : str) (linv lisf : bool) (lus fus : str) (pinv pisf pme kq : bool) (ku : str) (finv : bool) (fu pus : str) (F : string) (p : param) (doc arr : gv) (rows gs : list gv) (ds : list dec) (qs : list Q) (db : dec) (qp : Q), In F comparison_names -> rows_doc a k doc arr rows gs ds qs -> (is_nil arr = true -> xq = true) -> param_denotes doc p (RNum db) -> DecQ.dval db == qp -> eval uni eng (S (S (S (S (S (S (S (S fuel)))))))) (NPath (filter_path inv me a xq xu (filter_op linv lisf LAnd [pred_path pinv pisf pme k kq ku finv F [p] fu pus] lus fus) [] us)) cur doc = Ok (VSlice EAny false (keep rows (flags F qs qp))) /\ Forall2 (fun (q : Q) (b : bool) => b = true <-> cmp_rel F q qp) qs (flags F qs qp) /\ subseq (keep rows (flags F qs qp)) rows.
Proof. exact Mpath.Proofs.E2E2.E2E2_filter_compare. Qed.
Print Assumptions C02_E2E2_filter_compare.

Theorem C02_E2E2_filter_compare_literal :
  forall (uni : uclass) (eng : engines) (fuel : nat) (inv me xq : bool) (xu us : str) (cur : gv) (a k : str) (linv lisf : bool) (lus fus : str) (pinv pisf pme kq : bool) (ku : str) (finv : bool) (fu pus : str) (F : string) (p : dec) (doc arr : gv) (rows gs : list gv) (ds : list dec) (qs : list Q) (qp : Q), In F comparison_names -> rows_doc a k doc arr rows gs ds qs -> (is_nil arr = true -> xq = true) -> DecQ.dval p == qp -> eval uni eng (S (S (S (S (S (S (S (S fuel)))))))) (NPath (filter_path inv me a xq xu (filter_op linv lisf LAnd [pred_path pinv pisf pme k kq ku finv F [FPNum p] fu pus] lus fus) [] us)) cur doc = Ok (VSlice EAny false (keep rows (flags F qs qp))) /\ Forall2 (fun (q : Q) (b : bool) => b = true <-> cmp_rel F q qp) qs (flags F qs qp) /\ subseq (keep rows (flags F qs qp)) rows.
Proof. exact Mpath.Proofs.E2E2.E2E2_filter_compare_literal. Qed.
Print Assumptions C02_E2E2_filter_compare_literal.

Theorem C02_E2E2_filter_compare_root_argument :
  forall (uni : uclass) (eng : engines) (fuel : nat) (inv me xq : bool) (xu us : str) (cur : gv) (a k : str) (linv lisf : bool) (lus fus : str) (pinv pisf pme kq : bool) (ku : str) (finv : bool) (fu pus : str) (ainv ame aq : bool) (au aus : str) (F : string) (lim : str) (glim : gv) (dlim : dec) (doc arr : gv) (rows gs : list gv) (ds : list dec) (qs : list Q) (qp : Q), In F comparison_names -> rows_doc a k doc arr rows gs ds qs -> (is_nil arr = true -> xq = true) -> obj_row lim doc glim -> num_carrier glim dlim -> source_value glim = Some qp -> eval uni eng (S (S (S (S (S (S (S (S fuel)))))))) (NPath (filter_path inv me a xq xu (filter_op linv lisf LAnd [pred_path pinv pisf pme k kq ku finv F [FPPath (key_path ainv ame lim aq au aus)] fu pus] lus fus) [] us)) cur doc = Ok (VSlice EAny false (keep rows (flags F qs qp))) /\ Forall2 (fun (q : Q) (b : bool) => b = true <-> cmp_rel F q qp) qs (flags F qs qp) /\ subseq (keep rows (flags F qs qp)) rows.
Proof. exact Mpath.Proofs.E2E2.E2E2_filter_compare_root_argument. Qed.
Print Assumptions C02_E2E2_filter_compare_root_argument.

Theorem C02_E2E2_filter_count :
  forall (uni : uclass) (eng : engines) (fuel : nat) (inv me xq : bool) (xu us : str) (cur : gv) (a k : str) (linv lisf : bool) (lus fus : str) (pinv pisf pme kq : bool) (ku : str) (finv : bool) (fu pus : str) (cinv : bool) (cu : str) (F : string) (p : param) (doc arr : gv) (rows gs : list gv) (ds : list dec) (qs : list Q) (db : dec) (qp : Q), In F comparison_names -> rows_doc a k doc arr rows gs ds qs -> (is_nil arr = true -> xq = true) -> param_denotes doc p (RNum db) -> DecQ.dval db == qp -> let n := Datatypes.length (filter (fun q : Q => cmp_holds F q qp) qs) in eval uni eng (S (S (S (S (S (S (S (S fuel)))))))) (NPath (filter_path inv me a xq xu (filter_op linv lisf LAnd [pred_path pinv pisf pme k kq ku finv F [p] fu pus] lus fus) [count_op cinv cu] us)) cur doc = Ok (VDec {| coef := Z.of_nat n; dexp := 0 |}) /\ DecQ.dval {| coef := Z.of_nat n; dexp := 0 |} == inject_Z (Z.of_nat n).
Proof. exact Mpath.Proofs.E2E2.E2E2_filter_count. Qed.
Print Assumptions C02_E2E2_filter_count.

Theorem C02_E2E2_filter_then_key :
  forall (uni : uclass) (eng : engines) (fuel : nat) (inv me xq : bool) (xu us : str) (cur : gv) (a k : str) (linv lisf : bool) (lus fus : str) (pinv pisf pme kq : bool) (ku : str) (finv : bool) (fu pus : str) (tq : bool) (tu : str) (F : string) (p : param) (doc arr : gv) (rows gs : list gv) (ds : list dec) (qs : list Q) (db : dec) (qp : Q), In F comparison_names -> rows_doc a k doc arr rows gs ds qs -> is_nil arr = false -> param_denotes doc p (RNum db) -> DecQ.dval db == qp -> Exists (fun q : Q => cmp_rel F q qp) qs -> eval uni eng (S (S (S (S (S (S (S (S fuel)))))))) (NPath (filter_path inv me a xq xu (filter_op linv lisf LAnd [pred_path pinv pisf pme k kq ku finv F [p] fu pus] lus fus) [PIdent k tq tu] us)) cur doc = Ok (VSlice EAny false (map VDec (keep ds (flags F qs qp)))) /\ Forall2 (fun (g : gv) (d : dec) => exists q : Q, source_value g = Some q /\ DecQ.dval d == q) (keep gs (flags F qs qp)) (keep ds (flags F qs qp)).
Proof. exact Mpath.Proofs.E2E2.E2E2_filter_then_key. Qed.
Print Assumptions C02_E2E2_filter_then_key.

Theorem C02_E2E2_filter_then_key_none :
  forall (uni : uclass) (eng : engines) (fuel : nat) (inv me xq : bool) (xu us : str) (cur : gv) (a k : str) (linv lisf : bool) (lus fus : str) (pinv pisf pme kq : bool) (ku : str) (finv : bool) (fu pus : str) (tq : bool) (tu : str) (F : string) (p : param) (doc arr : gv) (rows gs : list gv) (ds : list dec) (qs : list Q) (db : dec) (qp : Q), In F comparison_names -> rows_doc a k doc arr rows gs ds qs -> is_nil arr = false -> param_denotes doc p (RNum db) -> DecQ.dval db == qp -> Forall (fun q : Q => ~ cmp_rel F q qp) qs -> eval uni eng (S (S (S (S (S (S (S (S fuel)))))))) (NPath (filter_path inv me a xq xu (filter_op linv lisf LAnd [pred_path pinv pisf pme k kq ku finv F [p] fu pus] lus fus) [PIdent k tq tu] us)) cur doc = Err EKeyNotFound.
Proof. exact Mpath.Proofs.E2E2.E2E2_filter_then_key_none. Qed.
Print Assumptions C02_E2E2_filter_then_key_none.

Theorem C02_E2E2_filter_or_and :
  forall (uni : uclass) (eng : engines) (fuel : nat) (inv me xq : bool) (xu us : str) (cur : gv) (a k : str) (linv lisf : bool) (lus fus : str) (linv' lisf' : bool) (lus' fus' : str) (pinv pisf pme kq : bool) (ku : str) (finv : bool) (fu pus : str) (pinv' pisf' pme' kq' : bool) (ku' : str) (finv' : bool) (fu' pus' : str) (F1 F2 : string) (p1 p2 : param) (doc arr : gv) (rows gs : list gv) (ds : list dec) (qs : list Q) (db1 db2 : dec) (qp1 qp2 : Q), In F1 comparison_names -> In F2 comparison_names -> rows_doc a k doc arr rows gs ds qs -> (is_nil arr = true -> xq = true) -> param_denotes doc p1 (RNum db1) -> DecQ.dval db1 == qp1 -> param_denotes doc p2 (RNum db2) -> DecQ.dval db2 == qp2 -> (eval uni eng (S (S (S (S (S (S (S (S fuel)))))))) (NPath (filter_path inv me a xq xu (filter_op linv lisf LOr [pred_path pinv pisf pme k kq ku finv F1 [p1] fu pus; pred_path pinv' pisf' pme' k kq' ku' finv' F2 [p2] fu' pus'] lus fus) [] us)) cur doc = Ok (VSlice EAny false (keep rows (flags_or F1 F2 qs qp1 qp2))) /\ Forall2 (fun (q : Q) (b : bool) => b = true <-> cmp_rel F1 q qp1 \/ cmp_rel F2 q qp2) qs (flags_or F1 F2 qs qp1 qp2)) /\ (eval uni eng (S (S (S (S (S (S (S (S fuel)))))))) (NPath (filter_path inv me a xq xu (filter_op linv lisf LAnd [pred_path pinv pisf pme k kq ku finv F1 [p1] fu pus; pred_path pinv' pisf' pme' k kq' ku' finv' F2 [p2] fu' pus'] lus fus) [] us)) cur doc = Ok (VSlice EAny false (keep rows (flags_and F1 F2 qs qp1 qp2))) /\ Forall2 (fun (q : Q) (b : bool) => b = true <-> cmp_rel F1 q qp1 /\ cmp_rel F2 q qp2) qs (flags_and F1 F2 qs qp1 qp2)) /\ (is_nil arr = false -> eval uni eng (S (S (S (S (S (S (S (S fuel)))))))) (NPath (filter_path inv me a xq xu (filter_op linv lisf LAnd [pred_path pinv pisf pme k kq ku finv F1 [p1] fu pus] lus fus) [filter_op linv' lisf' LAnd [pred_path pinv' pisf' pme' k kq' ku' finv' F2 [p2] fu' pus'] lus' fus'] us)) cur doc = Ok (VSlice EAny false (keep rows (flags_and F1 F2 qs qp1 qp2))) /\ eval uni eng (S (S (S (S (S (S (S (S fuel)))))))) (NPath (filter_path inv me a xq xu (filter_op linv lisf LAnd [pred_path pinv pisf pme k kq ku finv F1 [p1] fu pus] lus fus) [filter_op linv' lisf' LAnd [pred_path pinv' pisf' pme' k kq' ku' finv' F2 [p2] fu' pus'] lus' fus'] us)) cur doc = eval uni eng (S (S (S (S (S (S (S (S fuel)))))))) (NPath (filter_path inv me a xq xu (filter_op linv lisf LAnd [pred_path pinv pisf pme k kq ku finv F1 [p1] fu pus; pred_path pinv' pisf' pme' k kq' ku' finv' F2 [p2] fu' pus'] lus fus) [] us)) cur doc).
Proof. exact Mpath.Proofs.E2E2.E2E2_filter_or_and. Qed.
Print Assumptions C02_E2E2_filter_or_and.

Theorem C02_E2E2_storage_invariant :
  forall (uni : uclass) (eng : engines) (fuel : nat) (inv me xq : bool) (xu us : str) (cur : gv) (a k : str) (linv lisf : bool) (lus fus : str) (pinv pisf pme kq : bool) (ku : str) (finv : bool) (fu pus : str) (cinv : bool) (cu : str) (tq : bool) (tu : str) (F : string) (p p' : param) (doc doc' arr arr' : gv) (rows rows' gs gs' : list gv) (ds ds' : list dec) (qs qs' : list Q) (db db' : dec) (qp qp' : Q), In F comparison_names -> rows_doc a k doc arr rows gs ds qs -> rows_doc a k doc' arr' rows' gs' ds' qs' -> (is_nil arr = true -> xq = true) -> (is_nil arr' = true -> xq = true) -> Forall2 Qeq qs qs' -> param_denotes doc p (RNum db) -> param_denotes doc' p' (RNum db') -> DecQ.dval db == qp -> DecQ.dval db' == qp' -> qp == qp' -> exists bs : list bool, bs = flags F qs qp /\ bs = flags F qs' qp' /\ eval uni eng (S (S (S (S (S (S (S (S fuel)))))))) (NPath (filter_path inv me a xq xu (filter_op linv lisf LAnd [pred_path pinv pisf pme k kq ku finv F [p] fu pus] lus fus) [] us)) cur doc = Ok (VSlice EAny false (keep rows bs)) /\ eval uni eng (S (S (S (S (S (S (S (S fuel)))))))) (NPath (filter_path inv me a xq xu (filter_op linv lisf LAnd [pred_path pinv pisf pme k kq ku finv F [p'] fu pus] lus fus) [] us)) cur doc' = Ok (VSlice EAny false (keep rows' bs)) /\ eval uni eng (S (S (S (S (S (S (S (S fuel)))))))) (NPath (filter_path inv me a xq xu (filter_op linv lisf LAnd [pred_path pinv pisf pme k kq ku finv F [p] fu pus] lus fus) [count_op cinv cu] us)) cur doc = eval uni eng (S (S (S (S (S (S (S (S fuel)))))))) (NPath (filter_path inv me a xq xu (filter_op linv lisf LAnd [pred_path pinv pisf pme k kq ku finv F [p'] fu pus] lus fus) [count_op cinv cu] us)) cur doc' /\ (is_nil arr = false -> is_nil arr' = false -> eval uni eng (S (S (S (S (S (S (S (S fuel)))))))) (NPath (filter_path inv me a xq xu (filter_op linv lisf LAnd [pred_path pinv pisf pme k kq ku finv F [p] fu pus] lus fus) [PIdent k tq tu] us)) cur doc = key_result (keep ds bs) /\ eval uni eng (S (S (S (S (S (S (S (S fuel)))))))) (NPath (filter_path inv me a xq xu (filter_op linv lisf LAnd [pred_path pinv pisf pme k kq ku finv F [p'] fu pus] lus fus) [PIdent k tq tu] us)) cur doc' = key_result (keep ds' bs)) /\ Forall2 (fun d d' : dec => DecQ.dval d == DecQ.dval d') (keep ds bs) (keep ds' bs).
Proof. exact Mpath.Proofs.E2E2.E2E2_storage_invariant. Qed.
Print Assumptions C02_E2E2_storage_invariant.
